import I2N.Lemmas.TravResults
/-!
The "inverse DFS" invariants of the traversal model behind C01 (a test starts only after this worker traversed all
its parents) and C05 (a state is removed only after the clean decision saw every involved worker cleanup-ready).

Technique (as in `TravExcl.lean` / `TravResults.lean`): a relation `Upd g H0 w s s'` describes what a piece of a step of
worker `w` may do to the marks `finished`, to the `dropped*` registers, to `hidden` and to the worker records; it is
reflexive and transitive, every function of the loop satisfies it, and the invariant `Trv` is preserved along it.
The events of a step are described next to it (`EvOk`): an `unset` request stems from a positive clean decision, a
`start` from a setup-ready node.

`H0` is the set of nodes hidden initially (lazy expansion); `visH g hid` is the graph as visible with `hid` hidden.
-/
namespace I2N.Trav

/-! ## registers -/

theorem mem_regWorkers_some (r : Reg) (c v : Nat) : v ∈ regWorkers r (some c) ↔ ∃ n, ((c, v), n) ∈ r := by
  unfold regWorkers
  simp only [List.mem_map, List.mem_filter, beq_iff_eq]
  constructor
  · rintro ⟨⟨⟨a, b⟩, n⟩, ⟨hm, ha⟩, hb⟩
    simp only at ha hb
    subst ha hb
    exact ⟨n, hm⟩
  · rintro ⟨n, hm⟩
    exact ⟨((c, v), n), ⟨hm, rfl⟩, rfl⟩

theorem exists_mem_regAdd (r : Reg) (k k' : Nat × Nat) :
    (∃ n, (k', n) ∈ regAdd r k) ↔ (∃ n, (k', n) ∈ r) ∨ k' = k := by
  induction r with
  | nil =>
    simp only [regAdd, List.mem_singleton, Prod.mk.injEq, List.not_mem_nil, exists_false, false_or]
    constructor
    · rintro ⟨n, h, _⟩; exact h
    · intro h; exact ⟨1, h, rfl⟩
  | cons e r ih =>
    obtain ⟨k0, c0⟩ := e
    unfold regAdd
    by_cases h : k0 = k
    · subst h
      simp only [BEq.rfl, if_true, List.mem_cons, Prod.mk.injEq]
      constructor
      · rintro ⟨n, ⟨h1, _⟩ | h1⟩
        · exact Or.inr h1
        · exact Or.inl ⟨n, Or.inr h1⟩
      · rintro (⟨n, ⟨h1, h2⟩ | h1⟩ | h1)
        · exact ⟨c0 + 1, Or.inl ⟨h1, rfl⟩⟩
        · exact ⟨n, Or.inr h1⟩
        · exact ⟨c0 + 1, Or.inl ⟨h1, rfl⟩⟩
    · have hb : (k0 == k) = false := by simpa using h
      simp only [hb, Bool.false_eq_true, if_false, List.mem_cons, Prod.mk.injEq]
      constructor
      · rintro ⟨n, ⟨h1, h2⟩ | h1⟩
        · exact Or.inl ⟨n, Or.inl ⟨h1, h2⟩⟩
        · rcases ih.mp ⟨n, h1⟩ with ⟨m, hm⟩ | hk
          · exact Or.inl ⟨m, Or.inr hm⟩
          · exact Or.inr hk
      · rintro (⟨n, ⟨h1, h2⟩ | h1⟩ | h1)
        · exact ⟨n, Or.inl ⟨h1, h2⟩⟩
        · obtain ⟨m, hm⟩ := ih.mpr (Or.inl ⟨n, h1⟩)
          exact ⟨m, Or.inr hm⟩
        · obtain ⟨m, hm⟩ := ih.mpr (Or.inr h1)
          exact ⟨m, Or.inr hm⟩

/-- the workers registered under key `c` after one more registration -/
theorem mem_regWorkers_regAdd (r : Reg) (c0 w0 c v : Nat) :
    v ∈ regWorkers (regAdd r (c0, w0)) (some c) ↔ v ∈ regWorkers r (some c) ∨ (v = w0 ∧ c = c0) := by
  rw [mem_regWorkers_some, mem_regWorkers_some, exists_mem_regAdd]
  simp only [Prod.mk.injEq]
  constructor
  · rintro (h | ⟨h1, h2⟩)
    · exact Or.inl h
    · exact Or.inr ⟨h2, h1⟩
  · rintro (h | ⟨h1, h2⟩)
    · exact Or.inl h
    · exact Or.inr ⟨h2, h1⟩

theorem cr_setCr_cases (s : State) (c : Nat) (f : ClassRegs → ClassRegs) (c' : Nat) :
    (s.setCr c f).cr c' = s.cr c' ∨ (c' = c ∧ (s.setCr c f).cr c' = f (s.cr c')) := by
  unfold State.setCr State.cr
  simp only [List.getD_eq_getElem?_getD, List.getElem?_modify]
  by_cases h : c = c'
  · subst h
    cases h' : s.regs[c]? with
    | none => left; simp
    | some d => right; simp
  · left
    cases h' : s.regs[c']? with
    | none => simp
    | some d => simp [h]

/-! ## the visible graph for a given hidden set -/

/-- the graph as parsed when exactly the nodes `hid` are not parsed yet (`vis` reads the `hidden` field only) -/
def visH (g : Graph) (hid : List Nat) : Graph :=
  vis g { nodes := [], regs := [], workers := [], store := [], hidden := hid }

theorem vis_eq_visH (g : Graph) (s : State) : vis g s = visH g s.hidden := rfl

theorem visH_nil (g : Graph) : visH g [] = g := rfl

theorem sameNodes_visH (g : Graph) (hid : List Nat) : SameNodes (visH g hid) g := sameNodes_vis g _

theorem GraphWF.visH {g : Graph} (h : GraphWF g) (hid : List Nat) : GraphWF (visH g hid) := h.vis _

theorem idIn_sameNodes {gv g : Graph} (h : SameNodes gv g) (w n : Nat) : gv.idIn w n = g.idIn w n := by
  unfold Graph.idIn; rw [h.worker, h.name]

theorem relevant_sameNodes {gv g : Graph} (h : SameNodes gv g) (w n : Nat) : relevant gv w n = relevant g w n := by
  unfold relevant; rw [h.flat, idIn_sameNodes h]

theorem clsName_sameNodes {gv g : Graph} (h : SameNodes gv g) (n : Nat) (ph : Phase) : clsName gv n ph = clsName g n ph := by
  unfold clsName; rw [h.cls]

/-! ## vocabulary of the invariant -/

/-- every node on worker `v`'s path is a node of the graph that `v` has to care about -/
def PathOk (g : Graph) (v : Nat) (s : State) : Prop :=
  ∀ x ∈ (s.wd v).path, x < g.nodes.length ∧ relevant g v x = true

/-- worker `v` has a traversed node of class `c`: a node of that class it has to care about, and if the node is a
parsed copy it carries `v`'s own `finished` mark -/
def Wit (g : Graph) (s : State) (v c : Nat) : Prop :=
  ∃ p, p < g.nodes.length ∧ (g.node p).cls = c ∧ relevant g v p = true ∧
    ((g.node p).flat = false → (s.nd p).finished = some v)

/-- node `n` is `v`'s own parsed copy and was setup-ready for `v` on the graph visible with `hid` hidden, where `hid`
lies between what is hidden now and what was hidden initially -/
def ReadyAt (g : Graph) (H0 : List Nat) (s : State) (v n : Nat) : Prop :=
  n < g.nodes.length ∧ g.idIn v n = true ∧ (g.node n).flat = false ∧
    ∃ hid, (∀ h ∈ s.hidden, h ∈ hid) ∧ (∀ h ∈ hid, h ∈ H0) ∧ isSetupReady (visH g hid) s n v = true

/-- a worker that awaits a test awaits it on a node that was setup-ready when the test was started -/
def PcOk (g : Graph) (H0 : List Nat) (v : Nat) (s : State) : Prop :=
  ∀ n ph dir uid tag wait, (s.wd v).pc = .test n ph dir uid tag wait → ReadyAt g H0 s v n

/-- the `droppedSetup` registers only grow -/
def MonoS (s s' : State) : Prop :=
  ∀ c c' u, u ∈ regWorkers (s.cr c).droppedSetup (some c') → u ∈ regWorkers (s'.cr c).droppedSetup (some c')

theorem isSetupReady_mono (g : Graph) (s s' : State) (n v : Nat) (hm : MonoS s s')
    (h : isSetupReady g s n v = true) : isSetupReady g s' n v = true := by
  unfold isSetupReady at h ⊢
  rw [List.all_eq_true] at h ⊢
  intro p hp
  have := h p hp
  obtain ⟨p1, vms⟩ := p
  simp only [Bool.or_eq_true, Bool.not_eq_true', List.contains_iff_mem] at this ⊢
  rcases this with h1 | h1
  · exact Or.inl h1
  · exact Or.inr (hm _ _ _ h1)

theorem ReadyAt.mono {g : Graph} {H0 : List Nat} {s s' : State} {v n : Nat} (h : ReadyAt g H0 s v n)
    (hh : ∀ x ∈ s'.hidden, x ∈ s.hidden) (hm : MonoS s s') : ReadyAt g H0 s' v n := by
  obtain ⟨h1, h2, h3, hid, h4, h5, h6⟩ := h
  exact ⟨h1, h2, h3, hid, fun x hx => h4 x (hh x hx), h5, isSetupReady_mono _ s s' n v hm h6⟩

/-! ## what a piece of a step of worker `w` may do -/

structure Upd (g : Graph) (H0 : List Nat) (w : Nat) (s s' : State) : Prop where
  nodesLen : s'.nodes.length = s.nodes.length
  hidden : ∀ h ∈ s'.hidden, h ∈ s.hidden
  fin : ∀ i, (s'.nd i).finished = (s.nd i).finished ∨
    (i < g.nodes.length ∧ relevant g w i = true ∧ (s'.nd i).finished = some w)
  dropS : ∀ c c' v, v ∈ regWorkers (s'.cr c).droppedSetup (some c') →
    v ∈ regWorkers (s.cr c).droppedSetup (some c') ∨ (v = w ∧ Wit g s' w c')
  dropC : ∀ c c' v, v ∈ regWorkers (s'.cr c).droppedCleanup (some c') →
    v ∈ regWorkers (s.cr c).droppedCleanup (some c') ∨ (v = w ∧ Wit g s' w c')
  monoS : MonoS s s'
  others : ∀ v, v ≠ w → s'.wd v = s.wd v
  path : PathOk g w s → PathOk g w s'
  pc : (s'.wd w).pc = (s.wd w).pc ∨ (s'.wd w).pc.isTest = false ∨ PcOk g H0 w s'

theorem Upd.refl (g : Graph) (H0 : List Nat) (w : Nat) (s : State) : Upd g H0 w s s :=
  ⟨rfl, fun _ h => h, fun _ => Or.inl rfl, fun _ _ _ h => Or.inl h, fun _ _ _ h => Or.inl h, fun _ _ _ h => h,
    fun _ _ => rfl, fun h => h, Or.inl rfl⟩

/-- `w`'s own mark on a node survives whatever `w` does -/
theorem Upd.keepFin {g : Graph} {H0 : List Nat} {w : Nat} {s s' : State} (a : Upd g H0 w s s') (p : Nat)
    (h : (s.nd p).finished = some w) : (s'.nd p).finished = some w := by
  rcases a.fin p with h' | ⟨_, _, h'⟩
  · rw [h', h]
  · exact h'

theorem Upd.keepWit {g : Graph} {H0 : List Nat} {w : Nat} {s s' : State} (a : Upd g H0 w s s') {c : Nat}
    (h : Wit g s w c) : Wit g s' w c := by
  obtain ⟨p, h1, h2, h3, h4⟩ := h
  exact ⟨p, h1, h2, h3, fun hf => a.keepFin p (h4 hf)⟩

theorem PcOk.keep {g : Graph} {H0 : List Nat} {v : Nat} {s s' : State} (h : PcOk g H0 v s)
    (hpc : (s'.wd v).pc = (s.wd v).pc) (hh : ∀ x ∈ s'.hidden, x ∈ s.hidden) (hm : MonoS s s') : PcOk g H0 v s' := by
  intro n ph dir uid tag wait hp
  rw [hpc] at hp
  exact (h n ph dir uid tag wait hp).mono hh hm

theorem PcOk.of_nonTest {g : Graph} {H0 : List Nat} {v : Nat} {s : State} (h : (s.wd v).pc.isTest = false) :
    PcOk g H0 v s := by
  intro n ph dir uid tag wait hp
  rw [hp] at h; simp [Pc.isTest] at h

theorem Upd.trans {g : Graph} {H0 : List Nat} {w : Nat} {s s1 s2 : State} (a : Upd g H0 w s s1) (b : Upd g H0 w s1 s2) :
    Upd g H0 w s s2 where
  nodesLen := b.nodesLen.trans a.nodesLen
  hidden := fun h hh => a.hidden h (b.hidden h hh)
  fin := fun i => by
    rcases b.fin i with h | h
    · rcases a.fin i with h' | ⟨h1, h2, h3⟩
      · exact Or.inl (h.trans h')
      · exact Or.inr ⟨h1, h2, h.trans h3⟩
    · exact Or.inr h
  dropS := fun c c' v hv => by
    rcases b.dropS c c' v hv with h | h
    · rcases a.dropS c c' v h with h' | ⟨h1, h2⟩
      · exact Or.inl h'
      · exact Or.inr ⟨h1, b.keepWit h2⟩
    · exact Or.inr h
  dropC := fun c c' v hv => by
    rcases b.dropC c c' v hv with h | h
    · rcases a.dropC c c' v h with h' | ⟨h1, h2⟩
      · exact Or.inl h'
      · exact Or.inr ⟨h1, b.keepWit h2⟩
    · exact Or.inr h
  monoS := fun c c' u h => b.monoS c c' u (a.monoS c c' u h)
  others := fun v hv => (b.others v hv).trans (a.others v hv)
  path := fun h => b.path (a.path h)
  pc := by
    rcases b.pc with h | h | h
    · rcases a.pc with h' | h' | h'
      · exact Or.inl (h.trans h')
      · right; left; rw [h]; exact h'
      · right; right; exact h'.keep h b.hidden b.monoS
    · exact Or.inr (Or.inl h)
    · exact Or.inr (Or.inr h)

theorem Upd.pcOk {g : Graph} {H0 : List Nat} {w : Nat} {s s' : State} (a : Upd g H0 w s s') (h : PcOk g H0 w s) :
    PcOk g H0 w s' := by
  rcases a.pc with h' | h' | h'
  · exact h.keep h' a.hidden a.monoS
  · exact PcOk.of_nonTest h'
  · exact h'

theorem Upd.pcOk_other {g : Graph} {H0 : List Nat} {w : Nat} {s s' : State} (a : Upd g H0 w s s') (v : Nat) (hv : v ≠ w)
    (h : PcOk g H0 v s) : PcOk g H0 v s' :=
  h.keep (by rw [a.others v hv]) a.hidden a.monoS

theorem Upd.pathOk_other {g : Graph} {H0 : List Nat} {w : Nat} {s s' : State} (a : Upd g H0 w s s') (v : Nat) (hv : v ≠ w)
    (h : PathOk g v s) : PathOk g v s' := by
  unfold PathOk; rw [a.others v hv]; exact h

/-! ### primitive updates -/

/-- nothing the invariant reads changes, except that `hidden` may shrink -/
theorem Upd.quiet {g : Graph} {H0 : List Nat} {w : Nat} {s s' : State} (hn : s'.nodes.length = s.nodes.length)
    (hh : ∀ h ∈ s'.hidden, h ∈ s.hidden) (hf : ∀ i, (s'.nd i).finished = (s.nd i).finished)
    (hs : ∀ c, (s'.cr c).droppedSetup = (s.cr c).droppedSetup) (hc : ∀ c, (s'.cr c).droppedCleanup = (s.cr c).droppedCleanup)
    (hw : ∀ v, s'.wd v = s.wd v) : Upd g H0 w s s' :=
  ⟨hn, hh, fun i => Or.inl (hf i), fun c c' v h => Or.inl (by rw [← hs c]; exact h),
    fun c c' v h => Or.inl (by rw [← hc c]; exact h), fun c c' u h => by rw [hs c]; exact h,
    fun v _ => hw v, fun h => by unfold PathOk; rw [hw w]; exact h, Or.inl (by rw [hw w])⟩

theorem upd_setNd (g : Graph) (H0 : List Nat) (w : Nat) (s : State) (m : Nat) (f : NodeD → NodeD)
    (hf : ∀ d, (f d).finished = d.finished) : Upd g H0 w s (s.setNd m f) :=
  Upd.quiet (nodes_length_setNd s m f) (fun _ h => h) (fun i => nd_setNd_proj (·.finished) s m f hf i)
    (fun _ => rfl) (fun _ => rfl) (fun _ => rfl)

theorem upd_setCr (g : Graph) (H0 : List Nat) (w : Nat) (s : State) (c : Nat) (f : ClassRegs → ClassRegs)
    (hs : ∀ r, (f r).droppedSetup = r.droppedSetup) (hc : ∀ r, (f r).droppedCleanup = r.droppedCleanup) :
    Upd g H0 w s (s.setCr c f) := by
  refine Upd.quiet rfl (fun _ h => h) (fun _ => rfl) (fun c' => ?_) (fun c' => ?_) (fun _ => rfl)
  · rcases cr_setCr_cases s c f c' with h | ⟨_, h⟩
    · rw [h]
    · rw [h, hs]
  · rcases cr_setCr_cases s c f c' with h | ⟨_, h⟩
    · rw [h]
    · rw [h, hc]

theorem upd_setWd (g : Graph) (H0 : List Nat) (w : Nat) (s : State) (f : WorkerD → WorkerD)
    (hpath : ∀ d, (∀ x ∈ d.path, x < g.nodes.length ∧ relevant g w x = true) →
      ∀ x ∈ (f d).path, x < g.nodes.length ∧ relevant g w x = true)
    (hpc : ∀ d, (f d).pc = d.pc ∨ (f d).pc.isTest = false) : Upd g H0 w s (s.setWd w f) := by
  refine ⟨rfl, fun _ h => h, fun _ => Or.inl rfl, fun _ _ _ h => Or.inl h, fun _ _ _ h => Or.inl h, fun _ _ _ h => h,
    fun v hv => wd_setWd_ne s w v f hv, ?_, ?_⟩
  · intro hp
    unfold PathOk
    rcases wd_setWd_cases s w f with ⟨h, _⟩ | ⟨_, h⟩
    · rw [h]; exact hp
    · rw [h]; exact hpath _ hp
  · rcases wd_setWd_cases s w f with ⟨h, _⟩ | ⟨_, h⟩
    · exact Or.inl (by rw [h])
    · rw [h]
      rcases hpc (s.wd w) with h' | h'
      · exact Or.inl h'
      · exact Or.inr (Or.inl h')

theorem upd_popPath (g : Graph) (H0 : List Nat) (w : Nat) (s : State) : Upd g H0 w s (popPath s w) :=
  upd_setWd g H0 w s _ (fun _ h x hx => h x (List.dropLast_subset _ hx)) (fun _ => Or.inl rfl)

theorem upd_pushPath (g : Graph) (H0 : List Nat) (w : Nat) (s : State) (m : Nat) (hm : m < g.nodes.length)
    (hr : relevant g w m = true) : Upd g H0 w s (pushPath s w m) :=
  upd_setWd g H0 w s _ (fun _ h x hx => by
    rcases List.mem_append.mp hx with hx | hx
    · exact h x hx
    · rw [List.mem_singleton.mp hx]; exact ⟨hm, hr⟩) (fun _ => Or.inl rfl)

theorem upd_setPc (g : Graph) (H0 : List Nat) (w : Nat) (s : State) (pc : Pc) (h : pc.isTest = false) :
    Upd g H0 w s (s.setWd w (fun d => { d with pc := pc })) :=
  upd_setWd g H0 w s _ (fun _ hp => hp) (fun _ => Or.inr h)

theorem upd_finishTraverse (g : Graph) (H0 : List Nat) (w : Nat) (s : State) (n : Nat) (hn : n < g.nodes.length)
    (hr : relevant g w n = true) : Upd g H0 w s (finishTraverse s n w) := by
  refine ⟨nodes_length_setNd s n _, fun _ h => h, fun i => ?_, fun _ _ _ h => Or.inl h, fun _ _ _ h => Or.inl h,
    fun _ _ _ h => h, fun _ _ => rfl, fun h => h, Or.inl rfl⟩
  unfold finishTraverse
  rcases nd_setNd_cases s n (fun d => { d with finished := some w, started := none }) i with h | ⟨h1, _, h2⟩
  · exact Or.inl (by rw [h])
  · exact Or.inr ⟨h1 ▸ hn, h1 ▸ hr, by rw [h2]⟩

/-- one more registration of `w` in a `droppedSetup` register, for a class `w` has traversed -/
theorem upd_addDropS (g : Graph) (H0 : List Nat) (w : Nat) (s : State) (cc c0 : Nat) (hw : Wit g s w c0) :
    Upd g H0 w s (s.setCr cc (fun r => { r with droppedSetup := regAdd r.droppedSetup (c0, w) })) := by
  refine ⟨rfl, fun _ h => h, fun _ => Or.inl rfl, fun c c' v h => ?_, fun c c' v h => ?_, fun c c' u h => ?_,
    fun _ _ => rfl, fun h => h, Or.inl rfl⟩
  · rcases cr_setCr_cases s cc (fun r => { r with droppedSetup := regAdd r.droppedSetup (c0, w) }) c with h' | ⟨_, h'⟩
    · rw [h'] at h; exact Or.inl h
    · rw [h'] at h
      rcases (mem_regWorkers_regAdd _ c0 w c' v).mp h with h1 | ⟨h1, h2⟩
      · exact Or.inl h1
      · exact Or.inr ⟨h1, h2 ▸ hw⟩
  · rcases cr_setCr_cases s cc (fun r => { r with droppedSetup := regAdd r.droppedSetup (c0, w) }) c with h' | ⟨_, h'⟩
    · rw [h'] at h; exact Or.inl h
    · rw [h'] at h; exact Or.inl h
  · rcases cr_setCr_cases s cc (fun r => { r with droppedSetup := regAdd r.droppedSetup (c0, w) }) c with h' | ⟨_, h'⟩
    · rw [h']; exact h
    · rw [h']; exact (mem_regWorkers_regAdd _ c0 w c' u).mpr (Or.inl h)

theorem upd_addDropC (g : Graph) (H0 : List Nat) (w : Nat) (s : State) (cc c0 : Nat) (hw : Wit g s w c0) :
    Upd g H0 w s (s.setCr cc (fun r => { r with droppedCleanup := regAdd r.droppedCleanup (c0, w) })) := by
  refine ⟨rfl, fun _ h => h, fun _ => Or.inl rfl, fun c c' v h => ?_, fun c c' v h => ?_, fun c c' u h => ?_,
    fun _ _ => rfl, fun h => h, Or.inl rfl⟩
  · rcases cr_setCr_cases s cc (fun r => { r with droppedCleanup := regAdd r.droppedCleanup (c0, w) }) c with h' | ⟨_, h'⟩
    · rw [h'] at h; exact Or.inl h
    · rw [h'] at h; exact Or.inl h
  · rcases cr_setCr_cases s cc (fun r => { r with droppedCleanup := regAdd r.droppedCleanup (c0, w) }) c with h' | ⟨_, h'⟩
    · rw [h'] at h; exact Or.inl h
    · rw [h'] at h
      rcases (mem_regWorkers_regAdd _ c0 w c' v).mp h with h1 | ⟨h1, h2⟩
      · exact Or.inl h1
      · exact Or.inr ⟨h1, h2 ▸ hw⟩
  · rcases cr_setCr_cases s cc (fun r => { r with droppedCleanup := regAdd r.droppedCleanup (c0, w) }) c with h' | ⟨_, h'⟩
    · rw [h']; exact h
    · rw [h']; exact h

theorem upd_foldl {β} (g : Graph) (H0 : List Nat) (w : Nat) (f : State → β → State) (h : ∀ s b, Upd g H0 w s (f s b))
    (l : List β) (s : State) : Upd g H0 w s (l.foldl f s) := by
  induction l generalizing s with
  | nil => exact Upd.refl g H0 w s
  | cons a r ih => simp only [List.foldl_cons]; exact (h s a).trans (ih _)

/-! ## the invariant -/

/-- a parsed copy is cared for by one worker only (follows from `OwnerNames`) -/
def UniqueId (g : Graph) : Prop :=
  ∀ n, n < g.nodes.length → (g.node n).flat = false → ∀ v w, g.idIn v n = true → g.idIn w n = true → v = w

theorem relevant_nonflat {g : Graph} {v n : Nat} (h : relevant g v n = true) (hf : (g.node n).flat = false) :
    g.idIn v n = true := by
  unfold relevant at h
  rw [hf] at h
  simpa using h

structure Trv (g : Graph) (H0 : List Nat) (s : State) : Prop where
  nodesLen : s.nodes.length = g.nodes.length
  hidden : ∀ h ∈ s.hidden, h ∈ H0
  /-- `finished` of a parsed copy is only ever written with a worker that cares for the copy -/
  finOwner : ∀ i v, i < g.nodes.length → (g.node i).flat = false → (s.nd i).finished = some v → g.idIn v i = true
  /-- a worker registered as having dropped a parent class has traversed a node of that class -/
  dropS : ∀ c c' v, v ∈ regWorkers (s.cr c).droppedSetup (some c') → Wit g s v c'
  /-- a worker registered as having dropped a child class has traversed a node of that class -/
  dropC : ∀ c c' v, v ∈ regWorkers (s.cr c).droppedCleanup (some c') → Wit g s v c'
  path : ∀ v, PathOk g v s
  pc : ∀ v, PcOk g H0 v s

theorem Wit.upd {g : Graph} {H0 : List Nat} {w : Nat} {s s' : State} (hu : UniqueId g) (a : Upd g H0 w s s') {v c : Nat}
    (h : Wit g s v c) : Wit g s' v c := by
  obtain ⟨p, h1, h2, h3, h4⟩ := h
  refine ⟨p, h1, h2, h3, fun hf => ?_⟩
  rcases a.fin p with h' | ⟨_, h5, h6⟩
  · rw [h', h4 hf]
  · rw [h6, hu p h1 hf v w (relevant_nonflat h3 hf) (relevant_nonflat h5 hf)]

theorem Trv.upd {g : Graph} {H0 : List Nat} {w : Nat} {s s' : State} (hu : UniqueId g) (t : Trv g H0 s)
    (a : Upd g H0 w s s') : Trv g H0 s' where
  nodesLen := a.nodesLen.trans t.nodesLen
  hidden := fun h hh => t.hidden h (a.hidden h hh)
  finOwner := fun i v hi hf h => by
    rcases a.fin i with h' | ⟨_, h1, h2⟩
    · rw [h'] at h; exact t.finOwner i v hi hf h
    · rw [h2] at h
      cases h
      exact relevant_nonflat h1 hf
  dropS := fun c c' v h => by
    rcases a.dropS c c' v h with h' | ⟨h1, h2⟩
    · exact (t.dropS c c' v h').upd hu a
    · rw [h1]; exact h2
  dropC := fun c c' v h => by
    rcases a.dropC c c' v h with h' | ⟨h1, h2⟩
    · exact (t.dropC c c' v h').upd hu a
    · rw [h1]; exact h2
  path := fun v => by
    by_cases hv : v = w
    · subst hv; exact a.path (t.path v)
    · exact a.pathOk_other v hv (t.path v)
  pc := fun v => by
    by_cases hv : v = w
    · subst hv; exact a.pcOk (t.pc v)
    · exact a.pcOk_other v hv (t.pc v)

/-! ## events -/

/-- an event that is neither an `unset` request nor a test start -/
def Plain (e : Event) : Prop :=
  (∀ wid reqs sc ok, e ≠ .door wid "unset" reqs sc ok) ∧ (∀ wid cname uid locs k, e ≠ .start wid cname uid locs k)

/-- where the interesting events of a piece of a step of worker `w` that began in state `s` come from:
an `unset` request was sent by `sync_states` for a node whose clean decision (taken in a state `sd` that `w` produced,
on the graph visible at that time) was positive; a test was started on a node that was setup-ready for `w` -/
def EvOk (g : Graph) (H0 : List Nat) (w : Nat) (s : State) (e : Event) : Prop :=
  (∀ wid reqs sc ok, e = .door wid "unset" reqs sc ok →
    ∃ hid sd n, (∀ h ∈ sd.hidden, h ∈ hid) ∧ (∀ h ∈ hid, h ∈ H0) ∧ Upd g H0 w s sd ∧ n < g.nodes.length ∧
      (sd.nd n).started = some w ∧
      cleanDecision (visH g hid) sd n w = .ok true ∧ e ∈ (syncStates (visH g hid) sd n w none).2) ∧
  (∀ wid cname uid locs k, e = .start wid cname uid locs k →
    wid = (g.worker w).id ∧ ∃ n ph sd, cname = clsName g n ph ∧ Upd g H0 w s sd ∧ ReadyAt g H0 sd w n)

theorem EvOk.of_plain {g : Graph} {H0 : List Nat} {w : Nat} {s : State} {e : Event} (h : Plain e) : EvOk g H0 w s e :=
  ⟨fun wid reqs sc ok he => absurd he (h.1 wid reqs sc ok), fun wid cname uid locs k he => absurd he (h.2 wid cname uid locs k)⟩

theorem EvOk.mono {g : Graph} {H0 : List Nat} {w : Nat} {s0 s : State} {e : Event} (a : Upd g H0 w s0 s)
    (h : EvOk g H0 w s e) : EvOk g H0 w s0 e := by
  refine ⟨fun wid reqs sc ok he => ?_, fun wid cname uid locs k he => ?_⟩
  · obtain ⟨hid, sd, n, h1, h2, h3, h4⟩ := h.1 wid reqs sc ok he
    exact ⟨hid, sd, n, h1, h2, a.trans h3, h4⟩
  · obtain ⟨h0, n, ph, sd, h1, h2, h3⟩ := h.2 wid cname uid locs k he
    exact ⟨h0, n, ph, sd, h1, a.trans h2, h3⟩

/-- a piece of a step: the state effect and the provenance of its events -/
def Ok (g : Graph) (H0 : List Nat) (w : Nat) (s s' : State) (evs : List Event) : Prop :=
  Upd g H0 w s s' ∧ ∀ e ∈ evs, EvOk g H0 w s e

theorem Ok.trans {g : Graph} {H0 : List Nat} {w : Nat} {s s1 s2 : State} {e1 e2 : List Event}
    (a : Ok g H0 w s s1 e1) (b : Ok g H0 w s1 s2 e2) : Ok g H0 w s s2 (e1 ++ e2) := by
  refine ⟨a.1.trans b.1, fun e he => ?_⟩
  rcases List.mem_append.mp he with he | he
  · exact a.2 e he
  · exact (b.2 e he).mono a.1

theorem Ok.of_upd {g : Graph} {H0 : List Nat} {w : Nat} {s s1 s2 : State} {e2 : List Event}
    (a : Upd g H0 w s s1) (b : Ok g H0 w s1 s2 e2) : Ok g H0 w s s2 e2 :=
  ⟨a.trans b.1, fun e he => (b.2 e he).mono a⟩

theorem Ok.then_upd {g : Graph} {H0 : List Nat} {w : Nat} {s s1 s2 : State} {e1 : List Event}
    (a : Ok g H0 w s s1 e1) (b : Upd g H0 w s1 s2) : Ok g H0 w s s2 e1 :=
  ⟨a.1.trans b, a.2⟩

theorem Ok.silent {g : Graph} {H0 : List Nat} {w : Nat} {s s1 : State} (a : Upd g H0 w s s1) : Ok g H0 w s s1 [] :=
  ⟨a, fun _ h => by simp at h⟩

/-! ### the events of the decisions -/

theorem plain_check (wid : String) (reqs : List (String × String)) (sc : List String) (ok : Bool) :
    Plain (.door wid "check" reqs sc ok) :=
  ⟨fun _ _ _ _ h => by simp at h, fun _ _ _ _ _ h => by simp at h⟩

theorem scanStates_plain (g : Graph) (s : State) (n w : Nat) : ∀ e ∈ (scanStates g s n w).2, Plain e := by
  unfold scanStates
  dsimp only
  split
  · intro e he; simp at he
  · intro e he
    rw [List.mem_singleton.mp he]
    exact plain_check _ _ _ _

theorem runDecisionStatefulCore_events (g : Graph) (s : State) (n w : Nat) (scan : Bool) (sc : Bool × List Event)
    (b : Bool) (s1 : State) (e1 : List Event)
    (h : runDecisionStatefulCore g s n w scan sc = .ok (b, s1, e1)) : e1 = sc.2 := by
  unfold runDecisionStatefulCore at h
  split at h
  · simp only [Except.ok.injEq, Prod.mk.injEq] at h; exact h.2.2.symm
  · generalize shouldRerun g _ n w = r at h
    cases r with
    | error e => simp [Except.map] at h
    | ok r => simp only [Except.map, Except.ok.injEq, Prod.mk.injEq] at h; exact h.2.2.symm

theorem runDecisionStateless_events (g : Graph) (s : State) (n w : Nat) (b : Bool) (s1 : State) (e1 : List Event)
    (h : runDecisionStateless g s n w = .ok (b, s1, e1)) : e1 = [] := by
  unfold runDecisionStateless at h
  split at h
  · simp only [Except.ok.injEq, Prod.mk.injEq] at h; exact h.2.2.symm
  · cases hr : shouldRerun g s n w with
    | error e => simp [hr, Except.map] at h
    | ok r => simp only [hr, Except.map, Except.ok.injEq, Prod.mk.injEq] at h; exact h.2.2.symm

/-- the run decision emits `check` requests only; a positive decision is about the worker's own parsed copy -/
theorem runDecision_events (g : Graph) (s : State) (n w : Nat) (b : Bool) (s1 : State) (e1 : List Event)
    (h : runDecision g s n w = .ok (b, s1, e1)) :
    (∀ e ∈ e1, Plain e) ∧ (b = true → (g.node n).flat = false ∧ g.idIn w n = true) := by
  unfold runDecision at h
  dsimp only at h
  cases c1 : (g.node n).sharedRoot <;> cases c2 : (g.node n).dryRun <;> cases c3 : (g.node n).flat <;>
    cases c4 : (g.node n).cloneSource <;> cases c5 : g.idIn w n <;> cases c6 : (g.node n).sets.isEmpty
  all_goals simp only [c1, c2, c3, c4, c5, c6, Bool.false_eq_true, if_false, if_true, Bool.not_false, Bool.not_true,
    Except.ok.injEq, Prod.mk.injEq, reduceCtorEq] at h
  all_goals first
    | (refine ⟨?_, ?_⟩
       · rw [← h.2.2]; intro e he; simp at he
       · intro hb; rw [← h.1] at hb; simp at hb)
    | (refine ⟨?_, fun _ => ⟨rfl, rfl⟩⟩
       have := runDecisionStatefulCore_events g s n w _ _ b s1 e1 h
       rw [this]
       split
       · exact scanStates_plain g s n w
       · intro e he; simp at he)
    | (refine ⟨?_, fun _ => ⟨rfl, rfl⟩⟩
       rw [runDecisionStateless_events g s n w b s1 e1 h]
       intro e he; simp at he)

theorem upd_disableRerun (g : Graph) (H0 : List Nat) (w : Nat) (s : State) (n : Nat) : Upd g H0 w s (disableRerun s n) :=
  upd_setNd g H0 w s n _ (fun _ => rfl)

theorem upd_runDecision (g : Graph) (H0 : List Nat) (w : Nat) (gv : Graph) (s : State) (n v : Nat) (b : Bool) (s1 : State)
    (e1 : List Event) (h : runDecision gv s n v = .ok (b, s1, e1)) : Upd g H0 w s s1 := by
  rcases runDecision_state gv s n v b s1 e1 h with h | h
  · rw [h]; exact Upd.refl g H0 w s
  · rw [h]; exact upd_disableRerun g H0 w s n

theorem upd_pullLocations (g : Graph) (H0 : List Nat) (w : Nat) (gv : Graph) (s : State) (n : Nat) :
    Upd g H0 w s (pullLocations gv s n) := by
  unfold pullLocations
  split
  · exact Upd.refl g H0 w s
  · apply upd_foldl
    rintro s ⟨p, vms⟩
    apply upd_foldl
    intro s loc
    apply upd_foldl
    intro s vm
    exact upd_setNd g H0 w s n _ (fun _ => rfl)

theorem upd_store (g : Graph) (H0 : List Nat) (w : Nat) (s : State) (st : List (String × List (String × String))) :
    Upd g H0 w s { s with store := st } :=
  Upd.quiet rfl (fun _ h => h) (fun _ => rfl) (fun _ => rfl) (fun _ => rfl) (fun _ => rfl)

theorem upd_syncStates (g : Graph) (H0 : List Nat) (w : Nat) (gv : Graph) (s : State) (n v : Nat) (rv : Option (List String)) :
    Upd g H0 w s (syncStates gv s n v rv).1 := by
  unfold syncStates
  dsimp only
  split
  · exact Upd.refl g H0 w s
  · split
    · exact upd_store g H0 w s _
    · exact upd_store g H0 w s _

/-- `sync_states` emits door requests only -/
theorem syncStates_events (g : Graph) (s : State) (n v : Nat) (rv : Option (List String)) :
    ∀ e ∈ (syncStates g s n v rv).2, ∃ act reqs sc, e = .door (g.worker (g.netOf n v)).id act reqs sc true := by
  unfold syncStates
  dsimp only
  split
  · intro e he; simp at he
  · split
    · intro e he; rw [List.mem_singleton.mp he]; exact ⟨_, _, _, rfl⟩
    · intro e he; rw [List.mem_singleton.mp he]; exact ⟨_, _, _, rfl⟩

/-! ## the functions of the loop -/

/-- static side conditions: well-formed edges, a flat root, and the hidden set of the graph the piece runs on lies
below the initial one -/
structure Ctx (g : Graph) (H0 hid0 : List Nat) : Prop where
  wf : GraphWF g
  rootFlat : (g.node g.root).flat = true
  sub0 : ∀ h ∈ hid0, h ∈ H0

theorem Ctx.root_ok {g : Graph} {H0 hid0 : List Nat} (c : Ctx g H0 hid0) (w : Nat) :
    g.root < g.nodes.length ∧ relevant g w g.root = true :=
  ⟨c.wf.root_lt, by unfold relevant; rw [c.rootFlat]; rfl⟩

theorem pickChild_rel (g : Graph) (s : State) (n w c : Nat) (s' : State) (h : pickChild g s n w = some (c, s')) :
    c ∈ (g.node n).cleanup.map (·.1) ∧ relevant g w c = true ∧
      s' = s.setCr (g.node c).cls (fun r => { r with pickedBySetup := regAdd r.pickedBySetup ((g.node n).cls, w) }) := by
  unfold pickChild at h
  dsimp only at h
  split at h
  · simp at h
  · rename_i c' rest heq
    simp only [Option.some.injEq, Prod.mk.injEq] at h
    have : c' ∈ stableSort (fun a b => keyLe (pickKey g s false a) (pickKey g s false b))
        (((g.node n).cleanup.map (·.1)).filter (fun c =>
          relevant g w c && !(regWorkers (s.cr (g.node n).cls).droppedCleanup (some (g.node c).cls)).contains w)) := by
      rw [heq]; exact List.mem_cons_self
    have := List.mem_filter.mp (mem_stableSort _ _ _ this)
    rw [Bool.and_eq_true] at this
    rw [← h.1]
    exact ⟨this.1, this.2.1, h.2.symm⟩

theorem pickParent_rel (g : Graph) (s : State) (n w c : Nat) (s' : State) (h : pickParent g s n w = some (c, s')) :
    c ∈ (g.node n).setup.map (·.1) ∧ relevant g w c = true ∧
      s' = s.setCr (g.node c).cls (fun r => { r with pickedByCleanup := regAdd r.pickedByCleanup ((g.node n).cls, w) }) := by
  unfold pickParent at h
  dsimp only at h
  split at h
  · simp at h
  · rename_i c' rest heq
    simp only [Option.some.injEq, Prod.mk.injEq] at h
    have : c' ∈ stableSort (fun a b => keyLe (pickKey g s true a) (pickKey g s true b))
        (((g.node n).setup.map (·.1)).filter (fun p =>
          relevant g w p && !(regWorkers (s.cr (g.node n).cls).droppedSetup (some (g.node p).cls)).contains w)) := by
      rw [heq]; exact List.mem_cons_self
    have := List.mem_filter.mp (mem_stableSort _ _ _ this)
    rw [Bool.and_eq_true] at this
    rw [← h.1]
    exact ⟨this.1, this.2.1, h.2.symm⟩

theorem upd_pickChild (g : Graph) (H0 : List Nat) (w : Nat) (gv : Graph) (hsn : SameNodes gv g) (hwf : GraphWF gv)
    (s : State) (n c : Nat) (s' : State) (h : pickChild gv s n w = some (c, s')) : Upd g H0 w s (pushPath s' w c) := by
  obtain ⟨hc, hr, hs⟩ := pickChild_rel gv s n w c s' h
  obtain ⟨p, hp, hpc⟩ := List.mem_map.mp hc
  have hlt : c < g.nodes.length := by rw [← hpc, ← hsn.len]; exact hwf.cleanup_lt n p hp
  rw [hs]
  have h1 := upd_setCr g H0 w s (gv.node c).cls
    (fun r => { r with pickedBySetup := regAdd r.pickedBySetup ((gv.node n).cls, w) }) (fun _ => rfl) (fun _ => rfl)
  exact h1.trans (upd_pushPath g H0 w _ c hlt (by rw [← relevant_sameNodes hsn]; exact hr))

theorem upd_pickParent (g : Graph) (H0 : List Nat) (w : Nat) (gv : Graph) (hsn : SameNodes gv g) (hwf : GraphWF gv)
    (s : State) (n c : Nat) (s' : State) (h : pickParent gv s n w = some (c, s')) : Upd g H0 w s (pushPath s' w c) := by
  obtain ⟨hc, hr, hs⟩ := pickParent_rel gv s n w c s' h
  obtain ⟨p, hp, hpc⟩ := List.mem_map.mp hc
  have hlt : c < g.nodes.length := by rw [← hpc, ← hsn.len]; exact hwf.setup_lt n p hp
  rw [hs]
  have h1 := upd_setCr g H0 w s (gv.node c).cls
    (fun r => { r with pickedByCleanup := regAdd r.pickedByCleanup ((gv.node n).cls, w) }) (fun _ => rfl) (fun _ => rfl)
  exact h1.trans (upd_pushPath g H0 w _ c hlt (by rw [← relevant_sameNodes hsn]; exact hr))

/-- `reverse_node`: an `unset` request is preceded by a positive clean decision in the state with the `started` mark set -/
theorem reverseNode_ok (g : Graph) (H0 hid0 : List Nat) (w : Nat) (s : State) (n : Nat) (s' : State) (evs : List Event)
    (h0 : ∀ h ∈ hid0, h ∈ H0) (hsub : ∀ h ∈ s.hidden, h ∈ hid0) (hn : n < g.nodes.length)
    (hlen : s.nodes.length = g.nodes.length)
    (h : reverseNode (visH g hid0) s n w = .ok (s', evs)) : Ok g H0 w s s' evs := by
  unfold reverseNode at h
  by_cases hocc : isOccupied (visH g hid0) s n w = true
  · simp only [hocc, if_true, Except.ok.injEq, Prod.mk.injEq] at h
    rw [← h.1, ← h.2]; exact Ok.silent (Upd.refl g H0 w s)
  · simp only [hocc, Bool.false_eq_true, if_false, ite_self] at h
    have hA : Upd g H0 w s (s.setNd n (fun d => { d with started := some w })) := upd_setNd g H0 w s n _ (fun _ => rfl)
    have hst : ((s.setNd n (fun d => { d with started := some w })).nd n).started = some w := by
      rw [nd_setNd_eq s n _ (by rw [hlen]; exact hn)]
    cases hd : cleanDecision (visH g hid0) (s.setNd n (fun d => { d with started := some w })) n w with
    | error e => simp [hd] at h
    | ok clean =>
      by_cases hc : (clean && !((visH g hid0).node n).sets.isEmpty) = true
      · simp only [hd, hc, if_true, Except.ok.injEq, Prod.mk.injEq] at h
        have hcl : clean = true := by rw [Bool.and_eq_true] at hc; exact hc.1
        refine ⟨?_, fun e he => ?_⟩
        · rw [← h.1]
          exact hA.trans ((upd_syncStates g H0 w _ _ n w none).trans (upd_setNd g H0 w _ n _ (fun _ => rfl)))
        · rw [← h.2] at he
          refine ⟨fun wid reqs sc ok hev => ?_, fun wid cname uid locs k hev => ?_⟩
          · exact ⟨hid0, s.setNd n (fun d => { d with started := some w }), n, hsub, h0, hA, hn, hst, by rw [hd, hcl], he⟩
          · obtain ⟨act, reqs, sc, hdoor⟩ := syncStates_events _ _ n w none e he
            rw [hdoor] at hev; cases hev
      · simp only [hd, hc, Bool.false_eq_true, if_false, Except.ok.injEq, Prod.mk.injEq] at h
        rw [← h.1, ← h.2]
        exact Ok.silent (hA.trans (upd_setNd g H0 w _ n _ (fun _ => rfl)))

theorem upd_dropChildren (g : Graph) (H0 : List Nat) (w : Nat) (gv : Graph) (hsn : SameNodes gv g) (next : Nat)
    (hn : next < g.nodes.length) (hrel : relevant g w next = true)
    (l : List (Nat × List String)) (s : State) (hfin : (g.node next).flat = false → (s.nd next).finished = some w) :
    Upd g H0 w s (l.foldl (fun s (p, _) => dropChild gv s p next w) s) := by
  induction l generalizing s with
  | nil => exact Upd.refl g H0 w s
  | cons a r ih =>
    simp only [List.foldl_cons]
    have h1 : Upd g H0 w s (dropChild gv s a.1 next w) := by
      unfold dropChild
      rw [hsn.cls next]
      exact upd_addDropC g H0 w s _ _ ⟨next, hn, rfl, hrel, hfin⟩
    exact h1.trans (ih _ hfin)

/-- the rest of the loop body after `traverse_node`: the worker drops `next` (as a parent of `prev` on the way up, as a
child of all its parents on the way down) only with its own `finished` mark on it -/
theorem afterTraverse_ok (g : Graph) (H0 hid0 : List Nat) (ctx : Ctx g H0 hid0) (w : Nat) (s : State) (next prev : Nat)
    (dir : Dir) (hsub : ∀ h ∈ s.hidden, h ∈ hid0) (hlen : s.nodes.length = g.nodes.length)
    (hn : next < g.nodes.length) (hrel : relevant g w next = true)
    (hfin : (g.node next).flat = false → (s.nd next).finished = some w) :
    Ok g H0 w s (afterTraverse (visH g hid0) s w next prev dir).1 (afterTraverse (visH g hid0) s w next prev dir).2.1 := by
  have hsn := sameNodes_visH g hid0
  have hwfv := ctx.wf.visH hid0
  unfold afterTraverse
  cases hd : runDecision (visH g hid0) s next w with
  | error e => exact Ok.silent (Upd.refl g H0 w s)
  | ok r =>
    obtain ⟨run, s1, evs⟩ := r
    have h1 : Upd g H0 w s s1 := upd_runDecision g H0 w _ s next w run s1 evs hd
    have hev : ∀ e ∈ evs, EvOk g H0 w s e := fun e he => EvOk.of_plain ((runDecision_events _ s next w run s1 evs hd).1 e he)
    have hfin1 : (g.node next).flat = false → (s1.nd next).finished = some w := fun hf => h1.keepFin next (hfin hf)
    have hsub1 : ∀ h ∈ s1.hidden, h ∈ hid0 := fun h hh => hsub h (h1.hidden h hh)
    have hlen1 : s1.nodes.length = g.nodes.length := h1.nodesLen.trans hlen
    cases dir with
    | up =>
      dsimp only
      refine ⟨h1.trans (Upd.trans ?_ (upd_popPath g H0 w _)), hev⟩
      split
      · unfold dropParent
        rw [hsn.cls next]
        exact upd_addDropS g H0 w s1 _ _ ⟨next, hn, rfl, hrel, hfin1⟩
      · exact Upd.refl g H0 w s1
    | down =>
      dsimp only
      by_cases hrun : run = true
      · simp only [hrun, if_true]
        exact ⟨h1.trans (upd_popPath g H0 w _), hev⟩
      · simp only [hrun, Bool.false_eq_true, if_false]
        by_cases hc : isCleanupReady (visH g hid0) s1 next w = true
        · simp only [hc, if_true]
          by_cases hpp : (!((visH g hid0).node next).flat && (s1.wd w).unexplored) = true
          · simp only [hpp, if_true]
            refine ⟨h1.trans (upd_setWd g H0 w s1 _ ?_ (fun _ => Or.inl rfl)), hev⟩
            intro d _ x hx
            have hx' : x = (visH g hid0).root := by simpa using hx
            rw [hx', hsn.root]; exact ctx.root_ok w
          simp only [hpp, Bool.false_eq_true, if_false]
          have h2 := upd_dropChildren g H0 w _ hsn next hn hrel ((visH g hid0).node next).setup s1 hfin1
          cases hr : reverseNode (visH g hid0)
              (List.foldl (fun s x => dropChild (visH g hid0) s x.1 next w) s1 ((visH g hid0).node next).setup) next w with
          | error e => exact ⟨h1.trans h2, hev⟩
          | ok r =>
            obtain ⟨s2, evs2⟩ := r
            have h3 := reverseNode_ok g H0 hid0 w _ next s2 evs2 ctx.sub0 (fun h hh => hsub1 h (h2.hidden h hh)) hn
              (h2.nodesLen.trans hlen1) hr
            have h4 : Ok g H0 w s s2 evs2 := Ok.of_upd (h1.trans h2) h3
            exact (Ok.trans ⟨Upd.refl g H0 w s, hev⟩ h4).then_upd (upd_popPath g H0 w _)
        · simp only [hc, Bool.false_eq_true, if_false]
          cases hp : pickChild (visH g hid0) s1 next w with
          | none => exact ⟨h1, hev⟩
          | some r =>
            obtain ⟨c, s2⟩ := r
            exact ⟨h1.trans (upd_pickChild g H0 w _ hsn hwfv s1 next c s2 hp), hev⟩

theorem upd_setWd_test (g : Graph) (H0 : List Nat) (w : Nat) (s : State) (f : WorkerD → WorkerD) (n : Nat)
    (hpath : ∀ d, (f d).path = d.path) (hpc : ∀ d, ∃ ph dir uid tag wait, (f d).pc = .test n ph dir uid tag wait)
    (hr : ReadyAt g H0 s w n) : Upd g H0 w s (s.setWd w f) := by
  refine ⟨rfl, fun _ h => h, fun _ => Or.inl rfl, fun _ _ _ h => Or.inl h, fun _ _ _ h => Or.inl h, fun _ _ _ h => h,
    fun v hv => wd_setWd_ne s w v f hv, ?_, ?_⟩
  · intro hp
    unfold PathOk
    rcases wd_setWd_cases s w f with ⟨h, _⟩ | ⟨_, h⟩
    · rw [h]; exact hp
    · rw [h, hpath]; exact hp
  · rcases wd_setWd_cases s w f with ⟨h, _⟩ | ⟨_, h⟩
    · exact Or.inl (by rw [h])
    · right; right
      intro n' ph' dir' uid' tag' wait' hp
      rw [h] at hp
      obtain ⟨ph, dir, uid, tag, wait, hq⟩ := hpc (s.wd w)
      rw [hq] at hp
      cases hp
      exact hr.mono (fun _ hh => hh) (fun _ _ _ hh => hh)

theorem upd_nextTag (g : Graph) (H0 : List Nat) (w : Nat) (s : State) (t : Nat) : Upd g H0 w s { s with nextTag := t } :=
  Upd.quiet rfl (fun _ h => h) (fun _ => rfl) (fun _ => rfl) (fun _ => rfl) (fun _ => rfl)

/-- `run_test_node`, first half: the only source of `start` events -/
theorem startTest_ok (g : Graph) (H0 : List Nat) (w : Nat) (gv : Graph) (hsn : SameNodes gv g) (s : State) (n : Nat)
    (ph : Phase) (dir : Dir) (hr : ReadyAt g H0 s w n) :
    Ok g H0 w s (startTest gv s n w ph dir).1 (startTest gv s n w ph dir).2.1 := by
  have hev : ∀ (e : Event) uid locs k, e = Event.start (gv.worker w).id (clsName gv n ph) uid locs k → EvOk g H0 w s e := by
    intro e uid locs k he
    refine ⟨fun wid reqs sc ok hev => (by rw [he] at hev; cases hev), fun wid cname uid' locs' k' hev => ?_⟩
    rw [he] at hev
    cases hev
    exact ⟨by rw [hsn.worker], n, ph, s, clsName_sameNodes hsn n ph, Upd.refl g H0 w s, hr⟩
  unfold startTest
  dsimp only
  split
  · refine ⟨?_, fun e he => hev e _ _ _ (List.mem_singleton.mp he)⟩
    dsimp only
    refine Upd.trans (upd_nextTag g H0 w s _) (upd_setWd_test g H0 w _ _ n ?_ ?_ ?_)
    · exact fun _ => rfl
    · exact fun _ => ⟨_, _, _, _, _, rfl⟩
    · exact hr.mono (fun _ hh => hh) (fun _ _ _ hh => hh)
  · refine ⟨?_, fun e he => hev e _ _ _ (List.mem_singleton.mp he)⟩
    dsimp only
    refine Upd.trans (Upd.trans (upd_nextTag g H0 w s _) (upd_setNd g H0 w _ n _ ?_)) (upd_setWd_test g H0 w _ _ n ?_ ?_ ?_)
    · exact fun _ => rfl
    · exact fun _ => rfl
    · exact fun _ => ⟨_, _, _, _, _, rfl⟩
    · exact hr.mono (fun _ hh => hh) (fun _ _ _ hh => hh)

/-- `traverse_node` (entered on a free, setup-ready node) followed by the rest of the loop body -/
theorem traverseNode_ok (g : Graph) (H0 hid0 : List Nat) (ctx : Ctx g H0 hid0) (w : Nat) (s : State) (next prev : Nat)
    (dir : Dir) (hsub : ∀ h ∈ s.hidden, h ∈ hid0) (hlen : s.nodes.length = g.nodes.length)
    (hn : next < g.nodes.length) (hrel : relevant g w next = true)
    (hocc : isOccupied (visH g hid0) s next w = false) (hready : isSetupReady (visH g hid0) s next w = true) :
    Ok g H0 w s (traverseNode (visH g hid0) s w next prev dir).1 (traverseNode (visH g hid0) s w next prev dir).2.1 := by
  have hsn := sameNodes_visH g hid0
  unfold traverseNode
  simp only [hocc, Bool.false_eq_true, if_false]
  have hA : Upd g H0 w s (pullLocations (visH g hid0) (s.setNd next (fun d => { d with started := some w })) next) :=
    (upd_setNd g H0 w s next (fun d => { d with started := some w }) (fun _ => rfl)).trans (upd_pullLocations g H0 w _ _ next)
  cases hd : runDecision (visH g hid0) (pullLocations (visH g hid0) (s.setNd next (fun d => { d with started := some w })) next) next w with
  | error e => exact Ok.silent hA
  | ok r =>
    obtain ⟨run, s1, evs⟩ := r
    have h1 : Upd g H0 w s s1 := hA.trans (upd_runDecision g H0 w _ _ next w run s1 evs hd)
    have hrd := runDecision_events _ _ next w run s1 evs hd
    have hev : Ok g H0 w s s1 evs := ⟨h1, fun e he => EvOk.of_plain (hrd.1 e he)⟩
    have hlen1 : s1.nodes.length = g.nodes.length := h1.nodesLen.trans hlen
    dsimp only
    by_cases hrun : run = true
    · subst hrun
      simp only [if_true]
      obtain ⟨hflat, hid⟩ := hrd.2 rfl
      have hr1 : ReadyAt g H0 s1 w next :=
        ⟨hn, (by rw [← idIn_sameNodes hsn]; exact hid), (by rw [← hsn.flat]; exact hflat), hid0,
          fun h hh => hsub h (h1.hidden h hh), ctx.sub0, isSetupReady_mono _ s s1 next w h1.monoS hready⟩
      by_cases hroot : ((visH g hid0).node next).objectRoot = true
      · simp only [hroot, if_true]
        generalize hF : (fun (d : WorkerD) => { d with
            preResults := (s1.nd next).results,
            preName := "all.internal.stateless.noop.vms." ++ " ".intercalate ((visH g hid0).node next).objs ++ ".nets." ++
              ((visH g hid0).worker w).swarm ++ "." ++ (((visH g hid0).worker w).id.splitOn ".").getLast! }) = F
        have h2 : Upd g H0 w s1 (s1.setWd w F) :=
          upd_setWd g H0 w s1 _ (fun d h => by rw [← hF]; exact h) (fun d => Or.inl (by rw [← hF]))
        have h3 := startTest_ok g H0 w _ hsn _ next .pre dir (hr1.mono h2.hidden h2.monoS)
        rcases hst : startTest (visH g hid0) (s1.setWd w F) next w .pre dir with ⟨s2, evs2, f⟩
        rw [hst] at h3
        exact hev.trans (Ok.of_upd h2 h3)
      · simp only [hroot, Bool.false_eq_true, if_false]
        have h3 := startTest_ok g H0 w _ hsn s1 next .plain dir hr1
        rcases hst : startTest (visH g hid0) s1 next w .plain dir with ⟨s2, evs2, f⟩
        rw [hst] at h3
        exact hev.trans h3
    · simp only [hrun, Bool.false_eq_true, if_false]
      have h2 : Upd g H0 w s1 (finishTraverse s1 next w) := upd_finishTraverse g H0 w s1 next hn hrel
      have hf2 : ((finishTraverse s1 next w).nd next).finished = some w := by
        unfold finishTraverse; rw [nd_setNd_eq s1 next _ (by rw [hlen1]; exact hn)]
      have h3 := afterTraverse_ok g H0 hid0 ctx w (finishTraverse s1 next w) next prev dir
        (fun h hh => hsub h (h1.hidden h (h2.hidden h hh))) (h2.nodesLen.trans hlen1) hn hrel (fun _ => hf2)
      rcases hat : afterTraverse (visH g hid0) (finishTraverse s1 next w) w next prev dir with ⟨s2, evs2, f⟩
      rw [hat] at h3
      exact hev.trans (Ok.of_upd h2 h3)

theorem plain_exit (wid : String) : Plain (.exit wid) := ⟨fun _ _ _ _ h => by simp at h, fun _ _ _ _ _ h => by simp at h⟩
theorem plain_sleep (wid : String) (q : Nat) : Plain (.sleep wid q) :=
  ⟨fun _ _ _ _ h => by simp at h, fun _ _ _ _ _ h => by simp at h⟩
theorem plain_raise (wid what : String) : Plain (.raise wid what) :=
  ⟨fun _ _ _ _ h => by simp at h, fun _ _ _ _ _ h => by simp at h⟩
theorem plain_finish (wid c uid st : String) : Plain (.finish wid c uid st) :=
  ⟨fun _ _ _ _ h => by simp at h, fun _ _ _ _ _ h => by simp at h⟩

theorem Ok.single {g : Graph} {H0 : List Nat} {w : Nat} {s s1 : State} {e : Event} (a : Upd g H0 w s s1) (h : Plain e) :
    Ok g H0 w s s1 [e] :=
  ⟨a, fun e' he => by rw [List.mem_singleton.mp he]; exact EvOk.of_plain h⟩

/-- one iteration of the loop on the graph visible with `hid0` hidden -/
theorem iter_ok (g : Graph) (H0 hid0 : List Nat) (ctx : Ctx g H0 hid0) (w : Nat) (s : State)
    (hsub : ∀ h ∈ s.hidden, h ∈ hid0) (hlen : s.nodes.length = g.nodes.length) (hpath : PathOk g w s) :
    Ok g H0 w s (iter (visH g hid0) s w).1 (iter (visH g hid0) s w).2.1 := by
  have hsn := sameNodes_visH g hid0
  have hwfv := ctx.wf.visH hid0
  unfold iter
  dsimp only
  split
  · split
    · exact Ok.single (upd_setWd g H0 w s _ (fun _ _ x hx => by simp at hx) (fun _ => Or.inr rfl)) (plain_exit _)
    · exact Ok.silent (Upd.refl g H0 w s)
  · cases hl : (s.wd w).path.getLast? with
    | none => exact Ok.silent (Upd.refl g H0 w s)
    | some next =>
      obtain ⟨hnext, hrel⟩ := hpath next (List.mem_of_getLast? hl)
      dsimp only
      split
      · cases hp : pickChild (visH g hid0) s next w with
        | none => exact Ok.silent (Upd.refl g H0 w s)
        | some r => obtain ⟨c, s2⟩ := r; exact Ok.silent (upd_pickChild g H0 w _ hsn hwfv s next c s2 hp)
      · by_cases hocc : isOccupied (visH g hid0) s next w = true
        · -- bounce
          simp only [hocc, if_true]
          refine Ok.single (Upd.trans ?_ (upd_setWd g H0 w _ _ ?_ (fun _ => Or.inr rfl))) (plain_sleep _ _)
          · split
            · refine Upd.trans ?_ (upd_setWd g H0 w _ _ (fun _ h => h) (fun _ => Or.inl rfl))
              split
              · exact upd_setNd g H0 w s next _ (fun _ => rfl)
              · exact Upd.refl g H0 w s
            · exact upd_setWd g H0 w s _ (fun _ h => h) (fun _ => Or.inl rfl)
          · intro d _ x hx
            have hx' : x = (visH g hid0).root := by simpa using hx
            rw [hx', hsn.root]; exact ctx.root_ok w
        · have hocc' : isOccupied (visH g hid0) s next w = false := by simpa using hocc
          simp only [hocc', Bool.false_eq_true, if_false]
          by_cases hready : isSetupReady (visH g hid0) s next w = true
          · simp only [hready, if_true, Bool.not_true, Bool.false_eq_true, if_false]
            split
            · exact traverseNode_ok g H0 hid0 ctx w s next _ .up hsub hlen hnext hrel hocc' hready
            · split
              · exact traverseNode_ok g H0 hid0 ctx w s next _ .down hsub hlen hnext hrel hocc' hready
              · exact Ok.silent (Upd.refl g H0 w s)
          · have hready' : isSetupReady (visH g hid0) s next w = false := by simpa using hready
            simp only [hready', Bool.false_eq_true, if_false, Bool.not_false, if_true]
            split
            · cases hp : pickParent (visH g hid0) s next w with
              | none => exact Ok.silent (Upd.refl g H0 w s)
              | some r => obtain ⟨c, s2⟩ := r; exact Ok.silent (upd_pickParent g H0 w _ hsn hwfv s next c s2 hp)
            · split
              · cases hp : pickParent (visH g hid0) s next w with
                | none => exact Ok.silent (Upd.refl g H0 w s)
                | some r => obtain ⟨c, s2⟩ := r; exact Ok.silent (upd_pickParent g H0 w _ hsn hwfv s next c s2 hp)
              · exact Ok.silent (Upd.refl g H0 w s)

theorem upd_reveal (g : Graph) (H0 : List Nat) (w : Nat) (s : State) (f v : Nat) : Upd g H0 w s (reveal g s f v) := by
  unfold reveal
  dsimp only
  split
  · exact Upd.quiet rfl (fun _ h => h) (fun _ => rfl) (fun _ => rfl) (fun _ => rfl) (fun _ => rfl)
  · exact Upd.quiet rfl (fun _ h => (List.mem_filter.mp h).1) (fun _ => rfl) (fun _ => rfl) (fun _ => rfl) (fun _ => rfl)

theorem upd_prepare (g : Graph) (H0 : List Nat) (w : Nat) (s : State) : Upd g H0 w s (prepare g s w) := by
  unfold prepare
  dsimp only
  cases (s.wd w).path.getLast? with
  | none => exact Upd.refl g H0 w s
  | some next =>
    dsimp only
    have h0 : Upd g H0 w s (s.setWd w (fun d => { d with unexplored := !(unexploredNodes (vis g s) s).isEmpty })) :=
      upd_setWd g H0 w s _ (fun _ h => h) (fun _ => Or.inl rfl)
    split
    · exact h0.trans (upd_reveal g H0 w _ next w)
    · exact h0

/-- one iteration including the lazy expansion step -/
theorem iterL_ok (g : Graph) (H0 : List Nat) (hwf : GraphWF g) (hroot : (g.node g.root).flat = true) (w : Nat) (s : State)
    (hH : ∀ h ∈ s.hidden, h ∈ H0) (hlen : s.nodes.length = g.nodes.length) (hpath : PathOk g w s) :
    Ok g H0 w s (iterL g s w).1 (iterL g s w).2.1 := by
  unfold iterL
  split
  · rw [vis_eq_visH]
    exact iter_ok g H0 s.hidden ⟨hwf, hroot, hH⟩ w s (fun _ h => h) hlen hpath
  · dsimp only
    have h0 := upd_prepare g H0 w s
    rw [vis_eq_visH]
    exact Ok.of_upd h0 (iter_ok g H0 (prepare g s w).hidden ⟨hwf, hroot, fun h hh => hH h (h0.hidden h hh)⟩ w _
      (fun _ h => h) (h0.nodesLen.trans hlen) (h0.path hpath))

/-- the loop up to the next suspension: the events are those handed in plus events of known provenance -/
theorem runLoop_ok (g : Graph) (H0 : List Nat) (hwf : GraphWF g) (hroot : (g.node g.root).flat = true) (w : Nat) (fuel : Nat)
    (s : State) (evs : List Event)
    (hH : ∀ h ∈ s.hidden, h ∈ H0) (hlen : s.nodes.length = g.nodes.length) (hpath : PathOk g w s) :
    Upd g H0 w s (runLoop g w fuel s evs).1 ∧ ∀ e ∈ (runLoop g w fuel s evs).2, e ∈ evs ∨ EvOk g H0 w s e := by
  induction fuel generalizing s evs with
  | zero =>
    unfold runLoop
    refine ⟨Upd.refl g H0 w s, fun e he => ?_⟩
    rcases List.mem_append.mp he with he | he
    · exact Or.inl he
    · rw [List.mem_singleton.mp he]; exact Or.inr (EvOk.of_plain (plain_raise _ _))
  | succ fuel ih =>
    unfold runLoop
    dsimp only
    have h0 : Upd g H0 w s (s.setWd w (fun d => { d with pc := .loop })) := upd_setPc g H0 w s .loop rfl
    have he := iterL_ok g H0 hwf hroot w _ (fun h hh => hH h (h0.hidden h hh)) (h0.nodesLen.trans hlen) (h0.path hpath)
    rcases hi : iterL g (s.setWd w (fun d => { d with pc := .loop })) w with ⟨s1, e, f⟩
    rw [hi] at he
    have h1 : Upd g H0 w s s1 := h0.trans he.1
    have hev : ∀ x ∈ evs ++ e, x ∈ evs ∨ EvOk g H0 w s x := by
      intro x hx
      rcases List.mem_append.mp hx with hx | hx
      · exact Or.inl hx
      · exact Or.inr ((he.2 x hx).mono h0)
    cases f with
    | cont =>
      dsimp only
      obtain ⟨h2, h3⟩ := ih s1 (evs ++ e) (fun h hh => hH h (h1.hidden h hh)) (h1.nodesLen.trans hlen) (h1.path hpath)
      refine ⟨h1.trans h2, fun x hx => ?_⟩
      rcases h3 x hx with hx | hx
      · exact hev x hx
      · exact Or.inr (hx.mono h1)
    | suspend => exact ⟨h1, hev⟩
    | exit => exact ⟨h1, hev⟩
    | raise what =>
      dsimp only
      refine ⟨h1.trans (upd_setPc g H0 w s1 .failed rfl), fun x hx => ?_⟩
      rcases List.mem_append.mp hx with hx | hx
      · exact hev x hx
      · rw [List.mem_singleton.mp hx]; exact Or.inr (EvOk.of_plain (plain_raise _ _))

/-! ## the resumption part of a step -/

/-- first block of the second half of `run_test_node`: the stub's report (a definitional factor of `resumeTest`) -/
def reportOutcomeR (g : Graph) (s : State) (w n : Nat) (phase : Phase) (uid : String) (wait : Nat) (out : Outcome) :
    State × List Event :=
  let wid := (g.worker w).id
  let name := if phase == .pre then (s.wd w).preName else (g.node n).name
  if wait == 0 then
    match out.status with
    | some st =>
      let s := { s with jobResults := s.jobResults ++ [(name, uid, st, out.dur)] }
      let s := if (st == "PASS" || st == "WARN") && phase != .pre then produce g s n w else s
      (s, [Event.finish wid (clsName g n phase) uid st])
    | none => (s, [Event.finish wid (clsName g n phase) uid "NONE"])
  else (s, [])

/-- the found result replaces the placeholder; returns the state and whether the status counts as success -/
def recordResultR (s : State) (w n : Nat) (phase : Phase) (name uid : String) (tag : Nat) (st0 : String) (dur : Nat) :
    State × Bool :=
  let prior := if phase == .pre then (s.wd w).preResults else (s.nd n).results
  let maxAllowed := ((prior.filter (·.status == "PASS")).map (·.dur)).foldl max 0
  let maxAllowed := if (prior.filter (·.status == "PASS")).isEmpty then dur else maxAllowed
  let st := if st0 == "PASS" && 4 * dur > 5 * maxAllowed then "WARN" else st0
  let s := if st != st0 then
      { s with jobResults := s.jobResults.map (fun r => if r.1 == name && r.2.1 == uid then (r.1, r.2.1, st, r.2.2.2) else r) }
    else s
  let res : Result := { name := name, status := st, uid := uid, dur := dur }
  let s :=
    if phase == .pre then
      s.setWd w (fun d => { d with preResults := (d.preResults ++ [res]).filter (fun r => !(r.status == "UNKNOWN" && r.tag == tag)) })
    else
      s.setNd n (fun d => { d with results := (d.results ++ [res]).filter (fun r => !(r.status == "UNKNOWN" && r.tag == tag)) })
  (s, !(lower st == "error" || lower st == "fail"))

theorem resumeTest_eqR (g : Graph) (s : State) (w n : Nat) (phase : Phase) (dir : Dir) (uid : String) (tag wait : Nat)
    (out : Outcome) (fuel : Nat) :
    resumeTest g s w n phase dir uid tag wait out fuel =
      (match (reportOutcomeR g s w n phase uid wait out).1.jobResults.find?
          (fun r => r.1 == (if phase == .pre then (s.wd w).preName else (g.node n).name) && r.2.1 == uid) with
       | some (_, _, st0, dur) =>
         resumeTest.continueAfter g w n phase dir fuel
           (recordResultR (reportOutcomeR g s w n phase uid wait out).1 w n phase
             (if phase == .pre then (s.wd w).preName else (g.node n).name) uid tag st0 dur).1
           (recordResultR (reportOutcomeR g s w n phase uid wait out).1 w n phase
             (if phase == .pre then (s.wd w).preName else (g.node n).name) uid tag st0 dur).2
           (reportOutcomeR g s w n phase uid wait out).2
       | none =>
         if wait + 1 < 10 then
           ((reportOutcomeR g s w n phase uid wait out).1.setWd w (fun d => { d with pc := .test n phase dir uid tag (wait + 1) }),
            (reportOutcomeR g s w n phase uid wait out).2 ++ [Event.sleep (g.worker w).id 3000])
         else if wait + 1 == 10 then
           ((reportOutcomeR g s w n phase uid wait out).1.setWd w (fun d => { d with pc := .test n phase dir uid tag (wait + 1) }),
            (reportOutcomeR g s w n phase uid wait out).2 ++ [Event.sleep (g.worker w).id 3000])
         else resumeTest.continueAfter g w n phase dir fuel (reportOutcomeR g s w n phase uid wait out).1 false
           (reportOutcomeR g s w n phase uid wait out).2) := rfl

theorem upd_jobResults (g : Graph) (H0 : List Nat) (w : Nat) (s : State) (j : List (String × String × String × Nat)) :
    Upd g H0 w s { s with jobResults := j } :=
  Upd.quiet rfl (fun _ h => h) (fun _ => rfl) (fun _ => rfl) (fun _ => rfl) (fun _ => rfl)

theorem reportOutcomeR_ok (g : Graph) (H0 : List Nat) (s : State) (w n : Nat) (phase : Phase) (uid : String) (wait : Nat)
    (out : Outcome) :
    Upd g H0 w s (reportOutcomeR g s w n phase uid wait out).1 ∧ ∀ e ∈ (reportOutcomeR g s w n phase uid wait out).2, Plain e := by
  unfold reportOutcomeR
  dsimp only
  split
  · split
    · refine ⟨?_, fun e he => by rw [List.mem_singleton.mp he]; exact plain_finish _ _ _ _⟩
      split
      · exact (upd_jobResults g H0 w s _).trans (upd_store g H0 w _ _)
      · exact upd_jobResults g H0 w s _
    · exact ⟨Upd.refl g H0 w s, fun e he => by rw [List.mem_singleton.mp he]; exact plain_finish _ _ _ _⟩
  · exact ⟨Upd.refl g H0 w s, fun e he => by simp at he⟩

theorem upd_recordResultR (g : Graph) (H0 : List Nat) (s : State) (w n : Nat) (phase : Phase) (name uid : String) (tag : Nat)
    (st0 : String) (dur : Nat) : Upd g H0 w s (recordResultR s w n phase name uid tag st0 dur).1 := by
  unfold recordResultR
  dsimp only
  have hX : ∀ (c : Bool) (jr : List (String × String × String × Nat)),
      Upd g H0 w s (if c = true then { s with jobResults := jr } else s) := by
    intro c jr
    cases c
    · exact Upd.refl g H0 w s
    · exact upd_jobResults g H0 w s jr
  by_cases hp : (phase == Phase.pre) = true
  · simp only [hp, if_true]
    exact (hX _ _).trans (upd_setWd g H0 w _ _ (fun _ h => h) (fun _ => Or.inl rfl))
  · simp only [hp, Bool.false_eq_true, if_false]
    exact (hX _ _).trans (upd_setNd g H0 w _ n _ (fun _ => rfl))

theorem relevant_of_idIn {g : Graph} {w n : Nat} (h : g.idIn w n = true) : relevant g w n = true := by
  unfold relevant; rw [h]; simp

/-- the continuation after the awaited test on node `n` (which was setup-ready when the test was started) -/
theorem continueAfter_ok (g : Graph) (H0 : List Nat) (hwf : GraphWF g) (hroot : (g.node g.root).flat = true) (w n : Nat)
    (ph : Phase) (dir : Dir) (fuel : Nat) (s : State) (ok : Bool) (evs : List Event)
    (hH : ∀ h ∈ s.hidden, h ∈ H0) (hlen : s.nodes.length = g.nodes.length) (hpath : PathOk g w s)
    (hr : ReadyAt g H0 s w n) :
    Upd g H0 w s (resumeTest.continueAfter g w n ph dir fuel s ok evs).1 ∧
      ∀ e ∈ (resumeTest.continueAfter g w n ph dir fuel s ok evs).2, e ∈ evs ∨ EvOk g H0 w s e := by
  unfold resumeTest.continueAfter
  dsimp only
  by_cases hc : (ph == Phase.pre && ok) = true
  · simp only [hc, if_true]
    have h3 := startTest_ok g H0 w g (SameNodes.refl g) s n .main dir hr
    rcases hst : startTest g s n w .main dir with ⟨s2, e2, f⟩
    rw [hst] at h3
    refine ⟨h3.1, fun e he => ?_⟩
    rcases List.mem_append.mp he with he | he
    · exact Or.inl he
    · exact Or.inr (h3.2 e he)
  · simp only [hc, Bool.false_eq_true, if_false]
    have hsd : Upd g H0 w s (if (ph == Phase.pre) = true then
          s.setNd n (fun d => { d with results := d.results ++ List.drop d.results.length (s.wd w).preResults })
        else s) := by
      split
      · exact upd_setNd g H0 w s n _ (fun _ => rfl)
      · exact Upd.refl g H0 w s
    generalize (if (ph == Phase.pre) = true then
          s.setNd n (fun d => { d with results := d.results ++ List.drop d.results.length (s.wd w).preResults })
        else s) = sd at hsd ⊢
    have hn := hr.1
    have hrel : relevant g w n = true := relevant_of_idIn hr.2.1
    have hf : Upd g H0 w sd (finishTraverse sd n w) := upd_finishTraverse g H0 w sd n hn hrel
    have hlen2 : (finishTraverse sd n w).nodes.length = g.nodes.length := hf.nodesLen.trans (hsd.nodesLen.trans hlen)
    have hfin : ((finishTraverse sd n w).nd n).finished = some w := by
      unfold finishTraverse; rw [nd_setNd_eq sd n _ (by rw [hsd.nodesLen, hlen]; exact hn)]
    have hH2 : ∀ h ∈ (finishTraverse sd n w).hidden, h ∈ H0 := fun h hh => hH h (hsd.hidden h (hf.hidden h hh))
    have h3 := afterTraverse_ok g H0 (finishTraverse sd n w).hidden ⟨hwf, hroot, hH2⟩ w (finishTraverse sd n w) n
      ((s.wd w).path.getD ((s.wd w).path.length - 2) 0) dir (fun _ h => h) hlen2 hn hrel (fun _ => hfin)
    rw [← vis_eq_visH g (finishTraverse sd n w)] at h3
    rcases hat : afterTraverse (vis g (finishTraverse sd n w)) (finishTraverse sd n w) w n
      ((s.wd w).path.getD ((s.wd w).path.length - 2) 0) dir with ⟨s2, e2, f⟩
    rw [hat] at h3
    have h1 : Upd g H0 w s s2 := hsd.trans (hf.trans h3.1)
    have hev : ∀ x ∈ evs ++ e2, x ∈ evs ∨ EvOk g H0 w s x := by
      intro x hx
      rcases List.mem_append.mp hx with hx | hx
      · exact Or.inl hx
      · exact Or.inr ((h3.2 x hx).mono (hsd.trans hf))
    have hloop : Upd g H0 w s (runLoop g w fuel s2 (evs ++ e2)).1 ∧
        ∀ e ∈ (runLoop g w fuel s2 (evs ++ e2)).2, e ∈ evs ∨ EvOk g H0 w s e := by
      obtain ⟨h4, h5⟩ := runLoop_ok g H0 hwf hroot w fuel s2 (evs ++ e2) (fun h hh => hH h (h1.hidden h hh))
        (h1.nodesLen.trans hlen) (h1.path hpath)
      refine ⟨h1.trans h4, fun x hx => ?_⟩
      rcases h5 x hx with hx | hx
      · exact hev x hx
      · exact Or.inr (hx.mono h1)
    cases f with
    | raise what =>
      dsimp only
      refine ⟨h1.trans (upd_setPc g H0 w s2 .failed rfl), fun x hx => ?_⟩
      rcases List.mem_append.mp hx with hx | hx
      · exact hev x hx
      · rw [List.mem_singleton.mp hx]; exact Or.inr (EvOk.of_plain (plain_raise _ _))
    | cont => exact hloop
    | suspend => exact hloop
    | exit => exact hloop

theorem resumeTest_ok (g : Graph) (H0 : List Nat) (hwf : GraphWF g) (hroot : (g.node g.root).flat = true) (s : State)
    (w n : Nat) (ph : Phase) (dir : Dir) (uid : String) (tag wait : Nat) (out : Outcome) (fuel : Nat)
    (hH : ∀ h ∈ s.hidden, h ∈ H0) (hlen : s.nodes.length = g.nodes.length) (hpath : PathOk g w s)
    (hr : ReadyAt g H0 s w n) :
    Ok g H0 w s (resumeTest g s w n ph dir uid tag wait out fuel).1 (resumeTest g s w n ph dir uid tag wait out fuel).2 := by
  rw [resumeTest_eqR]
  obtain ⟨ha, hea⟩ := reportOutcomeR_ok g H0 s w n ph uid wait out
  have hra : ReadyAt g H0 (reportOutcomeR g s w n ph uid wait out).1 w n := hr.mono ha.hidden ha.monoS
  have hwait : Ok g H0 w s
      ((reportOutcomeR g s w n ph uid wait out).1.setWd w (fun d => { d with pc := .test n ph dir uid tag (wait + 1) }))
      ((reportOutcomeR g s w n ph uid wait out).2 ++ [Event.sleep (g.worker w).id 3000]) := by
    refine ⟨ha.trans (upd_setWd_test g H0 w _ _ n (fun _ => rfl) (fun _ => ⟨_, _, _, _, _, rfl⟩) hra), fun e he => ?_⟩
    rcases List.mem_append.mp he with he | he
    · exact EvOk.of_plain (hea e he)
    · rw [List.mem_singleton.mp he]; exact EvOk.of_plain (plain_sleep _ _)
  have hcont : ∀ sb ok, Upd g H0 w (reportOutcomeR g s w n ph uid wait out).1 sb →
      Ok g H0 w s (resumeTest.continueAfter g w n ph dir fuel sb ok (reportOutcomeR g s w n ph uid wait out).2).1
        (resumeTest.continueAfter g w n ph dir fuel sb ok (reportOutcomeR g s w n ph uid wait out).2).2 := by
    intro sb ok hb
    have hab := ha.trans hb
    obtain ⟨h1, h2⟩ := continueAfter_ok g H0 hwf hroot w n ph dir fuel sb ok (reportOutcomeR g s w n ph uid wait out).2
      (fun h hh => hH h (hab.hidden h hh)) (hab.nodesLen.trans hlen) (hab.path hpath) (hr.mono hab.hidden hab.monoS)
    refine ⟨hab.trans h1, fun e he => ?_⟩
    rcases h2 e he with he | he
    · exact EvOk.of_plain (hea e he)
    · exact he.mono hab
  split
  · next st0 dur _ => exact hcont _ _ (upd_recordResultR g H0 _ w n ph _ uid tag st0 dur)
  · split
    · exact hwait
    · split
      · exact hwait
      · exact hcont _ _ (Upd.refl g H0 w _)

/-- one scheduler step -/
theorem resume_ok (g : Graph) (H0 : List Nat) (hwf : GraphWF g) (hroot : (g.node g.root).flat = true) (s : State)
    (w : Nat) (out : Outcome) (fuel : Nat) (t : Trv g H0 s) :
    Ok g H0 w s (resume g s w out fuel).1 (resume g s w out fuel).2 := by
  have hloop : Ok g H0 w s (runLoop g w fuel s []).1 (runLoop g w fuel s []).2 := by
    obtain ⟨h1, h2⟩ := runLoop_ok g H0 hwf hroot w fuel s [] t.hidden t.nodesLen (t.path w)
    refine ⟨h1, fun e he => ?_⟩
    rcases h2 e he with he | he
    · simp at he
    · exact he
  unfold resume
  split
  · exact hloop
  · exact hloop
  · next n ph dir uid tag wait hpc =>
    exact resumeTest_ok g H0 hwf hroot s w n ph dir uid tag wait out fuel t.hidden t.nodesLen (t.path w)
      (t.pc w n ph dir uid tag wait hpc)
  · exact Ok.silent (Upd.refl g H0 w s)
  · exact Ok.silent (Upd.refl g H0 w s)

theorem Trv.step {g : Graph} {H0 : List Nat} (hwf : GraphWF g) (hroot : (g.node g.root).flat = true) (hu : UniqueId g)
    {s : State} (t : Trv g H0 s) (w : Nat) (out : Outcome) (fuel : Nat) : Trv g H0 (resume g s w out fuel).1 :=
  t.upd hu (resume_ok g H0 hwf hroot s w out fuel t).1

theorem Trv.init (g : Graph) (hwf : GraphWF g) (hroot : (g.node g.root).flat = true) (ncls : Nat)
    (store : List (String × List (String × String))) (H0 : List Nat) : Trv g H0 (initState g ncls store H0) := by
  have hnd : ∀ m, ((initState g ncls store H0).nd m).finished = none := by
    intro m
    unfold initState State.nd
    simp only [List.getD_eq_getElem?_getD, List.getElem?_map]
    cases g.nodes[m]? <;> rfl
  have hcr : ∀ c, (initState g ncls store H0).cr c = {} := by
    intro c
    unfold initState State.cr
    simp only [List.getD_eq_getElem?_getD, List.getElem?_map]
    cases (List.range ncls)[c]? <;> rfl
  have hwd : ∀ v, ((initState g ncls store H0).wd v) = { path := [g.root] } ∨ ((initState g ncls store H0).wd v) = {} := by
    intro v
    unfold initState State.wd
    simp only [List.getD_eq_getElem?_getD, List.getElem?_map]
    cases g.workers[v]?
    · right; rfl
    · left; rfl
  refine ⟨by simp [initState], fun _ h => h, ?_, ?_, ?_, ?_, ?_⟩
  · intro i v _ _ h; rw [hnd] at h; cases h
  · intro c c' v h; rw [hcr] at h; simp [regWorkers] at h
  · intro c c' v h; rw [hcr] at h; simp [regWorkers] at h
  · intro v x hx
    rcases hwd v with h | h
    · rw [h] at hx
      have : x = g.root := by simpa using hx
      rw [this]
      exact ⟨hwf.root_lt, by unfold relevant; rw [hroot]; rfl⟩
    · rw [h] at hx; simp at hx
  · intro v
    apply PcOk.of_nonTest
    rcases hwd v with h | h <;> rw [h] <;> rfl

/-! ## reachability -/

/-- the states the scheduler can produce from the initial state in which exactly the nodes `H0` are not parsed yet
(`[]`: pre-parsed graph): any finite sequence of `resume` steps of any workers with any outcomes and any fuel.
(`Reachable` of `TravExcl.lean` is `∃ H0, ReachH … H0`.) -/
inductive ReachH (g : Graph) (ncls : Nat) (store : List (String × List (String × String))) (H0 : List Nat) : State → Prop
  | init : ReachH g ncls store H0 (initState g ncls store H0)
  | step (s : State) (w : Nat) (out : Outcome) (fuel : Nat) :
      ReachH g ncls store H0 s → ReachH g ncls store H0 (resume g s w out fuel).1

theorem ReachH.trv {g : Graph} (hwf : GraphWF g) (hroot : (g.node g.root).flat = true) (hu : UniqueId g) {ncls : Nat}
    {store : List (String × List (String × String))} {H0 : List Nat} {s : State} (h : ReachH g ncls store H0 s) :
    Trv g H0 s := by
  induction h with
  | init => exact Trv.init g hwf hroot ncls store H0
  | step s w out fuel _ ih => exact ih.step hwf hroot hu w out fuel

/-- running a schedule: a list of (worker, outcome of the awaited test) -/
def runSched (g : Graph) (fuel : Nat) (s : State) (l : List (Nat × Outcome)) : State :=
  l.foldl (fun s p => (resume g s p.1 p.2 fuel).1) s

theorem reachH_runSched (g : Graph) (ncls : Nat) (store : List (String × List (String × String))) (H0 : List Nat) (fuel : Nat)
    (l : List (Nat × Outcome)) (s : State) (h : ReachH g ncls store H0 s) : ReachH g ncls store H0 (runSched g fuel s l) := by
  induction l generalizing s with
  | nil => exact h
  | cons p l ih => exact ih _ (ReachH.step s p.1 p.2 fuel h)

/-! ## hypotheses on the graph, decidable forms -/

/-- a worker's id occurs in the names of exactly its own parsed copies (`worker.id in node.params["name"]` is the
identity test the traversal uses) -/
def OwnerNames (g : Graph) : Prop :=
  ∀ w n, n < g.nodes.length → (g.node n).flat = false → (g.idIn w n = true ↔ (g.node n).owner = some w)

theorem OwnerNames.uniq {g : Graph} (h : OwnerNames g) : UniqueId g := by
  intro n hn hf v w hv hw
  have h1 := (h v n hn hf).mp hv
  have h2 := (h w n hn hf).mp hw
  rw [h1] at h2
  exact Option.some.inj h2

/-- decidable form of `OwnerNames` (worker indices beyond the worker list denote the default worker `"?"`) -/
def ownerNamesB (g : Graph) : Bool :=
  (List.range g.nodes.length).all (fun n =>
    (g.node n).flat ||
      (!strIn "?" (g.node n).name &&
       (match (g.node n).owner with | some w => decide (w < g.workers.length) | none => true) &&
       (List.range g.workers.length).all (fun w => g.idIn w n == ((g.node n).owner == some w))))

theorem ownerNamesB_sound {g : Graph} (h : ownerNamesB g = true) : OwnerNames g := by
  intro w n hn hf
  unfold ownerNamesB at h
  rw [List.all_eq_true] at h
  have := h n (List.mem_range.mpr hn)
  simp only [hf, Bool.false_or, Bool.and_eq_true, Bool.not_eq_true', List.all_eq_true, List.mem_range, beq_iff_eq] at this
  obtain ⟨⟨h1, h2⟩, h3⟩ := this
  by_cases hw : w < g.workers.length
  · have h4 := h3 w hw
    constructor
    · intro hi; rw [hi] at h4; simpa using h4.symm
    · intro ho; rw [h4, ho]; simp
  · have hwk : g.worker w = { id := "?", swarm := "?" } := by
      unfold Graph.worker
      rw [List.getD_eq_getElem?_getD, List.getElem?_eq_none (by omega)]; rfl
    constructor
    · intro hi
      unfold Graph.idIn at hi
      rw [hwk, h1] at hi
      cases hi
    · intro ho
      rw [ho] at h2
      simp only [decide_eq_true_eq] at h2
      exact absurd h2 hw

/-- the copies of one class are all flat or all parsed -/
def FlatClass (g : Graph) : Prop :=
  ∀ n, n < g.nodes.length → ∀ m, m < g.nodes.length → (g.node n).cls = (g.node m).cls → (g.node n).flat = (g.node m).flat

instance (g : Graph) : Decidable (FlatClass g) := by unfold FlatClass; infer_instance

/-! ## consequences of the invariant -/

/-- a registered drop of a parsed class by `w`: `w`'s own copy of the class carries `w`'s `finished` mark -/
theorem Wit.owned {g : Graph} {s : State} {w p : Nat} (hO : OwnerNames g) (hF : FlatClass g) (hp : p < g.nodes.length)
    (hf : (g.node p).flat = false) (h : Wit g s w (g.node p).cls) :
    ∃ p', p' < g.nodes.length ∧ (g.node p').cls = (g.node p).cls ∧ (g.node p').owner = some w ∧ (s.nd p').finished = some w := by
  obtain ⟨p', h1, h2, h3, h4⟩ := h
  have hf' : (g.node p').flat = false := by rw [hF p' h1 p hp h2]; exact hf
  exact ⟨p', h1, h2, (hO w p' h1 hf').mp (relevant_nonflat h3 hf'), h4 hf'⟩

/-- the `finished` mark of a worker on its own parsed copy is never overwritten -/
theorem Trv.stable {g : Graph} {H0 : List Nat} {s : State} (hwf : GraphWF g) (hroot : (g.node g.root).flat = true)
    (hu : UniqueId g) (t : Trv g H0 s) (v : Nat) (out : Outcome) (fuel : Nat) (p w : Nat) (hp : p < g.nodes.length)
    (hf : (g.node p).flat = false) (h : (s.nd p).finished = some w) : ((resume g s v out fuel).1.nd p).finished = some w := by
  rcases (resume_ok g H0 hwf hroot s v out fuel t).1.fin p with h' | ⟨_, h1, h2⟩
  · rw [h', h]
  · rw [h2, hu p hp hf v w (relevant_nonflat h1 hf) (t.finOwner p w hp hf h)]

theorem cleanup_ready_iff (g : Graph) (s : State) (n w : Nat) :
    isCleanupReady g s n w = true ↔
      ∀ c ∈ (g.node n).cleanup, relevant g w c.1 = true →
        w ∈ regWorkers (s.cr (g.node n).cls).droppedCleanup (some (g.node c.1).cls) := by
  unfold isCleanupReady
  rw [List.all_eq_true]
  constructor
  · intro h c hc hrel
    have := h c hc
    obtain ⟨c1, vms⟩ := c
    simp only at this hrel ⊢
    simpa [hrel] using this
  · intro h c hc
    obtain ⟨c1, vms⟩ := c
    simp only
    cases hrel : relevant g w c1
    · simp
    · have := h (c1, vms) hc hrel
      simpa using this

theorem setup_ready_iff' (g : Graph) (s : State) (n w : Nat) :
    isSetupReady g s n w = true ↔
      ∀ p ∈ (g.node n).setup, relevant g w p.1 = true →
        w ∈ regWorkers (s.cr (g.node n).cls).droppedSetup (some (g.node p.1).cls) := by
  unfold isSetupReady
  rw [List.all_eq_true]
  constructor
  · intro h c hc hrel
    have := h c hc
    obtain ⟨c1, vms⟩ := c
    simp only at this hrel ⊢
    simpa [hrel] using this
  · intro h c hc
    obtain ⟨c1, vms⟩ := c
    simp only
    cases hrel : relevant g w c1
    · simp
    · have := h (c1, vms) hc hrel
      simpa using this

/-- the only `unset` request `sync_states` can emit: the states queued for removal, addressed to the pool of the worker the
copy was parsed for (`netOf`; the acting worker's own pool when the copy is its own) -/
theorem syncStates_unset_event (g : Graph) (s : State) (n v : Nat) (rv : Option (List String)) (wid : String)
    (reqs : List (String × String)) (sc : List String) (ok : Bool)
    (h : Event.door wid "unset" reqs sc ok ∈ (syncStates g s n v rv).2) :
    wid = (g.worker (g.netOf n v)).id ∧ (syncAcc (g.node n) rv).1 = true ∧ (syncAcc (g.node n) rv).2.1 = "unset" ∧
      reqs = (syncAcc (g.node n) rv).2.2.1 := by
  unfold syncStates at h
  dsimp only at h
  by_cases hc : (syncAcc (g.node n) rv).1 = true
  · simp only [hc, Bool.not_true, Bool.false_eq_true, if_false] at h
    by_cases ha : (syncAcc (g.node n) rv).2.1 = "unset"
    · simp only [ha, beq_self_eq_true, if_true, List.mem_singleton, Event.door.injEq] at h
      exact ⟨h.1, hc, ha, h.2.2.1⟩
    · have hne : ((syncAcc (g.node n) rv).2.1 == "unset") = false := by simpa using ha
      simp only [hne, Bool.false_eq_true, if_false, List.mem_singleton, Event.door.injEq] at h
      simp at h
  · have : (syncAcc (g.node n) rv).1 = false := by simpa using hc
    simp [this] at h

theorem SameNodes.unsetMode {gv g : Graph} (h : SameNodes gv g) (n : Nat) : (gv.node n).unsetMode = (g.node n).unsetMode := by
  have := congrArg Node.unsetMode (h.node n); exact this
theorem SameNodes.poolFilter {gv g : Graph} (h : SameNodes gv g) (n : Nat) : (gv.node n).poolFilter = (g.node n).poolFilter := by
  have := congrArg Node.poolFilter (h.node n); exact this
theorem SameNodes.owner {gv g : Graph} (h : SameNodes gv g) (n : Nat) : (gv.node n).owner = (g.node n).owner := by
  have := congrArg Node.owner (h.node n); exact this

theorem unsetModeOf_sameNodes {gv g : Graph} (h : SameNodes gv g) (n : Nat) (vm : String) :
    unsetModeOf (gv.node n) vm = unsetModeOf (g.node n) vm := by
  unfold unsetModeOf; rw [h.unsetMode]

theorem isReversible_sameNodes {gv g : Graph} (h : SameNodes gv g) (n : Nat) :
    isReversible (gv.node n) = isReversible (g.node n) := by
  unfold isReversible
  rw [h.objs]
  congr 1
  funext vm
  rw [unsetModeOf_sameNodes h]

/-- the edges of the visible graph are edges of the full graph -/
theorem visH_setup_sub (g : Graph) (hid : List Nat) (n : Nat) (p : Nat × List String)
    (h : p ∈ ((visH g hid).node n).setup) : p ∈ (g.node n).setup := by
  obtain ⟨su, cl, hn, hsu, _⟩ := vis_node g { nodes := [], regs := [], workers := [], store := [], hidden := hid } n
  unfold visH at h
  rw [hn] at h
  exact hsu p h

theorem visH_cleanup_sub (g : Graph) (hid : List Nat) (n : Nat) (p : Nat × List String)
    (h : p ∈ ((visH g hid).node n).cleanup) : p ∈ (g.node n).cleanup := by
  obtain ⟨su, cl, hn, _, hcl⟩ := vis_node g { nodes := [], regs := [], workers := [], store := [], hidden := hid } n
  unfold visH at h
  rw [hn] at h
  exact hcl p h

/-! ### what the clean decision reads besides the edges is the same on the visible graph -/

theorem SameNodes.shape {gv g : Graph} (h : SameNodes gv g) (n : Nat) : (gv.node n).shape = (g.node n).shape := by
  have := congrArg Node.shape (h.node n); exact this

theorem copies_sameNodes {gv g : Graph} (h : SameNodes gv g) (n : Nat) : gv.copies n = g.copies n := by
  unfold Graph.copies Graph.classNodes
  simp only [h.flat, h.cls, h.len]

theorem involved_sameNodes {gv g : Graph} (h : SameNodes gv g) (s : State) (n : Nat) : involved gv s n = involved g s n := by
  unfold involved
  simp only [h.cls, h.workers]

theorem isFinished_sameNodes {gv g : Graph} (h : SameNodes gv g) (s : State) (n w : Nat) (thr : Int) :
    isFinished gv s n w thr = isFinished g s n w thr := by
  unfold isFinished scopeCount sharedFinished
  simp only [h.flat, h.shape, copies_sameNodes h, involved_sameNodes h, h.worker]

/-! ## a small instance for the non-vacuity examples of `Props/C01.lean`, `Props/C05.lean`

Two workers; per worker a stateless test `a` (nodes 0, 1) and a dependant `b` (nodes 2, 3) that sets the removable state
`vm1/b` (`unset_mode=fi`); node 4 is the shared root. -/

def exGraph : Graph :=
  { workers := [{ id := "net1", swarm := "localhost" }, { id := "net2", swarm := "localhost" }],
    nodes := [
      { cls := 0, owner := some 0, name := "all.a.vms.vm1.nets.localhost.net1", pfx := "1a1", objs := ["vm1"],
        setup := [(4, ["vm1"])], cleanup := [(2, ["vm1"])] },
      { cls := 0, owner := some 1, name := "all.a.vms.vm1.nets.localhost.net2", pfx := "1a1", objs := ["vm1"],
        setup := [(4, ["vm1"])], cleanup := [(3, ["vm1"])] },
      { cls := 1, owner := some 0, name := "all.b.vms.vm1.nets.localhost.net1", pfx := "2a1", objs := ["vm1"],
        sets := [("vm1", "b")], unsetMode := [("vm1", "fi")], setup := [(0, ["vm1"])] },
      { cls := 1, owner := some 1, name := "all.b.vms.vm1.nets.localhost.net2", pfx := "2a1", objs := ["vm1"],
        sets := [("vm1", "b")], unsetMode := [("vm1", "fi")], setup := [(1, ["vm1"])] },
      { cls := 2, owner := none, name := "all.internal.stateless.noop", pfx := "1", flat := true, sharedRoot := true,
        cleanup := [(0, ["vm1"]), (1, ["vm1"])] }],
    root := 4 }

def exNoOut : Outcome := { status := none }
def exPass : Outcome := { status := some "PASS", dur := 1 }

/-- net1 went to its copy of `a` and started it -/
def exS1 : State := runSched exGraph 100 (initState exGraph 3 [] []) [(0, exNoOut)]
/-- `a` passed; net1 went on to `b`, was sent back to traverse (not rerun) and drop `a`, and started `b` -/
def exS2 : State := runSched exGraph 100 (initState exGraph 3 [] []) [(0, exNoOut), (0, exPass)]

/-- the same suite expanded lazily: initially only the shared root (4) and the flat test `b` (5) exist, the four parsed
nodes are hidden; a worker reveals its own copy of `b` and the ancestors of that copy when it reaches the flat node -/
def exLazy : Graph :=
  { workers := exGraph.workers,
    nodes := [
      { cls := 0, owner := some 0, name := "all.a.vms.vm1.nets.localhost.net1", pfx := "1a1", objs := ["vm1"],
        setup := [(4, ["vm1"])], cleanup := [(2, ["vm1"])] },
      { cls := 0, owner := some 1, name := "all.a.vms.vm1.nets.localhost.net2", pfx := "1a1", objs := ["vm1"],
        setup := [(4, ["vm1"])], cleanup := [(3, ["vm1"])] },
      { cls := 1, owner := some 0, name := "all.b.vms.vm1.nets.localhost.net1", pfx := "2a1", objs := ["vm1"],
        sets := [("vm1", "b")], unsetMode := [("vm1", "fi")], setup := [(0, ["vm1"]), (5, [])] },
      { cls := 1, owner := some 1, name := "all.b.vms.vm1.nets.localhost.net2", pfx := "2a1", objs := ["vm1"],
        sets := [("vm1", "b")], unsetMode := [("vm1", "fi")], setup := [(1, ["vm1"]), (5, [])] },
      { cls := 2, owner := none, name := "all.internal.stateless.noop", pfx := "1", flat := true, sharedRoot := true,
        cleanup := [(5, []), (0, ["vm1"]), (1, ["vm1"])] },
      { cls := 3, owner := none, name := "all.b.vms.vm1", pfx := "2a", flat := true, setless := "all.b.vms.vm1",
        setup := [(4, [])], cleanup := [(2, []), (3, [])] }],
    root := 4 }

def exL1 : State := runSched exLazy 100 (initState exLazy 4 [] [0, 1, 2, 3]) [(0, exNoOut)]
def exL2 : State := runSched exLazy 100 (initState exLazy 4 [] [0, 1, 2, 3]) [(0, exNoOut), (0, exPass)]

/-- an instance violating `OwnerNames`: the id of worker 0 (`net1`) is a substring of the name of worker 1's copy -/
def exBad : Graph :=
  { workers := [{ id := "net1", swarm := "localhost" }, { id := "net11", swarm := "localhost" }],
    nodes := [
      { cls := 0, owner := some 1, name := "all.a.vms.vm1.nets.localhost.net11", pfx := "1a1", objs := ["vm1"],
        setup := [(1, ["vm1"])] },
      { cls := 1, owner := none, name := "all.internal.stateless.noop", pfx := "1", flat := true, sharedRoot := true,
        cleanup := [(0, ["vm1"])] }],
    root := 1 }

end I2N.Trav
