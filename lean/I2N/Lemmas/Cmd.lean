import I2N.Model.Cmd
/-! Helper lemmas for the command line model (C11). Core tactics only. -/
deriving instance DecidableEq for Except

namespace I2N.Cmd

/-! ### the loop -/

theorem loop_append (av : Avail) (st : St) (xs ys : List Str) :
    loop av st (xs ++ ys) =
      match loop av st xs with
      | .error e => .error e
      | .ok st' => loop av st' ys := by
  induction xs generalizing st with
  | nil => simp [loop]
  | cons a as ih =>
    simp only [List.cons_append, loop]
    cases step av st a with
    | error e => simp
    | ok st' => simp [ih]

/-- an argument that fails in every state -/
def Rejects (av : Avail) (a : Str) : Prop := ∀ st, ∃ e, step av st a = .error e

theorem loop_rejects {av : Avail} {a : Str} (h : Rejects av a) :
    ∀ (args : List Str) (st : St), a ∈ args → ∃ e, loop av st args = .error e := by
  intro args
  induction args with
  | nil => intro st hm; cases hm
  | cons b bs ih =>
    intro st hm
    simp only [loop]
    cases hs : step av st b with
    | error e => exact ⟨e, rfl⟩
    | ok st' =>
      simp only
      rcases List.mem_cons.mp hm with rfl | hm'
      · obtain ⟨e, he⟩ := h st
        rw [hs] at he; cases he
      · exact ih st' hm'

theorem paramsFromCmd_error_of_loop {av : Avail} {args : List Str}
    (h : ∃ e, loop av (St.init av) args = .error e) : ∃ e, paramsFromCmd av args = .error e := by
  obtain ⟨e, he⟩ := h
  exact ⟨e, by simp [paramsFromCmd, he]⟩


/-! ### classification of one argument: `step` = `stepC ∘ classify` -/

inductive Cls where
  | bad
  | test (k v : Str)
  | netsR (k v : Str)
  | vmR (vm k v : Str)
  | badObj (k v : Str)
  | vms (v : Str)
  | nets (v : Str)
  | other (k v : Str)
deriving DecidableEq, Repr

def isTestKey (k : Str) : Bool := k == kOnly || k == kNo
def isObjKey (k : Str) : Bool := kOnlyU.isPrefixOf k || kNoU.isPrefixOf k

def classify (av : Avail) (a : Str) : Cls :=
  match splitArg a with
  | none => .bad
  | some (k, v) =>
    if isTestKey k then .test k v
    else if isObjKey k then
      if netsKey k then .netsR k v
      else match av.vms.find? (vmKey k) with
        | some vm => .vmR vm k v
        | none => .badObj k v
    else if k == kVms then .vms v
    else if k == kNets then .nets v
    else .other k v

def netsOf (k v : Str) : Option (Str × Str) := if v.isEmpty then none else some (removeAll kUNets k, v)

def stepC (av : Avail) (st : St) : Cls → Except Err St
  | .bad => .error .valueError
  | .test k v =>
    .ok { st with
          useDef := st.useDef && !(splitVariants v).any (av.restrictions.contains ·)
          tests := st.tests ++ [(k, v)] }
  | .netsR k v =>
    if (netsOf k v).isSome && st.explicitNets then .error .valueError
    else match netsBy av (netsOf k v) with
      | .error e => .error e
      | .ok names => .ok { st with netsStr := netsOf k v, pd := dictSet st.pd kNets (joinSp names) }
  | .vmR vm k v =>
    .ok { st with
          vmNoDef := vm :: st.vmNoDef
          vmLines := if v.isEmpty then st.vmLines else st.vmLines ++ [(vm, (removeAll ('_' :: vm) k, v))] }
  | .badObj _ _ => .error .valueError
  | .vms v =>
    if (splitComma v).all (av.vms.contains ·) then .ok { st with selVms := splitComma v } else .error .valueError
  | .nets v =>
    if st.netsStr.isSome then .error .valueError
    else .ok { st with pd := dictSet st.pd kNets (commaToSpace v), explicitNets := true }
  | .other k v => .ok { st with pd := dictSet st.pd k (commaToSpace v) }

theorem step_eq (av : Avail) (st : St) (a : Str) : step av st a = stepC av st (classify av a) := by
  unfold step classify
  cases splitArg a with
  | none => rfl
  | some p =>
    obtain ⟨k, v⟩ := p
    simp only [isTestKey, isObjKey]
    by_cases h1 : (k == kOnly || k == kNo) = true
    · simp [h1, stepC]
    · by_cases h2 : (kOnlyU.isPrefixOf k || kNoU.isPrefixOf k) = true
      · by_cases h3 : netsKey k = true
        · simp [h1, h2, h3, stepC, netsOf]
          generalize netsBy av (if v = [] then none else some (removeAll kUNets k, v)) = r
          cases r <;> rfl
        · cases hf : av.vms.find? (vmKey k) with
          | none => simp [h1, h2, h3, stepC]
          | some vm => simp [h1, h2, h3, stepC]
      · by_cases h4 : (k == kVms) = true
        · simp [h1, h2, h4, stepC]
        · by_cases h5 : (k == kNets) = true
          · have : k = kNets := by simpa using h5
            subst this
            simp [h1, h2, h4, stepC]
          · simp [h1, h2, h4, h5, stepC]


theorem loop_ok_cons {av : Avail} {st st' : St} {a : Str} {as : List Str} :
    loop av st (a :: as) = .ok st' ↔ ∃ st1, step av st a = .ok st1 ∧ loop av st1 as = .ok st' := by
  simp only [loop]
  cases step av st a with
  | error e => simp
  | ok st1 => simp

/-! ### reading the classification (what the constructors of `Cls` mean in terms of the argument) -/

theorem classify_bad_iff {av : Avail} {a : Str} : classify av a = .bad ↔ splitArg a = none := by
  unfold classify
  cases splitArg a with
  | none => simp
  | some p =>
    obtain ⟨k, v⟩ := p
    simp only
    split
    · simp
    · split
      · split
        · simp
        · split <;> simp
      · split
        · simp
        · split <;> simp

theorem classify_test_iff {av : Avail} {a k v : Str} :
    classify av a = .test k v ↔ splitArg a = some (k, v) ∧ (k = kOnly ∨ k = kNo) := by
  unfold classify
  cases splitArg a with
  | none => simp
  | some p =>
    obtain ⟨k', v'⟩ := p
    simp only
    constructor
    · intro hh
      split at hh
      · rename_i h
        simp only [isTestKey, Bool.or_eq_true, beq_iff_eq] at h
        cases hh; exact ⟨rfl, h⟩
      · exfalso
        split at hh
        · split at hh
          · cases hh
          · split at hh <;> cases hh
        · split at hh
          · cases hh
          · split at hh <;> cases hh
    · rintro ⟨hh, hk⟩
      cases hh
      have : isTestKey k = true := by
        simp only [isTestKey, Bool.or_eq_true, beq_iff_eq]; exact hk
      simp [this]

theorem classify_vms_iff {av : Avail} {a v : Str} :
    classify av a = .vms v ↔ splitArg a = some (kVms, v) := by
  unfold classify
  cases splitArg a with
  | none => simp
  | some p =>
    obtain ⟨k', v'⟩ := p
    simp only
    by_cases hk : k' = kVms
    · subst hk
      have h1 : isTestKey kVms = false := by decide
      have h2 : isObjKey kVms = false := by decide
      simp [h1, h2]
    · constructor
      · intro hh
        exfalso
        split at hh
        · cases hh
        · split at hh
          · split at hh
            · cases hh
            · split at hh <;> cases hh
          · split at hh
            · rename_i h; exact hk (by simpa using h)
            · split at hh <;> cases hh
      · intro hh; cases hh; exact absurd rfl hk

theorem classify_nets_iff {av : Avail} {a v : Str} :
    classify av a = .nets v ↔ splitArg a = some (kNets, v) := by
  unfold classify
  cases splitArg a with
  | none => simp
  | some p =>
    obtain ⟨k', v'⟩ := p
    simp only
    by_cases hk : k' = kNets
    · subst hk
      have h1 : isTestKey kNets = false := by decide
      have h2 : isObjKey kNets = false := by decide
      have h3 : (kNets == kVms) = false := by decide
      simp [h1, h2, h3]
    · constructor
      · intro hh
        exfalso
        split at hh
        · cases hh
        · split at hh
          · split at hh
            · cases hh
            · split at hh <;> cases hh
          · split at hh
            · cases hh
            · split at hh
              · rename_i h; exact hk (by simpa using h)
              · cases hh
      · intro hh; cases hh; exact absurd rfl hk

theorem netsKey_obj (k : Str) (hk : netsKey k = true) : isObjKey k = true ∧ isTestKey k = false := by
  simp only [netsKey, Bool.or_eq_true, beq_iff_eq] at hk
  rcases hk with rfl | rfl
  · exact ⟨by decide, by decide⟩
  · exact ⟨by decide, by decide⟩

/-- a nets restriction: the key is `only_nets` / `no_nets` -/
theorem classify_netsR_iff {av : Avail} {a k v : Str} :
    classify av a = .netsR k v ↔ splitArg a = some (k, v) ∧ netsKey k = true := by
  have hobj := @netsKey_obj
  unfold classify
  cases splitArg a with
  | none => simp
  | some p =>
    obtain ⟨k', v'⟩ := p
    simp only
    constructor
    · intro hh
      split at hh
      · cases hh
      · split at hh
        · split at hh
          · rename_i h; cases hh; exact ⟨rfl, h⟩
          · split at hh <;> cases hh
        · split at hh
          · cases hh
          · split at hh <;> cases hh
    · rintro ⟨hh, hk⟩
      cases hh
      obtain ⟨h1, h2⟩ := hobj k hk
      simp [h1, h2, hk]

/-- a vm restriction: the key is `only_<vm>` / `no_<vm>` for an available vm -/
theorem classify_vmR_iff {av : Avail} {a vm k v : Str} :
    classify av a = .vmR vm k v ↔
      splitArg a = some (k, v) ∧ isTestKey k = false ∧ isObjKey k = true ∧ netsKey k = false ∧
        av.vms.find? (vmKey k) = some vm := by
  unfold classify
  cases splitArg a with
  | none => simp
  | some p =>
    obtain ⟨k', v'⟩ := p
    simp only
    constructor
    · intro hh
      split at hh
      · cases hh
      · rename_i h1
        split at hh
        · rename_i h2
          split at hh
          · cases hh
          · rename_i h3
            split at hh
            · rename_i vm' hf
              cases hh
              exact ⟨rfl, by simpa using h1, h2, by simpa using h3, hf⟩
            · cases hh
        · split at hh
          · cases hh
          · split at hh <;> cases hh
    · rintro ⟨hh, h1, h2, h3, hf⟩
      cases hh
      simp [h1, h2, h3, hf]

theorem classify_badObj_iff {av : Avail} {a k v : Str} :
    classify av a = .badObj k v ↔
      splitArg a = some (k, v) ∧ isTestKey k = false ∧ isObjKey k = true ∧ netsKey k = false ∧
        av.vms.find? (vmKey k) = none := by
  unfold classify
  cases splitArg a with
  | none => simp
  | some p =>
    obtain ⟨k', v'⟩ := p
    simp only
    constructor
    · intro hh
      split at hh
      · cases hh
      · rename_i h1
        split at hh
        · rename_i h2
          split at hh
          · cases hh
          · rename_i h3
            split at hh
            · cases hh
            · rename_i hf
              cases hh
              exact ⟨rfl, by simpa using h1, h2, by simpa using h3, hf⟩
        · split at hh
          · cases hh
          · split at hh <;> cases hh
    · rintro ⟨hh, h1, h2, h3, hf⟩
      cases hh
      simp [h1, h2, h3, hf]

/-- any other key: a plain parameter override -/
theorem classify_other_iff {av : Avail} {a k v : Str} :
    classify av a = .other k v ↔
      splitArg a = some (k, v) ∧ isTestKey k = false ∧ isObjKey k = false ∧ k ≠ kVms ∧ k ≠ kNets := by
  unfold classify
  cases splitArg a with
  | none => simp
  | some p =>
    obtain ⟨k', v'⟩ := p
    simp only
    constructor
    · intro hh
      split at hh
      · cases hh
      · rename_i h1
        split at hh
        · split at hh
          · cases hh
          · split at hh <;> cases hh
        · rename_i h2
          split at hh
          · cases hh
          · rename_i h3
            split at hh
            · cases hh
            · rename_i h4
              cases hh
              exact ⟨rfl, by simpa using h1, by simpa using h2, by simpa using h3, by simpa using h4⟩
    · rintro ⟨hh, h1, h2, h3, h4⟩
      cases hh
      simp [h1, h2, h3, h4]


/-! ### specification vocabulary: what an argument list *says* (independent of the loop state) -/

/-- the typed `only=`/`no=` restrictions, in order -/
def typedTests (av : Avail) (args : List Str) : List (Str × Str) :=
  args.filterMap (fun a => match classify av a with | .test k v => some (k, v) | _ => none)

/-- an `only=`/`no=` argument whose value names a primary restriction (`main_restrictions`) -/
def primaryArg (av : Avail) (a : Str) : Bool :=
  match classify av a with
  | .test _ v => (splitVariants v).any (av.restrictions.contains ·)
  | _ => false

/-- the typed non-empty restrictions of one vm, in order, as restriction lines -/
def typedVm (av : Avail) (vm : Str) (args : List Str) : List (Str × Str) :=
  args.filterMap (fun a => match classify av a with
    | .vmR vm' k v => if vm' == vm && !v.isEmpty then some (removeAll ('_' :: vm') k, v) else none
    | _ => none)

/-- some `only_<vm>=`/`no_<vm>=` (possibly empty) was typed for this vm -/
def vmTyped (av : Avail) (vm : Str) (args : List Str) : Bool :=
  args.any (fun a => match classify av a with | .vmR vm' _ _ => vm' == vm | _ => false)

/-- the last `vms=` selection, the available vms if there is none -/
def lastVms (av : Avail) (dflt : List Str) (args : List Str) : List Str :=
  args.foldl (fun acc a => match classify av a with | .vms v => splitComma v | _ => acc) dflt

/-- the argument writes parameter `k` of the dictionary -/
def writes (av : Avail) (k : Str) (a : Str) : Bool :=
  match classify av a with
  | .other k' _ => k' == k
  | .nets _ => kNets == k
  | .netsR _ _ => kNets == k
  | _ => false

theorem stepC_netsR_ok {av : Avail} {st st' : St} {k v : Str} (h : stepC av st (.netsR k v) = .ok st') :
    ((netsOf k v).isSome && st.explicitNets) = false ∧ ∃ names, netsBy av (netsOf k v) = .ok names ∧
      st' = { st with netsStr := netsOf k v, pd := dictSet st.pd kNets (joinSp names) } := by
  simp only [stepC] at h
  by_cases hc : ((netsOf k v).isSome && st.explicitNets) = true
  · rw [if_pos hc] at h; cases h
  · rw [if_neg hc] at h
    cases hn : netsBy av (netsOf k v) with
    | error e => rw [hn] at h; cases h
    | ok names =>
      rw [hn] at h
      simp only [Except.ok.injEq] at h
      exact ⟨by simpa using hc, names, rfl, h.symm⟩

/-! ### loop invariants -/

theorem stepC_ok_of_step {av : Avail} {st st' : St} {a : Str} (h : step av st a = .ok st') :
    stepC av st (classify av a) = .ok st' := by rw [← step_eq]; exact h

theorem loop_tests {av : Avail} : ∀ (args : List Str) (st st' : St), loop av st args = .ok st' →
    st'.tests = st.tests ++ typedTests av args ∧
    st'.useDef = (st.useDef && !args.any (primaryArg av)) := by
  intro args
  induction args with
  | nil => intro st st' h; simp [loop] at h; subst h; simp [typedTests]
  | cons a as ih =>
    intro st st' h
    obtain ⟨st1, hs, hl⟩ := loop_ok_cons.mp h
    obtain ⟨i1, i2⟩ := ih st1 st' hl
    have hs := stepC_ok_of_step hs
    rw [i1, i2]
    cases hc : classify av a with
    | bad => simp [hc, stepC] at hs
    | test k v =>
      simp only [hc, stepC, Except.ok.injEq] at hs; subst hs
      simp [typedTests, primaryArg, hc, Bool.and_assoc]
    | netsR k v =>
      rw [hc] at hs
      obtain ⟨_, names, _, rfl⟩ := stepC_netsR_ok hs
      simp [typedTests, primaryArg, hc]
    | vmR vm k v =>
      simp only [hc, stepC, Except.ok.injEq] at hs; subst hs
      simp [typedTests, primaryArg, hc]
    | badObj k v => simp [hc, stepC] at hs
    | vms v =>
      simp only [hc, stepC] at hs
      split at hs
      · cases hs; simp [typedTests, primaryArg, hc]
      · cases hs
    | nets v =>
      simp only [hc, stepC] at hs
      split at hs
      · cases hs
      · cases hs; simp [typedTests, primaryArg, hc]
    | other k v =>
      simp only [hc, stepC, Except.ok.injEq] at hs; subst hs
      simp [typedTests, primaryArg, hc]


/-- a projection of the state that every step updates by a function of the argument's class alone
is, after the loop, the left fold of these updates -/
theorem loop_fold {av : Avail} {α : Type} (f : St → α) (upd : Cls → α → α)
    (hstep : ∀ st st' c, stepC av st c = .ok st' → f st' = upd c (f st)) :
    ∀ (args : List Str) (st st' : St), loop av st args = .ok st' →
      f st' = args.foldl (fun acc a => upd (classify av a) acc) (f st) := by
  intro args
  induction args with
  | nil => intro st st' h; simp [loop] at h; subst h; rfl
  | cons a as ih =>
    intro st st' h
    obtain ⟨st1, hs, hl⟩ := loop_ok_cons.mp h
    rw [ih st1 st' hl, hstep st st1 _ (stepC_ok_of_step hs)]
    rfl

/-! #### dictionaries -/

theorem dictGet_dictSet_same (d : List (Str × Str)) (k v : Str) : dictGet (dictSet d k v) k = some v := by
  induction d with
  | nil => simp [dictSet, dictGet]
  | cons p rest ih =>
    obtain ⟨k', v'⟩ := p
    by_cases h : (k' == k) = true
    · simp [dictSet, dictGet, h]
    · simp [dictSet, dictGet, h, ih]

theorem dictGet_dictSet_other (d : List (Str × Str)) (k k' v : Str) (hne : k' ≠ k) :
    dictGet (dictSet d k' v) k = dictGet d k := by
  induction d with
  | nil =>
    have : (k' == k) = false := by simpa using hne
    simp [dictSet, dictGet, this]
  | cons p rest ih =>
    obtain ⟨k2, v2⟩ := p
    by_cases h : (k2 == k') = true
    · have e : k2 = k' := by simpa using h
      subst e
      have : (k2 == k) = false := by simpa using hne
      simp [dictSet, dictGet, this]
    · by_cases h2 : (k2 == k) = true
      · simp [dictSet, dictGet, h, h2]
      · simp [dictSet, dictGet, h, h2, ih]

/-- how one argument class updates the dictionary entry `k` -/
def pdUpd (av : Avail) (k : Str) (c : Cls) (acc : Option Str) : Option Str :=
  match c with
  | .other k' v => if k' == k then some (commaToSpace v) else acc
  | .nets v => if kNets == k then some (commaToSpace v) else acc
  | .netsR k' v =>
    if kNets == k then
      match netsBy av (netsOf k' v) with
      | .ok names => some (joinSp names)
      | .error _ => acc
    else acc
  | _ => acc

theorem stepC_pd {av : Avail} (k : Str) : ∀ st st' c, stepC av st c = .ok st' →
    dictGet st'.pd k = pdUpd av k c (dictGet st.pd k) := by
  intro st st' c hs
  cases c with
  | bad => simp [stepC] at hs
  | test k' v => simp only [stepC, Except.ok.injEq] at hs; subst hs; rfl
  | netsR k' v =>
    obtain ⟨_, names, hn, rfl⟩ := stepC_netsR_ok hs
    by_cases hk : kNets = k
    · subst hk; simp [pdUpd, hn, dictGet_dictSet_same]
    · have : (kNets == k) = false := by simpa using hk
      simp [pdUpd, this, dictGet_dictSet_other _ _ _ _ hk]
  | vmR vm k' v => simp only [stepC, Except.ok.injEq] at hs; subst hs; rfl
  | badObj k' v => simp [stepC] at hs
  | vms v =>
    simp only [stepC] at hs
    split at hs
    · cases hs; rfl
    · cases hs
  | nets v =>
    simp only [stepC] at hs
    split at hs
    · cases hs
    · cases hs
      by_cases hk : kNets = k
      · subst hk; simp [pdUpd, dictGet_dictSet_same]
      · have : (kNets == k) = false := by simpa using hk
        simp [pdUpd, this, dictGet_dictSet_other _ _ _ _ hk]
  | other k' v =>
    simp only [stepC, Except.ok.injEq] at hs; subst hs
    by_cases hk : k' = k
    · subst hk; simp [pdUpd, dictGet_dictSet_same]
    · have : (k' == k) = false := by simpa using hk
      simp [pdUpd, this, dictGet_dictSet_other _ _ _ _ hk]

theorem pdUpd_not_writes {av : Avail} {k a : Str} (h : writes av k a = false) (acc : Option Str) :
    pdUpd av k (classify av a) acc = acc := by
  unfold writes at h
  cases hc : classify av a with
  | other k' v =>
    simp only [hc] at h
    simp [pdUpd, h]
  | nets v =>
    simp only [hc] at h
    simp [pdUpd, h]
  | netsR k' v =>
    simp only [hc] at h
    simp [pdUpd, h]
  | bad => rfl
  | test _ _ => rfl
  | vmR _ _ _ => rfl
  | badObj _ _ => rfl
  | vms _ => rfl

theorem foldl_pdUpd_not_writes {av : Avail} {k : Str} : ∀ (post : List Str) (acc : Option Str),
    (∀ b ∈ post, writes av k b = false) →
    post.foldl (fun acc a => pdUpd av k (classify av a) acc) acc = acc := by
  intro post
  induction post with
  | nil => intro acc _; rfl
  | cons b bs ih =>
    intro acc h
    simp only [List.foldl_cons]
    rw [pdUpd_not_writes (h b (by simp))]
    exact ih acc (fun x hx => h x (by simp [hx]))

/-- the dictionary entry after the loop -/
theorem loop_pd {av : Avail} (k : Str) (args : List Str) (st st' : St) (h : loop av st args = .ok st') :
    dictGet st'.pd k = args.foldl (fun acc a => pdUpd av k (classify av a) acc) (dictGet st.pd k) :=
  loop_fold (fun st => dictGet st.pd k) (pdUpd av k) (stepC_pd k) args st st' h

/-! #### selected vms -/

theorem stepC_selVms {av : Avail} : ∀ st st' c, stepC av st c = .ok st' →
    st'.selVms = (match c with | .vms v => splitComma v | _ => st.selVms) := by
  intro st st' c hs
  cases c with
  | bad => simp [stepC] at hs
  | test k' v => simp only [stepC, Except.ok.injEq] at hs; subst hs; rfl
  | netsR k' v =>
    obtain ⟨_, names, _, rfl⟩ := stepC_netsR_ok hs
    rfl
  | vmR vm k' v => simp only [stepC, Except.ok.injEq] at hs; subst hs; rfl
  | badObj k' v => simp [stepC] at hs
  | vms v =>
    simp only [stepC] at hs
    split at hs
    · cases hs; rfl
    · cases hs
  | nets v =>
    simp only [stepC] at hs
    split at hs
    · cases hs
    · cases hs; rfl
  | other k' v => simp only [stepC, Except.ok.injEq] at hs; subst hs; rfl

theorem loop_selVms {av : Avail} (args : List Str) (st st' : St) (h : loop av st args = .ok st') :
    st'.selVms = lastVms av st.selVms args := by
  have := loop_fold (av := av) (fun st => st.selVms)
    (fun c acc => match c with | .vms v => splitComma v | _ => acc) stepC_selVms args st st' h
  rw [this]; rfl

/-! #### per vm restriction lines -/

def vmLinesOf (st : St) (vm : Str) : List (Str × Str) := (st.vmLines.filter (·.1 == vm)).map (·.2)

theorem stepC_vmLines {av : Avail} (vm : Str) : ∀ st st' c, stepC av st c = .ok st' →
    vmLinesOf st' vm = (match c with
      | .vmR vm' k v => if vm' == vm && !v.isEmpty then vmLinesOf st vm ++ [(removeAll ('_' :: vm') k, v)]
                        else vmLinesOf st vm
      | _ => vmLinesOf st vm) ∧
    st'.vmNoDef.contains vm = (match c with
      | .vmR vm' _ _ => vm' == vm || st.vmNoDef.contains vm
      | _ => st.vmNoDef.contains vm) := by
  intro st st' c hs
  cases c with
  | bad => simp [stepC] at hs
  | test k' v => simp only [stepC, Except.ok.injEq] at hs; subst hs; exact ⟨rfl, rfl⟩
  | netsR k' v =>
    obtain ⟨_, names, _, rfl⟩ := stepC_netsR_ok hs
    exact ⟨rfl, rfl⟩
  | vmR vm' k' v =>
    simp only [stepC, Except.ok.injEq] at hs; subst hs
    constructor
    · by_cases hv : v.isEmpty = true
      · simp [vmLinesOf, hv]
      · by_cases hvm : (vm' == vm) = true
        · simp [vmLinesOf, hv, hvm, List.filter_append]
        · simp [vmLinesOf, hv, hvm, List.filter_append]
    · by_cases hvm : vm' = vm
      · subst hvm; simp
      · have h1 : (vm' == vm) = false := by simpa using hvm
        have h2 : ¬ vm = vm' := fun e => hvm e.symm
        simp [h1, h2]
  | badObj k' v => simp [stepC] at hs
  | vms v =>
    simp only [stepC] at hs
    split at hs
    · cases hs; exact ⟨rfl, rfl⟩
    · cases hs
  | nets v =>
    simp only [stepC] at hs
    split at hs
    · cases hs
    · cases hs; exact ⟨rfl, rfl⟩
  | other k' v => simp only [stepC, Except.ok.injEq] at hs; subst hs; exact ⟨rfl, rfl⟩

theorem typedVm_cons (av : Avail) (vm a : Str) (as : List Str) :
    typedVm av vm (a :: as) =
      (match classify av a with
        | .vmR vm' k v => if vm' == vm && !v.isEmpty then [(removeAll ('_' :: vm') k, v)] else []
        | _ => []) ++ typedVm av vm as := by
  unfold typedVm
  rw [List.filterMap_cons]
  cases classify av a with
  | vmR vm' k v =>
    by_cases hh : (vm' == vm && !v.isEmpty) = true
    · simp only [hh, if_true]; rfl
    · simp only [hh]; rfl
  | bad => rfl
  | test _ _ => rfl
  | netsR _ _ => rfl
  | badObj _ _ => rfl
  | vms _ => rfl
  | nets _ => rfl
  | other _ _ => rfl

theorem vmTyped_cons (av : Avail) (vm a : Str) (as : List Str) :
    vmTyped av vm (a :: as) =
      ((match classify av a with | .vmR vm' _ _ => vm' == vm | _ => false) || vmTyped av vm as) := by
  unfold vmTyped
  rw [List.any_cons]

theorem loop_vmLines {av : Avail} (vm : Str) : ∀ (args : List Str) (st st' : St), loop av st args = .ok st' →
    vmLinesOf st' vm = vmLinesOf st vm ++ typedVm av vm args ∧
    st'.vmNoDef.contains vm = (st.vmNoDef.contains vm || vmTyped av vm args) := by
  intro args
  induction args with
  | nil => intro st st' h; simp [loop] at h; subst h; simp [typedVm, vmTyped]
  | cons a as ih =>
    intro st st' h
    obtain ⟨st1, hs, hl⟩ := loop_ok_cons.mp h
    obtain ⟨i1, i2⟩ := ih st1 st' hl
    obtain ⟨s1, s2⟩ := stepC_vmLines vm st st1 _ (stepC_ok_of_step hs)
    rw [i1, i2, s1, s2, typedVm_cons, vmTyped_cons]
    cases hc : classify av a with
    | vmR vm' k v =>
      simp only
      by_cases hh : (vm' == vm && !v.isEmpty) = true
      · simp only [hh, if_true, List.append_assoc, true_and]
        rw [← Bool.or_assoc, Bool.or_comm (vm' == vm)]
      · simp only [hh]
        rw [← Bool.or_assoc, Bool.or_comm (vm' == vm)]
        simp
    | bad => simp
    | test _ _ => simp
    | netsR _ _ => simp
    | badObj _ _ => simp
    | vms _ => simp
    | nets _ => simp
    | other _ _ => simp

/-! #### the nets restriction string -/

theorem stepC_netsStr {av : Avail} : ∀ st st' c, stepC av st c = .ok st' →
    st'.netsStr = (match c with | .netsR k v => netsOf k v | _ => st.netsStr) := by
  intro st st' c hs
  cases c with
  | bad => simp [stepC] at hs
  | test k' v => simp only [stepC, Except.ok.injEq] at hs; subst hs; rfl
  | netsR k' v =>
    obtain ⟨_, names, _, rfl⟩ := stepC_netsR_ok hs
    rfl
  | vmR vm k' v => simp only [stepC, Except.ok.injEq] at hs; subst hs; rfl
  | badObj k' v => simp [stepC] at hs
  | vms v =>
    simp only [stepC] at hs
    split at hs
    · cases hs; rfl
    · cases hs
  | nets v =>
    simp only [stepC] at hs
    split at hs
    · cases hs
    · cases hs; rfl
  | other k' v => simp only [stepC, Except.ok.injEq] at hs; subst hs; rfl

/-- arguments that are not nets restrictions leave `nets_str` alone -/
theorem loop_netsStr_keep {av : Avail} : ∀ (mid : List Str) (st st' : St),
    (∀ m ∈ mid, ∀ k v, classify av m ≠ .netsR k v) → loop av st mid = .ok st' → st'.netsStr = st.netsStr := by
  intro mid
  induction mid with
  | nil => intro st st' _ h; simp [loop] at h; subst h; rfl
  | cons a as ih =>
    intro st st' hm h
    obtain ⟨st1, hs, hl⟩ := loop_ok_cons.mp h
    rw [ih st1 st' (fun m hx => hm m (by simp [hx])) hl, stepC_netsStr st st1 _ (stepC_ok_of_step hs)]
    cases hc : classify av a with
    | netsR k v => exact absurd hc (hm a (by simp) k v)
    | bad => rfl
    | test _ _ => rfl
    | vmR _ _ _ => rfl
    | badObj _ _ => rfl
    | vms _ => rfl
    | nets _ => rfl
    | other _ _ => rfl

/-! #### the explicit nets flag and a non-empty nets restriction -/

theorem stepC_explicit {av : Avail} : ∀ st st' c, stepC av st c = .ok st' →
    st'.explicitNets = (match c with | .nets _ => true | _ => st.explicitNets) := by
  intro st st' c hs
  cases c with
  | bad => simp [stepC] at hs
  | test k' v => simp only [stepC, Except.ok.injEq] at hs; subst hs; rfl
  | netsR k' v =>
    obtain ⟨_, names, _, rfl⟩ := stepC_netsR_ok hs
    rfl
  | vmR vm k' v => simp only [stepC, Except.ok.injEq] at hs; subst hs; rfl
  | badObj k' v => simp [stepC] at hs
  | vms v =>
    simp only [stepC] at hs
    split at hs
    · cases hs; rfl
    · cases hs
  | nets v =>
    simp only [stepC] at hs
    split at hs
    · cases hs
    · cases hs; rfl
  | other k' v => simp only [stepC, Except.ok.injEq] at hs; subst hs; rfl

/-- once `nets=` was accepted the flag stays set -/
theorem loop_explicit_mono {av : Avail} : ∀ (args : List Str) (st st' : St),
    st.explicitNets = true → loop av st args = .ok st' → st'.explicitNets = true := by
  intro args
  induction args with
  | nil => intro st st' he h; simp [loop] at h; subst h; exact he
  | cons a as ih =>
    intro st st' he h
    obtain ⟨st1, hs, hl⟩ := loop_ok_cons.mp h
    refine ih st1 st' ?_ hl
    rw [stepC_explicit st st1 _ (stepC_ok_of_step hs)]
    cases classify av a <;> simp [he]

theorem netsOf_isSome {k v : Str} (hv : v ≠ []) : (netsOf k v).isSome = true := by
  have : v.isEmpty = false := by simpa using hv
  simp [netsOf, this]

/-- arguments that do not withdraw the nets restriction (no `only_nets=`/`no_nets=` with an empty value)
keep `nets_str` non-empty -/
theorem loop_netsStr_some {av : Avail} : ∀ (mid : List Str) (st st' : St),
    (∀ m ∈ mid, ∀ k, classify av m ≠ .netsR k []) → st.netsStr.isSome = true →
    loop av st mid = .ok st' → st'.netsStr.isSome = true := by
  intro mid
  induction mid with
  | nil => intro st st' _ hs h; simp [loop] at h; subst h; exact hs
  | cons a as ih =>
    intro st st' hm hsome h
    obtain ⟨st1, hs, hl⟩ := loop_ok_cons.mp h
    refine ih st1 st' (fun m hx => hm m (by simp [hx])) ?_ hl
    rw [stepC_netsStr st st1 _ (stepC_ok_of_step hs)]
    cases hc : classify av a with
    | netsR k v =>
      simp only
      by_cases hv : v = []
      · subst hv; exact absurd hc (hm a (by simp) k)
      · exact netsOf_isSome hv
    | bad => exact hsome
    | test _ _ => exact hsome
    | vmR _ _ _ => exact hsome
    | badObj _ _ => exact hsome
    | vms _ => exact hsome
    | nets _ => exact hsome
    | other _ _ => exact hsome

/-! #### after the loop -/

theorem finish_ok {av : Avail} {st : St} {c : Config} (h : finish av st = .ok c) :
    ∃ tl ls, fullTestsStr av st = .ok tl ∧ parseLines tl = .ok ls ∧ (select av.tests ls).isEmpty = false ∧
      c = { paramDict := st.pd, testsLines := tl, availableVms := fullVmStrs av st,
            vmStrs := (fullVmStrs av st).filter (fun p => st.selVms.contains p.1), vms := st.selVms } := by
  unfold finish at h
  cases h1 : fullTestsStr av st with
  | error e => simp [h1] at h
  | ok tl =>
    simp only [h1] at h
    cases h2 : parseLines tl with
    | error e => simp [h2] at h
    | ok ls =>
      simp only [h2] at h
      by_cases h3 : (select av.tests ls).isEmpty = true
      · simp [h3] at h
      · rw [if_neg h3] at h
        cases h
        exact ⟨tl, ls, rfl, h2, by simpa using h3, rfl⟩

theorem paramsFromCmd_ok {av : Avail} {args : List Str} {c : Config} (h : paramsFromCmd av args = .ok c) :
    ∃ st, loop av (St.init av) args = .ok st ∧ finish av st = .ok c := by
  unfold paramsFromCmd at h
  cases hl : loop av (St.init av) args with
  | error e => simp [hl] at h
  | ok st => exact ⟨st, rfl, by simpa [hl] using h⟩


/-! ### the filter algebra -/

/-- conjunction of two filters (distribute OR over AND) -/
def andF (A B : Filter) : Filter := A.flatMap (fun wa => B.map (wa ++ ·))

theorem satWord_append (wa wb : Word) (n : Name) : satWord (wa ++ wb) n = (satWord wa n && satWord wb n) := by
  simp [satWord, List.all_append]

theorem any_and_const {α : Type} (l : List α) (f : α → Bool) (b : Bool) :
    l.any (fun x => b && f x) = (b && l.any f) := by
  induction l with
  | nil => simp
  | cons x xs ih => simp only [List.any_cons, ih]; cases b <;> simp

theorem sat_andF (A B : Filter) (n : Name) : sat (andF A B) n = (sat A n && sat B n) := by
  induction A with
  | nil => simp [andF, sat]
  | cons wa rest ih =>
    have e : sat (andF (wa :: rest) B) n = (sat (B.map (wa ++ ·)) n || sat (andF rest B) n) := by
      simp [andF, sat, List.any_append]
    have e2 : sat (B.map (wa ++ ·)) n = (satWord wa n && sat B n) := by
      simp only [sat, List.any_map]
      rw [← any_and_const]
      congr 1
      funext wb
      exact satWord_append wa wb n
    rw [e, e2, ih]
    simp only [sat, List.any_cons]
    cases satWord wa n <;> cases rest.any (satWord · n) <;> cases B.any (satWord · n) <;> rfl

theorem keep_cons (l : Line) (ls : List Line) (n : Name) : keep (l :: ls) n = (keepLine l n && keep ls n) := by
  simp [keep]

theorem keep_append (ls ls' : List Line) (n : Name) : keep (ls ++ ls') n = (keep ls n && keep ls' n) := by
  simp [keep, List.all_append]

theorem keep_perm {ls ls' : List Line} (h : ls.Perm ls') (n : Name) : keep ls n = keep ls' n :=
  h.all_eq

theorem select_append (u : List Name) (ls ls' : List Line) :
    select u (ls ++ ls') = (select u ls).filter (keep ls') := by
  simp only [select, List.filter_filter]
  congr 1
  funext n
  rw [keep_append, Bool.and_comm]

theorem isInfix_single (x : Str) (n : Name) : isInfix [x] n = n.contains x := by
  induction n with
  | nil => simp [isInfix]
  | cons c cs ih =>
    simp only [isInfix, ih, List.contains_cons]
    by_cases h : x = c
    · subst h; simp [List.isPrefixOf]
    · have h1 : (x == c) = false := by simpa using h
      simp [List.isPrefixOf, h1]

/-! ### the strict filter grammar: `a..b` -/

theorem splitDD_ne_nil (s : Str) : splitDD s ≠ [] := by
  fun_induction splitDD s with
  | case1 => simp
  | case2 => simp
  | case3 => simp
  | case4 x y xs h hnil => simp
  | case5 x y xs h hd tl hcons => simp

theorem splitBy_ne_nil (p : Char → Bool) (s : Str) : splitBy p s ≠ [] := by
  fun_induction splitBy p s <;> simp

theorem splitBy_none (p : Char → Bool) (s : Str) (h : ∀ c ∈ s, p c = false) : splitBy p s = [s] := by
  induction s with
  | nil => rfl
  | cons x xs ih =>
    have hx : p x = false := h x (by simp)
    have := ih (fun c hc => h c (by simp [hc]))
    simp [splitBy, hx, this]


theorem splitDD_append (a b : Str) (h : a.getLast? ≠ some '.') :
    splitDD (a ++ '.' :: '.' :: b) = splitDD a ++ splitDD b := by
  fun_induction splitDD a with
  | case1 => simp [splitDD]
  | case2 x =>
    have hx : (x == '.') = false := by
      simp only [List.getLast?_singleton, ne_eq, Option.some.injEq] at h
      simpa using h
    simp [splitDD, hx]
  | case3 x y xs hdd ih =>
    have hxs : xs ≠ [] := by
      intro e; subst e
      simp only [Bool.and_eq_true, beq_iff_eq] at hdd
      simp [hdd.2] at h
    have h' : xs.getLast? ≠ some '.' := by
      simpa [List.getLast?_cons_cons, List.getLast?_cons_of_ne_nil hxs] using h
    have := ih h'
    simp only [List.cons_append]
    rw [splitDD.eq_3, if_pos hdd, this]
  | case4 x y xs hdd hnil => exact absurd hnil (splitDD_ne_nil _)
  | case5 x y xs hdd hd tl hcons ih =>
    have h' : (y :: xs).getLast? ≠ some '.' := by simpa [List.getLast?_cons_cons] using h
    have := ih h'
    simp only [List.cons_append] at this ⊢
    rw [splitDD.eq_3, if_neg hdd, this, hcons]
    rfl


/-! ### more glue -/

theorem isObjKey_not_test (k : Str) (hk : isObjKey k = true) : isTestKey k = false := by
  simp only [isObjKey, Bool.or_eq_true, List.isPrefixOf_iff_prefix] at hk
  rcases hk with ⟨t, rfl⟩ | ⟨t, rfl⟩
  · simp [isTestKey, kOnlyU, kOnly, kNo]
  · simp [isTestKey, kNoU, kOnly, kNo]

theorem loop_ok_append {av : Avail} {st st' : St} {xs ys : List Str} :
    loop av st (xs ++ ys) = .ok st' ↔ ∃ st1, loop av st xs = .ok st1 ∧ loop av st1 ys = .ok st' := by
  rw [loop_append]
  cases loop av st xs with
  | error e => simp
  | ok st1 => simp

theorem parseLines_append (xs ys : List (Str × Str)) :
    parseLines (xs ++ ys) =
      match parseLines xs with
      | .error e => .error e
      | .ok a => match parseLines ys with
        | .error e => .error e
        | .ok b => .ok (a ++ b) := by
  induction xs with
  | nil => simp only [List.nil_append, parseLines]; cases parseLines ys <;> rfl
  | cons l ls ih =>
    simp only [List.cons_append, parseLines, ih]
    cases parseLine l with
    | error e => rfl
    | ok x =>
      simp only
      cases parseLines ls with
      | error e => rfl
      | ok a =>
        simp only
        cases parseLines ys <;> rfl

/-- the default restriction lines of a vm -/
def vmDefaultLines (av : Avail) (pd : List (Str × Str)) (vm : Str) : List (Str × Str) :=
  match vmDefault av pd vm with
  | some d => if d.isEmpty then [] else [(kOnly, d)]
  | none => []


/-! ### permutations of the argument list -/

theorem parseLines_cons_ok {l : Str × Str} {rest : List (Str × Str)} {ls : List Line} :
    parseLines (l :: rest) = .ok ls ↔
      ∃ x xs, parseLine l = .ok x ∧ parseLines rest = .ok xs ∧ ls = x :: xs := by
  simp only [parseLines]
  cases parseLine l with
  | error e => simp
  | ok x =>
    cases parseLines rest with
    | error e => simp
    | ok xs =>
      simp only [Except.ok.injEq]
      constructor
      · intro h; exact ⟨x, xs, rfl, rfl, h.symm⟩
      · rintro ⟨x', xs', h1, h2, h3⟩; subst h1; subst h2; exact h3.symm

/-- restriction strings that are permutations of each other parse to permuted line lists -/
theorem parseLines_perm {tl tl' : List (Str × Str)} (hp : tl.Perm tl') :
    ∀ {ls : List Line}, parseLines tl = .ok ls → ∃ ls', parseLines tl' = .ok ls' ∧ ls.Perm ls' := by
  induction hp with
  | nil => intro ls h; exact ⟨ls, h, List.Perm.refl _⟩
  | cons x _ ih =>
    intro ls h
    obtain ⟨y, ys, h1, h2, rfl⟩ := parseLines_cons_ok.mp h
    obtain ⟨ls', e, p⟩ := ih h2
    exact ⟨y :: ls', parseLines_cons_ok.mpr ⟨y, ls', h1, e, rfl⟩, p.cons _⟩
  | swap x y l =>
    intro ls h
    obtain ⟨a, as, h1, h2, rfl⟩ := parseLines_cons_ok.mp h
    obtain ⟨b, bs, h3, h4, rfl⟩ := parseLines_cons_ok.mp h2
    exact ⟨b :: a :: bs, parseLines_cons_ok.mpr ⟨b, a :: bs, h3, parseLines_cons_ok.mpr ⟨a, bs, h1, h4, rfl⟩, rfl⟩,
      List.Perm.swap _ _ _⟩
  | trans _ _ ih1 ih2 =>
    intro ls h
    obtain ⟨l1, e1, p1⟩ := ih1 h
    obtain ⟨l2, e2, p2⟩ := ih2 e1
    exact ⟨l2, e2, p1.trans p2⟩

theorem typedTests_perm {av : Avail} {args args' : List Str} (h : args.Perm args') :
    (typedTests av args).Perm (typedTests av args') := h.filterMap _

theorem typedVm_perm {av : Avail} {vm : Str} {args args' : List Str} (h : args.Perm args') :
    (typedVm av vm args).Perm (typedVm av vm args') := h.filterMap _

theorem vmTyped_perm {av : Avail} {vm : Str} {args args' : List Str} (h : args.Perm args') :
    vmTyped av vm args = vmTyped av vm args' := h.any_eq

theorem testsDefault_congr {av : Avail} {pd pd' : List (Str × Str)} (h : ∀ k, dictGet pd k = dictGet pd' k) :
    testsDefault av pd = testsDefault av pd' := by simp [testsDefault, h]

theorem vmDefaultLines_congr {av : Avail} {pd pd' : List (Str × Str)} (h : ∀ k, dictGet pd k = dictGet pd' k)
    (vm : Str) : vmDefaultLines av pd vm = vmDefaultLines av pd' vm := by
  simp [vmDefaultLines, vmDefault, h]

end I2N.Cmd
