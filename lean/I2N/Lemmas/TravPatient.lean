import I2N.Lemmas.TravBudget
/-!
Where the thresholds of `is_occupied` grow (companion of the budget theorems of C03).

`classLimit g s c` depends on the state only through the `bump` counters of the copies of the class, and a `bump` counter
is written in exactly one place: the back-off branch of `iter` — the worker stands again before an occupied node it has
bounced off before (`occAt`) and its accumulated back-off (`occWait`, seconds) exceeds the node's timeout budget
`timeout * max_tries`.  `occAt`/`occWait` of a worker are written in that branch only, and the branch ends the step
(suspension), so whether a step of worker `w` bumps is decided by `w`'s record at the beginning of the step:
`overWaited g s w`.  A step with `¬ overWaited g s w` leaves every `bump` counter — hence every `classLimit` — alone
(`resume_bump_eq`); along runs all of whose steps are of this kind (`ReachableP`) no bump ever happens (`NoBump`).

Technique: the frame relation `Calm` (bump counters and the stepping worker's back-off record unchanged) and one walk
through the functions of the loop.
-/
namespace I2N.Trav

/-- worker `w` has accumulated more back-off than the timeout budget `timeout * max(max_tries, 1)` of a node it has bounced off
before: its next bounce at that node would raise the node's `max_concurrent_tries` -/
def overWaited (g : Graph) (s : State) (w : Nat) : Prop :=
  ∃ n ∈ (s.wd w).occAt,
    (s.wd w).occWait > Float.ofInt (((g.node n).timeout : Int) * max ((g.node n).maxTries.getD 1) 1)

/-- a worker that has not bounced yet has not over-waited -/
theorem not_overWaited_of_nil {g : Graph} {s : State} {w : Nat} (h : (s.wd w).occAt = []) : ¬ overWaited g s w := by
  rintro ⟨n, hn, _⟩
  rw [h] at hn
  cases hn

/-- bump counters and the back-off record of worker `w` are unchanged -/
structure Calm (w : Nat) (s s' : State) : Prop where
  bump : ∀ i, (s'.nd i).bump = (s.nd i).bump
  occAt : (s'.wd w).occAt = (s.wd w).occAt
  occWait : (s'.wd w).occWait = (s.wd w).occWait

theorem Calm.refl (w : Nat) (s : State) : Calm w s s := ⟨fun _ => rfl, rfl, rfl⟩

theorem Calm.trans {w : Nat} {s s1 s2 : State} (a : Calm w s s1) (b : Calm w s1 s2) : Calm w s s2 :=
  ⟨fun i => (b.bump i).trans (a.bump i), b.occAt.trans a.occAt, b.occWait.trans a.occWait⟩

theorem Calm.quiet {w : Nat} {s s' : State} (hn : s'.nodes = s.nodes) (hw : s'.workers = s.workers) : Calm w s s' :=
  ⟨fun i => by rw [nd_of_nodes_eq' hn], by rw [wd_of_workers_eq hw], by rw [wd_of_workers_eq hw]⟩

theorem calm_setCr (w : Nat) (s : State) (cc : Nat) (f : ClassRegs → ClassRegs) : Calm w s (s.setCr cc f) :=
  Calm.quiet rfl rfl

theorem calm_setNd (w : Nat) (s : State) (m : Nat) (f : NodeD → NodeD) (hb : ∀ d, (f d).bump = d.bump) :
    Calm w s (s.setNd m f) :=
  ⟨fun i => nd_setNd_proj (·.bump) s m f hb i, rfl, rfl⟩

theorem calm_setWd (w : Nat) (s : State) (v : Nat) (f : WorkerD → WorkerD) (h1 : ∀ d, (f d).occAt = d.occAt)
    (h2 : ∀ d, (f d).occWait = d.occWait) : Calm w s (s.setWd v f) := by
  refine ⟨fun _ => rfl, ?_, ?_⟩
  · by_cases hv : w = v
    · subst hv
      rcases wd_setWd_cases s w f with ⟨h, _⟩ | ⟨_, h⟩
      · rw [h]
      · rw [h, h1]
    · rw [wd_setWd_ne s v w f hv]
  · by_cases hv : w = v
    · subst hv
      rcases wd_setWd_cases s w f with ⟨h, _⟩ | ⟨_, h⟩
      · rw [h]
      · rw [h, h2]
    · rw [wd_setWd_ne s v w f hv]

theorem calm_foldl {β} (w : Nat) (f : State → β → State) (h : ∀ s b, Calm w s (f s b)) (l : List β) (s : State) :
    Calm w s (l.foldl f s) := by
  induction l generalizing s with
  | nil => exact Calm.refl w s
  | cons a r ih => simp only [List.foldl_cons]; exact (h s a).trans (ih _)

theorem calm_popPath (w : Nat) (s : State) (v : Nat) : Calm w s (popPath s v) :=
  calm_setWd w s v _ (fun _ => rfl) (fun _ => rfl)

theorem calm_pushPath (w : Nat) (s : State) (v m : Nat) : Calm w s (pushPath s v m) :=
  calm_setWd w s v _ (fun _ => rfl) (fun _ => rfl)

theorem calm_pickChild (w : Nat) (g : Graph) (s : State) (n v x : Nat) (s' : State) (h : pickChild g s n v = some (x, s')) :
    Calm w s (pushPath s' v x) := by
  obtain ⟨_, _, cc, f, hs⟩ := pickChild_pick g s n v x s' h
  rw [hs]
  exact (calm_setCr w s cc f).trans (calm_pushPath w _ v x)

theorem calm_pickParent (w : Nat) (g : Graph) (s : State) (n v x : Nat) (s' : State) (h : pickParent g s n v = some (x, s')) :
    Calm w s (pushPath s' v x) := by
  obtain ⟨_, _, cc, f, hs⟩ := pickParent_pick g s n v x s' h
  rw [hs]
  exact (calm_setCr w s cc f).trans (calm_pushPath w _ v x)

theorem calm_runDecision (w : Nat) (g : Graph) (s : State) (n v : Nat) (b : Bool) (s1 : State) (e1 : List Event)
    (h : runDecision g s n v = .ok (b, s1, e1)) : Calm w s s1 := by
  rcases runDecision_state g s n v b s1 e1 h with h | h
  · rw [h]; exact Calm.refl w s
  · rw [h]; exact calm_setNd w s n _ (fun _ => rfl)

theorem calm_pullLocations (w : Nat) (g : Graph) (s : State) (n : Nat) : Calm w s (pullLocations g s n) := by
  unfold pullLocations
  split
  · exact Calm.refl w s
  · apply calm_foldl
    rintro s ⟨p, vms⟩
    apply calm_foldl
    intro s loc
    apply calm_foldl
    intro s vm
    exact calm_setNd w s n _ (fun _ => rfl)

theorem calm_syncStates (w : Nat) (g : Graph) (s : State) (n v : Nat) (rv : Option (List String)) :
    Calm w s (syncStates g s n v rv).1 := by
  unfold syncStates
  dsimp only
  split
  · exact Calm.refl w s
  · split <;> exact Calm.quiet rfl rfl

theorem calm_reverseNode (w : Nat) (g : Graph) (s : State) (n v : Nat) (s' : State) (evs : List Event)
    (h : reverseNode g s n v = .ok (s', evs)) : Calm w s s' := by
  unfold reverseNode at h
  by_cases hocc : isOccupied g s n v = true
  · simp only [hocc, if_true, Except.ok.injEq, Prod.mk.injEq] at h
    rw [← h.1]; exact Calm.refl w s
  · simp only [hocc, Bool.false_eq_true, if_false, ite_self] at h
    have h0 : Calm w s (s.setNd n (fun d => { d with started := some v })) := calm_setNd w s n _ (fun _ => rfl)
    cases hd : cleanDecision g (s.setNd n (fun d => { d with started := some v })) n v with
    | error e => simp [hd] at h
    | ok clean =>
      simp only [hd, Except.ok.injEq, Prod.mk.injEq] at h
      rw [← h.1]
      refine h0.trans (Calm.trans ?_ (calm_setNd w _ n _ (fun _ => rfl)))
      split
      · exact calm_syncStates w g _ n v none
      · exact Calm.refl w _

theorem calm_finishTraverse (w : Nat) (s : State) (n v : Nat) : Calm w s (finishTraverse s n v) :=
  calm_setNd w s n _ (fun _ => rfl)

theorem calm_afterTraverse (w : Nat) (g : Graph) (s : State) (v next prev : Nat) (dir : Dir) :
    Calm w s (afterTraverse g s v next prev dir).1 := by
  unfold afterTraverse
  cases hd : runDecision g s next v with
  | error e => exact Calm.refl w s
  | ok r =>
    obtain ⟨run, s1, evs⟩ := r
    have h1 : Calm w s s1 := calm_runDecision w g s next v run s1 evs hd
    cases dir with
    | up =>
      dsimp only
      refine h1.trans (Calm.trans ?_ (calm_popPath w _ v))
      split
      · exact calm_setCr w s1 _ _
      · exact Calm.refl w s1
    | down =>
      dsimp only
      by_cases hrun : run = true
      · simp only [hrun, if_true]
        exact h1.trans (calm_popPath w _ v)
      · simp only [hrun, Bool.false_eq_true, if_false]
        by_cases hcr : isCleanupReady g s1 next v = true
        · simp only [hcr, if_true]
          by_cases hpp : (!(g.node next).flat && (s1.wd v).unexplored) = true
          · simp only [hpp, if_true]
            exact h1.trans (calm_setWd w s1 v _ (fun _ => rfl) (fun _ => rfl))
          simp only [hpp, Bool.false_eq_true, if_false]
          have h2 : Calm w s1 (List.foldl (fun s x => dropChild g s x.1 next v) s1 (g.node next).setup) := by
            apply calm_foldl
            rintro s ⟨p, _⟩
            exact calm_setCr w s _ _
          cases hr : reverseNode g (List.foldl (fun s x => dropChild g s x.1 next v) s1 (g.node next).setup) next v with
          | error e => exact h1.trans h2
          | ok r =>
            obtain ⟨s2, evs2⟩ := r
            exact h1.trans (h2.trans ((calm_reverseNode w g _ next v s2 evs2 hr).trans (calm_popPath w _ v)))
        · simp only [hcr, Bool.false_eq_true, if_false]
          cases hp : pickChild g s1 next v with
          | none => exact h1
          | some r =>
            obtain ⟨x, s2⟩ := r
            exact h1.trans (calm_pickChild w g s1 next v x s2 hp)

theorem calm_startTest (w : Nat) (g : Graph) (s : State) (n v : Nat) (ph : Phase) (dir : Dir) :
    Calm w s (startTest g s n v ph dir).1 := by
  have a1 : Calm w s { s with nextTag := s.nextTag + 1 } := Calm.quiet rfl rfl
  by_cases hph : ph = .pre
  · subst hph
    rw [startTest_pre_fst]
    exact a1.trans (calm_setWd w _ v _ (fun _ => rfl) (fun _ => rfl))
  · rw [startTest_nonpre_fst g s n v ph dir hph]
    have a2 : Calm w { s with nextTag := s.nextTag + 1 } (({ s with nextTag := s.nextTag + 1 } : State).setNd n
        (fun d => { d with results := d.results ++ [phOf (g.node n).name s.nextTag] })) :=
      calm_setNd w _ n _ (fun _ => rfl)
    exact (a1.trans a2).trans (calm_setWd w _ v _ (fun _ => rfl) (fun _ => rfl))

theorem calm_traverseNode (w : Nat) (g : Graph) (s : State) (v next prev : Nat) (dir : Dir) :
    Calm w s (traverseNode g s v next prev dir).1 := by
  unfold traverseNode
  by_cases hocc : isOccupied g s next v = true
  · simp only [hocc, if_true]
    exact calm_afterTraverse w g s v next prev dir
  · simp only [hocc, Bool.false_eq_true, if_false]
    have h00 : Calm w s (s.setNd next (fun d => { d with started := some v })) := calm_setNd w s next _ (fun _ => rfl)
    have h0 : Calm w s (pullLocations g (s.setNd next (fun d => { d with started := some v })) next) :=
      h00.trans (calm_pullLocations w g _ next)
    cases hd : runDecision g (pullLocations g (s.setNd next (fun d => { d with started := some v })) next) next v with
    | error e => exact h0
    | ok r =>
      obtain ⟨run, s1, evs⟩ := r
      have h1 : Calm w s s1 := h0.trans (calm_runDecision w g _ next v run s1 evs hd)
      dsimp only
      by_cases hrun : run = true
      · subst hrun
        simp only [if_true]
        by_cases hroot : (g.node next).objectRoot = true
        · simp only [hroot, if_true]
          have h2 : Calm w s1 (s1.setWd v (fun d => { d with preResults := (s1.nd next).results, preName := preNameOf g next v })) :=
            calm_setWd w s1 v _ (fun _ => rfl) (fun _ => rfl)
          exact h1.trans (h2.trans (calm_startTest w g _ next v .pre dir))
        · simp only [hroot, Bool.false_eq_true, if_false]
          show Calm w s (startTest g s1 next v .plain dir).1
          exact h1.trans (calm_startTest w g s1 next v .plain dir)
      · simp only [hrun, Bool.false_eq_true, if_false]
        exact h1.trans ((calm_finishTraverse w s1 next v).trans (calm_afterTraverse w g _ v next prev dir))

theorem SameNodes.timeout {gv g : Graph} (h : SameNodes gv g) (n : Nat) : (gv.node n).timeout = (g.node n).timeout := by
  have := congrArg Node.timeout (h.node n); exact this

/-- outcome of a piece of the loop of worker `w`: nothing the bump depends on has changed, or (the bounce) the bump
counters are unchanged and the worker is suspended -/
def CalmOK (w : Nat) (s : State) (r : Step) : Prop :=
  Calm w s r.1 ∨ ((∀ i, (r.1.nd i).bump = (s.nd i).bump) ∧ r.2.2 = Flow.suspend)

/-- one iteration of a worker that has not over-waited bumps nothing -/
theorem iter_calm {g gv : Graph} (hgv : SameNodes gv g) (s : State) (w : Nat) (h : ¬ overWaited g s w) :
    CalmOK w s (iter gv s w) := by
  unfold iter
  dsimp only
  split
  · split
    · exact Or.inl (calm_setWd w s w _ (fun _ => rfl) (fun _ => rfl))
    · exact Or.inl (Calm.refl w s)
  · cases hl : (s.wd w).path.getLast? with
    | none => exact Or.inl (Calm.refl w s)
    | some next =>
      dsimp only
      split
      · cases hp : pickChild gv s next w with
        | none => exact Or.inl (Calm.refl w s)
        | some r => obtain ⟨x, s2⟩ := r; exact Or.inl (calm_pickChild w gv s next w x s2 hp)
      · split
        · -- the bounce: the only place where a bump counter is written
          right
          refine ⟨fun i => ?_, rfl⟩
          rw [nd_setWd]
          by_cases hc : (s.wd w).occAt.contains next = true
          · have hnot : ¬ ((s.wd w).occWait >
                Float.ofInt (((gv.node next).timeout : Int) * max ((gv.node next).maxTries.getD 1) 1)) := by
              intro hgt
              apply h
              refine ⟨next, by simpa using hc, ?_⟩
              rw [← hgv.timeout, ← hgv.maxTries]
              exact hgt
            simp only [hc, if_true, hnot, if_false, nd_setWd]
          · simp only [hc, Bool.false_eq_true, if_false, nd_setWd]
        · split
          · split
            · exact Or.inl (calm_traverseNode w gv s w next _ .up)
            · cases hp : pickParent gv s next w with
              | none => exact Or.inl (Calm.refl w s)
              | some r => obtain ⟨x, s2⟩ := r; exact Or.inl (calm_pickParent w gv s next w x s2 hp)
          · split
            · split
              · cases hp : pickParent gv s next w with
                | none => exact Or.inl (Calm.refl w s)
                | some r => obtain ⟨x, s2⟩ := r; exact Or.inl (calm_pickParent w gv s next w x s2 hp)
              · exact Or.inl (calm_traverseNode w gv s w next _ .down)
            · exact Or.inl (Calm.refl w s)

theorem calm_prepare (w : Nat) (g : Graph) (s : State) (v : Nat) : Calm w s (prepare g s v) := by
  unfold prepare
  dsimp only
  cases (s.wd v).path.getLast? with
  | none => exact Calm.refl w s
  | some next =>
    dsimp only
    have h0 : Calm w s (s.setWd v (fun d => { d with unexplored := !(unexploredNodes (vis g s) s).isEmpty })) :=
      calm_setWd w s v _ (fun _ => rfl) (fun _ => rfl)
    split
    · refine h0.trans ?_
      unfold reveal
      dsimp only
      split <;> exact Calm.quiet rfl rfl
    · exact h0

theorem overWaited_of_calm {g : Graph} {w : Nat} {s s' : State} (a : Calm w s s') (h : ¬ overWaited g s w) :
    ¬ overWaited g s' w := by
  unfold overWaited at h ⊢
  rw [a.occAt, a.occWait]
  exact h

theorem iterL_calm (g : Graph) (s : State) (w : Nat) (h : ¬ overWaited g s w) : CalmOK w s (iterL g s w) := by
  unfold iterL
  split
  · exact iter_calm (sameNodes_vis g s) s w h
  · dsimp only
    have h0 := calm_prepare w g s w
    rcases iter_calm (sameNodes_vis g (prepare g s w)) (prepare g s w) w (overWaited_of_calm h0 h) with h1 | ⟨h1, h2⟩
    · exact Or.inl (h0.trans h1)
    · exact Or.inr ⟨fun i => (h1 i).trans (h0.bump i), h2⟩

theorem runLoop_bump (g : Graph) (w : Nat) (fuel : Nat) (s : State) (evs : List Event) (h : ¬ overWaited g s w) :
    ∀ i, ((runLoop g w fuel s evs).1.nd i).bump = (s.nd i).bump := by
  induction fuel generalizing s evs with
  | zero => intro i; rfl
  | succ fuel ih =>
    unfold runLoop
    dsimp only
    have h0 : Calm w s (s.setWd w (fun d => { d with pc := .loop })) := calm_setWd w s w _ (fun _ => rfl) (fun _ => rfl)
    have hw0 := iterL_calm g _ w (overWaited_of_calm h0 h)
    split
    · next s1 e heq =>
      rw [heq] at hw0
      rcases hw0 with h1 | ⟨_, h1⟩
      · intro i
        rw [ih s1 _ (overWaited_of_calm (h0.trans h1) h) i]
        exact (h0.trans h1).bump i
      · cases h1
    · next s1 e heq =>
      rw [heq] at hw0
      rcases hw0 with h1 | ⟨h1, _⟩
      · exact (h0.trans h1).bump
      · exact fun i => (h1 i).trans (h0.bump i)
    · next s1 e heq =>
      rw [heq] at hw0
      rcases hw0 with h1 | ⟨h1, _⟩
      · exact (h0.trans h1).bump
      · exact fun i => (h1 i).trans (h0.bump i)
    · next s1 e what heq =>
      rw [heq] at hw0
      intro i
      rw [nd_setWd]
      rcases hw0 with h1 | ⟨h1, _⟩
      · exact (h0.trans h1).bump i
      · exact (h1 i).trans (h0.bump i)

theorem calm_recordResult (w : Nat) (s : State) (v n : Nat) (phase : Phase) (name uid : String) (tag : Nat) (st0 : String)
    (dur : Nat) : Calm w s (recordResult s v n phase name uid tag st0 dur).1 := by
  unfold recordResult
  dsimp only
  have hX : ∀ (b : Bool) (jr : List (String × String × String × Nat)),
      Calm w s (if b = true then { s with jobResults := jr } else s) := by
    intro b jr
    cases b
    · exact Calm.refl w s
    · exact Calm.quiet rfl rfl
  by_cases hp : (phase == Phase.pre) = true
  · simp only [hp, if_true]
    exact (hX _ _).trans (calm_setWd w _ v _ (fun _ => rfl) (fun _ => rfl))
  · simp only [hp, Bool.false_eq_true, if_false]
    exact (hX _ _).trans (calm_setNd w _ n _ (fun _ => rfl))

theorem continueAfter_bump (g : Graph) (w n : Nat) (phase : Phase) (dir : Dir) (fuel : Nat) (s sc : State) (ok : Bool)
    (evs : List Event) (a : Calm w s sc) (h : ¬ overWaited g s w) :
    ∀ i, ((resumeTest.continueAfter g w n phase dir fuel sc ok evs).1.nd i).bump = (s.nd i).bump := by
  unfold resumeTest.continueAfter
  dsimp only
  split
  · exact (a.trans (calm_startTest w g sc n w .main dir)).bump
  · have a1 : Calm w s (finishTraverse (if (phase == Phase.pre) = true then
        sc.setNd n (fun d => { d with results := d.results ++ List.drop d.results.length (sc.wd w).preResults }) else sc) n w) := by
      refine a.trans (Calm.trans ?_ (calm_finishTraverse w _ n w))
      split
      · exact calm_setNd w sc n _ (fun _ => rfl)
      · exact Calm.refl w sc
    generalize finishTraverse (if (phase == Phase.pre) = true then
        sc.setNd n (fun d => { d with results := d.results ++ List.drop d.results.length (sc.wd w).preResults }) else sc) n w = s2
      at a1 ⊢
    have a2 := a1.trans (calm_afterTraverse w (vis g s2) s2 w n ((sc.wd w).path.getD ((sc.wd w).path.length - 2) 0) dir)
    split
    · next s1 e2 what heq =>
      have h3 := congrArg Prod.fst heq
      dsimp only at h3
      rw [h3] at a2
      intro i
      rw [nd_setWd]
      exact a2.bump i
    · next s1 e2 f _ heq =>
      have h3 := congrArg Prod.fst heq
      dsimp only at h3
      rw [h3] at a2
      intro i
      rw [runLoop_bump g w fuel s1 _ (overWaited_of_calm a2 h) i]
      exact a2.bump i

/-- **A step of a worker that has not over-waited leaves every bump counter alone.** -/
theorem resume_bump_eq (g : Graph) (s : State) (w : Nat) (out : Outcome) (fuel : Nat) (h : ¬ overWaited g s w) :
    ∀ i, ((resume g s w out fuel).1.nd i).bump = (s.nd i).bump := by
  unfold resume
  split
  · exact runLoop_bump g w fuel s [] h
  · exact runLoop_bump g w fuel s [] h
  · next n phase dir uid tag wait hpc =>
    rw [resumeTest_eq]
    obtain ⟨hrn, hrw⟩ := reportOutcome_same g s w n phase uid wait out
    have ar : Calm w s (reportOutcome g s w n phase uid wait out).1 := Calm.quiet hrn hrw
    split
    · next st0 dur _ =>
      exact continueAfter_bump g w n phase dir fuel s _ _ _ (ar.trans (calm_recordResult w _ w n phase _ uid tag st0 dur)) h
    · split
      · intro i; rw [nd_setWd]; exact ar.bump i
      · split
        · intro i; rw [nd_setWd]; exact ar.bump i
        · exact continueAfter_bump g w n phase dir fuel s _ _ _ ar h
  · intro i; rfl
  · intro i; rfl

/-- the thresholds depend on the state through the bump counters only -/
theorem classLimit_congr_bump (g : Graph) (s s' : State) (c : Nat) (h : ∀ i, (s'.nd i).bump = (s.nd i).bump) :
    classLimit g s' c = classLimit g s c :=
  Nat.le_antisymm (classLimit_mono g s' s c (fun i => Nat.le_of_eq (h i)))
    (classLimit_mono g s s' c (fun i => Nat.le_of_eq (h i).symm))

/-- **`classLimit` grows only through the bump of the back-off branch**: a step of a worker that has not waited longer
than `timeout * max_tries` at an occupied node leaves the largest threshold of every class as it was, and preserves
`NoBump`. -/
theorem resume_classLimit_eq (g : Graph) (s : State) (w : Nat) (out : Outcome) (fuel : Nat) (h : ¬ overWaited g s w) (c : Nat) :
    classLimit g (resume g s w out fuel).1 c = classLimit g s c :=
  classLimit_congr_bump g s _ c (resume_bump_eq g s w out fuel h)

theorem resume_noBump (g : Graph) (s : State) (w : Nat) (out : Outcome) (fuel : Nat) (h : ¬ overWaited g s w)
    (hb : NoBump s) : NoBump (resume g s w out fuel).1 :=
  fun i => (resume_bump_eq g s w out fuel h i).trans (hb i)

/-- the states reachable by steps of workers none of which has over-waited when it steps -/
inductive ReachableP (g : Graph) (ncls : Nat) (store : List (String × List (String × String))) : State → Prop
  | init (hidden : List Nat) : ReachableP g ncls store (initState g ncls store hidden)
  | step {s : State} (w : Nat) (out : Outcome) (fuel : Nat) (h : ReachableP g ncls store s) (hw : w < g.workers.length)
      (hf : 0 < fuel) (hp : ¬ overWaited g s w) : ReachableP g ncls store (resume g s w out fuel).1

theorem ReachableP.reachableR {g : Graph} {ncls : Nat} {store : List (String × List (String × String))} {s : State}
    (h : ReachableP g ncls store s) : ReachableR g ncls store s := by
  induction h with
  | init hidden => exact .init hidden
  | step w out fuel _ hw hf _ ih => exact .step w out fuel ih hw hf

theorem ReachableP.noBump {g : Graph} {ncls : Nat} {store : List (String × List (String × String))} {s : State}
    (h : ReachableP g ncls store s) : NoBump s := by
  induction h with
  | init hidden =>
    intro i
    unfold initState State.nd
    simp only [List.getD_eq_getElem?_getD, List.getElem?_map]
    cases g.nodes[i]? <;> rfl
  | step w out fuel _ _ _ hp ih => exact resume_noBump g _ w out fuel hp ih

end I2N.Trav
