import I2N.Lemmas.TravGlobalN
/-!
Object roots in the single-worker termination theorem (property C02).

`Lemmas/TravGlobal.lean` excludes object roots (`noRootsB`): the bookkeeping invariant `Basic` says nothing about the result
list of an object root (`tagsBelow`/`tagsOnce` are stated for the other nodes), and a creation pre-step works on a COPY of the
root's results (`preResults`).  This file adds what is missing for ONE worker:

* `RN`: `tagsBelow` and `tagsOnce` for object roots;
* `R3`: while the worker is inside the pre-step of root `n` with placeholder tag `t`,
  `preResults = results n ++ [placeholder t]` and every tag of `results n` is below `t`
  (nobody else touches the root: there is no other worker);
* hence a failed (or never reported) pre-step appends exactly one result to the root, and the settlement of a test proper at
  a root keeps the length of its result list (`stepR`);
* the potential `24·(number of results) + qR(pc)` with `qR(pre … wait) = 12 + wait`, `qR(test … wait) = wait`,
  `qR(loop) = 11`, `qR(done) = qR(failed) = 23` grows with every step that does not find the worker over.
-/
namespace I2N.Trav.GlobalR
open I2N.Trav I2N.Trav.Global I2N.Trav.GlobalN

/-! ## lists -/

theorem notPh_eq (tag : Nat) : (fun r : Result => !(r.status == "UNKNOWN" && r.tag == tag)) = (fun r => !isPh tag r) := rfl

theorem isPh_false_of_tag_ne {t : Nat} {r : Result} (h : r.tag ≠ t) : isPh t r = false := by
  unfold isPh
  have : (r.tag == t) = false := by simpa using h
  rw [this]; simp

/-- settling the placeholder of a creation pre-step on the copy `results ++ [placeholder]` -/
theorem filter_settle_pre (l : List Result) (nm : String) (tag : Nat) (res : Result) (hl : ∀ r ∈ l, r.tag < tag)
    (hres : res.tag = 0) (ht : 1 ≤ tag) :
    ((l ++ [phOf nm tag]) ++ [res]).filter (fun r => !(r.status == "UNKNOWN" && r.tag == tag)) = l ++ [res] := by
  rw [notPh_eq, List.filter_append, List.filter_append]
  have h1 : l.filter (fun r => !isPh tag r) = l := by
    rw [List.filter_eq_self]
    intro r hr
    rw [isPh_false_of_tag_ne (by have := hl r hr; omega)]; rfl
  have h2 : [phOf nm tag].filter (fun r => !isPh tag r) = [] := by
    have : isPh tag (phOf nm tag) = true := by rw [isPh_phOf]; simp
    simp [this]
  have h3 : [res].filter (fun r => !isPh tag r) = [res] := by
    have : isPh tag res = false := isPh_res_false res tag hres ht
    simp [this]
  rw [h1, h2, h3, List.append_nil]

theorem drop_len_append (l x : List Result) : (l ++ x).drop l.length = x := by
  induction l with
  | nil => rfl
  | cons a r ih => simp [ih]

/-! ## the invariant -/

/-- `tagsBelow` and `tagsOnce` for object roots -/
structure RN (g : Graph) (s : State) : Prop where
  below : ∀ m, (g.node m).objectRoot = true → ∀ r ∈ (s.nd m).results, r.tag < s.nextTag
  once : ∀ m t, (g.node m).objectRoot = true → 1 ≤ t → ((s.nd m).results.filter (isPh t)).length ≤ 1

/-- worker `w` inside a creation pre-step works on `results ++ [placeholder]` and the placeholder's tag is new to the root -/
def R3 (w : Nat) (s : State) : Prop :=
  ∀ n dir uid tag wait, (s.wd w).pc = .test n .pre dir uid tag wait →
    (s.wd w).preResults = (s.nd n).results ++ [phOf (s.wd w).preName tag] ∧ ∀ r ∈ (s.nd n).results, r.tag < tag

theorem RN.of_eq {g : Graph} {s s' : State} (r : RN g s) (hn : ∀ m, (s'.nd m).results = (s.nd m).results)
    (ht : s.nextTag ≤ s'.nextTag) : RN g s' :=
  ⟨fun m hm x hx => by rw [hn] at hx; exact Nat.lt_of_lt_of_le (r.below m hm x hx) ht,
   fun m t hm h1 => by rw [hn]; exact r.once m t hm h1⟩

theorem RN.silent {g : Graph} {w : Nat} {s s' : State} (r : RN g s) (a : Silent g w s s') : RN g s' :=
  r.of_eq a.results (by rw [a.tag]; exact Nat.le_refl _)

theorem RN.sameBook {g : Graph} {s s' : State} (r : RN g s) (h : SameBook s s') : RN g s' :=
  r.of_eq (fun m => by rw [h.nd]) (by rw [h.2.2]; exact Nat.le_refl _)

theorem R3.sameBook {w : Nat} {s s' : State} (r : R3 w s) (h : SameBook s s') : R3 w s' := by
  intro n dir uid tag wait hpc
  rw [h.wd] at hpc ⊢
  rw [h.nd]
  exact r n dir uid tag wait hpc

/-- one result `x` is appended to some result lists; `x` is no placeholder of a tag that occurs there already -/
theorem RN.append {g : Graph} {s s' : State} (r : RN g s) (x : Result)
    (hres : ∀ m, (s'.nd m).results = (s.nd m).results ∨
      ((s'.nd m).results = (s.nd m).results ++ [x] ∧
        ((g.node m).objectRoot = true → ∀ t, 1 ≤ t → isPh t x = true → (s.nd m).results.filter (isPh t) = [])))
    (ht : s.nextTag ≤ s'.nextTag) (hx : x.tag < s'.nextTag) : RN g s' := by
  refine ⟨fun m hm y hy => ?_, fun m t hm h1 => ?_⟩
  · rcases hres m with h | ⟨h, _⟩
    · rw [h] at hy; exact Nat.lt_of_lt_of_le (r.below m hm y hy) ht
    · rw [h] at hy
      rcases List.mem_append.mp hy with hy | hy
      · exact Nat.lt_of_lt_of_le (r.below m hm y hy) ht
      · rw [List.mem_singleton.mp hy]; exact hx
  · rcases hres m with h | ⟨h, hf⟩
    · rw [h]; exact r.once m t hm h1
    · rw [h, List.filter_append, List.length_append]
      by_cases hxt : isPh t x = true
      · rw [hf hm t h1 hxt]
        simp only [List.length_nil, Nat.zero_add]
        exact List.length_filter_le _ _
      · have : [x].filter (isPh t) = [] := by simp [hxt]
        rw [this]
        simp only [List.length_nil, Nat.add_zero]
        exact r.once m t hm h1

/-- the placeholder of a test proper is replaced by the result -/
theorem RN.settle {g : Graph} {s : State} (r : RN g s) (n : Nat) (res : Result) (tag : Nat) (hres : res.tag = 0)
    (hpos : 1 ≤ s.nextTag) : RN g (settleNd s n res tag) := by
  unfold settleNd
  refine ⟨fun m hm y hy => ?_, fun m t hm h1 => ?_⟩
  · rcases nd_setNd_cases s n (fun d => { d with results := (d.results ++ [res]).filter (fun r => !(r.status == "UNKNOWN" && r.tag == tag)) }) m with h | ⟨_, _, h⟩
    · rw [h] at hy; exact r.below m hm y hy
    · rw [h] at hy
      rcases List.mem_append.mp (List.mem_filter.mp hy).1 with hy | hy
      · exact r.below m hm y hy
      · rw [List.mem_singleton.mp hy, hres]; exact hpos
  · rcases nd_setNd_cases s n (fun d => { d with results := (d.results ++ [res]).filter (fun r => !(r.status == "UNKNOWN" && r.tag == tag)) }) m with h | ⟨_, _, h⟩
    · rw [h]; exact r.once m t hm h1
    · rw [h]
      refine Nat.le_trans (filter_filter_length_le _ _ _) ?_
      rw [List.filter_append, List.length_append]
      have : [res].filter (isPh t) = [] := by
        have : isPh t res = false := isPh_res_false res t hres h1
        simp [this]
      rw [this]
      simp only [List.length_nil, Nat.add_zero]
      exact r.once m t hm h1

/-! ## the potential -/

def qR : Pc → Nat
  | .test _ .pre _ _ _ wait => 12 + wait
  | .test _ _ _ _ _ wait => wait
  | .loop => 11
  | .bounce => 11
  | .done => 23
  | .failed => 23

/-- how the loop part of a step ends, `T` = the number of results when it begins: nothing is started, or a test proper is
started (one placeholder appended), or a creation pre-step is started (on a copy) -/
def Tail (g : Graph) (w : Nat) (T : Nat) (s' : State) : Prop :=
  (total g s' = T ∧ (s'.wd w).pc.isTest = false) ∨ (total g s' = T + 1 ∧ qR (s'.wd w).pc = 0) ∨
    (total g s' = T ∧ qR (s'.wd w).pc = 12)

/-! ## starts -/

/-- the start of a test proper (`plain` or `main`) at any node -/
theorem startNonPre_R {g : Graph} {s : State} (r : RN g s) (n w : Nat) (ph : Phase) (dir : Dir) (hph : ph ≠ .pre)
    (hn : n < g.nodes.length) (hlen : s.nodes.length = g.nodes.length) (hw : w < s.workers.length) :
    RN g (startTest g s n w ph dir).1 ∧ R3 w (startTest g s n w ph dir).1 ∧
      total g (startTest g s n w ph dir).1 = total g s + 1 ∧ qR ((startTest g s n w ph dir).1.wd w).pc = 0 := by
  have hpc := startTest_pc g s n w ph dir hw
  obtain ⟨a1, a2⟩ := startTest_nonpre_len g s n w ph dir hph (by rw [hlen]; exact hn)
  refine ⟨?_, ?_, total_succ hn a1 a2, ?_⟩
  · rw [startTest_nonpre_fst g s n w ph dir hph]
    refine r.append (phOf (g.node n).name s.nextTag) (fun m => ?_) (Nat.le_succ _) (Nat.lt_succ_self _)
    rw [nd_setWd]
    rcases nd_setNd_cases ({ s with nextTag := s.nextTag + 1 }) n
      (fun d => { d with results := d.results ++ [phOf (g.node n).name s.nextTag] }) m with h | ⟨_, _, h⟩
    · left; rw [h]; rfl
    · right
      rw [h]
      refine ⟨rfl, fun hm t _ hx => ?_⟩
      rw [isPh_phOf] at hx
      have : t = s.nextTag := (by simpa using hx : s.nextTag = t).symm
      rw [this]
      exact filter_isPh_nil _ _ (r.below m hm)
  · intro n' dir' uid' tag' wait' e
    rw [hpc] at e
    cases ph
    · cases e
    · exact absurd rfl hph
    · cases e
  · rw [hpc]
    cases ph
    · rfl
    · exact absurd rfl hph
    · rfl

/-- the start of a creation pre-step at an object root -/
theorem startPre_R {g : Graph} {s : State} (r : RN g s) (n w : Nat) (dir : Dir) (hroot : (g.node n).objectRoot = true)
    (hw : w < s.workers.length) :
    RN g (startTest g (s.setWd w (fun d => { d with preResults := (s.nd n).results, preName := preNameOf g n w })) n w .pre dir).1 ∧
    R3 w (startTest g (s.setWd w (fun d => { d with preResults := (s.nd n).results, preName := preNameOf g n w })) n w .pre dir).1 ∧
    total g (startTest g (s.setWd w (fun d => { d with preResults := (s.nd n).results, preName := preNameOf g n w })) n w .pre dir).1 =
      total g s ∧
    qR ((startTest g (s.setWd w (fun d => { d with preResults := (s.nd n).results, preName := preNameOf g n w })) n w .pre dir).1.wd w).pc = 12 := by
  rw [startTest_pre_fst]
  have hwd0 := wd_setWd_eq s w (fun d => { d with preResults := (s.nd n).results, preName := preNameOf g n w }) hw
  have hnd0 : ∀ m, (s.setWd w (fun d => { d with preResults := (s.nd n).results, preName := preNameOf g n w })).nd m = s.nd m :=
    fun m => rfl
  have ht0 : (s.setWd w (fun d => { d with preResults := (s.nd n).results, preName := preNameOf g n w })).nextTag = s.nextTag := rfl
  have hw0 : w < (s.setWd w (fun d => { d with preResults := (s.nd n).results, preName := preNameOf g n w })).workers.length := by
    rw [workers_length_setWd]; exact hw
  generalize (s.setWd w (fun d => { d with preResults := (s.nd n).results, preName := preNameOf g n w })) = s0
    at hwd0 hnd0 ht0 hw0 ⊢
  have hwd := wd_setWd_eq ({ s0 with nextTag := s0.nextTag + 1 }) w (fun d => { d with
        preResults := d.preResults ++ [phOf (s0.wd w).preName s0.nextTag],
        pc := .test n .pre dir (uidOf "0" (s0.wd w).preResults.length) s0.nextTag 0 }) hw0
  have hwd' : ({ s0 with nextTag := s0.nextTag + 1 } : State).wd w = s0.wd w := rfl
  have hnd : ∀ m, ((({ s0 with nextTag := s0.nextTag + 1 } : State).setWd w (fun d => { d with
        preResults := d.preResults ++ [phOf (s0.wd w).preName s0.nextTag],
        pc := .test n .pre dir (uidOf "0" (s0.wd w).preResults.length) s0.nextTag 0 })).nd m) = s.nd m :=
    fun m => (hnd0 m)
  refine ⟨?_, ?_, total_congr (fun m => by rw [hnd]), ?_⟩
  · refine r.of_eq (fun m => by rw [hnd]) ?_
    show s.nextTag ≤ s0.nextTag + 1
    rw [ht0]; exact Nat.le_succ _
  · intro n' dir' uid' tag' wait' e
    rw [hwd] at e ⊢
    cases e
    rw [hnd, hwd', hwd0, ht0]
    exact ⟨rfl, r.below n hroot⟩
  · rw [hwd]; rfl

theorem startFrom_R {g : Graph} {w : Nat} {s1 s' : State} (r : RN g s1) (h : StartFrom g w s1 s')
    (hlen : s1.nodes.length = g.nodes.length) (hw : w < s1.workers.length) :
    RN g s' ∧ R3 w s' ∧
      ((total g s' = total g s1 + 1 ∧ qR (s'.wd w).pc = 0) ∨ (total g s' = total g s1 ∧ qR (s'.wd w).pc = 12)) := by
  cases h with
  | plain n dir s0 evs gv hgv hn hroot hdec e =>
    rw [e]
    obtain ⟨a, b, c, d⟩ := startNonPre_R r n w .plain dir (by decide) hn hlen hw
    exact ⟨a, b, Or.inl ⟨c, d⟩⟩
  | pre n dir hn hroot e =>
    rw [e]
    obtain ⟨a, b, c, d⟩ := startPre_R r n w dir hroot hw
    exact ⟨a, b, Or.inr ⟨c, d⟩⟩

/-- the loop part of a step, from a state `sd` -/
theorem tail_R {g : Graph} {w : Nat} {sd s' : State} (r : RN g sd) (hlen : sd.nodes.length = g.nodes.length)
    (hw : w < sd.workers.length)
    (h : (Silent g w sd s' ∧ (s'.wd w).pc.isTest = false) ∨ ∃ s1, Silent g w sd s1 ∧ StartFrom g w s1 s') :
    RN g s' ∧ R3 w s' ∧ Tail g w (total g sd) s' := by
  rcases h with ⟨a, hp⟩ | ⟨s1, a, hs⟩
  · refine ⟨r.silent a, ?_, Or.inl ⟨total_congr a.results, hp⟩⟩
    intro n dir uid tag wait e
    rw [e] at hp; cases hp
  · obtain ⟨x1, x2, x3⟩ := startFrom_R (r.silent a) hs (by rw [a.nodesLen]; exact hlen) (by rw [a.workersLen]; exact hw)
    refine ⟨x1, x2, ?_⟩
    rw [total_congr a.results] at x3
    rcases x3 with x3 | x3
    · exact Or.inr (Or.inl x3)
    · exact Or.inr (Or.inr x3)

/-! ## the step -/

/-- settling a test proper keeps the number of results, also at an object root -/
theorem total_settleR {g : Graph} {s : State} {w n : Nat} {ph : Phase} {dir : Dir} {uid : String} {tag wait : Nat}
    (b : Basic g s All) (r : RN g s) (hpc : (s.wd w).pc = .test n ph dir uid tag wait) (hph : ph ≠ .pre)
    (res : Result) (hres : res.tag = 0) : total g (settleNd s n res tag) = total g s := by
  refine sum_map_congr _ _ _ (fun j _ => ?_)
  rcases settleNd_results s n res tag j with h | ⟨hj, h⟩
  · rw [h]
  · subst hj
    rw [h]
    have ht := (b.pcOK w j ph dir uid tag wait trivial hpc).2.1
    have hl := settle_len (s.nd j).results res tag (isPh_res_false res tag hres ht)
    have h1 : ((s.nd j).results.filter (isPh tag)).length ≤ 1 := by
      cases hroot : (g.node j).objectRoot
      · exact b.tagsOnce j tag hroot ht
      · exact r.once j tag hroot ht
    have h2 : 0 < ((s.nd j).results.filter (isPh tag)).length := by
      apply List.length_pos_of_mem (a := phOf (g.node j).name tag)
      refine List.mem_filter.mpr ⟨(b.placeholder w j ph dir uid tag wait trivial hpc).1 hph, ?_⟩
      rw [isPh_phOf]; simp
    omega

/-- one result `x` is appended to the object root `n` -/
theorem appendRoot_R {g : Graph} {s s' : State} (r : RN g s) (n : Nat) (x : Result) (hn : n < g.nodes.length)
    (hne : ∀ m, m ≠ n → (s'.nd m).results = (s.nd m).results) (heq : (s'.nd n).results = (s.nd n).results ++ [x])
    (ht : s'.nextTag = s.nextTag)
    (hfresh : ∀ t, 1 ≤ t → isPh t x = true → (s.nd n).results.filter (isPh t) = []) (hx : x.tag < s.nextTag) :
    RN g s' ∧ total g s' = total g s + 1 := by
  refine ⟨r.append x (fun m => ?_) (by rw [ht]; exact Nat.le_refl _) (by rw [ht]; exact hx),
    total_succ hn (by rw [heq]; simp) (fun j hj => by rw [hne j hj])⟩
  by_cases hm : m = n
  · right
    subst hm
    exact ⟨heq, fun _ => hfresh⟩
  · left; exact hne m hm

/-- the failed (or never reported) creation pre-step is filed at the root: `appendPre` when the copy is `results ++ [x]` -/
theorem appendPre_R {g : Graph} {sc : State} (rc : RN g sc) (n w : Nat) (x : Result) (hn : n < g.nodes.length)
    (hlen : sc.nodes.length = g.nodes.length) (hpre : (sc.wd w).preResults = (sc.nd n).results ++ [x])
    (hfresh : ∀ t, 1 ≤ t → isPh t x = true → (sc.nd n).results.filter (isPh t) = []) (hx : x.tag < sc.nextTag) :
    RN g (appendPre sc n w) ∧ total g (appendPre sc n w) = total g sc + 1 := by
  refine appendRoot_R rc n x hn (fun m hm => ?_) ?_ rfl hfresh hx
  · unfold appendPre; rw [nd_setNd_ne sc n m _ hm]
  · unfold appendPre
    rw [nd_setNd_eq sc n _ (by rw [hlen]; exact hn)]
    show (sc.nd n).results ++ List.drop (sc.nd n).results.length (sc.wd w).preResults = _
    rw [hpre, drop_len_append]

/-- the shape of a step of worker `w` on a graph with object roots, provided nobody else touches the roots `w` works on
(`R3`) -/
def ShapeR (g : Graph) (w : Nat) (s s' : State) : Prop :=
  ((s.wd w).pc.isTest = false ∧ Tail g w (total g s) s') ∨
  ((s.wd w).pc.isTest = true ∧ total g s' = total g s ∧ qR (s'.wd w).pc = qR (s.wd w).pc + 1) ∨
  ((∃ n ph dir uid tag wait, (s.wd w).pc = .test n ph dir uid tag wait ∧ ph ≠ .pre) ∧ Tail g w (total g s) s') ∨
  ((∃ n dir uid tag wait, (s.wd w).pc = .test n .pre dir uid tag wait) ∧
    ((total g s' = total g s + 1 ∧ qR (s'.wd w).pc = 0) ∨ Tail g w (total g s + 1) s'))

theorem root_of_pre {g : Graph} {n : Nat} {ph : Phase} (h : (g.node n).objectRoot = false ↔ ph = .plain) (hp : ph = .pre) :
    (g.node n).objectRoot = true := by
  cases hc : (g.node n).objectRoot
  · have := h.mp hc; rw [hp] at this; cases this
  · rfl

theorem stepR (g : Graph) (hwf : GraphWF g) (s : State) (b : Basic g s All) (w : Nat) (r : RN g s) (r3 : R3 w s)
    (hw : w < g.workers.length) (out : Outcome) (fuel : Nat) (hf : 0 < fuel) :
    RN g (resume g s w out fuel).1 ∧ R3 w (resume g s w out fuel).1 ∧ ShapeR g w s (resume g s w out fuel).1 := by
  have hws : w < s.workers.length := by rw [b.workersLen]; exact hw
  rcases resume_eff g hwf s w out fuel hf hws (b.paths w) with ⟨hnt, h⟩ | ⟨n, ph, dir, uid, tag, wait, hpc, sa, hrep, h⟩
  · obtain ⟨x1, x2, x3⟩ := tail_R r b.nodesLen hws h
    exact ⟨x1, x2, Or.inl ⟨hnt, x3⟩⟩
  · have hok := b.pcOK w n ph dir uid tag wait trivial hpc
    have hsb : SameBook s sa := by
      rcases hrep with ⟨h, _⟩ | ⟨_, _, _, h, _⟩
      · rw [h]; exact ⟨rfl, rfl, rfl⟩
      · exact h
    have ba : Basic g sa All := b.sameBook hsb
    have ra : RN g sa := r.sameBook hsb
    have r3a : R3 w sa := r3.sameBook hsb
    have hpca : (sa.wd w).pc = .test n ph dir uid tag wait := by rw [hsb.wd]; exact hpc
    have hta : total g sa = total g s := total_congr (fun m => by rw [hsb.nd])
    have hwa : w < sa.workers.length := by rw [ba.workersLen]; exact hw
    generalize hs' : (resume g s w out fuel).1 = s' at h ⊢
    rcases h with ⟨e, _, sb, res, ok, hsab, _, ⟨hres, _⟩, hc⟩ | ⟨_, h | hc⟩
    · -- the result has arrived
      have bb : Basic g sb All := ba.sameBook hsab
      have rb : RN g sb := ra.sameBook hsab
      have r3b : R3 w sb := r3a.sameBook hsab
      have hpcb : (sb.wd w).pc = .test n ph dir uid tag wait := by rw [hsab.wd]; exact hpca
      have htb : total g sb = total g s := (total_congr (fun m => by rw [hsab.nd])).trans hta
      have hwb : w < sb.workers.length := by rw [bb.workersLen]; exact hw
      by_cases hph : ph = .pre
      · subst hph
        simp only [if_true] at hc
        have hroot := root_of_pre hok.2.2.2.1 rfl
        obtain ⟨p1, p2⟩ := r3b n dir uid tag wait hpcb
        -- the state after settling on the copy
        have hcn : ∀ m, (I2N.Trav.settlePre sb w res tag).nd m = sb.nd m := fun m => rfl
        have hct : (I2N.Trav.settlePre sb w res tag).nextTag = sb.nextTag := rfl
        have hcl : (I2N.Trav.settlePre sb w res tag).nodes.length = g.nodes.length := bb.nodesLen
        have hcw : w < (I2N.Trav.settlePre sb w res tag).workers.length := by
          unfold I2N.Trav.settlePre; rw [workers_length_setWd]; exact hwb
        have hcp : ((I2N.Trav.settlePre sb w res tag).wd w).preResults = (sb.nd n).results ++ [res] := by
          unfold I2N.Trav.settlePre
          rw [wd_setWd_eq sb w _ hwb]
          show ((sb.wd w).preResults ++ [res]).filter _ = _
          rw [p1]
          exact filter_settle_pre _ _ tag res p2 hres hok.2.1
        have rc : RN g (I2N.Trav.settlePre sb w res tag) := rb.of_eq (fun m => rfl) (Nat.le_refl _)
        have htc : total g (I2N.Trav.settlePre sb w res tag) = total g s := (total_congr (fun m => rfl)).trans htb
        generalize I2N.Trav.settlePre sb w res tag = sc at hc hcn hct hcl hcw hcp rc htc
        rcases hc with ⟨_, _, e'⟩ | ⟨_, hrest⟩
        · -- the test proper follows
          obtain ⟨x1, x2, x3, x4⟩ := startNonPre_R rc n w .main dir (by decide) hok.1 hcl hcw
          rw [← e'] at x1 x2 x3 x4
          refine ⟨x1, x2, Or.inr (Or.inr (Or.inr ⟨⟨n, dir, uid, tag, wait, hpc⟩, Or.inl ⟨by rw [x3, htc], x4⟩⟩))⟩
        · simp only [if_true] at hrest
          obtain ⟨y1, y2⟩ := appendPre_R rc n w res hok.1 hcl (by rw [hcp, hcn])
            (fun t h1 hx => by rw [isPh_res_false res t hres h1] at hx; cases hx)
            (by rw [hres, hct]; exact bb.tagPos)
          obtain ⟨x1, x2, x3⟩ := tail_R y1 (by unfold appendPre; rw [nodes_length_setNd]; exact hcl)
            (by unfold appendPre; exact hcw) hrest
          rw [y2, htc] at x3
          exact ⟨x1, x2, Or.inr (Or.inr (Or.inr ⟨⟨n, dir, uid, tag, wait, hpc⟩, Or.inr x3⟩))⟩
      · have hif : (if ph = .pre then I2N.Trav.settlePre sb w res tag else settleNd sb n res tag) = settleNd sb n res tag := by
          rw [if_neg hph]
        rw [hif] at hc
        have rc : RN g (settleNd sb n res tag) := rb.settle n res tag hres bb.tagPos
        have htc : total g (settleNd sb n res tag) = total g s := (total_settleR bb rb hpcb hph res hres).trans htb
        rcases hc with ⟨hp, _⟩ | ⟨_, hrest⟩
        · exact absurd hp hph
        · rw [if_neg hph] at hrest
          obtain ⟨x1, x2, x3⟩ := tail_R rc (by unfold settleNd; rw [nodes_length_setNd]; exact bb.nodesLen)
            (by unfold settleNd; exact hwb) hrest
          rw [htc] at x3
          exact ⟨x1, x2, Or.inr (Or.inr (Or.inl ⟨⟨n, ph, dir, uid, tag, wait, hpc, hph⟩, x3⟩))⟩
    · -- a tick of the result wait
      have hwd := wd_setWd_eq sa w (fun d => { d with pc := .test n ph dir uid tag (wait + 1) }) hwa
      refine ⟨?_, ?_, Or.inr (Or.inl ⟨by rw [hpc]; rfl, ?_, ?_⟩)⟩
      · rw [h]; exact ra.of_eq (fun m => rfl) (Nat.le_refl _)
      · rw [h]
        intro n' dir' uid' tag' wait' e
        rw [hwd] at e ⊢
        cases e
        exact r3a n dir uid tag wait hpca
      · rw [h]; exact (total_congr (fun m => rfl)).trans hta
      · rw [h, hwd, hpc]
        cases ph <;> simp only [qR] <;> omega
    · -- the result never arrived
      by_cases hph : ph = .pre
      · subst hph
        have hroot := root_of_pre hok.2.2.2.1 rfl
        obtain ⟨p1, p2⟩ := r3a n dir uid tag wait hpca
        rcases hc with ⟨_, hf', _⟩ | ⟨_, hrest⟩
        · cases hf'
        · simp only [if_true] at hrest
          obtain ⟨y1, y2⟩ := appendPre_R ra n w (phOf (sa.wd w).preName tag) hok.1 ba.nodesLen p1
            (fun t h1 hx => by
              rw [isPh_phOf] at hx
              have : t = tag := (by simpa using hx : tag = t).symm
              rw [this]; exact filter_isPh_nil _ _ p2)
            (ba.pcOK w n .pre dir uid tag wait trivial hpca).2.2.1
          obtain ⟨x1, x2, x3⟩ := tail_R y1 (by unfold appendPre; rw [nodes_length_setNd]; exact ba.nodesLen)
            (by unfold appendPre; exact hwa) hrest
          rw [y2, hta] at x3
          exact ⟨x1, x2, Or.inr (Or.inr (Or.inr ⟨⟨n, dir, uid, tag, wait, hpc⟩, Or.inr x3⟩))⟩
      · rcases hc with ⟨hp, _⟩ | ⟨_, hrest⟩
        · exact absurd hp hph
        · rw [if_neg hph] at hrest
          obtain ⟨x1, x2, x3⟩ := tail_R ra ba.nodesLen hwa hrest
          rw [hta] at x3
          exact ⟨x1, x2, Or.inr (Or.inr (Or.inl ⟨⟨n, ph, dir, uid, tag, wait, hpc, hph⟩, x3⟩))⟩

/-! ## runs of the only worker on a graph with object roots -/

/-- the invariant: the root clauses, and the creation copy of the only worker -/
structure RInv (g : Graph) (s : State) : Prop where
  rn : RN g s
  r3 : R3 0 s

theorem rinv_init (g : Graph) (ncls : Nat) (store : List (String × List (String × String))) :
    RInv g (initState g ncls store []) := by
  have hnd : ∀ m, ((initState g ncls store []).nd m).results = [] := by
    intro m
    unfold initState State.nd
    simp only [List.getD_eq_getElem?_getD, List.getElem?_map]
    cases g.nodes[m]? <;> rfl
  refine ⟨⟨fun m _ r hr => (by rw [hnd] at hr; cases hr), fun m t _ _ => (by rw [hnd]; simp)⟩, ?_⟩
  intro n dir uid tag wait e
  rw [init_pc] at e; cases e

/-- the step counter -/
def cntR (g : Graph) (s : State) : Nat := 24 * total g s + qR (s.wd 0).pc

theorem qR_test_le {pc : Pc} (h : ∀ n ph dir uid tag wait, pc = .test n ph dir uid tag wait → wait ≤ 10)
    (ht : pc.isTest = true) : qR pc ≤ 22 := by
  cases pc with
  | test n ph dir uid tag wait =>
    have := h n ph dir uid tag wait rfl
    cases ph <;> simp only [qR] <;> omega
  | _ => cases ht

theorem qR_loop {pc : Pc} (h1 : pc.isTest = false) (h2 : isOver pc = false) : qR pc = 11 := by
  cases pc <;> first | rfl | (cases h1; done) | cases h2

/-- **every step that does not end the traversal raises the counter** (object roots allowed) -/
theorem resume_cntR (g : Graph) (hwf : GraphWF g) (s : State) (b : Basic g s All) (ri : RInv g s)
    (hw0 : 0 < g.workers.length) (out : Outcome) (fuel : Nat) (hf : 0 < fuel)
    (hwait : ∀ n ph dir uid tag wait, (s.wd 0).pc = .test n ph dir uid tag wait → wait ≤ 10)
    (hT : ((resume g s 0 out fuel).1.wd 0).pc.isTest = true) :
    RInv g (resume g s 0 out fuel).1 ∧ cntR g s < cntR g (resume g s 0 out fuel).1 := by
  obtain ⟨x1, x2, x3⟩ := stepR g hwf s b 0 ri.rn ri.r3 hw0 out fuel hf
  refine ⟨⟨x1, x2⟩, ?_⟩
  by_cases hov : isOver (s.wd 0).pc = true
  · exfalso
    rw [resume_overN g s 0 out fuel hov] at hT
    cases hpc : (s.wd 0).pc <;> rw [hpc] at hov hT <;> first | (cases hov; done) | cases hT
  · have hov' : isOver (s.wd 0).pc = false := by simpa using hov
    unfold cntR
    generalize (resume g s 0 out fuel).1 = s' at hT x3 ⊢
    rcases x3 with ⟨hnt, ht⟩ | ⟨hit, h1, h2⟩ | ⟨⟨n, ph, dir, uid, tag, wait, hpc, hph⟩, ht⟩ | ⟨⟨n, dir, uid, tag, wait, hpc⟩, ht⟩
    · have ha := qR_loop hnt hov'
      rcases ht with ⟨_, h2⟩ | ⟨h1, h2⟩ | ⟨h1, h2⟩
      · rw [hT] at h2; cases h2
      · omega
      · omega
    · omega
    · have ha : qR (s.wd 0).pc ≤ 10 := by
        have := hwait n ph dir uid tag wait hpc
        rw [hpc]
        cases ph
        · exact this
        · exact absurd rfl hph
        · exact this
      rcases ht with ⟨_, h2⟩ | ⟨h1, h2⟩ | ⟨h1, h2⟩
      · rw [hT] at h2; cases h2
      · omega
      · omega
    · have ha : qR (s.wd 0).pc ≤ 22 := qR_test_le hwait (by rw [hpc]; rfl)
      rcases ht with ⟨h1, h2⟩ | ⟨_, h2⟩ | ⟨h1, h2⟩ | ⟨h1, h2⟩
      · omega
      · rw [hT] at h2; cases h2
      · omega
      · omega

structure GInvR (g : Graph) (ncls : Nat) (store : List (String × List (String × String))) (s : State) : Prop where
  ginv : GInv g ncls store s
  rinv : RInv g s

/-- along every run of the only worker that is not over: the counter has grown by at least the number of steps -/
theorem run_cntR {g : Graph} {ncls : Nat} (st : Static g ncls) {store : List (String × List (String × String))}
    (steps : List (Outcome × Nat)) (s : State) (h : GInvR g ncls store s) (hfuel : ∀ x ∈ steps, Term.bound g ≤ x.2)
    (hno : isOver ((runSteps g s steps).wd 0).pc = false) :
    GInvR g ncls store (runSteps g s steps) ∧ cntR g s + steps.length ≤ cntR g (runSteps g s steps) := by
  induction steps generalizing s with
  | nil => exact ⟨h, Nat.le_refl _⟩
  | cons a r ih =>
    have hfa := hfuel a List.mem_cons_self
    obtain ⟨x1, x2⟩ := ginv_step st h.ginv a.1 a.2 hfa
    have hrun : runSteps g s (a :: r) = runSteps g (resume g s 0 a.1 a.2).1 r := rfl
    rw [hrun] at hno ⊢
    by_cases hov : isOver ((resume g s 0 a.1 a.2).1.wd 0).pc = true
    · rw [runSteps_over g r _ hov] at hno
      rw [hov] at hno; cases hno
    · have hT := isTest_of_final x2 (by simpa using hov)
      have hw : 0 < g.workers.length := by rw [st.one]; exact Nat.one_pos
      obtain ⟨c0, c1⟩ := resume_cntR g (GraphWF.of_bool st.wf) s (h.ginv.reachP.reachableR.basic st.wf) h.rinv hw a.1 a.2
        (Nat.lt_of_lt_of_le (bound_pos g) hfa) h.ginv.wait hT
      obtain ⟨y1, c2⟩ := ih _ ⟨x1, c0⟩ (fun x hx => hfuel x (List.mem_cons_of_mem _ hx)) hno
      refine ⟨y1, ?_⟩
      simp only [List.length_cons]
      omega

/-- every node lies in a class covered by a budget theorem of C03, object roots included: stateless class without roots and
uniform `max_tries`; setup class without roots (`statefulClass`); or setup class that may contain object roots, with
`max_tries ≤ 1` (`statefulClassRoots`); for setup classes `max_concurrent_tries` is unset or within `max(max_tries, 1)` -/
def classesOKRB (g : Graph) : Bool :=
  (List.range g.nodes.length).all (fun n =>
    statelessClass g (g.node n).cls (g.node n).maxTries ||
    ((statefulClass g (g.node n).cls (g.node n).maxTries (g.node n).shape ||
        statefulClassRoots g (g.node n).cls (g.node n).maxTries (g.node n).shape) &&
      mctWithin g (g.node n).cls (g.node n).maxTries))

theorem total_le_resultBoundR {g : Graph} (hwf : graphWF g = true) (hcl : classesOKRB g = true) {ncls : Nat}
    {store : List (String × List (String × String))} {s : State} (hR : ReachableR g ncls store s) (hnb : NoBump s) :
    total g s ≤ resultBound g := by
  refine sum_map_le _ _ _ (fun n hn => ?_)
  have hn' : n < g.nodes.length := List.mem_range.mp hn
  unfold classesOKRB at hcl
  rw [List.all_eq_true] at hcl
  have hc := hcl n hn
  rw [Bool.or_eq_true, Bool.and_eq_true, Bool.or_eq_true] at hc
  have stateful : ∀ {M : Option Int} {sh : Shape}, M = (g.node n).maxTries → BClass g (g.node n).cls M sh →
      mctWithin g (g.node n).cls M = true →
      (s.nd n).results.length ≤ (max (M.getD 1) 1).toNat := by
    intro M sh _ hC hm
    have b := hR.binv hwf hC
    by_cases hne : (s.nd n).results = []
    · rw [hne]; exact Nat.zero_le _
    · obtain ⟨u, hu, h1⟩ := len_le_scopedLen hC b n hn' rfl hne
      have h2 := b.budget u hu [] List.nodup_nil (fun v hv => by cases hv)
      have h3 := classLimit_le_of_mctWithin hC hm s hnb
      simp only [List.length_nil, Nat.add_zero] at h2
      omega
  rcases hc with hc | ⟨hc | hc, hm⟩
  · have hle : (s.nd n).results.length ≤ classLen g s (g.node n).cls :=
      Term.le_sum_of_mem (g.classNodes (g.node n).cls) (fun j => (s.nd j).results.length) n
        ((mem_classNodes g _ n).mpr ⟨hn', rfl⟩)
    have := hR.budget hwf (g.node n).cls (g.node n).maxTries hc
    omega
  · exact stateful rfl (statefulClass_spec hc) hm
  · exact stateful rfl (statefulClassRoots_spec hc).1 hm

/-- **termination across suspensions for one worker, object roots allowed**: after any `24·resultBound g + 23` steps the
worker is done or dead -/
theorem run_overR {g : Graph} {ncls : Nat} (st : Static g ncls) (hcl : classesOKRB g = true)
    (store : List (String × List (String × String)))
    (steps : List (Outcome × Nat)) (hfuel : ∀ x ∈ steps, Term.bound g ≤ x.2)
    (hlen : 24 * resultBound g + 23 ≤ steps.length) :
    isOver ((runSteps g (initState g ncls store []) steps).wd 0).pc = true := by
  cases hov : isOver ((runSteps g (initState g ncls store []) steps).wd 0).pc with
  | true => rfl
  | false =>
    exfalso
    obtain ⟨y, c⟩ := run_cntR st steps _ ⟨ginv_init st store, rinv_init g ncls store⟩ hfuel hov
    have h1 := total_le_resultBoundR st.wf hcl y.ginv.reachP.reachableR y.ginv.reachP.noBump
    have h2 : qR ((runSteps g (initState g ncls store []) steps).wd 0).pc ≤ 22 := by
      cases hpc : ((runSteps g (initState g ncls store []) steps).wd 0).pc with
      | test n ph dir uid tag wait =>
        exact qR_test_le (fun n' ph' dir' uid' tag' wait' e => y.ginv.wait n' ph' dir' uid' tag' wait' (hpc.trans e)) rfl
      | loop => simp [qR]
      | bounce => simp [qR]
      | done => rw [hpc] at hov; cases hov
      | failed => rw [hpc] at hov; cases hov
    unfold cntR at c
    omega

end I2N.Trav.GlobalR

