import I2N.Model.Policy
/-!
# The monad and the atoms of the translator tie for `_parametric_object_iteration` (C12)

`harness/pygen_pxiter.py` regenerates `I2N/Extracted/GenIter.lean` from the current source of the recursive
generator `_parametric_object_iteration(params, composites=None)` of `avocado_i2n/states/setup.py`: ONE level of
the generator, statement by statement, as a `do` block of the monad `G` below, in which

* the list `composites` that all levels of the recursion SHARE (`append`, `composites[-1] = …`, `pop`) is the
  state `GS.comps` (so a level that forgets to `pop` leaves its entry to its caller),
* `yield e` appends `e` to `GS.out`, `yield from <recursive call>` runs the function argument `self`,
* an exception keeps the state reached so far (what was yielded before it has been consumed by the caller).

This file is the meaning of the atoms only; the logic (which type is read, the order `components first, then
the composite`, the test that stops the descent, the keys written) is in the generated file.
-/
namespace I2N.PolicyIterM
open I2N.Policy

/-- what the generator itself can raise -/
inductive IterErr
  | valueError      -- the explicit `raise ValueError`
  | indexError      -- `l[i]`, `l[-1]`, `l[-1] = x`, `l.pop()` out of range
  | typeError       -- `c[0]` of the placeholder `None`
  | recursionError  -- Python's recursion limit (`iterFuel 0`)
deriving DecidableEq, Repr

/-- the shared list (entries are `None` between `append(None)` and the first `composites[-1] = …`) and what
has been yielded so far -/
structure GS where
  comps : List (Option (String × String))
  out : List Params

def G (α : Type) : Type := GS → Except IterErr α × GS

def G.bindF {α β : Type} (r : Except IterErr α × GS) (f : α → G β) : Except IterErr β × GS :=
  match r with
  | (.ok a, s') => f a s'
  | (.error e, s') => (.error e, s')

instance : Monad G where
  pure a := fun s => (.ok a, s)
  bind x f := fun s => G.bindF (x s) f

@[simp] theorem G.bindF_ok {α β : Type} (a : α) (s : GS) (f : α → G β) : G.bindF (.ok a, s) f = f a s := rfl
@[simp] theorem G.bindF_error {α β : Type} (e : IterErr) (s : GS) (f : α → G β) :
    G.bindF (.error e, s) f = (.error e, s) := rfl
theorem G.pure_ap {α : Type} (a : α) (s : GS) : (pure a : G α) s = (.ok a, s) := rfl
theorem G.bind_ap {α β : Type} (x : G α) (f : α → G β) (s : GS) : (x >>= f) s = G.bindF (x s) f := rfl
theorem G.ite_ap {α : Type} (c : Prop) [Decidable c] (x y : G α) (s : GS) :
    (if c then x else y) s = if c then x s else y s := by split <;> rfl

/-- `raise Cls(…)` -/
def throwG {α : Type} (e : IterErr) : G α := fun s => (.error e, s)
/-- `len(composites)` -/
def lenC : G Nat := fun s => (.ok s.comps.length, s)
/-- `composites = []` (the name is bound to a NEW list: only legal when nobody else holds the old value, i.e.
behind `if composites is None`) -/
def resetC : G Unit := fun s => (.ok (), { s with comps := [] })
/-- `composites.append(x)` -/
def appendC (x : Option (String × String)) : G Unit := fun s => (.ok (), { s with comps := s.comps ++ [x] })
/-- `composites[-1] = x` -/
def setLastC (x : Option (String × String)) : G Unit := fun s =>
  if s.comps.isEmpty then (.error .indexError, s) else (.ok (), { s with comps := s.comps.dropLast ++ [x] })
/-- `composites.pop()` -/
def popC : G Unit := fun s =>
  if s.comps.isEmpty then (.error .indexError, s) else (.ok (), { s with comps := s.comps.dropLast })
/-- `l[i]` on a list of strings -/
def indexG (l : List String) (i : Nat) : G String := fun s =>
  match l[i]? with
  | some x => (.ok x, s)
  | none => (.error .indexError, s)
/-- `l[-1]` on a list of strings -/
def lastG (l : List String) : G String := fun s =>
  match l.getLast? with
  | some x => (.ok x, s)
  | none => (.error .indexError, s)
/-- `[c[i] for c in l]`: `none` when an entry is `None` -/
def projAll (proj : String × String → String) : List (Option (String × String)) → Option (List String)
  | [] => some []
  | none :: _ => none
  | some c :: rest => (projAll proj rest).map (proj c :: ·)

/-- `[c[i] for c in composites]` (`proj` = the tuple component) -/
def projC (proj : String × String → String) : G (List String) := fun s =>
  match projAll proj s.comps with
  | some l => (.ok l, s)
  | none => (.error .typeError, s)
/-- `yield x` -/
def yieldG (x : Params) : G Unit := fun s => (.ok (), { s with out := s.out ++ [x] })

/-- `for x in l: body` (no `break`, no `continue`, no `else`) -/
def gFor : List String → (String → G Unit) → G Unit
  | [], _ => pure ()
  | x :: xs, body => fun s => G.bindF (body x s) (fun _ => gFor xs body)

theorem gFor_nil (body : String → G Unit) (s : GS) : gFor [] body s = (.ok (), s) := rfl
theorem gFor_cons (x : String) (xs : List String) (body : String → G Unit) (s : GS) :
    gFor (x :: xs) body s = G.bindF (body x s) (fun _ => gFor xs body) := rfl

end I2N.PolicyIterM
