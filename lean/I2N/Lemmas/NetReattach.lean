import I2N.Lemmas.NetBuild
/-! Helper lemmas for C18: `reattach_interface` (without proxy nic) and direct allocation keep the invariant. -/
namespace I2N.Net

/-- the state between "detach from the current network / take an address" and `add_interface`,
    described by its fields -/
theorem detach_pinvEx (s t : Net) (c on a : Nat) (hs : PInv s) (hc : c < s.nIf)
    (hon : (s.iface c).nc = some on)
    (hnIf : t.nIf = s.nIf) (hreg : t.reg = s.reg) (hnNc : t.nNc = s.nNc)
    (hnet : ∀ m, (t.nc m).netIp = (s.nc m).netIp ∧ (t.nc m).netmask = (s.nc m).netmask)
    (hifs : ∀ m, (t.nc m).ifs = if m = on then adel (s.iface c).ip (s.nc m).ifs else (s.nc m).ifs)
    (hif : ∀ j, t.iface j = if j = c then { s.iface j with ip := a } else s.iface j)
    (hfresh : ∀ j, j < s.nIf → (s.iface j).ip ≠ a) : PInvEx t c := by
  have hregd : ∀ m, Registered t m ↔ Registered s m := by intro m; unfold Registered; rw [hreg]
  have hold : ∀ m k j, (k, j) ∈ (t.nc m).ifs → (k, j) ∈ (s.nc m).ifs ∧ (m = on → k ≠ (s.iface c).ip) := by
    intro m k j hm
    rw [hifs m] at hm
    split at hm
    · have := (mem_adel _ _ _).1 hm
      exact ⟨this.2, fun _ => this.1⟩
    · rename_i hne; exact ⟨hm, fun h => absurd h hne⟩
  have hmem : ∀ m, Registered s m → ∀ k j, (k, j) ∈ (t.nc m).ifs →
      j < s.nIf ∧ j ≠ c ∧ (s.iface j).nc = some m ∧ (s.iface j).ip = k := by
    intro m hm k j hj
    obtain ⟨h1, h2⟩ := hold m k j hj
    obtain ⟨a1, _, a3, a4⟩ := hs.member m hm k j h1
    refine ⟨a1, ?_, a3, a4⟩
    rintro rfl
    rw [hon] at a3
    simp only [Option.some.injEq] at a3
    exact h2 a3.symm a4.symm
  refine ⟨?_, ?_, ?_, ?_, ?_, ?_⟩
  · intro k n hm
    rw [hreg] at hm
    have := hs.regKey k n hm
    exact ⟨by rw [hnNc]; exact this.1, by rw [(hnet n).1]; exact this.2⟩
  · rw [hreg]; exact hs.regNodup
  · intro m
    rw [hifs m]
    split
    · exact adel_keys_nodup _ _ (hs.ifsNodup m)
    · exact hs.ifsNodup m
  · intro m hm k j hj
    obtain ⟨a1, a2, a3, a4⟩ := hmem m ((hregd m).1 hm) k j hj
    rw [hnIf, hif j, if_neg a2]
    exact ⟨a1, a2, a3, a4⟩
  · intro j m hj hjc hjm
    rw [hnIf] at hj
    rw [hif j, if_neg hjc] at hjm ⊢
    obtain ⟨b1, b2, b3⟩ := hs.placed j m hj (by omega) hjm
    refine ⟨(hregd m).2 b1, ?_, ?_⟩
    · rw [hifs m]
      split
      · apply (mem_adel _ _ _).2
        refine ⟨?_, b2⟩
        intro heq
        exact hjc (hs.distinct j c hj hc heq)
      · exact b2
    · rw [inNet_congr _ _ _ (hnet m).1 (hnet m).2]; exact b3
  · intro i j hi hj hij
    rw [hnIf] at hi hj
    rw [hif i, hif j] at hij
    by_cases hic : i = c <;> by_cases hjc : j = c
    · rw [hic, hjc]
    · rw [if_pos hic, if_neg hjc] at hij
      exact absurd hij.symm (hfresh j hj)
    · rw [if_neg hic, if_pos hjc] at hij
      exact absurd hij (hfresh i hi)
    · rw [if_neg hic, if_neg hjc] at hij
      exact hs.distinct i j hi hj hij

/-- the steps of `reattach_interface` without proxy nic -/
theorem reattach_none_cases (s s' : Net) (c r : Nat) (h : reattach s c r none = .ok s') :
    ∃ tn on a k', (s.iface r).nc = some tn ∧ (s.iface c).nc = some on ∧
      allocate ((s.setNc on (fun k => { k with ifs := adel (s.iface c).ip k.ifs })).nc tn) = .ok (a, k') ∧
      addInterface (((s.setNc on (fun k => { k with ifs := adel (s.iface c).ip k.ifs })).setNc tn (fun _ => k')).setIface c
        (fun f => { f with ip := a })) tn c = .ok s' := by
  unfold reattach at h
  simp only [reduceCtorEq, if_false] at h
  split at h
  · rename_i tn on htn hon
    split at h
    · cases h
    · split at h
      · cases h
      · rename_i a k' hal
        split at h
        · cases h
        · rename_i s3 hadd
          simp only [Except.ok.injEq] at h
          subst h
          exact ⟨tn, on, a, k', htn, hon, hal, hadd⟩
  · cases h

/-- the address the next `get_allocatable_address` of the reference interface's netconfig returns is not
    in use by any interface -/
def FreshAt (s : Net) (r : Nat) : Prop :=
  ∀ tn o l, (s.iface r).nc = some tn → freeOffsets (s.nc tn).range = o :: l →
    ∀ j, j < s.nIf → (s.iface j).ip ≠ (s.nc tn).netIp + o

theorem reattach_none_pinv (s s' : Net) (c r : Nat) (hs : PInv s) (hc : c < s.nIf) (hr : r < s.nIf)
    (hfresh : FreshAt s r) (h : reattach s c r none = .ok s') :
    PInv s' ∧ s'.nIf = s.nIf ∧ (∀ j, ((s.iface j).nc).isSome = true → ((s'.iface j).nc).isSome = true) := by
  obtain ⟨tn, on, a, k', htn, hon, hal, hadd⟩ := reattach_none_cases s s' c r h
  obtain ⟨o, l, hfree, ha, _, hk1, hk2, hk3, _, _⟩ := allocate_inv _ _ _ hal
  have hs1nc : ∀ m, (s.setNc on (fun k => { k with ifs := adel (s.iface c).ip k.ifs })).nc m =
      if m = on then { s.nc m with ifs := adel (s.iface c).ip (s.nc m).ifs } else s.nc m := fun m => rfl
  have hrange : ((s.setNc on (fun k => { k with ifs := adel (s.iface c).ip k.ifs })).nc tn).range = (s.nc tn).range := by
    rw [hs1nc]; split <;> rfl
  have hnetip : ((s.setNc on (fun k => { k with ifs := adel (s.iface c).ip k.ifs })).nc tn).netIp = (s.nc tn).netIp := by
    rw [hs1nc]; split <;> rfl
  have hnm : ((s.setNc on (fun k => { k with ifs := adel (s.iface c).ip k.ifs })).nc tn).netmask = (s.nc tn).netmask := by
    rw [hs1nc]; split <;> rfl
  rw [hrange] at hfree
  rw [hnetip] at ha hk1
  rw [hnm] at hk2
  have hf : ∀ j, j < s.nIf → (s.iface j).ip ≠ a := by
    intro j hj; rw [ha]; exact hfresh tn o l htn hfree j hj
  have hreg : Registered s tn := (hs.placed r tn hr (by omega) htn).1
  have hex : PInvEx (((s.setNc on (fun k => { k with ifs := adel (s.iface c).ip k.ifs })).setNc tn (fun _ => k')).setIface c
      (fun f => { f with ip := a })) c := by
    refine detach_pinvEx s _ c on a hs hc hon rfl rfl rfl ?_ ?_ (fun j => rfl) hf
    · intro m
      show ((if m = tn then k' else (s.setNc on _).nc m)).netIp = _ ∧ ((if m = tn then k' else (s.setNc on _).nc m)).netmask = _
      split
      · rename_i hm; subst hm; exact ⟨hk1, hk2⟩
      · rw [hs1nc]; split <;> exact ⟨rfl, rfl⟩
    · intro m
      show ((if m = tn then k' else (s.setNc on _).nc m)).ifs = _
      split
      · rename_i hm; subst hm; rw [hk3, hs1nc]; split <;> rfl
      · rw [hs1nc]; split <;> rfl
  have hres := attach_pinv _ s' tn c hex hc hreg hadd
  obtain ⟨rfl, _⟩ := addInterface_ok _ _ _ _ hadd
  refine ⟨hres, rfl, ?_⟩
  intro j hj
  rw [attachState_iface]
  split
  · rfl
  · show ((if j = c then _ else s.iface j).nc).isSome = true
    split
    · rename_i hjc; subst hjc; exact hj
    · exact hj

/-- a direct `get_allocatable_address()` changes the range map only -/
theorem allocAt_pinv (s s' : Net) (n a : Nat) (hs : PInv s) (h : allocAt s n = .ok (a, s')) :
    PInv s' ∧ s'.nIf = s.nIf ∧ s'.iface = s.iface := by
  unfold allocAt at h
  split at h
  · cases h
  · rename_i a' k hal
    simp only [Except.ok.injEq, Prod.mk.injEq] at h
    obtain ⟨rfl, rfl⟩ := h
    obtain ⟨o, l, _, _, _, hk1, hk2, hk3, _, _⟩ := allocate_inv _ _ _ hal
    have hnc : ∀ m, (s.setNc n (fun _ => k)).nc m = if m = n then k else s.nc m := fun m => rfl
    have hnet : ∀ m, ((s.setNc n (fun _ => k)).nc m).netIp = (s.nc m).netIp ∧
        ((s.setNc n (fun _ => k)).nc m).netmask = (s.nc m).netmask ∧ ((s.setNc n (fun _ => k)).nc m).ifs = (s.nc m).ifs := by
      intro m; rw [hnc]; split
      · rename_i hm; subst hm; exact ⟨hk1, hk2, hk3⟩
      · exact ⟨rfl, rfl, rfl⟩
    refine ⟨⟨?_, hs.regNodup, ?_, ?_, ?_, hs.distinct⟩, rfl, rfl⟩
    · intro k0 m hm
      have := hs.regKey k0 m hm
      exact ⟨this.1, by rw [(hnet m).1]; exact this.2⟩
    · intro m; rw [(hnet m).2.2]; exact hs.ifsNodup m
    · intro m hm k0 j hj
      rw [(hnet m).2.2] at hj
      exact hs.member m hm k0 j hj
    · intro j m hj hjx hjm
      obtain ⟨b1, b2, b3⟩ := hs.placed j m hj hjx hjm
      refine ⟨b1, by rw [(hnet m).2.2]; exact b2, ?_⟩
      rw [inNet_congr _ _ _ (hnet m).1 (hnet m).2.1]; exact b3

end I2N.Net

namespace I2N.Net

/-- after "detach" no registered netconfig lists the client interface any more -/
theorem detach_unlisted (s t : Net) (c on : Nat) (hs : PInv s) (hon : (s.iface c).nc = some on)
    (hifs : ∀ m, (t.nc m).ifs = if m = on then adel (s.iface c).ip (s.nc m).ifs else (s.nc m).ifs) :
    ∀ m, Registered s m → ∀ k, (k, c) ∉ (t.nc m).ifs := by
  intro m hm k hj
  rw [hifs m] at hj
  have hold : (k, c) ∈ (s.nc m).ifs ∧ (m = on → k ≠ (s.iface c).ip) := by
    split at hj
    · have := (mem_adel _ _ _).1 hj
      exact ⟨this.2, fun _ => this.1⟩
    · rename_i hne; exact ⟨hj, fun h => absurd h hne⟩
  obtain ⟨_, _, a3, a4⟩ := hs.member m hm k c hold.1
  rw [hon] at a3
  simp only [Option.some.injEq] at a3
  exact hold.2 a3.symm a4.symm

/-- state after "detach from the current network" and taking address `a` (netconfig `tn` becomes `k'`) -/
def detachState (s : Net) (c on tn a : Nat) (k' : Netconfig) : Net :=
  ((s.setNc on (fun k => { k with ifs := adel (s.iface c).ip k.ifs })).setNc tn (fun _ => k')).setIface c
    (fun f => { f with ip := a })

/-- proxy variant: `del netconfig.interfaces[interface.ip]; ref_interface.ip = proxy_interface.ip` -/
def proxyMid (s3 : Net) (r pi tn a : Nat) : Net :=
  (s3.setNc tn (fun k => { k with ifs := adel a k.ifs })).setIface r
    (fun f => { f with ip := ((s3.setNc tn (fun k => { k with ifs := adel a k.ifs })).iface pi).ip })

/-- proxy variant: the client gets an address of the proxy interface's netconfig and its reference -/
def proxyFinal (s5 : Net) (c pn a2 : Nat) (k2 : Netconfig) : Net :=
  (s5.setNc pn (fun _ => k2)).setIface c (fun f => { f with ip := a2, nc := some pn })

/-- the steps of `reattach_interface` with an effective proxy nic -/
theorem reattach_proxy_cases (s s' : Net) (c r pi : Nat) (hpi : pi ≠ r) (h : reattach s c r (some pi) = .ok s') :
    ∃ tn on a k' pn a2 k2, (s.iface r).nc = some tn ∧ (s.iface c).nc = some on ∧
      allocate ((s.setNc on (fun k => { k with ifs := adel (s.iface c).ip k.ifs })).nc tn) = .ok (a, k') ∧
      allocate ((proxyMid (attachState (detachState s c on tn a k') tn c) r pi tn a).nc pn) = .ok (a2, k2) ∧
      s' = proxyFinal (proxyMid (attachState (detachState s c on tn a k') tn c) r pi tn a) c pn a2 k2 := by
  unfold reattach at h
  simp only [Option.some.injEq, hpi, if_false] at h
  split at h
  · rename_i tn on htn hon
    split at h
    · cases h
    · split at h
      · cases h
      · rename_i a k' hal
        split at h
        · cases h
        · rename_i s3 hadd
          obtain ⟨rfl, _⟩ := addInterface_ok _ _ _ _ hadd
          split at h
          · cases h
          · rename_i pn hpn
            split at h
            · cases h
            · rename_i a2 k2 hal2
              simp only [Except.ok.injEq] at h
              exact ⟨tn, on, a, k', pn, a2, k2, htn, hon, hal, hal2, h.symm⟩
  · cases h

theorem detachState_ifs (s : Net) (c on tn a : Nat) (k' : Netconfig)
    (hk : k'.ifs = ((s.setNc on (fun k => { k with ifs := adel (s.iface c).ip k.ifs })).nc tn).ifs) (m : Nat) :
    ((detachState s c on tn a k').nc m).ifs =
      if m = on then adel (s.iface c).ip (s.nc m).ifs else (s.nc m).ifs := by
  have hs1nc : ∀ m, (s.setNc on (fun k => { k with ifs := adel (s.iface c).ip k.ifs })).nc m =
      if m = on then { s.nc m with ifs := adel (s.iface c).ip (s.nc m).ifs } else s.nc m := fun m => rfl
  show ((if m = tn then k' else (s.setNc on _).nc m)).ifs = _
  split
  · rename_i hm; subst hm; rw [hk, hs1nc]; split <;> rfl
  · rw [hs1nc]; split <;> rfl

/-- F8: after `reattach_interface(…, proxy_nic=…)` (proxy nic different from the server nic) the client
    interface is listed by no netconfig although its `netconfig` reference points to one: the registries are
    inconsistent, whatever the network looked like before. -/
theorem reattach_proxy_not_pinv (s s' : Net) (c r pi : Nat) (hs : PInv s) (hc : c < s.nIf) (hpi : pi ≠ r)
    (h : reattach s c r (some pi) = .ok s') : ¬ PInv s' := by
  intro hs'
  obtain ⟨tn, on, a, k', pn, a2, k2, htn, hon, hal, hal2, rfl⟩ := reattach_proxy_cases s s' c r pi hpi h
  obtain ⟨_, _, _, _, _, _, _, hk3, _, _⟩ := allocate_inv _ _ _ hal
  obtain ⟨_, _, _, _, _, _, _, hj3, _, _⟩ := allocate_inv _ _ _ hal2
  -- the client is attached to `pn` …
  have hnc : ((proxyFinal (proxyMid (attachState (detachState s c on tn a k') tn c) r pi tn a) c pn a2 k2).iface c).nc
      = some pn := by simp [proxyFinal, Net.setIface]
  obtain ⟨⟨kreg, hreg⟩, hlisted, _⟩ := hs'.placed c pn hc (Nat.ne_of_lt hc) hnc
  have hregs : Registered s pn := ⟨kreg, hreg⟩
  -- … but `pn` does not list it
  have hun := detach_unlisted s _ c on hs hon (detachState_ifs s c on tn a k' hk3) pn hregs
  have e2 : ((proxyFinal (proxyMid (attachState (detachState s c on tn a k') tn c) r pi tn a) c pn a2 k2).nc pn) = k2 := by
    simp [proxyFinal, Net.setIface, Net.setNc]
  rw [e2, hj3] at hlisted
  have e3 : (proxyMid (attachState (detachState s c on tn a k') tn c) r pi tn a).nc pn =
      if pn = tn then { (attachState (detachState s c on tn a k') tn c).nc pn with
        ifs := adel a ((attachState (detachState s c on tn a k') tn c).nc pn).ifs }
      else (attachState (detachState s c on tn a k') tn c).nc pn := rfl
  rw [e3, attachState_nc] at hlisted
  have hip : ((detachState s c on tn a k').iface c).ip = a := by simp [detachState, Net.setIface]
  by_cases hpt : pn = tn
  · simp only [hpt, if_true] at hlisted
    have h1 := (mem_adel _ _ _).1 hlisted
    rcases (mem_aset _ _ _ _).1 h1.2 with heq | ⟨_, hm⟩
    · apply h1.1
      have := congrArg Prod.fst heq
      simp only at this
      rw [this, hip]
    · rw [hpt] at hun; exact hun _ hm
  · simp only [hpt, if_false] at hlisted
    exact hun _ hlisted

end I2N.Net
