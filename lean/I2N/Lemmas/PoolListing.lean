import I2N.Model.Pool
/-! Lemmas about the directory-listing → state-name map of `QCOW2ImageTransfer.show` (`str.replace(fmt, "")`). -/
namespace I2N.Pool

theorem dropPrefix?_len : ∀ (pat s rest : List Char), dropPrefix? pat s = some rest → s.length = pat.length + rest.length
  | [], s, rest, h => by simp [dropPrefix?] at h; simp [h]
  | _ :: _, [], rest, h => by simp [dropPrefix?] at h
  | a :: as, b :: bs, rest, h => by
    simp only [dropPrefix?] at h
    split at h
    · have := dropPrefix?_len as bs rest h
      simp [this]; omega
    · simp at h

/-- any fuel ≥ the length of the input gives the same result -/
theorem removeAllF_enough (pat : List Char) (hp : pat ≠ []) :
    ∀ (n fuel : Nat) (s : List Char), s.length ≤ n → n ≤ fuel → removeAllF pat fuel s = removeAllF pat n s := by
  intro n
  induction n with
  | zero =>
    intro fuel s hs _
    have : s = [] := List.length_eq_zero_iff.mp (Nat.le_zero.mp hs)
    subst this
    cases fuel <;> simp [removeAllF]
  | succ n ih =>
    intro fuel s hs hf
    obtain ⟨f, rfl⟩ : ∃ f, fuel = f + 1 := ⟨fuel - 1, by omega⟩
    cases s with
    | nil => simp [removeAllF]
    | cons c cs =>
      simp only [removeAllF]
      cases hd : dropPrefix? pat (c :: cs) with
      | none =>
        simp only
        rw [ih f cs (by simpa using hs) (by omega)]
      | some rest =>
        simp only
        have hl := dropPrefix?_len pat (c :: cs) rest hd
        have hpl : 0 < pat.length := List.length_pos_iff.mpr hp
        rw [ih f rest (by simp at hs hl; omega) (by omega)]

/-- characters before the first possible start of the pattern are kept -/
theorem removeAllF_skip (c0 : Char) (pr : List Char) :
    ∀ (s tail : List Char) (m : Nat), c0 ∉ s →
      removeAllF (c0 :: pr) (s.length + m) (s ++ tail) = s ++ removeAllF (c0 :: pr) m tail
  | [], tail, m, _ => by simp
  | c :: cs, tail, m, h => by
    have hc : (c0 == c) = false := by
      simp only [List.mem_cons, not_or] at h
      simpa [beq_eq_false_iff_ne] using h.1
    have hrest : c0 ∉ cs := fun hm => h (List.mem_cons_of_mem _ hm)
    have : (c :: cs).length + m = (cs.length + m) + 1 := by simp; omega
    rw [this]
    simp only [List.cons_append, removeAllF, dropPrefix?, hc, Bool.false_eq_true, if_false]
    rw [removeAllF_skip c0 pr cs tail m hrest]

/-- `entryName` on `s ++ tail` when the first character of the format does not occur in `s` -/
theorem entryName_append (fmt s tail : String) (c0 : Char) (pr : List Char) (hf : fmt.toList = c0 :: pr)
    (hs : c0 ∉ s.toList) :
    entryName fmt (s ++ tail) = String.ofList (s.toList ++ removeAllF fmt.toList tail.length tail.toList) := by
  have hne : fmt.isEmpty = false := by
    cases h : fmt.isEmpty
    · rfl
    · have : fmt = "" := by simpa using h
      subst this; simp at hf
  unfold entryName
  simp only [hne, Bool.false_eq_true, if_false, String.toList_append, String.length_append, hf]
  rw [← String.length_toList (s := s), removeAllF_skip c0 pr s.toList tail.toList _ hs]

end I2N.Pool
