import I2N.Lemmas.Tools
/-!
Termination of the star traversal of the manual steps (C20).

Per worker the measure `mu g s w = 2·|candidates g s w| + [w is idle]` is lowered by every slice of `w` while `w` is
not done, and is not touched by the slices of the other workers.  A slice of a done worker (or of an index that is no
worker of the graph) is a no-op.  Hence, for EVERY schedule, the number of slices that change anything is bounded
(`effSlices_bound`), and a schedule that gives every worker `2·|its nodes|` slices ends with every worker done
(`allDone_of_counts`) — no assumption on names (`NamesWF`) is needed for that.

The only invariant used is `PcCand`: the node a worker awaits is still one of its candidates.
-/
namespace I2N.Tools

/-! ## measure and invariant -/

/-- the measure of one worker: twice the nodes it may still pick, plus one while it is idle (not awaiting a test) -/
def mu (g : Star) (s : SState) (w : Nat) : Nat :=
  2 * (candidates g s w).length + (if (s.pc w).isNone then 1 else 0)

/-- the node a worker is awaiting is one of its candidates (relevant to it, class not yet dropped) -/
def PcCand (g : Star) (s : SState) : Prop := ∀ w n, s.pc w = some n → n ∈ candidates g s w

/-- `f 0 + … + f (n-1)` -/
def sumTo : Nat → (Nat → Nat) → Nat
  | 0, _ => 0
  | n + 1, f => sumTo n f + f n

/-- the measure of the whole traversal -/
def totMu (g : Star) (s : SState) : Nat := sumTo g.workers.length (mu g s)

/-- number of nodes relevant to a worker (its candidates before anything ran) -/
def relCount (g : Star) (w : Nat) : Nat := (candidates g {} w).length

/-- the slices of a schedule that are not spent on a done worker -/
def effSlices (g : Star) : List Nat → SState → Nat
  | [], _ => 0
  | w :: rest, s => (if workerDone g s w then 0 else 1) + effSlices g rest (micro g .star s w)

theorem pcCand_init (g : Star) : PcCand g {} := by
  intro w n h; simp at h

/-! ## `sumTo` -/

theorem sumTo_le {f h : Nat → Nat} : ∀ (n : Nat), (∀ i, i < n → f i ≤ h i) → sumTo n f ≤ sumTo n h
  | 0, _ => Nat.le_refl _
  | n + 1, hle => by
    have := sumTo_le n (fun i hi => hle i (by omega))
    have := hle n (by omega)
    simp only [sumTo]; omega

theorem sumTo_congr {f h : Nat → Nat} : ∀ (n : Nat), (∀ i, i < n → f i = h i) → sumTo n f = sumTo n h
  | 0, _ => rfl
  | n + 1, heq => by
    have := sumTo_congr n (fun i hi => heq i (by omega))
    have := heq n (by omega)
    simp only [sumTo]; omega

theorem sumTo_const (c : Nat) : ∀ (n : Nat), sumTo n (fun _ => c) = n * c
  | 0 => by simp [sumTo]
  | n + 1 => by simp only [sumTo, sumTo_const c n]; rw [Nat.succ_mul]

theorem sumTo_affine (f : Nat → Nat) : ∀ (n : Nat), sumTo n (fun i => 2 * f i + 1) = 2 * sumTo n f + n
  | 0 => by simp [sumTo]
  | n + 1 => by simp only [sumTo, sumTo_affine f n]; omega

/-- one summand strictly smaller, the others equal: the sum is strictly smaller -/
theorem sumTo_lt {f h : Nat → Nat} (w : Nat) : ∀ (n : Nat), w < n → f w < h w → (∀ i, i ≠ w → f i = h i) →
    sumTo n f < sumTo n h
  | 0, hw, _, _ => by omega
  | n + 1, hw, hlt, heq => by
    simp only [sumTo]
    by_cases hn : w = n
    · subst hn
      have := sumTo_congr (f := f) (h := h) w (fun i hi => heq i (by omega))
      omega
    · have := sumTo_lt w n (by omega) hlt heq
      have := heq n (fun h => hn h.symm)
      omega

/-- at most one summand is 1, the others 0 -/
theorem sumTo_indicator_le_one (p : Nat → Bool) : ∀ (n : Nat), (∀ i j, i < n → j < n → p i = true → p j = true → i = j) →
    sumTo n (fun i => if p i then 1 else 0) ≤ 1
  | 0, _ => by simp [sumTo]
  | n + 1, huniq => by
    simp only [sumTo]
    have ih := sumTo_indicator_le_one p n (fun i j hi hj => huniq i j (by omega) (by omega))
    by_cases hp : p n = true
    · have : sumTo n (fun i => if p i then 1 else 0) = sumTo n (fun _ => 0) := by
        apply sumTo_congr
        intro i hi
        by_cases hpi : p i = true
        · have := huniq i n (by omega) (by omega) hpi hp; omega
        · simp [hpi]
      rw [this, sumTo_const]; simp [hp]
    · simp [hp]; exact ih

/-! ## frame: what a slice of `w` does to the candidates -/

theorem candidates_congr {g : Star} {s s' : SState} {v : Nat} (h : ∀ k, s'.dropped k v = s.dropped k v) :
    candidates g s' v = candidates g s v := by
  simp only [candidates, h]

theorem candidates_length_le (g : Star) (s : SState) (w : Nat) : (candidates g s w).length ≤ g.nodes.length := by
  have := List.length_filter_le (fun n => relevant g w n && !s.dropped (keyOf g n) w) (List.range g.nodes.length)
  simpa [candidates] using this

/-- the candidates of `w` after the end of a visit of `n`: those of another class -/
theorem candidates_finish_self (g : Star) (s : SState) (n w : Nat) :
    candidates g (finish g .star s n w) w = (candidates g s w).filter (fun m => keyOf g m != keyOf g n) := by
  rw [finish_star]
  simp only [candidates, List.filter_filter]
  apply List.filter_congr
  intro m _
  cases hb : (keyOf g m == keyOf g n) <;> simp [hb, bne]

theorem candidates_finish_other (g : Star) (s : SState) (n w v : Nat) (hv : v ≠ w) :
    candidates g (finish g .star s n w) v = candidates g s v := by
  apply candidates_congr
  intro k
  rw [finish_star]
  have : (v == w) = false := by simp [hv]
  simp [this]

theorem candidates_finish_lt {g : Star} {s : SState} {n w : Nat} (hc : n ∈ candidates g s w) :
    (candidates g (finish g .star s n w) w).length < (candidates g s w).length := by
  rw [candidates_finish_self]
  exact List.length_filter_lt_length_iff_exists.mpr ⟨n, hc, by simp⟩

theorem pc_finish (g : Star) (s : SState) (n w : Nat) : (finish g .star s n w).pc = upd s.pc w none := by
  rw [finish_star]

/-- an index that is no worker of the graph has no candidates -/
theorem candidates_out_of_range (g : Star) (s : SState) {w : Nat} (hw : g.workers.length ≤ w) :
    candidates g s w = [] := by
  simp only [candidates, List.filter_eq_nil_iff]
  intro n _
  have : g.workers[w]? = none := List.getElem?_eq_none hw
  simp [relevant, this]

/-! ## one slice -/

/-- a slice of a done worker changes nothing -/
theorem micro_done {g : Star} {s : SState} {w : Nat} (hd : workerDone g s w = true) : micro g .star s w = s := by
  simp only [workerDone, Bool.and_eq_true, Option.isNone_iff_eq_none] at hd
  simp [micro, hd.1, hd.2]

theorem workerDone_iff_mu {g : Star} {s : SState} (h : PcCand g s) (w : Nat) :
    workerDone g s w = true ↔ mu g s w ≤ 1 := by
  simp only [workerDone, Bool.and_eq_true, Option.isNone_iff_eq_none, mu, pickChild]
  constructor
  · rintro ⟨h1, h2⟩
    have := minByRank_none g _ h2
    simp [this, h1]
  · intro hm
    cases hpc : s.pc w with
    | some n =>
      have := List.length_pos_of_mem (h w n hpc)
      simp [hpc] at hm
      omega
    | none =>
      simp [hpc] at hm
      refine ⟨rfl, ?_⟩
      have : candidates g s w = [] := List.eq_nil_of_length_eq_zero (by omega)
      simp [this, minByRank]

theorem mu_pos {g : Star} {s : SState} (h : PcCand g s) (w : Nat) : 1 ≤ mu g s w := by
  unfold mu
  cases hpc : s.pc w with
  | some n => have := List.length_pos_of_mem (h w n hpc); omega
  | none => simp

/-- an index that is no worker of the graph is always done -/
theorem workerDone_out_of_range {g : Star} {s : SState} (h : PcCand g s) {w : Nat} (hw : g.workers.length ≤ w) :
    workerDone g s w = true := by
  rw [workerDone_iff_mu h]
  have hc := candidates_out_of_range g s hw
  unfold mu
  cases hpc : s.pc w with
  | some n => have := h w n hpc; rw [hc] at this; simp at this
  | none => simp [hc]

/-- the slices of `w` do not touch the measure of the other workers -/
theorem mu_micro_other (g : Star) (s : SState) {w v : Nat} (hv : v ≠ w) :
    mu g (micro g .star s w) v = mu g s v := by
  unfold micro
  cases hpc : s.pc w with
  | some n =>
    simp only [mu, candidates_finish_other g s n w v hv, pc_finish, upd_other _ _ _ _ hv]
  | none =>
    simp only
    cases hp : pickChild g s w with
    | none => rfl
    | some n =>
      simp only
      split
      · simp only [mu, upd_other _ _ _ _ hv]
        rfl
      · simp only [mu, candidates_finish_other g s n w v hv, pc_finish, upd_other _ _ _ _ hv]

/-- every slice of a worker that is not done strictly lowers its measure -/
theorem mu_micro_lt {g : Star} {s : SState} (h : PcCand g s) {w : Nat} (hnd : workerDone g s w = false) :
    mu g (micro g .star s w) w < mu g s w := by
  unfold micro
  cases hpc : s.pc w with
  | some n =>
    have := candidates_finish_lt (h w n hpc)
    simp only [mu, pc_finish, upd_same, hpc]
    simp
    omega
  | none =>
    simp only
    cases hp : pickChild g s w with
    | none => simp [workerDone, hpc, hp] at hnd
    | some n =>
      simp only
      have hc : n ∈ candidates g s w := minByRank_mem g _ n hp
      split
      · simp only [mu, upd_same, hpc]
        have : candidates g { s with pc := upd s.pc w (some n), execs := s.execs ++ [(w, n)] } w = candidates g s w :=
          candidates_congr (fun _ => rfl)
        rw [this]
        simp
      · have := candidates_finish_lt hc
        simp only [mu, pc_finish, upd_same, hpc]
        simp
        omega

theorem pcCand_micro {g : Star} {s : SState} (h : PcCand g s) (w : Nat) : PcCand g (micro g .star s w) := by
  have fin : ∀ n, PcCand g (finish g .star s n w) := by
    intro n v m hm
    rw [pc_finish] at hm
    by_cases hv : v = w
    · subst hv; simp [upd_same] at hm
    · rw [upd_other _ _ _ _ hv] at hm
      rw [candidates_finish_other g s n w v hv]
      exact h v m hm
  unfold micro
  cases hpc : s.pc w with
  | some n => exact fin n
  | none =>
    simp only
    cases hp : pickChild g s w with
    | none => exact h
    | some n =>
      simp only
      have hc : n ∈ candidates g s w := minByRank_mem g _ n hp
      split
      · intro v m hm
        have hcand : candidates g { s with pc := upd s.pc w (some n), execs := s.execs ++ [(w, n)] } v = candidates g s v :=
          candidates_congr (fun _ => rfl)
        rw [hcand]
        by_cases hv : v = w
        · subst hv
          simp only [upd_same, Option.some.injEq] at hm
          subst hm; exact hc
        · simp only [upd_other _ _ _ _ hv] at hm
          exact h v m hm
      · exact fin n

theorem pcCand_runSched {g : Star} : ∀ (sched : List Nat) (s : SState), PcCand g s →
    PcCand g (runSched g .star sched s)
  | [], _, h => h
  | w :: rest, s, h => by
    unfold runSched
    simp only [List.foldl_cons]
    exact pcCand_runSched rest _ (pcCand_micro h w)

theorem runSched_cons (g : Star) (p : Policy) (w : Nat) (rest : List Nat) (s : SState) :
    runSched g p (w :: rest) s = runSched g p rest (micro g p s w) := by
  simp [runSched]

theorem runSched_append (g : Star) (p : Policy) (a b : List Nat) (s : SState) :
    runSched g p (a ++ b) s = runSched g p b (runSched g p a s) := by
  simp [runSched]

/-! ## whole schedules -/

/-- a slice of `w` lowers `mu − 1` of `w` by at least one, down to zero -/
theorem mu_micro_self_le {g : Star} {s : SState} (h : PcCand g s) (w : Nat) :
    mu g (micro g .star s w) w - 1 ≤ mu g s w - 1 - 1 := by
  cases hd : workerDone g s w with
  | true =>
    rw [micro_done hd]
    have := (workerDone_iff_mu h w).mp hd
    omega
  | false =>
    have := mu_micro_lt h hd
    omega

/-- per worker: after a schedule, what is left of the measure is at most what it was minus the number of slices the
worker got -/
theorem mu_runSched_le {g : Star} (w : Nat) : ∀ (sched : List Nat) (s : SState), PcCand g s →
    mu g (runSched g .star sched s) w - 1 ≤ mu g s w - 1 - sched.count w
  | [], _, _ => by simp [runSched]
  | v :: rest, s, h => by
    rw [runSched_cons]
    have ih := mu_runSched_le w rest _ (pcCand_micro h v)
    by_cases hv : v = w
    · subst hv
      have := mu_micro_self_le h v
      simp only [List.count_cons_self]
      omega
    · rw [mu_micro_other g s (fun e => hv e.symm)] at ih
      have : (v == w) = false := by simp [hv]
      simp only [List.count_cons, this]
      simpa using ih

/-- the measure of a worker never grows -/
theorem mu_runSched_mono {g : Star} (w : Nat) (sched : List Nat) (s : SState) (h : PcCand g s) :
    mu g (runSched g .star sched s) w ≤ mu g s w := by
  have := mu_runSched_le w sched s h
  have := mu_pos (pcCand_runSched sched s h) w
  have := mu_pos h w
  omega

/-- a worker that got `mu − 1` slices is done, whatever the other workers did in between -/
theorem workerDone_of_count {g : Star} {s : SState} (h : PcCand g s) (sched : List Nat) (w : Nat)
    (hc : mu g s w - 1 ≤ sched.count w) : workerDone g (runSched g .star sched s) w = true := by
  rw [workerDone_iff_mu (pcCand_runSched sched s h)]
  have := mu_runSched_le w sched s h
  omega

/-- a done worker stays done -/
theorem workerDone_stable {g : Star} {s : SState} (h : PcCand g s) (sched : List Nat) (w : Nat)
    (hd : workerDone g s w = true) : workerDone g (runSched g .star sched s) w = true := by
  have hm : mu g s w ≤ 1 := (workerDone_iff_mu h w).mp hd
  exact workerDone_of_count h sched w (by omega)

theorem allDone_iff {g : Star} {s : SState} :
    allDone g s = true ↔ ∀ w, w < g.workers.length → workerDone g s w = true := by
  simp [allDone, List.all_eq_true, List.mem_range]

theorem mu_init (g : Star) (w : Nat) : mu g {} w = 2 * relCount g w + 1 := by
  simp [mu, relCount]

/-- a schedule that gives every worker twice as many slices as there are nodes relevant to it ends with every worker
done — from any reachable state (`s` with `PcCand`), whatever the order of the slices -/
theorem allDone_of_counts {g : Star} {s : SState} (h : PcCand g s) (sched : List Nat)
    (hc : ∀ w, w < g.workers.length → mu g s w - 1 ≤ sched.count w) :
    allDone g (runSched g .star sched s) = true :=
  allDone_iff.mpr fun w hw => workerDone_of_count h sched w (hc w hw)

/-- once all workers are done no slice changes anything any more -/
theorem runSched_allDone {g : Star} : ∀ (sched : List Nat) (s : SState), PcCand g s → allDone g s = true →
    runSched g .star sched s = s
  | [], _, _, _ => rfl
  | w :: rest, s, h, hd => by
    rw [runSched_cons]
    have hw : workerDone g s w = true := by
      by_cases hlt : w < g.workers.length
      · exact allDone_iff.mp hd w hlt
      · exact workerDone_out_of_range h (by omega)
    rw [micro_done hw]
    exact runSched_allDone rest s h hd

/-- the total measure is lowered by every slice that is not spent on a done worker -/
theorem totMu_micro_lt {g : Star} {s : SState} (h : PcCand g s) {w : Nat} (hnd : workerDone g s w = false) :
    totMu g (micro g .star s w) < totMu g s := by
  have hw : w < g.workers.length := by
    by_cases hlt : w < g.workers.length
    · exact hlt
    · have := workerDone_out_of_range h (w := w) (by omega)
      rw [this] at hnd; cases hnd
  exact sumTo_lt w _ hw (mu_micro_lt h hnd) (fun i hi => mu_micro_other g s hi)

/-- every schedule: the slices not spent on done workers plus what is left of the measure fit into the measure at the
start -/
theorem effSlices_le {g : Star} : ∀ (sched : List Nat) (s : SState), PcCand g s →
    effSlices g sched s + totMu g (runSched g .star sched s) ≤ totMu g s
  | [], _, _ => by simp [effSlices, runSched]
  | w :: rest, s, h => by
    rw [runSched_cons]
    have ih := effSlices_le rest _ (pcCand_micro h w)
    simp only [effSlices]
    cases hd : workerDone g s w with
    | true => rw [micro_done hd] at ih ⊢; simpa using ih
    | false =>
      have := totMu_micro_lt h hd
      simp only [Bool.false_eq_true, if_false]
      omega

theorem totMu_ge {g : Star} {s : SState} (h : PcCand g s) : g.workers.length ≤ totMu g s := by
  have := sumTo_le (f := fun _ => 1) (h := mu g s) g.workers.length (fun i _ => mu_pos h i)
  rw [sumTo_const] at this
  simpa [totMu] using this

theorem totMu_init (g : Star) : totMu g {} = 2 * sumTo g.workers.length (relCount g) + g.workers.length := by
  unfold totMu
  rw [← sumTo_affine]
  exact sumTo_congr _ (fun i _ => mu_init g i)

/-- every schedule: at most `2·Σ_w |nodes relevant to w|` slices are not spent on done workers -/
theorem effSlices_bound (g : Star) (sched : List Nat) :
    effSlices g sched {} ≤ 2 * sumTo g.workers.length (relCount g) := by
  have h1 := effSlices_le (g := g) sched {} (pcCand_init g)
  have h2 := totMu_ge (pcCand_runSched sched {} (pcCand_init g))
  rw [totMu_init] at h1
  omega

theorem relCount_le (g : Star) (w : Nat) : relCount g w ≤ g.nodes.length := candidates_length_le g {} w

theorem sum_relCount_le_mul (g : Star) :
    sumTo g.workers.length (relCount g) ≤ g.workers.length * g.nodes.length := by
  have := sumTo_le (f := relCount g) (h := fun _ => g.nodes.length) g.workers.length (fun i _ => relCount_le g i)
  rwa [sumTo_const] at this

/-! ## with well-formed names every node counts for one worker only -/

/-- `Σ_{w<W} |{n < L : p w n}| ≤ L` when every `n` satisfies `p w n` for at most one `w < W` -/
theorem sumTo_filter_le (p : Nat → Nat → Bool) (W : Nat)
    (huniq : ∀ n i j, i < W → j < W → p i n = true → p j n = true → i = j) : ∀ (L : Nat),
    sumTo W (fun w => ((List.range L).filter (p w)).length) ≤ L
  | 0 => by
    have : sumTo W (fun w => ((List.range 0).filter (p w)).length) = sumTo W (fun _ => 0) :=
      sumTo_congr _ (fun i _ => by simp)
    rw [this, sumTo_const]; simp
  | L + 1 => by
    have ih := sumTo_filter_le p W huniq L
    have h1 := sumTo_indicator_le_one (fun w => p w L) W (fun i j hi hj => huniq L i j hi hj)
    have hsplit : ∀ (n : Nat) (f h : Nat → Nat), sumTo n (fun w => f w + h w) = sumTo n f + sumTo n h := by
      intro n f h
      induction n with
      | zero => rfl
      | succ n ih => simp only [sumTo, ih]; omega
    have : sumTo W (fun w => ((List.range (L + 1)).filter (p w)).length) =
        sumTo W (fun w => ((List.range L).filter (p w)).length + (if p w L then 1 else 0)) := by
      apply sumTo_congr
      intro w _
      rw [List.range_succ, List.filter_append, List.length_append]
      by_cases hp : p w L = true <;> simp [hp]
    rw [this, hsplit]
    omega

theorem owns_unique {g : Star} {w w' n : Nat} (h : owns g w n) (h' : owns g w' n) : w = w' := by
  obtain ⟨nd, h1, h2⟩ := h
  obtain ⟨nd', h1', h2'⟩ := h'
  rw [h1] at h1'
  cases h1'
  omega

/-- with well-formed names the nodes relevant to the workers are disjoint: together at most all nodes -/
theorem sum_relCount_le (g : Star) (hwf : NamesWF g) : sumTo g.workers.length (relCount g) ≤ g.nodes.length := by
  have := sumTo_filter_le (fun w n => relevant g w n) g.workers.length
    (fun n i j _ _ hi hj => owns_unique ((hwf i n).mp hi) ((hwf j n).mp hj)) g.nodes.length
  have heq : ∀ w, relCount g w = ((List.range g.nodes.length).filter (fun n => relevant g w n)).length := by
    intro w
    simp [relCount, candidates]
  rw [sumTo_congr (h := fun w => ((List.range g.nodes.length).filter (fun n => relevant g w n)).length) _
    (fun i _ => heq i)]
  exact this

/-! ## round robin, and a decidable test for `NamesWF` (for concrete instances) -/

/-- `k` rounds over the workers `0 … W-1` -/
def roundRobin (W k : Nat) : List Nat := (List.replicate k (List.range W)).flatten

theorem roundRobin_length (W k : Nat) : (roundRobin W k).length = k * W := by
  simp [roundRobin]

theorem roundRobin_count {W w : Nat} (hw : w < W) : ∀ (k : Nat), k ≤ (roundRobin W k).count w
  | 0 => Nat.zero_le _
  | k + 1 => by
    have ih := roundRobin_count hw k
    have h1 : 0 < (List.range W).count w := List.count_pos_iff.mpr (List.mem_range.mpr hw)
    simp only [roundRobin, List.replicate_succ, List.flatten_cons, List.count_append] at ih ⊢
    omega

/-- a schedule made of rounds, each of which contains `w`, has at least as many slices of `w` as rounds -/
theorem count_flatten_ge {w : Nat} : ∀ (rounds : List (List Nat)), (∀ r ∈ rounds, w ∈ r) →
    rounds.length ≤ rounds.flatten.count w
  | [], _ => Nat.zero_le _
  | r :: rest, h => by
    have ih := count_flatten_ge rest (fun r' hr' => h r' (List.mem_cons_of_mem _ hr'))
    have h1 : 0 < r.count w := List.count_pos_iff.mpr (h r List.mem_cons_self)
    simp only [List.flatten_cons, List.count_append, List.length_cons]
    omega

/-! ## every schedule is as good as a short one: the sub-schedule of the slices that do something -/

/-- the slices of a schedule that are not spent on a done worker, as a schedule -/
def effSub (g : Star) : List Nat → SState → List Nat
  | [], _ => []
  | w :: rest, s => (if workerDone g s w then [] else [w]) ++ effSub g rest (micro g .star s w)

theorem effSub_length (g : Star) : ∀ (sched : List Nat) (s : SState),
    (effSub g sched s).length = effSlices g sched s
  | [], _ => rfl
  | w :: rest, s => by
    simp only [effSub, effSlices, List.length_append, effSub_length g rest]
    split <;> simp

theorem effSub_sublist (g : Star) : ∀ (sched : List Nat) (s : SState), (effSub g sched s).Sublist sched
  | [], _ => List.Sublist.refl _
  | w :: rest, s => by
    simp only [effSub]
    split
    · exact (effSub_sublist g rest _).cons _
    · exact (effSub_sublist g rest _).cons_cons _

/-- leaving out the slices of done workers does not change the outcome -/
theorem runSched_effSub (g : Star) : ∀ (sched : List Nat) (s : SState),
    runSched g .star (effSub g sched s) s = runSched g .star sched s
  | [], _ => rfl
  | w :: rest, s => by
    simp only [effSub, runSched_cons]
    cases hd : workerDone g s w with
    | true =>
      simp only [if_true, List.nil_append]
      have ih := runSched_effSub g rest (micro g .star s w)
      rw [micro_done hd] at ih ⊢
      exact ih
    | false =>
      simp only [Bool.false_eq_true, if_false, List.singleton_append, runSched_cons]
      exact runSched_effSub g rest _

/-- … and in what is left no slice is wasted -/
theorem effSlices_effSub (g : Star) : ∀ (sched : List Nat) (s : SState),
    effSlices g (effSub g sched s) s = (effSub g sched s).length
  | [], _ => rfl
  | w :: rest, s => by
    simp only [effSub]
    cases hd : workerDone g s w with
    | true =>
      simp only [if_true, List.nil_append]
      have ih := effSlices_effSub g rest (micro g .star s w)
      rw [micro_done hd] at ih ⊢
      exact ih
    | false =>
      simp only [Bool.false_eq_true, if_false, List.singleton_append, effSlices, hd, List.length_cons]
      rw [effSlices_effSub g rest _]
      omega

/-! ## exact number: two slices per execution -/

/-- the class of a node a worker has finished is dropped for that worker -/
def FinDropped (g : Star) (s : SState) : Prop := ∀ n w, s.finished n = some w → s.dropped (keyOf g n) w = true

theorem finDropped_init (g : Star) : FinDropped g {} := by
  intro n w h; simp at h

theorem finDropped_finish {g : Star} {s : SState} (h : FinDropped g s) (n w : Nat) :
    FinDropped g (finish g .star s n w) := by
  rw [finish_star]
  intro n' w' hf
  by_cases hn : n' = n
  · subst hn
    simp [upd_same] at hf
    subst hf
    simp
  · simp only [upd_other _ _ _ _ hn] at hf
    simp [h n' w' hf]

/-- a candidate is never one the worker has finished already: the run flag of the star policy is set for it -/
theorem runFlag_of_candidate {g : Star} {s : SState} (h : FinDropped g s) {n w : Nat} (hc : n ∈ candidates g s w) :
    runFlag .star s n w = true := by
  simp only [runFlag, bne_iff_ne, ne_eq]
  intro hf
  have := h n w hf
  rw [(mem_candidates.mp hc).2.2] at this
  cases this

theorem finDropped_micro {g : Star} {s : SState} (h : FinDropped g s) (w : Nat) : FinDropped g (micro g .star s w) := by
  unfold micro
  cases hpc : s.pc w with
  | some n => exact finDropped_finish h n w
  | none =>
    simp only
    cases hp : pickChild g s w with
    | none => exact h
    | some n =>
      simp only
      split
      · exact h
      · exact finDropped_finish h n w

/-- number of workers that await the end of a test -/
def busyC (g : Star) (s : SState) : Nat := sumTo g.workers.length (fun w => if (s.pc w).isSome then 1 else 0)

theorem sumTo_add_one {f h : Nat → Nat} (w : Nat) : ∀ (n : Nat), w < n → h w = f w + 1 → (∀ i, i ≠ w → f i = h i) →
    sumTo n h = sumTo n f + 1
  | 0, hw, _, _ => by omega
  | n + 1, hw, h1, heq => by
    simp only [sumTo]
    by_cases hn : w = n
    · subst hn
      have := sumTo_congr (f := f) (h := h) w (fun i hi => heq i (by omega))
      omega
    · have := sumTo_add_one w n (by omega) h1 heq
      have := heq n (fun h => hn h.symm)
      omega

/-- a slice of a worker that is not done either starts a test (one more execution, one more busy worker) or ends one
(one busy worker less) -/
theorem micro_account {g : Star} {s : SState} (h : PcCand g s) (hf : FinDropped g s) {w : Nat}
    (hnd : workerDone g s w = false) :
    2 * (micro g .star s w).execs.length + busyC g s = 2 * s.execs.length + busyC g (micro g .star s w) + 1 := by
  have hw : w < g.workers.length := by
    by_cases hlt : w < g.workers.length
    · exact hlt
    · have := workerDone_out_of_range h (w := w) (by omega)
      rw [this] at hnd; cases hnd
  unfold micro
  cases hpc : s.pc w with
  | some n =>
    simp only
    have hb : busyC g s = busyC g (finish g .star s n w) + 1 := by
      apply sumTo_add_one w _ hw
      · simp [pc_finish, upd_same, hpc]
      · intro i hi; simp [pc_finish, upd_other _ _ _ _ hi]
    have he : (finish g .star s n w).execs = s.execs := by rw [finish_star]
    rw [he]; omega
  | none =>
    simp only
    cases hp : pickChild g s w with
    | none => simp [workerDone, hpc, hp] at hnd
    | some n =>
      simp only
      have hc : n ∈ candidates g s w := minByRank_mem g _ n hp
      rw [if_pos (runFlag_of_candidate hf hc)]
      have hb : busyC g { s with pc := upd s.pc w (some n), execs := s.execs ++ [(w, n)] } = busyC g s + 1 := by
        apply sumTo_add_one w _ hw
        · simp [upd_same, hpc]
        · intro i hi; simp [upd_other _ _ _ _ hi]
      rw [hb]
      simp only [List.length_append, List.length_singleton]
      omega

/-- every schedule: the slices not spent on done workers are two per finished execution and one per running one -/
theorem effSlices_exact {g : Star} : ∀ (sched : List Nat) (s : SState), PcCand g s → FinDropped g s →
    2 * (runSched g .star sched s).execs.length + busyC g s =
      2 * s.execs.length + busyC g (runSched g .star sched s) + effSlices g sched s
  | [], _, _, _ => by simp [effSlices, runSched]
  | w :: rest, s, h, hf => by
    rw [runSched_cons]
    have ih := effSlices_exact rest _ (pcCand_micro h w) (finDropped_micro hf w)
    simp only [effSlices]
    cases hd : workerDone g s w with
    | true => rw [micro_done hd] at ih ⊢; simpa using ih
    | false =>
      have := micro_account h hf hd
      simp only [Bool.false_eq_true, if_false]
      omega

theorem busyC_init (g : Star) : busyC g {} = 0 := by
  unfold busyC
  rw [sumTo_congr (h := fun _ => 0) _ (fun i _ => by simp), sumTo_const]; simp

theorem busyC_allDone {g : Star} {s : SState} (hd : allDone g s = true) : busyC g s = 0 := by
  unfold busyC
  rw [sumTo_congr (h := fun _ => 0) _ (fun i hi => ?_), sumTo_const]; simp
  have := allDone_iff.mp hd i hi
  simp only [workerDone, Bool.and_eq_true, Option.isNone_iff_eq_none] at this
  simp [this.1]

/-- decidable form of `NamesWF`: on the workers and nodes of the graph the substring test is ownership, and every
owner is a worker of the graph -/
def namesOk (g : Star) : Bool :=
  ((List.range g.workers.length).all fun w => (List.range g.nodes.length).all fun n =>
    relevant g w n == (match g.nodes[n]? with | some nd => nd.owner == w | none => false)) &&
  g.nodes.all (fun nd => nd.owner < g.workers.length)

theorem namesWF_of_namesOk {g : Star} (h : namesOk g = true) : NamesWF g := by
  simp only [namesOk, Bool.and_eq_true, List.all_eq_true, List.mem_range, beq_iff_eq, decide_eq_true_eq] at h
  obtain ⟨h1, h2⟩ := h
  intro w n
  by_cases hn : n < g.nodes.length
  · have hnd : g.nodes[n]? = some g.nodes[n] := List.getElem?_eq_getElem hn
    by_cases hw : w < g.workers.length
    · have := h1 w hw n hn
      rw [this, hnd]
      simp only [beq_iff_eq, owns, hnd, Option.some.injEq]
      constructor
      · intro e; exact ⟨_, rfl, e⟩
      · rintro ⟨nd, rfl, e⟩; exact e
    · have hrel : relevant g w n = false := by
        have : g.workers[w]? = none := List.getElem?_eq_none (by omega)
        simp [relevant, this]
      rw [hrel]
      constructor
      · intro e; cases e
      · rintro ⟨nd, hnd', e⟩
        rw [hnd] at hnd'
        cases hnd'
        have := h2 _ (List.getElem_mem hn)
        omega
  · have hnone : g.nodes[n]? = none := List.getElem?_eq_none (by omega)
    have hrel : relevant g w n = false := by
      simp only [relevant, hnone]
      split <;> simp_all
    rw [hrel]
    constructor
    · intro e; cases e
    · rintro ⟨nd, hnd', _⟩
      rw [hnone] at hnd'; cases hnd'

end I2N.Tools
