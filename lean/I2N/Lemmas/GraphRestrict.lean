import I2N.Lemmas.GraphResolve
/-!
Restricted versus unrestricted copies of the resolver's graph (property C09).

A worker's restrictions enter the resolver only through `allow : String → List String`.  This file compares the
graphs for two such functions `al` (restricted) and `au` (unrestricted) with `al vm ⊆ au vm`, at the level of
*bare* nodes: (test name, per-vm variant assignment), i.e. keys with the clone labels erased.

* `Dep`: the "needs, transitively" relation the resolver walks (`anc`), with the fuel made explicit;
  `mem_anc_iff`, `mem_bare_workerNodes`, `mem_bareParents_workerNodes`: nodes / edges of a copy in terms of `Dep`.
* `cands_restrict`: the producers of a requirement under `al` are those under `au` whose variants `al` allows.
* `Dep_mono`, `Dep_ok`: every restricted dependency path is an unrestricted one, through allowed variants only.
* `Dep_subst`: with a universally acceptable allowed variant `σ vm` for every vm that loses a variant, every
  unrestricted path becomes a restricted one by replacing excluded variants.
* `Dep_rank`: under an acyclicity rank bounded by the fuel, fuel never runs out along a path.
* `insts_has_parent`: every producer of a slot is the parent of some clone.
-/
namespace I2N.Resolve

/-! ## the label-erasing projection -/

/-- a key without its clone labels: (test, per-vm variant assignment) -/
def Key.bare (k : Key) : Name × Asg := (k.test, k.asg)

def Inst.bare (i : Inst) : Name × Asg := i.key.bare

/-- every vm variant of the assignment is one `allow` permits -/
def asgOK (allow : String → List String) (a : Asg) : Bool := a.all (fun e => (allow e.1).contains e.2)

theorem asgOK_iff (allow : String → List String) (a : Asg) :
    asgOK allow a = true ↔ ∀ e ∈ a, e.2 ∈ allow e.1 := by
  simp [asgOK]

/-- the bare parents of the bare node `x` in a node list: the parents of all its clones, labels erased -/
def bareParents (ns : List Inst) (x : Name × Asg) : List (Name × Asg) :=
  (ns.filter (fun i => decide (i.bare = x))).flatMap (fun i => i.parents.map (fun e => e.2.2.bare))

theorem mem_bareParents (ns : List Inst) (x y : Name × Asg) :
    y ∈ bareParents ns x ↔ ∃ i ∈ ns, i.bare = x ∧ ∃ e ∈ i.parents, e.2.2.bare = y := by
  simp only [bareParents, List.mem_flatMap, List.mem_filter, decide_eq_true_eq, List.mem_map]
  constructor
  · rintro ⟨i, ⟨hi, hx⟩, e, he, rfl⟩; exact ⟨i, hi, hx, e, he, rfl⟩
  · rintro ⟨i, hi, hx, e, he, rfl⟩; exact ⟨i, ⟨hi, hx⟩, e, he, rfl⟩

/-! ## restricting `allow` filters the producers -/

theorem allowedFor_restrict (al au : String → List String) (hsub : ∀ vm v, v ∈ al vm → v ∈ au vm)
    (t : Test) (vm v : String) :
    v ∈ allowedFor al t vm ↔ v ∈ allowedFor au t vm ∧ v ∈ al vm := by
  unfold allowedFor
  cases hfind : t.only.find? (fun e => e.1 == vm) with
  | none => exact ⟨fun h => ⟨hsub vm v h, h⟩, fun h => h.2⟩
  | some e =>
    simp only [List.mem_filter]
    exact ⟨fun h => ⟨⟨hsub vm v h.1, h.2⟩, h.1⟩, fun h => ⟨h.2, h.1.2⟩⟩

theorem allowedFor_subset (allow : String → List String) (t : Test) (vm v : String)
    (h : v ∈ allowedFor allow t vm) : v ∈ allow vm :=
  ((allowedFor_restrict allow allow (fun _ _ h => h) t vm v).mp h).2

theorem mem_ite_singleton {c : Prop} [Decidable c] {x v : String} :
    v ∈ (if c then [x] else []) ↔ c ∧ v = x := by
  by_cases h : c <;> simp [h]

theorem choices_restrict (al au : String → List String) (hsub : ∀ vm v, v ∈ al vm → v ∈ au vm)
    (casg : Asg) (t : Test) (vm v : String) :
    v ∈ choices al casg t vm ↔ v ∈ choices au casg t vm ∧ v ∈ al vm := by
  unfold choices
  cases hfind : casg.find? (fun e => e.1 == vm) with
  | none => exact allowedFor_restrict al au hsub t vm v
  | some e =>
    simp only [List.contains_eq_mem, decide_eq_true_eq, mem_ite_singleton]
    have h := allowedFor_restrict al au hsub t vm e.2
    constructor
    · rintro ⟨h1, rfl⟩; exact ⟨⟨(h.mp h1).1, rfl⟩, (h.mp h1).2⟩
    · rintro ⟨⟨h1, rfl⟩, h2⟩; exact ⟨h.mpr ⟨h1, h2⟩, rfl⟩

theorem product_restrict (f g : String → List String) (P : String → String → Prop)
    (h : ∀ vm v, v ∈ f vm ↔ v ∈ g vm ∧ P vm v) :
    ∀ (vms : List String) (a : Asg), a ∈ product (vms.map (fun vm => (vm, f vm))) ↔
      a ∈ product (vms.map (fun vm => (vm, g vm))) ∧ ∀ e ∈ a, P e.1 e.2
  | [], a => by
    simp only [List.map_nil, product, List.mem_singleton]
    constructor
    · rintro rfl; exact ⟨rfl, by simp⟩
    · exact fun h => h.1
  | vm :: rest, a => by
    simp only [List.map_cons, product, List.mem_flatMap, List.mem_map]
    constructor
    · rintro ⟨v, hv, a', ha', rfl⟩
      obtain ⟨h1, h2⟩ := (product_restrict f g P h rest a').mp ha'
      refine ⟨⟨v, ((h vm v).mp hv).1, a', h1, rfl⟩, ?_⟩
      intro e he
      rcases List.mem_cons.mp he with rfl | he
      · exact ((h vm v).mp hv).2
      · exact h2 e he
    · rintro ⟨⟨v, hv, a', ha', rfl⟩, hP⟩
      refine ⟨v, (h vm v).mpr ⟨hv, hP (vm, v) (List.mem_cons_self ..)⟩, a', ?_, rfl⟩
      exact (product_restrict f g P h rest a').mpr ⟨ha', fun e he => hP e (List.mem_cons_of_mem _ he)⟩

theorem asgs_restrict (al au : String → List String) (hsub : ∀ vm v, v ∈ al vm → v ∈ au vm)
    (casg : Asg) (t : Test) (vms : List String) (a : Asg) :
    a ∈ asgs al casg t vms ↔ a ∈ asgs au casg t vms ∧ ∀ e ∈ a, e.2 ∈ al e.1 :=
  product_restrict (fun vm => choices al casg t vm) (fun vm => choices au casg t vm) (fun vm v => v ∈ al vm)
    (fun vm v => choices_restrict al au hsub casg t vm v) vms a

/-- **the producers of a requirement for a restricted worker are those for the unrestricted worker composed on
allowed variants only** -/
theorem cands_restrict (S : Suite) (al au : String → List String) (hsub : ∀ vm v, v ∈ al vm → v ∈ au vm)
    (casg : Asg) (s : Slot) (t : Test) (a : Asg) :
    (t, a) ∈ cands S al casg s ↔ (t, a) ∈ cands S au casg s ∧ ∀ e ∈ a, e.2 ∈ al e.1 := by
  rw [mem_cands, mem_cands, asgs_restrict al au hsub]
  constructor
  · rintro ⟨h1, h2, h3, h4, h5, h6⟩; exact ⟨⟨h1, h2, h3, h4, h5⟩, h6⟩
  · rintro ⟨⟨h1, h2, h3, h4, h5⟩, h6⟩; exact ⟨h1, h2, h3, h4, h5, h6⟩

theorem cands_allowed (S : Suite) (allow : String → List String) (casg : Asg) (s : Slot) (t : Test) (a : Asg)
    (h : (t, a) ∈ cands S allow casg s) : ∀ e ∈ a, e.2 ∈ allow e.1 :=
  ((cands_restrict S allow allow (fun _ _ h => h) casg s t a).mp h).2

theorem leafAsgs_restrict (S : Suite) (al au : String → List String) (hsub : ∀ vm v, v ∈ al vm → v ∈ au vm)
    (t : Test) (a : Asg) :
    a ∈ leafAsgs S al t ↔ a ∈ leafAsgs S au t ∧ ∀ e ∈ a, e.2 ∈ al e.1 :=
  asgs_restrict al au hsub [] t _ a

/-! ## the dependency walk of `anc` as a relation -/

/-- `Dep f t a g t' a'`: starting from test `t` composed with `a` at fuel `f`, the resolver's walk (`anc`) reaches
test `t'` composed with `a'` with fuel `g` left, following declared producers (`cands`) -/
inductive Dep (S : Suite) (allow : String → List String) : Nat → Test → Asg → Nat → Test → Asg → Prop
  | refl (f : Nat) (t : Test) (a : Asg) : Dep S allow f t a f t a
  | step (f : Nat) (t : Test) (a : Asg) (s : Slot) (t1 : Test) (a1 : Asg) (g : Nat) (t' : Test) (a' : Asg) :
      s ∈ instSlots t a → (t1, a1) ∈ cands S allow a s → Dep S allow f t1 a1 g t' a' →
      Dep S allow (f + 1) t a g t' a'

theorem Dep.snoc {S : Suite} {allow : String → List String} {f : Nat} {t : Test} {a : Asg} {g : Nat} {t' : Test}
    {a' : Asg} (h : Dep S allow f t a (g + 1) t' a') (s : Slot) (t1 : Test) (a1 : Asg)
    (hs : s ∈ instSlots t' a') (hc : (t1, a1) ∈ cands S allow a' s) : Dep S allow f t a g t1 a1 := by
  generalize hg : g + 1 = g' at h
  induction h with
  | refl f t a => subst hg; exact Dep.step _ _ _ s t1 a1 _ _ _ hs hc (Dep.refl _ _ _)
  | step f t a s0 t0 a0 g' t' a' hs0 hc0 _ ih => exact Dep.step _ _ _ s0 t0 a0 _ _ _ hs0 hc0 (ih hs hc hg)

theorem Dep.le {S : Suite} {allow : String → List String} {f : Nat} {t : Test} {a : Asg} {g : Nat} {t' : Test}
    {a' : Asg} (h : Dep S allow f t a g t' a') : g ≤ f := by
  induction h with
  | refl => exact Nat.le_refl _
  | step _ _ _ _ _ _ _ _ _ _ _ _ ih => exact Nat.le_succ_of_le ih

theorem anc_of_dep {S : Suite} {allow : String → List String} {f : Nat} {t : Test} {a : Asg} {g : Nat} {t' : Test}
    {a' : Asg} (h : Dep S allow f t a g t' a') : ∀ i ∈ insts S allow g t' a', i ∈ anc S allow f t a := by
  induction h with
  | refl f t a => exact insts_subset_anc S allow f t a
  | step f t a s t1 a1 g t' a' hs hc _ ih =>
    intro i hi
    simp only [anc]
    exact List.mem_append_right _
      (List.mem_flatMap.mpr ⟨s, hs, List.mem_flatMap.mpr ⟨(t1, a1), hc, ih i hi⟩⟩)

theorem dep_of_anc (S : Suite) (allow : String → List String) :
    ∀ (f : Nat) (t : Test) (a : Asg) (i : Inst), i ∈ anc S allow f t a →
      ∃ g t' a', Dep S allow f t a (g + 1) t' a' ∧ i ∈ insts S allow (g + 1) t' a'
  | 0, _, _, i, h => by simp [anc] at h
  | f + 1, t, a, i, h => by
    simp only [anc] at h
    rcases List.mem_append.mp h with h | h
    · exact ⟨f, t, a, Dep.refl _ _ _, h⟩
    · obtain ⟨s, hs, h⟩ := List.mem_flatMap.mp h
      obtain ⟨ta, hta, h⟩ := List.mem_flatMap.mp h
      obtain ⟨g, t', a', hd, hi⟩ := dep_of_anc S allow f ta.1 ta.2 i h
      exact ⟨g, t', a', Dep.step _ _ _ s ta.1 ta.2 _ _ _ hs hta hd, hi⟩

theorem mem_anc_iff (S : Suite) (allow : String → List String) (f : Nat) (t : Test) (a : Asg) (i : Inst) :
    i ∈ anc S allow f t a ↔ ∃ g t' a', Dep S allow f t a (g + 1) t' a' ∧ i ∈ insts S allow (g + 1) t' a' :=
  ⟨dep_of_anc S allow f t a i, fun ⟨_, _, _, hd, hi⟩ => anc_of_dep hd i hi⟩

/-! ## instances exist, and every producer is the parent of some clone -/

theorem addSlot_ne_nil (acc : List Inst) (s : Slot) (ps : List Inst) (h : acc ≠ []) : addSlot acc s ps ≠ [] := by
  have hl := addSlot_length acc s ps
  have h1 : 0 < acc.length := List.length_pos_iff.mpr h
  have h2 : 0 < max 1 ps.length := by omega
  have : 0 < (addSlot acc s ps).length := by rw [hl]; exact Nat.mul_pos h1 h2
  exact List.length_pos_iff.mp this

theorem foldSlots_ne_nil (S : Suite) (allow : String → List String) (f : Nat) (asg : Asg) :
    ∀ (rest : List Slot) (acc : List Inst), acc ≠ [] → foldSlots S allow f asg rest acc ≠ []
  | [], _, h => h
  | s :: rest, acc, h => by
    simp only [foldSlots, List.foldl_cons]
    exact foldSlots_ne_nil S allow f asg rest _ (addSlot_ne_nil acc s _ h)

theorem insts_ne_nil (S : Suite) (allow : String → List String) (f : Nat) (t : Test) (asg : Asg) :
    insts S allow (f + 1) t asg ≠ [] := by
  rw [insts_eq_fold]
  exact foldSlots_ne_nil S allow f asg _ _ (by simp)

theorem exists_inst (S : Suite) (allow : String → List String) (f : Nat) (t : Test) (asg : Asg) :
    ∃ i ∈ insts S allow (f + 1) t asg, i.bare = (t.name, asg) := by
  obtain ⟨i, hi⟩ := List.exists_mem_of_ne_nil _ (insts_ne_nil S allow f t asg)
  obtain ⟨h1, h2, _⟩ := insts_key S allow (f + 1) t asg i hi
  exact ⟨i, hi, by simp [Inst.bare, Key.bare, h1, h2]⟩

theorem insts_bare (S : Suite) (allow : String → List String) (f : Nat) (t : Test) (asg : Asg) (i : Inst)
    (hi : i ∈ insts S allow f t asg) : i.bare = (t.name, asg) := by
  obtain ⟨h1, h2, _⟩ := insts_key S allow f t asg i hi
  simp [Inst.bare, Key.bare, h1, h2]

theorem addSlot_grow (acc : List Inst) (s : Slot) (ps : List Inst) (i0 : Inst) (h0 : i0 ∈ acc) :
    ∃ i ∈ addSlot acc s ps, ∀ e ∈ i0.parents, e ∈ i.parents := by
  match ps with
  | [] => exact ⟨i0, h0, fun _ he => he⟩
  | [p] =>
    rw [addSlot_one]
    exact ⟨_, List.mem_map.mpr ⟨i0, h0, rfl⟩, fun e he => List.mem_append_left _ he⟩
  | p :: q :: ps =>
    rw [addSlot_many]
    refine ⟨cloneFor i0 s p, List.mem_flatMap.mpr ⟨i0, h0, List.mem_map.mpr ⟨p, List.mem_cons_self .., rfl⟩⟩, ?_⟩
    intro e he
    exact List.mem_append_left _ he

theorem foldSlots_grow (S : Suite) (allow : String → List String) (f : Nat) (asg : Asg) :
    ∀ (rest : List Slot) (acc : List Inst) (i0 : Inst), i0 ∈ acc →
      ∃ i ∈ foldSlots S allow f asg rest acc, ∀ e ∈ i0.parents, e ∈ i.parents
  | [], _, i0, h0 => ⟨i0, h0, fun _ he => he⟩
  | s :: rest, acc, i0, h0 => by
    simp only [foldSlots, List.foldl_cons]
    obtain ⟨i1, h1, hp1⟩ := addSlot_grow acc s (prods S allow f asg s) i0 h0
    obtain ⟨i, hi, hp⟩ := foldSlots_grow S allow f asg rest _ i1 h1
    exact ⟨i, hi, fun e he => hp e (hp1 e he)⟩

theorem addSlot_has (acc : List Inst) (s : Slot) (ps : List Inst) (h : acc ≠ []) (p : Inst) (hp : p ∈ ps) :
    ∃ i ∈ addSlot acc s ps, (s.vm, s.kind, p.key) ∈ i.parents := by
  obtain ⟨i0, h0⟩ := List.exists_mem_of_ne_nil _ h
  match ps, hp with
  | [p'], hp =>
    rw [addSlot_one]
    simp only [List.mem_singleton] at hp
    subst hp
    exact ⟨_, List.mem_map.mpr ⟨i0, h0, rfl⟩, List.mem_append_right _ (List.mem_singleton.mpr rfl)⟩
  | p' :: q :: ps, hp =>
    rw [addSlot_many]
    exact ⟨cloneFor i0 s p, List.mem_flatMap.mpr ⟨i0, h0, List.mem_map.mpr ⟨p, hp, rfl⟩⟩,
      List.mem_append_right _ (List.mem_singleton.mpr rfl)⟩

/-- every producer of a declared slot is the parent, for that slot, of one of the node's clones -/
theorem insts_has_parent (S : Suite) (allow : String → List String) (f : Nat) (t : Test) (asg : Asg) (s : Slot)
    (hs : s ∈ instSlots t asg) (p : Inst) (hp : p ∈ prods S allow f asg s) :
    ∃ i ∈ insts S allow (f + 1) t asg, (s.vm, s.kind, p.key) ∈ i.parents := by
  rw [insts_eq_fold]
  obtain ⟨pre, post, hsplit⟩ := List.append_of_mem hs
  rw [hsplit]
  simp only [foldSlots, List.foldl_append, List.foldl_cons]
  have hne := foldSlots_ne_nil S allow f asg pre
    [{ key := { test := t.name, asg := asg, labels := [] }, root := t.creation,
       slots := pre ++ s :: post, parents := [] }] (by simp)
  obtain ⟨i1, h1, hp1⟩ := addSlot_has _ s _ hne p hp
  obtain ⟨i, hi, hpi⟩ := foldSlots_grow S allow f asg post _ i1 h1
  exact ⟨i, hi, hpi _ hp1⟩

/-! ## a worker's copy in terms of `Dep` -/

theorem mem_workerNodes_dep (S : Suite) (allow : String → List String) (sel : List RLine) (i : Inst) :
    i ∈ workerNodes S allow sel ↔
      ∃ t ∈ selected S sel, ∃ a ∈ leafAsgs S allow t, ∃ g t' a',
        Dep S allow S.fuel t a (g + 1) t' a' ∧ i ∈ insts S allow (g + 1) t' a' := by
  rw [mem_workerNodes]
  constructor
  · rintro ⟨t, ht, hi⟩
    obtain ⟨a, ha, hi⟩ := (mem_reveal S allow t i).mp hi
    exact ⟨t, ht, a, ha, (mem_anc_iff S allow _ t a i).mp hi⟩
  · rintro ⟨t, ht, a, ha, h⟩
    exact ⟨t, ht, (mem_reveal S allow t i).mpr ⟨a, ha, (mem_anc_iff S allow _ t a i).mpr h⟩⟩

/-- the (test, assignment) pairs of a worker's copy: what the walk reaches with fuel left -/
theorem mem_bare_workerNodes (S : Suite) (allow : String → List String) (sel : List RLine) (x : Name × Asg) :
    x ∈ (workerNodes S allow sel).map Inst.bare ↔
      ∃ t ∈ selected S sel, ∃ a ∈ leafAsgs S allow t, ∃ g t' a',
        Dep S allow S.fuel t a (g + 1) t' a' ∧ x = (t'.name, a') := by
  rw [List.mem_map]
  constructor
  · rintro ⟨i, hi, rfl⟩
    obtain ⟨t, ht, a, ha, g, t', a', hd, hi⟩ := (mem_workerNodes_dep S allow sel i).mp hi
    exact ⟨t, ht, a, ha, g, t', a', hd, insts_bare S allow _ t' a' i hi⟩
  · rintro ⟨t, ht, a, ha, g, t', a', hd, rfl⟩
    obtain ⟨i, hi, hb⟩ := exists_inst S allow g t' a'
    exact ⟨i, (mem_workerNodes_dep S allow sel i).mpr ⟨t, ht, a, ha, g, t', a', hd, hi⟩, hb⟩

/-- `y` is a declared producer of `x`, reached by the walk with enough fuel to instantiate both -/
def PEdge (S : Suite) (allow : String → List String) (sel : List RLine) (x y : Name × Asg) : Prop :=
  ∃ t0 ∈ selected S sel, ∃ a0 ∈ leafAsgs S allow t0, ∃ (f : Nat) (t : Test) (a : Asg) (s : Slot) (t1 : Test) (a1 : Asg),
    Dep S allow S.fuel t0 a0 (f + 2) t a ∧ x = (t.name, a) ∧ s ∈ instSlots t a ∧
    (t1, a1) ∈ cands S allow a s ∧ y = (t1.name, a1)

/-- the bare edges of a worker's copy -/
theorem mem_bareParents_workerNodes (S : Suite) (allow : String → List String) (sel : List RLine)
    (x y : Name × Asg) : y ∈ bareParents (workerNodes S allow sel) x ↔ PEdge S allow sel x y := by
  rw [mem_bareParents]
  constructor
  · rintro ⟨i, hi, hx, e, he, hy⟩
    obtain ⟨t0, ht0, a0, ha0, g, t, a, hd, hi⟩ := (mem_workerNodes_dep S allow sel i).mp hi
    obtain ⟨s, hs, _, _, p, hp, hpk⟩ := insts_parents_sound S allow g t a i hi e he
    obtain ⟨t1, a1, hc, hpi⟩ := mem_prods S allow g a s p hp
    cases g with
    | zero => simp [insts] at hpi
    | succ g =>
      refine ⟨t0, ht0, a0, ha0, g, t, a, s, t1, a1, hd, ?_, hs, hc, ?_⟩
      · rw [← hx]; exact insts_bare S allow _ t a i hi
      · rw [← hy, ← hpk]; exact insts_bare S allow _ t1 a1 p hpi
  · rintro ⟨t0, ht0, a0, ha0, f, t, a, s, t1, a1, hd, rfl, hs, hc, rfl⟩
    obtain ⟨p, hp, hpb⟩ := exists_inst S allow f t1 a1
    have hpp : p ∈ prods S allow (f + 1) a s := List.mem_flatMap.mpr ⟨(t1, a1), hc, hp⟩
    obtain ⟨i, hi, hpar⟩ := insts_has_parent S allow (f + 1) t a s hs p hpp
    refine ⟨i, (mem_workerNodes_dep S allow sel i).mpr ⟨t0, ht0, a0, ha0, f + 1, t, a, hd, hi⟩,
      insts_bare S allow _ t a i hi, _, hpar, hpb⟩

/-- the copy is closed under bare parents -/
theorem PEdge_target (S : Suite) (allow : String → List String) (sel : List RLine) (x y : Name × Asg)
    (h : PEdge S allow sel x y) : y ∈ (workerNodes S allow sel).map Inst.bare := by
  obtain ⟨t0, ht0, a0, ha0, f, t, a, s, t1, a1, hd, _, hs, hc, rfl⟩ := h
  exact (mem_bare_workerNodes S allow sel _).mpr ⟨t0, ht0, a0, ha0, f, t1, a1, hd.snoc s t1 a1 hs hc, rfl⟩

/-! ## restricted paths are unrestricted paths through allowed variants -/

theorem Dep_mono (S : Suite) (al au : String → List String) (hsub : ∀ vm v, v ∈ al vm → v ∈ au vm)
    {f : Nat} {t : Test} {a : Asg} {g : Nat} {t' : Test} {a' : Asg} (h : Dep S al f t a g t' a') :
    Dep S au f t a g t' a' := by
  induction h with
  | refl f t a => exact Dep.refl _ _ _
  | step f t a s t1 a1 g t' a' hs hc _ ih =>
    exact Dep.step _ _ _ s t1 a1 _ _ _ hs ((cands_restrict S al au hsub a s t1 a1).mp hc).1 ih

theorem Dep_ok (S : Suite) (allow : String → List String)
    {f : Nat} {t : Test} {a : Asg} {g : Nat} {t' : Test} {a' : Asg} (h : Dep S allow f t a g t' a')
    (ha : ∀ e ∈ a, e.2 ∈ allow e.1) : ∀ e ∈ a', e.2 ∈ allow e.1 := by
  induction h with
  | refl f t a => exact ha
  | step f t a s t1 a1 g t' a' hs hc _ ih => exact ih (cands_allowed S allow a s t1 a1 hc)

/-! ## substituting excluded variants -/

/-- keep an allowed variant, replace an excluded one by the chosen allowed variant of its vm -/
def subV (al : String → List String) (σ : String → String) (vm v : String) : String :=
  if v ∈ al vm then v else σ vm

def subA (al : String → List String) (σ : String → String) (a : Asg) : Asg :=
  a.map (fun e => (e.1, subV al σ e.1 e.2))

/-- for every vm that loses a variant, `σ vm` is a variant the restricted worker and every test of the suite
accept -/
def SubstOK (S : Suite) (al au : String → List String) (σ : String → String) : Prop :=
  ∀ vm, (∃ x ∈ au vm, x ∉ al vm) → ∀ t ∈ S.tests, σ vm ∈ allowedFor al t vm

theorem subA_id (al : String → List String) (σ : String → String) (a : Asg) (h : ∀ e ∈ a, e.2 ∈ al e.1) :
    subA al σ a = a := by
  unfold subA
  induction a with
  | nil => rfl
  | cons e a ih =>
    have he := h e (List.mem_cons_self ..)
    rw [List.map_cons, ih (fun e' he' => h e' (List.mem_cons_of_mem _ he'))]
    simp [subV, he]

theorem find_subA (al : String → List String) (σ : String → String) (vm : String) :
    ∀ a : Asg, (subA al σ a).find? (fun e => e.1 == vm) =
      (a.find? (fun e => e.1 == vm)).map (fun e => (e.1, subV al σ e.1 e.2))
  | [] => rfl
  | e :: a => by
    have ih := find_subA al σ vm a
    simp only [subA, List.map_cons, List.find?_cons] at ih ⊢
    cases h : (e.1 == vm)
    · simpa using ih
    · simp

theorem instSlots_subA (al : String → List String) (σ : String → String) (t : Test) (a : Asg) :
    instSlots t (subA al σ a) = instSlots t a := by
  cases a with
  | nil => rfl
  | cons e a => simp [instSlots, subA]

theorem allowedFor_subst (S : Suite) (al au : String → List String) (hsub : ∀ vm v, v ∈ al vm → v ∈ au vm)
    (σ : String → String) (hσ : SubstOK S al au σ) (t : Test) (ht : t ∈ S.tests) (vm x : String)
    (hx : x ∈ allowedFor au t vm) : subV al σ vm x ∈ allowedFor al t vm := by
  unfold subV
  by_cases h : x ∈ al vm
  · rw [if_pos h]; exact (allowedFor_restrict al au hsub t vm x).mpr ⟨hx, h⟩
  · rw [if_neg h]; exact hσ vm ⟨x, allowedFor_subset au t vm x hx, h⟩ t ht

theorem choices_subst (S : Suite) (al au : String → List String) (hsub : ∀ vm v, v ∈ al vm → v ∈ au vm)
    (σ : String → String) (hσ : SubstOK S al au σ) (casg : Asg) (t : Test) (ht : t ∈ S.tests) (vm x : String)
    (hx : x ∈ choices au casg t vm) : subV al σ vm x ∈ choices al (subA al σ casg) t vm := by
  unfold choices at hx ⊢
  rw [find_subA]
  cases hfind : casg.find? (fun e => e.1 == vm) with
  | none =>
    rw [hfind] at hx
    exact allowedFor_subst S al au hsub σ hσ t ht vm x hx
  | some e =>
    rw [hfind] at hx
    simp only [List.contains_eq_mem, decide_eq_true_eq, mem_ite_singleton] at hx
    obtain ⟨h1, rfl⟩ := hx
    have hevm : e.1 = vm := by
      have := List.find?_some hfind
      simpa using this
    simp only [Option.map_some, List.contains_eq_mem, decide_eq_true_eq, mem_ite_singleton, hevm]
    exact ⟨allowedFor_subst S al au hsub σ hσ t ht vm e.2 h1, trivial⟩

theorem product_subst (g f' : String → List String) (φ : String → String → String)
    (h : ∀ vm v, v ∈ g vm → φ vm v ∈ f' vm) :
    ∀ (vms : List String) (a : Asg), a ∈ product (vms.map (fun vm => (vm, g vm))) →
      a.map (fun e => (e.1, φ e.1 e.2)) ∈ product (vms.map (fun vm => (vm, f' vm)))
  | [], a, ha => by
    simp only [List.map_nil, product, List.mem_singleton] at ha ⊢
    subst ha; rfl
  | vm :: rest, a, ha => by
    simp only [List.map_cons, product, List.mem_flatMap, List.mem_map] at ha ⊢
    obtain ⟨v, hv, a', ha', rfl⟩ := ha
    exact ⟨φ vm v, h vm v hv, _, product_subst g f' φ h rest a' ha', rfl⟩

theorem asgs_subst (S : Suite) (al au : String → List String) (hsub : ∀ vm v, v ∈ al vm → v ∈ au vm)
    (σ : String → String) (hσ : SubstOK S al au σ) (casg : Asg) (t : Test) (ht : t ∈ S.tests)
    (vms : List String) (a : Asg) (ha : a ∈ asgs au casg t vms) :
    subA al σ a ∈ asgs al (subA al σ casg) t vms :=
  product_subst (fun vm => choices au casg t vm) (fun vm => choices al (subA al σ casg) t vm) (subV al σ)
    (fun vm v hv => choices_subst S al au hsub σ hσ casg t ht vm v hv) vms a ha

theorem cands_subst (S : Suite) (al au : String → List String) (hsub : ∀ vm v, v ∈ al vm → v ∈ au vm)
    (σ : String → String) (hσ : SubstOK S al au σ) (casg : Asg) (s : Slot) (t : Test) (a : Asg)
    (h : (t, a) ∈ cands S au casg s) : (t, subA al σ a) ∈ cands S al (subA al σ casg) s := by
  rw [mem_cands] at h ⊢
  obtain ⟨h1, h2, h3, h4, h5⟩ := h
  exact ⟨h1, h2, h3, h4, asgs_subst S al au hsub σ hσ casg t h1 _ a h5⟩

theorem leafAsgs_subst (S : Suite) (al au : String → List String) (hsub : ∀ vm v, v ∈ al vm → v ∈ au vm)
    (σ : String → String) (hσ : SubstOK S al au σ) (t : Test) (ht : t ∈ S.tests) (a : Asg)
    (ha : a ∈ leafAsgs S au t) : subA al σ a ∈ leafAsgs S al t :=
  asgs_subst S al au hsub σ hσ [] t ht _ a ha

/-- every unrestricted dependency path becomes a restricted one when excluded variants are replaced -/
theorem Dep_subst (S : Suite) (al au : String → List String) (hsub : ∀ vm v, v ∈ al vm → v ∈ au vm)
    (σ : String → String) (hσ : SubstOK S al au σ)
    {f : Nat} {t : Test} {a : Asg} {g : Nat} {t' : Test} {a' : Asg} (h : Dep S au f t a g t' a') :
    Dep S al f t (subA al σ a) g t' (subA al σ a') := by
  induction h with
  | refl f t a => exact Dep.refl _ _ _
  | step f t a s t1 a1 g t' a' hs hc _ ih =>
    refine Dep.step _ _ _ s t1 (subA al σ a1) _ _ _ ?_ (cands_subst S al au hsub σ hσ a s t1 a1 hc) ih
    rw [instSlots_subA]; exact hs

/-! ## fuel never runs out under a bounded acyclicity rank -/

theorem Dep_rank (S : Suite) (allow : String → List String) (rk : Name → Nat) (hrk : RankOK S rk)
    {f : Nat} {t : Test} {a : Asg} {g : Nat} {t' : Test} {a' : Asg} (h : Dep S allow f t a g t' a')
    (ht : t ∈ S.tests) (hf : rk t.name < f) : t' ∈ S.tests ∧ rk t'.name < g := by
  induction h with
  | refl f t a => exact ⟨ht, hf⟩
  | step f t a s t1 a1 g t' a' hs hc _ ih =>
    obtain ⟨ht1, hg, hcon, _, _⟩ := (mem_cands S allow a s t1 a1).mp hc
    obtain ⟨s0, hs0, hget, _⟩ := instSlots_get t a s hs
    have := hrk t ht s0 hs0 t1 ht1 (hget ▸ hg) (hget ▸ hcon)
    exact ih ht1 (by omega)

theorem cands_rank (S : Suite) (allow : String → List String) (rk : Name → Nat) (hrk : RankOK S rk)
    (t : Test) (ht : t ∈ S.tests) (a : Asg) (s : Slot) (hs : s ∈ instSlots t a) (t1 : Test) (a1 : Asg)
    (hc : (t1, a1) ∈ cands S allow a s) : rk t1.name < rk t.name := by
  obtain ⟨ht1, hg, hcon, _, _⟩ := (mem_cands S allow a s t1 a1).mp hc
  obtain ⟨s0, hs0, hget, _⟩ := instSlots_get t a s hs
  exact hrk t ht s0 hs0 t1 ht1 (hget ▸ hg) (hget ▸ hcon)

/-! ## nodes and edges of the restricted copy versus the unrestricted copy (abstract `al ⊆ au`) -/

theorem bare_restrict_subset (S : Suite) (al au : String → List String) (hsub : ∀ vm v, v ∈ al vm → v ∈ au vm)
    (sel : List RLine) (x : Name × Asg) (hx : x ∈ (workerNodes S al sel).map Inst.bare) :
    x ∈ (workerNodes S au sel).map Inst.bare ∧ ∀ e ∈ x.2, e.2 ∈ al e.1 := by
  obtain ⟨t, ht, a, ha, g, t', a', hd, rfl⟩ := (mem_bare_workerNodes S al sel x).mp hx
  obtain ⟨ha1, ha2⟩ := (leafAsgs_restrict S al au hsub t a).mp ha
  exact ⟨(mem_bare_workerNodes S au sel _).mpr ⟨t, ht, a, ha1, g, t', a', Dep_mono S al au hsub hd, rfl⟩,
    Dep_ok S al hd ha2⟩

theorem bare_restrict_subst (S : Suite) (al au : String → List String) (hsub : ∀ vm v, v ∈ al vm → v ∈ au vm)
    (σ : String → String) (hσ : SubstOK S al au σ) (sel : List RLine) (x : Name × Asg)
    (hx : x ∈ (workerNodes S au sel).map Inst.bare) (hok : ∀ e ∈ x.2, e.2 ∈ al e.1) :
    x ∈ (workerNodes S al sel).map Inst.bare := by
  obtain ⟨t, ht, a, ha, g, t', a', hd, rfl⟩ := (mem_bare_workerNodes S au sel x).mp hx
  have hd' := Dep_subst S al au hsub σ hσ hd
  rw [subA_id al σ a' hok] at hd'
  exact (mem_bare_workerNodes S al sel _).mpr
    ⟨t, ht, _, leafAsgs_subst S al au hsub σ hσ t (selected_subset S sel t ht) a ha, g, t', a', hd', rfl⟩

theorem PEdge_mono (S : Suite) (al au : String → List String) (hsub : ∀ vm v, v ∈ al vm → v ∈ au vm)
    (sel : List RLine) (x y : Name × Asg) (h : PEdge S al sel x y) :
    PEdge S au sel x y ∧ ∀ e ∈ y.2, e.2 ∈ al e.1 := by
  obtain ⟨t0, ht0, a0, ha0, f, t, a, s, t1, a1, hd, hx, hs, hc, rfl⟩ := h
  obtain ⟨hc1, hc2⟩ := (cands_restrict S al au hsub a s t1 a1).mp hc
  exact ⟨⟨t0, ht0, a0, ((leafAsgs_restrict S al au hsub t0 a0).mp ha0).1, f, t, a, s, t1, a1,
    Dep_mono S al au hsub hd, hx, hs, hc1, rfl⟩, hc2⟩

/-- test names identify the tests of the suite -/
def UniqueNames (S : Suite) : Prop := ∀ t ∈ S.tests, ∀ t' ∈ S.tests, t.name = t'.name → t = t'

/-- the acyclicity rank stays below the resolver's fuel (always achievable for an acyclic suite: the fuel is the
number of tests plus one) -/
def RankBound (S : Suite) (rk : Name → Nat) : Prop := ∀ t ∈ S.tests, rk t.name < S.fuel

theorem countP_lt {α : Type} (p q : α → Bool) :
    ∀ (l : List α), (∀ x ∈ l, p x = true → q x = true) → ∀ a ∈ l, q a = true → p a = false →
      l.countP p < l.countP q
  | [], _, a, ha, _, _ => by cases ha
  | x :: xs, h, a, ha, hq, hp => by
    have hxs : ∀ y ∈ xs, p y = true → q y = true := fun y hy => h y (List.mem_cons_of_mem _ hy)
    have hle : xs.countP p ≤ xs.countP q := List.countP_mono_left hxs
    rcases List.mem_cons.mp ha with rfl | ha'
    · simp only [List.countP_cons, hq, hp]
      simp only [if_true, Bool.false_eq_true, if_false]
      omega
    · have ih := countP_lt p q xs hxs a ha' hq hp
      have hx := h x (List.mem_cons_self ..)
      simp only [List.countP_cons]
      cases hpx : p x
      · simp only [Bool.false_eq_true, if_false]
        split <;> omega
      · simp only [hx hpx, if_true]
        omega

/-- every acyclicity rank can be replaced by one below the resolver's fuel: count the tests of smaller rank -/
theorem rank_bounded (S : Suite) (rk : Name → Nat) (hrk : RankOK S rk) :
    ∃ rk', RankOK S rk' ∧ RankBound S rk' := by
  refine ⟨fun n => S.tests.countP (fun t => decide (rk t.name < rk n)), ?_, ?_⟩
  · intro t ht s hs t' ht' hg hc
    have hlt := hrk t ht s hs t' ht' hg hc
    refine countP_lt _ _ S.tests ?_ t' ht' ?_ ?_
    · intro x _ hx
      simp only [decide_eq_true_eq] at hx ⊢
      omega
    · simpa using hlt
    · simp
  · intro t _
    have := List.countP_le_length (p := fun t' : Test => decide (rk t'.name < rk t.name)) (l := S.tests)
    simp only [Suite.fuel]
    omega

theorem PEdge_restrict_back (S : Suite) (al au : String → List String) (hsub : ∀ vm v, v ∈ al vm → v ∈ au vm)
    (hun : UniqueNames S) (rk : Name → Nat) (hrk : RankOK S rk) (hb : RankBound S rk)
    (sel : List RLine) (x y : Name × Asg) (hx : x ∈ (workerNodes S al sel).map Inst.bare)
    (h : PEdge S au sel x y) (hok : ∀ e ∈ y.2, e.2 ∈ al e.1) : PEdge S al sel x y := by
  obtain ⟨t0', ht0', a0', ha0', g, t', a', hd', rfl⟩ := (mem_bare_workerNodes S al sel x).mp hx
  obtain ⟨t0, ht0, a0, _, f, t, a, s, t1, a1, hd, hxe, hs, hc, rfl⟩ := h
  have ht0m := selected_subset S sel t0 ht0
  have ht0m' := selected_subset S sel t0' ht0'
  obtain ⟨htm, _⟩ := Dep_rank S au rk hrk hd ht0m (hb t0 ht0m)
  obtain ⟨htm', hrk'⟩ := Dep_rank S al rk hrk hd' ht0m' (hb t0' ht0m')
  simp only [Prod.mk.injEq] at hxe
  obtain ⟨hn, rfl⟩ := hxe
  have : t' = t := hun t' htm' t htm hn
  subst this
  have hlt := cands_rank S au rk hrk t' htm' a' s hs t1 a1 hc
  obtain ⟨g', rfl⟩ : ∃ g', g = g' + 1 := ⟨g - 1, by omega⟩
  exact ⟨t0', ht0', a0', ha0', g', t', a', s, t1, a1, hd', rfl, hs,
    (cands_restrict S al au hsub a' s t1 a1).mpr ⟨hc, hok⟩, rfl⟩

/-- the least set of bare nodes containing `leaves` and closed under `par`-steps to nodes satisfying `ok` -/
inductive Needed (leaves : Name × Asg → Prop) (par : Name × Asg → Name × Asg → Prop) (ok : Asg → Prop) :
    Name × Asg → Prop
  | leaf (x : Name × Asg) : leaves x → Needed leaves par ok x
  | step (x y : Name × Asg) : Needed leaves par ok x → par x y → ok y.2 → Needed leaves par ok y

theorem Needed.imp {leaves leaves' : Name × Asg → Prop} {par par' : Name × Asg → Name × Asg → Prop}
    {ok ok' : Asg → Prop} (hl : ∀ x, leaves x → leaves' x) (hp : ∀ x y, par x y → par' x y)
    (ho : ∀ a, ok a → ok' a) {x : Name × Asg} (h : Needed leaves par ok x) : Needed leaves' par' ok' x := by
  induction h with
  | leaf x h => exact Needed.leaf x (hl x h)
  | step x y _ h1 h2 ih => exact Needed.step x y ih (hp x y h1) (ho _ h2)

/-- what of the unrestricted copy (`au`) a worker restricted to `al` still needs: start at the selected tests
composed with variants `al` allows, follow the edges of the unrestricted copy to parents on allowed variants -/
def NeededA (S : Suite) (al au : String → List String) (sel : List RLine) : Name × Asg → Prop :=
  Needed (fun x => ∃ t ∈ selected S sel, x.1 = t.name ∧ x.2 ∈ leafAsgs S al t)
    (fun x y => y ∈ bareParents (workerNodes S au sel) x) (fun a => ∀ e ∈ a, e.2 ∈ al e.1)

theorem needed_of_dep (S : Suite) (al au : String → List String) (hsub : ∀ vm v, v ∈ al vm → v ∈ au vm)
    (sel : List RLine) {f : Nat} {t : Test} {a : Asg} {g : Nat} {t' : Test} {a' : Asg}
    (h : Dep S al f t a g t' a')
    (hpath : ∃ t0 ∈ selected S sel, ∃ a0 ∈ leafAsgs S au t0, Dep S au S.fuel t0 a0 f t a)
    (hn : NeededA S al au sel (t.name, a)) (hg : 1 ≤ g) : NeededA S al au sel (t'.name, a') := by
  induction h with
  | refl f t a => exact hn
  | step f t a s t1 a1 g t' a' hs hc hd ih =>
    have hle := hd.le
    obtain ⟨f', rfl⟩ : ∃ f', f = f' + 1 := ⟨f - 1, by omega⟩
    obtain ⟨t0, ht0, a0, ha0, hp⟩ := hpath
    obtain ⟨hc1, hc2⟩ := (cands_restrict S al au hsub a s t1 a1).mp hc
    refine ih ⟨t0, ht0, a0, ha0, hp.snoc s t1 a1 hs hc1⟩ ?_ hg
    refine Needed.step (t.name, a) (t1.name, a1) hn ?_ hc2
    exact (mem_bareParents_workerNodes S au sel _ _).mpr ⟨t0, ht0, a0, ha0, f', t, a, s, t1, a1, hp, rfl, hs, hc1, rfl⟩

/-- every node of the restricted copy is needed in the above sense (no hypothesis on the suite) -/
theorem needed_of_bare (S : Suite) (al au : String → List String) (hsub : ∀ vm v, v ∈ al vm → v ∈ au vm)
    (sel : List RLine) (x : Name × Asg) (hx : x ∈ (workerNodes S al sel).map Inst.bare) :
    NeededA S al au sel x := by
  obtain ⟨t, ht, a, ha, g, t', a', hd, rfl⟩ := (mem_bare_workerNodes S al sel x).mp hx
  refine needed_of_dep S al au hsub sel hd
    ⟨t, ht, a, ((leafAsgs_restrict S al au hsub t a).mp ha).1, Dep.refl _ _ _⟩ ?_ (by omega)
  exact Needed.leaf _ ⟨t, ht, rfl, ha⟩

theorem bare_of_needed (S : Suite) (al au : String → List String) (hsub : ∀ vm v, v ∈ al vm → v ∈ au vm)
    (hun : UniqueNames S) (rk : Name → Nat) (hrk : RankOK S rk) (hb : RankBound S rk)
    (sel : List RLine) (x : Name × Asg) (hx : NeededA S al au sel x) :
    x ∈ (workerNodes S al sel).map Inst.bare := by
  induction hx with
  | leaf x hl =>
    obtain ⟨t, ht, hn, ha⟩ := hl
    exact (mem_bare_workerNodes S al sel x).mpr
      ⟨t, ht, x.2, ha, S.tests.length, t, x.2, Dep.refl _ _ _, by rw [← hn]⟩
  | step x y _ hpar hok ih =>
    have hp := (mem_bareParents_workerNodes S au sel x y).mp hpar
    exact PEdge_target S al sel x y (PEdge_restrict_back S al au hsub hun rk hrk hb sel x y ih hp hok)

/-! ## the copies of concrete workers -/

/-- the (test, per-vm variant assignment) pairs of a worker's copy -/
def copyTests (S : Suite) (user : List (String × VLine)) (sel : List RLine) (w : Worker) : List (Name × Asg) :=
  (resolveWorker S user sel w).nodes.map (fun n => n.inst.key.bare)

/-- the parents of the bare node `x` along the edges of a worker's copy, labels erased -/
def copyParents (S : Suite) (user : List (String × VLine)) (sel : List RLine) (w : Worker) (x : Name × Asg) :
    List (Name × Asg) :=
  ((resolveWorker S user sel w).edges.filter (fun e => decide (e.child.bare = x))).map (fun e => e.parent.bare)

theorem copyTests_eq (S : Suite) (user : List (String × VLine)) (sel : List RLine) (w : Worker) :
    copyTests S user sel w = (workerNodes S (allowed S user w) sel).map Inst.bare := by
  simp only [copyTests, resolveWorker, List.map_map]
  rfl

theorem mem_copyParents (S : Suite) (user : List (String × VLine)) (sel : List RLine) (w : Worker)
    (x y : Name × Asg) :
    y ∈ copyParents S user sel w x ↔ y ∈ bareParents (workerNodes S (allowed S user w) sel) x := by
  simp only [copyParents, List.mem_map, List.mem_filter, decide_eq_true_eq, mem_bareParents]
  constructor
  · rintro ⟨e, ⟨he, hc⟩, hp⟩
    obtain ⟨_, i, hi, hk, hpar⟩ := (mem_worker_edges S user sel w e).mp he
    exact ⟨i, hi, by rw [Inst.bare, hk]; exact hc, _, hpar, hp⟩
  · rintro ⟨i, hi, hx, e, he, hy⟩
    exact ⟨⟨w.name, i.key, e.1, e.2.1, e.2.2⟩,
      ⟨(mem_worker_edges S user sel w _).mpr ⟨rfl, i, hi, rfl, he⟩, hx⟩, hy⟩

theorem allowed_sub (S : Suite) (user : List (String × VLine)) (w v : Worker) (hv : v.restr = []) :
    ∀ vm x, x ∈ allowed S user w vm → x ∈ allowed S user v vm := by
  intro vm x hx
  simp only [allowed, hv, List.filter_nil, List.foldl_nil] at hx ⊢
  exact (foldl_applyV_sublist _ _).subset hx

theorem lookupD_nil (l : List (String × List String)) (k : String) (h : k ∉ l.map Prod.fst) :
    lookupD l k [] = [] := by
  unfold lookupD
  cases hf : l.find? (fun e => e.1 == k) with
  | none => rfl
  | some e =>
    exfalso
    have h1 := List.mem_of_find?_eq_some hf
    have h2 := List.find?_some hf
    simp only [beq_iff_eq] at h2
    exact h (List.mem_map.mpr ⟨e, h1, h2⟩)

/-- a vm the suite does not define has no variants for any worker -/
theorem allowed_nil (S : Suite) (user : List (String × VLine)) (w : Worker) (vm : String)
    (h : vm ∉ S.variants.map Prod.fst) : allowed S user w vm = [] := by
  simp only [allowed, lookupD_nil S.variants vm h]
  have h1 := List.sublist_nil.mp (foldl_applyV_sublist (user.filter (fun e => e.1 == vm)) [])
  rw [h1]
  exact List.sublist_nil.mp (foldl_applyV_sublist _ [])

/-! ## suites for the counterexamples and non-vacuity examples of C09 -/
namespace RDemo
open Demo

/-- only the tests listed under `leaves` -/
def selLeaves : List RLine := [{ neg := false, alts := [[["leaves"]]] }]

/-- a two-vm leaf that needs the one-vm creation test on its first vm -/
def tPair : Test :=
  ⟨["quick", "p"], ["vm1", "vm2"], false, [["all"], ["leaves"]], [⟨"vm1", "images", ["install"], "install", ""⟩], []⟩

/-- the same leaf supporting only variant `X` of vm2 -/
def tPairX : Test := { tPair with only := [("vm2", ["X"])] }

/-- cx1: the restriction leaves no variant of vm2 -/
def cx1 : Suite := ⟨[("vm1", ["A"]), ("vm2", ["X"])], "vm1", [tInstall, tPair]⟩
/-- cx2: vm2 keeps variant `Y`, but the only dependant supports `X` alone -/
def cx2 : Suite := ⟨[("vm1", ["A"]), ("vm2", ["X", "Y"])], "vm1", [tInstall, tPairX]⟩

def free : Worker := ⟨"net1", []⟩
def noX : Worker := ⟨"net2", [("vm2", (true, ["X"]))]⟩

/-- cx3 / labels: `d` on vm1 needs `m`, which is composed on vm1 and every variant of vm2 (two producers for an
unrestricted worker: `d` is cloned); `m` needs `install` on vm1 -/
def tM : Test :=
  ⟨["internal", "m"], ["vm1", "vm2"], false, [["all"]], [⟨"vm1", "images", ["install"], "install", "mst"⟩], []⟩
def tD1 : Test :=
  ⟨["quick", "d"], ["vm1"], false, [["all"], ["leaves"]], [⟨"vm1", "images", ["m"], "", ""⟩], []⟩
def cx3 : Suite := ⟨[("vm1", ["A"]), ("vm2", ["X", "Y"])], "vm1", [tInstall, tM, tD1]⟩
def onlyX : Worker := ⟨"net2", [("vm2", (false, ["X"]))]⟩
def noXY : Worker := ⟨"net3", [("vm2", (true, ["X", "Y"]))]⟩
def rk3 (n : Name) : Nat :=
  if n == ["original", "install"] then 0 else if n == ["internal", "m"] then 1 else 2

/-- the demo suite's worker restricted to variant `A` of vm1 -/
def onlyA : Worker := ⟨"net2", [("vm1", (false, ["A"]))]⟩

end RDemo

end I2N.Resolve
