import I2N.Lemmas.TravProgress
/-!
The exact form of the location theorem of C08.

Part 1 (strings): a blank-free needle contained in `a ++ " " ++ b` is contained in `a` or in `b`
(`strIn_join_split`); hence, for a *separated* universe `U` of location strings (`Sep U`: blank-free, non-empty,
none a substring of another), the substring test of `locAdd` against a joined entry is a membership test in the
list of joined tokens (`strIn_joinLocs_iff`).

Part 2 (`locAdd`, `pullLocations`): `TokAt U cur vm L` — the entry of `vm` in `cur` is the blank-join of the
duplicate-free token list `L ⊆ U` (no entry when `L = []`); `locAdd` is `pushNew` on tokens, `pullLocations` folds
`pushNew` over the sequence `seqOf` of the locations of the setup edges through `vm` (`pullLocations_tok`).

Part 3 (runs): the invariant `LInv` over all reachable states (every `get_location` entry of every copy is the join
of a duplicate-free list of locations each justified by a passing result of a setup parent) and the provenance of the
`locs` field of every start event (`resume_locs`).
-/
namespace I2N.Trav

/-! ## Part 1: a blank-free needle -/

theorem isPrefixChars_blank (x a b : List Char) (hx : ' ' ∉ x) (h : isPrefixChars x (a ++ ' ' :: b) = true) :
    isPrefixChars x a = true := by
  induction a generalizing x with
  | nil =>
    cases x with
    | nil => rfl
    | cons c x =>
      simp only [List.nil_append, isPrefixChars, Bool.and_eq_true, beq_iff_eq] at h
      exact absurd (by rw [h.1]; exact List.mem_cons_self) hx
  | cons d a ih =>
    cases x with
    | nil => rfl
    | cons c x =>
      simp only [List.cons_append, isPrefixChars, Bool.and_eq_true] at h ⊢
      exact ⟨h.1, ih x (fun hm => hx (List.mem_cons_of_mem _ hm)) h.2⟩

/-- a blank-free needle found in `a ++ ' ' :: b` lies in `a` or in `b` -/
theorem containsChars_blank (x a b : List Char) (hx : ' ' ∉ x) (h : containsChars (a ++ ' ' :: b) x = true) :
    containsChars a x = true ∨ containsChars b x = true := by
  induction a with
  | nil =>
    simp only [List.nil_append, containsChars, Bool.or_eq_true] at h
    rcases h with h | h
    · left
      have h0 := isPrefixChars_blank x [] b hx h
      cases x with
      | nil => rfl
      | cons c x => simp [isPrefixChars] at h0
    · exact Or.inr h
  | cons d a ih =>
    simp only [List.cons_append, containsChars, Bool.or_eq_true] at h ⊢
    rcases h with h | h
    · exact Or.inl (Or.inl (isPrefixChars_blank x (d :: a) b hx h))
    · rcases ih h with h' | h'
      · exact Or.inl (Or.inr h')
      · exact Or.inr h'

/-- **(a)** Python's `x in a + " " + b` for a blank-free `x`: `x in a or x in b` -/
theorem strIn_join_split (x a b : String) (hx : ' ' ∉ x.toList) (h : strIn x (a ++ " " ++ b) = true) :
    strIn x a = true ∨ strIn x b = true := by
  unfold strIn at h ⊢
  simp only [String.toList_append, List.append_assoc] at h
  exact containsChars_blank x.toList a.toList b.toList hx h

theorem strIn_join_iff (x a b : String) (hx : ' ' ∉ x.toList) :
    strIn x (a ++ " " ++ b) = true ↔ strIn x a = true ∨ strIn x b = true :=
  ⟨strIn_join_split x a b hx, fun h => h.elim (strIn_join_left x a b) (strIn_join_right x a b)⟩

/-! ### the join of a token list -/

/-- the step of `joinLocs` -/
def joinStep (acc loc : String) : String := if acc == "" then loc else acc ++ " " ++ loc

theorem joinLocs_eq_foldl (L : List String) : joinLocs L = L.foldl joinStep "" := rfl

theorem append_blank_ne_empty (a b : String) : a ++ " " ++ b ≠ "" := by
  intro h
  have := congrArg String.toList h
  simp [String.toList_append] at this

theorem joinStep_eq_empty (acc loc : String) (hl : loc ≠ "") : joinStep acc loc ≠ "" := by
  unfold joinStep
  split
  · exact hl
  · exact append_blank_ne_empty acc loc

theorem foldl_joinStep_ne_empty (L : List String) (acc : String) (hne : ∀ l ∈ L, l ≠ "") (h : acc ≠ "" ∨ L ≠ []) :
    L.foldl joinStep acc ≠ "" := by
  induction L generalizing acc with
  | nil => rcases h with h | h; exact h; exact absurd rfl h
  | cons l r ih =>
    simp only [List.foldl_cons]
    exact ih _ (fun x hx => hne x (List.mem_cons_of_mem _ hx)) (Or.inl (joinStep_eq_empty acc l (hne l List.mem_cons_self)))

theorem joinLocs_ne_empty (L : List String) (hne : ∀ l ∈ L, l ≠ "") (h : L ≠ []) : joinLocs L ≠ "" :=
  foldl_joinStep_ne_empty L "" hne (Or.inr h)

theorem strIn_empty_false (x : String) (hx : x ≠ "") : strIn x "" = false := by
  cases h : strIn x "" with
  | false => rfl
  | true => exact absurd (strIn_of_in_empty x h) hx

theorem strIn_joinStep (x acc loc : String) (hb : ' ' ∉ x.toList) (hx : x ≠ "") :
    strIn x (joinStep acc loc) = true ↔ strIn x acc = true ∨ strIn x loc = true := by
  unfold joinStep
  by_cases he : acc = ""
  · subst he
    simp [strIn_empty_false x hx]
  · have : (acc == "") = false := by simpa using he
    simp only [this, Bool.false_eq_true, if_false]
    exact strIn_join_iff x acc loc hb

theorem strIn_foldl_joinStep (x : String) (hb : ' ' ∉ x.toList) (hx : x ≠ "") (L : List String) (acc : String) :
    strIn x (L.foldl joinStep acc) = true ↔ strIn x acc = true ∨ ∃ l ∈ L, strIn x l = true := by
  induction L generalizing acc with
  | nil => simp
  | cons l r ih =>
    simp only [List.foldl_cons, ih, strIn_joinStep x acc l hb hx, List.mem_cons, exists_eq_or_imp, or_assoc]

/-- a blank-free non-empty needle is in a join iff it is in one of the joined tokens -/
theorem strIn_joinLocs (x : String) (hb : ' ' ∉ x.toList) (hx : x ≠ "") (L : List String) :
    strIn x (joinLocs L) = true ↔ ∃ l ∈ L, strIn x l = true := by
  rw [joinLocs_eq_foldl, strIn_foldl_joinStep x hb hx]
  simp [strIn_empty_false x hx]

/-- a separated universe of tokens: blank-free, non-empty, and none is a substring of another -/
structure Sep (U : List String) : Prop where
  blank : ∀ a ∈ U, ' ' ∉ a.toList
  ne : ∀ a ∈ U, a ≠ ""
  sub : ∀ a ∈ U, ∀ b ∈ U, strIn a b = true → a = b

/-- on a separated universe the duplicate test of `locAdd` is the membership test in the token list -/
theorem strIn_joinLocs_iff {U : List String} (hU : Sep U) (x : String) (hx : x ∈ U) (L : List String)
    (hL : ∀ l ∈ L, l ∈ U) : strIn x (joinLocs L) = true ↔ x ∈ L := by
  rw [strIn_joinLocs x (hU.blank x hx) (hU.ne x hx)]
  constructor
  · rintro ⟨l, hl, h⟩
    rw [hU.sub x hx l (hL l hl) h]; exact hl
  · intro h; exact ⟨x, h, strIn_self x⟩

/-! ## Part 2: tokens -/

/-- append unless present -/
def pushNew {α} [DecidableEq α] (L : List α) (a : α) : List α := if a ∈ L then L else L ++ [a]

/-- first occurrences, in order -/
def dedupFirst {α} [DecidableEq α] (l : List α) : List α := l.foldl pushNew []

section pushNew
variable {α : Type} [DecidableEq α]

theorem mem_pushNew (L : List α) (a x : α) : x ∈ pushNew L a ↔ x ∈ L ∨ x = a := by
  unfold pushNew
  split
  · next h => constructor
              · exact Or.inl
              · rintro (h' | h'); exact h'; rw [h']; exact h
  · simp

theorem nodup_pushNew (L : List α) (a : α) (h : L.Nodup) : (pushNew L a).Nodup := by
  unfold pushNew
  split
  · exact h
  · next hn =>
    rw [List.nodup_append]
    refine ⟨h, by simp, ?_⟩
    intro x hx y hy
    simp only [List.mem_singleton] at hy
    rw [hy]; intro he; rw [he] at hx; exact hn hx

theorem pushNew_idem (L : List α) (a : α) : pushNew (pushNew L a) a = pushNew L a := by
  have h : a ∈ pushNew L a := (mem_pushNew L a a).mpr (Or.inr rfl)
  generalize pushNew L a = M at h ⊢
  unfold pushNew
  simp [h]

theorem mem_foldl_pushNew (l L : List α) (x : α) : x ∈ l.foldl pushNew L ↔ x ∈ L ∨ x ∈ l := by
  induction l generalizing L with
  | nil => simp
  | cons a r ih => simp only [List.foldl_cons, ih, mem_pushNew, List.mem_cons, or_assoc]

theorem nodup_foldl_pushNew (l L : List α) (h : L.Nodup) : (l.foldl pushNew L).Nodup := by
  induction l generalizing L with
  | nil => exact h
  | cons a r ih => simp only [List.foldl_cons]; exact ih _ (nodup_pushNew L a h)

/-- tokens are only appended -/
theorem prefix_foldl_pushNew (l L : List α) : L <+: l.foldl pushNew L := by
  induction l generalizing L with
  | nil => exact List.prefix_refl L
  | cons a r ih =>
    simp only [List.foldl_cons]
    refine List.IsPrefix.trans ?_ (ih _)
    unfold pushNew
    split
    · exact List.prefix_refl L
    · exact List.prefix_append L [a]

/-- offering tokens that are all present changes nothing (`locAdd` is idempotent on separated strings) -/
theorem foldl_pushNew_of_subset (l L : List α) (h : ∀ x ∈ l, x ∈ L) : l.foldl pushNew L = L := by
  induction l with
  | nil => rfl
  | cons a r ih =>
    simp only [List.foldl_cons]
    have : pushNew L a = L := by unfold pushNew; simp [h a List.mem_cons_self]
    rw [this]
    exact ih (fun x hx => h x (List.mem_cons_of_mem _ hx))

theorem mem_dedupFirst (l : List α) (x : α) : x ∈ dedupFirst l ↔ x ∈ l := by
  unfold dedupFirst; rw [mem_foldl_pushNew]; simp

theorem nodup_dedupFirst (l : List α) : (dedupFirst l).Nodup := nodup_foldl_pushNew l [] List.nodup_nil

/-- a head that does not occur again stays the head -/
theorem foldl_pushNew_cons (a : α) (M X : List α) (h : a ∉ X) :
    X.foldl pushNew (a :: M) = a :: X.foldl pushNew M := by
  induction X generalizing M with
  | nil => rfl
  | cons x r ih =>
    simp only [List.foldl_cons]
    have hx : x ≠ a := fun he => h (by rw [he]; exact List.mem_cons_self)
    have hr : a ∉ r := fun hm => h (List.mem_cons_of_mem _ hm)
    have : pushNew (a :: M) x = a :: pushNew M x := by
      unfold pushNew
      by_cases hm : x ∈ M
      · simp [hm]
      · simp [hm, hx]
    rw [this, ih _ hr]

/-- blocks that all start with the same head `a`: the repeated heads are swallowed -/
theorem foldl_pushNew_blocks {β} (a : α) (B : β → List α) (hB : ∀ e, a ∉ B e) (E : List β) (M : List α) :
    (E.flatMap (fun e => a :: B e)).foldl pushNew (a :: M) = (E.flatMap B).foldl pushNew (a :: M) := by
  induction E generalizing M with
  | nil => rfl
  | cons e r ih =>
    simp only [List.flatMap_cons, List.foldl_append, List.foldl_cons]
    have h1 : pushNew (a :: M) a = a :: M := by unfold pushNew; simp
    rw [h1, foldl_pushNew_cons a M (B e) (hB e), ih]

end pushNew

/-- `pushNew` commutes with a map that is injective on the elements at hand -/
theorem foldl_pushNew_map {α β : Type} [DecidableEq α] [DecidableEq β] (f : α → β) (S : α → Prop)
    (hf : ∀ x y, S x → S y → f x = f y → x = y) (l L : List α) (hl : ∀ x ∈ l, S x) (hL : ∀ x ∈ L, S x) :
    (l.map f).foldl pushNew (L.map f) = (l.foldl pushNew L).map f := by
  induction l generalizing L with
  | nil => rfl
  | cons a r ih =>
    simp only [List.map_cons, List.foldl_cons]
    have ha : S a := hl a List.mem_cons_self
    have h1 : pushNew (L.map f) (f a) = (pushNew L a).map f := by
      unfold pushNew
      by_cases hm : a ∈ L
      · have : f a ∈ L.map f := List.mem_map_of_mem hm
        simp [hm, this]
      · have : f a ∉ L.map f := by
          intro hc
          obtain ⟨y, hy, he⟩ := List.mem_map.mp hc
          exact hm (by rw [← hf y a (hL y hy) ha he]; exact hy)
        simp [hm, this]
    rw [h1]
    apply ih _ (fun x hx => hl x (List.mem_cons_of_mem _ hx))
    intro x hx
    rcases (mem_pushNew L a x).mp hx with h | h
    · exact hL x h
    · rw [h]; exact ha

/-- the entry a token list stands for: no entry for the empty list -/
def enc (L : List String) : Option String := if L = [] then none else some (joinLocs L)

/-- the entry of `vm` in `cur` is the join of the duplicate-free token list `L ⊆ U` -/
structure TokAt (U : List String) (cur : List (String × String)) (vm : String) (L : List String) : Prop where
  sub : ∀ t ∈ L, t ∈ U
  nodup : L.Nodup
  entry : locOf cur vm = enc L

theorem tokAt_nil (U : List String) (vm : String) : TokAt U [] vm [] :=
  ⟨fun _ h => by simp at h, List.nodup_nil, rfl⟩

/-- `locAdd` is `pushNew` on the tokens of its vm -/
theorem tokAt_locAdd_same {U : List String} (hU : Sep U) {cur : List (String × String)} {vm : String} {L : List String}
    (h : TokAt U cur vm L) (loc : String) (hloc : loc ∈ U) : TokAt U (locAdd cur vm loc) vm (pushNew L loc) := by
  refine ⟨fun t ht => ?_, nodup_pushNew L loc h.nodup, ?_⟩
  · rcases (mem_pushNew L loc t).mp ht with h' | h'
    · exact h.sub t h'
    · rw [h']; exact hloc
  · rw [locOf_locAdd]
    simp only [if_true, h.entry]
    by_cases hL : L = []
    · subst hL
      simp only [enc, if_true]
      show some loc = _
      rfl
    · have hold : joinLocs L ≠ "" := joinLocs_ne_empty L (fun l hl => hU.ne l (h.sub l hl)) hL
      simp only [enc, hL, if_false]
      by_cases hm : loc ∈ L
      · have : strIn loc (joinLocs L) = true := (strIn_joinLocs_iff hU loc hloc L h.sub).mpr hm
        simp only [this, if_true]
        unfold pushNew
        simp [hm, hL]
      · have : strIn loc (joinLocs L) = false := by
          cases hc : strIn loc (joinLocs L) with
          | false => rfl
          | true => exact absurd ((strIn_joinLocs_iff hU loc hloc L h.sub).mp hc) hm
        have hbe : (joinLocs L == "") = false := by simpa using hold
        simp only [this, Bool.false_eq_true, if_false, hbe]
        unfold pushNew
        simp only [hm, if_false]
        have hne : L ++ [loc] ≠ [] := by simp
        simp only [hne, if_false]
        rw [joinLocs_append_singleton]
        simp [hbe]

theorem tokAt_locAdd_other {U : List String} {cur : List (String × String)} {vm vm' : String} {L : List String}
    (h : TokAt U cur vm L) (loc : String) (hv : vm ≠ vm') : TokAt U (locAdd cur vm' loc) vm L := by
  refine ⟨h.sub, h.nodup, ?_⟩
  rw [locOf_locAdd]
  simp only [hv, if_false]
  exact h.entry

/-! ### the three folds of `pullLocations` on tokens -/

theorem foldl_track {β} (I : State → Prop) (R : List String → State → Prop) (f : State → β → State)
    (h : List String → β → List String) (l : List β)
    (step : ∀ s b L, b ∈ l → I s → R L s → I (f s b) ∧ R (h L b) (f s b)) (s : State) (L : List String)
    (hI : I s) (hR : R L s) : I (l.foldl f s) ∧ R (l.foldl h L) (l.foldl f s) := by
  induction l generalizing s L with
  | nil => exact ⟨hI, hR⟩
  | cons a r ih =>
    simp only [List.foldl_cons]
    obtain ⟨h1, h2⟩ := step s a L List.mem_cons_self hI hR
    exact ih (fun s b L hb => step s b L (List.mem_cons_of_mem _ hb)) _ _ h1 h2

theorem foldl_if_vm (vm loc : String) (vms : List String) (L : List String) :
    vms.foldl (fun L vm' => if vm' = vm then pushNew L loc else L) L = if vm ∈ vms then pushNew L loc else L := by
  induction vms generalizing L with
  | nil => simp
  | cons v r ih =>
    simp only [List.foldl_cons, ih, List.mem_cons]
    by_cases hv : v = vm
    · subst hv
      simp [pushNew_idem]
    · have : ¬ vm = v := fun h => hv h.symm
      simp [hv, this]

theorem foldl_if_const (c : Prop) [Decidable c] (locs : List String) (L : List String) :
    locs.foldl (fun L loc => if c then pushNew L loc else L) L = if c then locs.foldl pushNew L else L := by
  by_cases hc : c
  · simp [hc]
  · simp only [hc, if_false]
    induction locs with
    | nil => rfl
    | cons a r ih => simpa using ih

theorem foldl_if_edges {β} (vm : String) (vmsOf : β → List String) (F : β → List String) (edges : List β) (L : List String) :
    edges.foldl (fun L e => if vm ∈ vmsOf e then (F e).foldl pushNew L else L) L =
      ((edges.filter (fun e => (vmsOf e).contains vm)).flatMap F).foldl pushNew L := by
  induction edges generalizing L with
  | nil => rfl
  | cons e r ih =>
    simp only [List.foldl_cons, ih, List.filter_cons]
    by_cases hv : vm ∈ vmsOf e
    · simp [hv]
    · simp [hv]

/-- the sequence of locations `pull_locations` offers to the entry of `vm`: for every setup edge through `vm`, in
dict order, the shared pool followed by the pools of the workers that passed the parent -/
def seqOf (g : Graph) (s : State) (n : Nat) (vm : String) : List String :=
  ((g.node n).setup.filter (fun e => e.2.contains vm)).flatMap (fun e => locsOf g s e.1)

/-- **`pull_locations` on tokens**: on a separated universe the entry of `vm` after the call is the join of the old
tokens followed by the new ones of `seqOf`, in order of first occurrence -/
theorem pullLocations_tok {U : List String} (hU : Sep U) (g : Graph) (s : State) (n : Nat)
    (hflat : (g.node n).flat = false) (hn : n < s.nodes.length) (hlocs : ∀ p, ∀ t ∈ locsOf g s p, t ∈ U)
    (vm : String) (L : List String) (h : TokAt U (s.nd n).getLoc vm L) :
    TokAt U ((pullLocations g s n).nd n).getLoc vm ((seqOf g s n vm).foldl pushNew L) := by
  rw [pullLocations_eq g s n hflat]
  let R : List String → State → Prop := fun L s1 => TokAt U (s1.nd n).getLoc vm L
  have inner : ∀ (loc : String), loc ∈ U → ∀ (vms : List String) s1 L, LocFrame s n s1 → R L s1 →
      LocFrame s n (vms.foldl (locStep n loc) s1) ∧
        R (if vm ∈ vms then pushNew L loc else L) (vms.foldl (locStep n loc) s1) := by
    intro loc hloc vms s1 L hf hr
    rw [← foldl_if_vm]
    refine foldl_track (LocFrame s n) R (locStep n loc) _ vms ?_ s1 L hf hr
    intro s2 vm' L2 _ hf2 hr2
    refine ⟨locFrame_locStep s n loc s2 vm' hf2, ?_⟩
    show TokAt U ((locStep n loc s2 vm').nd n).getLoc vm _
    rw [getLoc_locStep n loc s2 vm' hf2.1]
    by_cases hv : vm' = vm
    · subst hv
      simp only [if_true]
      exact tokAt_locAdd_same hU hr2 loc hloc
    · simp only [hv, if_false]
      exact tokAt_locAdd_other hr2 loc (fun h => hv h.symm)
  have middle : ∀ (locs : List String), (∀ t ∈ locs, t ∈ U) → ∀ (vms : List String) s1 L, LocFrame s n s1 → R L s1 →
      LocFrame s n (locs.foldl (fun s loc => vms.foldl (locStep n loc) s) s1) ∧
        R (if vm ∈ vms then locs.foldl pushNew L else L) (locs.foldl (fun s loc => vms.foldl (locStep n loc) s) s1) := by
    intro locs hlocs' vms s1 L hf hr
    rw [← foldl_if_const]
    refine foldl_track (LocFrame s n) R (fun s loc => vms.foldl (locStep n loc) s) _ locs ?_ s1 L hf hr
    intro s2 loc L2 hl hf2 hr2
    exact inner loc (hlocs' loc hl) vms s2 L2 hf2 hr2
  have outer := foldl_track (LocFrame s n) R
    (fun s e => (locsOf g s e.1).foldl (fun s loc => e.2.foldl (locStep n loc) s) s)
    (fun L e => if vm ∈ e.2 then (locsOf g s e.1).foldl pushNew L else L) (g.node n).setup
    (by
      intro s2 e L2 _ hf2 hr2
      have hle : locsOf g s2 e.1 = locsOf g s e.1 := by
        unfold locsOf; rw [sharedResultWorkerIds_congr g s s2 e.1 hf2.2]
      show LocFrame s n ((locsOf g s2 e.1).foldl _ s2) ∧ _
      rw [hle]
      exact middle (locsOf g s e.1) (hlocs e.1) e.2 s2 L2 hf2 hr2)
    s L ⟨hn, fun _ => rfl⟩ h
  have := outer.2
  rw [foldl_if_edges vm (fun e : Nat × List String => e.2) (fun e => locsOf g s e.1)] at this
  exact this

/-! ### the universe of a graph: `LocsSeparated` -/

/-- every location string `pull_locations` can list: the shared pool and the pool of every worker -/
def allLocs (g : Graph) : List String := sharedLoc :: (List.range g.workers.length).map (workerLoc g)

/-- **the separation hypothesis**: every location string is blank-free and no location string (of the shared pool or of
a worker) is a substring of the location string of another one — in particular distinct workers have distinct
location strings.  Decidable. -/
def LocsSeparated (g : Graph) : Prop :=
  (∀ a ∈ allLocs g, ' ' ∉ a.toList) ∧ (allLocs g).Pairwise (fun a b => strIn a b = false ∧ strIn b a = false)

instance (g : Graph) : Decidable (LocsSeparated g) := by unfold LocsSeparated; exact inferInstance

theorem pairwise_forall {α} {R : α → α → Prop} (hs : ∀ a b, R a b → R b a) {l : List α} (h : l.Pairwise R) :
    ∀ a ∈ l, ∀ b ∈ l, a ≠ b → R a b := by
  induction h with
  | nil => intro a ha; simp at ha
  | cons hx _ ih =>
    rename_i x r
    intro a ha b hb hab
    rcases List.mem_cons.mp ha with rfl | ha'
    · rcases List.mem_cons.mp hb with rfl | hb'
      · exact absurd rfl hab
      · exact hx b hb'
    · rcases List.mem_cons.mp hb with rfl | hb'
      · exact hs _ _ (hx a ha')
      · exact ih a ha' b hb' hab

theorem workerLoc_ne_empty (g : Graph) (v : Nat) : workerLoc g v ≠ "" := by
  intro h
  have := congrArg String.toList h
  simp [workerLoc, String.toList_append] at this

theorem LocsSeparated.sep {g : Graph} (h : LocsSeparated g) : Sep (allLocs g) where
  blank := h.1
  ne := by
    intro a ha
    rcases List.mem_cons.mp ha with rfl | ha
    · decide
    · obtain ⟨v, _, rfl⟩ := List.mem_map.mp ha
      exact workerLoc_ne_empty g v
  sub := by
    intro a ha b hb hab
    by_cases hne : a = b
    · exact hne
    exfalso
    have := pairwise_forall (R := fun a b => strIn a b = false ∧ strIn b a = false) (fun _ _ h => ⟨h.2, h.1⟩) h.2 a ha b hb hne
    rw [this.1] at hab
    cases hab

/-- distinct workers have distinct location strings -/
theorem LocsSeparated.inj {g : Graph} (h : LocsSeparated g) (v v' : Nat) (hv : v < g.workers.length)
    (hv' : v' < g.workers.length) (he : workerLoc g v = workerLoc g v') : v = v' := by
  by_cases hne : v = v'
  · exact hne
  exfalso
  have h2 := (List.pairwise_cons.mp h.2).2
  rw [List.pairwise_map] at h2
  have := pairwise_forall (R := fun a b => strIn (workerLoc g a) (workerLoc g b) = false ∧ strIn (workerLoc g b) (workerLoc g a) = false)
    (fun _ _ h => ⟨h.2, h.1⟩) h2 v (List.mem_range.mpr hv) v' (List.mem_range.mpr hv') hne
  rw [he, strIn_self] at this
  cases this.1

/-- no worker's location string is the shared pool's -/
theorem LocsSeparated.shared_ne {g : Graph} (h : LocsSeparated g) (v : Nat) (hv : v < g.workers.length) :
    sharedLoc ≠ workerLoc g v := by
  intro he
  have h1 := (List.pairwise_cons.mp h.2).1 (workerLoc g v) (List.mem_map.mpr ⟨v, List.mem_range.mpr hv, rfl⟩)
  rw [← he, strIn_self] at h1
  cases h1.1

theorem mem_sharedResultWorkerIds_lt (g : Graph) (s : State) (p v : Nat) (h : v ∈ sharedResultWorkerIds g s p) :
    v < g.workers.length := by
  unfold sharedResultWorkerIds at h
  rw [mem_dedupNat, List.mem_filterMap] at h
  obtain ⟨r, _, hr⟩ := h
  split at hr
  · cases hr
  · have := List.mem_of_find?_eq_some hr
    simpa using this

theorem locsOf_sub_allLocs (g : Graph) (s : State) (p : Nat) : ∀ t ∈ locsOf g s p, t ∈ allLocs g := by
  intro t ht
  unfold locsOf at ht
  unfold allLocs
  rcases List.mem_cons.mp ht with rfl | ht
  · exact List.mem_cons_self
  · obtain ⟨v, hv, rfl⟩ := List.mem_map.mp ht
    exact List.mem_cons_of_mem _ (List.mem_map.mpr ⟨v, List.mem_range.mpr (mem_sharedResultWorkerIds_lt g s p v hv), rfl⟩)

/-! ### the exact list -/

/-- the setup edges of `n` that carry the object `vm` -/
def edgesThrough (g : Graph) (n : Nat) (vm : String) : List (Nat × List String) :=
  (g.node n).setup.filter (fun e => e.2.contains vm)

/-- the workers with a passing result of a setup parent through `vm`, each once, in order of first occurrence -/
def passersThrough (g : Graph) (s : State) (n : Nat) (vm : String) : List Nat :=
  dedupFirst ((edgesThrough g n vm).flatMap (fun e => sharedResultWorkerIds g s e.1))

theorem nodup_passersThrough (g : Graph) (s : State) (n : Nat) (vm : String) : (passersThrough g s n vm).Nodup :=
  nodup_dedupFirst _

theorem mem_passersThrough (g : Graph) (s : State) (n : Nat) (vm : String) (v : Nat) :
    v ∈ passersThrough g s n vm ↔
      ∃ p vms, (p, vms) ∈ (g.node n).setup ∧ vm ∈ vms ∧ v ∈ sharedResultWorkerIds g s p := by
  unfold passersThrough edgesThrough
  rw [mem_dedupFirst, List.mem_flatMap]
  constructor
  · rintro ⟨⟨p, vms⟩, he, hv⟩
    rw [List.mem_filter] at he
    exact ⟨p, vms, he.1, by simpa using he.2, hv⟩
  · rintro ⟨p, vms, he, hvm, hv⟩
    exact ⟨(p, vms), List.mem_filter.mpr ⟨he, by simpa using hvm⟩, hv⟩

/-- the exact token list: the shared pool, then the pools of the passers in order of first occurrence — nothing when no
setup edge carries `vm` -/
def expectedLocs (g : Graph) (s : State) (n : Nat) (vm : String) : List String :=
  if edgesThrough g n vm = [] then [] else sharedLoc :: (passersThrough g s n vm).map (workerLoc g)

theorem dedupFirst_seqOf {g : Graph} (hsep : LocsSeparated g) (s : State) (n : Nat) (vm : String) :
    dedupFirst (seqOf g s n vm) = expectedLocs g s n vm := by
  unfold expectedLocs passersThrough seqOf
  show dedupFirst ((edgesThrough g n vm).flatMap _) = _
  generalize hE : edgesThrough g n vm = E
  cases E with
  | nil => rfl
  | cons e r =>
    simp only [reduceCtorEq, if_false]
    let B : Nat × List String → List String := fun e => (sharedResultWorkerIds g s e.1).map (workerLoc g)
    have hB : ∀ e, sharedLoc ∉ B e := by
      intro e hm
      obtain ⟨v, hv, he⟩ := List.mem_map.mp hm
      exact hsep.shared_ne v (mem_sharedResultWorkerIds_lt g s e.1 v hv) he.symm
    have h1 : dedupFirst ((e :: r).flatMap (fun e => locsOf g s e.1)) =
        ((e :: r).flatMap (fun e => sharedLoc :: B e)).foldl pushNew [sharedLoc] := by
      unfold dedupFirst
      show ((e :: r).flatMap (fun e => sharedLoc :: B e)).foldl pushNew [] = _
      simp only [List.flatMap_cons, List.cons_append, List.foldl_cons]
      rfl
    rw [h1, foldl_pushNew_blocks sharedLoc B hB (e :: r) []]
    have hnot : sharedLoc ∉ (e :: r).flatMap B := by
      intro hm
      obtain ⟨e', _, he'⟩ := List.mem_flatMap.mp hm
      exact hB e' he'
    rw [foldl_pushNew_cons sharedLoc [] _ hnot]
    congr 1
    have h2 : (e :: r).flatMap B = ((e :: r).flatMap (fun e => sharedResultWorkerIds g s e.1)).map (workerLoc g) := by
      rw [List.map_flatMap]
    rw [h2]
    unfold dedupFirst
    have := foldl_pushNew_map (workerLoc g) (fun v => v < g.workers.length) (fun x y hx hy h => hsep.inj x y hx hy h)
      ((e :: r).flatMap (fun e => sharedResultWorkerIds g s e.1)) []
      (by
        intro v hv
        obtain ⟨e', _, he'⟩ := List.mem_flatMap.mp hv
        exact mem_sharedResultWorkerIds_lt g s e'.1 v he')
      (by intro x hx; simp at hx)
    simpa using this

theorem expectedLocs_nodup {g : Graph} (hsep : LocsSeparated g) (s : State) (n : Nat) (vm : String) :
    (expectedLocs g s n vm).Nodup := by
  rw [← dedupFirst_seqOf hsep]; exact nodup_dedupFirst _

/-- **`pull_locations`, exact form**: on separated location strings and from an empty `get_location`, the entry of `vm`
is the join of `expectedLocs` -/
theorem pullLocations_exact {g : Graph} (hsep : LocsSeparated g) (s : State) (n : Nat)
    (hflat : (g.node n).flat = false) (hn : n < s.nodes.length) (hempty : (s.nd n).getLoc = []) (vm : String) :
    locOf ((pullLocations g s n).nd n).getLoc vm = enc (expectedLocs g s n vm) := by
  have h := pullLocations_tok hsep.sep g s n hflat hn (locsOf_sub_allLocs g s) vm [] (by rw [hempty]; exact tokAt_nil _ _)
  rw [← dedupFirst_seqOf hsep]
  exact h.entry

/-! ## Part 3: runs

`Mono`: a piece of a step that changes no `get_location` entry and loses no passing result.  Every piece of the
worker loop is `Mono`, except the call of `pull_locations` in `traverse_node`. -/

structure Mono (s s' : State) : Prop where
  nodesLen : s'.nodes.length = s.nodes.length
  getLoc : ∀ i, (s'.nd i).getLoc = (s.nd i).getLoc
  pass : ∀ i r, r ∈ (s.nd i).results → r.status = "PASS" → r ∈ (s'.nd i).results
  hidden : ∀ x ∈ s'.hidden, x ∈ s.hidden

theorem Mono.refl (s : State) : Mono s s := ⟨rfl, fun _ => rfl, fun _ _ h _ => h, fun _ h => h⟩

theorem Mono.trans {s s1 s2 : State} (a : Mono s s1) (b : Mono s1 s2) : Mono s s2 :=
  ⟨b.nodesLen.trans a.nodesLen, fun i => (b.getLoc i).trans (a.getLoc i), fun i r h hp => b.pass i r (a.pass i r h hp) hp,
    fun x hx => a.hidden x (b.hidden x hx)⟩

theorem Mono.quiet {s s' : State} (hn : s'.nodes = s.nodes) (hh : ∀ x ∈ s'.hidden, x ∈ s.hidden) : Mono s s' :=
  ⟨by rw [hn], fun i => by rw [nd_of_nodes_eq hn], fun i r h _ => by rw [nd_of_nodes_eq hn]; exact h, hh⟩

theorem Mono.quiet' {s s' : State} (hn : s'.nodes = s.nodes) (hh : s'.hidden = s.hidden) : Mono s s' :=
  Mono.quiet hn (fun x hx => by rw [← hh]; exact hx)

theorem Mono.of_nd {s s' : State} (hl : s'.nodes.length = s.nodes.length) (hnd : ∀ i, s'.nd i = s.nd i)
    (hh : s'.hidden = s.hidden) : Mono s s' :=
  ⟨hl, fun i => by rw [hnd], fun i r h _ => by rw [hnd]; exact h, fun x hx => by rw [← hh]; exact hx⟩

theorem mono_setNd (s : State) (m : Nat) (f : NodeD → NodeD) (hg : ∀ d, (f d).getLoc = d.getLoc)
    (hr : ∀ d r, r ∈ d.results → r.status = "PASS" → r ∈ (f d).results) : Mono s (s.setNd m f) := by
  refine ⟨nodes_length_setNd s m f, fun i => nd_setNd_proj (·.getLoc) s m f hg i, fun i r h hp => ?_, fun _ h => h⟩
  rcases nd_setNd_cases s m f i with h' | ⟨_, _, h'⟩
  · rw [h']; exact h
  · rw [h']; exact hr _ r h hp

theorem mono_setWd (s : State) (v : Nat) (f : WorkerD → WorkerD) : Mono s (s.setWd v f) := Mono.quiet' rfl rfl
theorem mono_setCr (s : State) (c : Nat) (f : ClassRegs → ClassRegs) : Mono s (s.setCr c f) := Mono.quiet' rfl rfl

theorem mono_foldl {β} (f : State → β → State) (h : ∀ s b, Mono s (f s b)) (l : List β) (s : State) :
    Mono s (l.foldl f s) := by
  induction l generalizing s with
  | nil => exact Mono.refl s
  | cons a r ih => simp only [List.foldl_cons]; exact (h s a).trans (ih _)

theorem mono_pickChild (g : Graph) (s : State) (n v x : Nat) (s' : State) (h : pickChild g s n v = some (x, s')) :
    Mono s (pushPath s' v x) :=
  (Mono.of_nd (pickChild_qt v none g s n v x s' h).nodesLen (started_pickChild g s n v x s' h)
    (pickChild_qt v none g s n v x s' h).hidden).trans (mono_setWd _ _ _)

theorem mono_pickParent (g : Graph) (s : State) (n v x : Nat) (s' : State) (h : pickParent g s n v = some (x, s')) :
    Mono s (pushPath s' v x) :=
  (Mono.of_nd (pickParent_qt v none g s n v x s' h).nodesLen (started_pickParent g s n v x s' h)
    (pickParent_qt v none g s n v x s' h).hidden).trans (mono_setWd _ _ _)

theorem mono_runDecision (g : Graph) (s : State) (n v : Nat) (b : Bool) (s1 : State) (e1 : List Event)
    (h : runDecision g s n v = .ok (b, s1, e1)) : Mono s s1 := by
  rcases runDecision_state g s n v b s1 e1 h with h | h
  · rw [h]; exact Mono.refl s
  · rw [h]; exact mono_setNd s n _ (fun _ => rfl) (fun _ _ h _ => h)

theorem mono_syncStates (g : Graph) (s : State) (n v : Nat) (rv : Option (List String)) :
    Mono s (syncStates g s n v rv).1 := Mono.quiet' (syncStates_frame g s n v rv).1 (syncStates_frame g s n v rv).2.2

theorem mono_reverseNode (g : Graph) (s : State) (n v : Nat) (s' : State) (evs : List Event)
    (h : reverseNode g s n v = .ok (s', evs)) : Mono s s' := by
  unfold reverseNode at h
  by_cases hocc : isOccupied g s n v = true
  · simp only [hocc, if_true, Except.ok.injEq, Prod.mk.injEq] at h
    rw [← h.1]; exact Mono.refl s
  · simp only [hocc, Bool.false_eq_true, if_false, ite_self] at h
    have h0 : Mono s (s.setNd n (fun d => { d with started := some v })) := mono_setNd s n _ (fun _ => rfl) (fun _ _ h _ => h)
    cases hd : cleanDecision g (s.setNd n (fun d => { d with started := some v })) n v with
    | error e => simp [hd] at h
    | ok clean =>
      simp only [hd, Except.ok.injEq, Prod.mk.injEq] at h
      rw [← h.1]
      refine h0.trans (Mono.trans ?_ (mono_setNd _ n _ (fun _ => rfl) (fun _ _ h _ => h)))
      split
      · exact mono_syncStates g _ n v none
      · exact Mono.refl _

theorem mono_finishTraverse (s : State) (n v : Nat) : Mono s (finishTraverse s n v) :=
  mono_setNd s n _ (fun _ => rfl) (fun _ _ h _ => h)

theorem mono_afterTraverse (g : Graph) (s : State) (v next prev : Nat) (dir : Dir) :
    Mono s (afterTraverse g s v next prev dir).1 := by
  unfold afterTraverse
  cases hd : runDecision g s next v with
  | error e => exact Mono.refl s
  | ok r =>
    obtain ⟨run, s1, evs⟩ := r
    have h1 : Mono s s1 := mono_runDecision g s next v run s1 evs hd
    cases dir with
    | up =>
      dsimp only
      refine h1.trans (Mono.trans ?_ (mono_setWd _ v _))
      split
      · exact mono_setCr s1 _ _
      · exact Mono.refl s1
    | down =>
      dsimp only
      by_cases hrun : run = true
      · simp only [hrun, if_true]
        exact h1.trans (mono_setWd _ v _)
      · simp only [hrun, Bool.false_eq_true, if_false]
        by_cases hcr : isCleanupReady g s1 next v = true
        · simp only [hcr, if_true]
          by_cases hpp : (!(g.node next).flat && (s1.wd v).unexplored) = true
          · simp only [hpp, if_true]
            exact h1.trans (mono_setWd s1 v _)
          simp only [hpp, Bool.false_eq_true, if_false]
          have h2 : Mono s1 (List.foldl (fun s x => dropChild g s x.1 next v) s1 (g.node next).setup) := by
            apply mono_foldl
            rintro s ⟨p, _⟩
            exact mono_setCr s _ _
          cases hr : reverseNode g (List.foldl (fun s x => dropChild g s x.1 next v) s1 (g.node next).setup) next v with
          | error e => exact h1.trans h2
          | ok r =>
            obtain ⟨s2, evs2⟩ := r
            exact h1.trans (h2.trans ((mono_reverseNode g _ next v s2 evs2 hr).trans (mono_setWd _ v _)))
        · simp only [hcr, Bool.false_eq_true, if_false]
          cases hp : pickChild g s1 next v with
          | none => exact h1
          | some r =>
            obtain ⟨x, s2⟩ := r
            exact h1.trans (mono_pickChild g s1 next v x s2 hp)

/-- the events of `afterTraverse` are requests to the state control -/
theorem afterTraverse_doors (g : Graph) (s : State) (w next prev : Nat) (dir : Dir) :
    DoorsOnly (afterTraverse g s w next prev dir).2.1 := by
  unfold afterTraverse
  cases hrd : runDecision g s next w with
  | error e => exact DoorsOnly.nil
  | ok r =>
    obtain ⟨run, s1, evs1⟩ := r
    have hd1 := runDecision_doors g s next w run s1 evs1 hrd
    cases dir with
    | up => exact hd1
    | down =>
      dsimp only
      split
      · exact hd1
      · split
        · split
          · exact hd1
          · split
            · exact hd1
            · next s3 evs3 hr => exact hd1.append (reverseNode_qt w g _ next w s3 evs3 hr).2
        · split <;> exact hd1

theorem mono_startTest (g : Graph) (s : State) (n v : Nat) (ph : Phase) (dir : Dir) :
    Mono s (startTest g s n v ph dir).1 := by
  have a1 : Mono s { s with nextTag := s.nextTag + 1 } := Mono.quiet' rfl rfl
  unfold startTest
  dsimp only
  split
  · show Mono s (State.setWd _ v _)
    exact a1.trans (mono_setWd _ v _)
  · show Mono s (State.setWd (State.setNd _ n _) v _)
    refine Mono.trans (Mono.trans a1 ?_) (mono_setWd _ v _)
    exact mono_setNd _ n _ (fun _ => rfl) (fun _ r h _ => List.mem_append_left _ h)

/-- the one event of `startTest`: a start carrying the `get_location` entries of the copy -/
theorem startTest_event (g : Graph) (s : State) (n w : Nat) (ph : Phase) (dir : Dir) :
    ∀ e ∈ (startTest g s n w ph dir).2.1, ∃ uid k,
      e = .start (g.worker w).id (clsName g n ph) uid ((startTest g s n w ph dir).1.nd n).getLoc k := by
  unfold startTest
  dsimp only
  split
  all_goals
    intro e he
    simp only [List.mem_singleton] at he
    exact ⟨_, _, he⟩

theorem mono_prepare (g : Graph) (s : State) (v : Nat) : Mono s (prepare g s v) :=
  Mono.quiet (prepare_frame g s v).1 (prepare_frame g s v).2.2.2

theorem mono_reportOutcome (g : Graph) (s : State) (w n : Nat) (phase : Phase) (uid : String) (wait : Nat) (out : Outcome) :
    Mono s (reportOutcome g s w n phase uid wait out).1 :=
  Mono.quiet' (reportOutcome_frame g s w n phase uid wait out).1 (reportOutcome_frame g s w n phase uid wait out).2.2

theorem mono_recordResult (s : State) (v n : Nat) (phase : Phase) (name uid : String) (tag : Nat) (st0 : String)
    (dur : Nat) : Mono s (recordResult s v n phase name uid tag st0 dur).1 := by
  unfold recordResult
  dsimp only
  have hX : ∀ (b : Bool) (jr : List (String × String × String × Nat)),
      Mono s (if b = true then { s with jobResults := jr } else s) := by
    intro b jr
    cases b
    · exact Mono.refl s
    · exact Mono.quiet' rfl rfl
  by_cases hp : (phase == Phase.pre) = true
  · simp only [hp, if_true]
    exact (hX _ _).trans (mono_setWd _ v _)
  · simp only [hp, Bool.false_eq_true, if_false]
    refine (hX _ _).trans (mono_setNd _ n _ (fun _ => rfl) ?_)
    intro d r hr hpass
    rw [List.mem_filter]
    refine ⟨List.mem_append_left _ hr, ?_⟩
    simp [hpass]

/-! ### the invariant -/

/-- `t` is a location `pull_locations` lists for the object `vm` of `n` on the (eager) graph: the shared pool, or the
pool of a worker with a passing result of a setup parent of `n` through `vm` -/
def Listed (g : Graph) (s : State) (n : Nat) (vm t : String) : Prop :=
  ∃ p vms, (p, vms) ∈ (g.node n).setup ∧ vm ∈ vms ∧ t ∈ locsOf g s p

theorem mem_sharedResults (g : Graph) (s : State) (p : Nat) (r : Result) :
    r ∈ sharedResults g s p ↔ ∃ i ∈ g.copies p, r ∈ (s.nd i).results := by
  unfold sharedResults
  rw [List.mem_flatMap]

theorem mem_sharedResultWorkerIds (g : Graph) (s : State) (p v : Nat) :
    v ∈ sharedResultWorkerIds g s p ↔
      ∃ r ∈ sharedResults g s p, r.status = "PASS" ∧
        (List.range g.workers.length).find? (fun w => strIn (g.worker w).id r.name) = some v := by
  unfold sharedResultWorkerIds
  rw [mem_dedupNat, List.mem_filterMap]
  constructor
  · rintro ⟨r, hr, h⟩
    by_cases hp : r.status = "PASS"
    · simp only [hp, bne_self_eq_false, Bool.false_eq_true, if_false] at h
      exact ⟨r, hr, hp, h⟩
    · have : (r.status != "PASS") = true := by simpa using hp
      simp [this] at h
  · rintro ⟨r, hr, hp, h⟩
    refine ⟨r, hr, ?_⟩
    simp [hp, h]

/-- no passing result is lost -/
def PassLe (s s' : State) : Prop := ∀ i r, r ∈ (s.nd i).results → r.status = "PASS" → r ∈ (s'.nd i).results

theorem locsOf_mono (g : Graph) {s s' : State} (h : PassLe s s') (p : Nat) (t : String) (ht : t ∈ locsOf g s p) :
    t ∈ locsOf g s' p := by
  unfold locsOf at ht ⊢
  rcases List.mem_cons.mp ht with rfl | ht
  · exact List.mem_cons_self
  · obtain ⟨v, hv, rfl⟩ := List.mem_map.mp ht
    refine List.mem_cons_of_mem _ (List.mem_map.mpr ⟨v, ?_, rfl⟩)
    rw [mem_sharedResultWorkerIds] at hv ⊢
    obtain ⟨r, hr, hp, hf⟩ := hv
    obtain ⟨i, hi, hri⟩ := (mem_sharedResults g s p r).mp hr
    exact ⟨r, (mem_sharedResults g s' p r).mpr ⟨i, hi, h i r hri hp⟩, hp, hf⟩

theorem Listed.mono {g : Graph} {s s' : State} {n : Nat} {vm t : String} (h : Listed g s n vm t) (hp : PassLe s s') :
    Listed g s' n vm t := by
  obtain ⟨p, vms, h1, h2, h3⟩ := h
  exact ⟨p, vms, h1, h2, locsOf_mono g hp p t h3⟩

/-- **the location invariant**: every `get_location` entry of every copy is the blank-join of a duplicate-free list
of location strings, each of which is justified in the current state — the shared pool, or the pool of a worker with
a passing result of a setup parent through that object -/
structure LInv (g : Graph) (H : List Nat) (s : State) : Prop where
  nodesLen : s.nodes.length = g.nodes.length
  hid : ∀ x ∈ s.hidden, x ∈ H
  toks : ∀ n vm, ∃ T, TokAt (allLocs g) (s.nd n).getLoc vm T ∧ ∀ t ∈ T, Listed g s n vm t

theorem LInv.mono {g : Graph} {H : List Nat} {s s' : State} (h : LInv g H s) (m : Mono s s') : LInv g H s' :=
  ⟨m.nodesLen.trans h.nodesLen, fun x hx => h.hid x (m.hidden x hx), fun n vm => by
    obtain ⟨T, h1, h2⟩ := h.toks n vm
    exact ⟨T, by rw [m.getLoc]; exact h1, fun t ht => (h2 t ht).mono m.pass⟩⟩

/-- `gv` is `g` with some edges removed (the graph as parsed so far) -/
structure SubVis (g gv : Graph) : Prop where
  static : SameStatic g gv
  edges : ∀ n e, e ∈ (gv.node n).setup → e ∈ (g.node n).setup

theorem subVis_vis (g : Graph) (s : State) : SubVis g (vis g s) :=
  ⟨sameStatic_vis g s, fun n e he => by
    obtain ⟨su, cl, h, h1, _⟩ := vis_node g s n
    rw [h] at he
    exact h1 e he⟩

theorem locsOf_static {g gv : Graph} (h : SameStatic g gv) (s : State) (p : Nat) : locsOf gv s p = locsOf g s p := by
  unfold locsOf sharedResultWorkerIds sharedResults workerLoc Graph.worker
  rw [h.copies_eq, h.workers]

theorem vis_congr (g : Graph) (s s' : State) (h : s'.hidden = s.hidden) : vis g s' = vis g s := by
  unfold vis; rw [h]

theorem pull_nd_ne (gv : Graph) (s : State) (n m : Nat) (h : m ≠ n) : (pullLocations gv s n).nd m = s.nd m := by
  unfold pullLocations
  split
  · rfl
  · apply foldl_preserves (fun s => s.nd m)
    rintro s ⟨p, vms⟩
    apply foldl_preserves (fun s => s.nd m)
    intro s loc
    apply foldl_preserves (fun s => s.nd m)
    intro s vm
    exact nd_setNd_ne s n m _ h

theorem pull_results (gv : Graph) (s : State) (n m : Nat) :
    ((pullLocations gv s n).nd m).results = (s.nd m).results := by
  unfold pullLocations
  split
  · rfl
  · apply foldl_preserves (fun s => (s.nd m).results)
    rintro s ⟨p, vms⟩
    apply foldl_preserves (fun s => (s.nd m).results)
    intro s loc
    apply foldl_preserves (fun s => (s.nd m).results)
    intro s vm
    exact nd_setNd_proj (·.results) s n (fun d => { d with getLoc := locAdd d.getLoc vm loc }) (fun _ => rfl) m

theorem seqOf_congr (gv : Graph) (s s' : State) (n : Nat) (vm : String) (h : ∀ m, (s'.nd m).results = (s.nd m).results) :
    seqOf gv s' n vm = seqOf gv s n vm := by
  unfold seqOf locsOf
  simp only [sharedResultWorkerIds_congr gv s s' _ h]

theorem mem_seqOf (gv : Graph) (s : State) (n : Nat) (vm t : String) : t ∈ seqOf gv s n vm ↔ Listed gv s n vm t := by
  unfold seqOf Listed
  rw [List.mem_flatMap]
  constructor
  · rintro ⟨e, he, hte⟩
    rw [List.mem_filter] at he
    exact ⟨e.1, e.2, he.1, by simpa using he.2, hte⟩
  · rintro ⟨p, vms, he, hvm, ht⟩
    exact ⟨(p, vms), List.mem_filter.mpr ⟨he, by simpa using hvm⟩, ht⟩

theorem Listed.ofVis {g gv : Graph} (hv : SubVis g gv) {s : State} {n : Nat} {vm t : String} (h : Listed gv s n vm t) :
    Listed g s n vm t := by
  obtain ⟨p, vms, h1, h2, h3⟩ := h
  exact ⟨p, vms, hv.edges n _ h1, h2, by rw [← locsOf_static hv.static]; exact h3⟩

/-- a listed location is the shared pool or the pool of a worker that passed a setup parent through the object -/
theorem Listed.cases {g : Graph} {s : State} {n : Nat} {vm t : String} (h : Listed g s n vm t) :
    t = sharedLoc ∨ ∃ p vms v, (p, vms) ∈ (g.node n).setup ∧ vm ∈ vms ∧ v ∈ sharedResultWorkerIds g s p ∧
      t = workerLoc g v := by
  obtain ⟨p, vms, h1, h2, h3⟩ := h
  unfold locsOf at h3
  rcases List.mem_cons.mp h3 with h3 | h3
  · exact Or.inl h3
  · obtain ⟨v, hv, rfl⟩ := List.mem_map.mp h3
    exact Or.inr ⟨p, vms, v, h1, h2, hv, rfl⟩

/-- the entries of copy `n` in `sd` are those of a state right after `pull_locations` on the graph `gv`: old tokens
`T0` (all justified) followed by the new ones of `seqOf gv sd n vm` in order of first occurrence -/
def Fresh (g gv : Graph) (sd : State) (n : Nat) : Prop :=
  ∀ vm, ∃ T0, TokAt (allLocs g) (sd.nd n).getLoc vm ((seqOf gv sd n vm).foldl pushNew T0) ∧ ∀ t ∈ T0, Listed g sd n vm t

/-- `pull_locations` on the visible graph keeps the invariant, and leaves the pulled copy `Fresh` -/
theorem LInv.pull {g gv : Graph} {H : List Nat} (hsep : LocsSeparated g) (hv : SubVis g gv) {s : State} (h : LInv g H s)
    (n : Nat) : LInv g H (pullLocations gv s n) ∧ ((gv.node n).flat = false → Fresh g gv (pullLocations gv s n) n) := by
  have hres := pull_results gv s n
  have hpl : PassLe s (pullLocations gv s n) := fun i r hr _ => by rw [hres]; exact hr
  by_cases hflat : (gv.node n).flat = true
  · have : pullLocations gv s n = s := by unfold pullLocations; simp [hflat]
    rw [this]
    exact ⟨h, fun hf => by rw [hflat] at hf; cases hf⟩
  have hflat' : (gv.node n).flat = false := by simpa using hflat
  by_cases hn : n < s.nodes.length
  · have key : ∀ vm, ∃ T0, TokAt (allLocs g) ((pullLocations gv s n).nd n).getLoc vm ((seqOf gv s n vm).foldl pushNew T0) ∧
        (∀ t ∈ T0, Listed g s n vm t) := by
      intro vm
      obtain ⟨T, h1, h2⟩ := h.toks n vm
      refine ⟨T, pullLocations_tok hsep.sep gv s n hflat' hn ?_ vm T h1, h2⟩
      intro p t ht
      rw [locsOf_static hv.static] at ht
      exact locsOf_sub_allLocs g s p t ht
    have hseq : ∀ vm, ∀ t ∈ seqOf gv s n vm, Listed g s n vm t := by
      intro vm t ht
      unfold seqOf at ht
      obtain ⟨e, he, hte⟩ := List.mem_flatMap.mp ht
      rw [List.mem_filter] at he
      exact ⟨e.1, e.2, hv.edges n e he.1, by simpa using he.2, by rw [← locsOf_static hv.static]; exact hte⟩
    refine ⟨⟨(qt_pullLocations 0 none gv s n).nodesLen.trans h.nodesLen,
      fun x hx => h.hid x (by rw [← (qt_pullLocations 0 none gv s n).hidden]; exact hx), fun m vm => ?_⟩, fun _ vm => ?_⟩
    · by_cases hm : m = n
      · subst hm
        obtain ⟨T0, h1, h2⟩ := key vm
        refine ⟨_, h1, fun t ht => ?_⟩
        rcases (mem_foldl_pushNew _ _ t).mp ht with h' | h'
        · exact (h2 t h').mono hpl
        · exact (hseq vm t h').mono hpl
      · obtain ⟨T, h1, h2⟩ := h.toks m vm
        exact ⟨T, by rw [pull_nd_ne gv s n m hm]; exact h1, fun t ht => (h2 t ht).mono hpl⟩
    · obtain ⟨T0, h1, h2⟩ := key vm
      exact ⟨T0, by rw [seqOf_congr gv s _ n vm hres]; exact h1, fun t ht => (h2 t ht).mono hpl⟩
  · have hset : (gv.node n).setup = [] :=
      (node_edges_of_ge gv n (by rw [hv.static.len, ← h.nodesLen]; exact hn)).1
    have : pullLocations gv s n = s := by unfold pullLocations; simp [hflat', hset]
    rw [this]
    refine ⟨h, fun _ vm => ?_⟩
    obtain ⟨T, h1, h2⟩ := h.toks n vm
    refine ⟨T, ?_, h2⟩
    have : seqOf gv s n vm = [] := by unfold seqOf; simp [hset]
    rw [this]
    exact h1

/-! ### events -/

/-- provenance of the `locs` field of a start event: it is the `get_location` record of the started copy in a state
`sd` that satisfies the invariant; for the `plain` and `pre` phases `sd` is the decision state — the state right after
`pull_locations` on the graph visible then — and the copy is `Fresh` there -/
def EvL (g : Graph) (H : List Nat) (e : Event) : Prop :=
  ∀ wid cname uid locs k, e = .start wid cname uid locs k →
    ∃ n ph sd, cname = clsName g n ph ∧ locs = (sd.nd n).getLoc ∧ LInv g H sd ∧ (ph ≠ .main → Fresh g (vis g sd) sd n)

def EvsL (g : Graph) (H : List Nat) (evs : List Event) : Prop := ∀ e ∈ evs, EvL g H e

theorem EvsL.nil (g : Graph) (H : List Nat) : EvsL g H [] := fun _ h => by simp at h

theorem EvsL.append {g : Graph} {H : List Nat} {a b : List Event} (ha : EvsL g H a) (hb : EvsL g H b) : EvsL g H (a ++ b) := by
  intro e he
  rcases List.mem_append.mp he with he | he
  · exact ha e he
  · exact hb e he

theorem evsL_single (g : Graph) (H : List Nat) (e : Event) (h : e.isStart = false) : EvsL g H [e] := by
  intro e' he wid cname uid locs k heq
  simp only [List.mem_singleton] at he
  rw [he] at heq
  rw [heq] at h
  simp [Event.isStart] at h

theorem DoorsOnly.evsL {evs : List Event} (h : DoorsOnly evs) (g : Graph) (H : List Nat) : EvsL g H evs := by
  intro e he wid cname uid locs k heq
  have := h e he
  rw [heq] at this
  simp [Event.isDoor] at this

theorem startTest_L (g : Graph) (H : List Nat) (gv : Graph) (hcl : ∀ n ph, clsName gv n ph = clsName g n ph) (s : State) (n w : Nat) (ph : Phase)
    (dir : Dir) (sd : State) (hg : (s.nd n).getLoc = (sd.nd n).getLoc) (hsd : LInv g H sd)
    (hf : ph ≠ .main → Fresh g (vis g sd) sd n) : EvsL g H (startTest gv s n w ph dir).2.1 := by
  intro e he wid cname uid locs k heq
  obtain ⟨uid', k', he'⟩ := startTest_event gv s n w ph dir e he
  rw [he'] at heq
  injection heq with h1 h2 h3 h4 h5
  exact ⟨n, ph, sd, by rw [← h2, hcl], by rw [← h4, (mono_startTest gv s n w ph dir).getLoc, hg], hsd, hf⟩

/-! ### the walk -/

theorem traverseNode_L {g : Graph} {H : List Nat} (hsep : LocsSeparated g) (s : State) (w next prev : Nat) (dir : Dir) (h : LInv g H s) :
    LInv g H (traverseNode (vis g s) s w next prev dir).1 ∧ EvsL g H (traverseNode (vis g s) s w next prev dir).2.1 := by
  have hcl : ∀ n ph, clsName (vis g s) n ph = clsName g n ph := vis_clsName g s
  unfold traverseNode
  by_cases hocc : isOccupied (vis g s) s next w = true
  · simp only [hocc, if_true]
    exact ⟨h.mono (mono_afterTraverse _ s w next prev dir), (afterTraverse_doors _ s w next prev dir).evsL g H⟩
  · simp only [hocc, Bool.false_eq_true, if_false]
    have h0 : LInv g H (s.setNd next (fun d => { d with started := some w })) :=
      h.mono (mono_setNd s next _ (fun _ => rfl) (fun _ _ h _ => h))
    obtain ⟨hsd, hfresh⟩ := h0.pull hsep (subVis_vis g s) next
    have hvis : vis g (pullLocations (vis g s) (s.setNd next (fun d => { d with started := some w })) next) = vis g s :=
      vis_congr g _ _ (by rw [(qt_pullLocations 0 none (vis g s) _ next).hidden]; rfl)
    generalize pullLocations (vis g s) (s.setNd next (fun d => { d with started := some w })) next = sd at hsd hfresh hvis ⊢
    cases hd : runDecision (vis g s) sd next w with
    | error e => exact ⟨hsd, EvsL.nil g H⟩
    | ok r =>
      obtain ⟨run, s1, evs⟩ := r
      have m1 : Mono sd s1 := mono_runDecision _ sd next w run s1 evs hd
      have e1 : EvsL g H evs := (runDecision_doors _ sd next w run s1 evs hd).evsL g H
      dsimp only
      by_cases hrun : run = true
      · subst hrun
        simp only [if_true]
        have hnf := (runDecision_true_own _ sd next w s1 evs hd).2.1
        have hfr : Fresh g (vis g sd) sd next := by rw [hvis]; exact hfresh hnf
        by_cases hroot : ((vis g s).node next).objectRoot = true
        · simp only [hroot, if_true]
          show LInv g H (startTest (vis g s) (s1.setWd w _) next w .pre dir).1 ∧
            EvsL g H (evs ++ (startTest (vis g s) (s1.setWd w _) next w .pre dir).2.1)
          refine ⟨hsd.mono (m1.trans ((mono_setWd s1 w _).trans (mono_startTest _ _ next w .pre dir))), e1.append ?_⟩
          exact startTest_L g H (vis g s) hcl _ next w .pre dir sd (by rw [nd_setWd, m1.getLoc]) hsd (fun _ => hfr)
        · simp only [hroot, Bool.false_eq_true, if_false]
          show LInv g H (startTest (vis g s) s1 next w .plain dir).1 ∧
            EvsL g H (evs ++ (startTest (vis g s) s1 next w .plain dir).2.1)
          exact ⟨hsd.mono (m1.trans (mono_startTest _ s1 next w .plain dir)),
            e1.append (startTest_L g H (vis g s) hcl s1 next w .plain dir sd (m1.getLoc next) hsd (fun _ => hfr))⟩
      · simp only [hrun, Bool.false_eq_true, if_false]
        show LInv g H (afterTraverse (vis g s) (finishTraverse s1 next w) w next prev dir).1 ∧
          EvsL g H (evs ++ (afterTraverse (vis g s) (finishTraverse s1 next w) w next prev dir).2.1)
        exact ⟨hsd.mono (m1.trans ((mono_finishTraverse s1 next w).trans (mono_afterTraverse _ _ w next prev dir))),
          e1.append ((afterTraverse_doors _ _ w next prev dir).evsL g H)⟩

theorem iter_L {g : Graph} {H : List Nat} (hsep : LocsSeparated g) (s : State) (w : Nat) (h : LInv g H s) :
    LInv g H (iter (vis g s) s w).1 ∧ EvsL g H (iter (vis g s) s w).2.1 := by
  unfold iter
  dsimp only
  split
  · split
    · exact ⟨h.mono (mono_setWd s w _), evsL_single g H _ rfl⟩
    · exact ⟨h, EvsL.nil g H⟩
  · cases hl : (s.wd w).path.getLast? with
    | none => exact ⟨h, EvsL.nil g H⟩
    | some next =>
      dsimp only
      split
      · cases hp : pickChild (vis g s) s next w with
        | none => exact ⟨h, EvsL.nil g H⟩
        | some r => obtain ⟨x, s2⟩ := r; exact ⟨h.mono (mono_pickChild _ s next w x s2 hp), EvsL.nil g H⟩
      · split
        · -- the bounce
          refine ⟨h.mono ?_, evsL_single g H _ rfl⟩
          show Mono s (State.setWd _ w _)
          refine Mono.trans ?_ (mono_setWd _ w _)
          split
          · refine Mono.trans ?_ (mono_setWd _ w _)
            split
            · exact mono_setNd s next _ (fun _ => rfl) (fun _ _ h _ => h)
            · exact Mono.refl s
          · exact mono_setWd s w _
        · split
          · split
            · exact traverseNode_L hsep s w next _ .up h
            · cases hp : pickParent (vis g s) s next w with
              | none => exact ⟨h, EvsL.nil g H⟩
              | some r => obtain ⟨x, s2⟩ := r; exact ⟨h.mono (mono_pickParent _ s next w x s2 hp), EvsL.nil g H⟩
          · split
            · split
              · cases hp : pickParent (vis g s) s next w with
                | none => exact ⟨h, EvsL.nil g H⟩
                | some r => obtain ⟨x, s2⟩ := r; exact ⟨h.mono (mono_pickParent _ s next w x s2 hp), EvsL.nil g H⟩
              · exact traverseNode_L hsep s w next _ .down h
            · exact ⟨h, EvsL.nil g H⟩

theorem iterL_L {g : Graph} {H : List Nat} (hsep : LocsSeparated g) (s : State) (w : Nat) (h : LInv g H s) :
    LInv g H (iterL g s w).1 ∧ EvsL g H (iterL g s w).2.1 := by
  unfold iterL
  split
  · exact iter_L hsep s w h
  · exact iter_L hsep (prepare g s w) w (h.mono (mono_prepare g s w))

theorem runLoop_L {g : Graph} {H : List Nat} (hsep : LocsSeparated g) (w : Nat) (fuel : Nat) (s : State) (evs : List Event)
    (h : LInv g H s) (he : EvsL g H evs) : LInv g H (runLoop g w fuel s evs).1 ∧ EvsL g H (runLoop g w fuel s evs).2 := by
  induction fuel generalizing s evs with
  | zero => exact ⟨h, he.append (evsL_single g H _ rfl)⟩
  | succ fuel ih =>
    unfold runLoop
    dsimp only
    have h0 := iterL_L hsep _ w (h.mono (mono_setWd s w (fun d => { d with pc := .loop })))
    split
    · next s1 e heq => rw [heq] at h0; exact ih s1 _ h0.1 (he.append h0.2)
    · next s1 e heq => rw [heq] at h0; exact ⟨h0.1, he.append h0.2⟩
    · next s1 e heq => rw [heq] at h0; exact ⟨h0.1, he.append h0.2⟩
    · next s1 e what heq =>
      rw [heq] at h0
      exact ⟨h0.1.mono (mono_setWd s1 w _), (he.append h0.2).append (evsL_single g H _ rfl)⟩

theorem continueAfter_L {g : Graph} {H : List Nat} (hsep : LocsSeparated g) (w n : Nat) (phase : Phase) (dir : Dir) (fuel : Nat)
    (s : State) (ok : Bool) (evs : List Event) (h : LInv g H s) (he : EvsL g H evs) :
    LInv g H (resumeTest.continueAfter g w n phase dir fuel s ok evs).1 ∧
      EvsL g H (resumeTest.continueAfter g w n phase dir fuel s ok evs).2 := by
  unfold resumeTest.continueAfter
  dsimp only
  split
  · show LInv g H (startTest g s n w .main dir).1 ∧ EvsL g H (evs ++ (startTest g s n w .main dir).2.1)
    exact ⟨h.mono (mono_startTest g s n w .main dir),
      he.append (startTest_L g H g (fun _ _ => rfl) s n w .main dir s rfl h (fun hm => absurd rfl hm))⟩
  · generalize hsF : finishTraverse (if (phase == Phase.pre) = true then
          s.setNd n (fun d => { d with results := d.results ++ (s.wd w).preResults.drop d.results.length })
        else s) n w = sF
    have hF : LInv g H sF := by
      rw [← hsF]
      refine h.mono (Mono.trans ?_ (mono_finishTraverse _ n w))
      split
      · exact mono_setNd s n _ (fun _ => rfl) (fun _ r h _ => List.mem_append_left _ h)
      · exact Mono.refl s
    have hA := hF.mono (mono_afterTraverse (vis g sF) sF w n ((s.wd w).path.getD ((s.wd w).path.length - 2) 0) dir)
    have hD := (afterTraverse_doors (vis g sF) sF w n ((s.wd w).path.getD ((s.wd w).path.length - 2) 0) dir).evsL g H
    generalize afterTraverse (vis g sF) sF w n ((s.wd w).path.getD ((s.wd w).path.length - 2) 0) dir = r at hA hD
    obtain ⟨s1, e2, fl⟩ := r
    cases fl with
    | raise what => exact ⟨hA.mono (mono_setWd s1 w _), (he.append hD).append (evsL_single g H _ rfl)⟩
    | cont => exact runLoop_L hsep w fuel s1 _ hA (he.append hD)
    | suspend => exact runLoop_L hsep w fuel s1 _ hA (he.append hD)
    | exit => exact runLoop_L hsep w fuel s1 _ hA (he.append hD)

theorem reportOutcome_evsL (g : Graph) (H : List Nat) (s : State) (w n : Nat) (phase : Phase) (uid : String) (wait : Nat) (out : Outcome) :
    EvsL g H (reportOutcome g s w n phase uid wait out).2 := by
  unfold reportOutcome
  dsimp only
  split
  · split
    all_goals exact evsL_single g H _ rfl
  · exact EvsL.nil g H

/-- **one scheduler step keeps the location invariant, and every start event it emits carries entries of a state
that satisfies it** -/
theorem resume_L {g : Graph} {H : List Nat} (hsep : LocsSeparated g) (s : State) (w : Nat) (out : Outcome) (fuel : Nat) (h : LInv g H s) :
    LInv g H (resume g s w out fuel).1 ∧ EvsL g H (resume g s w out fuel).2 := by
  unfold resume
  split
  · exact runLoop_L hsep w fuel s [] h (EvsL.nil g H)
  · exact runLoop_L hsep w fuel s [] h (EvsL.nil g H)
  · next n phase dir uid tag wait heq =>
    rw [resumeTest_eq]
    have hA := h.mono (mono_reportOutcome g s w n phase uid wait out)
    have h0 := reportOutcome_evsL g H s w n phase uid wait out
    have hs : ∀ wid q, EvsL g H ((reportOutcome g s w n phase uid wait out).2 ++ [Event.sleep wid q]) := fun wid q =>
      h0.append (evsL_single g H _ rfl)
    split
    · exact continueAfter_L hsep w n phase dir fuel _ _ _ (hA.mono (mono_recordResult _ w n phase _ uid tag _ _)) h0
    · split
      · exact ⟨hA.mono (mono_setWd _ w _), hs _ _⟩
      · split
        · exact ⟨hA.mono (mono_setWd _ w _), hs _ _⟩
        · exact continueAfter_L hsep w n phase dir fuel _ _ _ hA h0
  · exact ⟨h, EvsL.nil g H⟩
  · exact ⟨h, EvsL.nil g H⟩

theorem LInv.init (g : Graph) (ncls : Nat) (store : List (String × List (String × String))) (hidden : List Nat) :
    LInv g hidden (initState g ncls store hidden) := by
  have hnd : ∀ i, ((initState g ncls store hidden).nd i).getLoc = [] := by
    intro i
    unfold initState State.nd
    simp only [List.getD_eq_getElem?_getD, List.getElem?_map]
    cases g.nodes[i]? <;> rfl
  refine ⟨by simp [initState], fun x hx => hx, fun n vm => ⟨[], ?_, fun t ht => by simp at ht⟩⟩
  rw [hnd]
  exact tokAt_nil _ _

/-- the states reachable from the initial state in which exactly the nodes `H` are not parsed yet (`H = []`: a pre-parsed
graph) -/
inductive ReachableFrom (g : Graph) (ncls : Nat) (store : List (String × List (String × String))) (H : List Nat) : State → Prop
  | init : ReachableFrom g ncls store H (initState g ncls store H)
  | step (s : State) (w : Nat) (out : Outcome) (fuel : Nat) :
      ReachableFrom g ncls store H s → w < g.workers.length → 0 < fuel → ReachableFrom g ncls store H (resume g s w out fuel).1

theorem ReachableFrom.reachableF {g : Graph} {ncls : Nat} {store : List (String × List (String × String))} {H : List Nat}
    {s : State} (h : ReachableFrom g ncls store H s) : ReachableF g ncls store s := by
  induction h with
  | init => exact .init H
  | step s w out fuel _ hw hf ih => exact .step s w out fuel ih hw hf

theorem ReachableF.from {g : Graph} {ncls : Nat} {store : List (String × List (String × String))} {s : State}
    (h : ReachableF g ncls store s) : ∃ H, ReachableFrom g ncls store H s := by
  induction h with
  | init hidden => exact ⟨hidden, .init⟩
  | step s w out fuel _ hw hf ih => obtain ⟨H, ih⟩ := ih; exact ⟨H, .step s w out fuel ih hw hf⟩

theorem ReachableFrom.linv {g : Graph} (hsep : LocsSeparated g) {ncls : Nat} {store : List (String × List (String × String))}
    {H : List Nat} {s : State} (h : ReachableFrom g ncls store H s) : LInv g H s := by
  induction h with
  | init => exact LInv.init g ncls store H
  | step s w out fuel _ _ _ ih => exact (resume_L hsep s w out fuel ih).1

/-! ### the entry determines its tokens -/

/-- a blank-free head followed by nothing or by a blank: the head is determined -/
theorem blank_split_unique (a a' X X' : List Char) (ha : ' ' ∉ a) (ha' : ' ' ∉ a')
    (hX : X = [] ∨ ∃ r, X = ' ' :: r) (hX' : X' = [] ∨ ∃ r, X' = ' ' :: r) (h : a ++ X = a' ++ X') : a = a' ∧ X = X' := by
  induction a generalizing a' with
  | nil =>
    cases a' with
    | nil => exact ⟨rfl, h⟩
    | cons c r =>
      exfalso
      simp only [List.nil_append, List.cons_append] at h
      rcases hX with hX | ⟨r', hX⟩
      · rw [hX] at h; cases h
      · rw [hX] at h
        injection h with h1 _
        exact ha' (by rw [← h1]; exact List.mem_cons_self)
  | cons c r ih =>
    cases a' with
    | nil =>
      exfalso
      simp only [List.nil_append, List.cons_append] at h
      rcases hX' with hX' | ⟨r', hX'⟩
      · rw [hX'] at h; cases h
      · rw [hX'] at h
        injection h with h1 _
        exact ha (by rw [h1]; exact List.mem_cons_self)
    | cons c' r' =>
      simp only [List.cons_append] at h
      injection h with h1 h2
      obtain ⟨h3, h4⟩ := ih r' (fun hm => ha (List.mem_cons_of_mem _ hm)) (fun hm => ha' (List.mem_cons_of_mem _ hm)) h2
      exact ⟨by rw [h1, h3], h4⟩

theorem blankTail_shape (R : List (List Char)) :
    R.flatMap (fun t => ' ' :: t) = [] ∨ ∃ r, R.flatMap (fun t => ' ' :: t) = ' ' :: r := by
  cases R with
  | nil => exact Or.inl rfl
  | cons t r => exact Or.inr ⟨t ++ r.flatMap (fun t => ' ' :: t), by simp [List.flatMap_cons]⟩

theorem blankTail_inj (R R' : List (List Char)) (hR : ∀ t ∈ R, ' ' ∉ t) (hR' : ∀ t ∈ R', ' ' ∉ t)
    (h : R.flatMap (fun t => ' ' :: t) = R'.flatMap (fun t => ' ' :: t)) : R = R' := by
  induction R generalizing R' with
  | nil =>
    cases R' with
    | nil => rfl
    | cons t r => simp [List.flatMap_cons] at h
  | cons t r ih =>
    cases R' with
    | nil => simp [List.flatMap_cons] at h
    | cons t' r' =>
      simp only [List.flatMap_cons, List.cons_append, List.cons.injEq, true_and] at h
      obtain ⟨h1, h2⟩ := blank_split_unique t t' _ _ (hR t List.mem_cons_self) (hR' t' List.mem_cons_self)
        (blankTail_shape r) (blankTail_shape r') h
      rw [h1, ih r' (fun x hx => hR x (List.mem_cons_of_mem _ hx)) (fun x hx => hR' x (List.mem_cons_of_mem _ hx)) h2]

theorem map_toList_inj : ∀ (r r' : List String), r.map String.toList = r'.map String.toList → r = r'
  | [], [], _ => rfl
  | [], _ :: _, h => by simp at h
  | _ :: _, [], h => by simp at h
  | a :: r, a' :: r', h => by
    simp only [List.map_cons, List.cons.injEq] at h
    rw [String.toList_inj.mp h.1, map_toList_inj r r' h.2]

theorem toList_foldl_joinStep (L : List String) (acc : String) (hacc : acc ≠ "") :
    (L.foldl joinStep acc).toList = acc.toList ++ (L.map String.toList).flatMap (fun t => ' ' :: t) := by
  induction L generalizing acc with
  | nil => simp
  | cons l r ih =>
    simp only [List.foldl_cons, List.map_cons, List.flatMap_cons]
    have hs : joinStep acc l = acc ++ " " ++ l := by
      unfold joinStep
      have : (acc == "") = false := by simpa using hacc
      simp [this]
    rw [hs, ih _ (append_blank_ne_empty acc l)]
    simp [String.toList_append]

/-- **the entry determines its tokens**: on blank-free non-empty tokens `joinLocs` is injective -/
theorem joinLocs_inj (L L' : List String) (hL : ∀ l ∈ L, ' ' ∉ l.toList ∧ l ≠ "") (hL' : ∀ l ∈ L', ' ' ∉ l.toList ∧ l ≠ "")
    (h : joinLocs L = joinLocs L') : L = L' := by
  cases L with
  | nil =>
    cases L' with
    | nil => rfl
    | cons a r => exact absurd h.symm (joinLocs_ne_empty _ (fun l hl => (hL' l hl).2) (by simp))
  | cons a r =>
    cases L' with
    | nil => exact absurd h (joinLocs_ne_empty _ (fun l hl => (hL l hl).2) (by simp))
    | cons a' r' =>
      have e1 : joinLocs (a :: r) = r.foldl joinStep a := rfl
      have e2 : joinLocs (a' :: r') = r'.foldl joinStep a' := rfl
      rw [e1, e2] at h
      have h' := congrArg String.toList h
      rw [toList_foldl_joinStep r a (hL a List.mem_cons_self).2,
        toList_foldl_joinStep r' a' (hL' a' List.mem_cons_self).2] at h'
      obtain ⟨h1, h2⟩ := blank_split_unique _ _ _ _ (hL a List.mem_cons_self).1 (hL' a' List.mem_cons_self).1
        (blankTail_shape _) (blankTail_shape _) h'
      have h3 := blankTail_inj _ _
        (fun t ht => by obtain ⟨l, hl, rfl⟩ := List.mem_map.mp ht; exact (hL l (List.mem_cons_of_mem _ hl)).1)
        (fun t ht => by obtain ⟨l, hl, rfl⟩ := List.mem_map.mp ht; exact (hL' l (List.mem_cons_of_mem _ hl)).1) h2
      have h4 : r = r' := map_toList_inj r r' h3
      rw [String.toList_inj.mp h1, h4]

/-- the token list of an entry is unique -/
theorem TokAt.unique {U : List String} (hU : Sep U) {cur : List (String × String)} {vm : String} {L L' : List String}
    (h : TokAt U cur vm L) (h' : TokAt U cur vm L') : L = L' := by
  have he := h.entry.symm.trans h'.entry
  unfold enc at he
  by_cases hL : L = []
  · by_cases hL' : L' = []
    · rw [hL, hL']
    · simp [hL, hL'] at he
  · by_cases hL' : L' = []
    · simp [hL, hL'] at he
    · simp only [hL, hL', if_false, Option.some.injEq] at he
      exact joinLocs_inj L L' (fun l hl => ⟨hU.blank l (h.sub l hl), hU.ne l (h.sub l hl)⟩)
        (fun l hl => ⟨hU.blank l (h'.sub l hl), hU.ne l (h'.sub l hl)⟩) he

/-- on a pre-parsed graph nothing is ever hidden: the visible graph is the graph -/
theorem vis_of_hidden_nil (g : Graph) (s : State) (h : ∀ x ∈ s.hidden, x ∈ ([] : List Nat)) : vis g s = g := by
  have : s.hidden = [] := by
    cases hh : s.hidden with
    | nil => rfl
    | cons a r => rw [hh] at h; exact absurd (h a List.mem_cons_self) (by simp)
  unfold vis
  simp [this]

end I2N.Trav
