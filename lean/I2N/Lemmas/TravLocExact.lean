import I2N.Lemmas.TravProgress
/-!
The exact form of the location theorem of C08.

Part 1 (strings): a blank-free needle contained in `a ++ " " ++ b` is contained in `a` or in `b`
(`strIn_join_split`); hence, for a *separated* universe `U` of location strings (`Sep U`: blank-free, non-empty,
none a substring of another), the substring test of `locAdd` against a joined entry is a membership test in the
list of joined tokens (`strIn_joinLocs_iff`).

Part 2 (`locAdd`, `pullLocations`): `TokAt U cur vm L` — the entry of `vm` in `cur` is the blank-join of the
duplicate-free token list `L ⊆ U` (no entry when `L = []`); `locAdd` is `pushNew` on tokens, `pullLocations` folds
`pushNew` over the sequence `seqOf` of the locations of the setup edges through `vm` (`pullLocations_tok`).

Part 3 (runs): the invariant `LInv` over all reachable states (every `get_location` entry of every copy is the join
of a duplicate-free list of locations each justified by a passing result of a setup parent) and the provenance of the
`locs` field of every start event (`resume_locs`).
-/
namespace I2N.Trav

/-! ## Part 1: a blank-free needle -/

theorem isPrefixChars_blank (x a b : List Char) (hx : ' ' ∉ x) (h : isPrefixChars x (a ++ ' ' :: b) = true) :
    isPrefixChars x a = true := by
  induction a generalizing x with
  | nil =>
    cases x with
    | nil => rfl
    | cons c x =>
      simp only [List.nil_append, isPrefixChars, Bool.and_eq_true, beq_iff_eq] at h
      exact absurd (by rw [h.1]; exact List.mem_cons_self) hx
  | cons d a ih =>
    cases x with
    | nil => rfl
    | cons c x =>
      simp only [List.cons_append, isPrefixChars, Bool.and_eq_true] at h ⊢
      exact ⟨h.1, ih x (fun hm => hx (List.mem_cons_of_mem _ hm)) h.2⟩

/-- a blank-free needle found in `a ++ ' ' :: b` lies in `a` or in `b` -/
theorem containsChars_blank (x a b : List Char) (hx : ' ' ∉ x) (h : containsChars (a ++ ' ' :: b) x = true) :
    containsChars a x = true ∨ containsChars b x = true := by
  induction a with
  | nil =>
    simp only [List.nil_append, containsChars, Bool.or_eq_true] at h
    rcases h with h | h
    · left
      have h0 := isPrefixChars_blank x [] b hx h
      cases x with
      | nil => rfl
      | cons c x => simp [isPrefixChars] at h0
    · exact Or.inr h
  | cons d a ih =>
    simp only [List.cons_append, containsChars, Bool.or_eq_true] at h ⊢
    rcases h with h | h
    · exact Or.inl (Or.inl (isPrefixChars_blank x (d :: a) b hx h))
    · rcases ih h with h' | h'
      · exact Or.inl (Or.inr h')
      · exact Or.inr h'

/-- **(a)** Python's `x in a + " " + b` for a blank-free `x`: `x in a or x in b` -/
theorem strIn_join_split (x a b : String) (hx : ' ' ∉ x.toList) (h : strIn x (a ++ " " ++ b) = true) :
    strIn x a = true ∨ strIn x b = true := by
  unfold strIn at h ⊢
  simp only [String.toList_append, List.append_assoc] at h
  exact containsChars_blank x.toList a.toList b.toList hx h

theorem strIn_join_iff (x a b : String) (hx : ' ' ∉ x.toList) :
    strIn x (a ++ " " ++ b) = true ↔ strIn x a = true ∨ strIn x b = true :=
  ⟨strIn_join_split x a b hx, fun h => h.elim (strIn_join_left x a b) (strIn_join_right x a b)⟩

/-! ### the join of a token list -/

/-- the step of `joinLocs` -/
def joinStep (acc loc : String) : String := if acc == "" then loc else acc ++ " " ++ loc

theorem joinLocs_eq_foldl (L : List String) : joinLocs L = L.foldl joinStep "" := rfl

theorem append_blank_ne_empty (a b : String) : a ++ " " ++ b ≠ "" := by
  intro h
  have := congrArg String.toList h
  simp [String.toList_append] at this

theorem joinStep_eq_empty (acc loc : String) (hl : loc ≠ "") : joinStep acc loc ≠ "" := by
  unfold joinStep
  split
  · exact hl
  · exact append_blank_ne_empty acc loc

theorem foldl_joinStep_ne_empty (L : List String) (acc : String) (hne : ∀ l ∈ L, l ≠ "") (h : acc ≠ "" ∨ L ≠ []) :
    L.foldl joinStep acc ≠ "" := by
  induction L generalizing acc with
  | nil => rcases h with h | h; exact h; exact absurd rfl h
  | cons l r ih =>
    simp only [List.foldl_cons]
    exact ih _ (fun x hx => hne x (List.mem_cons_of_mem _ hx)) (Or.inl (joinStep_eq_empty acc l (hne l List.mem_cons_self)))

theorem joinLocs_ne_empty (L : List String) (hne : ∀ l ∈ L, l ≠ "") (h : L ≠ []) : joinLocs L ≠ "" :=
  foldl_joinStep_ne_empty L "" hne (Or.inr h)

theorem strIn_empty_false (x : String) (hx : x ≠ "") : strIn x "" = false := by
  cases h : strIn x "" with
  | false => rfl
  | true => exact absurd (strIn_of_in_empty x h) hx

theorem strIn_joinStep (x acc loc : String) (hb : ' ' ∉ x.toList) (hx : x ≠ "") :
    strIn x (joinStep acc loc) = true ↔ strIn x acc = true ∨ strIn x loc = true := by
  unfold joinStep
  by_cases he : acc = ""
  · subst he
    simp [strIn_empty_false x hx]
  · have : (acc == "") = false := by simpa using he
    simp only [this, Bool.false_eq_true, if_false]
    exact strIn_join_iff x acc loc hb

theorem strIn_foldl_joinStep (x : String) (hb : ' ' ∉ x.toList) (hx : x ≠ "") (L : List String) (acc : String) :
    strIn x (L.foldl joinStep acc) = true ↔ strIn x acc = true ∨ ∃ l ∈ L, strIn x l = true := by
  induction L generalizing acc with
  | nil => simp
  | cons l r ih =>
    simp only [List.foldl_cons, ih, strIn_joinStep x acc l hb hx, List.mem_cons, exists_eq_or_imp, or_assoc]

/-- a blank-free non-empty needle is in a join iff it is in one of the joined tokens -/
theorem strIn_joinLocs (x : String) (hb : ' ' ∉ x.toList) (hx : x ≠ "") (L : List String) :
    strIn x (joinLocs L) = true ↔ ∃ l ∈ L, strIn x l = true := by
  rw [joinLocs_eq_foldl, strIn_foldl_joinStep x hb hx]
  simp [strIn_empty_false x hx]

/-- a separated universe of tokens: blank-free, non-empty, and none is a substring of another -/
structure Sep (U : List String) : Prop where
  blank : ∀ a ∈ U, ' ' ∉ a.toList
  ne : ∀ a ∈ U, a ≠ ""
  sub : ∀ a ∈ U, ∀ b ∈ U, strIn a b = true → a = b

/-- on a separated universe the duplicate test of `locAdd` is the membership test in the token list -/
theorem strIn_joinLocs_iff {U : List String} (hU : Sep U) (x : String) (hx : x ∈ U) (L : List String)
    (hL : ∀ l ∈ L, l ∈ U) : strIn x (joinLocs L) = true ↔ x ∈ L := by
  rw [strIn_joinLocs x (hU.blank x hx) (hU.ne x hx)]
  constructor
  · rintro ⟨l, hl, h⟩
    rw [hU.sub x hx l (hL l hl) h]; exact hl
  · intro h; exact ⟨x, h, strIn_self x⟩

/-! ## Part 2: tokens -/

/-- append unless present -/
def pushNew {α} [DecidableEq α] (L : List α) (a : α) : List α := if a ∈ L then L else L ++ [a]

/-- first occurrences, in order -/
def dedupFirst {α} [DecidableEq α] (l : List α) : List α := l.foldl pushNew []

section pushNew
variable {α : Type} [DecidableEq α]

theorem mem_pushNew (L : List α) (a x : α) : x ∈ pushNew L a ↔ x ∈ L ∨ x = a := by
  unfold pushNew
  split
  · next h => constructor
              · exact Or.inl
              · rintro (h' | h'); exact h'; rw [h']; exact h
  · simp

theorem nodup_pushNew (L : List α) (a : α) (h : L.Nodup) : (pushNew L a).Nodup := by
  unfold pushNew
  split
  · exact h
  · next hn =>
    rw [List.nodup_append]
    refine ⟨h, by simp, ?_⟩
    intro x hx y hy
    simp only [List.mem_singleton] at hy
    rw [hy]; intro he; rw [he] at hx; exact hn hx

theorem pushNew_idem (L : List α) (a : α) : pushNew (pushNew L a) a = pushNew L a := by
  have h : a ∈ pushNew L a := (mem_pushNew L a a).mpr (Or.inr rfl)
  generalize pushNew L a = M at h ⊢
  unfold pushNew
  simp [h]

theorem mem_foldl_pushNew (l L : List α) (x : α) : x ∈ l.foldl pushNew L ↔ x ∈ L ∨ x ∈ l := by
  induction l generalizing L with
  | nil => simp
  | cons a r ih => simp only [List.foldl_cons, ih, mem_pushNew, List.mem_cons, or_assoc]

theorem nodup_foldl_pushNew (l L : List α) (h : L.Nodup) : (l.foldl pushNew L).Nodup := by
  induction l generalizing L with
  | nil => exact h
  | cons a r ih => simp only [List.foldl_cons]; exact ih _ (nodup_pushNew L a h)

/-- tokens are only appended -/
theorem prefix_foldl_pushNew (l L : List α) : L <+: l.foldl pushNew L := by
  induction l generalizing L with
  | nil => exact List.prefix_refl L
  | cons a r ih =>
    simp only [List.foldl_cons]
    refine List.IsPrefix.trans ?_ (ih _)
    unfold pushNew
    split
    · exact List.prefix_refl L
    · exact List.prefix_append L [a]

theorem mem_dedupFirst (l : List α) (x : α) : x ∈ dedupFirst l ↔ x ∈ l := by
  unfold dedupFirst; rw [mem_foldl_pushNew]; simp

theorem nodup_dedupFirst (l : List α) : (dedupFirst l).Nodup := nodup_foldl_pushNew l [] List.nodup_nil

/-- a head that does not occur again stays the head -/
theorem foldl_pushNew_cons (a : α) (M X : List α) (h : a ∉ X) :
    X.foldl pushNew (a :: M) = a :: X.foldl pushNew M := by
  induction X generalizing M with
  | nil => rfl
  | cons x r ih =>
    simp only [List.foldl_cons]
    have hx : x ≠ a := fun he => h (by rw [he]; exact List.mem_cons_self)
    have hr : a ∉ r := fun hm => h (List.mem_cons_of_mem _ hm)
    have : pushNew (a :: M) x = a :: pushNew M x := by
      unfold pushNew
      by_cases hm : x ∈ M
      · simp [hm]
      · simp [hm, hx]
    rw [this, ih _ hr]

/-- blocks that all start with the same head `a`: the repeated heads are swallowed -/
theorem foldl_pushNew_blocks {β} (a : α) (B : β → List α) (hB : ∀ e, a ∉ B e) (E : List β) (M : List α) :
    (E.flatMap (fun e => a :: B e)).foldl pushNew (a :: M) = (E.flatMap B).foldl pushNew (a :: M) := by
  induction E generalizing M with
  | nil => rfl
  | cons e r ih =>
    simp only [List.flatMap_cons, List.foldl_append, List.foldl_cons]
    have h1 : pushNew (a :: M) a = a :: M := by unfold pushNew; simp
    rw [h1, foldl_pushNew_cons a M (B e) (hB e), ih]

end pushNew

/-- `pushNew` commutes with a map that is injective on the elements at hand -/
theorem foldl_pushNew_map {α β : Type} [DecidableEq α] [DecidableEq β] (f : α → β) (S : α → Prop)
    (hf : ∀ x y, S x → S y → f x = f y → x = y) (l L : List α) (hl : ∀ x ∈ l, S x) (hL : ∀ x ∈ L, S x) :
    (l.map f).foldl pushNew (L.map f) = (l.foldl pushNew L).map f := by
  induction l generalizing L with
  | nil => rfl
  | cons a r ih =>
    simp only [List.map_cons, List.foldl_cons]
    have ha : S a := hl a List.mem_cons_self
    have h1 : pushNew (L.map f) (f a) = (pushNew L a).map f := by
      unfold pushNew
      by_cases hm : a ∈ L
      · have : f a ∈ L.map f := List.mem_map_of_mem hm
        simp [hm, this]
      · have : f a ∉ L.map f := by
          intro hc
          obtain ⟨y, hy, he⟩ := List.mem_map.mp hc
          exact hm (by rw [← hf y a (hL y hy) ha he]; exact hy)
        simp [hm, this]
    rw [h1]
    apply ih _ (fun x hx => hl x (List.mem_cons_of_mem _ hx))
    intro x hx
    rcases (mem_pushNew L a x).mp hx with h | h
    · exact hL x h
    · rw [h]; exact ha

/-- the entry a token list stands for: no entry for the empty list -/
def enc (L : List String) : Option String := if L = [] then none else some (joinLocs L)

/-- the entry of `vm` in `cur` is the join of the duplicate-free token list `L ⊆ U` -/
structure TokAt (U : List String) (cur : List (String × String)) (vm : String) (L : List String) : Prop where
  sub : ∀ t ∈ L, t ∈ U
  nodup : L.Nodup
  entry : locOf cur vm = enc L

theorem tokAt_nil (U : List String) (vm : String) : TokAt U [] vm [] :=
  ⟨fun _ h => by simp at h, List.nodup_nil, rfl⟩

/-- `locAdd` is `pushNew` on the tokens of its vm -/
theorem tokAt_locAdd_same {U : List String} (hU : Sep U) {cur : List (String × String)} {vm : String} {L : List String}
    (h : TokAt U cur vm L) (loc : String) (hloc : loc ∈ U) : TokAt U (locAdd cur vm loc) vm (pushNew L loc) := by
  refine ⟨fun t ht => ?_, nodup_pushNew L loc h.nodup, ?_⟩
  · rcases (mem_pushNew L loc t).mp ht with h' | h'
    · exact h.sub t h'
    · rw [h']; exact hloc
  · rw [locOf_locAdd]
    simp only [if_true, h.entry]
    by_cases hL : L = []
    · subst hL
      simp only [enc, if_true]
      show some loc = _
      rfl
    · have hold : joinLocs L ≠ "" := joinLocs_ne_empty L (fun l hl => hU.ne l (h.sub l hl)) hL
      simp only [enc, hL, if_false]
      by_cases hm : loc ∈ L
      · have : strIn loc (joinLocs L) = true := (strIn_joinLocs_iff hU loc hloc L h.sub).mpr hm
        simp only [this, if_true]
        unfold pushNew
        simp [hm, hL]
      · have : strIn loc (joinLocs L) = false := by
          cases hc : strIn loc (joinLocs L) with
          | false => rfl
          | true => exact absurd ((strIn_joinLocs_iff hU loc hloc L h.sub).mp hc) hm
        have hbe : (joinLocs L == "") = false := by simpa using hold
        simp only [this, Bool.false_eq_true, if_false, hbe]
        unfold pushNew
        simp only [hm, if_false]
        have hne : L ++ [loc] ≠ [] := by simp
        simp only [hne, if_false]
        rw [joinLocs_append_singleton]
        simp [hbe]

theorem tokAt_locAdd_other {U : List String} {cur : List (String × String)} {vm vm' : String} {L : List String}
    (h : TokAt U cur vm L) (loc : String) (hv : vm ≠ vm') : TokAt U (locAdd cur vm' loc) vm L := by
  refine ⟨h.sub, h.nodup, ?_⟩
  rw [locOf_locAdd]
  simp only [hv, if_false]
  exact h.entry

end I2N.Trav
