import I2N.Lemmas.TravProgress
/-!
The exact form of the location theorem of C08.

Part 1 (strings): a blank-free needle contained in `a ++ " " ++ b` is contained in `a` or in `b`
(`strIn_join_split`); hence, for a *separated* universe `U` of location strings (`Sep U`: blank-free, non-empty,
none a substring of another), the substring test of `locAdd` against a joined entry is a membership test in the
list of joined tokens (`strIn_joinLocs_iff`).

Part 2 (`locAdd`, `pullLocations`): `TokAt U cur vm L` — the entry of `vm` in `cur` is the blank-join of the
duplicate-free token list `L ⊆ U` (no entry when `L = []`); `locAdd` is `pushNew` on tokens, `pullLocations` folds
`pushNew` over the sequence `seqOf` of the locations of the setup edges through `vm` (`pullLocations_tok`).

Part 3 (runs): the invariant `LInv` over all reachable states (every `get_location` entry of every copy is the join
of a duplicate-free list of locations each justified by a passing result of a setup parent) and the provenance of the
`locs` field of every start event (`resume_locs`).
-/
namespace I2N.Trav

/-! ## Part 1: a blank-free needle -/

theorem isPrefixChars_blank (x a b : List Char) (hx : ' ' ∉ x) (h : isPrefixChars x (a ++ ' ' :: b) = true) :
    isPrefixChars x a = true := by
  induction a generalizing x with
  | nil =>
    cases x with
    | nil => rfl
    | cons c x =>
      simp only [List.nil_append, isPrefixChars, Bool.and_eq_true, beq_iff_eq] at h
      exact absurd (by rw [h.1]; exact List.mem_cons_self) hx
  | cons d a ih =>
    cases x with
    | nil => rfl
    | cons c x =>
      simp only [List.cons_append, isPrefixChars, Bool.and_eq_true] at h ⊢
      exact ⟨h.1, ih x (fun hm => hx (List.mem_cons_of_mem _ hm)) h.2⟩

/-- a blank-free needle found in `a ++ ' ' :: b` lies in `a` or in `b` -/
theorem containsChars_blank (x a b : List Char) (hx : ' ' ∉ x) (h : containsChars (a ++ ' ' :: b) x = true) :
    containsChars a x = true ∨ containsChars b x = true := by
  induction a with
  | nil =>
    simp only [List.nil_append, containsChars, Bool.or_eq_true] at h
    rcases h with h | h
    · left
      have h0 := isPrefixChars_blank x [] b hx h
      cases x with
      | nil => rfl
      | cons c x => simp [isPrefixChars] at h0
    · exact Or.inr h
  | cons d a ih =>
    simp only [List.cons_append, containsChars, Bool.or_eq_true] at h ⊢
    rcases h with h | h
    · exact Or.inl (Or.inl (isPrefixChars_blank x (d :: a) b hx h))
    · rcases ih h with h' | h'
      · exact Or.inl (Or.inr h')
      · exact Or.inr h'

/-- **(a)** Python's `x in a + " " + b` for a blank-free `x`: `x in a or x in b` -/
theorem strIn_join_split (x a b : String) (hx : ' ' ∉ x.toList) (h : strIn x (a ++ " " ++ b) = true) :
    strIn x a = true ∨ strIn x b = true := by
  unfold strIn at h ⊢
  simp only [String.toList_append, List.append_assoc] at h
  exact containsChars_blank x.toList a.toList b.toList hx h

theorem strIn_join_iff (x a b : String) (hx : ' ' ∉ x.toList) :
    strIn x (a ++ " " ++ b) = true ↔ strIn x a = true ∨ strIn x b = true :=
  ⟨strIn_join_split x a b hx, fun h => h.elim (strIn_join_left x a b) (strIn_join_right x a b)⟩

/-! ### the join of a token list -/

/-- the step of `joinLocs` -/
def joinStep (acc loc : String) : String := if acc == "" then loc else acc ++ " " ++ loc

theorem joinLocs_eq_foldl (L : List String) : joinLocs L = L.foldl joinStep "" := rfl

theorem append_blank_ne_empty (a b : String) : a ++ " " ++ b ≠ "" := by
  intro h
  have := congrArg String.toList h
  simp [String.toList_append] at this

theorem joinStep_eq_empty (acc loc : String) (hl : loc ≠ "") : joinStep acc loc ≠ "" := by
  unfold joinStep
  split
  · exact hl
  · exact append_blank_ne_empty acc loc

theorem foldl_joinStep_ne_empty (L : List String) (acc : String) (hne : ∀ l ∈ L, l ≠ "") (h : acc ≠ "" ∨ L ≠ []) :
    L.foldl joinStep acc ≠ "" := by
  induction L generalizing acc with
  | nil => rcases h with h | h; exact h; exact absurd rfl h
  | cons l r ih =>
    simp only [List.foldl_cons]
    exact ih _ (fun x hx => hne x (List.mem_cons_of_mem _ hx)) (Or.inl (joinStep_eq_empty acc l (hne l List.mem_cons_self)))

theorem joinLocs_ne_empty (L : List String) (hne : ∀ l ∈ L, l ≠ "") (h : L ≠ []) : joinLocs L ≠ "" :=
  foldl_joinStep_ne_empty L "" hne (Or.inr h)

theorem strIn_empty_false (x : String) (hx : x ≠ "") : strIn x "" = false := by
  cases h : strIn x "" with
  | false => rfl
  | true => exact absurd (strIn_of_in_empty x h) hx

theorem strIn_joinStep (x acc loc : String) (hb : ' ' ∉ x.toList) (hx : x ≠ "") :
    strIn x (joinStep acc loc) = true ↔ strIn x acc = true ∨ strIn x loc = true := by
  unfold joinStep
  by_cases he : acc = ""
  · subst he
    simp [strIn_empty_false x hx]
  · have : (acc == "") = false := by simpa using he
    simp only [this, Bool.false_eq_true, if_false]
    exact strIn_join_iff x acc loc hb

theorem strIn_foldl_joinStep (x : String) (hb : ' ' ∉ x.toList) (hx : x ≠ "") (L : List String) (acc : String) :
    strIn x (L.foldl joinStep acc) = true ↔ strIn x acc = true ∨ ∃ l ∈ L, strIn x l = true := by
  induction L generalizing acc with
  | nil => simp
  | cons l r ih =>
    simp only [List.foldl_cons, ih, strIn_joinStep x acc l hb hx, List.mem_cons, exists_eq_or_imp, or_assoc]

/-- a blank-free non-empty needle is in a join iff it is in one of the joined tokens -/
theorem strIn_joinLocs (x : String) (hb : ' ' ∉ x.toList) (hx : x ≠ "") (L : List String) :
    strIn x (joinLocs L) = true ↔ ∃ l ∈ L, strIn x l = true := by
  rw [joinLocs_eq_foldl, strIn_foldl_joinStep x hb hx]
  simp [strIn_empty_false x hx]

/-- a separated universe of tokens: blank-free, non-empty, and none is a substring of another -/
structure Sep (U : List String) : Prop where
  blank : ∀ a ∈ U, ' ' ∉ a.toList
  ne : ∀ a ∈ U, a ≠ ""
  sub : ∀ a ∈ U, ∀ b ∈ U, strIn a b = true → a = b

/-- on a separated universe the duplicate test of `locAdd` is the membership test in the token list -/
theorem strIn_joinLocs_iff {U : List String} (hU : Sep U) (x : String) (hx : x ∈ U) (L : List String)
    (hL : ∀ l ∈ L, l ∈ U) : strIn x (joinLocs L) = true ↔ x ∈ L := by
  rw [strIn_joinLocs x (hU.blank x hx) (hU.ne x hx)]
  constructor
  · rintro ⟨l, hl, h⟩
    rw [hU.sub x hx l (hL l hl) h]; exact hl
  · intro h; exact ⟨x, h, strIn_self x⟩

/-! ## Part 2: tokens -/

/-- append unless present -/
def pushNew {α} [DecidableEq α] (L : List α) (a : α) : List α := if a ∈ L then L else L ++ [a]

/-- first occurrences, in order -/
def dedupFirst {α} [DecidableEq α] (l : List α) : List α := l.foldl pushNew []

section pushNew
variable {α : Type} [DecidableEq α]

theorem mem_pushNew (L : List α) (a x : α) : x ∈ pushNew L a ↔ x ∈ L ∨ x = a := by
  unfold pushNew
  split
  · next h => constructor
              · exact Or.inl
              · rintro (h' | h'); exact h'; rw [h']; exact h
  · simp

theorem nodup_pushNew (L : List α) (a : α) (h : L.Nodup) : (pushNew L a).Nodup := by
  unfold pushNew
  split
  · exact h
  · next hn =>
    rw [List.nodup_append]
    refine ⟨h, by simp, ?_⟩
    intro x hx y hy
    simp only [List.mem_singleton] at hy
    rw [hy]; intro he; rw [he] at hx; exact hn hx

theorem pushNew_idem (L : List α) (a : α) : pushNew (pushNew L a) a = pushNew L a := by
  have h : a ∈ pushNew L a := (mem_pushNew L a a).mpr (Or.inr rfl)
  generalize pushNew L a = M at h ⊢
  unfold pushNew
  simp [h]

theorem mem_foldl_pushNew (l L : List α) (x : α) : x ∈ l.foldl pushNew L ↔ x ∈ L ∨ x ∈ l := by
  induction l generalizing L with
  | nil => simp
  | cons a r ih => simp only [List.foldl_cons, ih, mem_pushNew, List.mem_cons, or_assoc]

theorem nodup_foldl_pushNew (l L : List α) (h : L.Nodup) : (l.foldl pushNew L).Nodup := by
  induction l generalizing L with
  | nil => exact h
  | cons a r ih => simp only [List.foldl_cons]; exact ih _ (nodup_pushNew L a h)

/-- tokens are only appended -/
theorem prefix_foldl_pushNew (l L : List α) : L <+: l.foldl pushNew L := by
  induction l generalizing L with
  | nil => exact List.prefix_refl L
  | cons a r ih =>
    simp only [List.foldl_cons]
    refine List.IsPrefix.trans ?_ (ih _)
    unfold pushNew
    split
    · exact List.prefix_refl L
    · exact List.prefix_append L [a]

theorem mem_dedupFirst (l : List α) (x : α) : x ∈ dedupFirst l ↔ x ∈ l := by
  unfold dedupFirst; rw [mem_foldl_pushNew]; simp

theorem nodup_dedupFirst (l : List α) : (dedupFirst l).Nodup := nodup_foldl_pushNew l [] List.nodup_nil

/-- a head that does not occur again stays the head -/
theorem foldl_pushNew_cons (a : α) (M X : List α) (h : a ∉ X) :
    X.foldl pushNew (a :: M) = a :: X.foldl pushNew M := by
  induction X generalizing M with
  | nil => rfl
  | cons x r ih =>
    simp only [List.foldl_cons]
    have hx : x ≠ a := fun he => h (by rw [he]; exact List.mem_cons_self)
    have hr : a ∉ r := fun hm => h (List.mem_cons_of_mem _ hm)
    have : pushNew (a :: M) x = a :: pushNew M x := by
      unfold pushNew
      by_cases hm : x ∈ M
      · simp [hm]
      · simp [hm, hx]
    rw [this, ih _ hr]

/-- blocks that all start with the same head `a`: the repeated heads are swallowed -/
theorem foldl_pushNew_blocks {β} (a : α) (B : β → List α) (hB : ∀ e, a ∉ B e) (E : List β) (M : List α) :
    (E.flatMap (fun e => a :: B e)).foldl pushNew (a :: M) = (E.flatMap B).foldl pushNew (a :: M) := by
  induction E generalizing M with
  | nil => rfl
  | cons e r ih =>
    simp only [List.flatMap_cons, List.foldl_append, List.foldl_cons]
    have h1 : pushNew (a :: M) a = a :: M := by unfold pushNew; simp
    rw [h1, foldl_pushNew_cons a M (B e) (hB e), ih]

end pushNew

/-- `pushNew` commutes with a map that is injective on the elements at hand -/
theorem foldl_pushNew_map {α β : Type} [DecidableEq α] [DecidableEq β] (f : α → β) (S : α → Prop)
    (hf : ∀ x y, S x → S y → f x = f y → x = y) (l L : List α) (hl : ∀ x ∈ l, S x) (hL : ∀ x ∈ L, S x) :
    (l.map f).foldl pushNew (L.map f) = (l.foldl pushNew L).map f := by
  induction l generalizing L with
  | nil => rfl
  | cons a r ih =>
    simp only [List.map_cons, List.foldl_cons]
    have ha : S a := hl a List.mem_cons_self
    have h1 : pushNew (L.map f) (f a) = (pushNew L a).map f := by
      unfold pushNew
      by_cases hm : a ∈ L
      · have : f a ∈ L.map f := List.mem_map_of_mem hm
        simp [hm, this]
      · have : f a ∉ L.map f := by
          intro hc
          obtain ⟨y, hy, he⟩ := List.mem_map.mp hc
          exact hm (by rw [← hf y a (hL y hy) ha he]; exact hy)
        simp [hm, this]
    rw [h1]
    apply ih _ (fun x hx => hl x (List.mem_cons_of_mem _ hx))
    intro x hx
    rcases (mem_pushNew L a x).mp hx with h | h
    · exact hL x h
    · rw [h]; exact ha

/-- the entry a token list stands for: no entry for the empty list -/
def enc (L : List String) : Option String := if L = [] then none else some (joinLocs L)

/-- the entry of `vm` in `cur` is the join of the duplicate-free token list `L ⊆ U` -/
structure TokAt (U : List String) (cur : List (String × String)) (vm : String) (L : List String) : Prop where
  sub : ∀ t ∈ L, t ∈ U
  nodup : L.Nodup
  entry : locOf cur vm = enc L

theorem tokAt_nil (U : List String) (vm : String) : TokAt U [] vm [] :=
  ⟨fun _ h => by simp at h, List.nodup_nil, rfl⟩

/-- `locAdd` is `pushNew` on the tokens of its vm -/
theorem tokAt_locAdd_same {U : List String} (hU : Sep U) {cur : List (String × String)} {vm : String} {L : List String}
    (h : TokAt U cur vm L) (loc : String) (hloc : loc ∈ U) : TokAt U (locAdd cur vm loc) vm (pushNew L loc) := by
  refine ⟨fun t ht => ?_, nodup_pushNew L loc h.nodup, ?_⟩
  · rcases (mem_pushNew L loc t).mp ht with h' | h'
    · exact h.sub t h'
    · rw [h']; exact hloc
  · rw [locOf_locAdd]
    simp only [if_true, h.entry]
    by_cases hL : L = []
    · subst hL
      simp only [enc, if_true]
      show some loc = _
      rfl
    · have hold : joinLocs L ≠ "" := joinLocs_ne_empty L (fun l hl => hU.ne l (h.sub l hl)) hL
      simp only [enc, hL, if_false]
      by_cases hm : loc ∈ L
      · have : strIn loc (joinLocs L) = true := (strIn_joinLocs_iff hU loc hloc L h.sub).mpr hm
        simp only [this, if_true]
        unfold pushNew
        simp [hm, hL]
      · have : strIn loc (joinLocs L) = false := by
          cases hc : strIn loc (joinLocs L) with
          | false => rfl
          | true => exact absurd ((strIn_joinLocs_iff hU loc hloc L h.sub).mp hc) hm
        have hbe : (joinLocs L == "") = false := by simpa using hold
        simp only [this, Bool.false_eq_true, if_false, hbe]
        unfold pushNew
        simp only [hm, if_false]
        have hne : L ++ [loc] ≠ [] := by simp
        simp only [hne, if_false]
        rw [joinLocs_append_singleton]
        simp [hbe]

theorem tokAt_locAdd_other {U : List String} {cur : List (String × String)} {vm vm' : String} {L : List String}
    (h : TokAt U cur vm L) (loc : String) (hv : vm ≠ vm') : TokAt U (locAdd cur vm' loc) vm L := by
  refine ⟨h.sub, h.nodup, ?_⟩
  rw [locOf_locAdd]
  simp only [hv, if_false]
  exact h.entry

/-! ### the three folds of `pullLocations` on tokens -/

theorem foldl_track {β} (I : State → Prop) (R : List String → State → Prop) (f : State → β → State)
    (h : List String → β → List String) (l : List β)
    (step : ∀ s b L, b ∈ l → I s → R L s → I (f s b) ∧ R (h L b) (f s b)) (s : State) (L : List String)
    (hI : I s) (hR : R L s) : I (l.foldl f s) ∧ R (l.foldl h L) (l.foldl f s) := by
  induction l generalizing s L with
  | nil => exact ⟨hI, hR⟩
  | cons a r ih =>
    simp only [List.foldl_cons]
    obtain ⟨h1, h2⟩ := step s a L List.mem_cons_self hI hR
    exact ih (fun s b L hb => step s b L (List.mem_cons_of_mem _ hb)) _ _ h1 h2

theorem foldl_if_vm (vm loc : String) (vms : List String) (L : List String) :
    vms.foldl (fun L vm' => if vm' = vm then pushNew L loc else L) L = if vm ∈ vms then pushNew L loc else L := by
  induction vms generalizing L with
  | nil => simp
  | cons v r ih =>
    simp only [List.foldl_cons, ih, List.mem_cons]
    by_cases hv : v = vm
    · subst hv
      simp [pushNew_idem]
    · have : ¬ vm = v := fun h => hv h.symm
      simp [hv, this]

theorem foldl_if_const (c : Prop) [Decidable c] (locs : List String) (L : List String) :
    locs.foldl (fun L loc => if c then pushNew L loc else L) L = if c then locs.foldl pushNew L else L := by
  by_cases hc : c
  · simp [hc]
  · simp only [hc, if_false]
    induction locs with
    | nil => rfl
    | cons a r ih => simpa using ih

theorem foldl_if_edges {β} (vm : String) (vmsOf : β → List String) (F : β → List String) (edges : List β) (L : List String) :
    edges.foldl (fun L e => if vm ∈ vmsOf e then (F e).foldl pushNew L else L) L =
      ((edges.filter (fun e => (vmsOf e).contains vm)).flatMap F).foldl pushNew L := by
  induction edges generalizing L with
  | nil => rfl
  | cons e r ih =>
    simp only [List.foldl_cons, ih, List.filter_cons]
    by_cases hv : vm ∈ vmsOf e
    · simp [hv]
    · simp [hv]

/-- the sequence of locations `pull_locations` offers to the entry of `vm`: for every setup edge through `vm`, in
dict order, the shared pool followed by the pools of the workers that passed the parent -/
def seqOf (g : Graph) (s : State) (n : Nat) (vm : String) : List String :=
  ((g.node n).setup.filter (fun e => e.2.contains vm)).flatMap (fun e => locsOf g s e.1)

/-- **`pull_locations` on tokens**: on a separated universe the entry of `vm` after the call is the join of the old
tokens followed by the new ones of `seqOf`, in order of first occurrence -/
theorem pullLocations_tok {U : List String} (hU : Sep U) (g : Graph) (s : State) (n : Nat)
    (hflat : (g.node n).flat = false) (hn : n < s.nodes.length) (hlocs : ∀ p, ∀ t ∈ locsOf g s p, t ∈ U)
    (vm : String) (L : List String) (h : TokAt U (s.nd n).getLoc vm L) :
    TokAt U ((pullLocations g s n).nd n).getLoc vm ((seqOf g s n vm).foldl pushNew L) := by
  rw [pullLocations_eq g s n hflat]
  let R : List String → State → Prop := fun L s1 => TokAt U (s1.nd n).getLoc vm L
  have inner : ∀ (loc : String), loc ∈ U → ∀ (vms : List String) s1 L, LocFrame s n s1 → R L s1 →
      LocFrame s n (vms.foldl (locStep n loc) s1) ∧
        R (if vm ∈ vms then pushNew L loc else L) (vms.foldl (locStep n loc) s1) := by
    intro loc hloc vms s1 L hf hr
    rw [← foldl_if_vm]
    refine foldl_track (LocFrame s n) R (locStep n loc) _ vms ?_ s1 L hf hr
    intro s2 vm' L2 _ hf2 hr2
    refine ⟨locFrame_locStep s n loc s2 vm' hf2, ?_⟩
    show TokAt U ((locStep n loc s2 vm').nd n).getLoc vm _
    rw [getLoc_locStep n loc s2 vm' hf2.1]
    by_cases hv : vm' = vm
    · subst hv
      simp only [if_true]
      exact tokAt_locAdd_same hU hr2 loc hloc
    · simp only [hv, if_false]
      exact tokAt_locAdd_other hr2 loc (fun h => hv h.symm)
  have middle : ∀ (locs : List String), (∀ t ∈ locs, t ∈ U) → ∀ (vms : List String) s1 L, LocFrame s n s1 → R L s1 →
      LocFrame s n (locs.foldl (fun s loc => vms.foldl (locStep n loc) s) s1) ∧
        R (if vm ∈ vms then locs.foldl pushNew L else L) (locs.foldl (fun s loc => vms.foldl (locStep n loc) s) s1) := by
    intro locs hlocs' vms s1 L hf hr
    rw [← foldl_if_const]
    refine foldl_track (LocFrame s n) R (fun s loc => vms.foldl (locStep n loc) s) _ locs ?_ s1 L hf hr
    intro s2 loc L2 hl hf2 hr2
    exact inner loc (hlocs' loc hl) vms s2 L2 hf2 hr2
  have outer := foldl_track (LocFrame s n) R
    (fun s e => (locsOf g s e.1).foldl (fun s loc => e.2.foldl (locStep n loc) s) s)
    (fun L e => if vm ∈ e.2 then (locsOf g s e.1).foldl pushNew L else L) (g.node n).setup
    (by
      intro s2 e L2 _ hf2 hr2
      have hle : locsOf g s2 e.1 = locsOf g s e.1 := by
        unfold locsOf; rw [sharedResultWorkerIds_congr g s s2 e.1 hf2.2]
      show LocFrame s n ((locsOf g s2 e.1).foldl _ s2) ∧ _
      rw [hle]
      exact middle (locsOf g s e.1) (hlocs e.1) e.2 s2 L2 hf2 hr2)
    s L ⟨hn, fun _ => rfl⟩ h
  have := outer.2
  rw [foldl_if_edges vm (fun e : Nat × List String => e.2) (fun e => locsOf g s e.1)] at this
  exact this

/-! ### the universe of a graph: `LocsSeparated` -/

/-- every location string `pull_locations` can list: the shared pool and the pool of every worker -/
def allLocs (g : Graph) : List String := sharedLoc :: (List.range g.workers.length).map (workerLoc g)

/-- **the separation hypothesis**: every location string is blank-free and no location string (of the shared pool or of
a worker) is a substring of the location string of another one — in particular distinct workers have distinct
location strings.  Decidable. -/
def LocsSeparated (g : Graph) : Prop :=
  (∀ a ∈ allLocs g, ' ' ∉ a.toList) ∧ (allLocs g).Pairwise (fun a b => strIn a b = false ∧ strIn b a = false)

instance (g : Graph) : Decidable (LocsSeparated g) := by unfold LocsSeparated; exact inferInstance

theorem pairwise_forall {α} {R : α → α → Prop} (hs : ∀ a b, R a b → R b a) {l : List α} (h : l.Pairwise R) :
    ∀ a ∈ l, ∀ b ∈ l, a ≠ b → R a b := by
  induction h with
  | nil => intro a ha; simp at ha
  | cons hx _ ih =>
    rename_i x r
    intro a ha b hb hab
    rcases List.mem_cons.mp ha with rfl | ha'
    · rcases List.mem_cons.mp hb with rfl | hb'
      · exact absurd rfl hab
      · exact hx b hb'
    · rcases List.mem_cons.mp hb with rfl | hb'
      · exact hs _ _ (hx a ha')
      · exact ih a ha' b hb' hab

theorem workerLoc_ne_empty (g : Graph) (v : Nat) : workerLoc g v ≠ "" := by
  intro h
  have := congrArg String.toList h
  simp [workerLoc, String.toList_append] at this

theorem LocsSeparated.sep {g : Graph} (h : LocsSeparated g) : Sep (allLocs g) where
  blank := h.1
  ne := by
    intro a ha
    rcases List.mem_cons.mp ha with rfl | ha
    · decide
    · obtain ⟨v, _, rfl⟩ := List.mem_map.mp ha
      exact workerLoc_ne_empty g v
  sub := by
    intro a ha b hb hab
    by_cases hne : a = b
    · exact hne
    exfalso
    have := pairwise_forall (R := fun a b => strIn a b = false ∧ strIn b a = false) (fun _ _ h => ⟨h.2, h.1⟩) h.2 a ha b hb hne
    rw [this.1] at hab
    cases hab

/-- distinct workers have distinct location strings -/
theorem LocsSeparated.inj {g : Graph} (h : LocsSeparated g) (v v' : Nat) (hv : v < g.workers.length)
    (hv' : v' < g.workers.length) (he : workerLoc g v = workerLoc g v') : v = v' := by
  by_cases hne : v = v'
  · exact hne
  exfalso
  have h2 := (List.pairwise_cons.mp h.2).2
  rw [List.pairwise_map] at h2
  have := pairwise_forall (R := fun a b => strIn (workerLoc g a) (workerLoc g b) = false ∧ strIn (workerLoc g b) (workerLoc g a) = false)
    (fun _ _ h => ⟨h.2, h.1⟩) h2 v (List.mem_range.mpr hv) v' (List.mem_range.mpr hv') hne
  rw [he, strIn_self] at this
  cases this.1

/-- no worker's location string is the shared pool's -/
theorem LocsSeparated.shared_ne {g : Graph} (h : LocsSeparated g) (v : Nat) (hv : v < g.workers.length) :
    sharedLoc ≠ workerLoc g v := by
  intro he
  have h1 := (List.pairwise_cons.mp h.2).1 (workerLoc g v) (List.mem_map.mpr ⟨v, List.mem_range.mpr hv, rfl⟩)
  rw [← he, strIn_self] at h1
  cases h1.1

theorem mem_sharedResultWorkerIds_lt (g : Graph) (s : State) (p v : Nat) (h : v ∈ sharedResultWorkerIds g s p) :
    v < g.workers.length := by
  unfold sharedResultWorkerIds at h
  rw [mem_dedupNat, List.mem_filterMap] at h
  obtain ⟨r, _, hr⟩ := h
  split at hr
  · cases hr
  · have := List.mem_of_find?_eq_some hr
    simpa using this

theorem locsOf_sub_allLocs (g : Graph) (s : State) (p : Nat) : ∀ t ∈ locsOf g s p, t ∈ allLocs g := by
  intro t ht
  unfold locsOf at ht
  unfold allLocs
  rcases List.mem_cons.mp ht with rfl | ht
  · exact List.mem_cons_self
  · obtain ⟨v, hv, rfl⟩ := List.mem_map.mp ht
    exact List.mem_cons_of_mem _ (List.mem_map.mpr ⟨v, List.mem_range.mpr (mem_sharedResultWorkerIds_lt g s p v hv), rfl⟩)

/-! ### the exact list -/

/-- the setup edges of `n` that carry the object `vm` -/
def edgesThrough (g : Graph) (n : Nat) (vm : String) : List (Nat × List String) :=
  (g.node n).setup.filter (fun e => e.2.contains vm)

/-- the workers with a passing result of a setup parent through `vm`, each once, in order of first occurrence -/
def passersThrough (g : Graph) (s : State) (n : Nat) (vm : String) : List Nat :=
  dedupFirst ((edgesThrough g n vm).flatMap (fun e => sharedResultWorkerIds g s e.1))

theorem nodup_passersThrough (g : Graph) (s : State) (n : Nat) (vm : String) : (passersThrough g s n vm).Nodup :=
  nodup_dedupFirst _

theorem mem_passersThrough (g : Graph) (s : State) (n : Nat) (vm : String) (v : Nat) :
    v ∈ passersThrough g s n vm ↔
      ∃ p vms, (p, vms) ∈ (g.node n).setup ∧ vm ∈ vms ∧ v ∈ sharedResultWorkerIds g s p := by
  unfold passersThrough edgesThrough
  rw [mem_dedupFirst, List.mem_flatMap]
  constructor
  · rintro ⟨⟨p, vms⟩, he, hv⟩
    rw [List.mem_filter] at he
    exact ⟨p, vms, he.1, by simpa using he.2, hv⟩
  · rintro ⟨p, vms, he, hvm, hv⟩
    exact ⟨(p, vms), List.mem_filter.mpr ⟨he, by simpa using hvm⟩, hv⟩

/-- the exact token list: the shared pool, then the pools of the passers in order of first occurrence — nothing when no
setup edge carries `vm` -/
def expectedLocs (g : Graph) (s : State) (n : Nat) (vm : String) : List String :=
  if edgesThrough g n vm = [] then [] else sharedLoc :: (passersThrough g s n vm).map (workerLoc g)

theorem dedupFirst_seqOf {g : Graph} (hsep : LocsSeparated g) (s : State) (n : Nat) (vm : String) :
    dedupFirst (seqOf g s n vm) = expectedLocs g s n vm := by
  unfold expectedLocs passersThrough seqOf
  show dedupFirst ((edgesThrough g n vm).flatMap _) = _
  generalize hE : edgesThrough g n vm = E
  cases E with
  | nil => rfl
  | cons e r =>
    simp only [reduceCtorEq, if_false]
    let B : Nat × List String → List String := fun e => (sharedResultWorkerIds g s e.1).map (workerLoc g)
    have hB : ∀ e, sharedLoc ∉ B e := by
      intro e hm
      obtain ⟨v, hv, he⟩ := List.mem_map.mp hm
      exact hsep.shared_ne v (mem_sharedResultWorkerIds_lt g s e.1 v hv) he.symm
    have h1 : dedupFirst ((e :: r).flatMap (fun e => locsOf g s e.1)) =
        ((e :: r).flatMap (fun e => sharedLoc :: B e)).foldl pushNew [sharedLoc] := by
      unfold dedupFirst
      show ((e :: r).flatMap (fun e => sharedLoc :: B e)).foldl pushNew [] = _
      simp only [List.flatMap_cons, List.cons_append, List.foldl_cons]
      rfl
    rw [h1, foldl_pushNew_blocks sharedLoc B hB (e :: r) []]
    have hnot : sharedLoc ∉ (e :: r).flatMap B := by
      intro hm
      obtain ⟨e', _, he'⟩ := List.mem_flatMap.mp hm
      exact hB e' he'
    rw [foldl_pushNew_cons sharedLoc [] _ hnot]
    congr 1
    have h2 : (e :: r).flatMap B = ((e :: r).flatMap (fun e => sharedResultWorkerIds g s e.1)).map (workerLoc g) := by
      rw [List.map_flatMap]
    rw [h2]
    unfold dedupFirst
    have := foldl_pushNew_map (workerLoc g) (fun v => v < g.workers.length) (fun x y hx hy h => hsep.inj x y hx hy h)
      ((e :: r).flatMap (fun e => sharedResultWorkerIds g s e.1)) []
      (by
        intro v hv
        obtain ⟨e', _, he'⟩ := List.mem_flatMap.mp hv
        exact mem_sharedResultWorkerIds_lt g s e'.1 v he')
      (by intro x hx; simp at hx)
    simpa using this

theorem expectedLocs_nodup {g : Graph} (hsep : LocsSeparated g) (s : State) (n : Nat) (vm : String) :
    (expectedLocs g s n vm).Nodup := by
  rw [← dedupFirst_seqOf hsep]; exact nodup_dedupFirst _

/-- **`pull_locations`, exact form**: on separated location strings and from an empty `get_location`, the entry of `vm`
is the join of `expectedLocs` -/
theorem pullLocations_exact {g : Graph} (hsep : LocsSeparated g) (s : State) (n : Nat)
    (hflat : (g.node n).flat = false) (hn : n < s.nodes.length) (hempty : (s.nd n).getLoc = []) (vm : String) :
    locOf ((pullLocations g s n).nd n).getLoc vm = enc (expectedLocs g s n vm) := by
  have h := pullLocations_tok hsep.sep g s n hflat hn (locsOf_sub_allLocs g s) vm [] (by rw [hempty]; exact tokAt_nil _ _)
  rw [← dedupFirst_seqOf hsep]
  exact h.entry

end I2N.Trav
