import I2N.Lemmas.TravStates
import I2N.Lemmas.TravClean
/-!
C01 with state removal on pre-parsed graphs: the semantic invariant of `TravStates.lean` (`Sem` = `Prov` ∧ `FinSrc`)
is weakened to `SemR` = `Prov` ∧ `FinSrcR` ∧ `FinRes`: the set states of a traversed parsed copy `p` are sourced (`Src`)
**or** some removable copy `i` of the class of `p` is cleanup-ready for its owner (`AltC`: every dependant of `i` the owner
cares for has been dropped by the owner).  The second alternative is what `sync_states` leaves behind when it removes the
states of `i`: `reverse_node` is only reached on a cleanup-ready node, and the `droppedCleanup` registers only grow.
`FinRes`: the class of a traversed stateless parsed copy has a result (or a placeholder).  The invariant is inductive
without any hypothesis on the number of copies.

At the start of a dependant `n` of `p` the second alternative has to be excluded.  Two ways (`Props/C01.lean`):
* `RemovableSingle` (a removable class has ONE parsed copy — any graph with a single worker): then `i = p` is the
  starting worker's own copy, and C05's invariant `CInv` (`TravClean.lean`) says that the worker awaits the test on the
  last node of its path and no node on its path is dropped — but a cleanup-ready `p` has dropped `n`;
* `SymCopies` (the copies of a removable class have dependants of the same classes) and `MaxTriesOne` (no retries): the
  owner of `i` has dropped, hence traversed, its copy of the class of `n`; a positive run decision without retries means
  that the class of `n` has no result (stateless) or no traversed copy (stateful) — contradiction (`RunWhy`).
Without either, a worker that comes late to its own copy of a removable class skips it (the class counts as finished: no
scan) although the state has been removed from the pool of the worker that produced it
(`Props/C01.lean: removed_state_stale_location`).
-/
namespace I2N.Trav

/-! ## `sync_states` without copy-back: nothing, or a removal from the acting worker's own pool -/

/-- the node never copies states back from the shared pool while backing out (`pool_filter` ∈ {reuse, block}) -/
def NodeNC (nd : Node) : Prop := nd.poolFilter = "reuse" ∨ nd.poolFilter = "block"

instance (nd : Node) : Decidable (NodeNC nd) := by unfold NodeNC; infer_instance

/-- the unset mode of the state's object starts with `f` -/
def fMode (nd : Node) (vs : String × String) : Bool := (unsetModeOf nd vs.1).toList.head? == some 'f'

/-- some set state of the node is removed when the node is reversed -/
def Removable (nd : Node) : Bool := nd.sets.any (fMode nd)

/-- what the loop of `sync_states` has accumulated: a positive verdict comes with the action `unset`; the states to
unset are set states of the node with an `f` mode -/
def AccOk (nd : Node) (acc : SyncAcc) : Prop :=
  (acc.1 = true → acc.2.1 = "unset") ∧ ∀ x ∈ acc.2.2.1, x ∈ nd.sets ∧ fMode nd x = true

theorem syncStep_accOk (nd : Node) (h : NodeNC nd) (rv : Option (List String)) (acc : SyncAcc) (vs : String × String)
    (hvs : vs ∈ nd.sets) (ha : AccOk nd acc) : AccOk nd (syncStep nd rv acc vs) := by
  unfold syncStep
  dsimp only
  split
  · exact ha
  · split
    · exact ha
    · split
      · exact ha
      · split
        · rename_i hc
          refine ⟨fun _ => rfl, fun x hx => ?_⟩
          rcases List.mem_append.mp hx with hx | hx
          · exact ha.2 x hx
          · rw [List.mem_singleton.mp hx]; exact ⟨hvs, hc⟩
        · split
          · exact ⟨fun h => Bool.noConfusion h, ha.2⟩
          · rename_i hc
            exfalso; apply hc
            rcases h with h1 | h1 <;> simp [h1]

theorem syncAcc_accOk (nd : Node) (h : NodeNC nd) (rv : Option (List String)) : AccOk nd (syncAcc nd rv) := by
  unfold syncAcc
  have : ∀ (l : List (String × String)) acc, (∀ x ∈ l, x ∈ nd.sets) → AccOk nd acc →
      AccOk nd (l.foldl (syncStep nd rv) acc) := by
    intro l
    induction l with
    | nil => intro acc _ h; exact h
    | cons a r ih =>
      intro acc hl ha
      exact ih _ (fun x hx => hl x (List.mem_cons_of_mem _ hx)) (syncStep_accOk nd h rv acc a (hl a List.mem_cons_self) ha)
  exact this _ _ (fun _ hx => hx) ⟨fun h => Bool.noConfusion h, fun x hx => nomatch hx⟩

/-- the effect of `sync_states` on the store: a set `rem` of `f`-mode set states of the node leaves the own pool of the
worker the copy was parsed for (`netOf`); nothing else changes -/
theorem syncStates_rm (g : Graph) (s : State) (n w : Nat) (rv : Option (List String)) (h : NodeNC (g.node n)) :
    ∃ rem : List (String × String), (∀ x ∈ rem, x ∈ (g.node n).sets ∧ fMode (g.node n) x = true) ∧
      (∃ st, (syncStates g s n w rv).1 = { s with store := st }) ∧
      ∀ loc vs, vs ∈ storeGet (syncStates g s n w rv).1.store loc ↔
        vs ∈ storeGet s.store loc ∧ ¬ (loc = (g.worker (g.netOf n w)).id ∧ vs ∈ rem) := by
  have hacc := syncAcc_accOk (g.node n) h rv
  unfold syncStates
  dsimp only
  by_cases hc : (syncAcc (g.node n) rv).1 = true
  · have hu := hacc.1 hc
    simp only [hc, Bool.not_true, Bool.false_eq_true, if_false, hu, beq_self_eq_true, if_true]
    refine ⟨(syncAcc (g.node n) rv).2.2.1, hacc.2, ⟨_, rfl⟩, fun loc vs => ?_⟩
    rw [storeGet_storeSet]
    by_cases hl : loc = (g.worker (g.netOf n w)).id
    · subst hl
      simp only [if_true, List.mem_filter, Bool.not_eq_eq_eq_not, Bool.not_true, true_and]
      constructor
      · rintro ⟨h1, h2⟩
        exact ⟨h1, fun hm => by rw [List.contains_iff_mem.mpr hm] at h2; cases h2⟩
      · rintro ⟨h1, h2⟩
        refine ⟨h1, ?_⟩
        cases hcn : (syncAcc (g.node n) rv).2.2.1.contains vs
        · rfl
        · exact absurd (List.contains_iff_mem.mp hcn) h2
    · simp only [hl, if_false, false_and, not_false_eq_true, and_true]
  · have hc' : (syncAcc (g.node n) rv).1 = false := by simpa using hc
    simp only [hc', Bool.not_false, if_true]
    exact ⟨[], fun x hx => by simp at hx, ⟨s.store, rfl⟩, fun loc vs => by simp⟩

theorem removable_of_mem {nd : Node} {x : String × String} (h1 : x ∈ nd.sets) (h2 : fMode nd x = true) :
    Removable nd = true := by
  unfold Removable
  exact List.any_eq_true.mpr ⟨x, h1, h2⟩

/-! ## hypotheses on the graph (all decidable) -/

def NoCopyBack (g : Graph) : Prop := ∀ n, n < g.nodes.length → NodeNC (g.node n)

/-- a removable class has one parsed copy -/
def RemovableSingleAt (g : Graph) (n m : Nat) : Prop :=
  (g.node n).flat = false → (g.node m).flat = false → Removable (g.node n) = true → (g.node n).cls = (g.node m).cls → n = m

instance (g : Graph) (n m : Nat) : Decidable (RemovableSingleAt g n m) := by unfold RemovableSingleAt; infer_instance

def RemovableSingle (g : Graph) : Prop :=
  ∀ n, n < g.nodes.length → ∀ m, m < g.nodes.length → RemovableSingleAt g n m

instance (g : Graph) : Decidable (NoCopyBack g) := by unfold NoCopyBack; infer_instance
instance (g : Graph) : Decidable (RemovableSingle g) := by unfold RemovableSingle; infer_instance

/-- the copies of a removable class have dependants of the same classes: for every cleanup child `c` of a parsed copy
`p` that the owner of `p` cares for, every removable parsed copy `p'` of the class of `p` has a cleanup child of the class
of `c` that its owner cares for -/
def SymChild (g : Graph) (p p' w u : Nat) : Prop :=
  ∀ c ∈ (g.node p).cleanup, relevant g w c.1 = true →
    ∃ c' ∈ (g.node p').cleanup, (g.node c'.1).cls = (g.node c.1).cls ∧ relevant g u c'.1 = true

instance (g : Graph) (p p' w u : Nat) : Decidable (SymChild g p p' w u) := by unfold SymChild; infer_instance

def SymOwners (g : Graph) (p p' : Nat) : Prop :=
  ∀ w, w < g.workers.length → ∀ u, u < g.workers.length → (g.node p).owner = some w → (g.node p').owner = some u →
    SymChild g p p' w u

instance (g : Graph) (p p' : Nat) : Decidable (SymOwners g p p') := by unfold SymOwners; infer_instance

def SymCopiesAt (g : Graph) (p p' : Nat) : Prop :=
  (g.node p).flat = false → (g.node p').flat = false → (g.node p).cls = (g.node p').cls → Removable (g.node p') = true →
    SymOwners g p p'

instance (g : Graph) (p p' : Nat) : Decidable (SymCopiesAt g p p') := by unfold SymCopiesAt; infer_instance

def SymCopies (g : Graph) : Prop := ∀ p, p < g.nodes.length → ∀ p', p' < g.nodes.length → SymCopiesAt g p p'

instance (g : Graph) : Decidable (SymCopies g) := by unfold SymCopies; infer_instance

/-- `SemHyp` of `TravStates.lean` with `NoRemoval` replaced by `NoCopyBack` -/
structure SemHypR (g : Graph) : Prop where
  fullScope : FullScope g
  plainNodes : PlainNodes g
  noCopyBack : NoCopyBack g
  producerSets : ProducerSets g
  uniqueProducer : UniqueProducer g
  setsClass : SetsClass g
  ownersReal : OwnersReal g

/-- every parsed node was parsed for some worker -/
def ParsedOwned (g : Graph) : Prop := ∀ n, n < g.nodes.length → (g.node n).flat = false → (g.node n).owner.isSome = true

instance (g : Graph) : Decidable (ParsedOwned g) := by unfold ParsedOwned; infer_instance

/-- with one worker (and one copy per class and worker) every class has one parsed copy -/
theorem removableSingle_of_one_worker {g : Graph} (h1 : g.workers.length = 1) (hR : OwnersReal g) (hP : ParsedOwned g)
    (hC : Clean.CopyUniq g) : RemovableSingle g := by
  intro n hn m hm hfn hfm _ hc
  have own : ∀ x, x < g.nodes.length → (g.node x).flat = false → (g.node x).owner = some 0 := by
    intro x hx hfx
    cases ho : (g.node x).owner with
    | none => have := hP x hx hfx; rw [ho] at this; cases this
    | some u =>
      have := hR.lt hx ho
      congr; omega
  exact hC n hn m hm hc (Or.inr (by rw [own n hn hfn, own m hm hfm]))

/-! ## the weakened invariant -/

/-- the `droppedCleanup` registers only grow -/
def MonoC (s s' : State) : Prop :=
  ∀ cp c u, u ∈ regWorkers (s.cr cp).droppedCleanup (some c) → u ∈ regWorkers (s'.cr cp).droppedCleanup (some c)

theorem MonoC.refl (s : State) : MonoC s s := fun _ _ _ h => h
theorem MonoC.trans {s s1 s2 : State} (a : MonoC s s1) (b : MonoC s1 s2) : MonoC s s2 := fun cp c u h => b cp c u (a cp c u h)
theorem MonoC.of_quiet {w : Nat} {s s' : State} (a : Clean.Quiet w s s') : MonoC s s' := fun cp c u h => by rw [a.dc cp]; exact h
theorem MonoC.of_same {w : Nat} {s s' : State} (a : Clean.Same w s s') : MonoC s s' := MonoC.of_quiet a.1
theorem MonoC.of_fr {w : Nat} {s s' : State} (a : Clean.Fr w s s') : MonoC s s' := a.monoC

theorem MonoC.ready {s s' : State} (a : MonoC s s') (g : Graph) (n v : Nat) (h : isCleanupReady g s n v = true) :
    isCleanupReady g s' n v = true :=
  Clean.isCleanupReady_mono g s s' n v (fun cp c h => a cp c v h) h

/-- the alternative to `Src`: a removable parsed copy `i` of class `c` whose owner has dropped every dependant it cares for -/
def AltC (g : Graph) (s : State) (c : Nat) : Prop :=
  ∃ i u, i < g.nodes.length ∧ (g.node i).flat = false ∧ (g.node i).cls = c ∧ (g.node i).owner = some u ∧
    Removable (g.node i) = true ∧ isCleanupReady g s i u = true

/-- … for the class of node `p` -/
def Alt (g : Graph) (s : State) (p : Nat) : Prop := AltC g s (g.node p).cls

theorem Alt.mono {g : Graph} {s s' : State} {p : Nat} (h : Alt g s p) (a : MonoC s s') : Alt g s' p := by
  obtain ⟨i, u, h1, h2, h3, h4, h5, h6⟩ := h
  exact ⟨i, u, h1, h2, h3, h4, h5, a.ready g i u h6⟩

theorem Alt.congr {g : Graph} {s : State} {p p' : Nat} (h : Alt g s p) (hc : (g.node p).cls = (g.node p').cls) :
    Alt g s p' := by
  unfold Alt at h ⊢; rw [← hc]; exact h

/-- the states set by a traversed parsed copy are sourced, or a removable copy of its class is cleanup-ready for its owner -/
def FinSrcR (g : Graph) (s : State) : Prop :=
  ∀ p, p < g.nodes.length → (g.node p).flat = false → (s.nd p).finished.isSome = true →
    ∀ vs ∈ (g.node p).sets, Src g s p vs ∨ Alt g s p

/-- the class of a traversed stateless parsed copy has a result (or a placeholder) -/
def FinRes (g : Graph) (s : State) : Prop :=
  ∀ p, p < g.nodes.length → (g.node p).flat = false → (s.nd p).finished.isSome = true → (g.node p).sets = [] →
    ∃ r, r ∈ sharedResults g s p

structure SemR (g : Graph) (store0 : List (String × List (String × String))) (s : State) : Prop where
  prov : Prov g store0 s
  fin : FinSrcR g s
  res : FinRes g s

theorem SemR.grow {g : Graph} {store0 : List (String × List (String × String))} {s s' : State} (j : SemR g store0 s)
    (a : Grow s s') (m : MonoC s s') : SemR g store0 s' := by
  refine ⟨fun loc vs h => ?_, fun p hp hf hfin vs hvs => ?_, fun p hp hf hfin hs => ?_⟩
  · rw [a.store] at h
    rcases j.prov loc vs h with h' | ⟨u, q, h1, h2, h3, h4, h5, r, hr, hn⟩
    · exact Or.inl h'
    · exact Or.inr ⟨u, q, h1, h2, h3, h4, h5, r, a.results q r hr, hn⟩
  · rw [a.fin] at hfin
    exact (j.fin p hp hf hfin vs hvs).imp a.src (fun h => h.mono m)
  · rw [a.fin] at hfin
    obtain ⟨r, hr⟩ := j.res p hp hf hfin hs
    exact ⟨r, a.sharedResults g p r hr⟩

theorem SemR.frame {g : Graph} {store0 : List (String × List (String × String))} {s s' : State} (j : SemR g store0 s)
    (a : Frame s s') (m : MonoC s s') : SemR g store0 s' := j.grow a.grow m

theorem SemR.init (g : Graph) (ncls : Nat) (store : List (String × List (String × String))) (H0 : List Nat) :
    SemR g store (initState g ncls store H0) :=
  ⟨(Sem.init g ncls store H0).prov, fun p hp hf hfin vs hvs => Or.inl ((Sem.init g ncls store H0).fin p hp hf hfin vs hvs),
    fun p _ _ hfin _ => by
      have : ((initState g ncls store H0).nd p).finished = none := by
        unfold initState State.nd
        simp only [List.getD_eq_getElem?_getD, List.getElem?_map]
        cases g.nodes[p]? <;> rfl
      rw [this] at hfin
      cases hfin⟩

/-- the end of `traverse_node` on a copy whose set states are sourced or removed after all dependants -/
theorem SemR.finish {g : Graph} {store0 : List (String × List (String × String))} {s : State} (j : SemR g store0 s)
    (p w : Nat) (hsrc : p < g.nodes.length → (g.node p).flat = false → ∀ vs ∈ (g.node p).sets, Src g s p vs ∨ Alt g s p)
    (hres0 : p < g.nodes.length → (g.node p).flat = false → (g.node p).sets = [] → ∃ r, r ∈ sharedResults g s p) :
    SemR g store0 (finishTraverse s p w) := by
  have hres : ∀ m, ((finishTraverse s p w).nd m).results = (s.nd m).results := fun m =>
    nd_setNd_proj (·.results) s p (fun d => { d with finished := some w, started := none }) (fun _ => rfl) m
  have hm : MonoC s (finishTraverse s p w) := MonoC.of_same (Clean.same_finishTraverse 0 s p w)
  have hg : ∀ {q vs}, Src g s q vs → Src g (finishTraverse s p w) q vs := by
    intro q vs h
    rcases h with h | ⟨u, hu, h⟩ | ⟨r, hr, h⟩
    · exact Or.inl h
    · refine Or.inr (Or.inl ⟨u, ?_, h⟩)
      rw [sharedResultWorkerIds_congr g s _ q hres]; exact hu
    · exact Or.inr (Or.inr ⟨r, by rw [sharedResults_congr g s _ q hres]; exact hr, h⟩)
  refine ⟨fun loc vs h => ?_, fun q hq hf hfin vs hvs => ?_, fun q hq hf hfin hs => ?_⟩
  · rcases j.prov loc vs h with h' | ⟨u, q, h1, h2, h3, h4, h5, r, hr, hn⟩
    · exact Or.inl h'
    · exact Or.inr ⟨u, q, h1, h2, h3, h4, h5, r, by rw [hres]; exact hr, hn⟩
  · by_cases hqp : q = p
    · subst hqp; exact (hsrc hq hf vs hvs).imp hg (fun h => h.mono hm)
    · have : ((finishTraverse s p w).nd q).finished = (s.nd q).finished := by
        unfold finishTraverse; rw [nd_setNd_ne s p q _ hqp]
      rw [this] at hfin
      exact (j.fin q hq hf hfin vs hvs).imp hg (fun h => h.mono hm)
  · rw [sharedResults_congr g s _ q hres]
    by_cases hqp : q = p
    · subst hqp; exact hres0 hq hf hs
    · have : ((finishTraverse s p w).nd q).finished = (s.nd q).finished := by
        unfold finishTraverse; rw [nd_setNd_ne s p q _ hqp]
      rw [this] at hfin
      exact j.res q hq hf hfin hs

/-- the removal: a set `rem` of `f`-mode set states of the cleanup-ready own copy `n` leaves `w`'s pool -/
theorem SemR.rm {g : Graph} {store0 : List (String × List (String × String))} {s : State} (hy : SemHypR g)
    (j : SemR g store0 s) (n w : Nat) (rem : List (String × String)) (st : List (String × List (String × String)))
    (hn : n < g.nodes.length) (hf : (g.node n).flat = false) (ho : (g.node n).owner = some w)
    (hready : isCleanupReady g s n w = true)
    (hrem : ∀ x ∈ rem, x ∈ (g.node n).sets ∧ fMode (g.node n) x = true)
    (hst : ∀ loc vs, vs ∈ storeGet st loc ↔ vs ∈ storeGet s.store loc ∧ ¬ (loc = (g.worker w).id ∧ vs ∈ rem)) :
    SemR g store0 { s with store := st } := by
  have hres : ∀ m, (({ s with store := st } : State).nd m).results = (s.nd m).results := fun _ => rfl
  refine ⟨fun loc vs h => ?_, fun p hp hfp hfin vs hvs => ?_, fun p hp hfp hfin hs => j.res p hp hfp hfin hs⟩
  · rcases j.prov loc vs ((hst loc vs).mp h).1 with h' | ⟨u, q, h1, h2, h3, h4, h5, r, hr, hrn⟩
    · exact Or.inl h'
    · exact Or.inr ⟨u, q, h1, h2, h3, h4, h5, r, hr, hrn⟩
  · by_cases hvr : vs ∈ rem
    · -- a removed state: the copy is of the class of `n`, which is removable and cleanup-ready for `w`
      right
      obtain ⟨h1, h2⟩ := hrem vs hvr
      have hc : (g.node n).cls = (g.node p).cls := hy.uniqueProducer n hn p hp vs h1 hf hfp hvs
      exact ⟨n, w, hn, hf, hc, ho, removable_of_mem h1 h2, hready⟩
    · have hkeep : ∀ loc, vs ∈ storeGet s.store loc → vs ∈ storeGet st loc :=
        fun loc h => (hst loc vs).mpr ⟨h, fun h' => hvr h'.2⟩
      rcases j.fin p hp hfp hfin vs hvs with (h | ⟨u, hu, h⟩ | ⟨r, hr, h⟩) | h
      · exact Or.inl (Or.inl (hkeep _ h))
      · refine Or.inl (Or.inr (Or.inl ⟨u, ?_, hkeep _ h⟩))
        rw [sharedResultWorkerIds_congr g s _ p hres]; exact hu
      · exact Or.inl (Or.inr (Or.inr ⟨r, by rw [sharedResults_congr g s _ p hres]; exact hr, h⟩))
      · exact Or.inr h

/-! ## pieces of a step that touch neither the store, nor a result list, nor a `finished` mark, and only add drops -/

structure FrameC (s s' : State) : Prop where
  fr : Frame s s'
  mono : MonoC s s'

theorem FrameC.refl (s : State) : FrameC s s := ⟨Frame.refl s, MonoC.refl s⟩
theorem FrameC.trans {s s1 s2 : State} (a : FrameC s s1) (b : FrameC s1 s2) : FrameC s s2 :=
  ⟨a.fr.trans b.fr, a.mono.trans b.mono⟩

theorem SemR.frameC {g : Graph} {store0 : List (String × List (String × String))} {s s' : State} (j : SemR g store0 s)
    (a : FrameC s s') : SemR g store0 s' := j.frame a.fr a.mono

theorem frameC_setNd (s : State) (m : Nat) (f : NodeD → NodeD) (hr : ∀ d, (f d).results = d.results)
    (hf : ∀ d, (f d).finished = d.finished) : FrameC s (s.setNd m f) :=
  ⟨frame_setNd s m f hr hf, MonoC.of_same (Clean.quiet_setNd 0 s m f)⟩

theorem frameC_setWd (s : State) (w : Nat) (f : WorkerD → WorkerD) : FrameC s (s.setWd w f) :=
  ⟨frame_setWd s w f, fun _ _ _ h => h⟩

/-- a register update that leaves the `droppedCleanup` register alone -/
theorem frameC_setCr (s : State) (c : Nat) (f : ClassRegs → ClassRegs) (hc : ∀ r, (f r).droppedCleanup = r.droppedCleanup) :
    FrameC s (s.setCr c f) :=
  ⟨frame_setCr s c f, MonoC.of_same (Clean.quiet_setCr 0 s c f hc)⟩

theorem frameC_dropChild (g : Graph) (s : State) (parent child w : Nat) : FrameC s (dropChild g s parent child w) := by
  refine ⟨frame_setCr s _ _, fun cp c u h => ?_⟩
  unfold dropChild
  rcases cr_setCr_cases s (g.node parent).cls
    (fun r => { r with droppedCleanup := regAdd r.droppedCleanup ((g.node child).cls, w) }) cp with h' | ⟨_, h'⟩
  · rw [h']; exact h
  · rw [h']
    exact (mem_regWorkers_regAdd _ _ _ _ _).mpr (Or.inl h)

theorem frameC_foldl {β} (f : State → β → State) (h : ∀ s b, FrameC s (f s b)) (l : List β) (s : State) :
    FrameC s (l.foldl f s) := by
  induction l generalizing s with
  | nil => exact FrameC.refl s
  | cons a r ih => simp only [List.foldl_cons]; exact (h s a).trans (ih _)

theorem frameC_pullLocations (g : Graph) (s : State) (n : Nat) : FrameC s (pullLocations g s n) :=
  ⟨frame_pullLocations g s n, MonoC.of_same (Clean.same_pullLocations 0 g s n)⟩

theorem frameC_runDecision (g : Graph) (s : State) (n v : Nat) (b : Bool) (s1 : State) (e1 : List Event)
    (h : runDecision g s n v = .ok (b, s1, e1)) : FrameC s s1 :=
  ⟨frame_runDecision g s n v b s1 e1 h, MonoC.of_same (Clean.same_runDecision 0 g s n v b s1 e1 h)⟩

theorem frameC_pickChild (g : Graph) (s : State) (n w c : Nat) (s' : State) (h : pickChild g s n w = some (c, s')) :
    FrameC s (pushPath s' w c) := by
  obtain ⟨_, _, hs⟩ := pickChild_rel g s n w c s' h
  rw [hs]
  refine FrameC.trans ?_ (frameC_setWd _ w _)
  exact frameC_setCr s _ _ (fun _ => rfl)

theorem frameC_pickParent (g : Graph) (s : State) (n w c : Nat) (s' : State) (h : pickParent g s n w = some (c, s')) :
    FrameC s (pushPath s' w c) := by
  obtain ⟨_, _, hs⟩ := pickParent_rel g s n w c s' h
  rw [hs]
  refine FrameC.trans ?_ (frameC_setWd _ w _)
  exact frameC_setCr s _ _ (fun _ => rfl)

theorem frameC_prepare (g : Graph) (s : State) (w : Nat) : FrameC s (prepare g s w) :=
  ⟨frame_prepare g s w, MonoC.of_same (Clean.same_prepare w g s)⟩

/-! ## events -/

/-- not the start of a test -/
def NS (e : Event) : Prop := ∀ wid cname uid locs k, e ≠ .start wid cname uid locs k

theorem NS.of_plain {e : Event} (h : Plain e) : NS e := h.2

/-! ## `reverse_node` on a cleanup-ready node -/

theorem reverseNode_semR (g : Graph) (hy : SemHypR g) (hO : OwnerNames g)
    {store0 : List (String × List (String × String))} (s : State) (n w : Nat) (s' : State) (evs : List Event)
    (j : SemR g store0 s) (hn : n < g.nodes.length) (hready : isCleanupReady g s n w = true)
    (h : reverseNode g s n w = .ok (s', evs)) : SemR g store0 s' ∧ ∀ e ∈ evs, NS e := by
  unfold reverseNode at h
  by_cases hocc : isOccupied g s n w = true
  · simp only [hocc, if_true, Except.ok.injEq, Prod.mk.injEq] at h
    rw [← h.1, ← h.2]; exact ⟨j, fun e he => nomatch he⟩
  · simp only [hocc, Bool.false_eq_true, if_false, ite_self] at h
    have f0 : FrameC s (s.setNd n (fun d => { d with started := some w })) := frameC_setNd s n _ (fun _ => rfl) (fun _ => rfl)
    have j0 := j.frameC f0
    have hready0 := f0.mono.ready g n w hready
    cases hd : cleanDecision g (s.setNd n (fun d => { d with started := some w })) n w with
    | error e => simp [hd] at h
    | ok clean =>
      by_cases hc : (clean && !(g.node n).sets.isEmpty) = true
      · simp only [hd, hc, if_true, Except.ok.injEq, Prod.mk.injEq] at h
        have hcl : clean = true := by rw [Bool.and_eq_true] at hc; exact hc.1
        rw [hcl] at hd
        obtain ⟨hf, _, _, hid⟩ := Clean.cleanDecision_true g _ n w hd
        have ho : (g.node n).owner = some w := (hO w n hn hf).mp hid
        obtain ⟨rem, hrem, ⟨st, hst1⟩, hst⟩ :=
          syncStates_rm g (s.setNd n (fun d => { d with started := some w })) n w none (hy.noCopyBack n hn)
        have hnet : g.netOf n w = w := by unfold Graph.netOf; rw [ho]; rfl
        rw [hnet] at hst
        rw [hst1] at hst h
        have j1 := SemR.rm hy j0 n w rem st hn hf ho hready0 hrem hst
        refine ⟨?_, fun e he => ?_⟩
        · rw [← h.1]
          exact j1.frameC (frameC_setNd _ n _ (fun _ => rfl) (fun _ => rfl))
        · rw [← h.2] at he
          obtain ⟨act, reqs, sc, hdoor⟩ := syncStates_events _ _ n w none e he
          rw [hdoor]
          intro _ _ _ _ _ hh; cases hh
      · simp only [hd, hc, Bool.false_eq_true, if_false, Except.ok.injEq, Prod.mk.injEq] at h
        rw [← h.1, ← h.2]
        exact ⟨j0.frameC (frameC_setNd _ n _ (fun _ => rfl) (fun _ => rfl)), fun e he => nomatch he⟩

/-- the rest of the loop body after `traverse_node` keeps `SemR` and starts nothing -/
theorem afterTraverse_semR (g : Graph) (hy : SemHypR g) (hO : OwnerNames g)
    {store0 : List (String × List (String × String))} (s : State) (w next prev : Nat) (dir : Dir)
    (hn : next < g.nodes.length) (j : SemR g store0 s) :
    SemR g store0 (afterTraverse g s w next prev dir).1 ∧ ∀ e ∈ (afterTraverse g s w next prev dir).2.1, NS e := by
  unfold afterTraverse
  cases hd : runDecision g s next w with
  | error e => exact ⟨j, fun e he => nomatch he⟩
  | ok r =>
    obtain ⟨run, s1, evs⟩ := r
    have h1 : FrameC s s1 := frameC_runDecision g s next w run s1 evs hd
    have j1 := j.frameC h1
    have hev : ∀ e ∈ evs, NS e := fun e he => NS.of_plain ((runDecision_events g s next w run s1 evs hd).1 e he)
    cases dir with
    | up =>
      dsimp only
      refine ⟨j1.frameC (FrameC.trans ?_ (frameC_setWd _ w _)), hev⟩
      split
      · exact frameC_setCr s1 _ _ (fun _ => rfl)
      · exact FrameC.refl s1
    | down =>
      dsimp only
      by_cases hrun : run = true
      · simp only [hrun, if_true]
        exact ⟨j1.frameC (frameC_setWd _ w _), hev⟩
      · simp only [hrun, Bool.false_eq_true, if_false]
        by_cases hc : isCleanupReady g s1 next w = true
        · simp only [hc, if_true]
          by_cases hpp : (!(g.node next).flat && (s1.wd w).unexplored) = true
          · simp only [hpp, if_true]
            exact ⟨j1.frameC (frameC_setWd _ w _), hev⟩
          simp only [hpp, Bool.false_eq_true, if_false]
          have h2 : FrameC s1 (List.foldl (fun s x => dropChild g s x.1 next w) s1 (g.node next).setup) :=
            frameC_foldl _ (fun s (x : Nat × List String) => frameC_dropChild g s x.1 next w) _ _
          have j2 := j1.frameC h2
          have hc2 := h2.mono.ready g next w hc
          cases hr : reverseNode g (List.foldl (fun s x => dropChild g s x.1 next w) s1 (g.node next).setup) next w with
          | error e => exact ⟨j2, hev⟩
          | ok r =>
            obtain ⟨s2, evs2⟩ := r
            obtain ⟨j3, hev3⟩ := reverseNode_semR g hy hO _ next w s2 evs2 j2 hn hc2 hr
            refine ⟨j3.frameC (frameC_setWd _ w _), fun e he => ?_⟩
            rcases List.mem_append.mp he with he | he
            · exact hev e he
            · exact hev3 e he
        · simp only [hc, Bool.false_eq_true, if_false]
          cases hp : pickChild g s1 next w with
          | none => exact ⟨j1, hev⟩
          | some r =>
            obtain ⟨c, s2⟩ := r
            exact ⟨j1.frameC (frameC_pickChild g s1 next w c s2 hp), hev⟩

/-! ## a negative run decision on a parsed stateful copy -/

structure SemCtxR (g : Graph) (store0 : List (String × List (String × String))) : Prop where
  hy : SemHypR g
  hO : OwnerNames g
  hF : FlatClass g
  hI : InitShared store0

theorem runDecision_false_srcR (g : Graph) {store0 : List (String × List (String × String))} (sc : SemCtxR g store0)
    (s : State) (j : SemR g store0 s)
    (p w : Nat) (hp : p < g.nodes.length) (hf : (g.node p).flat = false) (s1 : State) (evs : List Event)
    (h : runDecision g s p w = .ok (false, s1, evs)) : ∀ vs ∈ (g.node p).sets, Src g s p vs ∨ Alt g s p := by
  have hy := sc.hy
  obtain ⟨p1, p2, p3, _⟩ := hy.plainNodes p hp hf
  obtain ⟨hshape, hown, hshared, _, _⟩ := hy.fullScope p hp hf
  intro vs hvs
  unfold runDecision at h
  simp only [p1, p2, p3, hf, Bool.false_eq_true, if_false] at h
  have hid : g.idIn w p = true := by
    by_cases hid : g.idIn w p = true
    · exact hid
    · simp [hid] at h
  have hne : (g.node p).sets.isEmpty = false := by
    cases hl : (g.node p).sets with
    | nil => rw [hl] at hvs; simp at hvs
    | cons a r => rfl
  simp only [hid, Bool.not_true, Bool.false_eq_true, if_false, hne] at h
  unfold runDecisionStateful runDecisionStatefulCore at h
  by_cases hfin : isFinished g s p w 1 = true
  · -- some copy of the class was traversed before
    unfold isFinished scopeCount at hfin
    simp only [hf, Bool.false_eq_true, if_false, hshape] at hfin
    have hlen : 1 ≤ (sharedFinished g s p).length := by
      have : ((1 : Int) == -1) = false := by decide
      simp only [this, Bool.false_eq_true, if_false, decide_eq_true_eq, ge_iff_le] at hfin
      omega
    obtain ⟨x, hx⟩ := List.exists_mem_of_length_pos (by omega : 0 < (sharedFinished g s p).length)
    obtain ⟨i, hi, hfi⟩ := (mem_sharedFinished g s p x).mp hx
    obtain ⟨hil, hic⟩ := (mem_copies_iff g p i hp hf).mp hi
    have hfli : (g.node i).flat = false := by rw [sc.hF i hil p hp hic]; exact hf
    rcases j.fin i hil hfli (by rw [hfi]; rfl) vs (by rw [hy.setsClass i hil p hp hic]; exact hvs) with h' | h'
    · exact Or.inl (h'.congr hil hp hfli hf hic)
    · exact Or.inr (h'.congr hic)
  · -- nobody has traversed the class: the scan found every state in the own or in the shared pool
    left
    have hfin' : isFinished g s p w 1 = false := by simpa using hfin
    simp only [hfin', Bool.not_false, Bool.true_and, if_true] at h
    by_cases hsc : (scanStates g s p w).1 = true
    · simp only [hsc, if_true, Except.ok.injEq, Prod.mk.injEq] at h
      exact absurd h.1 (by simp)
    · have hsc' : (scanStates g s p w).1 = false := by simpa using hsc
      unfold scanStates at hsc'
      simp only [hne, Bool.false_eq_true, if_false, Bool.not_eq_false'] at hsc'
      rw [List.all_eq_true] at hsc'
      have := hsc' vs hvs
      simp only [hown, hshared, Bool.true_and, Bool.or_eq_true, List.contains_iff_mem] at this
      rcases this with hin | hin
      · rcases j.prov _ vs hin with h0 | ⟨u, q, hloc, hq, hfq, hoq, hsq, r, hr, hrn⟩
        · left
          rw [← sc.hI.get _ vs h0]; exact hin
        · have hc : (g.node q).cls = (g.node p).cls := hy.uniqueProducer q hq p hp vs hsq hfq hf hvs
          have hrs : r ∈ sharedResults g s p := mem_sharedResults g s q p r hq hf hc hr
          by_cases hst : r.status = "PASS"
          · exact Or.inr (Or.inl ⟨u, listed_of_pass sc.hO hy.ownersReal hq hfq hoq hrs hrn hst, by rw [← hloc]; exact hin⟩)
          · exact Or.inr (Or.inr ⟨r, hrs, hst⟩)
      · exact Or.inl hin

/-- a negative run decision on a stateless parsed copy: the class has a result -/
theorem runDecision_false_res (g : Graph) (hy : SemHypR g) (s : State) (p w : Nat) (hp : p < g.nodes.length)
    (hf : (g.node p).flat = false) (hs : (g.node p).sets = []) (s1 : State) (evs : List Event)
    (h : runDecision g s p w = .ok (false, s1, evs)) : ∃ r, r ∈ sharedResults g s p := by
  obtain ⟨p1, p2, p3, _⟩ := hy.plainNodes p hp hf
  unfold runDecision at h
  simp only [p1, p2, p3, hf, Bool.false_eq_true, if_false, hs, List.isEmpty_nil, if_true] at h
  by_cases hid : g.idIn w p = true
  · simp only [hid, Bool.not_true, Bool.false_eq_true, if_false] at h
    unfold runDecisionStateless at h
    cases hr : sharedResults g s p with
    | nil => simp [hr] at h
    | cons a r => exact ⟨a, List.mem_cons_self⟩
  · simp [hid] at h

/-! ## a positive run decision without retries -/

/-- no retries -/
def MaxTriesOne (g : Graph) : Prop := ∀ n, n < g.nodes.length → (g.node n).maxTries.getD 1 = 1

instance (g : Graph) : Decidable (MaxTriesOne g) := by unfold MaxTriesOne; infer_instance

theorem shouldRerun_mt1 (g : Graph) (s : State) (n w : Nat) (h : (g.node n).maxTries.getD 1 = 1) :
    shouldRerun g s n w ≠ .ok true := by
  unfold shouldRerun
  simp only [h, beq_self_eq_true, if_true]
  repeat' split
  all_goals first
    | (intro hh; cases hh)
    | simp

/-- why a test is run when there are no retries: the class has no result (stateless), or no copy of the class has
been traversed (stateful) -/
def RunWhy (g : Graph) (s : State) (n : Nat) : Prop :=
  ((g.node n).sets = [] → sharedResults g s n = []) ∧
  ((g.node n).sets ≠ [] → ∀ i ∈ g.copies n, (s.nd i).finished = none)

theorem isFinished_false_none (g : Graph) (s : State) (n w : Nat) (hf : (g.node n).flat = false)
    (hshape : (g.node n).shape = .global) (h : isFinished g s n w 1 = false) :
    ∀ i ∈ g.copies n, (s.nd i).finished = none := by
  intro i hi
  cases hfi : (s.nd i).finished with
  | none => rfl
  | some v =>
    exfalso
    have hv : v ∈ sharedFinished g s n := (mem_sharedFinished g s n v).mpr ⟨i, hi, hfi⟩
    unfold isFinished scopeCount at h
    have e1 : ((1 : Int) == -1) = false := by decide
    simp only [hf, Bool.false_eq_true, if_false, hshape, e1, decide_eq_false_iff_not, ge_iff_le] at h
    have : 0 < (sharedFinished g s n).length := List.length_pos_of_mem hv
    omega

theorem runDecision_true_why (g : Graph) (hy : SemHypR g) (s : State) (n w : Nat) (hn : n < g.nodes.length)
    (hf : (g.node n).flat = false) (hmt : (g.node n).maxTries.getD 1 = 1) (s1 : State) (evs : List Event)
    (h : runDecision g s n w = .ok (true, s1, evs)) : RunWhy g s n := by
  obtain ⟨p1, p2, p3, _⟩ := hy.plainNodes n hn hf
  obtain ⟨hshape, _⟩ := hy.fullScope n hn hf
  unfold runDecision at h
  simp only [p1, p2, p3, hf, Bool.false_eq_true, if_false] at h
  have hid : g.idIn w n = true := by
    by_cases hid : g.idIn w n = true
    · exact hid
    · simp [hid] at h
  simp only [hid, Bool.not_true, Bool.false_eq_true, if_false] at h
  cases hs : (g.node n).sets with
  | nil =>
    refine ⟨fun _ => ?_, fun hne => absurd hs hne⟩
    simp only [hs, List.isEmpty_nil, if_true] at h
    unfold runDecisionStateless at h
    cases hr : sharedResults g s n with
    | nil => rfl
    | cons a r =>
      exfalso
      simp only [hr, List.isEmpty_cons, Bool.false_eq_true, if_false] at h
      cases hsr : shouldRerun g s n w with
      | error e => simp [hsr, Except.map] at h
      | ok b =>
        simp only [hsr, Except.map, Except.ok.injEq, Prod.mk.injEq] at h
        rw [h.1] at hsr
        exact shouldRerun_mt1 g s n w hmt hsr
  | cons a r =>
    refine ⟨fun he => absurd (hs.symm.trans he) (List.cons_ne_nil a r), fun _ => ?_⟩
    simp only [hs, List.isEmpty_cons, Bool.false_eq_true, if_false] at h
    unfold runDecisionStateful runDecisionStatefulCore at h
    by_cases hfin : isFinished g s n w 1 = true
    · exfalso
      simp only [hfin, Bool.not_true, Bool.false_and, Bool.false_eq_true, if_false] at h
      generalize hX : (if ((sharedFilteredResults g s n (s.nd n).started).isEmpty && !(false, ([] : List Event)).1) = true
        then disableRerun s n else s) = X at h
      cases hsr : shouldRerun g X n w with
      | error e => simp [hsr, Except.map] at h
      | ok b =>
        simp only [hsr, Except.map, Except.ok.injEq, Prod.mk.injEq] at h
        rw [h.1] at hsr
        exact shouldRerun_mt1 g X n w hmt hsr
    · exact isFinished_false_none g s n w hf hshape (by simpa using hfin)

/-! ## the start of a test -/

/-- what is known at the start of `n` by `w` in state `sd`: every state `n` gets through a setup edge from a parsed
parent relevant to `w` is in the shared pool, or in a pool named in `get_location`, or the parent's class has a result
that did not pass — or a removable copy of the parent's class is cleanup-ready for its owner (to be excluded) -/
def AvailR (g : Graph) (sd : State) (w n : Nat) : Prop :=
  ∀ e ∈ (g.node n).setup, (g.node e.1).flat = false → relevant g w e.1 = true →
    ∀ vs ∈ (g.node n).gets, vs.1 ∈ e.2 →
      vs ∈ storeGet sd.store "shared" ∨
      (∃ u, u < g.workers.length ∧ vs ∈ storeGet sd.store (g.worker u).id ∧
        HasLoc (sd.nd n).getLoc vs.1 (workerLoc g u)) ∨
      (∃ r ∈ sharedResults g sd e.1, r.status ≠ "PASS") ∨
      Alt g sd e.1

/-- provenance of a `start` event of worker `w` in a piece of a step that ends in state `sout`: the test proper of an
own node `n`, started in a state `sd` with `Trv`, `SemR` and `AvailR`, for the reason `RunWhy` if `n` is not retried;
`sout` has the `droppedCleanup` registers of `sd`, and `w` awaits the test on `n` there -/
def StartSemR (g : Graph) (store0 : List (String × List (String × String))) (w : Nat) (sout : State) (e : Event) : Prop :=
  ∀ wid cname uid locs k, e = .start wid cname uid locs k →
    ∃ n sd, cname = clsName g n .plain ∧ locs = (sd.nd n).getLoc ∧ n < g.nodes.length ∧ g.idIn w n = true ∧
      (g.node n).flat = false ∧ Trv g [] sd ∧ SemR g store0 sd ∧ AvailR g sd w n ∧
      ((g.node n).maxTries.getD 1 = 1 → RunWhy g sd n) ∧
      (∀ cp, (sout.cr cp).droppedCleanup = (sd.cr cp).droppedCleanup) ∧ sout.workers.length = sd.workers.length ∧
      (w < sd.workers.length → ∃ dir uid' tag, (sout.wd w).pc = .test n .plain dir uid' tag 0)

/-- the events of a piece of the loop body: no start, or the piece suspends in the state the start refers to -/
def EvR (g : Graph) (store0 : List (String × List (String × String))) (w : Nat) (r : Step) : Prop :=
  ∀ e ∈ r.2.1, NS e ∨ (r.2.2 = Flow.suspend ∧ StartSemR g store0 w r.1 e)

theorem hidden_nil_of_trv {g : Graph} {s : State} (t : Trv g [] s) : s.hidden = [] := by
  cases hh : s.hidden with
  | nil => rfl
  | cons a r => exact absurd (t.hidden a (by rw [hh]; exact List.mem_cons_self)) (by simp)

/-- `traverse_node` (entered on a free, setup-ready node of the worker's path) keeps `SemR`; a start it emits has
everything it gets from traversed parents at hand, unless the parent is cleanup-ready -/
theorem traverseNode_semR (g : Graph) (hwf : GraphWF g)
    {store0 : List (String × List (String × String))} (sc : SemCtxR g store0) (w : Nat) (s : State) (next prev : Nat)
    (dir : Dir) (hn : next < g.nodes.length)
    (hocc : isOccupied g s next w = false) (hready : isSetupReady g s next w = true)
    (t : Trv g [] s) (j : SemR g store0 s) :
    SemR g store0 (traverseNode g s w next prev dir).1 ∧ EvR g store0 w (traverseNode g s w next prev dir) := by
  have hlen := t.nodesLen
  unfold traverseNode
  simp only [hocc, Bool.false_eq_true, if_false]
  have hA : Upd g [] w s (pullLocations g (s.setNd next (fun d => { d with started := some w })) next) :=
    (upd_setNd g [] w s next (fun d => { d with started := some w }) (fun _ => rfl)).trans (upd_pullLocations g [] w _ _ next)
  have fA : FrameC s (s.setNd next (fun d => { d with started := some w })) := frameC_setNd s next _ (fun _ => rfl) (fun _ => rfl)
  have fB : FrameC s (pullLocations g (s.setNd next (fun d => { d with started := some w })) next) :=
    fA.trans (frameC_pullLocations _ _ next)
  cases hd : runDecision g (pullLocations g (s.setNd next (fun d => { d with started := some w })) next) next w with
  | error _ => exact ⟨j.frameC fB, fun e he => nomatch he⟩
  | ok r =>
    obtain ⟨run, s1, evs⟩ := r
    have h1 : Upd g [] w s s1 := hA.trans (upd_runDecision g [] w _ _ next w run s1 evs hd)
    have f1 : FrameC s s1 := fB.trans (frameC_runDecision _ _ next w run s1 evs hd)
    have hrd := runDecision_events _ _ next w run s1 evs hd
    have j1 : SemR g store0 s1 := j.frameC f1
    have hevs : ∀ e ∈ evs, NS e := fun e he => NS.of_plain (hrd.1 e he)
    dsimp only
    by_cases hrun : run = true
    · subst hrun
      simp only [if_true]
      obtain ⟨hflat, hid⟩ := hrd.2 rfl
      have hroot' : (g.node next).objectRoot = false := (sc.hy.plainNodes next hn hflat).2.2.2
      simp only [hroot', Bool.false_eq_true, if_false]
      have g3 := grow_startTest g s1 next w .plain dir
      have e3 := startTest_plain_event g s1 next w dir
      have hfl := startTest_flow g s1 next w .plain dir
      have hfst := startTest_nonpre_fst g s1 next w .plain dir (by decide)
      rcases hst : startTest g s1 next w .plain dir with ⟨s2, evs2, f⟩
      rw [hst] at g3 e3 hfl hfst
      simp only at g3 e3 hfl hfst
      have hm2 : MonoC s1 s2 := by
        intro cp c u h
        rw [hfst]; exact h
      refine ⟨j1.grow g3 hm2, fun e he => ?_⟩
      rcases List.mem_append.mp he with he | he
      · exact Or.inl (hevs e he)
      · obtain ⟨uid, k, hek⟩ := e3 e he
        refine Or.inr ⟨hfl, ?_⟩
        intro wid cname uid' locs k' hev
        rw [hek] at hev
        cases hev
        have fD := frameC_runDecision g _ next w true s1 evs hd
        refine ⟨next, s1, rfl, rfl, hn, hid, hflat, t.upd sc.hO.uniq h1, j1, ?_, fun hmt => ?_, fun cp => by rw [hfst]; rfl,
          by rw [hfst, workers_length_setWd]; rfl, fun hw => ?_⟩
        · -- availability
          intro e hemem hfp hrelp vs hvs hvm
          have hpl : e.1 < g.nodes.length := hwf.setup_lt next e hemem
          have hsets : vs ∈ (g.node e.1).sets := sc.hy.producerSets next hn e hemem vs hvs hfp hvm
          have hdrop := (setup_ready_iff' g s next w).mp hready e hemem hrelp
          obtain ⟨p', hp'l, hp'c, hp'r, hp'f⟩ := t.dropS _ _ w hdrop
          have hp'flat : (g.node p').flat = false := by rw [sc.hF p' hp'l e.1 hpl hp'c]; exact hfp
          rcases j.fin p' hp'l hp'flat (by rw [hp'f hp'flat]; rfl) vs
              (by rw [sc.hy.setsClass p' hp'l e.1 hpl hp'c]; exact hsets) with hsrc' | halt
          · have hsrc : Src g s e.1 vs := hsrc'.congr hp'l hpl hp'flat hfp hp'c
            have hsrcA : Src g (s.setNd next (fun d => { d with started := some w })) e.1 vs := fA.fr.grow.src hsrc
            rcases hsrcA with h | ⟨u, hu, h⟩ | ⟨r, hr, h⟩
            · left
              rw [f1.fr.store, ← fA.fr.store]; exact h
            · right; left
              have hult : u < g.workers.length := by
                obtain ⟨_, _, _, hfind⟩ := (mem_listed g _ e.1 u).mp hu
                exact List.mem_range.mp (List.mem_of_find?_eq_some hfind)
              refine ⟨u, hult, by rw [f1.fr.store, ← fA.fr.store]; exact h, ?_⟩
              have hloc : workerLoc g u ∈ locsOf g (s.setNd next (fun d => { d with started := some w })) e.1 := by
                unfold locsOf
                exact List.mem_cons_of_mem _ (List.mem_map.mpr ⟨u, hu, rfl⟩)
              have hc := pullLocations_complete g (s.setNd next (fun d => { d with started := some w })) next hflat
                (by rw [nodes_length_setNd, hlen]; exact hn) e.1 e.2 hemem vs.1 hvm _ hloc
              have hgl : (s1.nd next).getLoc =
                  ((pullLocations g (s.setNd next (fun d => { d with started := some w })) next).nd next).getLoc := by
                rcases runDecision_state _ _ next w true s1 evs hd with h' | h'
                · rw [h']
                · rw [h']; exact nd_disableRerun_proj (·.getLoc) (fun _ => rfl) _ next next
              rw [hgl]; exact hc
            · right; right; left
              refine ⟨r, ?_, h⟩
              rw [sharedResults_congr g s s1 e.1 f1.fr.results, ← sharedResults_congr g s _ e.1 fA.fr.results]
              exact hr
          · right; right; right
            exact (halt.congr hp'c).mono f1.mono
        · -- why it is run: transported over the run decision (results and `finished` marks unchanged)
          obtain ⟨w1, w2⟩ := runDecision_true_why g sc.hy _ next w hn hflat hmt s1 evs hd
          refine ⟨fun hs => ?_, fun hs i hi => ?_⟩
          · rw [sharedResults_congr g _ s1 next fD.fr.results]; exact w1 hs
          · rw [fD.fr.fin i]; exact w2 hs i hi
        · refine ⟨dir, uidOf (g.node next).pfx (sharedResults g s1 next).length, s1.nextTag, ?_⟩
          show (s2.wd w).pc = _
          rw [hfst, wd_setWd_eq _ w _ (by exact hw)]
    · simp only [hrun, Bool.false_eq_true, if_false]
      have hrunf : run = false := by simpa using hrun
      subst hrunf
      have jB : SemR g store0 (pullLocations g (s.setNd next (fun d => { d with started := some w })) next) := j.frameC fB
      have fD := frameC_runDecision g _ next w false s1 evs hd
      have hsrc : next < g.nodes.length → (g.node next).flat = false → ∀ vs ∈ (g.node next).sets, Src g s1 next vs ∨ Alt g s1 next := by
        intro _ hfl vs hvs
        exact (runDecision_false_srcR g sc _ jB next w hn hfl s1 evs hd vs hvs).imp fD.fr.grow.src (fun h => h.mono fD.mono)
      have hres0 : next < g.nodes.length → (g.node next).flat = false → (g.node next).sets = [] →
          ∃ r, r ∈ sharedResults g s1 next := by
        intro _ hfl hs
        obtain ⟨r, hr⟩ := runDecision_false_res g sc.hy _ next w hn hfl hs s1 evs hd
        exact ⟨r, fD.fr.grow.sharedResults g next r hr⟩
      have j2 : SemR g store0 (finishTraverse s1 next w) := j1.finish next w hsrc hres0
      obtain ⟨j3, e3⟩ := afterTraverse_semR g sc.hy sc.hO (finishTraverse s1 next w) w next prev dir hn j2
      rcases hat : afterTraverse g (finishTraverse s1 next w) w next prev dir with ⟨s2, evs2, f⟩
      rw [hat] at j3 e3
      refine ⟨j3, fun e he => ?_⟩
      rcases List.mem_append.mp he with he | he
      · exact Or.inl (hevs e he)
      · exact Or.inl (e3 e he)

theorem semR_silent {g : Graph} {store0 : List (String × List (String × String))} {w : Nat} {s s' : State}
    (j : SemR g store0 s) (a : FrameC s s') (f : Flow) : SemR g store0 s' ∧ EvR g store0 w (s', [], f) :=
  ⟨j.frameC a, fun _ he => nomatch he⟩

theorem semR_single {g : Graph} {store0 : List (String × List (String × String))} {w : Nat} {s s' : State}
    {e : Event} (j : SemR g store0 s) (a : FrameC s s') (h : Plain e) (f : Flow) :
    SemR g store0 s' ∧ EvR g store0 w (s', [e], f) :=
  ⟨j.frameC a, fun e' he => by rw [List.mem_singleton.mp he]; exact Or.inl (NS.of_plain h)⟩

/-- one iteration of the loop on a pre-parsed graph -/
theorem iter_semR (g : Graph) (hwf : GraphWF g)
    {store0 : List (String × List (String × String))} (sc : SemCtxR g store0) (w : Nat) (s : State)
    (t : Trv g [] s) (j : SemR g store0 s) :
    SemR g store0 (iter g s w).1 ∧ EvR g store0 w (iter g s w) := by
  have hpath := t.path w
  unfold iter
  dsimp only
  split
  · split
    · exact semR_single j (frameC_setWd s w _) (plain_exit _) _
    · exact semR_silent j (FrameC.refl s) _
  · cases hl : (s.wd w).path.getLast? with
    | none => exact semR_silent j (FrameC.refl s) _
    | some next =>
      obtain ⟨hnext, hrel⟩ := hpath next (List.mem_of_getLast? hl)
      dsimp only
      split
      · cases hp : pickChild g s next w with
        | none => exact semR_silent j (FrameC.refl s) _
        | some r => obtain ⟨c, s2⟩ := r; exact semR_silent j (frameC_pickChild _ s next w c s2 hp) _
      · by_cases hocc : isOccupied g s next w = true
        · simp only [hocc, if_true]
          refine semR_single j (FrameC.trans ?_ (frameC_setWd _ w _)) (plain_sleep _ _) _
          split
          · refine FrameC.trans ?_ (frameC_setWd _ w _)
            split
            · exact frameC_setNd s next _ (fun _ => rfl) (fun _ => rfl)
            · exact FrameC.refl s
          · exact frameC_setWd s w _
        · have hocc' : isOccupied g s next w = false := by simpa using hocc
          simp only [hocc', Bool.false_eq_true, if_false]
          by_cases hready : isSetupReady g s next w = true
          · simp only [hready, if_true, Bool.not_true, Bool.false_eq_true, if_false]
            split
            · exact traverseNode_semR g hwf sc w s next _ .up hnext hocc' hready t j
            · split
              · exact traverseNode_semR g hwf sc w s next _ .down hnext hocc' hready t j
              · exact semR_silent j (FrameC.refl s) _
          · have hready' : isSetupReady g s next w = false := by simpa using hready
            simp only [hready', Bool.false_eq_true, if_false, Bool.not_false, if_true]
            split
            · cases hp : pickParent g s next w with
              | none => exact semR_silent j (FrameC.refl s) _
              | some r => obtain ⟨c, s2⟩ := r; exact semR_silent j (frameC_pickParent _ s next w c s2 hp) _
            · split
              · cases hp : pickParent g s next w with
                | none => exact semR_silent j (FrameC.refl s) _
                | some r => obtain ⟨c, s2⟩ := r; exact semR_silent j (frameC_pickParent _ s next w c s2 hp) _
              · exact semR_silent j (FrameC.refl s) _

/-- one iteration including the (idle) expansion step -/
theorem iterL_semR (g : Graph) (hwf : GraphWF g)
    {store0 : List (String × List (String × String))} (sc : SemCtxR g store0) (w : Nat) (s : State)
    (t : Trv g [] s) (j : SemR g store0 s) :
    SemR g store0 (iterL g s w).1 ∧ EvR g store0 w (iterL g s w) := by
  unfold iterL
  split
  · rw [Clean.vis_of_nil g s (hidden_nil_of_trv t)]
    exact iter_semR g hwf sc w s t j
  · dsimp only
    have h0 := upd_prepare g [] w s
    have t0 := t.upd sc.hO.uniq h0
    rw [Clean.vis_of_nil g _ (hidden_nil_of_trv t0)]
    exact iter_semR g hwf sc w _ t0 (j.frameC (frameC_prepare g s w))

/-- the loop up to the next suspension -/
theorem runLoop_semR (g : Graph) (hwf : GraphWF g) (hroot : (g.node g.root).flat = true)
    {store0 : List (String × List (String × String))} (sc : SemCtxR g store0) (w : Nat) (fuel : Nat)
    (s : State) (evs : List Event) (t : Trv g [] s) (j : SemR g store0 s) :
    SemR g store0 (runLoop g w fuel s evs).1 ∧
      ∀ e ∈ (runLoop g w fuel s evs).2, e ∈ evs ∨ NS e ∨ StartSemR g store0 w (runLoop g w fuel s evs).1 e := by
  induction fuel generalizing s evs with
  | zero =>
    unfold runLoop
    refine ⟨j, fun e he => ?_⟩
    rcases List.mem_append.mp he with he | he
    · exact Or.inl he
    · rw [List.mem_singleton.mp he]; exact Or.inr (Or.inl (NS.of_plain (plain_raise _ _)))
  | succ fuel ih =>
    unfold runLoop
    dsimp only
    have h0 : Upd g [] w s (s.setWd w (fun d => { d with pc := .loop })) := upd_setPc g [] w s .loop rfl
    have t0 := t.upd sc.hO.uniq h0
    have j0 : SemR g store0 (s.setWd w (fun d => { d with pc := .loop })) := j.frameC (frameC_setWd s w _)
    have he := iterL_semR g hwf sc w _ t0 j0
    have hu := iterL_ok g [] hwf hroot w _ t0.hidden t0.nodesLen (t0.path w)
    rcases hi : iterL g (s.setWd w (fun d => { d with pc := .loop })) w with ⟨s1, e, f⟩
    rw [hi] at he hu
    have t1 : Trv g [] s1 := t0.upd sc.hO.uniq hu.1
    have hns : f ≠ Flow.suspend → ∀ x ∈ evs ++ e, x ∈ evs ∨ NS x := by
      intro hf x hx
      rcases List.mem_append.mp hx with hx | hx
      · exact Or.inl hx
      · rcases he.2 x hx with h | ⟨h, _⟩
        · exact Or.inr h
        · exact absurd h hf
    have hsu : ∀ x ∈ evs ++ e, x ∈ evs ∨ NS x ∨ StartSemR g store0 w s1 x := by
      intro x hx
      rcases List.mem_append.mp hx with hx | hx
      · exact Or.inl hx
      · rcases he.2 x hx with h | ⟨_, h⟩
        · exact Or.inr (Or.inl h)
        · exact Or.inr (Or.inr h)
    cases f with
    | cont =>
      dsimp only
      obtain ⟨h2, h3⟩ := ih s1 (evs ++ e) t1 he.1
      refine ⟨h2, fun x hx => ?_⟩
      rcases h3 x hx with hx | hx
      · rcases hns (fun h => nomatch h) x hx with h | h
        · exact Or.inl h
        · exact Or.inr (Or.inl h)
      · exact Or.inr hx
    | suspend => exact ⟨he.1, hsu⟩
    | exit =>
      refine ⟨he.1, fun x hx => ?_⟩
      rcases hns (fun h => nomatch h) x hx with h | h
      · exact Or.inl h
      · exact Or.inr (Or.inl h)
    | raise what =>
      dsimp only
      refine ⟨he.1.frameC (frameC_setWd s1 w _), fun x hx => ?_⟩
      rcases List.mem_append.mp hx with hx | hx
      · rcases hns (fun h => nomatch h) x hx with h | h
        · exact Or.inl h
        · exact Or.inr (Or.inl h)
      · rw [List.mem_singleton.mp hx]; exact Or.inr (Or.inl (NS.of_plain (plain_raise _ _)))

/-! ## the end of a test: report, record, continue -/

/-- `Sem.record` of `TravStates.lean` for the weakened invariant -/
theorem SemR.record {g : Graph} {store0 : List (String × List (String × String))} {s sb : State} (sc : SemCtxR g store0)
    (j : SemR g store0 s) (w n tag : Nat) (res : Result) (produced : Prop)
    (hn : n < g.nodes.length) (hf : (g.node n).flat = false) (ho : (g.node n).owner = some w) (htag : 1 ≤ tag)
    (hstore : ∀ loc vs, vs ∈ storeGet sb.store loc ↔
      vs ∈ storeGet s.store loc ∨ (produced ∧ loc = (g.worker w).id ∧ vs ∈ (g.node n).sets))
    (hfin : ∀ m, (sb.nd m).finished = (s.nd m).finished)
    (hres : ∀ m, m ≠ n → (sb.nd m).results = (s.nd m).results)
    (hresn : (sb.nd n).results = ((s.nd n).results ++ [res]).filter (fun r => !(r.status == "UNKNOWN" && r.tag == tag)))
    (hname : res.name = (g.node n).name) (hrtag : res.tag = 0) (hpass : res.status = "PASS" → produced)
    (hm : MonoC s sb) :
    SemR g store0 sb ∧ (∀ vs ∈ (g.node n).sets, Src g sb n vs) ∧ ∃ r, r ∈ sharedResults g sb n := by
  have hresmem : res ∈ (sb.nd n).results := by
    rw [hresn]
    refine List.mem_filter.mpr ⟨List.mem_append_right _ (List.mem_singleton.mpr rfl), ?_⟩
    have : (res.tag == tag) = false := by rw [hrtag]; simp; omega
    simp [this]
  have hresS : res ∈ sharedResults g sb n := mem_sharedResults g sb n n res hn hf rfl hresmem
  have hsrcn : ∀ vs ∈ (g.node n).sets, Src g sb n vs := by
    intro vs hvs
    by_cases hst : res.status = "PASS"
    · exact Or.inr (Or.inl ⟨w, listed_of_pass sc.hO sc.hy.ownersReal hn hf ho hresS hname hst,
        (hstore _ vs).mpr (Or.inr ⟨hpass hst, rfl, hvs⟩)⟩)
    · exact Or.inr (Or.inr ⟨res, hresS, hst⟩)
  have hhas : ∀ q, HasRes g s q → HasRes g sb q := by
    intro q ⟨r, hr, hrn⟩
    by_cases hq : q = n
    · subst hq; exact ⟨res, hresmem, hname⟩
    · exact ⟨r, by rw [hres q hq]; exact hr, hrn⟩
  have hsameC : ∀ p, p < g.nodes.length → (g.node p).flat = false → (g.node n).cls ≠ (g.node p).cls →
      ∀ r, r ∈ sharedResults g s p → r ∈ sharedResults g sb p := by
    intro p hp hfp hc r hr
    rw [mem_sharedResults_iff] at hr ⊢
    obtain ⟨i, hi, hri⟩ := hr
    have hin : i ≠ n := by
      intro hin
      rw [hin] at hi
      exact hc ((mem_copies_iff g p n hp hfp).mp hi).2
    exact ⟨i, hi, by rw [hres i hin]; exact hri⟩
  refine ⟨⟨fun loc vs h => ?_, fun p hp hfp hfinp vs hvs => ?_, fun p hp hfp hfinp hs => ?_⟩, hsrcn, res, hresS⟩
  · rcases (hstore loc vs).mp h with h | ⟨_, h1, h2⟩
    · rcases j.prov loc vs h with h' | ⟨u, q, h1, h2, h3, h4, h5, h6⟩
      · exact Or.inl h'
      · exact Or.inr ⟨u, q, h1, h2, h3, h4, h5, hhas q h6⟩
    · exact Or.inr ⟨w, n, h1, hn, hf, ho, h2, res, hresmem, hname⟩
  · by_cases hc : (g.node n).cls = (g.node p).cls
    · exact Or.inl ((hsrcn vs (by rw [sc.hy.setsClass n hn p hp hc]; exact hvs)).congr hn hp hf hfp hc)
    · rw [hfin] at hfinp
      have hsame : ∀ r, r ∈ sharedResults g s p → r ∈ sharedResults g sb p := by
        intro r hr
        rw [mem_sharedResults_iff] at hr ⊢
        obtain ⟨i, hi, hri⟩ := hr
        have hin : i ≠ n := by
          intro hin
          rw [hin] at hi
          exact hc ((mem_copies_iff g p n hp hfp).mp hi).2
        exact ⟨i, hi, by rw [hres i hin]; exact hri⟩
      rcases j.fin p hp hfp hfinp vs hvs with (h | ⟨u, hu, h⟩ | ⟨r, hr, h⟩) | h
      · exact Or.inl (Or.inl ((hstore _ vs).mpr (Or.inl h)))
      · refine Or.inl (Or.inr (Or.inl ⟨u, ?_, (hstore _ vs).mpr (Or.inl h)⟩))
        rw [mem_listed] at hu ⊢
        obtain ⟨r, hr, h1, h2⟩ := hu
        exact ⟨r, hsame r hr, h1, h2⟩
      · exact Or.inl (Or.inr (Or.inr ⟨r, hsame r hr, h⟩))
      · exact Or.inr (h.mono hm)
  · by_cases hc : (g.node n).cls = (g.node p).cls
    · exact ⟨res, sharedResults_class g sb n p hn hp hf hfp hc res hresS⟩
    · rw [hfin] at hfinp
      obtain ⟨r, hr⟩ := j.res p hp hfp hfinp hs
      exact ⟨r, hsameC p hp hfp hc r hr⟩

/-- the continuation after the awaited test proper on `n`, whose set states are sourced -/
theorem continueAfter_semR (g : Graph) (hwf : GraphWF g) (hroot : (g.node g.root).flat = true)
    {store0 : List (String × List (String × String))} (sc : SemCtxR g store0) (w n : Nat) (dir : Dir) (fuel : Nat)
    (s : State) (ok : Bool) (evs : List Event) (t : Trv g [] s) (j : SemR g store0 s) (hr : ReadyAt g [] s w n)
    (hsrc : ∀ vs ∈ (g.node n).sets, Src g s n vs) (hres0 : ∃ r, r ∈ sharedResults g s n) :
    SemR g store0 (resumeTest.continueAfter g w n .plain dir fuel s ok evs).1 ∧
      ∀ e ∈ (resumeTest.continueAfter g w n .plain dir fuel s ok evs).2,
        e ∈ evs ∨ NS e ∨ StartSemR g store0 w (resumeTest.continueAfter g w n .plain dir fuel s ok evs).1 e := by
  unfold resumeTest.continueAfter
  have e1 : (Phase.plain == Phase.pre) = false := rfl
  simp only [e1, Bool.false_and, Bool.false_eq_true, if_false]
  have hn := hr.1
  have hrel : relevant g w n = true := relevant_of_idIn hr.2.1
  have hf : Upd g [] w s (finishTraverse s n w) := upd_finishTraverse g [] w s n hn hrel
  have tf := t.upd sc.hO.uniq hf
  have jf : SemR g store0 (finishTraverse s n w) := j.finish n w (fun _ _ vs hvs => Or.inl (hsrc vs hvs)) (fun _ _ _ => hres0)
  have hfin : ((finishTraverse s n w).nd n).finished = some w := by
    unfold finishTraverse; rw [nd_setNd_eq s n _ (by rw [t.nodesLen]; exact hn)]
  rw [Clean.vis_of_nil g _ (hidden_nil_of_trv tf)]
  have h3 := afterTraverse_ok g [] [] ⟨hwf, hroot, fun _ h => h⟩ w (finishTraverse s n w) n
    ((s.wd w).path.getD ((s.wd w).path.length - 2) 0) dir tf.hidden tf.nodesLen hn hrel (fun _ => hfin)
  rw [visH_nil] at h3
  obtain ⟨j2, e3⟩ := afterTraverse_semR g sc.hy sc.hO (finishTraverse s n w) w n
    ((s.wd w).path.getD ((s.wd w).path.length - 2) 0) dir hn jf
  rcases hat : afterTraverse g (finishTraverse s n w) w n
    ((s.wd w).path.getD ((s.wd w).path.length - 2) 0) dir with ⟨s2, e2, f⟩
  rw [hat] at h3 j2 e3
  have t2 : Trv g [] s2 := tf.upd sc.hO.uniq h3.1
  have hev : ∀ x ∈ evs ++ e2, x ∈ evs ∨ NS x := by
    intro x hx
    rcases List.mem_append.mp hx with hx | hx
    · exact Or.inl hx
    · exact Or.inr (e3 x hx)
  have hloop : SemR g store0 (runLoop g w fuel s2 (evs ++ e2)).1 ∧
      ∀ e ∈ (runLoop g w fuel s2 (evs ++ e2)).2, e ∈ evs ∨ NS e ∨ StartSemR g store0 w (runLoop g w fuel s2 (evs ++ e2)).1 e := by
    obtain ⟨h4, h5⟩ := runLoop_semR g hwf hroot sc w fuel s2 (evs ++ e2) t2 j2
    refine ⟨h4, fun x hx => ?_⟩
    rcases h5 x hx with hx | hx
    · rcases hev x hx with h | h
      · exact Or.inl h
      · exact Or.inr (Or.inl h)
    · exact Or.inr hx
  cases f with
  | raise what =>
    dsimp only
    refine ⟨j2.frameC (frameC_setWd s2 w _), fun x hx => ?_⟩
    rcases List.mem_append.mp hx with hx | hx
    · rcases hev x hx with h | h
      · exact Or.inl h
      · exact Or.inr (Or.inl h)
    · rw [List.mem_singleton.mp hx]; exact Or.inr (Or.inl (NS.of_plain (plain_raise _ _)))
  | cont => exact hloop
  | suspend => exact hloop
  | exit => exact hloop

theorem good_of_plainR {g : Graph} (hy : SemHypR g) (hF : FlatClass g) {n : Nat} (hn : n < g.nodes.length)
    (hf : (g.node n).flat = false) : good g n = true := by
  unfold good goodClass
  simp only [hn, decide_true, hf, Bool.not_false, Bool.true_and, List.all_eq_true, Bool.not_eq_true']
  intro j hj
  obtain ⟨hjl, hjc⟩ := (mem_classNodes g _ j).mp hj
  have hfj : (g.node j).flat = false := by rw [hF j hjl n hn hjc]; exact hf
  exact (hy.plainNodes j hjl hfj).2.2.2

/-- the second half of `run_test_node` for a test proper -/
theorem resumeTest_semR (g : Graph) (hwf : GraphWF g) (hroot : (g.node g.root).flat = true)
    {store0 : List (String × List (String × String))} (sc : SemCtxR g store0) (s : State) (w n : Nat) (dir : Dir)
    (uid : String) (tag wait : Nat) (out : Outcome) (fuel : Nat) (b : Basic g s All) (u : Uids g s All)
    (t : Trv g [] s) (j : SemR g store0 s) (hpc : (s.wd w).pc = .test n .plain dir uid tag wait) :
    SemR g store0 (resumeTest g s w n .plain dir uid tag wait out fuel).1 ∧
      ∀ e ∈ (resumeTest g s w n .plain dir uid tag wait out fuel).2,
        NS e ∨ StartSemR g store0 w (resumeTest g s w n .plain dir uid tag wait out fuel).1 e := by
  have hr : ReadyAt g [] s w n := t.pc w n .plain dir uid tag wait hpc
  obtain ⟨hn, hid, hfl, _⟩ := hr
  have ho : (g.node n).owner = some w := (sc.hO w n hn hfl).mp hid
  have htag : 1 ≤ tag := (b.pcOK w n .plain dir uid tag wait trivial hpc).2.1
  have hph : phOf (g.node n).name tag ∈ (s.nd n).results := (b.placeholder w n .plain dir uid tag wait trivial hpc).1 (by simp)
  have hunrep := u.unreported w n dir uid tag wait trivial hpc (good_of_plainR sc.hy sc.hF hn hfl)
  have hnone : s.jobResults.find? (fun r => r.1 == (g.node n).name && r.2.1 == uid) = none := by
    rw [List.find?_eq_none]
    intro x hx hp
    simp only [Bool.and_eq_true, beq_iff_eq] at hp
    apply hunrep
    unfold keys
    exact List.mem_map.mpr ⟨x, hx, by rw [hp.1, hp.2]⟩
  rw [resumeTest_eqR]
  have e1 : (Phase.plain == Phase.pre) = false := rfl
  simp only [e1, Bool.false_eq_true, if_false]
  obtain ⟨ha, hea⟩ := reportOutcomeR_ok g [] s w n .plain uid wait out
  have hcont : ∀ sb ok, Upd g [] w s sb → SemR g store0 sb → (∀ vs ∈ (g.node n).sets, Src g sb n vs) →
      (∃ r, r ∈ sharedResults g sb n) →
      SemR g store0 (resumeTest.continueAfter g w n .plain dir fuel sb ok (reportOutcomeR g s w n .plain uid wait out).2).1 ∧
      ∀ e ∈ (resumeTest.continueAfter g w n .plain dir fuel sb ok (reportOutcomeR g s w n .plain uid wait out).2).2,
        NS e ∨ StartSemR g store0 w
          (resumeTest.continueAfter g w n .plain dir fuel sb ok (reportOutcomeR g s w n .plain uid wait out).2).1 e := by
    intro sb ok hb jb hsrc hres0
    obtain ⟨h1, h2⟩ := continueAfter_semR g hwf hroot sc w n dir fuel sb ok (reportOutcomeR g s w n .plain uid wait out).2
      (t.upd sc.hO.uniq hb) jb ((t.pc w n .plain dir uid tag wait hpc).mono hb.hidden hb.monoS) hsrc hres0
    refine ⟨h1, fun e he => ?_⟩
    rcases h2 e he with he | he
    · exact Or.inl (NS.of_plain (hea e he))
    · exact he
  by_cases hrep : wait = 0 ∧ ∃ st, out.status = some st
  · obtain ⟨hw0, st, hst⟩ := hrep
    subst hw0
    obtain ⟨ost, odur⟩ := out
    simp only at hst
    subst hst
    obtain ⟨hnodes, _, hjob, hstore⟩ := reportOutcomeR_eff g s w n uid st odur ho
    have hfind : (reportOutcomeR g s w n .plain uid 0 ⟨some st, odur⟩).1.jobResults.find?
        (fun r => r.1 == (g.node n).name && r.2.1 == uid) = some ((g.node n).name, uid, st, odur) := by
      rw [hjob, List.find?_append, hnone]
      simp
    rw [hfind]
    dsimp only
    have hnd : ∀ m, (reportOutcomeR g s w n .plain uid 0 ⟨some st, odur⟩).1.nd m = s.nd m := fun m => by
      unfold State.nd; rw [hnodes]
    obtain ⟨res, hname, hrtag, hpass, hst2, _, hfin2, hres2, hresn2⟩ :=
      recordResultR_eff (reportOutcomeR g s w n .plain uid 0 ⟨some st, odur⟩).1 w n (g.node n).name uid tag st odur
        (by rw [hnodes, b.nodesLen]; exact hn)
    have hb : Upd g [] w s (recordResultR (reportOutcomeR g s w n .plain uid 0 ⟨some st, odur⟩).1 w n .plain
        (g.node n).name uid tag st odur).1 := ha.trans (upd_recordResultR g [] _ w n .plain _ uid tag st odur)
    have hmc : MonoC s (recordResultR (reportOutcomeR g s w n .plain uid 0 ⟨some st, odur⟩).1 w n .plain
        (g.node n).name uid tag st odur).1 :=
      (MonoC.of_same (Clean.same_reportOutcomeR g s w n .plain uid 0 ⟨some st, odur⟩)).trans
        (MonoC.of_same (Clean.same_recordResultR _ w n .plain (g.node n).name uid tag st odur))
    obtain ⟨jb, hsrc, hres0⟩ := SemR.record sc j w n tag res ((st == "PASS" || st == "WARN") = true) hn hfl ho htag
      (fun loc vs => by rw [hst2]; exact hstore loc vs)
      (fun m => by rw [hfin2, hnd]) (fun m hm => by rw [hres2 m hm, hnd]) (by rw [hresn2, hnd]) hname hrtag
      (fun h => by rw [hpass h]; rfl) hmc
    exact hcont _ _ hb jb hsrc hres0
  · have hsa : (reportOutcomeR g s w n .plain uid wait out).1 = s := reportOutcomeR_idle g s w n .plain uid wait out hrep
    rw [hsa, hnone]
    dsimp only
    have hwait : SemR g store0 (s.setWd w (fun d => { d with pc := .test n .plain dir uid tag (wait + 1) })) ∧
        ∀ e ∈ (reportOutcomeR g s w n .plain uid wait out).2 ++ [Event.sleep (g.worker w).id 3000],
          NS e ∨ StartSemR g store0 w (s.setWd w (fun d => { d with pc := .test n .plain dir uid tag (wait + 1) })) e := by
      refine ⟨j.frameC (frameC_setWd s w _), fun e he => ?_⟩
      rcases List.mem_append.mp he with he | he
      · exact Or.inl (NS.of_plain (hea e he))
      · rw [List.mem_singleton.mp he]; exact Or.inl (NS.of_plain (plain_sleep _ _))
    split
    · exact hwait
    · split
      · exact hwait
      · refine hcont s false (Upd.refl g [] w s) j (fun vs _ => ?_) ⟨_, mem_sharedResults g s n n _ hn hfl rfl hph⟩
        exact Or.inr (Or.inr ⟨phOf (g.node n).name tag, mem_sharedResults g s n n _ hn hfl rfl hph, by show "UNKNOWN" ≠ "PASS"; decide⟩)

/-- one scheduler step from a state with the invariants of C03 (`Basic`, `Uids`), `Trv` and `SemR` -/
theorem resume_semR (g : Graph) (hwf : GraphWF g) (hroot : (g.node g.root).flat = true)
    {store0 : List (String × List (String × String))} (sc : SemCtxR g store0) (s : State) (w : Nat) (out : Outcome)
    (fuel : Nat) (b : Basic g s All) (u : Uids g s All) (t : Trv g [] s) (j : SemR g store0 s) :
    SemR g store0 (resume g s w out fuel).1 ∧
      ∀ e ∈ (resume g s w out fuel).2, NS e ∨ StartSemR g store0 w (resume g s w out fuel).1 e := by
  have hloop : SemR g store0 (runLoop g w fuel s []).1 ∧
      ∀ e ∈ (runLoop g w fuel s []).2, NS e ∨ StartSemR g store0 w (runLoop g w fuel s []).1 e := by
    obtain ⟨h1, h2⟩ := runLoop_semR g hwf hroot sc w fuel s [] t j
    refine ⟨h1, fun e he => ?_⟩
    rcases h2 e he with he | he
    · simp at he
    · exact he
  unfold resume
  split
  · exact hloop
  · exact hloop
  · next n ph dir uid tag wait hpc =>
    obtain ⟨hn, _, hfl, _⟩ := t.pc w n ph dir uid tag wait hpc
    have hph : ph = .plain :=
      (b.pcOK w n ph dir uid tag wait trivial hpc).2.2.2.1.mp (sc.hy.plainNodes n hn hfl).2.2.2
    subst hph
    exact resumeTest_semR g hwf hroot sc s w n dir uid tag wait out fuel b u t j hpc
  · exact ⟨j, fun e he => by simp at he⟩
  · exact ⟨j, fun e he => by simp at he⟩

/-! ## reachable states of a pre-parsed graph -/

theorem ReachS.reachC {g : Graph} {ncls : Nat} {store : List (String × List (String × String))} {s : State}
    (h : ReachS g ncls store [] s) : Clean.ReachC g ncls store s := by
  induction h with
  | init => exact Clean.ReachC.init
  | step s w out fuel _ hw hf ih => exact Clean.ReachC.step s w out fuel ih hw hf

theorem ReachS.semR {g : Graph} (hwf : graphWF g = true) (hroot : (g.node g.root).flat = true) {ncls : Nat}
    {store : List (String × List (String × String))} (sc : SemCtxR g store) (hN : NamesInj g) (hP : PreNamesFresh g)
    {s : State} (h : ReachS g ncls store [] s) : SemR g store s := by
  induction h with
  | init => exact SemR.init g ncls store _
  | step s w out fuel hs _ _ ih =>
    exact (resume_semR g (GraphWF.of_bool hwf) hroot sc s w out fuel (hs.reachR.basic hwf) (hs.reachR.uids hwf hN hP)
      (hs.reachH.trv (GraphWF.of_bool hwf) hroot sc.hO.uniq) ih).1

/-! ## instances for `Props/C01.lean` -/

/-- one worker: test `a` sets `vm1/a` and removes it when reversed (`unset_mode = fi`), test `b` gets it -/
def exRm1 : Graph :=
  { workers := [{ id := "net1", swarm := "localhost" }],
    nodes := [
      { cls := 0, owner := some 0, name := "a.net1", pfx := "1a1", objs := ["vm1"],
        sets := [("vm1", "a")], unsetMode := [("vm1", "fi")], setup := [(2, ["vm1"])], cleanup := [(1, ["vm1"])] },
      { cls := 1, owner := some 0, name := "b.net1", pfx := "2a1", objs := ["vm1"],
        gets := [("vm1", "a")], setup := [(0, ["vm1"])] },
      { cls := 2, owner := none, name := "noop", pfx := "1", flat := true, sharedRoot := true,
        cleanup := [(0, ["vm1"])] }],
    root := 2 }

/-- `a` is running -/
def exRm1_1 : State := runSched exRm1 100 (initState exRm1 3 [] []) [(0, exNoOut)]
/-- `a` passed, `b` is running -/
def exRm1_2 : State := runSched exRm1 100 (initState exRm1 3 [] []) [(0, exNoOut), (0, exPass)]

/-- two workers in one scope; the removable class `a` and its dependant `b` are parsed for net2 only, net1 has a test
`c` of its own (`RemovableSingle` holds) -/
def exRm2 : Graph :=
  { workers := [{ id := "net1", swarm := "localhost" }, { id := "net2", swarm := "localhost" }],
    nodes := [
      { cls := 0, owner := some 1, name := "a.net2", pfx := "1a1", objs := ["vm1"],
        sets := [("vm1", "a")], unsetMode := [("vm1", "fi")], setup := [(3, ["vm1"])], cleanup := [(1, ["vm1"])] },
      { cls := 1, owner := some 1, name := "b.net2", pfx := "2a1", objs := ["vm1"],
        gets := [("vm1", "a")], setup := [(0, ["vm1"])] },
      { cls := 3, owner := some 0, name := "c.net1", pfx := "3a1", objs := ["vm1"], setup := [(3, ["vm1"])] },
      { cls := 2, owner := none, name := "noop", pfx := "1", flat := true, sharedRoot := true,
        cleanup := [(0, ["vm1"]), (2, ["vm1"])] }],
    root := 3 }

/-- two workers in one scope, every class parsed for both: the removable class `a` (sets `vm1/a`, policy `fi`) and its
dependants `b` and `d` (`SymCopies` holds, `RemovableSingle` does not) -/
def exRmSym : Graph :=
  { workers := [{ id := "net1", swarm := "localhost" }, { id := "net2", swarm := "localhost" }],
    nodes := [
      { cls := 0, owner := some 0, name := "a.net1", pfx := "1a1", objs := ["vm1"],
        sets := [("vm1", "a")], unsetMode := [("vm1", "fi")], setup := [(6, ["vm1"])],
        cleanup := [(2, ["vm1"]), (4, ["vm1"])] },
      { cls := 0, owner := some 1, name := "a.net2", pfx := "1a1", objs := ["vm1"],
        sets := [("vm1", "a")], unsetMode := [("vm1", "fi")], setup := [(6, ["vm1"])],
        cleanup := [(3, ["vm1"]), (5, ["vm1"])] },
      { cls := 1, owner := some 0, name := "b.net1", pfx := "2a1", objs := ["vm1"],
        gets := [("vm1", "a")], setup := [(0, ["vm1"])] },
      { cls := 1, owner := some 1, name := "b.net2", pfx := "2a1", objs := ["vm1"],
        gets := [("vm1", "a")], setup := [(1, ["vm1"])] },
      { cls := 3, owner := some 0, name := "d.net1", pfx := "3a1", objs := ["vm1"],
        gets := [("vm1", "a")], setup := [(0, ["vm1"])] },
      { cls := 3, owner := some 1, name := "d.net2", pfx := "3a1", objs := ["vm1"],
        gets := [("vm1", "a")], setup := [(1, ["vm1"])] },
      { cls := 2, owner := none, name := "noop", pfx := "1", flat := true, sharedRoot := true,
        cleanup := [(0, ["vm1"]), (1, ["vm1"])] }],
    root := 6 }

/-- net1 ran `a` (PASS) and is running `b`; net2 has not moved -/
def exRmSym_2 : State := runSched exRmSym 100 (initState exRmSym 4 [] []) [(0, exNoOut), (0, exPass)]

/-- `exRmSym` with the two workers in DIFFERENT swarms and retries on `d` (`max_tries = 3`, `rerun_status = fail`):
`SymCopies` holds, `MaxTriesOne` does not -/
def exRmRetry : Graph :=
  { workers := [{ id := "c1.net1", swarm := "c1" }, { id := "c2.net2", swarm := "c2" }],
    nodes := [
      { cls := 0, owner := some 0, name := "a.c1.net1", pfx := "1a1", objs := ["vm1"],
        sets := [("vm1", "a")], unsetMode := [("vm1", "fi")], setup := [(6, ["vm1"])],
        cleanup := [(2, ["vm1"]), (4, ["vm1"])] },
      { cls := 0, owner := some 1, name := "a.c2.net2", pfx := "1a1", objs := ["vm1"],
        sets := [("vm1", "a")], unsetMode := [("vm1", "fi")], setup := [(6, ["vm1"])],
        cleanup := [(3, ["vm1"]), (5, ["vm1"])] },
      { cls := 1, owner := some 0, name := "b.c1.net1", pfx := "2a1", objs := ["vm1"],
        gets := [("vm1", "a")], setup := [(0, ["vm1"])] },
      { cls := 1, owner := some 1, name := "b.c2.net2", pfx := "2a1", objs := ["vm1"],
        gets := [("vm1", "a")], setup := [(1, ["vm1"])] },
      { cls := 3, owner := some 0, name := "d.c1.net1", pfx := "3a1", objs := ["vm1"], maxTries := some 3,
        rerunStatus := some ["fail"], gets := [("vm1", "a")], setup := [(0, ["vm1"])] },
      { cls := 3, owner := some 1, name := "d.c2.net2", pfx := "3a1", objs := ["vm1"], maxTries := some 3,
        rerunStatus := some ["fail"], gets := [("vm1", "a")], setup := [(1, ["vm1"])] },
      { cls := 2, owner := none, name := "noop", pfx := "1", flat := true, sharedRoot := true,
        cleanup := [(0, ["vm1"]), (1, ["vm1"])] }],
    root := 6 }

def exFail : Outcome := { status := some "FAIL", dur := 1 }

/-- `c1.net1` ran `a` (PASS) and `b` (PASS) while `c2.net2` started `d`; `c1.net1` then skipped and dropped its copy of `d`
(the placeholder `UNKNOWN` of the peer is not in the rerun set) and removed the state -/
def exRmRetry_4 : State :=
  runSched exRmRetry 100 (initState exRmRetry 4 [] []) [(0, exNoOut), (0, exPass), (1, exNoOut), (0, exPass)]

/-- `exSt` of `TravStates.lean` (test `a` sets `vm1/a`, copies for net1 and net2; only net2 has the dependant `b`) with
the removal policy `fi` on `a`: `RemovableSingle` fails -/
def exRmStale : Graph :=
  { workers := [{ id := "net1", swarm := "localhost" }, { id := "net2", swarm := "localhost" }],
    nodes := [
      { cls := 0, owner := some 0, name := "a.net1", pfx := "1a1", objs := ["vm1"],
        sets := [("vm1", "a")], unsetMode := [("vm1", "fi")], setup := [(3, ["vm1"])] },
      { cls := 0, owner := some 1, name := "a.net2", pfx := "1a1", objs := ["vm1"],
        sets := [("vm1", "a")], unsetMode := [("vm1", "fi")], setup := [(3, ["vm1"])], cleanup := [(2, ["vm1"])] },
      { cls := 1, owner := some 1, name := "b.net2", pfx := "2a1", objs := ["vm1"],
        gets := [("vm1", "a")], setup := [(1, ["vm1"])] },
      { cls := 2, owner := none, name := "noop", pfx := "1", flat := true, sharedRoot := true,
        cleanup := [(0, ["vm1"]), (1, ["vm1"])] }],
    root := 3 }

/-- net1 ran `a`, passed, found its copy without dependants and removed the state from its pool; net2 has not moved -/
def exRmStale_2 : State := runSched exRmStale 100 (initState exRmStale 3 [] []) [(0, exNoOut), (0, exPass)]

end I2N.Trav
