import I2N.Lemmas.TravStates
import I2N.Lemmas.TravClean
/-!
C01 with state removal on pre-parsed graphs: the semantic invariant of `TravStates.lean` (`Sem` = `Prov` ∧ `FinSrc`)
is weakened to `SemR` = `Prov` ∧ `FinSrcR`: the set states of a traversed parsed copy `p` are sourced (`Src`) **or**
`p` is removable and cleanup-ready for its owner (every dependant of `p` the owner cares for has been dropped by the
owner).  The second alternative is what `sync_states` leaves behind when it removes the states of `p`: `reverse_node`
is only reached on a cleanup-ready node, and the `droppedCleanup` registers only grow.

At the start of a dependant `n` of `p` the second alternative is excluded by C05's invariant `CInv`
(`TravClean.lean`): the worker awaits the test on the last node of its path, and no node on its path is dropped —
but a cleanup-ready `p` has dropped `n`.

The hypothesis that makes the invariant inductive is `RemovableSingle`: a removable class has ONE parsed copy (it is
parsed for one worker only; in particular: any graph with a single worker).  Without it a worker that comes late to
its own copy of a removable class skips it (the class counts as finished: no scan) although the state has been
removed from the pool of the worker that produced it (`Props/C01.lean: removed_state_stale_location`).
-/
namespace I2N.Trav

/-! ## `sync_states` without copy-back: nothing, or a removal from the acting worker's own pool -/

/-- the node never copies states back from the shared pool while backing out (`pool_filter` ∈ {reuse, block}) -/
def NodeNC (nd : Node) : Prop := nd.poolFilter = "reuse" ∨ nd.poolFilter = "block"

instance (nd : Node) : Decidable (NodeNC nd) := by unfold NodeNC; infer_instance

/-- the unset mode of the state's object starts with `f` -/
def fMode (nd : Node) (vs : String × String) : Bool := (unsetModeOf nd vs.1).toList.head? == some 'f'

/-- some set state of the node is removed when the node is reversed -/
def Removable (nd : Node) : Bool := nd.sets.any (fMode nd)

/-- what the loop of `sync_states` has accumulated: a positive verdict comes with the action `unset`; the states to
unset are set states of the node with an `f` mode -/
def AccOk (nd : Node) (acc : SyncAcc) : Prop :=
  (acc.1 = true → acc.2.1 = "unset") ∧ ∀ x ∈ acc.2.2.1, x ∈ nd.sets ∧ fMode nd x = true

theorem syncStep_accOk (nd : Node) (h : NodeNC nd) (rv : Option (List String)) (acc : SyncAcc) (vs : String × String)
    (hvs : vs ∈ nd.sets) (ha : AccOk nd acc) : AccOk nd (syncStep nd rv acc vs) := by
  unfold syncStep
  dsimp only
  split
  · exact ha
  · split
    · exact ha
    · split
      · exact ha
      · split
        · rename_i hc
          refine ⟨fun _ => rfl, fun x hx => ?_⟩
          rcases List.mem_append.mp hx with hx | hx
          · exact ha.2 x hx
          · rw [List.mem_singleton.mp hx]; exact ⟨hvs, hc⟩
        · split
          · exact ⟨fun h => Bool.noConfusion h, ha.2⟩
          · rename_i hc
            exfalso; apply hc
            rcases h with h1 | h1 <;> simp [h1]

theorem syncAcc_accOk (nd : Node) (h : NodeNC nd) (rv : Option (List String)) : AccOk nd (syncAcc nd rv) := by
  unfold syncAcc
  have : ∀ (l : List (String × String)) acc, (∀ x ∈ l, x ∈ nd.sets) → AccOk nd acc →
      AccOk nd (l.foldl (syncStep nd rv) acc) := by
    intro l
    induction l with
    | nil => intro acc _ h; exact h
    | cons a r ih =>
      intro acc hl ha
      exact ih _ (fun x hx => hl x (List.mem_cons_of_mem _ hx)) (syncStep_accOk nd h rv acc a (hl a List.mem_cons_self) ha)
  exact this _ _ (fun _ hx => hx) ⟨fun h => Bool.noConfusion h, fun x hx => nomatch hx⟩

/-- the effect of `sync_states` on the store: a set `rem` of `f`-mode set states of the node leaves the acting worker's
own pool; nothing else changes -/
theorem syncStates_rm (g : Graph) (s : State) (n w : Nat) (rv : Option (List String)) (h : NodeNC (g.node n)) :
    ∃ rem : List (String × String), (∀ x ∈ rem, x ∈ (g.node n).sets ∧ fMode (g.node n) x = true) ∧
      (∃ st, (syncStates g s n w rv).1 = { s with store := st }) ∧
      ∀ loc vs, vs ∈ storeGet (syncStates g s n w rv).1.store loc ↔
        vs ∈ storeGet s.store loc ∧ ¬ (loc = (g.worker w).id ∧ vs ∈ rem) := by
  have hacc := syncAcc_accOk (g.node n) h rv
  unfold syncStates
  dsimp only
  by_cases hc : (syncAcc (g.node n) rv).1 = true
  · have hu := hacc.1 hc
    simp only [hc, Bool.not_true, Bool.false_eq_true, if_false, hu, beq_self_eq_true, if_true]
    refine ⟨(syncAcc (g.node n) rv).2.2.1, hacc.2, ⟨_, rfl⟩, fun loc vs => ?_⟩
    rw [storeGet_storeSet]
    by_cases hl : loc = (g.worker w).id
    · subst hl
      simp only [if_true, List.mem_filter, Bool.not_eq_eq_eq_not, Bool.not_true, true_and]
      constructor
      · rintro ⟨h1, h2⟩
        exact ⟨h1, fun hm => by rw [List.contains_iff_mem.mpr hm] at h2; cases h2⟩
      · rintro ⟨h1, h2⟩
        refine ⟨h1, ?_⟩
        cases hcn : (syncAcc (g.node n) rv).2.2.1.contains vs
        · rfl
        · exact absurd (List.contains_iff_mem.mp hcn) h2
    · simp only [hl, if_false, false_and, not_false_eq_true, and_true]
  · have hc' : (syncAcc (g.node n) rv).1 = false := by simpa using hc
    simp only [hc', Bool.not_false, if_true]
    exact ⟨[], fun x hx => by simp at hx, ⟨s.store, rfl⟩, fun loc vs => by simp⟩

theorem removable_of_mem {nd : Node} {x : String × String} (h1 : x ∈ nd.sets) (h2 : fMode nd x = true) :
    Removable nd = true := by
  unfold Removable
  exact List.any_eq_true.mpr ⟨x, h1, h2⟩

/-! ## hypotheses on the graph (all decidable) -/

def NoCopyBack (g : Graph) : Prop := ∀ n, n < g.nodes.length → NodeNC (g.node n)

/-- a removable class has one parsed copy -/
def RemovableSingleAt (g : Graph) (n m : Nat) : Prop :=
  (g.node n).flat = false → (g.node m).flat = false → Removable (g.node n) = true → (g.node n).cls = (g.node m).cls → n = m

instance (g : Graph) (n m : Nat) : Decidable (RemovableSingleAt g n m) := by unfold RemovableSingleAt; infer_instance

def RemovableSingle (g : Graph) : Prop :=
  ∀ n, n < g.nodes.length → ∀ m, m < g.nodes.length → RemovableSingleAt g n m

instance (g : Graph) : Decidable (NoCopyBack g) := by unfold NoCopyBack; infer_instance
instance (g : Graph) : Decidable (RemovableSingle g) := by unfold RemovableSingle; infer_instance

/-- `SemHyp` of `TravStates.lean` with `NoRemoval` replaced by `NoCopyBack` and `RemovableSingle` -/
structure SemHypR (g : Graph) : Prop where
  fullScope : FullScope g
  plainNodes : PlainNodes g
  noCopyBack : NoCopyBack g
  removableSingle : RemovableSingle g
  producerSets : ProducerSets g
  uniqueProducer : UniqueProducer g
  setsClass : SetsClass g
  ownersReal : OwnersReal g

/-- every parsed node was parsed for some worker -/
def ParsedOwned (g : Graph) : Prop := ∀ n, n < g.nodes.length → (g.node n).flat = false → (g.node n).owner.isSome = true

instance (g : Graph) : Decidable (ParsedOwned g) := by unfold ParsedOwned; infer_instance

/-- with one worker (and one copy per class and worker) every class has one parsed copy -/
theorem removableSingle_of_one_worker {g : Graph} (h1 : g.workers.length = 1) (hR : OwnersReal g) (hP : ParsedOwned g)
    (hC : Clean.CopyUniq g) : RemovableSingle g := by
  intro n hn m hm hfn hfm _ hc
  have own : ∀ x, x < g.nodes.length → (g.node x).flat = false → (g.node x).owner = some 0 := by
    intro x hx hfx
    cases ho : (g.node x).owner with
    | none => have := hP x hx hfx; rw [ho] at this; cases this
    | some u =>
      have := hR.lt hx ho
      congr; omega
  exact hC n hn m hm hc (Or.inr (by rw [own n hn hfn, own m hm hfm]))

/-! ## the weakened invariant -/

/-- the `droppedCleanup` registers only grow -/
def MonoC (s s' : State) : Prop :=
  ∀ cp c u, u ∈ regWorkers (s.cr cp).droppedCleanup (some c) → u ∈ regWorkers (s'.cr cp).droppedCleanup (some c)

theorem MonoC.refl (s : State) : MonoC s s := fun _ _ _ h => h
theorem MonoC.trans {s s1 s2 : State} (a : MonoC s s1) (b : MonoC s1 s2) : MonoC s s2 := fun cp c u h => b cp c u (a cp c u h)
theorem MonoC.of_quiet {w : Nat} {s s' : State} (a : Clean.Quiet w s s') : MonoC s s' := fun cp c u h => by rw [a.dc cp]; exact h
theorem MonoC.of_same {w : Nat} {s s' : State} (a : Clean.Same w s s') : MonoC s s' := MonoC.of_quiet a.1
theorem MonoC.of_fr {w : Nat} {s s' : State} (a : Clean.Fr w s s') : MonoC s s' := a.monoC

theorem MonoC.ready {s s' : State} (a : MonoC s s') (g : Graph) (n v : Nat) (h : isCleanupReady g s n v = true) :
    isCleanupReady g s' n v = true :=
  Clean.isCleanupReady_mono g s s' n v (fun cp c h => a cp c v h) h

/-- the alternative to `Src`: the copy is removable and its owner has dropped every dependant it cares for -/
def Alt (g : Graph) (s : State) (p : Nat) : Prop :=
  Removable (g.node p) = true ∧ ∀ u, (g.node p).owner = some u → isCleanupReady g s p u = true

theorem Alt.mono {g : Graph} {s s' : State} {p : Nat} (h : Alt g s p) (a : MonoC s s') : Alt g s' p :=
  ⟨h.1, fun u hu => a.ready g p u (h.2 u hu)⟩

/-- the states set by a traversed parsed copy are sourced, or the copy is removable and cleanup-ready for its owner -/
def FinSrcR (g : Graph) (s : State) : Prop :=
  ∀ p, p < g.nodes.length → (g.node p).flat = false → (s.nd p).finished.isSome = true →
    ∀ vs ∈ (g.node p).sets, Src g s p vs ∨ Alt g s p

structure SemR (g : Graph) (store0 : List (String × List (String × String))) (s : State) : Prop where
  prov : Prov g store0 s
  fin : FinSrcR g s

theorem SemR.grow {g : Graph} {store0 : List (String × List (String × String))} {s s' : State} (j : SemR g store0 s)
    (a : Grow s s') (m : MonoC s s') : SemR g store0 s' := by
  refine ⟨fun loc vs h => ?_, fun p hp hf hfin vs hvs => ?_⟩
  · rw [a.store] at h
    rcases j.prov loc vs h with h' | ⟨u, q, h1, h2, h3, h4, h5, r, hr, hn⟩
    · exact Or.inl h'
    · exact Or.inr ⟨u, q, h1, h2, h3, h4, h5, r, a.results q r hr, hn⟩
  · rw [a.fin] at hfin
    exact (j.fin p hp hf hfin vs hvs).imp a.src (fun h => h.mono m)

theorem SemR.frame {g : Graph} {store0 : List (String × List (String × String))} {s s' : State} (j : SemR g store0 s)
    (a : Frame s s') (m : MonoC s s') : SemR g store0 s' := j.grow a.grow m

theorem SemR.init (g : Graph) (ncls : Nat) (store : List (String × List (String × String))) (H0 : List Nat) :
    SemR g store (initState g ncls store H0) :=
  ⟨(Sem.init g ncls store H0).prov, fun p hp hf hfin vs hvs => Or.inl ((Sem.init g ncls store H0).fin p hp hf hfin vs hvs)⟩

/-- the end of `traverse_node` on a copy whose set states are sourced or removed after all dependants -/
theorem SemR.finish {g : Graph} {store0 : List (String × List (String × String))} {s : State} (j : SemR g store0 s)
    (p w : Nat) (hsrc : p < g.nodes.length → (g.node p).flat = false → ∀ vs ∈ (g.node p).sets, Src g s p vs ∨ Alt g s p) :
    SemR g store0 (finishTraverse s p w) := by
  have hres : ∀ m, ((finishTraverse s p w).nd m).results = (s.nd m).results := fun m =>
    nd_setNd_proj (·.results) s p (fun d => { d with finished := some w, started := none }) (fun _ => rfl) m
  have hm : MonoC s (finishTraverse s p w) := MonoC.of_same (Clean.same_finishTraverse 0 s p w)
  have hg : ∀ {q vs}, Src g s q vs → Src g (finishTraverse s p w) q vs := by
    intro q vs h
    rcases h with h | ⟨u, hu, h⟩ | ⟨r, hr, h⟩
    · exact Or.inl h
    · refine Or.inr (Or.inl ⟨u, ?_, h⟩)
      rw [sharedResultWorkerIds_congr g s _ q hres]; exact hu
    · exact Or.inr (Or.inr ⟨r, by rw [sharedResults_congr g s _ q hres]; exact hr, h⟩)
  refine ⟨fun loc vs h => ?_, fun q hq hf hfin vs hvs => ?_⟩
  · rcases j.prov loc vs h with h' | ⟨u, q, h1, h2, h3, h4, h5, r, hr, hn⟩
    · exact Or.inl h'
    · exact Or.inr ⟨u, q, h1, h2, h3, h4, h5, r, by rw [hres]; exact hr, hn⟩
  · by_cases hqp : q = p
    · subst hqp; exact (hsrc hq hf vs hvs).imp hg (fun h => h.mono hm)
    · have : ((finishTraverse s p w).nd q).finished = (s.nd q).finished := by
        unfold finishTraverse; rw [nd_setNd_ne s p q _ hqp]
      rw [this] at hfin
      exact (j.fin q hq hf hfin vs hvs).imp hg (fun h => h.mono hm)

/-- the removal: a set `rem` of `f`-mode set states of the cleanup-ready own copy `n` leaves `w`'s pool -/
theorem SemR.rm {g : Graph} {store0 : List (String × List (String × String))} {s : State} (hy : SemHypR g)
    (j : SemR g store0 s) (n w : Nat) (rem : List (String × String)) (st : List (String × List (String × String)))
    (hn : n < g.nodes.length) (hf : (g.node n).flat = false) (ho : (g.node n).owner = some w)
    (hready : isCleanupReady g s n w = true)
    (hrem : ∀ x ∈ rem, x ∈ (g.node n).sets ∧ fMode (g.node n) x = true)
    (hst : ∀ loc vs, vs ∈ storeGet st loc ↔ vs ∈ storeGet s.store loc ∧ ¬ (loc = (g.worker w).id ∧ vs ∈ rem)) :
    SemR g store0 { s with store := st } := by
  have hres : ∀ m, (({ s with store := st } : State).nd m).results = (s.nd m).results := fun _ => rfl
  refine ⟨fun loc vs h => ?_, fun p hp hfp hfin vs hvs => ?_⟩
  · rcases j.prov loc vs ((hst loc vs).mp h).1 with h' | ⟨u, q, h1, h2, h3, h4, h5, r, hr, hrn⟩
    · exact Or.inl h'
    · exact Or.inr ⟨u, q, h1, h2, h3, h4, h5, r, hr, hrn⟩
  · by_cases hvr : vs ∈ rem
    · -- a removed state: the copy is `n` itself
      right
      obtain ⟨h1, h2⟩ := hrem vs hvr
      have hc : (g.node n).cls = (g.node p).cls := hy.uniqueProducer n hn p hp vs h1 hf hfp hvs
      have hnp : n = p := hy.removableSingle n hn p hp hf hfp (removable_of_mem h1 h2) hc
      subst hnp
      refine ⟨removable_of_mem h1 h2, fun u hu => ?_⟩
      rw [ho] at hu
      cases hu
      exact hready
    · have hkeep : ∀ loc, vs ∈ storeGet s.store loc → vs ∈ storeGet st loc :=
        fun loc h => (hst loc vs).mpr ⟨h, fun h' => hvr h'.2⟩
      rcases j.fin p hp hfp hfin vs hvs with (h | ⟨u, hu, h⟩ | ⟨r, hr, h⟩) | h
      · exact Or.inl (Or.inl (hkeep _ h))
      · refine Or.inl (Or.inr (Or.inl ⟨u, ?_, hkeep _ h⟩))
        rw [sharedResultWorkerIds_congr g s _ p hres]; exact hu
      · exact Or.inl (Or.inr (Or.inr ⟨r, by rw [sharedResults_congr g s _ p hres]; exact hr, h⟩))
      · exact Or.inr h

end I2N.Trav
