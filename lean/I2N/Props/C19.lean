import I2N.Model.Tunnel
namespace I2N.Props.C19
theorem placeholder : True := trivial
end I2N.Props.C19
