import I2N.Lemmas.TunnelEnds
import I2N.Lemmas.TunnelExamples
import I2N.Lemmas.PyGen
import I2N.Extracted.GenTunnel
/-!
# C19 — Tunnel end point parameters mirror each other

Model: `I2N/Model/Tunnel.lean` (`peerVariant` = `_get_peer_variant`, `tunnelParams` = `VMTunnel.__init__`,
`Tunnel.leftParams`/`rightParams` = the `object_params` projections, `Tunnel.connects` = `connects_nodes`).
`t.L s` / `t.R s` is what the left / right end point finds under the parameter name `s`.

All theorems quantify over arbitrary tunnel and node names, node parameters, interfaces, addresses and
configuration dictionaries; `WF` asks that tunnel name and the two node names are pairwise distinct and that the
nodes' own parameters do not overwrite generated ones (`Clean`).
-/
namespace I2N.Props.C19
open I2N.Tunnel

variable {name : String} {node1 node2 : Node} {local1 remote1 peer1 : SDict} {auth : Option SDict} {t : Tunnel}

/-- **The lan parameters of each side are that side's network** (`left_net` / `right_net` of the tunnel object),
and absent exactly when the side is a point (`internetip`, `externalip`, `modeconfig`). -/
theorem lan_is_own_net (h : tunnelParams name node1 node2 local1 remote1 peer1 auth = .ok t)
    (wf : WF name node1 node2) :
    t.L "vpnconn_lan_net" = t.leftNet.map (·.netIp) ∧ t.L "vpnconn_lan_netmask" = t.leftNet.map (·.netmask) ∧
    t.R "vpnconn_lan_net" = t.rightNet.map (·.netIp) ∧ t.R "vpnconn_lan_netmask" = t.rightNet.map (·.netmask) := by
  obtain ⟨b⟩ := tunnelParams_ok h
  have h12 := wf.h12
  have h21 := Ne.symm wf.h12
  obtain ⟨extra, e2, hx⟩ := remotePart_assign b.h2
  have hx1 := fun q => extra_none hx "vpnconn_lan_net" q (by decide)
  have hx2 := fun q => extra_none hx "vpnconn_lan_netmask" q (by decide)
  rw [b.L_eq wf _ (mem_gen _ (by simp [netStems])), b.L_eq wf _ (mem_gen _ (by simp [netStems])),
    b.R_eq wf _ (mem_gen _ (by simp [netStems])), b.R_eq wf _ (mem_gen _ (by simp [netStems]))]
  simp only [net_all b _ _ (by simp [netStems] : "vpnconn_lan_net" ∈ netStems),
    net_all b _ _ (by simp [netStems] : "vpnconn_lan_netmask" ∈ netStems), e2, lastVal_append, hx1, hx2]
  rcases localPart_assign b.h1 with ⟨_, e1⟩ | ⟨_, e1⟩ <;> rw [e1] <;>
    cases t.leftNet <;> cases t.rightNet <;>
    simp [lanOf, remoteOf, lastVal, lastVal_append, k2, h12, h21]

/-- **The left side's remote network is the right side's network**, for the whole type product. -/
theorem left_remote_is_right_net (h : tunnelParams name node1 node2 local1 remote1 peer1 auth = .ok t)
    (wf : WF name node1 node2) :
    t.L "vpnconn_remote_net" = t.rightNet.map (·.netIp) ∧
    t.L "vpnconn_remote_netmask" = t.rightNet.map (·.netmask) := by
  obtain ⟨b⟩ := tunnelParams_ok h
  have h12 := wf.h12
  have h21 := Ne.symm wf.h12
  obtain ⟨extra, e2, hx⟩ := remotePart_assign b.h2
  have hx1 := fun q => extra_none hx "vpnconn_remote_net" q (by decide)
  have hx2 := fun q => extra_none hx "vpnconn_remote_netmask" q (by decide)
  rw [b.L_eq wf _ (mem_gen _ (by simp [netStems])), b.L_eq wf _ (mem_gen _ (by simp [netStems]))]
  simp only [net_all b _ _ (by simp [netStems] : "vpnconn_remote_net" ∈ netStems),
    net_all b _ _ (by simp [netStems] : "vpnconn_remote_netmask" ∈ netStems), e2, lastVal_append, hx1, hx2]
  rcases localPart_assign b.h1 with ⟨_, e1⟩ | ⟨_, e1⟩ <;> rw [e1] <;>
    cases t.leftNet <;> cases t.rightNet <;>
    simp [lanOf, remoteOf, lastVal, lastVal_append, k2, h12, h21]

/-- The right side's remote network is the left side's network **unless the left local type is `custom`**
(finding `custom-local-right-remote-net-missing`, see `custom_local_right_remote_absent`). -/
theorem right_remote_is_left_net_partial (h : tunnelParams name node1 node2 local1 remote1 peer1 auth = .ok t)
    (wf : WF name node1 node2) (hl : local1.get? "type" ≠ some "custom") :
    t.R "vpnconn_remote_net" = t.leftNet.map (·.netIp) ∧
    t.R "vpnconn_remote_netmask" = t.leftNet.map (·.netmask) := by
  obtain ⟨b⟩ := tunnelParams_ok h
  have h12 := wf.h12
  have h21 := Ne.symm wf.h12
  obtain ⟨extra, e2, hx⟩ := remotePart_assign b.h2
  have hx1 := fun q => extra_none hx "vpnconn_remote_net" q (by decide)
  have hx2 := fun q => extra_none hx "vpnconn_remote_netmask" q (by decide)
  rw [b.R_eq wf _ (mem_gen _ (by simp [netStems])), b.R_eq wf _ (mem_gen _ (by simp [netStems]))]
  simp only [net_all b _ _ (by simp [netStems] : "vpnconn_remote_net" ∈ netStems),
    net_all b _ _ (by simp [netStems] : "vpnconn_remote_netmask" ∈ netStems), e2, lastVal_append, hx1, hx2]
  rcases localPart_assign b.h1 with ⟨hc, _⟩ | ⟨_, e1⟩
  · exact absurd hc hl
  · rw [e1]
    cases t.leftNet <;> cases t.rightNet <;>
      simp [lanOf, remoteOf, lastVal, lastVal_append, k2, h12, h21]

/-- `lan_remote_mirror`, the half that holds for the whole product: whatever the right side has as its local
network is what the left side has as its remote network (both defined or both absent). -/
theorem lan_remote_mirror_right_to_left (h : tunnelParams name node1 node2 local1 remote1 peer1 auth = .ok t)
    (wf : WF name node1 node2) :
    t.R "vpnconn_lan_net" = t.L "vpnconn_remote_net" ∧ t.R "vpnconn_lan_netmask" = t.L "vpnconn_remote_netmask" := by
  obtain ⟨_, _, h3, h4⟩ := lan_is_own_net h wf
  obtain ⟨h5, h6⟩ := left_remote_is_right_net h wf
  exact ⟨h3.trans h5.symm, h4.trans h6.symm⟩

/-- `lan_remote_mirror`: each side's local network is the other side's remote network.  PARTIAL: the
left-to-right half needs `local type ≠ custom`; for `custom` the real constructor never assigns
`vpnconn_remote_net_<tunnel>_<right node>` (next theorem). -/
theorem lan_remote_mirror_partial (h : tunnelParams name node1 node2 local1 remote1 peer1 auth = .ok t)
    (wf : WF name node1 node2) (hl : local1.get? "type" ≠ some "custom") :
    t.L "vpnconn_lan_net" = t.R "vpnconn_remote_net" ∧ t.L "vpnconn_lan_netmask" = t.R "vpnconn_remote_netmask" ∧
    t.R "vpnconn_lan_net" = t.L "vpnconn_remote_net" ∧ t.R "vpnconn_lan_netmask" = t.L "vpnconn_remote_netmask" := by
  obtain ⟨h1, h2, _, _⟩ := lan_is_own_net h wf
  obtain ⟨h5, h6⟩ := right_remote_is_left_net_partial h wf hl
  obtain ⟨h7, h8⟩ := lan_remote_mirror_right_to_left h wf
  exact ⟨h1.trans h5.symm, h2.trans h6.symm, h7, h8⟩

/-- The finding, as a theorem about the model of the code as it is: for **every** tunnel with left local type
`custom` the left end has its `lnet/lmask` as lan network while the right end has no remote network at all. -/
theorem custom_local_right_remote_absent (h : tunnelParams name node1 node2 local1 remote1 peer1 auth = .ok t)
    (wf : WF name node1 node2) (hl : local1.get? "type" = some "custom") :
    t.L "vpnconn_lan_net" = local1.get? "lnet" ∧ (t.L "vpnconn_lan_net").isSome ∧
    t.R "vpnconn_remote_net" = none ∧ t.R "vpnconn_remote_netmask" = none := by
  obtain ⟨b⟩ := tunnelParams_ok h
  have h12 := wf.h12
  have h21 := Ne.symm wf.h12
  obtain ⟨extra, e2, hx⟩ := remotePart_assign b.h2
  have hx1 := fun q => extra_none hx "vpnconn_remote_net" q (by decide)
  have hx2 := fun q => extra_none hx "vpnconn_remote_netmask" q (by decide)
  have hx3 := fun q => extra_none hx "vpnconn_lan_net" q (by decide)
  obtain ⟨lt, hlt, hc⟩ := localPart_ok b.h1
  rw [hl] at hlt
  cases hlt
  rcases hc with ⟨hc, _⟩ | ⟨hc, _⟩ | ⟨_, lnet, lmask, hn, hm, hnc, e1⟩
  · exact absurd hc (by decide)
  · exact absurd hc (by decide)
  · rw [b.L_eq wf _ (mem_gen _ (by simp [netStems])), b.R_eq wf _ (mem_gen _ (by simp [netStems])),
      b.R_eq wf _ (mem_gen _ (by simp [netStems]))]
    simp only [net_all b _ _ (by simp [netStems] : "vpnconn_remote_net" ∈ netStems),
      net_all b _ _ (by simp [netStems] : "vpnconn_lan_net" ∈ netStems),
      net_all b _ _ (by simp [netStems] : "vpnconn_remote_netmask" ∈ netStems), e2, lastVal_append, hx1, hx2, hx3,
      e1, hn]
    cases t.rightNet <;> simp [lanOf, remoteOf, lastVal, k2, h12, h21]

/-- **Peer addresses point at each other**: the right end's peer address is the address of the left end point
interface, the left end's peer address (fixed-address peer) is the address of the right end point interface, a road
warrior peer (`dynip`) has no fixed address and is waited for passively; both end point interfaces are looked up
through the *same* nic role. -/
theorem peers_point_at_each_other (h : tunnelParams name node1 node2 local1 remote1 peer1 auth = .ok t)
    (wf : WF name node1 node2) :
    t.R "vpnconn_peer_ip" = some t.leftIface.ip ∧ t.R "vpnconn_activation" = some "ALWAYS" ∧
    (peer1.get? "type" = some "ip" →
      t.L "vpnconn_peer_ip" = some t.rightIface.ip ∧ t.L "vpnconn_activation" = some "ALWAYS") ∧
    (peer1.get? "type" = some "dynip" →
      t.L "vpnconn_peer_ip" = none ∧ t.L "vpnconn_activation" = some "PASSIVE") ∧
    (peer1.get? "type" = some "ip" ∨ peer1.get? "type" = some "dynip") ∧
    node1.iface (peer1.getD "nic" "internet_nic") = .ok t.leftIface ∧
    node2.iface (peer1.getD "nic" "internet_nic") = .ok t.rightIface := by
  obtain ⟨b⟩ := tunnelParams_ok h
  have h12 := wf.h12
  have h21 := Ne.symm wf.h12
  obtain ⟨pt, pt2, hpt, _, hi2, hi1, hc⟩ := peerPart_ok b.h3
  -- the right peer dictionary carries the nic role of the left one
  have hrole : b.peer2.getD "nic" "internet_nic" = peer1.getD "nic" "internet_nic" := by
    obtain ⟨_, _, pt', _, _, hpt', _, _, hp⟩ := peerVariant_ok b.hv
    rw [hpt] at hpt'; cases hpt'
    rcases hp with ⟨_, nic, hnic, e⟩ | ⟨hn1, hn2, _⟩
    · rw [e]; simp [SDict.getD, SDict.get?, hnic]
    · rcases hc with ⟨rfl, _⟩ | ⟨rfl, _⟩
      · exact absurd rfl hn2
      · exact absurd rfl hn1
  rw [hrole] at hi1
  rw [b.R_eq wf _ (mem_gen _ (by simp [peerStems])), b.R_eq wf _ (mem_gen _ (by simp [peerStems])),
    b.L_eq wf _ (mem_gen _ (by simp [peerStems])), b.L_eq wf _ (mem_gen _ (by simp [peerStems]))]
  simp only [peer_all b _ _ (by simp [peerStems] : "vpnconn_peer_ip" ∈ peerStems),
    peer_all b _ _ (by simp [peerStems] : "vpnconn_activation" ∈ peerStems)]
  rcases hc with ⟨rfl, e⟩ | ⟨rfl, e⟩ <;> rw [e] <;>
    simp [lastVal, k2, h12, h21, hpt, hi1, hi2]

/-- **Pre-shared-key identities are swapped**: with `psk` authentication both ends get the same secret, the left
end's own identity is the right end's foreign identity and vice versa (values and identity types). -/
theorem psk_ids_swapped (h : tunnelParams name node1 node2 local1 remote1 peer1 auth = .ok t)
    (wf : WF name node1 node2) (a : SDict) (ha : auth = some a) (hpsk : a.get? "type" = some "psk") :
    t.L "vpnconn_key_type" = some "PSK" ∧ t.R "vpnconn_key_type" = some "PSK" ∧
    t.L "vpnconn_psk" = a.get? "psk" ∧ t.R "vpnconn_psk" = a.get? "psk" ∧ (a.get? "psk").isSome ∧
    t.L "vpnconn_psk_own_id" = a.get? "left_id" ∧ t.R "vpnconn_psk_foreign_id" = a.get? "left_id" ∧
    t.L "vpnconn_psk_foreign_id" = a.get? "right_id" ∧ t.R "vpnconn_psk_own_id" = a.get? "right_id" ∧
    (a.get? "left_id").isSome ∧ (a.get? "right_id").isSome ∧
    t.L "vpnconn_psk_own_id_type" = t.R "vpnconn_psk_foreign_id_type" ∧
    t.L "vpnconn_psk_foreign_id_type" = t.R "vpnconn_psk_own_id_type" ∧
    t.L "vpnconn_psk_own_id_type" = (a.get? "left_id").map (fun i => if i = "" then "IP" else "CUSTOM") ∧
    t.L "vpnconn_psk_foreign_id_type" = (a.get? "right_id").map (fun i => if i = "" then "IP" else "CUSTOM") := by
  obtain ⟨b⟩ := tunnelParams_ok h
  have h12 := wf.h12
  have h21 := Ne.symm wf.h12
  rcases authPart_ok b.h4 with ⟨hn, _⟩ | ⟨d, ty, hd, hty, hc⟩
  · rw [ha] at hn; cases hn
  · rw [ha] at hd; cases hd
    rw [hpsk] at hty; cases hty
    rcases hc with ⟨hc, _⟩ | ⟨_, psk, l, r, hp, hl, hr, e⟩
    · exact absurd hc (by decide)
    · simp only [b.L_eq wf _ (mem_gen _ (by simp [authStems] : "vpnconn_key_type" ∈ mainStems ∨ _)),
        b.R_eq wf _ (mem_gen _ (by simp [authStems] : "vpnconn_key_type" ∈ mainStems ∨ _)),
        b.L_eq wf _ (mem_gen _ (by simp [authStems] : "vpnconn_psk" ∈ mainStems ∨ _)),
        b.R_eq wf _ (mem_gen _ (by simp [authStems] : "vpnconn_psk" ∈ mainStems ∨ _)),
        b.L_eq wf _ (mem_gen _ (by simp [authStems] : "vpnconn_psk_own_id" ∈ mainStems ∨ _)),
        b.R_eq wf _ (mem_gen _ (by simp [authStems] : "vpnconn_psk_own_id" ∈ mainStems ∨ _)),
        b.L_eq wf _ (mem_gen _ (by simp [authStems] : "vpnconn_psk_foreign_id" ∈ mainStems ∨ _)),
        b.R_eq wf _ (mem_gen _ (by simp [authStems] : "vpnconn_psk_foreign_id" ∈ mainStems ∨ _)),
        b.L_eq wf _ (mem_gen _ (by simp [authStems] : "vpnconn_psk_own_id_type" ∈ mainStems ∨ _)),
        b.R_eq wf _ (mem_gen _ (by simp [authStems] : "vpnconn_psk_own_id_type" ∈ mainStems ∨ _)),
        b.L_eq wf _ (mem_gen _ (by simp [authStems] : "vpnconn_psk_foreign_id_type" ∈ mainStems ∨ _)),
        b.R_eq wf _ (mem_gen _ (by simp [authStems] : "vpnconn_psk_foreign_id_type" ∈ mainStems ∨ _)),
        auth_all b _ _ (by simp [authStems] : "vpnconn_key_type" ∈ authStems),
        auth_all b _ _ (by simp [authStems] : "vpnconn_psk" ∈ authStems),
        auth_all b _ _ (by simp [authStems] : "vpnconn_psk_own_id" ∈ authStems),
        auth_all b _ _ (by simp [authStems] : "vpnconn_psk_foreign_id" ∈ authStems),
        auth_all b _ _ (by simp [authStems] : "vpnconn_psk_own_id_type" ∈ authStems),
        auth_all b _ _ (by simp [authStems] : "vpnconn_psk_foreign_id_type" ∈ authStems), e, hp, hl, hr]
      simp [lastVal, k1, k2, h12, h21]

/-- **The right-hand configuration is the documented counterpart of the left-hand one**, as generated: the left
end carries the requested types, the right end carries the counterpart table of the docstring (site ↔ `custom`,
point ↔ `externalip`/`internetip`, peer always `IP`), the sides are `left`/`right`, both carry the tunnel name;
and a tunnel is only ever built for the 3 × 3 × 2 supported types. -/
theorem right_is_counterpart_generated (h : tunnelParams name node1 node2 local1 remote1 peer1 auth = .ok t)
    (wf : WF name node1 node2) :
    ∃ lt rt pt, local1.get? "type" = some lt ∧ remote1.get? "type" = some rt ∧ peer1.get? "type" = some pt ∧
      lt ∈ ["nic", "internetip", "custom"] ∧ rt ∈ ["custom", "externalip", "modeconfig"] ∧ pt ∈ ["ip", "dynip"] ∧
      t.L "vpnconn_lan_type" = some (upper lt) ∧ t.L "vpnconn_remote_type" = some (upper rt) ∧
      t.L "vpnconn_peer_type" = some (upper pt) ∧
      t.R "vpnconn_lan_type" = some (upper (counterLocal lt rt)) ∧
      t.R "vpnconn_remote_type" = some (upper (counterRemote lt)) ∧ t.R "vpnconn_peer_type" = some "IP" ∧
      t.L "vpn_side" = some "left" ∧ t.R "vpn_side" = some "right" ∧
      t.L "vpnconn" = some name ∧ t.R "vpnconn" = some name := by
  obtain ⟨b⟩ := tunnelParams_ok h
  have h12 := wf.h12
  have h21 := Ne.symm wf.h12
  obtain ⟨lt, rt, pt, hlt, hrt, hpt, hl2, hr2, hp2⟩ := variant_types b.hv
  obtain ⟨tl1, tl2, tr1, tr2, e1, e2, e3, e4, ea⟩ := mainPart_ok b.h0
  rw [hlt] at e1; rw [hl2] at e2; rw [hrt] at e3; rw [hr2] at e4
  cases e1; cases e2; cases e3; cases e4
  obtain ⟨lt', hlt', hlc⟩ := localPart_ok b.h1
  obtain ⟨rt', hrt', hrc⟩ := remotePart_ok b.h2
  obtain ⟨pt', pt2, hpt', hpt2, _, _, hpc⟩ := peerPart_ok b.h3
  rw [hlt] at hlt'; rw [hrt] at hrt'; rw [hpt] at hpt'; rw [hp2] at hpt2
  cases hlt'; cases hrt'; cases hpt'; cases hpt2
  refine ⟨lt, rt, pt, hlt, hrt, hpt, ?_, ?_, ?_, ?_⟩
  · rcases hlc with ⟨rfl, _⟩ | ⟨rfl, _⟩ | ⟨rfl, _⟩ <;> simp
  · rcases hrc with ⟨rfl, _⟩ | ⟨rfl, _⟩ | ⟨rfl, _⟩ <;> simp
  · rcases hpc with ⟨rfl, _⟩ | ⟨rfl, _⟩ <;> simp
  · simp only [b.L_eq wf _ (mem_gen _ (by simp [mainStems] : "vpnconn_lan_type" ∈ mainStems ∨ _)),
      b.R_eq wf _ (mem_gen _ (by simp [mainStems] : "vpnconn_lan_type" ∈ mainStems ∨ _)),
      b.L_eq wf _ (mem_gen _ (by simp [mainStems] : "vpnconn_remote_type" ∈ mainStems ∨ _)),
      b.R_eq wf _ (mem_gen _ (by simp [mainStems] : "vpnconn_remote_type" ∈ mainStems ∨ _)),
      b.L_eq wf _ (mem_gen _ (by simp [mainStems] : "vpn_side" ∈ mainStems ∨ _)),
      b.R_eq wf _ (mem_gen _ (by simp [mainStems] : "vpn_side" ∈ mainStems ∨ _)),
      b.L_eq wf _ (mem_gen _ (by simp [mainStems] : "vpnconn" ∈ mainStems ∨ _)),
      b.R_eq wf _ (mem_gen _ (by simp [mainStems] : "vpnconn" ∈ mainStems ∨ _)),
      b.L_eq wf _ (mem_gen _ (by simp [peerStems] : "vpnconn_peer_type" ∈ mainStems ∨ _)),
      b.R_eq wf _ (mem_gen _ (by simp [peerStems] : "vpnconn_peer_type" ∈ mainStems ∨ _)),
      main_all b _ _ (by simp [mainStems] : "vpnconn_lan_type" ∈ mainStems),
      main_all b _ _ (by simp [mainStems] : "vpnconn_remote_type" ∈ mainStems),
      main_all b _ _ (by simp [mainStems] : "vpn_side" ∈ mainStems),
      main_all b _ _ (by simp [mainStems] : "vpnconn" ∈ mainStems),
      peer_all b _ _ (by simp [peerStems] : "vpnconn_peer_type" ∈ peerStems), ea]
    rcases hpc with ⟨rfl, e⟩ | ⟨rfl, e⟩ <;> rw [e] <;> simp [lastVal, k2, h12, h21, upper]

/-- **`_get_peer_variant` is an involution up to the documented defaults.**  Applying it to the derived right triple
gives back the left triple, except that the "exotic" left values are replaced by their defaults (docstring: "Return
default parameter where the left variant has used a more exotic value"): remote `modeconfig` comes back as `custom`, a
`custom` local network without a `custom` remote comes back as `nic`, a `dynip` peer comes back as `ip`; the nic roles
come back unchanged. -/
theorem right_is_counterpart {ll lr lp rl rr rp l2 r2 p2 : SDict}
    (hv : peerVariant ll lr lp = .ok (rl, rr, rp)) (hv2 : peerVariant rl rr rp = .ok (l2, r2, p2))
    {lt rt pt : String} (hlt : ll.get? "type" = some lt) (hrt : lr.get? "type" = some rt)
    (hpt : lp.get? "type" = some pt)
    (hl : lt ∈ ["nic", "internetip", "custom"]) (hr : rt ∈ ["custom", "externalip", "modeconfig"])
    (hp : pt ∈ ["ip", "dynip"]) :
    l2.get? "type" = some (if lt = "custom" ∧ rt ≠ "custom" then "nic" else lt) ∧
    r2.get? "type" = some (if rt = "modeconfig" then "custom" else rt) ∧
    p2.get? "type" = some "ip" ∧
    (lt = "nic" → l2.get? "nic" = ll.get? "nic") ∧
    (rt = "custom" → lt ≠ "custom" → r2.get? "nic" = lr.get? "nic") ∧
    p2.get? "nic" = lp.get? "nic" := by
  obtain ⟨lt', rt', pt', h1, h2, h3, hrr, hrl, hrp⟩ := peerVariant_ok hv
  rw [hlt] at h1; rw [hrt] at h2; rw [hpt] at h3
  cases h1; cases h2; cases h3
  obtain ⟨lt2, rt2, pt2, g1, g2, g3, grr, grl, grp⟩ := peerVariant_ok hv2
  -- the types of the right triple, and of the triple derived from it, by the table
  obtain ⟨_, _, _, v1, v2, _, w1, w2, _⟩ := variant_types hv
  rw [hlt] at v1; rw [hrt] at v2; cases v1; cases v2
  obtain ⟨_, _, _, x1, x2, _, y1, y2, y3⟩ := variant_types hv2
  rw [w1] at x1; rw [w2] at x2; cases x1; cases x2
  rw [w1] at g1; rw [w2] at g2; cases g1; cases g2
  simp only [List.mem_cons, List.not_mem_nil, or_false] at hl hr hp
  refine ⟨?_, ?_, y3, ?_, ?_, ?_⟩
  · rw [y1]
    rcases hl with rfl | rfl | rfl <;> rcases hr with rfl | rfl | rfl <;> simp [counterLocal, counterRemote]
  · rw [y2]
    rcases hl with rfl | rfl | rfl <;> rcases hr with rfl | rfl | rfl <;> simp [counterLocal, counterRemote]
  · -- the nic role of a left site comes back
    rintro rfl
    have hne : counterLocal "nic" rt ≠ "custom" := by
      rcases hr with rfl | rfl | rfl <;> simp [counterLocal]
    rcases hrr with ⟨_, nic, hnic, rfl⟩ | ⟨hc, _⟩ | ⟨hc, _, _⟩
    · rcases grl with ⟨_, hc, _⟩ | ⟨_, _, nic', hn', rfl⟩ | ⟨hc, _⟩ | ⟨hc, _, _⟩
      · exact absurd hc hne
      · simp only [SDict.get?] at hn'
        simp only [show ¬ ("type" = "nic") by decide, if_false, if_true] at hn'
        rw [hnic]; cases hn'; simp [SDict.get?]
      · simp [counterRemote] at hc
      · simp [counterRemote] at hc
    · simp at hc
    · simp at hc
  · -- the nic role of a right site comes back
    rintro rfl hlc
    have hnic2 : counterLocal lt "custom" = "nic" := by simp [counterLocal, hlc]
    rcases hrl with ⟨_, hc, _⟩ | ⟨_, _, nic, hnic, rfl⟩ | ⟨hc, _⟩ | ⟨hc, _, _⟩
    · exact absurd hc hlc
    · rcases grr with ⟨_, nic', hn', rfl⟩ | ⟨hc, _⟩ | ⟨hc, _, _⟩
      · simp only [SDict.get?] at hn'
        simp only [show ¬ ("type" = "nic") by decide, if_false, if_true] at hn'
        rw [hnic]; cases hn'; simp [SDict.get?]
      · rw [hnic2] at hc; simp at hc
      · rw [hnic2] at hc; simp at hc
    · simp at hc
    · simp at hc
  · -- the nic role of the peer comes back
    rcases hrp with ⟨_, nic, hnic, rfl⟩ | ⟨hn1, hn2, _⟩
    · simp only [SDict.get?, if_true] at g3
      cases g3
      rcases grp with ⟨_, nic', hn', rfl⟩ | ⟨_, hn, _⟩
      · simp only [SDict.get?] at hn'
        simp only [show ¬ ("type" = "nic") by decide, if_false, if_true] at hn'
        rw [hnic]; cases hn'; simp [SDict.get?]
      · exact absurd rfl hn
    · rcases hp with rfl | rfl
      · exact absurd rfl hn2
      · exact absurd rfl hn1

/-- **Unsupported types are rejected** — for *every* string outside the documented sets, in any of the four
positions, whatever else is configured: no tunnel is ever produced. -/
theorem rejects_unsupported
    (hbad : (∃ lt, local1.get? "type" = some lt ∧ lt ∉ ["nic", "internetip", "custom"]) ∨
            (∃ rt, remote1.get? "type" = some rt ∧ rt ∉ ["custom", "externalip", "modeconfig"]) ∨
            (∃ pt, peer1.get? "type" = some pt ∧ pt ∉ ["ip", "dynip"]) ∨
            (∃ a ty, auth = some a ∧ a.get? "type" = some ty ∧ ty ∉ ["pubkey", "psk"])) :
    ∀ t, tunnelParams name node1 node2 local1 remote1 peer1 auth ≠ .ok t := by
  intro t h
  obtain ⟨b⟩ := tunnelParams_ok h
  rcases hbad with ⟨lt, hlt, hb⟩ | ⟨rt, hrt, hb⟩ | ⟨pt, hpt, hb⟩ | ⟨a, ty, ha, hty, hb⟩
  · have := localPart_unsupported (name := name) (node1 := node1) (node2 := node2) hlt hb
    rw [b.h1] at this; cases this
  · have := remotePart_unsupported (name := name) (node1 := node1) (node2 := node2) (local1 := local1) hrt hb
    rw [b.h2] at this; cases this
  · have := peerPart_unsupported (name := name) (node1 := node1) (node2 := node2) (peer2 := b.peer2) hpt hb
    rw [b.h3] at this; cases this
  · have := authPart_unsupported (name := name) (n1 := node1.name) (n2 := node2.name) hty hb
    rw [← ha, b.h4] at this; cases this

/-- … and the rejection is a `ValueError` as soon as the statements executed before the type test do not fail
for another reason (a key missing from one of the dictionaries is a `KeyError`, a missing nic role a
`ParamNotFound`): the tests are reached in the order local, remote, peer, auth. -/
theorem rejects_unsupported_valueError {l2 r2 p2 : SDict}
    (hv : peerVariant local1 remote1 peer1 = .ok (l2, r2, p2)) :
    (∀ lt, local1.get? "type" = some lt → lt ∉ ["nic", "internetip", "custom"] →
      tunnelParams name node1 node2 local1 remote1 peer1 auth = .error .valueError) ∧
    (∀ x rt, localPart name node1 node2 local1 = .ok x →
      remote1.get? "type" = some rt → rt ∉ ["custom", "externalip", "modeconfig"] →
      tunnelParams name node1 node2 local1 remote1 peer1 auth = .error .valueError) ∧
    (∀ x y pt, localPart name node1 node2 local1 = .ok x → remotePart name node1 node2 local1 remote1 = .ok y →
      peer1.get? "type" = some pt → pt ∉ ["ip", "dynip"] →
      tunnelParams name node1 node2 local1 remote1 peer1 auth = .error .valueError) ∧
    (∀ x y z a ty, localPart name node1 node2 local1 = .ok x → remotePart name node1 node2 local1 remote1 = .ok y →
      peerPart name node1 node2 peer1 p2 = .ok z → auth = some a → a.get? "type" = some ty →
      ty ∉ ["pubkey", "psk"] →
      tunnelParams name node1 node2 local1 remote1 peer1 auth = .error .valueError) := by
  obtain ⟨lt, rt, pt, h1, h2, h3, w1, w2, _⟩ := variant_types hv
  obtain ⟨a0, h0⟩ := mainPart_total (name := name) (n1 := node1.name) (n2 := node2.name) h1 w1 h2 w2
  refine ⟨?_, ?_, ?_, ?_⟩
  · intro lt' hlt hb
    have := localPart_unsupported (name := name) (node1 := node1) (node2 := node2) hlt hb
    simp [tunnelParams, tunnelAssignments, hv, h0, this, bind, Except.bind]
  · intro x rt' hx hrt hb
    have := remotePart_unsupported (name := name) (node1 := node1) (node2 := node2) (local1 := local1) hrt hb
    simp [tunnelParams, tunnelAssignments, hv, h0, hx, this, bind, Except.bind]
  · intro x y pt' hx hy hpt hb
    have := peerPart_unsupported (name := name) (node1 := node1) (node2 := node2) (peer2 := p2) hpt hb
    simp [tunnelParams, tunnelAssignments, hv, h0, hx, hy, this, bind, Except.bind]
  · intro x y z a ty hx hy hz ha hty hb
    have := authPart_unsupported (name := name) (n1 := node1.name) (n2 := node2.name) hty hb
    subst ha
    simp [tunnelParams, tunnelAssignments, hv, h0, hx, hy, hz, this, bind, Except.bind]

/-! ## `connects_nodes` -/

/-- Whenever both argument orders give an answer, the answers agree (for every tunnel, every pair of nodes). -/
theorem connects_agree_when_both_answer (t : Tunnel) (a b : Node) (x y : Bool)
    (h1 : t.connects a b = .ok x) (h2 : t.connects b a = .ok y) : x = y := by
  unfold Tunnel.connects at h1 h2
  revert h1 h2
  rcases t.onLeft a with e | (_ | _) <;> rcases t.onRight b with e | (_ | _) <;>
    rcases t.onRight a with e | (_ | _) <;> rcases t.onLeft b with e | (_ | _) <;>
    simp [connectsOf, andThen, bind, Except.bind, pure, Except.pure] <;>
    (intro h1 h2; rw [h1, h2])

/-- `connects_comm`, PARTIAL: the answer does not depend on the order of the two nodes provided none of the four
side tests raises (decidable hypothesis).  Without it the statement is false for the code as it is: a side test on a
`CUSTOM` side raises `IndexError` for a node owning an interface inside the custom network with another netmask, and
`A and B` evaluates it in one order only (`connects_order_witness`). -/
theorem connects_comm_partial (t : Tunnel) (a b : Node)
    (h : (isOk (t.onLeft a) && isOk (t.onRight b) && isOk (t.onRight a) && isOk (t.onLeft b)) = true) :
    t.connects a b = t.connects b a := by
  unfold Tunnel.connects
  revert h
  rcases t.onLeft a with e | (_ | _) <;> rcases t.onRight b with e | (_ | _) <;>
    rcases t.onRight a with e | (_ | _) <;> rcases t.onLeft b with e | (_ | _) <;>
    simp [isOk, connectsOf, andThen, bind, Except.bind, pure, Except.pure]

/-- the failing shape: left test of the first node and right test of the second succeed, the left test of the
second node raises — one order answers `True`, the other raises -/
theorem connects_order_witness (r1 : Except Err Bool) :
    connectsOf (.ok true) (.ok true) r1 (.error .indexError) = .ok true ∧
    connectsOf (.error .indexError) r1 (.ok true) (.ok true) = .error .indexError := by
  constructor <;> rfl

/-- **`connects_comm` for every tunnel whose left local type is not `custom`**: then neither side is `CUSTOM`, no
side test can raise, and the answer is independent of the order of the two nodes — all node pairs, all networks. -/
theorem connects_comm_noncustom (h : tunnelParams name node1 node2 local1 remote1 peer1 auth = .ok t)
    (wf : WF name node1 node2) (hl : local1.get? "type" ≠ some "custom") (a b : Node) :
    t.connects a b = t.connects b a := by
  obtain ⟨lt, rt, pt, hlt, hrt, _, hlv, hrv, _, hL, _, _, hR, _⟩ := right_is_counterpart_generated h wf
  have hlc : lt ≠ "custom" := fun hc => hl (by rw [hlt, hc])
  have hLx : upper lt ≠ "CUSTOM" := by
    simp only [List.mem_cons, List.not_mem_nil, or_false] at hlv
    rcases hlv with rfl | rfl | rfl <;> simp [upper] at hlc ⊢
  have hRx : upper (counterLocal lt rt) ≠ "CUSTOM" := by
    simp only [List.mem_cons, List.not_mem_nil, or_false] at hrv
    rcases hrv with rfl | rfl | rfl <;> simp [counterLocal, hlc, upper]
  apply connects_comm_partial
  have l := fun n => onSide_ok_of_not_custom t.left t.leftNet t.leftParams n _ hL hLx
  have r := fun n => onSide_ok_of_not_custom t.right t.rightNet t.rightParams n _ hR hRx
  simp only [Tunnel.onLeft, Tunnel.onRight, l, r, Bool.and_self]

/-! ## Non-vacuity: concrete instances (evaluated by the kernel) on which the hypotheses hold and the conclusions
are non-trivial; and the witnesses of the two statements that are false for the code as it is. -/

/-- site-to-site default tunnel: hypotheses of `lan_is_own_net`, `left_remote_is_right_net`,
`right_remote_is_left_net_partial`, `lan_remote_mirror_partial`, `lan_remote_mirror_right_to_left`,
`peers_point_at_each_other`, `right_is_counterpart_generated`, `connects_comm_noncustom` hold, and all four networks
are defined and different -/
example : ∃ t, tunnelParams "vpn1" Ex.vm1 Ex.vm2 defaultLocal defaultRemote defaultPeer none = .ok t ∧
    WF "vpn1" Ex.vm1 Ex.vm2 ∧ defaultLocal.get? "type" ≠ some "custom" ∧
    t.L "vpnconn_lan_net" = some "172.17.0.0" ∧ t.R "vpnconn_remote_net" = some "172.17.0.0" ∧
    t.R "vpnconn_lan_net" = some "172.18.0.0" ∧ t.L "vpnconn_remote_net" = some "172.18.0.0" ∧
    t.L "vpnconn_peer_ip" = some "10.2.0.1" ∧ t.R "vpnconn_peer_ip" = some "10.1.0.1" ∧
    t.L "vpnconn_lan_type" = some "NIC" ∧ t.R "vpnconn_remote_type" = some "CUSTOM" :=
  ⟨_, rfl, Ex.wf, by decide, by decide, by decide, by decide, by decide, by decide, by decide, by decide, by decide⟩

/-- WITNESS that `lan_remote_mirror` is false without the hypothesis of `lan_remote_mirror_partial`
(hypotheses of `custom_local_right_remote_absent`): left local `custom` — the left end has lan net 10.0.0.0, the
right end has remote type CUSTOM and no remote net -/
example : ∃ t, tunnelParams "vpn1" Ex.vm1 Ex.vm2 Ex.customLocal defaultRemote defaultPeer none = .ok t ∧
    WF "vpn1" Ex.vm1 Ex.vm2 ∧ Ex.customLocal.get? "type" = some "custom" ∧
    t.L "vpnconn_lan_net" = some "10.0.0.0" ∧ t.R "vpnconn_remote_type" = some "CUSTOM" ∧
    t.R "vpnconn_remote_net" = none ∧ t.L "vpnconn_lan_net" ≠ t.R "vpnconn_remote_net" :=
  ⟨_, rfl, Ex.wf, by decide, by decide, by decide, by decide, by decide⟩

/-- point-to-point road warrior with psk: hypotheses of `psk_ids_swapped` and the `dynip` branch of
`peers_point_at_each_other`; points have no networks -/
example : ∃ t, tunnelParams "vpn1" Ex.vm1 Ex.vm2 [("type", "internetip")] [("type", "externalip")]
      [("type", "dynip"), ("nic", "internet_nic")] (some Ex.pskAuth) = .ok t ∧
    Ex.pskAuth.get? "type" = some "psk" ∧
    t.L "vpnconn_psk_own_id" = some "arnold@vm1" ∧ t.R "vpnconn_psk_foreign_id" = some "arnold@vm1" ∧
    t.R "vpnconn_psk_own_id" = some "" ∧ t.L "vpnconn_psk_foreign_id_type" = some "IP" ∧
    t.R "vpnconn_psk_foreign_id_type" = some "CUSTOM" ∧
    t.L "vpnconn_peer_ip" = none ∧ t.L "vpnconn_activation" = some "PASSIVE" ∧
    t.L "vpnconn_lan_net" = none ∧ t.R "vpnconn_lan_net" = none ∧ t.leftNet = none :=
  ⟨_, rfl, by decide, by decide, by decide, by decide, by decide, by decide, by decide, by decide, by decide,
    by decide, by decide⟩

/-- `right_is_counterpart`: both applications succeed on the default (site-to-site) triple and on the
point-to-site triple, and give the left triple back -/
example : ∃ rl rr rp, peerVariant defaultLocal defaultRemote defaultPeer = .ok (rl, rr, rp) ∧
    peerVariant rl rr rp = .ok (defaultLocal, defaultRemote, defaultPeer) := ⟨_, _, _, rfl, rfl⟩
example : ∃ rl rr rp, peerVariant [("type", "internetip")] defaultRemote defaultPeer = .ok (rl, rr, rp) ∧
    rl.get? "type" = some "nic" ∧ rr.get? "type" = some "externalip" ∧
    peerVariant rl rr rp = .ok ([("type", "internetip")], defaultRemote, defaultPeer) :=
  ⟨_, _, _, rfl, by decide, by decide, rfl⟩
/-- … while for an "exotic" left triple (`modeconfig`) the derived right triple is not even an admissible input of
`_get_peer_variant` (its `nic` local has no `nic` key): the hypothesis `hv2` of `right_is_counterpart` is needed -/
example : ∃ rl rr rp, peerVariant defaultLocal [("type", "modeconfig"), ("modeconfig_ip", "172.30.0.1")] defaultPeer
      = .ok (rl, rr, rp) ∧ peerVariant rl rr rp = .error .keyError := ⟨_, _, _, rfl, rfl⟩

/-- `rejects_unsupported` / `rejects_unsupported_valueError`: an unknown local type with everything else in place -/
example : tunnelParams "vpn1" Ex.vm1 Ex.vm2 [("type", "lan"), ("nic", "lan_nic")] defaultRemote defaultPeer none
    = .error .valueError := rfl
example : ∃ pv, peerVariant [("type", "lan"), ("nic", "lan_nic")] defaultRemote defaultPeer = .ok pv := ⟨_, rfl⟩
/-- the documented authentication type `"none"` is one of the rejected strings (only `auth=None` selects NONE) -/
example : tunnelParams "vpn1" Ex.vm1 Ex.vm2 defaultLocal defaultRemote defaultPeer (some [("type", "none")])
    = .error .valueError := rfl
/-- a missing key is a `KeyError`, not a `ValueError`: `{"type": "nic"}` without `nic` (although the docstring asks
for "at least one key 'type'") -/
example : tunnelParams "vpn1" Ex.vm1 Ex.vm2 [("type", "nic")] defaultRemote defaultPeer none = .error .keyError := rfl

/-- `connects_comm_partial` / `connects_agree_when_both_answer`: the end nodes of the default tunnel are connected
in both orders, and the four side tests do not raise -/
example : ∃ t, tunnelParams "vpn1" Ex.vm1 Ex.vm2 defaultLocal defaultRemote defaultPeer none = .ok t ∧
    (isOk (t.onLeft Ex.vm1) && isOk (t.onRight Ex.vm2) && isOk (t.onRight Ex.vm1) && isOk (t.onLeft Ex.vm2)) = true ∧
    isOk (t.connects Ex.vm1 Ex.vm2) = true ∧ isOk (t.connects Ex.vm2 Ex.vm1) = true :=
  ⟨_, rfl, by decide, by decide, by decide⟩

/-! ## The regenerated model (`harness/pygen.py`)

`I2N/Extracted/GenTunnel.lean` is regenerated from the source of `VMTunnel._get_peer_variant` on every run (Python AST →
Lean `do` block, statement by statement).  The theorem below is the proof obligation that ties the hand written
`peerVariant` to it: any change of the Python's decision logic changes `genPeerVariant` and this proof stops compiling. -/

set_option linter.unusedSimpArgs false in
open I2N.Extracted.GenTunnel in
/-- **The hand written model of `_get_peer_variant` is the Python source.**  For *all* dictionaries (any keys, any
strings, missing `"type"` / `"nic"` keys included) the definition generated from /repo's source and the hand written
`peerVariant` return the same triple of dictionaries or raise the same error.  No hypotheses. -/
theorem peerVariant_matches_source (ll lr lp : SDict) : genPeerVariant ll lr lp = peerVariant ll lr lp := by
  unfold genPeerVariant peerVariant variantRemote variantLocal variantPeer SDict.getItem
  generalize ll.get? "type" = a
  generalize ll.get? "nic" = b
  generalize lr.get? "type" = c
  generalize lr.get? "nic" = d
  generalize lp.get? "type" = e
  generalize lp.get? "nic" = f
  rcases PyGen.optStr_cases3 a "nic" "internetip" "custom" with rfl | rfl | rfl | rfl | ⟨s, rfl, h1, h2, h3⟩ <;>
    (try simp (config := {zeta := false}) only [PyGen.bind_ok, PyGen.bind_error, beq_iff_eq, if_pos, if_neg, *,
      String.reduceEq, if_true, if_false]) <;>
  rcases PyGen.optStr_cases2 c "custom" "externalip" with rfl | rfl | rfl | ⟨s', rfl, h1', h2'⟩ <;>
    (try simp (config := {zeta := false}) only [PyGen.bind_ok, PyGen.bind_error, beq_iff_eq, if_pos, if_neg, *,
      String.reduceEq, if_true, if_false]) <;>
  rcases PyGen.optStr_cases2 e "dynip" "ip" with rfl | rfl | rfl | ⟨s'', rfl, h1'', h2''⟩ <;>
    (try simp (config := {zeta := false}) only [PyGen.bind_ok, PyGen.bind_error, beq_iff_eq, if_pos, if_neg, *,
      String.reduceEq, if_true, if_false]) <;>
  cases b <;> cases d <;> cases f <;>
    first | rfl | simp [PyGen.bind_ok, PyGen.bind_error, *]

open I2N.Extracted.GenTunnel in
/-- the generated definition computes (it is not stuck on anything): the default triple, and a missing key -/
example : genPeerVariant defaultLocal defaultRemote defaultPeer = .ok (defaultLocal, defaultRemote, defaultPeer) := rfl
open I2N.Extracted.GenTunnel in
example : genPeerVariant [("type", "x")] [("type", "custom")] defaultPeer = .error .keyError := rfl

end I2N.Props.C19
