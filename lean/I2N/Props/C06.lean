import I2N.Lemmas.Graph
import I2N.Lemmas.GraphResolve
/-!
# C06 — The parsed dependency graph is well formed

Part 1 (this section): the verified checker.  `Graph.wellFormed` is the function the compiled driver
`drv_graph` runs on every graph extracted from a real `TestGraph`; the theorems below say what an `ok`
means (`WF`, for graphs of any size and paths of any length) and that the witnesses printed for a failure
are genuine.
-/
namespace I2N.Props.C06
open I2N.Graph

/-- The checker is sound: an accepted graph is well formed in the sense of C06 — unique identities, every
dependency inside the graph and recorded on both ends, no cycle of any length, exactly one starting node (the
shared root) which every node reaches, exactly one same-worker/same-variant producer of exactly the required
state per required object state, one net and the parameters' vms per test, clone sources never runnable. -/
theorem wellFormed_sound (g : Graph) (h : g.wellFormed = true) : WF g :=
  I2N.Graph.wellFormed_sound g h

/-- Acyclicity needs nothing about how the rank was found: *any* labelling that strictly decreases along every
setup edge excludes cycles of every length. -/
theorem acyclic_of_rank (g : Graph) (rank : List Nat) (h : g.rankOK rank = true) : ∀ n, ¬ g.Reach n n :=
  rankOK_acyclic g rank h

/-- Along every setup path (any length) the rank strictly decreases — so the rank also bounds path lengths. -/
theorem rank_strictly_decreases (g : Graph) (rank : List Nat) (h : g.rankOK rank = true) (c a : Nat)
    (hr : g.Reach c a) : rank.getD a 0 < rank.getD c 0 :=
  rank_decreases g rank h c a hr

/-- Every node of an accepted graph other than the root has the root among its ancestors, and the root is the
only node without setup. -/
theorem reachable_from_single_root (g : Graph) (h : g.wellFormed = true) :
    ∃ r, r < g.size ∧ (∀ i, i < g.size → (g.parents i = [] ↔ i = r)) ∧
      ∀ i, i < g.size → i ≠ r → g.Reach i r := by
  obtain ⟨r, h1, h2, h3, _⟩ := (I2N.Graph.wellFormed_sound g h).single_root
  exact ⟨r, h1, h2, h3⟩

/-- In an accepted graph the two records of a dependency agree, so "reachable from the root along cleanup
edges" and "reaches the root along setup edges" are the same relation. -/
theorem edges_symmetric (g : Graph) (h : g.wellFormed = true) (e : Edge) : e ∈ g.setup ↔ e ∈ g.cleanup :=
  (I2N.Graph.wellFormed_sound g h).symmetric e

/-- Exactly one producer: the list of parents providing a required object state has length one (none missing,
none duplicated) and that parent is of the same worker, has the same object variant and provides exactly the
required state, or is the object's creation node. -/
theorem unique_producer (g : Graph) (h : g.wellFormed = true) (c : Nat) (n : Node)
    (hn : g.nodes[c]? = some n) (hf : n.flat = false) (hs : n.cloneSource = false)
    (o : Obj) (ho : o ∈ n.objs) (hg : o.get ≠ "") :
    ∃ p pn, g.parentsVia c o.oid = [p] ∧ g.nodes[p]? = some pn ∧ ProducerOK n.worker o pn :=
  (I2N.Graph.wellFormed_sound g h).unique_producer c n hn hf hs o ho hg

/-- Sources of clones are never runnable: the guard shared by the run, clean and rerun decisions is false. -/
theorem clone_sources_not_runnable (n : Node) (h : n.cloneSource = true) : n.mayRun = false := by
  simp [Node.mayRun, h]

/-! ### the failing direction: printed witnesses are genuine -/

/-- a closed walk accepted by `isCycle` is a cycle, hence the graph is not well formed -/
theorem cycle_witness_genuine (g : Graph) (a : Nat) (l : List Nat) (h : g.isWalk (a :: l ++ [a]) = true) :
    ¬ WF g :=
  fun wf => wf.acyclic a (isWalk_reach g l a a h)

/-- a reported duplicate identity is one -/
theorem duplicate_witness_genuine (g : Graph) (x : String)
    (h : findDuplicateId (g.nodes.map (·.id)) = some x) : ¬ WF g :=
  fun wf => findDuplicateId_sound _ x h wf.ids_nodup

/-- a reported one-sided edge is one -/
theorem asymmetric_witness_genuine (g : Graph) (k : String) (e : Edge)
    (h : g.findAsymmetricEdge = some (k, e)) : ¬ WF g := by
  intro wf
  unfold Graph.findAsymmetricEdge at h
  split at h
  · rename_i e' he'
    have hm := List.mem_of_find?_eq_some he'
    have hp := List.find?_some he'
    simp only [Bool.not_eq_true', List.contains_eq_mem, decide_eq_false_iff_not] at hp
    exact hp ((wf.symmetric e').mp hm)
  · rename_i hnone
    simp only [Option.map_eq_some_iff] at h
    obtain ⟨e', he', _⟩ := h
    have hm := List.mem_of_find?_eq_some he'
    have hp := List.find?_some he'
    simp only [Bool.not_eq_true', List.contains_eq_mem, decide_eq_false_iff_not] at hp
    exact hp ((wf.symmetric e').mpr hm)

/-! ### non-vacuity -/

/-- a leaf depending on the install node of its image, which hangs under the shared root -/
def demo : Graph :=
  { nodes := [
      { id := "1-leaf", worker := "net1", flat := false, sharedRoot := false, objectRoot := "", cloneSource := false,
        paramNets := ["net1"], paramVms := ["vm1"],
        objs := [⟨"nets", "net1", "N", "", "0root", ""⟩, ⟨"vms", "vm1", "V", "", "0root", ""⟩,
                 ⟨"images", "image1_vm1", "I", "install", "install", ""⟩] },
      { id := "1a1-install", worker := "net1", flat := false, sharedRoot := false, objectRoot := "I",
        cloneSource := false, paramNets := ["net1"], paramVms := ["vm1"],
        objs := [⟨"nets", "net1", "N", "", "0root", ""⟩, ⟨"vms", "vm1", "V", "", "", ""⟩,
                 ⟨"images", "image1_vm1", "I", "", "0root", "install"⟩] },
      { id := "1-noop", worker := "", flat := true, sharedRoot := true, objectRoot := "", cloneSource := false,
        paramNets := [], paramVms := [], objs := [] }],
    setup := [⟨0, 1, "I"⟩, ⟨1, 2, "I"⟩],
    cleanup := [⟨0, 1, "I"⟩, ⟨1, 2, "I"⟩] }

example : demo.wellFormed = true := by decide
example : WF demo := wellFormed_sound demo (by decide)
/-- the same graph with a back edge is rejected, and the printed witness is a checked cycle -/
example : ({ demo with setup := demo.setup ++ [⟨1, 0, "I"⟩], cleanup := demo.cleanup ++ [⟨1, 0, "I"⟩] } : Graph).wellFormed
    = false := by decide
example : ({ demo with setup := demo.setup ++ [⟨1, 0, "I"⟩] } : Graph).isCycle [0, 1, 0] = true := by decide
/-- dropping the producer edge of the leaf is rejected by the producer clause -/
example : ({ demo with setup := [⟨1, 2, "I"⟩, ⟨0, 2, "I"⟩], cleanup := [⟨1, 2, "I"⟩, ⟨0, 2, "I"⟩] } : Graph).checkProducers
    = false := by decide


/-!
# Part 2: the resolver's graphs are well formed

The same clauses for `I2N.Resolve.resolve`, the specification graph the implementation's graph is compared with
(C07): for every suite whose declared producer relation is acyclic (`RankOK`: some rank on the tests strictly
decreases along every `get` declaration), every selection, restrictions and worker set.
-/
section resolver
open I2N.Resolve

/-- acyclic, for paths of any length -/
theorem resolve_acyclic (S : Suite) (user : List (String × VLine)) (sel : List RLine) (ws : List Worker)
    (rk : Name → Nat) (hrk : RankOK S rk) : ∀ x, ¬ RReach (resolve S user sel ws) x x := by
  intro x hx
  have hedge : ∀ e ∈ (resolve S user sel ws).edges, rk e.parent.test < rk e.child.test := by
    intro e he
    obtain ⟨w, _, hew⟩ := (mem_resolve_edges S user sel ws e).mp he
    exact worker_edge_rank S user sel w rk hrk e hew
  exact Nat.lt_irrefl _ (rreach_rank _ rk hedge x x hx)

/-- no worker's copy contains a node twice; with distinct worker names neither does the whole graph contain a
(worker, node) pair of one worker in another's copy -/
theorem resolve_ids_nodup (S : Suite) (user : List (String × VLine)) (sel : List RLine) (w : Worker) :
    ((resolveWorker S user sel w).nodes.map (·.inst)).Nodup := by
  simp only [resolveWorker, List.map_map]
  exact (nodes_once_aux S (allowed S user w) sel)
where
  nodes_once_aux (S : Suite) (allow : String → List String) (sel : List RLine) :
      ((workerNodes S allow sel).map ((·.inst) ∘ fun i => ({ worker := w.name, inst := i } : GNode))).Nodup := by
    have : ((·.inst) ∘ fun i => ({ worker := w.name, inst := i } : GNode)) = id := by funext i; rfl
    rw [this, List.map_id]
    exact nodup_dedup _

/-- every dependency connects two nodes of the same worker's copy (recorded once: the resolver's single edge list
is both the setup and the cleanup record) -/
theorem resolve_edges_in_graph (S : Suite) (user : List (String × VLine)) (sel : List RLine) (w : Worker)
    (e : GEdge) (he : e ∈ (resolveWorker S user sel w).edges) :
    (∃ n ∈ (resolveWorker S user sel w).nodes, n.inst.key = e.child ∧ n.worker = e.worker) ∧
    (∃ n ∈ (resolveWorker S user sel w).nodes, n.inst.key = e.parent ∧ n.worker = e.worker) := by
  obtain ⟨hw, i, hi, hk, hp⟩ := (mem_worker_edges S user sel w e).mp he
  constructor
  · exact ⟨⟨w.name, i⟩, (mem_worker_nodes S user sel w _).mpr ⟨rfl, hi⟩, hk, hw.symm⟩
  · obtain ⟨t, ht, hr⟩ := (mem_workerNodes S _ sel i).mp hi
    obtain ⟨j, hj, hjk⟩ := reveal_closed S _ t i hr _ hp
    exact ⟨⟨w.name, j⟩, (mem_worker_nodes S user sel w _).mpr
      ⟨rfl, (mem_workerNodes S _ sel j).mpr ⟨t, ht, hj⟩⟩, hjk, hw.symm⟩

/-- unique producer: a resolved node has exactly one parent per declared object slot the configuration has a
producer for, none for the others (the parent tags are the filtered slot tags, in order), and that parent is an
instance of a declared producer composed on the node's own variant of the object's vm — see
`I2N.Props.C07.parents_sound` / `producer_same_variant` for the second half -/
theorem resolve_unique_producer (S : Suite) (allow : String → List String) (f : Nat) (t : Test) (asg : Asg)
    (i : Inst) (hi : i ∈ insts S allow (f + 1) t asg)
    (hslots : ((instSlots t asg).map (fun s => (s.vm, s.kind))).Nodup) :
    i.parents.map tag =
      ((instSlots t asg).filter (fun s => !(prods S allow f asg s).isEmpty)).map (fun s => (s.vm, s.kind)) ∧
    (i.parents.map tag).Nodup := by
  have h := insts_parent_tags S allow f t asg i hi
  exact ⟨h, h ▸ hslots.sublist (List.Sublist.map _ List.filter_sublist)⟩

/-- one net: every node of the graph belongs to exactly the one worker whose copy it is in, and so do its edges -/
theorem resolve_one_net (S : Suite) (user : List (String × VLine)) (sel : List RLine) (ws : List Worker)
    (n : GNode) (hn : n ∈ (resolve S user sel ws).nodes) : ∃ w ∈ ws, n.worker = w.name := by
  obtain ⟨w, hw, hnw⟩ := (mem_resolve_nodes S user sel ws n).mp hn
  exact ⟨w, hw, ((mem_worker_nodes S user sel w n).mp hnw).1⟩

/-- non-vacuity: the demo suite (a creation test, a two-producer group, a dependant of the whole group, a leaf) has
a rank, so all of the above applies to it -/
example : RankOK Demo.demo Demo.rk := by unfold RankOK; decide
example : ∀ x, ¬ RReach (resolve Demo.demo [] [⟨false, [[["leaves"]]]⟩] [⟨"net1", []⟩, ⟨"net2", []⟩]) x x :=
  resolve_acyclic _ _ _ _ Demo.rk (by unfold RankOK; decide)
example : (resolve Demo.demo [] [⟨false, [[["leaves"]]]⟩] [⟨"net1", []⟩, ⟨"net2", []⟩]).nodes.length = 28 := by decide

end resolver

end I2N.Props.C06
