import I2N.Lemmas.Graph
import I2N.Lemmas.GraphResolve
import I2N.Lemmas.GraphComplete
/-!
# C06 — The parsed dependency graph is well formed

Part 1 (this section): the verified checker.  `Graph.wellFormed` is the function the compiled driver
`drv_graph` runs on every graph extracted from a real `TestGraph`; the theorems below say what an `ok`
means (`WF`, for graphs of any size and paths of any length) and that the witnesses printed for a failure
are genuine.
-/
namespace I2N.Props.C06
open I2N.Graph

/-- The checker is sound: an accepted graph is well formed in the sense of C06 — unique identities, every
dependency inside the graph and recorded on both ends, no cycle of any length, exactly one starting node (the
shared root) which every node reaches, exactly one same-worker/same-variant producer of exactly the required
state per required object state, one net and the parameters' vms per test, clone sources never runnable. -/
theorem wellFormed_sound (g : Graph) (h : g.wellFormed = true) : WF g :=
  I2N.Graph.wellFormed_sound g h

/-- Acyclicity needs nothing about how the rank was found: *any* labelling that strictly decreases along every
setup edge excludes cycles of every length. -/
theorem acyclic_of_rank (g : Graph) (rank : List Nat) (h : g.rankOK rank = true) : ∀ n, ¬ g.Reach n n :=
  rankOK_acyclic g rank h

/-- Along every setup path (any length) the rank strictly decreases — so the rank also bounds path lengths. -/
theorem rank_strictly_decreases (g : Graph) (rank : List Nat) (h : g.rankOK rank = true) (c a : Nat)
    (hr : g.Reach c a) : rank.getD a 0 < rank.getD c 0 :=
  rank_decreases g rank h c a hr

/-- Every node of an accepted graph other than the root has the root among its ancestors, and the root is the
only node without setup. -/
theorem reachable_from_single_root (g : Graph) (h : g.wellFormed = true) :
    ∃ r, r < g.size ∧ (∀ i, i < g.size → (g.parents i = [] ↔ i = r)) ∧
      ∀ i, i < g.size → i ≠ r → g.Reach i r := by
  obtain ⟨r, h1, h2, h3, _⟩ := (I2N.Graph.wellFormed_sound g h).single_root
  exact ⟨r, h1, h2, h3⟩

/-- In an accepted graph the two records of a dependency agree, so "reachable from the root along cleanup
edges" and "reaches the root along setup edges" are the same relation. -/
theorem edges_symmetric (g : Graph) (h : g.wellFormed = true) (e : Edge) : e ∈ g.setup ↔ e ∈ g.cleanup :=
  (I2N.Graph.wellFormed_sound g h).symmetric e

/-- Exactly one producer: the list of parents providing a required object state has length one (none missing,
none duplicated) and that parent is of the same worker, has the same object variant and provides exactly the
required state, or is the object's creation node. -/
theorem unique_producer (g : Graph) (h : g.wellFormed = true) (c : Nat) (n : Node)
    (hn : g.nodes[c]? = some n) (hf : n.flat = false) (hs : n.cloneSource = false)
    (o : Obj) (ho : o ∈ n.objs) (hg : o.get ≠ "") :
    ∃ p pn, g.parentsVia c o.oid = [p] ∧ g.nodes[p]? = some pn ∧ ProducerOK n.worker o pn :=
  (I2N.Graph.wellFormed_sound g h).unique_producer c n hn hf hs o ho hg

/-- Sources of clones are never runnable: the guard shared by the run, clean and rerun decisions is false. -/
theorem clone_sources_not_runnable (n : Node) (h : n.cloneSource = true) : n.mayRun = false := by
  simp [Node.mayRun, h]

/-! ### the failing direction: printed witnesses are genuine -/

/-- a closed walk accepted by `isCycle` is a cycle, hence the graph is not well formed -/
theorem cycle_witness_genuine (g : Graph) (a : Nat) (l : List Nat) (h : g.isWalk (a :: l ++ [a]) = true) :
    ¬ WF g :=
  fun wf => wf.acyclic a (isWalk_reach g l a a h)

/-- a reported duplicate identity is one -/
theorem duplicate_witness_genuine (g : Graph) (x : String)
    (h : findDuplicateId (g.nodes.map (·.id)) = some x) : ¬ WF g :=
  fun wf => findDuplicateId_sound _ x h wf.ids_nodup

/-- a reported one-sided edge is one -/
theorem asymmetric_witness_genuine (g : Graph) (k : String) (e : Edge)
    (h : g.findAsymmetricEdge = some (k, e)) : ¬ WF g := by
  intro wf
  unfold Graph.findAsymmetricEdge at h
  split at h
  · rename_i e' he'
    have hm := List.mem_of_find?_eq_some he'
    have hp := List.find?_some he'
    simp only [Bool.not_eq_true', List.contains_eq_mem, decide_eq_false_iff_not] at hp
    exact hp ((wf.symmetric e').mp hm)
  · rename_i hnone
    simp only [Option.map_eq_some_iff] at h
    obtain ⟨e', he', _⟩ := h
    have hm := List.mem_of_find?_eq_some he'
    have hp := List.find?_some he'
    simp only [Bool.not_eq_true', List.contains_eq_mem, decide_eq_false_iff_not] at hp
    exact hp ((wf.symmetric e').mpr hm)

/-! ### non-vacuity -/

/-- a leaf depending on the install node of its image, which hangs under the shared root -/
def demo : Graph :=
  { nodes := [
      { id := "1-leaf", worker := "net1", flat := false, sharedRoot := false, objectRoot := "", cloneSource := false,
        paramNets := ["net1"], paramVms := ["vm1"],
        objs := [⟨"nets", "net1", "N", "", "0root", ""⟩, ⟨"vms", "vm1", "V", "", "0root", ""⟩,
                 ⟨"images", "image1_vm1", "I", "install", "install", ""⟩] },
      { id := "1a1-install", worker := "net1", flat := false, sharedRoot := false, objectRoot := "I",
        cloneSource := false, paramNets := ["net1"], paramVms := ["vm1"],
        objs := [⟨"nets", "net1", "N", "", "0root", ""⟩, ⟨"vms", "vm1", "V", "", "", ""⟩,
                 ⟨"images", "image1_vm1", "I", "", "0root", "install"⟩] },
      { id := "1-noop", worker := "", flat := true, sharedRoot := true, objectRoot := "", cloneSource := false,
        paramNets := [], paramVms := [], objs := [] }],
    setup := [⟨0, 1, "I"⟩, ⟨1, 2, "I"⟩],
    cleanup := [⟨0, 1, "I"⟩, ⟨1, 2, "I"⟩] }

example : demo.wellFormed = true := by decide
example : WF demo := wellFormed_sound demo (by decide)
/-- the same graph with a back edge is rejected, and the printed witness is a checked cycle -/
example : ({ demo with setup := demo.setup ++ [⟨1, 0, "I"⟩], cleanup := demo.cleanup ++ [⟨1, 0, "I"⟩] } : Graph).wellFormed
    = false := by decide
example : ({ demo with setup := demo.setup ++ [⟨1, 0, "I"⟩] } : Graph).isCycle [0, 1, 0] = true := by decide
/-- dropping the producer edge of the leaf is rejected by the producer clause -/
example : ({ demo with setup := [⟨1, 2, "I"⟩, ⟨0, 2, "I"⟩], cleanup := [⟨1, 2, "I"⟩, ⟨0, 2, "I"⟩] } : Graph).checkProducers
    = false := by decide


/-!
# Part 2: the resolver's graphs are well formed

The same clauses for `I2N.Resolve.resolve`, the specification graph the implementation's graph is compared with
(C07): for every suite whose declared producer relation is acyclic (`RankOK`: some rank on the tests strictly
decreases along every `get` declaration), every selection, restrictions and worker set.
-/
section resolver
open I2N.Resolve

/-- acyclic, for paths of any length -/
theorem resolve_acyclic (S : Suite) (user : List (String × VLine)) (sel : List RLine) (ws : List Worker)
    (rk : Name → Nat) (hrk : RankOK S rk) : ∀ x, ¬ RReach (resolve S user sel ws) x x := by
  intro x hx
  have hedge : ∀ e ∈ (resolve S user sel ws).edges, rk e.parent.test < rk e.child.test := by
    intro e he
    obtain ⟨w, _, hew⟩ := (mem_resolve_edges S user sel ws e).mp he
    exact worker_edge_rank S user sel w rk hrk e hew
  exact Nat.lt_irrefl _ (rreach_rank _ rk hedge x x hx)

/-- no worker's copy contains a node twice; with distinct worker names neither does the whole graph contain a
(worker, node) pair of one worker in another's copy -/
theorem resolve_ids_nodup (S : Suite) (user : List (String × VLine)) (sel : List RLine) (w : Worker) :
    ((resolveWorker S user sel w).nodes.map (·.inst)).Nodup := by
  simp only [resolveWorker, List.map_map]
  exact (nodes_once_aux S (allowed S user w) sel)
where
  nodes_once_aux (S : Suite) (allow : String → List String) (sel : List RLine) :
      ((workerNodes S allow sel).map ((·.inst) ∘ fun i => ({ worker := w.name, inst := i } : GNode))).Nodup := by
    have : ((·.inst) ∘ fun i => ({ worker := w.name, inst := i } : GNode)) = id := by funext i; rfl
    rw [this, List.map_id]
    exact nodup_dedup _

/-- every dependency connects two nodes of the same worker's copy (recorded once: the resolver's single edge list
is both the setup and the cleanup record) -/
theorem resolve_edges_in_graph (S : Suite) (user : List (String × VLine)) (sel : List RLine) (w : Worker)
    (e : GEdge) (he : e ∈ (resolveWorker S user sel w).edges) :
    (∃ n ∈ (resolveWorker S user sel w).nodes, n.inst.key = e.child ∧ n.worker = e.worker) ∧
    (∃ n ∈ (resolveWorker S user sel w).nodes, n.inst.key = e.parent ∧ n.worker = e.worker) := by
  obtain ⟨hw, i, hi, hk, hp⟩ := (mem_worker_edges S user sel w e).mp he
  constructor
  · exact ⟨⟨w.name, i⟩, (mem_worker_nodes S user sel w _).mpr ⟨rfl, hi⟩, hk, hw.symm⟩
  · obtain ⟨t, ht, hr⟩ := (mem_workerNodes S _ sel i).mp hi
    obtain ⟨j, hj, hjk⟩ := reveal_closed S _ t i hr _ hp
    exact ⟨⟨w.name, j⟩, (mem_worker_nodes S user sel w _).mpr
      ⟨rfl, (mem_workerNodes S _ sel j).mpr ⟨t, ht, hj⟩⟩, hjk, hw.symm⟩

/-- unique producer: a resolved node has exactly one parent per declared object slot the configuration has a
producer for, none for the others (the parent tags are the filtered slot tags, in order), and that parent is an
instance of a declared producer composed on the node's own variant of the object's vm — see
`I2N.Props.C07.parents_sound` / `producer_same_variant` for the second half -/
theorem resolve_unique_producer (S : Suite) (allow : String → List String) (f : Nat) (t : Test) (asg : Asg)
    (i : Inst) (hi : i ∈ insts S allow (f + 1) t asg)
    (hslots : ((instSlots t asg).map (fun s => (s.vm, s.kind))).Nodup) :
    i.parents.map tag =
      ((instSlots t asg).filter (fun s => !(prods S allow f asg s).isEmpty)).map (fun s => (s.vm, s.kind)) ∧
    (i.parents.map tag).Nodup := by
  have h := insts_parent_tags S allow f t asg i hi
  exact ⟨h, h ▸ hslots.sublist (List.Sublist.map _ List.filter_sublist)⟩

/-- one net: every node of the graph belongs to exactly the one worker whose copy it is in, and so do its edges -/
theorem resolve_one_net (S : Suite) (user : List (String × VLine)) (sel : List RLine) (ws : List Worker)
    (n : GNode) (hn : n ∈ (resolve S user sel ws).nodes) : ∃ w ∈ ws, n.worker = w.name := by
  obtain ⟨w, hw, hnw⟩ := (mem_resolve_nodes S user sel ws n).mp hn
  exact ⟨w, hw, ((mem_worker_nodes S user sel w n).mp hnw).1⟩

/-- non-vacuity: the demo suite (a creation test, a two-producer group, a dependant of the whole group, a leaf) has
a rank, so all of the above applies to it -/
example : RankOK Demo.demo Demo.rk := by unfold RankOK; decide
example : ∀ x, ¬ RReach (resolve Demo.demo [] [⟨false, [[["leaves"]]]⟩] [⟨"net1", []⟩, ⟨"net2", []⟩]) x x :=
  resolve_acyclic _ _ _ _ Demo.rk (by unfold RankOK; decide)
example : (resolve Demo.demo [] [⟨false, [[["leaves"]]]⟩] [⟨"net1", []⟩, ⟨"net2", []⟩]).nodes.length = 28 := by decide

end resolver

end I2N.Props.C06


/-!
# Part 3: the checker is complete — an exact decision procedure

`wellFormed_sound` says what an `ok` means.  The theorems below say what a `fail` means: the checker rejects a
graph only if the graph violates C06 as the checker states it (`WF'`), for graphs of any size.  `WF'` is `WF` plus
three demands the checker makes and `WF` does not state (net object first, no node its own clone, every flagged
clone source has a clone); that `WF` alone does *not* imply acceptance is proved on three concrete graphs.
-/
namespace I2N.Props.C06
open I2N.Graph

/-- `WF'` is stronger than `WF`. -/
theorem WF'_implies_WF (g : Graph) (h : WF' g) : WF g := h.toWF

/-- Completeness of the checker: every graph that is well formed in the sense of `WF'` (the clauses of `WF`, the
net object being the first object of every composite node, no node recorded as its own clone, every node flagged
as clone source having a recorded clone) is accepted — any number of nodes and edges, in particular the rank
computed by `size` relaxation rounds does strictly decrease along every edge of every acyclic graph. -/
theorem wellFormed_complete (g : Graph) (h : WF' g) : g.wellFormed = true := wellFormed_complete' g h

/-- The checker decides `WF'` exactly. -/
theorem wellFormed_iff (g : Graph) : g.wellFormed = true ↔ WF' g := wellFormed_iff' g

/-- A rejection by the Lean checker alone proves that the graph violates C06 (as stated by `WF'`). -/
theorem rejected_not_WF' (g : Graph) (h : g.wellFormed = false) : ¬ WF' g :=
  fun wf => by rw [wellFormed_complete g wf] at h; exact absurd h (by simp)

/-- A rejected graph violates `WF` itself unless the rejection is for one of the three extra demands. -/
theorem rejected_not_WF_or_extra (g : Graph) (h : g.wellFormed = false) :
    ¬ WF g ∨
    ¬ (∀ n ∈ g.nodes, n.flat = false → ∃ o rest, n.objs = o :: rest ∧ o.key = "nets") ∨
    ¬ (∀ sc ∈ g.clones, sc.1 ≠ sc.2) ∨
    ¬ (∀ i n, g.nodes[i]? = some n → n.cloneSource = true → ∃ sc ∈ g.clones, sc.1 = i) := by
  by_cases h0 : WF g
  · by_cases h1 : ∀ n ∈ g.nodes, n.flat = false → ∃ o rest, n.objs = o :: rest ∧ o.key = "nets"
    · by_cases h2 : ∀ sc ∈ g.clones, sc.1 ≠ sc.2
      · right; right; right
        intro h3
        exact rejected_not_WF' g h { toWF := h0, net_first := h1, clones_irrefl := h2, clone_flag := h3 }
      · exact Or.inr (Or.inr (Or.inl h2))
    · exact Or.inr (Or.inl h1)
  · exact Or.inl h0

/-- Completeness of the acyclicity clause on its own: if every setup edge connects two nodes of the graph and no
node is its own proper ancestor (paths of any length), then the rank computed by `size` relaxation rounds from
all-zero strictly decreases along every setup edge.  (The relaxation converges within `size` rounds on a DAG: a
value still rising in round `k+1` starts a walk of `k+1` edges, and an acyclic graph has no walk of `size` edges.) -/
theorem checkAcyclic_complete (g : Graph)
    (hr : ∀ e ∈ g.setup, e.child < g.size ∧ e.parent < g.size) (hac : ∀ n, ¬ g.Reach n n) :
    g.checkAcyclic = true := I2N.Graph.checkAcyclic_complete g hr hac

/-- the acyclicity clause decides acyclicity on graphs with in-range edges -/
theorem checkAcyclic_iff (g : Graph) (hr : ∀ e ∈ g.setup, e.child < g.size ∧ e.parent < g.size) :
    g.checkAcyclic = true ↔ ∀ n, ¬ g.Reach n n := I2N.Graph.checkAcyclic_iff g hr

/-- the in-range hypothesis of `checkAcyclic_complete` cannot be dropped: an edge from outside the graph has no
rank to decrease from -/
example : (∀ n, ¬ ({ nodes := [], setup := [⟨0, 1, "I"⟩], cleanup := [] } : Graph).Reach n n) ∧
    ({ nodes := [], setup := [⟨0, 1, "I"⟩], cleanup := [] } : Graph).checkAcyclic = false := by
  refine ⟨rankOK_acyclic _ [1, 0] (by decide), by decide⟩

/-- A graph rejected by the acyclicity clause (its edges being in range) has a cycle. -/
theorem rejected_has_cycle (g : Graph) (hrg : g.checkRange = true) (hac : g.checkAcyclic = false) :
    ∃ n, g.Reach n n := cycle_of_rejected g hrg hac

/-- The remaining clauses are decided exactly, each by its own statement. -/
theorem clauses_iff (g : Graph) :
    (g.checkIds = true ↔ (g.nodes.map (·.id)).Nodup) ∧
    (g.checkRange = true ↔
      (∀ e ∈ g.setup, e.child < g.size ∧ e.parent < g.size ∧ e.child ≠ e.parent) ∧
      (∀ e ∈ g.cleanup, e.child < g.size ∧ e.parent < g.size)) ∧
    (g.checkSymmetric = true ↔ ∀ e, e ∈ g.setup ↔ e ∈ g.cleanup) ∧
    (g.checkRoot = true ↔ g.RootOK) ∧
    (g.checkProducers = true ↔ g.ProducersOK) ∧
    (g.checkEdgeObjects = true ↔ g.EdgeObjectsOK) ∧
    (g.checkObjects = true ↔ ∀ n ∈ g.nodes, n.ObjectsOK) ∧
    (g.checkClones = true ↔ g.ClonesOK) :=
  ⟨checkIds_iff g, checkRange_iff g, checkSymmetric_iff g, checkRoot_iff g, checkProducers_iff g,
   checkEdgeObjects_iff g, checkObjects_iff g, checkClones_iff g⟩

/-! ### `WF` alone does not imply acceptance: the three gaps, each on a concrete graph -/

/-- `demo` with the vm object of the leaf listed before its net object -/
def demoNetSecond : Graph :=
  { demo with nodes := [
      { id := "1-leaf", worker := "net1", flat := false, sharedRoot := false, objectRoot := "", cloneSource := false,
        paramNets := ["net1"], paramVms := ["vm1"],
        objs := [⟨"vms", "vm1", "V", "", "0root", ""⟩, ⟨"nets", "net1", "N", "", "0root", ""⟩,
                 ⟨"images", "image1_vm1", "I", "install", "install", ""⟩] },
      { id := "1a1-install", worker := "net1", flat := false, sharedRoot := false, objectRoot := "I",
        cloneSource := false, paramNets := ["net1"], paramVms := ["vm1"],
        objs := [⟨"nets", "net1", "N", "", "0root", ""⟩, ⟨"vms", "vm1", "V", "", "", ""⟩,
                 ⟨"images", "image1_vm1", "I", "", "0root", "install"⟩] },
      { id := "1-noop", worker := "", flat := true, sharedRoot := true, objectRoot := "", cloneSource := false,
        paramNets := [], paramVms := [], objs := [] }] }

/-- `demo` with the leaf flagged as a clone source; `clones` is supplied by the two variants below -/
def demoFlagged (clones : List (Nat × Nat)) : Graph :=
  { demo with
    nodes := [
      { id := "1-leaf", worker := "net1", flat := false, sharedRoot := false, objectRoot := "", cloneSource := true,
        paramNets := ["net1"], paramVms := ["vm1"],
        objs := [⟨"nets", "net1", "N", "", "0root", ""⟩, ⟨"vms", "vm1", "V", "", "0root", ""⟩,
                 ⟨"images", "image1_vm1", "I", "install", "install", ""⟩] },
      { id := "1a1-install", worker := "net1", flat := false, sharedRoot := false, objectRoot := "I",
        cloneSource := false, paramNets := ["net1"], paramVms := ["vm1"],
        objs := [⟨"nets", "net1", "N", "", "0root", ""⟩, ⟨"vms", "vm1", "V", "", "", ""⟩,
                 ⟨"images", "image1_vm1", "I", "", "0root", "install"⟩] },
      { id := "1-noop", worker := "", flat := true, sharedRoot := true, objectRoot := "", cloneSource := false,
        paramNets := [], paramVms := [], objs := [] }],
    clones := clones }

/-- Gap 1 (`net_first`): a graph whose leaf lists its vm before its net satisfies `WF` (it has exactly one net,
equal to the `nets` parameter) and is rejected (`Node.checkObjects` demands the net *first*). -/
theorem WF_not_complete_net_first : WF demoNetSecond ∧ demoNetSecond.wellFormed = false := by
  refine ⟨WF_of_clauses _ (by decide) (by decide) (by decide) (by decide) (by decide) (by decide) (by decide)
    ?_ (checkClones_sound _ (by decide)).2, by decide⟩
  intro n hn _
  simp only [demoNetSecond, List.mem_cons, List.not_mem_nil, or_false] at hn
  rcases hn with rfl | rfl | rfl
  · exact ⟨"net1", by decide, by decide, by decide⟩
  · exact ⟨"net1", by decide, by decide, by decide⟩
  · contradiction

/-- Gap 2 (`clones_irrefl`): a node recorded as its own clone satisfies `WF.clone_sources` and is rejected. -/
theorem WF_not_complete_self_clone : WF (demoFlagged [(0, 0)]) ∧ (demoFlagged [(0, 0)]).wellFormed = false := by
  refine ⟨WF_of_clauses _ (by decide) (by decide) (by decide) (by decide) (by decide) (by decide) (by decide)
    (checkObjects_sound _ (by decide)) ?_, by decide⟩
  intro sc hsc
  simp only [demoFlagged, List.mem_cons, List.not_mem_nil, or_false] at hsc
  subst hsc
  exact ⟨_, _, rfl, rfl, by decide, by decide, by decide, by decide⟩

/-- Gap 3 (`clone_flag`): a node flagged as clone source without any recorded clone satisfies `WF` (its
`clone_sources` only speaks about recorded pairs) and is rejected. -/
theorem WF_not_complete_flag_without_clone : WF (demoFlagged []) ∧ (demoFlagged []).wellFormed = false := by
  refine ⟨WF_of_clauses _ (by decide) (by decide) (by decide) (by decide) (by decide) (by decide) (by decide)
    (checkObjects_sound _ (by decide)) ?_, by decide⟩
  intro sc hsc
  simp [demoFlagged] at hsc

/-- Hence completeness with respect to `WF` as stated is false of the checker. -/
theorem wellFormed_complete_for_WF_false : ¬ ∀ g : Graph, WF g → g.wellFormed = true := fun h => by
  have := h _ WF_not_complete_net_first.1
  rw [WF_not_complete_net_first.2] at this
  exact absurd this (by simp)

/-! ### non-vacuity -/

/-- the accepted 3-node graph satisfies `WF'` (hypothesis of `wellFormed_complete`) … -/
example : WF' demo := (wellFormed_iff demo).mp (by decide)
/-- … and the three gap graphs do not, although they satisfy `WF` -/
example : ¬ WF' demoNetSecond := rejected_not_WF' _ (by decide)
example : ¬ WF' (demoFlagged [(0, 0)]) := rejected_not_WF' _ (by decide)
example : ¬ WF' (demoFlagged []) := rejected_not_WF' _ (by decide)
/-- the 3-node graph with a back edge: rejected by the checker, therefore (no oracle, no printed witness needed)
not well formed, and it has a cycle -/
example : ¬ WF' ({ demo with setup := demo.setup ++ [⟨1, 0, "I"⟩], cleanup := demo.cleanup ++ [⟨1, 0, "I"⟩] } : Graph) :=
  rejected_not_WF' _ (by decide)
example : ∃ n, ({ demo with setup := demo.setup ++ [⟨1, 0, "I"⟩], cleanup := demo.cleanup ++ [⟨1, 0, "I"⟩] } : Graph).Reach n n :=
  rejected_has_cycle _ (by decide) (by decide)
/-- the 3-node graph with the producer edge re-routed: rejected, hence not well formed -/
example : ¬ WF' ({ demo with setup := [⟨1, 2, "I"⟩, ⟨0, 2, "I"⟩], cleanup := [⟨1, 2, "I"⟩, ⟨0, 2, "I"⟩] } : Graph) :=
  rejected_not_WF' _ (by decide)
/-- `checkAcyclic_complete` on a non-trivial instance: `demo`'s edges are in range and it is acyclic -/
example : (∀ e ∈ demo.setup, e.child < demo.size ∧ e.parent < demo.size) ∧ ∀ n, ¬ demo.Reach n n :=
  ⟨by decide, acyclic_of_rank demo [2, 1, 0] (by decide)⟩

end I2N.Props.C06
