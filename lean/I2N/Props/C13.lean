/-
C13 — Pool access respects the enabled scopes and prefers the closest source.

Theorems about the model `I2N.Pool` (`I2N/Model/Pool.lean`, the definitions `drv_pool` runs), for ALL parameter
sets `e`, ALL answers `w` of cache / mirrors / checksum comparison, ALL scope lists and ALL location lists.
The scope names and proximity weights come from `I2N.Extracted.Pool` (regenerated from /repo on every run):
if a literal moves, these proofs stop checking.
-/
import I2N.Lemmas.Pool
import I2N.Lemmas.PoolListing
import I2N.Extracted.GenPool
namespace I2N.Props.C13
open I2N.Pool

/-- the four state operations of `SourcedStateBackend` -/
inductive Op
  | show | get (state : String) | set (state : String) | unset

/-- the ordered contacts an operation makes -/
def contacts (e : Env) (w : World) (scopes : List String) (locs : List Src) : Op → List Contact
  | .show => (showOp e w scopes locs).2
  | .get st => getOp e w scopes st locs
  | .set st => (setOp e w scopes st locs).2
  | .unset => unsetOp e scopes locs

/-- "a source whose scope is enabled" (the own cache is never reached through the transport) -/
def Permitted (e : Env) (scopes : List String) (s : Src) : Prop :=
  sourceScope e s ∈ scopes ∧ sourceScope e s ≠ "own"

instance (e : Env) (scopes : List String) (s : Src) : Decidable (Permitted e scopes s) := by
  unfold Permitted; infer_instance

deriving instance DecidableEq for Except

theorem permitted_eq {e : Env} {scopes : List String} {s : Src} :
    permitted "own" e scopes s = true ↔ Permitted e scopes s := by
  rw [permitted_iff]; exact And.comm

/-! ## Scope classification and proximity -/

/-- every source gets exactly one of the four documented scopes -/
theorem scope_total (e : Env) (s : Src) : sourceScope e s ∈ Extracted.Pool.allScopes := by
  unfold sourceScope
  repeat' split
  all_goals decide

/-- what the scopes mean: behind another gateway = cluster; same gateway, another host = swarm; on this very
host the own pool path = own (unless it is also configured as the shared pool) and every other path = shared -/
theorem scope_meaning (e : Env) (s : Src) :
    (sourceScope e s = "cluster" ↔ e.gateway ≠ e.srcGateway s) ∧
    (sourceScope e s = "swarm" ↔ e.gateway = e.srcGateway s ∧ e.host ≠ e.srcHost s) ∧
    (sourceScope e s = "own" ↔ e.gateway = e.srcGateway s ∧ e.host = e.srcHost s ∧
        s.path = e.swarmPool ∧ s.path ≠ lstripColon e.sharedPool) ∧
    (sourceScope e s = "shared" ↔ e.gateway = e.srcGateway s ∧ e.host = e.srcHost s ∧
        (s.path = lstripColon e.sharedPool ∨ s.path ≠ e.swarmPool)) := by
  unfold sourceScope
  by_cases hg : e.gateway = e.srcGateway s
  · by_cases hh : e.host = e.srcHost s
    · by_cases hs : lstripColon e.sharedPool = s.path
      · simp [hg, hh, hs] <;> decide
      · by_cases ho : e.swarmPool = s.path
        · have hs' : ¬ s.path = lstripColon e.sharedPool := fun h => hs h.symm
          simp [hg, hh, hs, ho, hs'] <;> decide
        · have hs' : ¬ s.path = lstripColon e.sharedPool := fun h => hs h.symm
          have ho' : ¬ s.path = e.swarmPool := fun h => ho h.symm
          simp [hg, hh, hs, ho, hs', ho'] <;> decide
    · simp [hg, hh] <;> decide
  · simp [hg] <;> decide

/-- closeness of a source: (same gateway, same host, the own pool path), lexicographically -/
def rank (e : Env) (s : Src) : Nat :=
  (if e.gateway == e.srcGateway s then 4 else 0) + (if e.host == e.srcHost s then 2 else 0) +
  (if e.swarmPool == s.path then 1 else 0)

/-- the proximity score orders sources exactly as (same gateway, same host, own path) does lexicographically -/
theorem proximity_order (e : Env) (a b : Src) : proximity e a ≤ proximity e b ↔ rank e a ≤ rank e b := by
  unfold proximity rank
  dsimp only [Extracted.Pool.proxGateway, Extracted.Pool.proxHost, Extracted.Pool.proxSwarmPath,
    Extracted.Pool.proxOtherPath]
  repeat' split
  all_goals omega

example : proximity ⟨"gw", "h", "/own", "/sh", [("n", "gw")], [("n", "h2")]⟩ ⟨"n", "/own"⟩ = 1010 := by decide

/-- `get_sources` neither invents nor loses nor repeats a source, and lists the closest first -/
theorem sources_exact (e : Env) (locs : List Src) :
    (∀ s, s ∈ getSources e locs ↔ s ∈ locs) ∧ (getSources e locs).Nodup ∧
    (getSources e locs).Pairwise (fun a b => rank e b ≤ rank e a) := by
  refine ⟨fun s => mem_getSources, nodup_getSources e locs, ?_⟩
  exact (desc_getSources e locs).imp (fun h => (proximity_order e _ _).mp h)

/-! ## Only sources whose scope is enabled are contacted -/

/-- every transport contact of every operation goes to a listed source whose scope is enabled (and is not `own`) -/
theorem contacts_in_scope (e : Env) (w : World) (scopes : List String) (locs : List Src) (op : Op)
    (c : Contact) (s : Src) (hc : c ∈ contacts e w scopes locs op) (hs : c.source = some s) :
    s ∈ locs ∧ Permitted e scopes s := by
  cases op with
  | «show» =>
    simp only [contacts, showOp, showLoop_contacts, List.mem_append, List.mem_map, List.mem_filter] at hc
    rcases hc with hc | ⟨t, ⟨ht, hp⟩, rfl⟩
    · split at hc <;> simp at hc <;> subst hc <;> simp [Contact.source] at hs
    · simp only [Contact.source, Option.some.injEq] at hs
      subst hs
      exact ⟨mem_getSources.mp ht, permitted_eq.mp hp⟩
  | get st =>
    simp only [contacts, getOp, getLoop_eq, List.mem_append] at hc
    rcases hc with hc | hc
    · cases hf : (getSources e locs).find? (permitted Extracted.Pool.getSkip e scopes) with
      | none => simp [hf] at hc
      | some t =>
        simp only [hf] at hc
        have hp := List.find?_some hf
        have hm := mem_getSources.mp (List.mem_of_find?_eq_some hf)
        have : s = t := by
          unfold getFrom at hc
          simp only [List.mem_append, List.mem_cons, List.not_mem_nil, or_false] at hc
          rcases hc with (rfl | rfl) | hc
          · simp [Contact.source] at hs
          · simpa [Contact.source] using hs.symm
          · repeat' split at hc
            all_goals simp at hc
            all_goals (try (rcases hc with rfl | rfl)) <;> (try subst hc) <;> simpa [Contact.source] using hs.symm
        subst this
        exact ⟨hm, permitted_eq.mp hp⟩
    · split at hc <;> simp at hc <;> subst hc <;> simp [Contact.source] at hs
  | set st =>
    simp only [contacts, setOp] at hc
    have key : ∀ c, c ∈ ((getSources e locs).filter (permitted Extracted.Pool.setSkip e scopes)).map Contact.poolSet →
        c.source = some s → s ∈ locs ∧ Permitted e scopes s := by
      intro c hc hs
      simp only [List.mem_map, List.mem_filter] at hc
      obtain ⟨t, ⟨ht, hp⟩, rfl⟩ := hc
      simp only [Contact.source, Option.some.injEq] at hs
      subst hs
      exact ⟨mem_getSources.mp ht, permitted_eq.mp hp⟩
    repeat' split at hc
    all_goals simp only [List.mem_cons, List.not_mem_nil, or_false] at hc
    · rcases hc with rfl | hc
      · simp [Contact.source] at hs
      · exact key c hc hs
    · rcases hc with rfl | hc
      · simp [Contact.source] at hs
      · exact key c hc hs
    · subst hc; simp [Contact.source] at hs
  | unset =>
    simp only [contacts, unsetOp, List.mem_append, List.mem_map, List.mem_filter] at hc
    rcases hc with hc | ⟨t, ⟨ht, hp⟩, rfl⟩
    · split at hc <;> simp at hc <;> subst hc <;> simp [Contact.source] at hs
    · simp only [Contact.source, Option.some.injEq] at hs
      subst hs
      exact ⟨mem_getSources.mp ht, permitted_eq.mp hp⟩

/-- the local backend is written to (`_get/_set/_unset`), and the cache is listed by `show`, only when `own` is
enabled.  (`_show` inside `get`/`set` only *reads* the cache to decide about the download / the refusal.) -/
theorem local_only_if_own (e : Env) (w : World) (scopes : List String) (locs : List Src) (op : Op) (c : Contact)
    (hc : c ∈ contacts e w scopes locs op)
    (hl : c = .localGet ∨ c = .localSet ∨ c = .localUnset ∨ (c = .localShow ∧ op = .show)) :
    "own" ∈ scopes := by
  cases op with
  | «show» =>
    simp only [contacts, showOp, showLoop_contacts, List.mem_append, List.mem_map] at hc
    rcases hc with hc | ⟨t, _, rfl⟩
    · split at hc
      · rename_i h; simpa using h
      · simp at hc
    · simp at hl
  | get st =>
    simp only [contacts, getOp, getLoop_eq, List.mem_append] at hc
    rcases hc with hc | hc
    · cases hf : (getSources e locs).find? (permitted Extracted.Pool.getSkip e scopes) with
      | none => simp [hf] at hc
      | some t =>
        simp only [hf] at hc
        unfold getFrom at hc
        simp only [List.mem_append, List.mem_cons, List.not_mem_nil, or_false] at hc
        rcases hc with (rfl | rfl) | hc
        · simp at hl
        · simp at hl
        · repeat' split at hc
          all_goals simp at hc
          all_goals (try (rcases hc with rfl | rfl)) <;> (try subst hc) <;> simp at hl
    · split at hc
      · rename_i h; simpa using h
      · simp at hc
  | set st =>
    simp only [contacts, setOp] at hc
    repeat' split at hc
    · rename_i h; simpa using h
    · simp only [List.mem_cons, List.mem_map] at hc
      rcases hc with rfl | ⟨t, _, rfl⟩ <;> simp at hl
    · simp only [List.mem_cons, List.not_mem_nil, or_false] at hc
      subst hc; simp at hl
  | unset =>
    simp only [contacts, unsetOp, List.mem_append, List.mem_map] at hc
    rcases hc with hc | ⟨t, _, rfl⟩
    · split at hc
      · rename_i h; simpa using h
      · simp at hc
    · simp at hl

/-! ## Fetching uses the closest permitted source -/

/-- if a permitted source is listed, `get` talks to exactly one source `s`: it is listed and permitted, no
permitted listed source is closer, it is asked for its states, and no other source is contacted -/
theorem get_uses_closest (e : Env) (w : World) (scopes : List String) (st : String) (locs : List Src)
    (t : Src) (ht : t ∈ locs) (hp : Permitted e scopes t) :
    ∃ s, s ∈ locs ∧ Permitted e scopes s ∧
      (∀ u ∈ locs, Permitted e scopes u → rank e u ≤ rank e s) ∧
      (getSources e locs).find? (permitted "own" e scopes) = some s ∧
      Contact.poolShow s ∈ getOp e w scopes st locs ∧
      ∀ c ∈ getOp e w scopes st locs, ∀ u, c.source = some u → u = s := by
  cases hf : (getSources e locs).find? (permitted "own" e scopes) with
  | none =>
    have := List.find?_eq_none.mp hf t (mem_getSources.mpr ht)
    exact absurd (permitted_eq.mpr hp) this
  | some s =>
    have hps := permitted_eq.mp (List.find?_some hf)
    have hms := mem_getSources.mp (List.mem_of_find?_eq_some hf)
    refine ⟨s, hms, hps, ?_, rfl, ?_, ?_⟩
    · intro u hu hpu
      exact (proximity_order e u s).mp
        (find_desc_max (desc_getSources e locs) hf u (mem_getSources.mpr hu) (permitted_eq.mpr hpu))
    · have hf' : (getSources e locs).find? (permitted Extracted.Pool.getSkip e scopes) = some s := hf
      simp [getOp, getLoop_eq, hf', getFrom]
    · intro c hc u hu
      have h1 := contacts_in_scope e w scopes locs (.get st) c u hc hu
      have hf' : (getSources e locs).find? (permitted Extracted.Pool.getSkip e scopes) = some s := hf
      simp only [getOp, getLoop_eq, hf', List.mem_append] at hc
      rcases hc with hc | hc
      · unfold getFrom at hc
        simp only [List.mem_append, List.mem_cons, List.not_mem_nil, or_false] at hc
        rcases hc with (rfl | rfl) | hc
        · simp [Contact.source] at hu
        · simpa [Contact.source] using hu.symm
        · repeat' split at hc
          all_goals simp at hc
          all_goals (try (rcases hc with rfl | rfl)) <;> (try subst hc) <;> simpa [Contact.source] using hu.symm
      · split at hc <;> simp at hc <;> subst hc <;> simp [Contact.source] at hu

/-- the tie-break: among the listed sources (duplicates dropped) that are exactly as close as the chosen one, the
chosen one is the first permitted in the listed order (Python's sort is stable) -/
theorem get_tie_break (e : Env) (scopes : List String) (locs : List Src) (s : Src)
    (hf : (getSources e locs).find? (permitted "own" e scopes) = some s) :
    ((dedup locs).filter (fun t => proximity e t == proximity e s)).find? (permitted "own" e scopes) = some s := by
  have h := find_filter_key (key := proximity e) hf
  unfold getSources at h
  rwa [filter_sortDesc] at h

/-- if no listed source is permitted, `get` uses the transport not at all -/
theorem get_none_permitted (e : Env) (w : World) (scopes : List String) (st : String) (locs : List Src)
    (h : ∀ s ∈ locs, ¬ Permitted e scopes s) : ∀ c ∈ getOp e w scopes st locs, c.source = none := by
  intro c hc
  cases hs : c.source with
  | none => rfl
  | some s => exact absurd (contacts_in_scope e w scopes locs (.get st) c s hc hs).2
                (h s (contacts_in_scope e w scopes locs (.get st) c s hc hs).1)

/-! ## A local copy is downloaded again only when it differs from the source -/

/-- `transport.get` is called for `s` exactly when `s` is the chosen (closest permitted) source, holds the
state, and there is no local copy or the local copy differs (checksum comparison of the backing chain fails) -/
theorem download_iff_differs (e : Env) (w : World) (scopes : List String) (st : String) (locs : List Src) (s : Src) :
    Contact.poolGet s ∈ getOp e w scopes st locs ↔
      (getSources e locs).find? (permitted "own" e scopes) = some s ∧ st ∈ w.mirror s ∧
      (st ∉ w.cache ∨ w.valid s = false) := by
  have hskip : Extracted.Pool.getSkip = "own" := rfl
  simp only [getOp, getLoop_eq, hskip, List.mem_append]
  cases hf : (getSources e locs).find? (permitted "own" e scopes) with
  | none =>
    simp only [List.not_mem_nil, false_or, reduceCtorEq, false_and, iff_false]
    split <;> simp
  | some t =>
    have hl : Contact.poolGet s ∉ (if scopes.contains Extracted.Pool.getLocal = true then [Contact.localGet] else []) := by
      split <;> simp
    simp only [hl, or_false, Option.some.injEq]
    unfold getFrom
    by_cases hm : st ∈ w.mirror t <;> by_cases hcache : st ∈ w.cache <;> by_cases hv : w.valid t = true
    all_goals simp [hm, hcache, hv]
    all_goals (try (constructor <;> (intro h; (try subst h); simp_all)))
    all_goals (try (intro h; subst h; simp_all))

/-- the comparison is asked at most once and the download at most once: no contact of `get` is repeated -/
theorem get_no_repeat (e : Env) (w : World) (scopes : List String) (st : String) (locs : List Src) :
    (getOp e w scopes st locs).Nodup := by
  simp only [getOp, getLoop_eq]
  cases hf : (getSources e locs).find? (permitted Extracted.Pool.getSkip e scopes) with
  | none => dsimp only; split <;> simp
  | some t =>
    dsimp only
    unfold getFrom
    repeat' split
    all_goals simp

/-! ### what "differs from the source" means: `QCOW2ImageTransfer.compare_chain` -/

/-- the files `compare_chain` looks at are exactly: every image's file of the requested state and of each state it
is backed by, plus the vm state file of the requested state when the object is a vm -/
theorem chain_files_exact (images : List String) (isVm : Bool) (chain : List String) (f : String) :
    f ∈ chainFiles images isVm chain ↔
      ∃ st ∈ chain, (∃ i ∈ images, f = i ++ "/" ++ st ++ ".qcow2") ∨
        (isVm = true ∧ chain.head? = some st ∧ f = st ++ ".state") := by
  cases chain with
  | nil => simp [chainFiles]
  | cons first rest =>
    simp only [chainFiles, stateFiles, List.mem_flatMap, List.mem_append, List.mem_map, List.head?_cons,
      Option.some.injEq]
    constructor
    · rintro ⟨st, hst, h | h⟩
      · obtain ⟨i, hi, rfl⟩ := h
        exact ⟨st, hst, Or.inl ⟨i, hi, rfl⟩⟩
      · split at h
        · rename_i hc
          simp only [Bool.and_eq_true, beq_iff_eq] at hc
          simp only [List.mem_cons, List.not_mem_nil, or_false] at h
          exact ⟨st, hst, Or.inr ⟨hc.1, hc.2.symm, h⟩⟩
        · simp at h
    · rintro ⟨st, hst, ⟨i, hi, rfl⟩ | ⟨hv, hfirst, rfl⟩⟩
      · exact ⟨st, hst, Or.inl ⟨i, hi, rfl⟩⟩
      · refine ⟨st, hst, Or.inr ?_⟩
        simp [hv, hfirst]

/-- the cache is declared valid exactly when every file backing the state equals the source's; only files of the
chain are compared, in order, all of them when valid, and an invalid verdict is due to the last file compared -/
theorem compare_chain_exact (images : List String) (isVm : Bool) (same : String → Bool) (chain : List String) :
    ((compareChain images isVm same chain).1 = true ↔ ∀ f ∈ chainFiles images isVm chain, same f = true) ∧
    (compareChain images isVm same chain).2 <+: chainFiles images isVm chain ∧
    ((compareChain images isVm same chain).1 = true →
        (compareChain images isVm same chain).2 = chainFiles images isVm chain) ∧
    ((compareChain images isVm same chain).1 = false →
        ∃ pre f, (compareChain images isVm same chain).2 = pre ++ [f] ∧ same f = false ∧ ∀ g ∈ pre, same g = true) :=
  ⟨compareFiles_iff _ _, compareFiles_prefix _ _, compareFiles_all _ _, compareFiles_stop _ _⟩

/-- `download_iff_differs` with the checksum comparison spelled out: the state is downloaded again exactly when the
chosen source has it and the local copy is missing or at least one file of its backing chain differs -/
theorem download_iff_some_file_differs (e : Env) (w : World) (scopes : List String) (st : String) (locs : List Src)
    (s : Src) (images : List String) (isVm : Bool) (same : Src → String → Bool) (chain : List String)
    (hv : ∀ t, w.valid t = (compareChain images isVm (same t) chain).1) :
    Contact.poolGet s ∈ getOp e w scopes st locs ↔
      (getSources e locs).find? (permitted "own" e scopes) = some s ∧ st ∈ w.mirror s ∧
      (st ∉ w.cache ∨ ∃ f ∈ chainFiles images isVm chain, same s f = false) := by
  rw [download_iff_differs, hv s]
  have : (compareChain images isVm (same s) chain).1 = false ↔ ∃ f ∈ chainFiles images isVm chain, same s f = false := by
    rw [← Bool.not_eq_true, (compare_chain_exact images isVm (same s) chain).1]
    simp
  rw [this]

example : compareChain ["image1", "image2"] true (fun f => f != "image2/base.qcow2") ["s", "base"]
    = (false, ["image1/s.qcow2", "image2/s.qcow2", "s.state", "image1/base.qcow2", "image2/base.qcow2"]) := by decide
example : compareChain ["image1"] false (fun _ => true) ["s", "base"] = (true, ["image1/s.qcow2", "image1/base.qcow2"]) := by
  decide

/-- `TransferOps.compare` hands a well-formed pool path to exactly one comparator: the remote one iff a host is
named, the link one iff the local path carries a `;` (which is removed), the plain local one otherwise -/
theorem compare_route_exact (cache pool : String) (h p : List Char) (hs : splitColon pool.toList = [h, p]) :
    compareRoute cache pool =
      .ok (if h ≠ [] then .remote cache pool
           else if ';' ∈ p then .link cache (String.ofList (p.filter (· != ';')))
           else .plain cache (String.ofList p)) := by
  unfold compareRoute
  rw [hs]
  by_cases hh : h = []
  · by_cases hp : ';' ∈ p <;> simp [hh, hp]
  · simp [hh]

example : compareRoute "/c/f" ":/pool;/f" = .ok (.link "/c/f" "/pool/f") ∧
    compareRoute "/c/f" "host:/pool/f" = .ok (.remote "/c/f" "host:/pool/f") ∧
    compareRoute "/c/f" ":/pool/f" = .ok (.plain "/c/f" "/pool/f") ∧ compareRoute "/c/f" "/pool/f" = .error .valueError := by
  decide

/-! ## Saving and removing reach every permitted mirror -/

/-- a successful `set` first saves/looks up the local state and then updates exactly the permitted listed
sources, each once, closest first, and nothing else -/
theorem set_reaches_all (e : Env) (w : World) (scopes : List String) (st : String) (locs : List Src)
    (hok : (setOp e w scopes st locs).1 = .ok ()) :
    ∃ (first : Contact) (targets : List Src), (setOp e w scopes st locs).2 = first :: targets.map Contact.poolSet ∧
      first.source = none ∧ targets.Nodup ∧ (∀ s, s ∈ targets ↔ s ∈ locs ∧ Permitted e scopes s) ∧
      targets.Pairwise (fun a b => rank e b ≤ rank e a) := by
  have hn := (nodup_getSources e locs).filter (permitted "own" e scopes)
  have hm : ∀ s, s ∈ (getSources e locs).filter (permitted "own" e scopes) ↔ s ∈ locs ∧ Permitted e scopes s := by
    intro s; rw [List.mem_filter, mem_getSources, permitted_eq]
  have hd := ((sources_exact e locs).2.2).filter (permitted "own" e scopes)
  simp only [setOp] at hok ⊢
  split
  · exact ⟨.localSet, _, rfl, rfl, hn, hm, hd⟩
  · split
    · exact ⟨.localShow, _, rfl, rfl, hn, hm, hd⟩
    · simp_all

/-- `unset` removes the local state iff `own` is enabled and then removes the state from exactly the permitted
listed sources, each once, and nothing else -/
theorem unset_reaches_all (e : Env) (scopes : List String) (locs : List Src) :
    ∃ targets : List Src, unsetOp e scopes locs =
        (if "own" ∈ scopes then [Contact.localUnset] else []) ++ targets.map Contact.poolUnset ∧
      targets.Nodup ∧ (∀ s, s ∈ targets ↔ s ∈ locs ∧ Permitted e scopes s) := by
  refine ⟨(getSources e locs).filter (permitted "own" e scopes), ?_,
    (nodup_getSources e locs).filter _, ?_⟩
  · simp [unsetOp]
  · intro s; rw [List.mem_filter, mem_getSources, permitted_eq]

/-! ## Updating a pool without the local state is refused -/

/-- without `own` and without the local state `set` raises "Updating state pool requires local states" having
only read the cache — no mirror is contacted -/
theorem update_refused (e : Env) (w : World) (scopes : List String) (st : String) (locs : List Src)
    (hown : "own" ∉ scopes) (hst : st ∉ w.cache) :
    setOp e w scopes st locs = (.error .noLocalState, [.localShow]) := by
  simp [setOp, hown, hst]

/-- and that is the only way `set` fails -/
theorem set_ok_iff (e : Env) (w : World) (scopes : List String) (st : String) (locs : List Src) :
    (setOp e w scopes st locs).1 = .ok () ↔ ("own" ∈ scopes ∨ st ∈ w.cache) := by
  unfold setOp
  by_cases h1 : "own" ∈ scopes <;> by_cases h2 : st ∈ w.cache <;> simp [h1, h2]

/-! ## A state is reported present only if it is in the local cache or in permitted sources -/

theorem show_sound (e : Env) (w : World) (scopes : List String) (locs : List Src) (x : String)
    (hx : x ∈ (showOp e w scopes locs).1) :
    ("own" ∈ scopes ∧ x ∈ w.cache) ∨ ∃ s, s ∈ locs ∧ Permitted e scopes s ∧ x ∈ w.mirror s := by
  simp only [showOp, List.mem_append] at hx
  rcases hx with hx | hx
  · split at hx
    · rename_i h; exact Or.inl ⟨by simpa using h, hx⟩
    · simp at hx
  · rcases showLoop_sound e w scopes _ [] x hx with h | ⟨s, hs, hp, hm⟩
    · simp at h
    · exact Or.inr ⟨s, mem_getSources.mp hs, permitted_eq.mp hp, hm⟩

/-- with `own` enabled every cached state is listed -/
theorem show_lists_cache (e : Env) (w : World) (scopes : List String) (locs : List Src) (x : String)
    (hown : "own" ∈ scopes) (hx : x ∈ w.cache) : x ∈ (showOp e w scopes locs).1 := by
  simp [showOp, hown, hx]

/-- malformed location lists (an entry without exactly one colon) are rejected before anything is contacted -/
theorem malformed_no_contact (e : Env) (w : World) (scopes : List String) (st : String) (locs : List String)
    (h : parseAll locs = none) :
    showRaw e w scopes locs = (.error .valueError, []) ∧ getRaw e w scopes st locs = (.error .valueError, []) ∧
    setRaw e w scopes st locs = (.error .valueError, []) ∧ unsetRaw e scopes locs = (.error .valueError, []) := by
  simp [showRaw, getRaw, setRaw, unsetRaw, h]

/-! ## The root backend (`RootSourcedStateBackend`): local root ↔ `own`, the shared pool ↔ `shared` -/

inductive RootOp
  | check | get | set | unset

def rootContacts (rw : RootWorld) (scopes : List String) : RootOp → List RContact
  | .check => (checkRoot rw scopes).2
  | .get => getRoot rw scopes
  | .set => (setRoot rw scopes).2
  | .unset => (unsetRoot scopes).2

/-- the configurations in which the root operations respect the `shared` scope: the pool is switched off
altogether (`pool_scope = own`) or `shared` is enabled.  Outside of it the statement is FALSE of the code as it
is (finding `root-pool-contact-without-shared-scope`, witnesses below). -/
def RootScopeOk (scopes : List String) : Prop := scopes = ["own"] ∨ "shared" ∈ scopes

instance (scopes : List String) : Decidable (RootScopeOk scopes) := by unfold RootScopeOk; infer_instance

/-- PARTIAL: the shared pool is contacted by a root operation only if `shared` is enabled — proved under
`RootScopeOk`.  Missing for the full statement: `check_root` and `get_root` test `pool_scope == "own"` /
`"own" not in pool_scope` instead of `"shared" in pool_scope`, so e.g. `pool_scope = own swarm` still lists the
shared pool and downloads from it. -/
theorem root_pool_in_scope_partial (rw : RootWorld) (scopes : List String) (op : RootOp) (h : RootScopeOk scopes)
    (c : RContact) (hc : c ∈ rootContacts rw scopes op) (hp : c.isPool = true) : "shared" ∈ scopes := by
  rcases h with rfl | h
  · have hin : inScopeString Extracted.Pool.getRootNotIn ["own"] = true := by decide
    cases op <;>
      simp [rootContacts, checkRoot, getRoot, setRoot, unsetRoot, hin] at hc <;>
      subst hc <;> simp [RContact.isPool] at hp
  · exact h

/-- the full statement fails on the model exactly as on the code: `shared` disabled, yet the pool is listed,
believed, and downloaded from -/
example : ¬ RootScopeOk ["own", "swarm", "cluster"] := by decide
example : checkRoot ⟨false, true, [true], false⟩ ["own", "swarm", "cluster"] = (true, [.localCheck, .poolCheck]) := by
  decide
example : getRoot ⟨false, true, [true], false⟩ ["own", "swarm", "cluster"]
    = [.localCheck, .poolCheck, .poolGet, .localGet] := by decide
example : getRoot ⟨false, true, [true], false⟩ ["swarm", "cluster"] = [.poolGet] := by decide

/-- for the scope names of the property, `"own" in pool_scope` (a substring test) means what it should -/
theorem own_substring_exact (scopes : List String) (hsub : ∀ t ∈ scopes, t ∈ Extracted.Pool.allScopes) :
    inScopeString "own" scopes = true ↔ "own" ∈ scopes := by
  have key : ∀ t ∈ Extracted.Pool.allScopes, isInfixChars "own".toList t.toList = true → t = "own" := by decide
  have own : isInfixChars "own".toList "own".toList = true := by decide
  simp only [inScopeString, List.any_eq_true]
  constructor
  · rintro ⟨t, ht, hi⟩
    exact key t (hsub t ht) hi ▸ ht
  · intro h; exact ⟨"own", h, own⟩

/-- outside these names it does not: `pool_scope = owner` counts as containing `own` -/
example : inScopeString "own" ["owner"] = true ∧ "own" ∉ ["owner"] := by decide

/-- the local root is written (`_get_root/_set_root/_unset_root`) only if `own` is enabled -/
theorem root_local_only_if_own (rw : RootWorld) (scopes : List String) (op : RootOp)
    (hsub : ∀ t ∈ scopes, t ∈ Extracted.Pool.allScopes) (c : RContact) (hc : c ∈ rootContacts rw scopes op)
    (hl : c = .localGet ∨ c = .localSet ∨ c = .localUnset) : "own" ∈ scopes := by
  cases op with
  | check =>
    simp only [rootContacts, checkRoot] at hc
    split at hc <;> simp at hc <;> rcases hc with rfl | rfl <;> simp at hl
  | get =>
    simp only [rootContacts, getRoot] at hc
    split at hc
    · simp at hc; subst hc; simp at hl
    · rename_i hin
      have : inScopeString "own" scopes = true := by simpa using hin
      exact (own_substring_exact scopes hsub).mp this
  | set =>
    simp only [rootContacts, setRoot] at hc
    split at hc
    · rename_i h; simp at h; simp [h]
    · split at hc
      · split at hc <;> simp at hc
        · rcases hc with rfl | rfl <;> simp at hl
        · subst hc; simp at hl
      · simp at hc
  | unset =>
    simp only [rootContacts, unsetRoot] at hc
    split at hc
    · rename_i h; simp at h; simp [h]
    · split at hc <;> simp at hc
      subst hc; simp at hl

/-- updating the pool root without `own` and without a local root is refused, the pool untouched -/
theorem root_update_refused (rw : RootWorld) (scopes : List String) (hown : "own" ∉ scopes)
    (hl : rw.localRoot = false) :
    (setRoot rw scopes).1 ≠ .ok () ∧ ∀ c ∈ (setRoot rw scopes).2, c.isPool = false := by
  unfold setRoot
  split
  · rename_i h; simp at h; simp [h] at hown
  · split
    · simp [hl, RContact.isPool]
    · simp

/-- a successful `set_root` / `unset_root` reaches exactly the enabled places (they succeed only for
`pool_scope = own` and `pool_scope = shared`; every other value is refused with "Invalid pool scope" before
anything is contacted) -/
theorem root_set_unset_exact (rw : RootWorld) (scopes : List String) :
    ((setRoot rw scopes).1 = .ok () →
        (RContact.poolSet ∈ (setRoot rw scopes).2 ↔ "shared" ∈ scopes) ∧
        (RContact.localSet ∈ (setRoot rw scopes).2 ↔ "own" ∈ scopes)) ∧
    ((unsetRoot scopes).1 = .ok () →
        (RContact.poolUnset ∈ (unsetRoot scopes).2 ↔ "shared" ∈ scopes) ∧
        (RContact.localUnset ∈ (unsetRoot scopes).2 ↔ "own" ∈ scopes)) ∧
    ((setRoot rw scopes).1 = .error .invalidScope → (setRoot rw scopes).2 = []) ∧
    ((unsetRoot scopes).1 = .error .invalidScope → (unsetRoot scopes).2 = []) := by
  unfold setRoot unsetRoot
  refine ⟨?_, ?_, ?_, ?_⟩
  · split
    · rename_i h; simp at h; subst h; intro _; decide
    · split
      · rename_i h; simp at h; subst h
        cases rw.localRoot <;> simp <;> decide
      · simp
  · split
    · rename_i h; simp at h; subst h; intro _; decide
    · split
      · rename_i h; simp at h; subst h; intro _; decide
      · simp
  · repeat' split
    all_goals simp
  · repeat' split
    all_goals simp

/-- with `own` and `shared` enabled the root is downloaded exactly when the pool has it and there is no local
root or some image differs from the pool's -/
theorem root_download_iff_differs (rw : RootWorld) (scopes : List String)
    (hsub : ∀ t ∈ scopes, t ∈ Extracted.Pool.allScopes) (hown : "own" ∈ scopes) (hsh : "shared" ∈ scopes) :
    RContact.poolGet ∈ getRoot rw scopes ↔
      rw.poolRoot = true ∧ (rw.localRoot = false ∨ rw.valid.all id = false) := by
  have hin : inScopeString Extracted.Pool.getRootNotIn scopes = true := (own_substring_exact scopes hsub).mpr hown
  have hne : (scopes == [Extracted.Pool.getRootLocal]) = false := by
    cases h : scopes == [Extracted.Pool.getRootLocal] with
    | false => rfl
    | true => simp at h; subst h; simp at hsh; exact absurd hsh (by decide)
  have hcmp : RContact.poolGet ∉ (compareLoop rw.valid 0).1 := by
    intro h; obtain ⟨k, hk⟩ := compareLoop_contacts _ _ _ h; cases hk
  simp only [getRoot, hin, hne, Bool.not_true, Bool.false_eq_true, if_false]
  cases hp : rw.poolRoot <;> cases hl : rw.localRoot <;> simp [compareLoop_valid, hcmp]

/-- PARTIAL (same restriction): the root is reported present only if it is local or in the enabled shared pool -/
theorem check_root_sound_partial (rw : RootWorld) (scopes : List String) (h : RootScopeOk scopes)
    (hr : (checkRoot rw scopes).1 = true) : rw.localRoot = true ∨ ("shared" ∈ scopes ∧ rw.poolRoot = true) := by
  unfold checkRoot at hr
  split at hr
  · exact Or.inl hr
  · rename_i hne
    rcases h with rfl | h
    · simp at hne
    · simp only [Bool.or_eq_true, Bool.and_eq_true] at hr
      rcases hr with hr | hr
      · exact Or.inl hr
      · exact Or.inr ⟨h, hr.1⟩

/-! ## Non-vacuity: one concrete world that meets the hypotheses of the theorems above

Worker `net1` behind gateway `gw1` on host `h1`, own pool `/own`, shared pool `/shared`; listed sources: a worker
behind another gateway, one on another host, the shared pool, the own pool (twice). -/

def exEnv : Env := ⟨"gw1", "h1", "/own", "/shared", [("net3", "gw1"), ("net4", "gw2")], [("net3", "h2"), ("net4", "h3")]⟩
def exLocs : List Src := [⟨"net4", "/own"⟩, ⟨"net3", "/own"⟩, ⟨"", "/shared"⟩, ⟨"", "/own"⟩, ⟨"", "/own"⟩]
def exWorld : World := ⟨["s"], fun s => if s.net == "net4" then [] else ["s", "t"], fun _ => false⟩

example : getSources exEnv exLocs = [⟨"", "/own"⟩, ⟨"", "/shared"⟩, ⟨"net3", "/own"⟩, ⟨"net4", "/own"⟩] := by decide
example : exLocs.map (sourceScope exEnv) = ["cluster", "swarm", "shared", "own", "own"] := by decide
/-- `contacts_in_scope`, `get_uses_closest`, `download_iff_differs`: the shared pool is the closest permitted
source (the own pool is skipped), the local copy differs, so it is downloaded; nothing else is contacted -/
example : getOp exEnv exWorld ["own", "swarm", "cluster", "shared"] "s" exLocs
    = [.localShow, .poolShow ⟨"", "/shared"⟩, .poolCompare ⟨"", "/shared"⟩, .poolGet ⟨"", "/shared"⟩, .localGet] := by
  decide
example : (⟨"", "/shared"⟩ : Src) ∈ exLocs ∧ Permitted exEnv ["own", "swarm", "cluster", "shared"] ⟨"", "/shared"⟩ := by
  decide
/-- `get_tie_break`: two equally close sources on the other host — the one listed first is used -/
example : getOp exEnv exWorld ["swarm"] "s" [⟨"net3", "/b"⟩, ⟨"", "/own"⟩, ⟨"net3", "/a"⟩]
    = [.localShow, .poolShow ⟨"net3", "/b"⟩, .poolCompare ⟨"net3", "/b"⟩, .poolGet ⟨"net3", "/b"⟩] := by decide
/-- with `shared` disabled the next closest permitted source is the worker on the other host -/
example : getOp exEnv exWorld ["swarm", "cluster"] "s" exLocs
    = [.localShow, .poolShow ⟨"net3", "/own"⟩, .poolCompare ⟨"net3", "/own"⟩, .poolGet ⟨"net3", "/own"⟩] := by decide
/-- `get_none_permitted` -/
example : (∀ s ∈ exLocs, ¬ Permitted exEnv ["own"] s) ∧ getOp exEnv exWorld ["own"] "s" exLocs = [.localGet] := by
  decide
/-- `set_reaches_all`, `set_ok_iff`: three mirrors, each once, closest first -/
example : setOp exEnv exWorld ["swarm", "cluster", "shared"] "s" exLocs
    = (.ok (), [.localShow, .poolSet ⟨"", "/shared"⟩, .poolSet ⟨"net3", "/own"⟩, .poolSet ⟨"net4", "/own"⟩]) := by decide
/-- `update_refused` -/
example : "own" ∉ ["shared"] ∧ "u" ∉ exWorld.cache ∧
    setOp exEnv exWorld ["shared"] "u" exLocs = (.error .noLocalState, [.localShow]) := by decide
/-- `unset_reaches_all`, `local_only_if_own` -/
example : unsetOp exEnv ["own", "cluster"] exLocs = [.localUnset, .poolUnset ⟨"net4", "/own"⟩] := by decide
/-- `show_sound`, `show_lists_cache` -/
example : showOp exEnv exWorld ["own", "swarm", "shared"] exLocs
    = (["s", "s", "t"], [.localShow, .poolShow ⟨"", "/shared"⟩, .poolShow ⟨"net3", "/own"⟩]) := by decide
/-- `malformed_no_contact` -/
example : parseAll ["net2:/a:/b"] = none ∧ parseAll ["/nocolon"] = none ∧ parseAll [":/ok"] = some [⟨"", "/ok"⟩] := by
  decide
/-- root theorems: hypotheses met -/
example : RootScopeOk ["own", "shared"] ∧ (∀ t ∈ ["own", "shared"], t ∈ Extracted.Pool.allScopes) ∧
    getRoot ⟨true, true, [true, false, true], false⟩ ["own", "shared"]
      = [.localCheck, .poolCheck, .poolCompare 0, .poolCompare 1, .poolGet, .localGet] := by decide
example : setRoot ⟨false, true, [], false⟩ ["shared"] = (.error .noLocalState, [.localCheck]) := by decide

/-- Observation (not a violation of C13 as worded): `show` restarts its intersection when the accumulator is
empty, so a state held only by a *farther* permitted mirror is listed although the closest one — the only one
`get` will ask — lacks it. -/
example : (showOp exEnv ⟨[], fun s => if s.net == "" then [] else ["s"], fun _ => true⟩ ["swarm", "shared"] exLocs).1 = ["s"] ∧
    getOp exEnv ⟨[], fun s => if s.net == "" then [] else ["s"], fun _ => true⟩ ["swarm", "shared"] "s" exLocs
      = [.localShow, .poolShow ⟨"", "/shared"⟩] := by decide

/-! ## the transport's directory listing (`QCOW2ImageTransfer.show`)

What the pools report as the states of a mirror is computed from a raw directory listing, which also holds lock files
(`<state>.qcow2.lock`, left behind by every locked transfer), the image sub-directories of a vm and anything else. -/

/-- a name is reported for a mirror exactly if some directory entry maps to it -/
theorem transfer_show_exact (isImage : Bool) (listing : List String) (x : String) :
    x ∈ transferShow isImage listing ↔ ∃ p ∈ listing, entryName (showFormat isImage) p = x := by
  simp [transferShow]

/-- the state file of a state maps to the state: `<s>.qcow2 ↦ s`, `<s>.state ↦ s` (names without a dot; dotted names of
the shipped suite are covered by the examples below) -/
theorem state_file_listed (isImage : Bool) (s : String) (hs : '.' ∉ s.toList) :
    entryName (showFormat isImage) (s ++ showFormat isImage) = s := by
  cases isImage
  · rw [show showFormat false = ".state" from rfl, entryName_append ".state" s ".state" '.' ['s','t','a','t','e'] (by decide) hs]
    have : removeAllF ".state".toList ".state".length ".state".toList = [] := by decide
    rw [this]; simp
  · rw [show showFormat true = ".qcow2" from rfl, entryName_append ".qcow2" s ".qcow2" '.' ['q','c','o','w','2'] (by decide) hs]
    have : removeAllF ".qcow2".toList ".qcow2".length ".qcow2".toList = [] := by decide
    rw [this]; simp

/-- the lock file a transfer leaves next to a state file never counts as the state: `<s>.qcow2.lock ↦ <s>.lock ≠ s` -/
theorem lock_file_not_a_state (isImage : Bool) (s : String) (hs : '.' ∉ s.toList) :
    entryName (showFormat isImage) (s ++ (showFormat isImage ++ ".lock")) = s ++ ".lock" ∧
    entryName (showFormat isImage) (s ++ (showFormat isImage ++ ".lock")) ≠ s := by
  have key : entryName (showFormat isImage) (s ++ (showFormat isImage ++ ".lock")) = s ++ ".lock" := by
    cases isImage
    · rw [show showFormat false = ".state" from rfl,
        entryName_append ".state" s (".state" ++ ".lock") '.' ['s','t','a','t','e'] (by decide) hs]
      have : removeAllF ".state".toList (".state" ++ ".lock").length (".state" ++ ".lock").toList = ".lock".toList := by decide
      rw [this]; simp
    · rw [show showFormat true = ".qcow2" from rfl,
        entryName_append ".qcow2" s (".qcow2" ++ ".lock") '.' ['q','c','o','w','2'] (by decide) hs]
      have : removeAllF ".qcow2".toList (".qcow2" ++ ".lock").length (".qcow2" ++ ".lock").toList = ".lock".toList := by decide
      rw [this]; simp
  refine ⟨key, ?_⟩
  rw [key]
  intro h
  have := congrArg String.length h
  simp at this

example : transferShow true ["launch.qcow2", "launch.qcow2.lock", "b.qcow2.lock", "guisetup.noop.qcow2"]
    = ["launch", "launch.lock", "b.lock", "guisetup.noop"] := by decide
example : transferShow false ["image1", "launch.state", "launch.state.lock"] = ["image1", "launch", "launch.lock"] := by decide
example : '.' ∉ "launch".toList := by decide

/-! ## The regenerated scope decision (`harness/pygen.py`)

`I2N/Extracted/GenPool.lean` is regenerated on every run from the source of `SourcedStateBackend.get_source_scope`
(Python AST → Lean, branch by branch; the six parameter reads are bound to the fields of `Env` / `Src` the model uses).
`I2N.Extracted.Pool` already pins the five returned literals; this pins the *control flow* as well. -/

open I2N.Extracted.GenPool in
/-- **The hand written `sourceScope` is the Python source of `get_source_scope`**: same answer for all parameter
sets and all sources.  No hypotheses. -/
theorem sourceScope_matches_source (e : Env) (s : Src) : genSourceScope e s = sourceScope e s := by
  unfold genSourceScope sourceScope
  by_cases h1 : e.gateway = e.srcGateway s <;> by_cases h2 : e.host = e.srcHost s <;>
    by_cases h3 : lstripColon e.sharedPool = s.path <;> by_cases h4 : e.swarmPool = s.path <;>
    simp [h1, h2, h3, h4, bne]

open I2N.Extracted.GenPool in
/-- the generated definition computes: a source behind another gateway, and the own pool's path -/
example : genSourceScope ⟨"gw1", "h1", "/own", "/shared", [("far", "gw2")], []⟩ ⟨"far", "/own"⟩ = "cluster" ∧
    genSourceScope ⟨"gw1", "h1", "/own", ":/shared", [], []⟩ ⟨"", "/own"⟩ = "own" ∧
    genSourceScope ⟨"gw1", "h1", "/own", ":/shared", [], []⟩ ⟨"", "/shared"⟩ = "shared" := by decide

open I2N.Extracted.GenPool in
/-- **The hand written `proximity` is the Python source of the sort key of `get_sources`**: same score for all
parameter sets and all sources (the generated definition counts in Python's unbounded integers, the model in `Nat`).
No hypotheses. -/
theorem proximity_matches_source (e : Env) (s : Src) : genProximity e s = (proximity e s : Int) := by
  unfold genProximity proximity
  by_cases h1 : e.gateway = e.srcGateway s <;> by_cases h2 : e.host = e.srcHost s <;>
    by_cases h3 : e.swarmPool = s.path <;>
    simp [h1, h2, h3, I2N.Extracted.Pool.proxGateway, I2N.Extracted.Pool.proxHost, I2N.Extracted.Pool.proxSwarmPath,
      I2N.Extracted.Pool.proxOtherPath]

open I2N.Extracted.GenPool in
/-- the generated key computes: own pool of the same host, and a foreign gateway -/
example : genProximity ⟨"gw1", "h1", "/own", ":/shared", [], []⟩ ⟨"", "/own"⟩ = 1110 ∧
    genProximity ⟨"gw1", "h1", "/own", "/shared", [("far", "gw2")], [("far", "h2")]⟩ ⟨"far", "/x"⟩ = 1 := by decide

end I2N.Props.C13
