import I2N.Model.Pool
namespace I2N.Props.C13
theorem placeholder : True := trivial
end I2N.Props.C13
