import I2N.Model.Show
import I2N.Lemmas.Show
import I2N.Extracted.Show
import I2N.Extracted.GenShow
import I2N.Lemmas.GenShow
/-!
C17 — A vm state exists exactly when all of the vm's images have it.

Part A: the combination of the per-image lists in `QCOW2VTBackend.show` (`vtShow`) and
`RamfileBackend._show` (`ramShow`) is the intersection, for any number (≥ 1) of images and any
order of the images and of their lists.
Part B: the two regexes tell off snapshots (vm size `0 B`) and vm states (any other size) of a
`qemu-img snapshot -l` listing apart (`on_off_partition`); their sources are pinned to /repo.
-/
namespace I2N.Props.C17
open I2N.Show

/-! ## Part A — combination -/

/-- `QCOW2VTBackend.show`: a state is listed exactly when every image has it (any number ≥ 1 of images,
duplicates and order within the lists irrelevant). -/
theorem show_is_intersection (imgs : List (List Name)) (h : imgs ≠ []) (x : Name) :
    x ∈ vtShow imgs ↔ ∀ l ∈ imgs, x ∈ l := by
  cases imgs with
  | nil => exact absurd rfl h
  | cons first rest => exact mem_vtShow_cons first rest x

example : vtShow [["a".toList, "b".toList, "c".toList], ["c".toList, "a".toList], ["a".toList, "d".toList, "c".toList]]
    = ["a".toList, "c".toList] := by decide

/-- F1 regression witness (second half): the first image has no states, the second has `a` — nothing is listed. -/
example : vtShow [[], ["a".toList]] = [] := by decide

/-- the result is the first image's list, in its order, filtered by all other images -/
theorem show_keeps_first_order (first : List Name) (rest : List (List Name)) :
    vtShow (first :: rest) = first.filter (fun s => rest.all (fun img => img.contains s)) :=
  vtShow_cons first rest

example : vtShow [["b".toList, "a".toList], ["a".toList, "b".toList]] = ["b".toList, "a".toList] := by decide

/-- without images nothing is listed (the code's `states if states is not None else []`) -/
theorem show_no_images : vtShow [] = [] := rfl

/-- the order of the images is irrelevant for what is listed -/
theorem show_image_order (imgs imgs' : List (List Name)) (hp : imgs.Perm imgs') (x : Name) :
    x ∈ vtShow imgs ↔ x ∈ vtShow imgs' := by
  cases imgs with
  | nil => rw [List.nil_perm.mp hp]
  | cons a as =>
    have hne : imgs' ≠ [] := by
      intro e; subst e; exact absurd (List.perm_nil.mp hp) (by simp)
    rw [show_is_intersection _ (by simp) x, show_is_intersection _ hne x]
    exact ⟨fun h l hl => h l (hp.mem_iff.mpr hl), fun h l hl => h l (hp.mem_iff.mp hl)⟩

example : ([["a".toList], ["a".toList, "b".toList]] : List (List Name)).Perm [["a".toList, "b".toList], ["a".toList]] :=
  List.Perm.swap _ _ _

/-- the order of every image's own state list is irrelevant for what is listed -/
theorem show_list_order (imgs imgs' : List (List Name)) (hlen : imgs.length = imgs'.length)
    (hp : ∀ i (h : i < imgs.length), (imgs[i]).Perm (imgs'[i]'(hlen ▸ h))) (x : Name) :
    x ∈ vtShow imgs ↔ x ∈ vtShow imgs' := by
  cases imgs with
  | nil =>
    have : imgs' = [] := List.length_eq_zero_iff.mp (by simpa using hlen.symm)
    rw [this]
  | cons a as =>
    have hne : imgs' ≠ [] := by
      intro e; subst e; simp at hlen
    rw [show_is_intersection _ (by simp) x, show_is_intersection _ hne x]
    constructor
    · intro H l hl
      obtain ⟨i, hi, rfl⟩ := List.getElem_of_mem hl
      have hi' : i < (a :: as).length := hlen ▸ hi
      exact (hp i hi').mem_iff.mp (H _ (List.getElem_mem hi'))
    · intro H l hl
      obtain ⟨i, hi, rfl⟩ := List.getElem_of_mem hl
      exact (hp i hi).mem_iff.mpr (H _ (List.getElem_mem (hlen ▸ hi)))

example : (["a".toList, "b".toList] : List Name).Perm ["b".toList, "a".toList] := List.Perm.swap _ _ _

/-- no state is listed twice when the first image does not list one twice -/
theorem show_nodup (first : List Name) (rest : List (List Name)) (h : first.Nodup) :
    (vtShow (first :: rest)).Nodup := by
  rw [vtShow_cons]
  exact h.filter _

example : (["a".toList, "b".toList] : List Name).Nodup := by decide

/-- `RamfileBackend._show`: a state is listed exactly when its `.state` memory file exists and every
image has a state of that name -/
theorem ram_show (files : List (List Char)) (imgs : List (List Name)) (h : imgs ≠ []) (x : Name) :
    x ∈ ramShow files imgs ↔ x ++ stateSuffix ∈ files ∧ ∀ l ∈ imgs, x ∈ l := by
  unfold ramShow
  rw [List.mem_filter, ramImagesStates_eq_vtShow, List.contains_iff_mem, show_is_intersection imgs h x,
    List.mem_filterMap]
  constructor
  · rintro ⟨⟨f, hf, hs⟩, hall⟩
    rw [stripSuffix_eq_some] at hs
    exact ⟨hs ▸ hf, hall⟩
  · rintro ⟨hf, hall⟩
    exact ⟨⟨_, hf, (stripSuffix_eq_some _ _ _).mpr rfl⟩, hall⟩

example : ramShow ["b.state".toList, "a.state".toList, "c.txt".toList, "d.state".toList]
    [["a".toList, "b".toList, "c".toList], ["d".toList, "b".toList, "a".toList]] = ["b".toList, "a".toList] := by decide

/-- F1 regression witness for ramfile: first image empty -/
example : ramShow ["a.state".toList] [[], ["a".toList]] = [] := by decide

/-- without images `RamfileBackend._show` lists nothing -/
theorem ram_show_no_images (files : List (List Char)) : ramShow files [] = [] := by
  simp [ramShow, ramImagesStates]

/-- `QCOW2ExtBackend._show`: the states are the `.qcow2` files of the image directory -/
theorem ext_show (files : List (List Char)) (x : Name) : x ∈ extShow files ↔ x ++ qcow2Suffix ∈ files := by
  unfold extShow
  rw [List.mem_filterMap]
  constructor
  · rintro ⟨f, hf, hs⟩
    rw [stripSuffix_eq_some] at hs
    exact hs ▸ hf
  · intro hf
    exact ⟨_, hf, (stripSuffix_eq_some _ _ _).mpr rfl⟩

example : extShow ["a.qcow2".toList, "b.state".toList, "c.qcow2".toList] = ["a".toList, "c".toList] := by decide

/-- the production wiring (`image_state_backend = QCOW2ExtBackend`): memory file and one `.qcow2` file per image -/
theorem ram_show_ext (files : List (List Char)) (imgfiles : List (List (List Char))) (h : imgfiles ≠ []) (x : Name) :
    x ∈ ramShow files (imgfiles.map extShow) ↔
      x ++ stateSuffix ∈ files ∧ ∀ fl ∈ imgfiles, x ++ qcow2Suffix ∈ fl := by
  rw [ram_show files _ (by simpa using h) x]
  simp [ext_show]

example : ramShow ["a.state".toList] ([["a.qcow2".toList], ["b.qcow2".toList, "a.qcow2".toList]].map extShow)
    = ["a".toList] := by decide

/-- The combination before commit 8bdd936 (F1) is *not* the intersection: a state of the second image is listed
although the first image has none … -/
theorem old_show_first_empty (img : List Name) : oldShow [[], img] = .ok img := by
  simp [oldShow, oldStep]

/-- … and with a non-empty first list any second image raises `AttributeError`. -/
theorem old_show_two_images (first second : List Name) (rest : List (List Name)) (h : first ≠ []) :
    oldShow (first :: second :: rest) = .error .attributeError := by
  have hf : first.isEmpty = false := List.isEmpty_eq_false_iff.mpr h
  have herr : ∀ l : List (List Name), l.foldl oldStep (.error .attributeError) = .error .attributeError := by
    intro l
    induction l with
    | nil => rfl
    | cons a l ih => simpa [List.foldl_cons, oldStep] using ih
  simp [oldShow, oldStep, hf, herr]

example : oldShow [["a".toList], ["a".toList]] = .error .attributeError := by rfl
example : oldShow [[], ["a".toList]] = .ok ["a".toList] ∧ vtShow [[], ["a".toList]] = [] := ⟨by rfl, by decide⟩

/-! ## Part B — on/off patterns -/

/-- the off pattern in /repo is the one `matchAt offBody` was written for -/
theorem off_regex_pinned : I2N.Extracted.Show.offRegexSrc = offRegexFor := by decide
/-- the on pattern in /repo is the one `matchAt onBody` was written for -/
theorem on_regex_pinned : I2N.Extracted.Show.onRegexSrc = onRegexFor := by decide
/-- both are compiled with `re.MULTILINE` only (`scan` attempts a match at every line start) -/
theorem regex_flags_pinned :
    I2N.Extracted.Show.offRegexFlags = regexFlagsFor ∧ I2N.Extracted.Show.onRegexFlags = regexFlagsFor := by decide
/-- the file name suffixes and the number of characters cut off in /repo are the modelled ones -/
theorem suffixes_pinned :
    I2N.Extracted.Show.ramSuffix.toList = stateSuffix ∧ I2N.Extracted.Show.ramCut = stateSuffix.length ∧
    I2N.Extracted.Show.extSuffix.toList = qcow2Suffix ∧ I2N.Extracted.Show.extCut = qcow2Suffix.length := by decide

/-- Parsing a printed listing (with or without a final newline) with the off pattern returns exactly the tags
of the records with vm size `0 B`, with the on pattern exactly the tags of all other records, in listing order —
for all well-formed records (numeric id, tag over `[\w.-]`, at least one space between the columns, any size
of the shape `\d+e?[-+]?[.\d]* \w+`, any text after the date) and any other lines that do not start with a digit. -/
theorem on_off_partition (ls : List Line) (h : ∀ l ∈ ls, l.WF) (trailer : List Char)
    (ht : trailer = [] ∨ trailer = ['\n']) :
    parseOff (printListing ls ++ trailer) = ((recsOf ls).filter (fun r => r.size.isZero)).map (·.tag) ∧
    parseOn (printListing ls ++ trailer) = ((recsOf ls).filter (fun r => !r.size.isZero)).map (·.tag) := by
  constructor
  · unfold parseOff
    rw [scan_listing _ offTags scan_off_line (matchAt_nondigit _ _ (stops_cons (by decide))) ls h trailer ht]
    exact flatMap_offTags ls
  · unfold parseOn
    rw [scan_listing _ onTags scan_on_line (matchAt_nondigit _ _ (stops_cons (by decide))) ls h trailer ht]
    exact flatMap_onTags ls

example : (∀ l ∈ demoListing, l.WF) ∧
    parseOff (printListing demoListing) = ["snap1".toList] ∧
    parseOn (printListing demoListing ++ ['\n']) = ["launch_2-0".toList, "boot3.0".toList] :=
  ⟨demoListing_wf, by decide +kernel, by decide +kernel⟩

/-- Why `Rec.WF`/the printer insist on a space between tag and size (the patterns allow `\s*`): when a tag that
ends in a digit abuts the size (qemu < 6.0 layout, tags of 20 characters and more), the same line is an off
snapshot `a1` for one pattern and a vm state `a` for the other. Reproduced on the real regexes by the harness. -/
example : parseOff "1 a10 B 2020-01-01".toList = ["a1".toList] ∧ parseOn "1 a10 B 2020-01-01".toList = ["a".toList] :=
  ⟨by decide +kernel, by decide +kernel⟩

/-- every record is seen by exactly one of the two patterns: a tag is listed as an image (off) state iff a
record of that tag has vm size zero, as a vm (on) state iff a record of that tag has another size -/
theorem on_off_told_apart (ls : List Line) (h : ∀ l ∈ ls, l.WF) (x : Name) :
    (x ∈ parseOff (printListing ls) ↔ ∃ r ∈ recsOf ls, r.tag = x ∧ r.size.isZero = true) ∧
    (x ∈ parseOn (printListing ls) ↔ ∃ r ∈ recsOf ls, r.tag = x ∧ r.size.isZero = false) := by
  have hp := on_off_partition ls h [] (Or.inl rfl)
  rw [List.append_nil] at hp
  rw [hp.1, hp.2]
  constructor
  · simp only [List.mem_map, List.mem_filter]
    exact ⟨fun ⟨r, ⟨hr, hz⟩, ht⟩ => ⟨r, hr, ht, hz⟩, fun ⟨r, hr, ht, hz⟩ => ⟨r, ⟨hr, hz⟩, ht⟩⟩
  · simp only [List.mem_map, List.mem_filter, Bool.not_eq_true']
    exact ⟨fun ⟨r, ⟨hr, hz⟩, ht⟩ => ⟨r, hr, ht, hz⟩, fun ⟨r, hr, ht, hz⟩ => ⟨r, ⟨hr, hz⟩, ht⟩⟩

/-- End to end for `QCOW2VTBackend.show` on the snapshot listings of the vm's images: a vm state is listed
exactly when every image's listing has a record of that name with a non-zero vm size. -/
theorem vt_show_listings (lss : List (List Line)) (hne : lss ≠ []) (h : ∀ ls ∈ lss, ∀ l ∈ ls, l.WF) (x : Name) :
    x ∈ vtShowDumps (lss.map printListing) ↔
      ∀ ls ∈ lss, ∃ r ∈ recsOf ls, r.tag = x ∧ r.size.isZero = false := by
  unfold vtShowDumps
  rw [show_is_intersection _ (by simpa using hne) x]
  simp only [List.map_map, List.mem_map, Function.comp, qcowShow, if_true]
  constructor
  · intro hall ls hls
    exact ((on_off_told_apart ls (h ls hls) x).2).mp (hall _ ⟨ls, hls, rfl⟩)
  · rintro hall _ ⟨ls, hls, rfl⟩
    exact ((on_off_told_apart ls (h ls hls) x).2).mpr (hall ls hls)

example : vtShowDumps ([demoListing, demoListing2].map printListing) = ["boot3.0".toList] := by decide +kernel

/-! ## Translator tie: the combination loops equal the code's current source

`I2N/Extracted/GenShow.lean` is regenerated on every run (harness/pygen_pxindex.py) from the source of
`QCOW2VTBackend.show` (from `states = None` to its `return`) and of the combination part of `RamfileBackend._show`
(from `images_states = None` to the `None → set()` fallback).  `images` = `params.objects("images")`,
`imageStates i` = what the per-image backend lists for image `i`.  No hypotheses: any number of images (none
included), any listings. -/

open I2N.Extracted.GenShow

/-- the loop of `QCOW2VTBackend.show` — the `None` start, the first-image case `list(image_states)`, the filter
`[state for state in states if state in image_states]`, the `None → []` fallback — is the model's `vtShow` of the
per-image listings. -/
theorem vtShow_matches_source (images : List Name) (imageStates : Name → List Name) :
    genVtShow images imageStates = vtShow (images.map imageStates) := by
  unfold genVtShow vtShow
  simp only [Id.run, pure, List.foldl_map, List.map_id']
  rw [foldl_congr_fun (g2 := fun acc x => vtStep acc (imageStates x)) (fun b a => by cases b <;> rfl)]
  cases List.foldl (fun acc x => vtStep acc (imageStates x)) none images <;> rfl

/-- the combination loop of `RamfileBackend._show` — `set(image_snapshots)` for the first image, `.intersection` for
the others, `None → set()` for a vm without images — leaves the model's `ramImagesStates` in `images_states` (never
`None`; a set is a list of which only membership is observed). -/
theorem ramImagesStates_matches_source (images : List Name) (imageStates : Name → List Name) :
    genRamImagesStates images imageStates = some (ramImagesStates (images.map imageStates)) := by
  unfold genRamImagesStates ramImagesStates
  simp only [Id.run, pure, List.foldl_map]
  rw [foldl_congr_fun (g2 := fun acc x => ramStep acc (imageStates x)) (fun b a => by cases b <;> rfl)]
  cases List.foldl (fun acc x => ramStep acc (imageStates x)) none images <;> rfl

/-- hence the SOURCE lists the intersection: a state is returned by `QCOW2VTBackend.show` (generated) exactly when
every image of the vm has it (`show_is_intersection` transported). -/
theorem source_show_is_intersection (images : List Name) (imageStates : Name → List Name) (h : images ≠ []) (x : Name) :
    x ∈ genVtShow images imageStates ↔ ∀ i ∈ images, x ∈ imageStates i := by
  rw [vtShow_matches_source, show_is_intersection _ (by simpa using h)]
  simp

example : genVtShow ["image1".toList, "image2".toList]
    (fun i => if i == "image1".toList then ["a".toList, "b".toList] else ["b".toList, "c".toList]) = ["b".toList] := by decide
/-- the first image lists nothing: nothing is listed (what the pre-fix loop got wrong) -/
example : genVtShow ["image1".toList, "image2".toList] (fun i => if i == "image1".toList then [] else ["a".toList]) = [] := by
  decide
example : genRamImagesStates [] (fun _ => ["a".toList]) = some [] := by decide

end I2N.Props.C17
