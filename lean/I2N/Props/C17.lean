import I2N.Model.Show
import I2N.Extracted.Show
namespace I2N.Props.C17
open I2N.Show

/-- the off pattern in /repo is the one `matchAt offBody` was written for -/
theorem off_regex_pinned : I2N.Extracted.Show.offRegexSrc = offRegexFor := by decide
end I2N.Props.C17
