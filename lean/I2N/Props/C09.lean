import I2N.Lemmas.Graph
import I2N.Lemmas.GraphResolve
/-!
# C09 — Workers get equivalent linked graph copies; lazy and eager parsing agree

Two kinds of statements: about the resolver (what "equivalent copy" and "lazy = eager" mean, for all suites,
selections, restrictions, worker sets and expansion orders) and about the verified bridge checker that is run on
every extracted implementation graph (`drv_graph check-bridges`).
-/
namespace I2N.Props.C09
open I2N.Resolve

/-! ### every worker receives an equivalent copy -/

/-- Two workers with the same restrictions get the same graph up to the worker's name: the same nodes with the
same declarations and parents, the same edges. -/
theorem copies_equivalent (S : Suite) (user : List (String × VLine)) (sel : List RLine) (w v : Worker)
    (h : w.restr = v.restr) :
    (resolveWorker S user sel w).nodes.map (·.inst) = (resolveWorker S user sel v).nodes.map (·.inst) ∧
    (resolveWorker S user sel w).edges.map (fun e => { e with worker := v.name }) =
      (resolveWorker S user sel v).edges := by
  have ha := allowed_congr S user w v h
  simp only [resolveWorker, ha, List.map_map, List.map_flatMap, edgesOf]
  constructor
  · rfl
  · congr 1

/-- A worker's own restrictions only ever exclude vm variants (hence tests): what it may use is a sub-list of
what an unrestricted worker may use. -/
theorem restrictions_only_exclude (S : Suite) (user : List (String × VLine)) (w : Worker) (vm : String) :
    (allowed S user w vm).Sublist (allowed S user { w with restr := [] } vm) := by
  simp only [allowed, List.filter_nil, List.foldl_nil]
  exact foldl_applyV_sublist _ _

/-- … so the tests a restricted worker composes are among those an unrestricted worker composes: every leaf
assignment of a selected test under the restricted worker is one under the worker without its restrictions
(it differs "only in tests excluded by that worker's restrictions"). -/
theorem restricted_leaves_subset (S : Suite) (user : List (String × VLine)) (w : Worker) (t : Test) (a : Asg)
    (ha : a ∈ leafAsgs S (allowed S user w) t) :
    a ∈ leafAsgs S (allowed S user { w with restr := [] }) t :=
  leafAsgs_mono S _ _ (fun vm _ hv => (restrictions_only_exclude S user w vm).subset hv) t a ha

/-- The copy a worker receives does not depend on which other workers take part, nor on their order or their
restrictions. -/
theorem worker_copy_independent (S : Suite) (user : List (String × VLine)) (sel : List RLine)
    (ws : List Worker) (w : Worker) (hw : w ∈ ws) (huniq : ∀ v ∈ ws, v.name = w.name → v = w) (n : GNode)
    (hn : n.worker = w.name) :
    n ∈ (resolve S user sel ws).nodes ↔ n ∈ (resolveWorker S user sel w).nodes := by
  rw [mem_resolve_nodes]
  constructor
  · rintro ⟨v, hv, hnv⟩
    have : v.name = w.name := by
      rw [← hn]; exact ((mem_worker_nodes S user sel v n).mp hnv).1.symm
    rw [← huniq v hv this]; exact hnv
  · intro h; exact ⟨w, hw, h⟩

/-! ### lazy and eager parsing agree -/

/-- eager parsing is lazy parsing of all selected flat nodes -/
theorem eager_is_lazy_all (S : Suite) (allow : String → List String) (sel : List RLine) :
    workerNodes S allow sel = lazyNodes S allow (selected S sel) := rfl

/-- Under every interleaving: the nodes present after a sequence of expansions depend only on *which* flat nodes
were expanded, not on the order, nor on repetitions. -/
theorem lazy_order_irrelevant (S : Suite) (allow : String → List String) (o₁ o₂ : List Test)
    (h : ∀ t, t ∈ o₁ ↔ t ∈ o₂) (i : Inst) : i ∈ lazyNodes S allow o₁ ↔ i ∈ lazyNodes S allow o₂ := by
  simp only [mem_lazyNodes]
  constructor
  · rintro ⟨t, ht, hi⟩; exact ⟨t, (h t).mp ht, hi⟩
  · rintro ⟨t, ht, hi⟩; exact ⟨t, (h t).mpr ht, hi⟩

/-- once every selected flat node has been expanded (in any order, any number of times) the lazily built graph
has exactly the nodes of the graph parsed up front — and a node *is* its declarations and its parents -/
theorem lazy_eq_eager (S : Suite) (allow : String → List String) (sel : List RLine) (order : List Test)
    (h : ∀ t, t ∈ order ↔ t ∈ selected S sel) (i : Inst) :
    i ∈ lazyNodes S allow order ↔ i ∈ workerNodes S allow sel :=
  lazy_order_irrelevant S allow order (selected S sel) h i

/-- the form the driver evaluates (`resolveLazy`): the flat nodes a worker has expanded are given by a predicate on
the suite's tests; if it holds exactly for the selected tests, the worker's lazily built copy is the eager one -/
theorem lazy_steps_eq_eager (S : Suite) (allow : String → List String) (sel : List RLine) (p : Test → Bool)
    (h : ∀ t ∈ S.tests, p t = true ↔ t ∈ selected S sel) (i : Inst) :
    i ∈ lazyNodes S allow (S.tests.filter p) ↔ i ∈ workerNodes S allow sel := by
  apply lazy_eq_eager
  intro t
  rw [List.mem_filter]
  constructor
  · rintro ⟨ht, hp⟩; exact (h t ht).mp hp
  · intro hs
    have ht := selected_subset S sel t hs
    exact ⟨ht, (h t ht).mpr hs⟩

/-- at every moment of a lazy traversal the graph built so far is a sub-graph of the eager one … -/
theorem lazy_partial_subset (S : Suite) (allow : String → List String) (sel : List RLine) (order : List Test)
    (h : ∀ t ∈ order, t ∈ selected S sel) (i : Inst) (hi : i ∈ lazyNodes S allow order) :
    i ∈ workerNodes S allow sel := by
  obtain ⟨t, ht, hr⟩ := (mem_lazyNodes S allow order i).mp hi
  exact (mem_workerNodes S allow sel i).mpr ⟨t, h t ht, hr⟩

/-- … in which every node present has all its dependencies present: a lazily expanded test has exactly the
parents it has in the graph parsed up front (the `parents` of the very same node), and they are in the graph. -/
theorem lazy_parents_eq (S : Suite) (allow : String → List String) (order : List Test) (i : Inst)
    (hi : i ∈ lazyNodes S allow order) : ∀ e ∈ i.parents, ∃ j ∈ lazyNodes S allow order, j.key = e.2.2 := by
  intro e he
  obtain ⟨t, ht, hr⟩ := (mem_lazyNodes S allow order i).mp hi
  obtain ⟨j, hj, hjk⟩ := reveal_closed S allow t i hr e he
  exact ⟨j, (mem_lazyNodes S allow order j).mpr ⟨t, ht, hj⟩, hjk⟩

/-- expansion is monotone … -/
theorem lazy_monotone (S : Suite) (allow : String → List String) (o₁ o₂ : List Test)
    (h : ∀ t ∈ o₁, t ∈ o₂) (i : Inst) (hi : i ∈ lazyNodes S allow o₁) : i ∈ lazyNodes S allow o₂ := by
  obtain ⟨t, ht, hr⟩ := (mem_lazyNodes S allow o₁ i).mp hi
  exact (mem_lazyNodes S allow o₂ i).mpr ⟨t, h t ht, hr⟩

/-- … and idempotent: expanding a flat node again reveals nothing new -/
theorem lazy_idempotent (S : Suite) (allow : String → List String) (order : List Test) (t : Test)
    (ht : t ∈ order) (i : Inst) : i ∈ lazyNodes S allow (order ++ [t]) ↔ i ∈ lazyNodes S allow order := by
  apply lazy_order_irrelevant
  intro t'
  simp only [List.mem_append, List.mem_singleton]
  constructor
  · rintro (h | rfl)
    · exact h
    · exact ht
  · exact Or.inl

/-- the workers together expand every selected compatible test: every variant combination of a selected test
that a worker allows is a node of that worker's graph (given fuel for one level, which `Suite.fuel` always has) -/
theorem all_compatible_expanded (S : Suite) (allow : String → List String) (sel : List RLine) (t : Test)
    (ht : t ∈ selected S sel) (a : Asg) (ha : a ∈ leafAsgs S allow t) (i : Inst)
    (hi : i ∈ insts S allow S.fuel t a) : i ∈ workerNodes S allow sel :=
  (mem_workerNodes S allow sel i).mpr
    ⟨t, ht, (mem_reveal S allow t i).mpr ⟨a, ha, insts_subset_anc S allow _ t a i hi⟩⟩

/-- parsing the same input twice yields the same graph: `resolve` is a function of its arguments; in particular
it does not depend on anything parsed before. -/
theorem resolve_deterministic (S S' : Suite) (user user' : List (String × VLine)) (sel sel' : List RLine)
    (ws ws' : List Worker) (h1 : S = S') (h2 : user = user') (h3 : sel = sel') (h4 : ws = ws') :
    (resolve S user sel ws).nodes = (resolve S' user' sel' ws').nodes ∧
    (resolve S user sel ws).edges = (resolve S' user' sel' ws').edges := by
  subst h1 h2 h3 h4; exact ⟨rfl, rfl⟩

/-! ### the verified bridge checker run on every extracted implementation graph -/

/-- `check-bridges = true` means: bridges are symmetric, join different composite nodes of one class and of
different workers, the two ends reference the very same four register objects (so progress registered through
one copy is read through every copy), every two such nodes *are* bridged, and register objects are shared with
nobody outside the class. -/
theorem checkBridges_sound (g : I2N.Graph.Graph) (h : g.checkBridges = true) : I2N.Graph.BridgesOK g :=
  I2N.Graph.checkBridges_sound g h

/-- sharing is transitive along bridges: every member of a bridged chain reads the same registers -/
theorem bridged_chain_shares (g : I2N.Graph.Graph) (h : g.checkBridges = true) :
    ∀ (l : List Nat) (a b : Nat), g.BridgeChain (a :: l ++ [b]) → g.regsOf a = g.regsOf b
  | [], a, b, hc => ((I2N.Graph.checkBridges_sound g h).shared a b hc.1).1
  | x :: l, a, b, hc =>
    (((I2N.Graph.checkBridges_sound g h).shared a x hc.1).1).trans (bridged_chain_shares g h l x b hc.2)

/-! ### non-vacuity -/

open I2N.Props in
example : (resolveWorker ⟨[("vm1", ["A", "B"])], "vm1", []⟩ [] [] ⟨"net1", []⟩).nodes.map (·.inst) =
    (resolveWorker ⟨[("vm1", ["A", "B"])], "vm1", []⟩ [] [] ⟨"net2", []⟩).nodes.map (·.inst) :=
  (copies_equivalent _ _ _ _ _ rfl).1

/-- two copies of a one-node class, bridged and sharing registers 0–3; an unrelated node with its own -/
def demoBridged : I2N.Graph.Graph :=
  { nodes := [
      { id := "1-t.net1", worker := "net1", flat := false, sharedRoot := false, objectRoot := "", cloneSource := false,
        paramNets := ["net1"], paramVms := [], objs := [], cls := "t" },
      { id := "1-t.net2", worker := "net2", flat := false, sharedRoot := false, objectRoot := "", cloneSource := false,
        paramNets := ["net2"], paramVms := [], objs := [], cls := "t" },
      { id := "2-u.net1", worker := "net1", flat := false, sharedRoot := false, objectRoot := "", cloneSource := false,
        paramNets := ["net1"], paramVms := [], objs := [], cls := "u" }],
    setup := [], cleanup := [], bridged := [(0, 1), (1, 0)], regs := [[0, 1, 2, 3], [0, 1, 2, 3], [4, 5, 6, 7]] }

example : demoBridged.checkBridges = true := by decide
/-- forgetting to alias the registers is rejected -/
example : ({ demoBridged with regs := [[0, 1, 2, 3], [8, 9, 10, 11], [4, 5, 6, 7]] } : I2N.Graph.Graph).checkBridges = false := by
  decide
/-- a one-sided bridge is rejected -/
example : ({ demoBridged with bridged := [(0, 1)] } : I2N.Graph.Graph).checkBridges = false := by decide

end I2N.Props.C09
