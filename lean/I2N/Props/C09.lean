import I2N.Lemmas.Graph
import I2N.Lemmas.GraphResolve
import I2N.Lemmas.GraphRestrict
/-!
# C09 — Workers get equivalent linked graph copies; lazy and eager parsing agree

Two kinds of statements: about the resolver (what "equivalent copy" and "lazy = eager" mean, for all suites,
selections, restrictions, worker sets and expansion orders) and about the verified bridge checker that is run on
every extracted implementation graph (`drv_graph check-bridges`).
-/
namespace I2N.Props.C09
open I2N.Resolve

/-! ### every worker receives an equivalent copy -/

/-- Two workers with the same restrictions get the same graph up to the worker's name: the same nodes with the
same declarations and parents, the same edges. -/
theorem copies_equivalent (S : Suite) (user : List (String × VLine)) (sel : List RLine) (w v : Worker)
    (h : w.restr = v.restr) :
    (resolveWorker S user sel w).nodes.map (·.inst) = (resolveWorker S user sel v).nodes.map (·.inst) ∧
    (resolveWorker S user sel w).edges.map (fun e => { e with worker := v.name }) =
      (resolveWorker S user sel v).edges := by
  have ha := allowed_congr S user w v h
  simp only [resolveWorker, ha, List.map_map, List.map_flatMap, edgesOf]
  constructor
  · rfl
  · congr 1

/-- A worker's own restrictions only ever exclude vm variants (hence tests): what it may use is a sub-list of
what an unrestricted worker may use. -/
theorem restrictions_only_exclude (S : Suite) (user : List (String × VLine)) (w : Worker) (vm : String) :
    (allowed S user w vm).Sublist (allowed S user { w with restr := [] } vm) := by
  simp only [allowed, List.filter_nil, List.foldl_nil]
  exact foldl_applyV_sublist _ _

/-- … so the tests a restricted worker composes are among those an unrestricted worker composes: every leaf
assignment of a selected test under the restricted worker is one under the worker without its restrictions
(it differs "only in tests excluded by that worker's restrictions"). -/
theorem restricted_leaves_subset (S : Suite) (user : List (String × VLine)) (w : Worker) (t : Test) (a : Asg)
    (ha : a ∈ leafAsgs S (allowed S user w) t) :
    a ∈ leafAsgs S (allowed S user { w with restr := [] }) t :=
  leafAsgs_mono S _ _ (fun vm _ hv => (restrictions_only_exclude S user w vm).subset hv) t a ha

/-- The copy a worker receives does not depend on which other workers take part, nor on their order or their
restrictions. -/
theorem worker_copy_independent (S : Suite) (user : List (String × VLine)) (sel : List RLine)
    (ws : List Worker) (w : Worker) (hw : w ∈ ws) (huniq : ∀ v ∈ ws, v.name = w.name → v = w) (n : GNode)
    (hn : n.worker = w.name) :
    n ∈ (resolve S user sel ws).nodes ↔ n ∈ (resolveWorker S user sel w).nodes := by
  rw [mem_resolve_nodes]
  constructor
  · rintro ⟨v, hv, hnv⟩
    have : v.name = w.name := by
      rw [← hn]; exact ((mem_worker_nodes S user sel v n).mp hnv).1.symm
    rw [← huniq v hv this]; exact hnv
  · intro h; exact ⟨w, hw, h⟩

/-! ### lazy and eager parsing agree -/

/-- eager parsing is lazy parsing of all selected flat nodes -/
theorem eager_is_lazy_all (S : Suite) (allow : String → List String) (sel : List RLine) :
    workerNodes S allow sel = lazyNodes S allow (selected S sel) := rfl

/-- Under every interleaving: the nodes present after a sequence of expansions depend only on *which* flat nodes
were expanded, not on the order, nor on repetitions. -/
theorem lazy_order_irrelevant (S : Suite) (allow : String → List String) (o₁ o₂ : List Test)
    (h : ∀ t, t ∈ o₁ ↔ t ∈ o₂) (i : Inst) : i ∈ lazyNodes S allow o₁ ↔ i ∈ lazyNodes S allow o₂ := by
  simp only [mem_lazyNodes]
  constructor
  · rintro ⟨t, ht, hi⟩; exact ⟨t, (h t).mp ht, hi⟩
  · rintro ⟨t, ht, hi⟩; exact ⟨t, (h t).mpr ht, hi⟩

/-- once every selected flat node has been expanded (in any order, any number of times) the lazily built graph
has exactly the nodes of the graph parsed up front — and a node *is* its declarations and its parents -/
theorem lazy_eq_eager (S : Suite) (allow : String → List String) (sel : List RLine) (order : List Test)
    (h : ∀ t, t ∈ order ↔ t ∈ selected S sel) (i : Inst) :
    i ∈ lazyNodes S allow order ↔ i ∈ workerNodes S allow sel :=
  lazy_order_irrelevant S allow order (selected S sel) h i

/-- the form the driver evaluates (`resolveLazy`): the flat nodes a worker has expanded are given by a predicate on
the suite's tests; if it holds exactly for the selected tests, the worker's lazily built copy is the eager one -/
theorem lazy_steps_eq_eager (S : Suite) (allow : String → List String) (sel : List RLine) (p : Test → Bool)
    (h : ∀ t ∈ S.tests, p t = true ↔ t ∈ selected S sel) (i : Inst) :
    i ∈ lazyNodes S allow (S.tests.filter p) ↔ i ∈ workerNodes S allow sel := by
  apply lazy_eq_eager
  intro t
  rw [List.mem_filter]
  constructor
  · rintro ⟨ht, hp⟩; exact (h t ht).mp hp
  · intro hs
    have ht := selected_subset S sel t hs
    exact ⟨ht, (h t ht).mpr hs⟩

/-- at every moment of a lazy traversal the graph built so far is a sub-graph of the eager one … -/
theorem lazy_partial_subset (S : Suite) (allow : String → List String) (sel : List RLine) (order : List Test)
    (h : ∀ t ∈ order, t ∈ selected S sel) (i : Inst) (hi : i ∈ lazyNodes S allow order) :
    i ∈ workerNodes S allow sel := by
  obtain ⟨t, ht, hr⟩ := (mem_lazyNodes S allow order i).mp hi
  exact (mem_workerNodes S allow sel i).mpr ⟨t, h t ht, hr⟩

/-- … in which every node present has all its dependencies present: a lazily expanded test has exactly the
parents it has in the graph parsed up front (the `parents` of the very same node), and they are in the graph. -/
theorem lazy_parents_eq (S : Suite) (allow : String → List String) (order : List Test) (i : Inst)
    (hi : i ∈ lazyNodes S allow order) : ∀ e ∈ i.parents, ∃ j ∈ lazyNodes S allow order, j.key = e.2.2 := by
  intro e he
  obtain ⟨t, ht, hr⟩ := (mem_lazyNodes S allow order i).mp hi
  obtain ⟨j, hj, hjk⟩ := reveal_closed S allow t i hr e he
  exact ⟨j, (mem_lazyNodes S allow order j).mpr ⟨t, ht, hj⟩, hjk⟩

/-- expansion is monotone … -/
theorem lazy_monotone (S : Suite) (allow : String → List String) (o₁ o₂ : List Test)
    (h : ∀ t ∈ o₁, t ∈ o₂) (i : Inst) (hi : i ∈ lazyNodes S allow o₁) : i ∈ lazyNodes S allow o₂ := by
  obtain ⟨t, ht, hr⟩ := (mem_lazyNodes S allow o₁ i).mp hi
  exact (mem_lazyNodes S allow o₂ i).mpr ⟨t, h t ht, hr⟩

/-- … and idempotent: expanding a flat node again reveals nothing new -/
theorem lazy_idempotent (S : Suite) (allow : String → List String) (order : List Test) (t : Test)
    (ht : t ∈ order) (i : Inst) : i ∈ lazyNodes S allow (order ++ [t]) ↔ i ∈ lazyNodes S allow order := by
  apply lazy_order_irrelevant
  intro t'
  simp only [List.mem_append, List.mem_singleton]
  constructor
  · rintro (h | rfl)
    · exact h
    · exact ht
  · exact Or.inl

/-- the workers together expand every selected compatible test: every variant combination of a selected test
that a worker allows is a node of that worker's graph (given fuel for one level, which `Suite.fuel` always has) -/
theorem all_compatible_expanded (S : Suite) (allow : String → List String) (sel : List RLine) (t : Test)
    (ht : t ∈ selected S sel) (a : Asg) (ha : a ∈ leafAsgs S allow t) (i : Inst)
    (hi : i ∈ insts S allow S.fuel t a) : i ∈ workerNodes S allow sel :=
  (mem_workerNodes S allow sel i).mpr
    ⟨t, ht, (mem_reveal S allow t i).mpr ⟨a, ha, insts_subset_anc S allow _ t a i hi⟩⟩

/-- parsing the same input twice yields the same graph: `resolve` is a function of its arguments; in particular
it does not depend on anything parsed before. -/
theorem resolve_deterministic (S S' : Suite) (user user' : List (String × VLine)) (sel sel' : List RLine)
    (ws ws' : List Worker) (h1 : S = S') (h2 : user = user') (h3 : sel = sel') (h4 : ws = ws') :
    (resolve S user sel ws).nodes = (resolve S' user' sel' ws').nodes ∧
    (resolve S user sel ws).edges = (resolve S' user' sel' ws').edges := by
  subst h1 h2 h3 h4; exact ⟨rfl, rfl⟩

/-! ### the verified bridge checker run on every extracted implementation graph -/

/-- `check-bridges = true` means: bridges are symmetric, join different composite nodes of one class and of
different workers, the two ends reference the very same four register objects (so progress registered through
one copy is read through every copy), every two such nodes *are* bridged, and register objects are shared with
nobody outside the class. -/
theorem checkBridges_sound (g : I2N.Graph.Graph) (h : g.checkBridges = true) : I2N.Graph.BridgesOK g :=
  I2N.Graph.checkBridges_sound g h

/-- sharing is transitive along bridges: every member of a bridged chain reads the same registers -/
theorem bridged_chain_shares (g : I2N.Graph.Graph) (h : g.checkBridges = true) :
    ∀ (l : List Nat) (a b : Nat), g.BridgeChain (a :: l ++ [b]) → g.regsOf a = g.regsOf b
  | [], a, b, hc => ((I2N.Graph.checkBridges_sound g h).shared a b hc.1).1
  | x :: l, a, b, hc =>
    (((I2N.Graph.checkBridges_sound g h).shared a x hc.1).1).trans (bridged_chain_shares g h l x b hc.2)

/-! ### non-vacuity -/

open I2N.Props in
example : (resolveWorker ⟨[("vm1", ["A", "B"])], "vm1", []⟩ [] [] ⟨"net1", []⟩).nodes.map (·.inst) =
    (resolveWorker ⟨[("vm1", ["A", "B"])], "vm1", []⟩ [] [] ⟨"net2", []⟩).nodes.map (·.inst) :=
  (copies_equivalent _ _ _ _ _ rfl).1

/-- two copies of a one-node class, bridged and sharing registers 0–3; an unrelated node with its own -/
def demoBridged : I2N.Graph.Graph :=
  { nodes := [
      { id := "1-t.net1", worker := "net1", flat := false, sharedRoot := false, objectRoot := "", cloneSource := false,
        paramNets := ["net1"], paramVms := [], objs := [], cls := "t" },
      { id := "1-t.net2", worker := "net2", flat := false, sharedRoot := false, objectRoot := "", cloneSource := false,
        paramNets := ["net2"], paramVms := [], objs := [], cls := "t" },
      { id := "2-u.net1", worker := "net1", flat := false, sharedRoot := false, objectRoot := "", cloneSource := false,
        paramNets := ["net1"], paramVms := [], objs := [], cls := "u" }],
    setup := [], cleanup := [], bridged := [(0, 1), (1, 0)], regs := [[0, 1, 2, 3], [0, 1, 2, 3], [4, 5, 6, 7]] }

example : demoBridged.checkBridges = true := by decide
/-- forgetting to alias the registers is rejected -/
example : ({ demoBridged with regs := [[0, 1, 2, 3], [8, 9, 10, 11], [4, 5, 6, 7]] } : I2N.Graph.Graph).checkBridges = false := by
  decide
/-- a one-sided bridge is rejected -/
example : ({ demoBridged with bridged := [(0, 1)] } : I2N.Graph.Graph).checkBridges = false := by decide

/-! ### the copy of a worker WITH object restrictions versus the copy of an unrestricted worker

Compared at the level of (test, per-vm variant assignment) pairs: `Key.bare k = (k.test, k.asg)` erases the clone
labels of a node name (`copyTests` = the bare nodes of a worker's copy, `copyParents … x` = the bare parents of the
bare node `x` along the edges of the copy).  Labels have to be erased: a restriction that leaves a dependency
with one producer removes the clones (`restricted_copy_keys_differ`).  `w` is the restricted worker, `v` any
worker without restrictions; `asgOK (allowed S user w) a` = every vm variant of the assignment `a` is allowed
for `w`. -/

/-- the label-erasing projection, explicitly -/
theorem bare_def (k : Key) : k.bare = (k.test, k.asg) := rfl

/-- **The true inclusion** (every suite, selection, user and worker restrictions): every (test, assignment) pair
instantiated for the restricted worker is instantiated for the unrestricted worker, on variants the restricted
worker allows. -/
theorem restricted_copy_tests_subset (S : Suite) (user : List (String × VLine)) (sel : List RLine) (w v : Worker)
    (hv : v.restr = []) (x : Name × Asg) (hx : x ∈ copyTests S user sel w) :
    x ∈ copyTests S user sel v ∧ asgOK (allowed S user w) x.2 = true := by
  rw [copyTests_eq] at hx ⊢
  obtain ⟨h1, h2⟩ := bare_restrict_subset S _ _ (allowed_sub S user w v hv) sel x hx
  exact ⟨h1, (asgOK_iff _ _).mpr h2⟩

/-- **The converse inclusion is false**: "restricted copy = unrestricted copy filtered by *every vm variant of the
assignment is allowed for w*" fails whenever everything that needs a setup node is excluded although the setup
node's own variants are allowed.  Suite `cx1`: leaf `quick.p` on vm1+vm2 needs `install` on vm1; worker `noX`
excludes the only variant of vm2.  `(install, vm1=A)` is in the unrestricted copy, all its variants are allowed
for `noX`, and it is not in `noX`'s copy (which is empty). -/
theorem restricted_copy_tests_not_superset :
    ∃ (S : Suite) (sel : List RLine) (w v : Worker) (x : Name × Asg), v.restr = [] ∧
      x ∈ copyTests S [] sel v ∧ asgOK (allowed S [] w) x.2 = true ∧ x ∉ copyTests S [] sel w :=
  ⟨RDemo.cx1, RDemo.selLeaves, RDemo.noX, RDemo.free, (["original", "install"], [("vm1", "A")]), rfl,
    by decide, by decide, by decide⟩

/-- … also when the restriction leaves every vm a variant (`cx2`: vm2 keeps `Y`, but the only dependant of
`install` supports `X` alone) … -/
theorem restricted_copy_tests_not_superset_nonempty :
    (∀ vm ∈ RDemo.cx2.variants.map Prod.fst, allowed RDemo.cx2 [] RDemo.noX vm ≠ []) ∧
    (["original", "install"], [("vm1", "A")]) ∈ copyTests RDemo.cx2 [] RDemo.selLeaves RDemo.free ∧
    asgOK (allowed RDemo.cx2 [] RDemo.noX) [("vm1", "A")] = true ∧
    (["original", "install"], [("vm1", "A")]) ∉ copyTests RDemo.cx2 [] RDemo.selLeaves RDemo.noX := by
  refine ⟨by decide, by decide, by decide, by decide⟩

/-- … and when the selected test itself survives but an intermediate producer is excluded (`cx3`: `quick.d` on
vm1 ← `m` on vm1+vm2 ← `install` on vm1; `noXY` excludes all of vm2): `quick.d` stays (without its dependency),
`install` goes although its variants are allowed. -/
theorem restricted_copy_tests_not_superset_inner :
    (["quick", "d"], [("vm1", "A")]) ∈ copyTests RDemo.cx3 [] RDemo.selLeaves RDemo.noXY ∧
    (["original", "install"], [("vm1", "A")]) ∈ copyTests RDemo.cx3 [] RDemo.selLeaves RDemo.free ∧
    asgOK (allowed RDemo.cx3 [] RDemo.noXY) [("vm1", "A")] = true ∧
    (["original", "install"], [("vm1", "A")]) ∉ copyTests RDemo.cx3 [] RDemo.selLeaves RDemo.noXY := by
  refine ⟨by decide, by decide, by decide, by decide⟩

/-- **Equality under a substitution hypothesis.**  If every vm that loses a variant keeps an allowed variant
`σ vm` that every test of the suite supports (always the case when no test restricts the vms the worker
restricts and the worker leaves each of them a variant), then the (test, assignment) pairs instantiated for the
restricted worker are *exactly* those of the unrestricted worker whose every vm variant is allowed for `w`.
Missing for the unconditional statement: nothing provable — it is false (`restricted_copy_tests_not_superset*`);
the unconditional equality is `restricted_copy_tests`. -/
theorem restricted_copy_tests_partial (S : Suite) (user : List (String × VLine)) (sel : List RLine) (w v : Worker)
    (hv : v.restr = []) (σ : String → String)
    (hσ : ∀ vm ∈ S.variants.map Prod.fst, (∃ x ∈ allowed S user v vm, x ∉ allowed S user w vm) →
      ∀ t ∈ S.tests, σ vm ∈ allowedFor (allowed S user w) t vm)
    (x : Name × Asg) :
    x ∈ copyTests S user sel w ↔ x ∈ copyTests S user sel v ∧ asgOK (allowed S user w) x.2 = true := by
  constructor
  · exact restricted_copy_tests_subset S user sel w v hv x
  · rintro ⟨h1, h2⟩
    rw [copyTests_eq] at h1 ⊢
    refine bare_restrict_subst S _ _ (allowed_sub S user w v hv) σ ?_ sel x h1 ((asgOK_iff _ _).mp h2)
    intro vm hex t ht
    by_cases hvm : vm ∈ S.variants.map Prod.fst
    · exact hσ vm hvm hex t ht
    · obtain ⟨y, hy, _⟩ := hex
      rw [allowed_nil S user v vm hvm] at hy
      cases hy

/-- The same with a hypothesis that needs no witness: no test of the suite has an own `only` restriction on a vm
of which `w` excludes a variant, and `w` leaves every such vm at least one variant. -/
theorem restricted_copy_tests_unconstrained_partial (S : Suite) (user : List (String × VLine)) (sel : List RLine)
    (w v : Worker) (hv : v.restr = [])
    (h : ∀ vm ∈ S.variants.map Prod.fst, (∃ x ∈ allowed S user v vm, x ∉ allowed S user w vm) →
      allowed S user w vm ≠ [] ∧ ∀ t ∈ S.tests, t.only.find? (fun e => e.1 == vm) = none)
    (x : Name × Asg) :
    x ∈ copyTests S user sel w ↔ x ∈ copyTests S user sel v ∧ asgOK (allowed S user w) x.2 = true := by
  refine restricted_copy_tests_partial S user sel w v hv (fun vm => (allowed S user w vm).headD "") ?_ x
  intro vm hvm hex t ht
  obtain ⟨hne, hnone⟩ := h vm hvm hex
  simp only [allowedFor, hnone t ht]
  cases hl : allowed S user w vm with
  | nil => exact absurd hl hne
  | cons y ys => simp

/-- Every node of the restricted copy is *needed*: reachable from a selected test composed with variants `w`
allows, along edges of the **unrestricted** copy, through nodes on allowed variants only (no hypothesis). -/
theorem restricted_copy_tests_needed (S : Suite) (user : List (String × VLine)) (sel : List RLine) (w v : Worker)
    (hv : v.restr = []) (x : Name × Asg) (hx : x ∈ copyTests S user sel w) :
    Needed (fun x => ∃ t ∈ selected S sel, x.1 = t.name ∧ x.2 ∈ leafAsgs S (allowed S user v) t ∧
        asgOK (allowed S user w) x.2 = true)
      (fun x y => y ∈ copyParents S user sel v x) (fun a => asgOK (allowed S user w) a = true) x := by
  have hsub := allowed_sub S user w v hv
  rw [copyTests_eq] at hx
  refine Needed.imp ?_ ?_ ?_ (needed_of_bare S _ _ hsub sel x hx)
  · rintro y ⟨t, ht, hn, ha⟩
    obtain ⟨h1, h2⟩ := (leafAsgs_restrict S _ _ hsub t y.2).mp ha
    exact ⟨t, ht, hn, h1, (asgOK_iff _ _).mpr h2⟩
  · intro y z h; exact (mem_copyParents S user sel v y z).mpr h
  · intro a h; exact (asgOK_iff _ _).mpr h

/-- **The restricted copy, exactly** (every selection, user and worker restrictions; suites with unique test names
and an acyclic declared producer relation, `RankOK` as in C06/C07): the (test, assignment) pairs instantiated for
the restricted worker `w` are the unrestricted copy *minus the excluded variants, minus what is then no longer
needed*: the least set containing the selected tests composed with variants allowed for `w` and closed under
"parent in the unrestricted copy whose every vm variant is allowed for `w`". -/
theorem restricted_copy_tests (S : Suite) (user : List (String × VLine)) (sel : List RLine) (w v : Worker)
    (hv : v.restr = []) (hun : UniqueNames S) (rk : Name → Nat) (hrk : RankOK S rk)
    (x : Name × Asg) :
    x ∈ copyTests S user sel w ↔
      Needed (fun x => ∃ t ∈ selected S sel, x.1 = t.name ∧ x.2 ∈ leafAsgs S (allowed S user v) t ∧
          asgOK (allowed S user w) x.2 = true)
        (fun x y => y ∈ copyParents S user sel v x) (fun a => asgOK (allowed S user w) a = true) x := by
  constructor
  · exact restricted_copy_tests_needed S user sel w v hv x
  · intro h
    have hsub := allowed_sub S user w v hv
    rw [copyTests_eq]
    obtain ⟨rk', hrk', hb⟩ := rank_bounded S rk hrk
    refine bare_of_needed S _ _ hsub hun rk' hrk' hb sel x (Needed.imp ?_ ?_ ?_ h)
    · rintro y ⟨t, ht, hn, h1, h2⟩
      exact ⟨t, ht, hn, (leafAsgs_restrict S _ _ hsub t y.2).mpr ⟨h1, (asgOK_iff _ _).mp h2⟩⟩
    · intro y z h; exact (mem_copyParents S user sel v y z).mp h
    · intro a h; exact (asgOK_iff _ _).mp h

/-- **Edges, the inclusion that always holds**: a parent (test, assignment) of a node in the restricted copy is a
parent of the same (test, assignment) in the unrestricted copy, on variants allowed for `w`. -/
theorem restricted_copy_parents_subset (S : Suite) (user : List (String × VLine)) (sel : List RLine)
    (w v : Worker) (hv : v.restr = []) (x y : Name × Asg) (hy : y ∈ copyParents S user sel w x) :
    y ∈ copyParents S user sel v x ∧ asgOK (allowed S user w) y.2 = true := by
  rw [mem_copyParents, mem_bareParents_workerNodes] at hy ⊢
  obtain ⟨h1, h2⟩ := PEdge_mono S _ _ (allowed_sub S user w v hv) sel x y hy
  exact ⟨h1, (asgOK_iff _ _).mpr h2⟩

/-- **Edges of nodes present in both copies agree, modulo clone labels and excluded variants**: for a (test,
assignment) pair `x` of the restricted copy (it is in the unrestricted copy too, by
`restricted_copy_tests_subset`), its parent (test, assignment) set in the restricted copy is its parent set in
the unrestricted copy filtered by "every vm variant is allowed for `w`".  (Plain equality of the parent sets is
false: a producer on another vm loses the excluded variants, `restricted_copy_parents_filter_needed`.) -/
theorem restricted_copy_parents (S : Suite) (user : List (String × VLine)) (sel : List RLine) (w v : Worker)
    (hv : v.restr = []) (hun : UniqueNames S) (rk : Name → Nat) (hrk : RankOK S rk)
    (x : Name × Asg) (hx : x ∈ copyTests S user sel w) (y : Name × Asg) :
    y ∈ copyParents S user sel w x ↔
      y ∈ copyParents S user sel v x ∧ asgOK (allowed S user w) y.2 = true := by
  constructor
  · exact restricted_copy_parents_subset S user sel w v hv x y
  · rintro ⟨h1, h2⟩
    rw [mem_copyParents, mem_bareParents_workerNodes] at h1 ⊢
    rw [copyTests_eq] at hx
    obtain ⟨rk', hrk', hb⟩ := rank_bounded S rk hrk
    exact PEdge_restrict_back S _ _ (allowed_sub S user w v hv) hun rk' hrk' hb sel x y hx h1 ((asgOK_iff _ _).mp h2)

/-- the filter in `restricted_copy_parents` is needed: in `cx3`, `quick.d(vm1=A)` is in both copies; `m(A, Y)` is
its parent in the unrestricted copy only (worker `onlyX`) -/
theorem restricted_copy_parents_filter_needed :
    (["quick", "d"], [("vm1", "A")]) ∈ copyTests RDemo.cx3 [] RDemo.selLeaves RDemo.onlyX ∧
    (["internal", "m"], [("vm1", "A"), ("vm2", "Y")]) ∈
      copyParents RDemo.cx3 [] RDemo.selLeaves RDemo.free (["quick", "d"], [("vm1", "A")]) ∧
    (["internal", "m"], [("vm1", "A"), ("vm2", "Y")]) ∉
      copyParents RDemo.cx3 [] RDemo.selLeaves RDemo.onlyX (["quick", "d"], [("vm1", "A")]) := by
  refine ⟨by decide, by decide, by decide⟩

/-- why labels are erased: in `cx3` the unrestricted worker clones `quick.d` (two producers `m(A,X)`, `m(A,Y)`:
label `mst`), the worker restricted to `X` does not — the node *keys* of the restricted copy are not among the
unrestricted copy's, the bare pairs are -/
theorem restricted_copy_keys_differ :
    (⟨["quick", "d"], [("vm1", "A")], []⟩ : Key) ∈
      (resolveWorker RDemo.cx3 [] RDemo.selLeaves RDemo.onlyX).nodes.map (·.inst.key) ∧
    (⟨["quick", "d"], [("vm1", "A")], []⟩ : Key) ∉
      (resolveWorker RDemo.cx3 [] RDemo.selLeaves RDemo.free).nodes.map (·.inst.key) ∧
    (⟨["quick", "d"], [("vm1", "A")], ["mst"]⟩ : Key) ∈
      (resolveWorker RDemo.cx3 [] RDemo.selLeaves RDemo.free).nodes.map (·.inst.key) := by
  refine ⟨by decide, by decide, by decide⟩

/-! #### non-vacuity on `Demo.demo` (worker `onlyA`: `only_vm1 = A`) and on `cx3` (worker `onlyX`) -/

/-- the substitution hypothesis holds for the demo suite and the worker restricted to variant `A` … -/
example : ∀ vm ∈ Demo.demo.variants.map Prod.fst,
    (∃ x ∈ allowed Demo.demo [] RDemo.free vm, x ∉ allowed Demo.demo [] RDemo.onlyA vm) →
      ∀ t ∈ Demo.demo.tests, (fun _ => "A") vm ∈ allowedFor (allowed Demo.demo [] RDemo.onlyA) t vm := by decide
/-- … so does the witness-free hypothesis of `restricted_copy_tests_unconstrained_partial` … -/
example : ∀ vm ∈ Demo.demo.variants.map Prod.fst,
    (∃ x ∈ allowed Demo.demo [] RDemo.free vm, x ∉ allowed Demo.demo [] RDemo.onlyA vm) →
      allowed Demo.demo [] RDemo.onlyA vm ≠ [] ∧
        ∀ t ∈ Demo.demo.tests, t.only.find? (fun e => e.1 == vm) = none := by decide
/-- … the restriction does exclude something (the premise of the hypothesis is met for vm1) … -/
example : ∃ x ∈ allowed Demo.demo [] RDemo.free "vm1", x ∉ allowed Demo.demo [] RDemo.onlyA "vm1" := by decide
/-- … so the restricted copy is the filtered unrestricted copy; concretely the leaf on `A` and its whole setup
chain stay, everything on `B` goes -/
example (x : Name × Asg) : x ∈ copyTests Demo.demo [] RDemo.selLeaves RDemo.onlyA ↔
    x ∈ copyTests Demo.demo [] RDemo.selLeaves RDemo.free ∧ asgOK (allowed Demo.demo [] RDemo.onlyA) x.2 = true :=
  restricted_copy_tests_partial Demo.demo [] RDemo.selLeaves RDemo.onlyA RDemo.free rfl (fun _ => "A") (by decide) x
example : (["quick", "t"], [("vm1", "A")]) ∈ copyTests Demo.demo [] RDemo.selLeaves RDemo.onlyA ∧
    (["original", "install"], [("vm1", "A")]) ∈ copyTests Demo.demo [] RDemo.selLeaves RDemo.onlyA ∧
    (["quick", "t"], [("vm1", "B")]) ∈ copyTests Demo.demo [] RDemo.selLeaves RDemo.free ∧
    (["quick", "t"], [("vm1", "B")]) ∉ copyTests Demo.demo [] RDemo.selLeaves RDemo.onlyA := by
  refine ⟨by decide, by decide, by decide, by decide⟩
/-- the suite hypotheses of `restricted_copy_tests` / `restricted_copy_parents` hold for the demo suite and `cx3` -/
example : UniqueNames Demo.demo ∧ RankOK Demo.demo Demo.rk := by
  unfold UniqueNames RankOK; refine ⟨by decide, by decide⟩
example : UniqueNames RDemo.cx3 ∧ RankOK RDemo.cx3 RDemo.rk3 := by
  unfold UniqueNames RankOK; refine ⟨by decide, by decide⟩
/-- a node present in both copies with a non-empty parent set: `d(A)` hangs under both members of the group `m` -/
example : copyParents Demo.demo [] RDemo.selLeaves RDemo.onlyA (["internal", "d"], [("vm1", "A")]) =
    [(["internal", "m", "a"], [("vm1", "A")]), (["internal", "m", "b"], [("vm1", "A")])] := by decide
/-- `cx3` with the worker restricted to `X`: the hypothesis of the `_partial` theorem holds although clone labels
change, and the restricted worker keeps one of the two producers -/
example : ∀ vm ∈ RDemo.cx3.variants.map Prod.fst,
    (∃ x ∈ allowed RDemo.cx3 [] RDemo.free vm, x ∉ allowed RDemo.cx3 [] RDemo.onlyX vm) →
      ∀ t ∈ RDemo.cx3.tests, (fun _ => "X") vm ∈ allowedFor (allowed RDemo.cx3 [] RDemo.onlyX) t vm := by decide
example : copyParents RDemo.cx3 [] RDemo.selLeaves RDemo.onlyX (["quick", "d"], [("vm1", "A")]) =
    [(["internal", "m"], [("vm1", "A"), ("vm2", "X")])] := by decide

end I2N.Props.C09
