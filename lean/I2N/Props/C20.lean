import I2N.Lemmas.Tools
import I2N.Lemmas.ToolsChain
import I2N.Lemmas.ToolsTerm
import I2N.Extracted.GenManu
/-!
# C20 — Manual steps act once per selected vm and worker, in the given order

Model: `I2N/Model/Tools.lean` (the one `Driver/Tools.lean` runs).

* the star graph a step builds under the shared root (`buildPerVm`, `buildOneNode`) and its traversal by any number of
  workers under any interleaving (`runSched`: a schedule is an arbitrary list of worker slices) with the run policy
  the tools install (`not shared root and this worker has not finished it`);
* the setup chain loop of `Manu.run` (`runChain`), the return values of the built-in steps (`stepOutcome`) and what
  a reusing step leaves in `config["param_dict"]` (`reuseEnvAfter`).

`NamesWF g` (checked on every real graph by the harness): a node's name contains the id of exactly one worker of the
graph, the one it was parsed for — so `worker.id in node.params["name"]` is ownership.
-/
namespace I2N.Props.C20
open I2N.Tools

/-! ## executions of one step -/

/-- Safety under every interleaving, finished or not: no class of nodes (one test for one vm variant on one worker)
is executed twice by its worker. -/
theorem at_most_once (g : Star) (hwf : NamesWF g) (sched : List Nat) (w : Nat) (k : String) :
    cnt g (runSched g .star sched {}) w k ≤ 1 := by
  have h := (inv_runSched hwf sched {} (inv_init g)).count w k
  rw [h]; split <;> omega

/-- Only the worker a node was parsed for executes it (any interleaving, any prefix of the run). -/
theorem only_owner_executes (g : Star) (hwf : NamesWF g) (sched : List Nat) :
    ∀ e ∈ (runSched g .star sched {}).execs, owns g e.1 e.2 :=
  (inv_runSched hwf sched {} (inv_init g)).execOwned

/-- **once_per_vm_worker** — when the workers are done (whatever the interleaving was), every node class that exists
for a worker has been executed by that worker exactly once.  No bound on the number of vms, variants or workers. -/
theorem once_per_vm_worker (g : Star) (hwf : NamesWF g) (sched : List Nat)
    (hdone : allDone g (runSched g .star sched {}) = true) (w n : Nat) (ho : owns g w n) :
    cnt g (runSched g .star sched {}) w (keyOf g n) = 1 := by
  have inv := inv_runSched hwf sched {} (inv_init g)
  rw [inv.count w (keyOf g n)]
  simp [busy, done_dropped hwf hdone ho]

/-- … and nothing else is executed: an execution counted for `(w, k)` is the execution of a node of class `k` that
exists in the graph for worker `w`. -/
theorem nothing_else_executed (g : Star) (hwf : NamesWF g) (sched : List Nat) (w : Nat) (k : String)
    (h : 0 < cnt g (runSched g .star sched {}) w k) : ∃ n, owns g w n ∧ keyOf g n = k := by
  unfold cnt at h
  obtain ⟨e, he⟩ := List.exists_mem_of_length_pos h
  simp only [List.mem_filter, Bool.and_eq_true, beq_iff_eq] at he
  have := only_owner_executes g hwf sched e he.1
  exact ⟨e.2, by rw [← he.2.1]; exact this, he.2.2⟩

/-- The finished-worker test in the run flag is what makes this true: without it (`noFinishedCheck`) a single worker
with a single node executes it again on every visit. -/
example : let g : Star := { workers := ["net1"], nodes := [{ owner := 0, vms := ["vm1"], name := "t.vm1.net1", key := "t.vm1", params := [] }] }
    (runSched g .noFinishedCheck [0, 0, 0, 0, 0, 0] {}).execs = [(0, 0), (0, 0), (0, 0)] := by decide

/-! ## which nodes a step creates: selected vms × compatible workers, with the step's parameters -/

/-- **once per selected vm and compatible worker** (state steps `check … clean`): for every worker, every selected vm
object and every node the parser yields for them (none when the worker is incompatible with the vm), the finished
step has executed that node's class exactly once on that worker. -/
theorem step_once_per_vm_worker (workers vmObjs : List String) (parse : Parser) (pd step : Dict) (sched : List Nat)
    (hwf : NamesWF { workers := workers, nodes := buildPerVm workers.length vmObjs parse pd step })
    (hdone : allDone { workers := workers, nodes := buildPerVm workers.length vmObjs parse pd step }
      (runSched { workers := workers, nodes := buildPerVm workers.length vmObjs parse pd step } .star sched {}) = true)
    (w : Nat) (hw : w < workers.length) (vm : String) (hvm : vm ∈ vmObjs) (p : PNode) (hp : p ∈ parse w [vm]) :
    cnt { workers := workers, nodes := buildPerVm workers.length vmObjs parse pd step }
      (runSched { workers := workers, nodes := buildPerVm workers.length vmObjs parse pd step } .star sched {}) w p.key = 1 := by
  have hmem : ({ owner := w, vms := [vm], name := p.name, key := p.key, rank := p.rank,
                 params := ("object_suffix", vm) :: perVmDict pd step vm } : SNode) ∈
      buildPerVm workers.length vmObjs parse pd step := mem_buildPerVm.mpr ⟨w, hw, vm, hvm, p, hp, rfl⟩
  obtain ⟨n, hn⟩ := List.mem_iff_getElem?.mp hmem
  have ho : owns { workers := workers, nodes := buildPerVm workers.length vmObjs parse pd step } w n := ⟨_, hn, rfl⟩
  have := once_per_vm_worker _ hwf sched hdone w n ho
  simpa [keyOf, hn] using this

/-- **never_unselected** (state steps): every node of the step — hence every execution, by `only_owner_executes` —
is a node of exactly one selected vm, on a worker of the graph, and it is one the parser offered for that pair. -/
theorem never_unselected (nw : Nat) (vmObjs : List String) (parse : Parser) (pd step : Dict) (nd : SNode)
    (h : nd ∈ buildPerVm nw vmObjs parse pd step) :
    nd.owner < nw ∧ ∃ vm ∈ vmObjs, nd.vms = [vm] ∧ ∃ p ∈ parse nd.owner [vm], nd.name = p.name ∧ nd.key = p.key := by
  obtain ⟨w, hw, vm, hvm, p, hp, rfl⟩ := mem_buildPerVm.mp h
  exact ⟨hw, vm, hvm, rfl, p, hp, rfl, rfl⟩

/-- **params_applied** (state steps): in every node of the step the step's own dictionary wins over the command
line, the command line parameters the step does not mention are passed on, and `vms` is the node's vm. -/
theorem params_applied (nw : Nat) (vmObjs : List String) (parse : Parser) (pd step : Dict) (nd : SNode)
    (h : nd ∈ buildPerVm nw vmObjs parse pd step) :
    (∃ vm, nd.vms = [vm] ∧ dget nd.params "vms" = some vm ∧ dget nd.params "object_suffix" = some vm) ∧
    (∀ k v, k ≠ "vms" → k ≠ "object_suffix" → dget step k = some v → dget nd.params k = some v) ∧
    (∀ k, k ≠ "vms" → k ≠ "object_suffix" → dhas step k = false → dget nd.params k = dget pd k) := by
  obtain ⟨w, hw, vm, hvm, p, hp, rfl⟩ := mem_buildPerVm.mp h
  refine ⟨⟨vm, rfl, ?_, ?_⟩, ?_, ?_⟩
  · simp [perVmDict, dget, List.find?]
  · simp [dget, List.find?]
  · intro k v hk1 hk2 hs
    have e1 : (("object_suffix" : String) == k) = false := by simp; exact fun h => hk2 h.symm
    have e2 : (("vms" : String) == k) = false := by simp; exact fun h => hk1 h.symm
    simp only [perVmDict, dupdate]
    rw [dget_cons_ne _ _ _ e1, dget_cons_ne _ _ _ e2, dget_append, dhas_of_dget hs, if_pos rfl, hs]
  · intro k hk1 hk2 hs
    have e1 : (("object_suffix" : String) == k) = false := by simp; exact fun h => hk2 h.symm
    have e2 : (("vms" : String) == k) = false := by simp; exact fun h => hk1 h.symm
    simp only [perVmDict, dupdate]
    rw [dget_cons_ne _ _ _ e1, dget_cons_ne _ _ _ e2, dget_append, hs]
    simp

/-- the dictionaries of the reusing steps (`collect`, `create`, `clean`) reach the nodes as well: the temporary
update of the command line dictionary is in force while the nodes are parsed -/
theorem reuse_params_applied (t : ToolSpec) (nw : Nat) (vms vmObjs : List String) (parse : Parser) (pd : Dict)
    (hk : t.kind = .perVm) (hu : t.unsetDefaults = false) (nodes : List SNode)
    (hb : buildTool t nw vms vmObjs parse pd = .ok nodes) (nd : SNode) (h : nd ∈ nodes)
    (k v : String) (hk1 : k ≠ "vms") (hk2 : k ≠ "object_suffix") (hs : dhas t.step k = false)
    (hr : dget t.reuse k = some v) : dget nd.params k = some v := by
  simp only [buildTool, hk, stepDict, hu, Bool.false_eq_true, if_false, Except.ok.injEq] at hb
  subst hb
  rw [(params_applied _ _ _ _ _ nd h).2.2 k hk1 hk2 hs, dupdate, dget_append, dhas_of_dget hr, if_pos rfl, hr]

/-- **multi-vm steps** (`boot … shutdown`): every node of the step is the one variant the parser has for a worker and
*all* selected vms at once, with `main_vm` the first of them and the command line parameters passed on. -/
theorem one_node_sound (nw : Nat) (vms : List String) (parse : Parser) (pd : Dict)
    (nodes : List SNode) (hb : buildOneNode nw vms parse pd = .ok nodes) (nd : SNode) (h : nd ∈ nodes) :
    nd.owner < nw ∧ nd.vms = vms ∧ (∃ p, parse nd.owner vms = [p] ∧ nd.name = p.name ∧ nd.key = p.key) ∧
      dget nd.params "vms" = some (" ".intercalate vms) ∧ dget nd.params "main_vm" = vms.head? ∧
      (∀ k, k ≠ "vms" → k ≠ "main_vm" → dget nd.params k = dget pd k) := by
  cases vms with
  | nil => simp [buildOneNode] at hb
  | cons first rest =>
    simp only [buildOneNode] at hb
    obtain ⟨w, hw, p, hp, rfl⟩ := (mem_oneNodeLoop hb nd).mp h
    refine ⟨List.mem_range.mp hw, rfl, ⟨p, hp, rfl, rfl⟩, ?_, ?_, ?_⟩
    · simp [oneNodeDict, dupdate, dget]
    · simp [oneNodeDict, dupdate, dget]
    · intro k h1 h2
      have e1 : (("vms" : String) == k) = false := by simp; exact fun h => h1 h.symm
      have e2 : (("main_vm" : String) == k) = false := by simp; exact fun h => h2 h.symm
      simp only [oneNodeDict, dupdate, List.cons_append, List.nil_append]
      rw [dget_cons_ne _ _ _ e1, dget_cons_ne _ _ _ e2]

/-- … and every worker that has exactly one variant gets its node (workers without a variant get none, by
`one_node_sound`: a node's worker has exactly one). -/
theorem one_node_complete (nw : Nat) (vms : List String) (parse : Parser) (pd : Dict)
    (nodes : List SNode) (hb : buildOneNode nw vms parse pd = .ok nodes) (w : Nat) (hw : w < nw) (p : PNode)
    (hp : parse w vms = [p]) : ∃ nd ∈ nodes, nd.owner = w ∧ nd.vms = vms ∧ nd.name = p.name ∧ nd.key = p.key := by
  cases vms with
  | nil => simp [buildOneNode] at hb
  | cons first rest =>
    simp only [buildOneNode] at hb
    exact ⟨_, (mem_oneNodeLoop hb _).mpr ⟨w, List.mem_range.mpr hw, p, hp, rfl⟩, rfl, rfl, rfl, rfl⟩

/-- a multi-vm step is refused (`RuntimeError`, before anything runs) only when some worker has several variants of
the test for the selected vms; an empty selection is an `IndexError` -/
theorem one_node_error (nw : Nat) (vms : List String) (parse : Parser) (pd : Dict) (e : Err)
    (hb : buildOneNode nw vms parse pd = .error e) :
    (vms = [] ∧ e = .indexError) ∨ (e = .runtimeError ∧ ∃ w, w < nw ∧ 2 ≤ (parse w vms).length) := by
  cases vms with
  | nil => simp [buildOneNode] at hb; exact Or.inl ⟨rfl, hb.symm⟩
  | cons first rest =>
    simp only [buildOneNode] at hb
    obtain ⟨h1, w, hw, h2⟩ := oneNodeLoop_error hb
    exact Or.inr ⟨h1, w, List.mem_range.mp hw, h2⟩

/-- non-vacuity: two workers, two vms (one with two variants and twins in two test sets, one incompatible with the
second worker); an arbitrary interleaving finishes and each class ran once -/
example :
    let parse : Parser := fun w vms =>
      if vms == ["vm1"] then [{ name := s!"all.check.vm1.net{w + 1}", key := "check.vm1" },
                             { name := s!"nonleaves.check.vm1.net{w + 1}", key := "check.vm1" }]
      else if vms == ["vm3"] && w == 0 then [{ name := "all.check.vm3.Kali.net1", key := "check.vm3.Kali", rank := 1 },
                                             { name := "all.check.vm3.Ubuntu.net1", key := "check.vm3.Ubuntu" }]
      else []
    let g : Star := { workers := ["net1", "net2"], nodes := buildPerVm 2 ["vm1", "vm3", "vm3"] parse [("nets", "net1 net2")] (stateStep "check") }
    let fin := runSched g .star [0, 1, 1, 0, 0, 0, 1, 0, 0, 1, 0] {}
    g.nodes.length = 8 ∧ allDone g fin = true ∧ fin.execs = [(0, 0), (1, 6), (0, 3), (0, 2)] ∧
      cnt g fin 0 "check.vm1" = 1 ∧ cnt g fin 0 "check.vm3.Kali" = 1 ∧ cnt g fin 1 "check.vm3.Kali" = 0 := by decide

/-! ## the setup chain of `Manu.run` -/

/-- **chain_order_kept / chain_runs_all**: whatever the steps do (return, fail, raise — `f` is arbitrary), the loop
calls every step of the chain exactly once, in the given order, the `i`-th with tag index `i`; repeated steps are
called as often as they occur.  A failing step does not prevent the later ones. -/
theorem chain_order_kept {σ : Type} (known : String → Bool) (f : σ → String → Nat → Outcome × σ) (env : σ)
    (chain : List String) (hk : ∀ st ∈ chain, known st = true) :
    (runChain known f env chain).executed = chain.zipIdx := by
  simp only [runChain]
  exact runChainFrom_executed known f chain env 0 0 hk

/-- in particular: as many calls as the chain has steps, and the `k`-th call is the `k`-th step -/
theorem chain_runs_all {σ : Type} (known : String → Bool) (f : σ → String → Nat → Outcome × σ) (env : σ)
    (chain : List String) (hk : ∀ st ∈ chain, known st = true) :
    (runChain known f env chain).executed.length = chain.length ∧
    (runChain known f env chain).executed.map (·.1) = chain := by
  rw [chain_order_kept known f env chain hk]
  simp

/-- regression (before 3361dd0 the chain was `Params.objects(setup)`): `run, boot, run` ran `run, boot` only; now all
three calls are made -/
example : (runChainFrom (fun _ => true) (fun (_ : Unit) _ _ => (Outcome.ret 0, ())) () 0 0 (objects ["run", "boot", "run"])).executed
      = [("run", 0), ("boot", 1)] ∧
    (runChain (fun _ => true) (fun (_ : Unit) _ _ => (Outcome.ret 0, ())) () ["run", "boot", "run"]).executed
      = [("run", 0), ("boot", 1), ("run", 2)] := by decide

/-- **chain_fails_iff_any**: the return code is 1 exactly when some executed step returned something else than
`None`/0 or raised; otherwise 0.  (All chains; induction on the list.) -/
theorem chain_fails_iff_any {σ : Type} (known : String → Bool) (f : σ → String → Nat → Outcome × σ) (env : σ)
    (chain : List String) (hk : ∀ st ∈ chain, known st = true) :
    (runChain known f env chain).ret = .ok (if (runChain known f env chain).outcomes.any Outcome.fails then 1 else 0) ∧
    (runChain known f env chain).outcomes.length = chain.length := by
  simp only [runChain]
  exact ⟨runChainFrom_ret known f chain env 0 0 hk, runChainFrom_outcomes_length known f chain env 0 0 hk⟩

/-- a step name that is not a tool escapes the loop as `AttributeError` (the `getattr` is outside the `try`): the steps
before it were run, those after it are not -/
theorem unknown_step_aborts {σ : Type} (known : String → Bool) (f : σ → String → Nat → Outcome × σ) (env : σ)
    (pre post : List String) (bad : String) (hpre : ∀ st ∈ pre, known st = true) (hbad : known bad = false) :
    (runChain known f env (pre ++ bad :: post)).ret = .error .attributeError ∧
    (runChain known f env (pre ++ bad :: post)).executed = pre.zipIdx := by
  simp only [runChain]
  exact runChainFrom_unknown known f pre bad post env 0 0 hpre hbad

/-- a command line that does not parse: return code 1, nothing executed -/
theorem bad_command_line {σ : Type} (known : String → Bool) (f : σ → String → Nat → Outcome × σ) (env : σ)
    (chain : List String) : (manuRun false known f env chain).ret = .ok 1 ∧ (manuRun false known f env chain).executed = [] := by
  simp [manuRun]

/-- **step_failure_reported** — a failing step makes the chain report failure: every built-in step of the table
(the reusing `collect`, `create`, `clean` included) counts as failed for `Manu.run` exactly when it raised or one of
its tests ended badly. -/
theorem step_failure_reported (t : ToolSpec) (raised allOk : Bool) :
    (stepOutcome t raised allOk).fails = (raised || !allOk) := by
  cases raised <;> cases allOk <;> simp [stepOutcome, Outcome.fails]

/-- … lifted to the chain: with the built-in steps, `Manu.run` returns 1 iff some step of the chain that is in the
table raised or had a bad result, or a step outside the table (`noop`, …) raised. -/
theorem builtin_chain_retcode (known : String → Bool) (beh : Nat → Bool × Bool) (pd : Dict) (chain : List String)
    (hk : ∀ st ∈ chain, known st = true) (st : String) (i : Nat) :
    ((builtinStep beh pd st i).1.fails = match toolSpec st with
      | some _ => ((beh i).1 || !(beh i).2)
      | none => (beh i).1) ∧
    (runChain known (builtinStep beh) pd chain).ret =
      .ok (if (runChain known (builtinStep beh) pd chain).outcomes.any Outcome.fails then 1 else 0) := by
  refine ⟨?_, (chain_fails_iff_any known _ pd chain hk).1⟩
  unfold builtinStep
  cases ht : toolSpec st with
  | none => cases h : (beh i).1 <;> simp [Outcome.fails]
  | some t => simp [step_failure_reported]

/-- regression (before 5f9a82c): `create` whose tests failed returned `None`, so `create, check` reported success;
now the chain returns 1 -/
example :
    (toolSpec "create").map (fun t => (stepOutcomePreFix t false false).fails) = some false ∧
    (runChain (fun _ => true) (builtinStepPreFix (fun i => (false, i != 0))) [] ["create", "check"]).ret = .ok 0 ∧
    (runChain (fun _ => true) (builtinStep (fun i => (false, i != 0))) [] ["create", "check"]).ret = .ok 1 := by decide

/-- **chain_env_unchanged** — the command line dictionary is the same for every step of the chain, whatever the steps
do (fail, raise): a reusing step's temporary parameters never reach a later step. -/
theorem chain_env_unchanged (known : String → Bool) (beh : Nat → Bool × Bool) (pd : Dict) (chain : List String) :
    ∀ e ∈ envTrace known (builtinStep beh) pd 0 chain, e = pd := by
  apply envTrace_const
  intro st j
  simp only [builtinStep]
  split <;> rfl

/-- regression (before 79572ad): `clean` raises (its environment does not start); the following `unset` started with
`unset_state_images=root unset_mode_images=fa pool_scope=own` in the command line dictionary -/
example :
    (envTrace (fun _ => true) (builtinStepPreFix (fun i => (i == 0, true))) [("nets", "net1")] 0 ["clean", "unset"]).map
        (fun d => (dget d "unset_state_images", dget d "unset_mode_images", dget d "pool_scope"))
      = [(none, none, none), (some "root", some "fa", some "own")] ∧
    (envTrace (fun _ => true) (builtinStep (fun i => (i == 0, true))) [("nets", "net1")] 0 ["clean", "unset"]).map
        (fun d => (dget d "unset_state_images", dget d "unset_mode_images", dget d "pool_scope"))
      = [(none, none, none), (none, none, none)] := by decide

/-- non-vacuity of the chain theorems: a chain with a failing first and a raising third step, and a repeated step -/
example : let r := runChain (fun s => s != "nosuch") (builtinStep (fun i => (i == 2, i != 0))) [] ["check", "noop", "boot", "check"]
    r.ret = .ok 1 ∧ r.executed = [("check", 0), ("noop", 1), ("boot", 2), ("check", 3)] ∧
      r.outcomes = [.ret 1, .retNone, .raised, .ret 0] := by decide

/-! ## termination of the star traversal

`mu g s w = 2·|candidates g s w| + [w is idle]` is the measure of worker `w`, `totMu` its sum over the workers of the
graph, `relCount g w` the number of nodes relevant to `w` (its candidates at the start), `effSlices g sched s` the
number of slices of `sched` that are not spent on a done worker.  None of the termination theorems needs `NamesWF`
(only the tight bound `2·|nodes|` and the combination with the once-per-class theorems do).

Scheduling assumption: **none** for the bound on the slices that do anything (`star_effective_slices_bounded`: every
schedule, any order); for "all workers are done at the end" the only assumption is that no worker is starved, in the
weakest counting form: worker `w` gets at least `2·relCount g w` slices *somewhere* in the schedule
(`star_terminates`; order, position and the slices of the others are arbitrary).  Without it the statement is false: a
schedule that never mentions a worker that has a node leaves that worker not done (`example` below). -/

/-- **star_slice_lowers_measure** — in every reachable state (after any schedule `pre`), a slice of a worker that is
not done strictly lowers that worker's measure, leaves the measure of every other worker as it is, and so strictly
lowers the total measure. -/
theorem star_slice_lowers_measure (g : Star) (pre : List Nat) (w : Nat)
    (hnd : workerDone g (runSched g .star pre {}) w = false) :
    mu g (runSched g .star (pre ++ [w]) {}) w < mu g (runSched g .star pre {}) w ∧
    (∀ v, v ≠ w → mu g (runSched g .star (pre ++ [w]) {}) v = mu g (runSched g .star pre {}) v) ∧
    totMu g (runSched g .star (pre ++ [w]) {}) < totMu g (runSched g .star pre {}) := by
  have h := pcCand_runSched pre {} (pcCand_init g)
  have e : runSched g .star (pre ++ [w]) {} = micro g .star (runSched g .star pre {}) w := by
    rw [runSched_append, runSched_cons]; rfl
  rw [e]
  exact ⟨mu_micro_lt h hnd, fun v hv => mu_micro_other g _ hv, totMu_micro_lt h hnd⟩

/-- … while a slice of a done worker — or of an index that is no worker of the graph, which always counts as done —
is a no-op: the state (executions included) is literally unchanged. -/
theorem star_done_slice_noop (g : Star) (pre : List Nat) (w : Nat) :
    (g.workers.length ≤ w → workerDone g (runSched g .star pre {}) w = true) ∧
    (workerDone g (runSched g .star pre {}) w = true →
      runSched g .star (pre ++ [w]) {} = runSched g .star pre {}) := by
  have h := pcCand_runSched pre {} (pcCand_init g)
  refine ⟨fun hw => workerDone_out_of_range h hw, fun hd => ?_⟩
  rw [runSched_append, runSched_cons, micro_done hd]; rfl

/-- progress: as long as not all workers are done there is a worker of the graph whose slice lowers the measure -/
theorem star_progress (g : Star) (pre : List Nat) (h : allDone g (runSched g .star pre {}) = false) :
    ∃ w, w < g.workers.length ∧ totMu g (runSched g .star (pre ++ [w]) {}) < totMu g (runSched g .star pre {}) := by
  simp only [allDone, List.all_eq_false, List.mem_range] at h
  obtain ⟨w, hw, hnd⟩ := h
  exact ⟨w, hw, (star_slice_lowers_measure g pre w (by simpa using hnd)).2.2⟩

/-- **every schedule, no assumption**: of the slices of an arbitrary schedule at most `2·Σ_w relCount g w`
`≤ 2·|workers|·|nodes|` are not no-ops on done workers.  (So a schedule that never wastes a slice on a done worker
is at most that long, and by `star_progress` it can always be continued until all workers are done.) -/
theorem star_effective_slices_bounded (g : Star) (sched : List Nat) :
    effSlices g sched {} ≤ 2 * sumTo g.workers.length (relCount g) ∧
    2 * sumTo g.workers.length (relCount g) ≤ 2 * (g.workers.length * g.nodes.length) := by
  have := sum_relCount_le_mul g
  exact ⟨effSlices_bound g sched, by omega⟩

/-- … and with well-formed names (every node is relevant to its own worker only) the bound is `2·|nodes|`,
independent of the number of workers: one slice to start and one to end each node, at most. -/
theorem star_effective_slices_bounded_wf (g : Star) (hwf : NamesWF g) (sched : List Nat) :
    effSlices g sched {} ≤ 2 * g.nodes.length := by
  have := effSlices_bound g sched
  have := sum_relCount_le g hwf
  omega

/-- **star_terminates** — every schedule `ext` in which each worker `w` of the graph occurs at least
`2·relCount g w` times (in any order, interleaved with anything, started in any reachable state, i.e. after any
schedule `pre`) ends with every worker done.  No assumption on the names. -/
theorem star_terminates (g : Star) (pre ext : List Nat)
    (hfair : ∀ w, w < g.workers.length → 2 * relCount g w ≤ ext.count w) :
    allDone g (runSched g .star (pre ++ ext) {}) = true := by
  have h := pcCand_runSched pre {} (pcCand_init g)
  rw [runSched_append]
  apply allDone_of_counts h
  intro w hw
  have h1 := mu_runSched_mono w pre {} (pcCand_init g)
  have h2 := mu_init g w
  have := hfair w hw
  omega

/-- … in particular with the uniform bound: `2·|nodes|` slices for every worker suffice. -/
theorem star_terminates_uniform (g : Star) (pre ext : List Nat)
    (hfair : ∀ w, w < g.workers.length → 2 * g.nodes.length ≤ ext.count w) :
    allDone g (runSched g .star (pre ++ ext) {}) = true :=
  star_terminates g pre ext fun w hw => by
    have := relCount_le g w
    have := hfair w hw
    omega

/-- … in particular round robin: from every reachable state, `2·|nodes|` rounds over the workers — an explicit
schedule of `2·|nodes|·|workers|` slices — end with every worker done (no deadlock, no livelock). -/
theorem star_round_robin_terminates (g : Star) (pre : List Nat) :
    (roundRobin g.workers.length (2 * g.nodes.length)).length = 2 * g.nodes.length * g.workers.length ∧
    allDone g (runSched g .star (pre ++ roundRobin g.workers.length (2 * g.nodes.length)) {}) = true :=
  ⟨roundRobin_length _ _, star_terminates_uniform g pre _ fun _ hw => roundRobin_count hw _⟩

/-- … and the usual notion of a schedule without starvation: the schedule is a sequence of rounds (of any length
and order, with repetitions), every round contains every worker of the graph at least once, and there are at least
`2·|nodes|` rounds. -/
theorem star_terminates_rounds (g : Star) (pre : List Nat) (rounds : List (List Nat))
    (hlen : 2 * g.nodes.length ≤ rounds.length)
    (hall : ∀ r ∈ rounds, ∀ w, w < g.workers.length → w ∈ r) :
    allDone g (runSched g .star (pre ++ rounds.flatten) {}) = true :=
  star_terminates_uniform g pre _ fun w hw => by
    have := count_flatten_ge (w := w) rounds (fun r hr => hall r hr w hw)
    omega

/-- **every schedule is as good as a short one** (no assumption): for every schedule there is a sub-schedule — the
slices not spent on done workers, in the same order — of at most `2·|workers|·|nodes|` slices, none of them wasted,
that ends in literally the same state (same executions in the same order, same registers). -/
theorem star_every_schedule_short (g : Star) (sched : List Nat) :
    ∃ short : List Nat, short.Sublist sched ∧ short.length ≤ 2 * (g.workers.length * g.nodes.length) ∧
      effSlices g short {} = short.length ∧ runSched g .star short {} = runSched g .star sched {} := by
  refine ⟨effSub g sched {}, effSub_sublist g sched {}, ?_, effSlices_effSub g sched {}, runSched_effSub g sched {}⟩
  rw [effSub_length]
  have := star_effective_slices_bounded g sched
  omega

/-- **the exact number**: in every schedule the slices that do something are two per finished execution and one per
execution still running; so a schedule that ends with all workers done has spent exactly `2·|executions|` slices on
workers that were not done (all others were no-ops). -/
theorem star_effective_slices_exact (g : Star) (sched : List Nat) :
    effSlices g sched {} + busyC g (runSched g .star sched {}) = 2 * (runSched g .star sched {}).execs.length ∧
    (allDone g (runSched g .star sched {}) = true →
      effSlices g sched {} = 2 * (runSched g .star sched {}).execs.length) := by
  have h := effSlices_exact (g := g) sched {} (pcCand_init g) (finDropped_init g)
  rw [busyC_init] at h
  simp only [List.length_nil, Nat.mul_zero, Nat.zero_add, Nat.add_zero] at h
  refine ⟨by omega, fun hd => ?_⟩
  have := busyC_allDone hd
  omega

/-- once every worker is done nothing happens any more: whatever slices follow, the state — executions included —
stays the same -/
theorem star_done_stable (g : Star) (pre ext : List Nat) (hd : allDone g (runSched g .star pre {}) = true) :
    runSched g .star (pre ++ ext) {} = runSched g .star pre {} := by
  rw [runSched_append]
  exact runSched_allDone ext _ (pcCand_runSched pre {} (pcCand_init g)) hd

/-- the assumption of `star_terminates` cannot be dropped: a schedule that starves a worker that has a node does not
end with all workers done, however long it is (here: worker 1 never scheduled; 40 slices of worker 0) -/
example : let g : Star := { workers := ["net1", "net2"],
                            nodes := [{ owner := 0, vms := ["vm1"], name := "t.vm1.net1", key := "t.vm1", params := [] },
                                      { owner := 1, vms := ["vm1"], name := "t.vm1.net2", key := "t.vm1", params := [] }] }
    allDone g (runSched g .star (List.replicate 40 0) {}) = false := by decide

/-- termination needs no assumption on the names, the once-per-class theorems do: with worker ids of which one is a
substring of the other (`net1`, `net11`: known finding `worker-id-substring-of-another`) the names are not well-formed,
the fair schedule still ends done (by `star_terminates`), but `net1` has also executed the node parsed for `net11`. -/
example : let g : Star := { workers := ["net1", "net11"],
                            nodes := [{ owner := 0, vms := ["vm1"], name := "t.vm1.net1", key := "t.vm1", params := [] },
                                      { owner := 1, vms := ["vm1"], name := "t.vm2.net11", key := "t.vm2", params := [] }] }
    namesOk g = false ∧ relCount g 0 = 2 ∧ relCount g 1 = 1 ∧
      allDone g (runSched g .star [0, 1, 0, 1, 0, 0] {}) = true ∧
      (runSched g .star [0, 1, 0, 1, 0, 0] {}).execs = [(0, 0), (1, 1), (0, 1)] := by decide

/-- **executions of a fairly scheduled step** — with well-formed names, under the assumption of `star_terminates`:
every worker is done, every class of nodes that exists for a worker was executed by that worker exactly once, every
execution is by the node's own worker, nothing else was executed, and whatever slices follow change nothing. -/
theorem star_fair_exactly_once (g : Star) (hwf : NamesWF g) (sched : List Nat)
    (hfair : ∀ w, w < g.workers.length → 2 * relCount g w ≤ sched.count w) :
    allDone g (runSched g .star sched {}) = true ∧
    (∀ w n, owns g w n → cnt g (runSched g .star sched {}) w (keyOf g n) = 1) ∧
    (∀ e ∈ (runSched g .star sched {}).execs, owns g e.1 e.2) ∧
    (∀ w k, 0 < cnt g (runSched g .star sched {}) w k → ∃ n, owns g w n ∧ keyOf g n = k) ∧
    (∀ more, runSched g .star (sched ++ more) {} = runSched g .star sched {}) := by
  have hd : allDone g (runSched g .star sched {}) = true := by
    simpa using star_terminates g [] sched hfair
  exact ⟨hd, fun w n ho => once_per_vm_worker g hwf sched hd w n ho, only_owner_executes g hwf sched,
    fun w k h => nothing_else_executed g hwf sched w k h, fun more => star_done_stable g sched more hd⟩

/-- **state steps, fairly scheduled: executions = selected vm objects × compatible workers, each once.**  For the
graph a state step builds and every schedule that gives each worker `2·|nodes|` slices: all workers are done; for every
worker, selected vm object and node the parser yields for the pair, that node's class ran exactly once on that
worker; and every class that ran on a worker is the class of a node the parser yields for that worker and a selected
vm object. -/
theorem step_fair_exactly_once (workers vmObjs : List String) (parse : Parser) (pd step : Dict) (sched : List Nat)
    (hwf : NamesWF { workers := workers, nodes := buildPerVm workers.length vmObjs parse pd step })
    (hfair : ∀ w, w < workers.length → 2 * (buildPerVm workers.length vmObjs parse pd step).length ≤ sched.count w) :
    allDone { workers := workers, nodes := buildPerVm workers.length vmObjs parse pd step }
      (runSched { workers := workers, nodes := buildPerVm workers.length vmObjs parse pd step } .star sched {}) = true ∧
    (∀ w, w < workers.length → ∀ vm ∈ vmObjs, ∀ p ∈ parse w [vm],
      cnt { workers := workers, nodes := buildPerVm workers.length vmObjs parse pd step }
        (runSched { workers := workers, nodes := buildPerVm workers.length vmObjs parse pd step } .star sched {}) w p.key = 1) ∧
    (∀ w k, 0 < cnt { workers := workers, nodes := buildPerVm workers.length vmObjs parse pd step }
        (runSched { workers := workers, nodes := buildPerVm workers.length vmObjs parse pd step } .star sched {}) w k →
      w < workers.length ∧ ∃ vm ∈ vmObjs, ∃ p ∈ parse w [vm], p.key = k) := by
  have hd : allDone { workers := workers, nodes := buildPerVm workers.length vmObjs parse pd step }
      (runSched { workers := workers, nodes := buildPerVm workers.length vmObjs parse pd step } .star sched {}) = true := by
    simpa using star_terminates_uniform { workers := workers, nodes := buildPerVm workers.length vmObjs parse pd step }
      [] sched hfair
  refine ⟨hd, fun w hw vm hvm p hp => step_once_per_vm_worker workers vmObjs parse pd step sched hwf hd w hw vm hvm p hp, ?_⟩
  intro w k hpos
  obtain ⟨n, ⟨nd, hn, hown⟩, hk⟩ := nothing_else_executed _ hwf sched w k hpos
  obtain ⟨hlt, vm, hvm, _, p, hp, _, hkey⟩ := never_unselected workers.length vmObjs parse pd step nd
    (List.mem_of_getElem? hn)
  subst hown
  refine ⟨hlt, vm, hvm, p, hp, ?_⟩
  rw [← hk, ← hkey]
  simp [keyOf, hn]

/-- non-vacuity of the termination theorems: the graph of the example above (two workers, a vm with twins in two test
sets, a vm with two variants that is incompatible with the second worker; 8 nodes).  Its names are well-formed; worker 0
has 6 relevant nodes, worker 1 has 2; a schedule that is fair in the sense of `star_terminates` (12 and 4 slices, in
blocks — not round robin) ends done with the four executions; only 8 of its 16 slices do something; the measure goes
from 18 to 2 (= number of workers); after `[0, 1]` worker 0 is not done and its next slice (the end of the test with
the twin) lowers its measure from 12 to 9. -/
example :
    let parse : Parser := fun w vms =>
      if vms == ["vm1"] then [{ name := s!"all.check.vm1.net{w + 1}", key := "check.vm1" },
                             { name := s!"nonleaves.check.vm1.net{w + 1}", key := "check.vm1" }]
      else if vms == ["vm3"] && w == 0 then [{ name := "all.check.vm3.Kali.net1", key := "check.vm3.Kali", rank := 1 },
                                             { name := "all.check.vm3.Ubuntu.net1", key := "check.vm3.Ubuntu" }]
      else []
    let g : Star := { workers := ["net1", "net2"], nodes := buildPerVm 2 ["vm1", "vm3", "vm3"] parse [("nets", "net1 net2")] (stateStep "check") }
    let sched := List.replicate 5 0 ++ List.replicate 4 1 ++ List.replicate 7 0
    NamesWF g ∧ relCount g 0 = 6 ∧ relCount g 1 = 2 ∧
      (∀ w, w < g.workers.length → 2 * relCount g w ≤ sched.count w) ∧
      allDone g (runSched g .star sched {}) = true ∧
      (runSched g .star sched {}).execs = [(0, 0), (0, 3), (0, 2), (1, 6)] ∧
      effSlices g sched {} = 8 ∧ totMu g {} = 18 ∧ totMu g (runSched g .star sched {}) = 2 ∧
      workerDone g (runSched g .star [0, 1] {}) 0 = false ∧
      mu g (runSched g .star [0, 1] {}) 0 = 12 ∧ mu g (runSched g .star [0, 1, 0] {}) 0 = 9 := by
  refine ⟨namesWF_of_namesOk (by decide), by decide, by decide, by decide, by decide, by decide, by decide, by decide,
    by decide, by decide, by decide, by decide⟩

/-! ## The model's chain loop is the Python source of `Manu.run` (translator tie)

`I2N/Extracted/GenManu.lean` is regenerated on every `./check C20` from the CURRENT source of
`avocado_i2n/plugins/manu.py` by `harness/pygen_pxcmd.py`: the `for i, setup_step in enumerate(setup_chain)` loop is
cut out of `Manu.run` (everything in front of it and behind it is pinned: `retcode = 0`, `return retcode`), its body is
matched structurally (`run_params["count"] = i`; `getattr` outside the `try`; one `try … except Exception as error`),
and the two bodies that decide about the return code — the `try` body and the handler — are translated by
`harness/pygen.py` (`genTryBody`, `genExceptBody`).  `genChainStep` / `genChainLoop` / `genManuChain` put them together
(hand written skeleton, printed in the generated file). -/

section MatchesSource
open I2N.Extracted.GenManu
variable {σ : Type}

theorem genTryBody_run (o : Outcome) (s : ChainSt σ) :
    ((genTryBody o).run).run s = (.ok (), { s with rc := if o.fails then 1 else s.rc }) := by
  unfold genTryBody
  cases h : o.fails <;> simp [h] <;> rfl

theorem genExceptBody_run (s : ChainSt σ) :
    ((genExceptBody (σ := σ)).run).run s = (.ok (), { s with rc := 1 }) := rfl

/-- one iteration of the regenerated loop body, computed -/
theorem genChainStep_run (known : String → Bool) (f : σ → String → Nat → Outcome × σ) (i : Nat) (st : String)
    (s : ChainSt σ) :
    ((genChainStep known f i st).run).run s =
      if !known st then (.error .attributeError, s)
      else (.ok (), { rc := if (f s.env st i).1.fails then 1 else s.rc, env := (f s.env st i).2,
                      executed := s.executed ++ [(st, i)], outcomes := s.outcomes ++ [(f s.env st i).1] }) := by
  unfold genChainStep
  cases hk : known st
  · rfl
  · simp only [ExceptT.run_mk, StateT.run, Bool.not_true, Bool.false_eq_true, if_false]
    cases ho : (f s.env st i).1 with
    | raised => exact genExceptBody_run _
    | retNone => exact genTryBody_run _ _
    | ret n => exact genTryBody_run _ _

/-- the result of the regenerated chain as a `ChainResult` -/
def chainResult (r : Except Err Nat × ChainSt σ) : ChainResult σ :=
  { ret := r.1, executed := r.2.executed, outcomes := r.2.outcomes, env := r.2.env }

theorem genChainLoop_run (known : String → Bool) (f : σ → String → Nat → Outcome × σ) (chain : List String) :
    ∀ (i : Nat) (s : ChainSt σ),
      (((genChainLoop known f i chain).run).run s).1.map (fun _ => (((genChainLoop known f i chain).run).run s).2.rc)
          = (runChainFrom known f s.env i s.rc chain).ret ∧
      (((genChainLoop known f i chain).run).run s).2.executed
          = s.executed ++ (runChainFrom known f s.env i s.rc chain).executed ∧
      (((genChainLoop known f i chain).run).run s).2.outcomes
          = s.outcomes ++ (runChainFrom known f s.env i s.rc chain).outcomes ∧
      (((genChainLoop known f i chain).run).run s).2.env = (runChainFrom known f s.env i s.rc chain).env := by
  induction chain with
  | nil => intro i s; exact ⟨rfl, by simp [genChainLoop, runChainFrom]; rfl, by simp [genChainLoop, runChainFrom]; rfl, rfl⟩
  | cons st rest ih =>
    intro i s
    have hstep := genChainStep_run known f i st s
    have hrun : ((genChainLoop known f i (st :: rest)).run).run s =
        match ((genChainStep known f i st).run).run s with
        | (.ok _, s') => ((genChainLoop known f (i + 1) rest).run).run s'
        | (.error e, s') => (.error e, s') := rfl
    rw [hrun, hstep]
    cases hk : known st
    · simp [runChainFrom, hk, Except.map]
    · simp only [Bool.not_true, Bool.false_eq_true, if_false, runChainFrom, hk]
      have := ih (i + 1) ⟨if (f s.env st i).1.fails then 1 else s.rc, (f s.env st i).2,
        s.executed ++ [(st, i)], s.outcomes ++ [(f s.env st i).1]⟩
      simp only [List.append_assoc, List.singleton_append] at this
      exact this

/-- **The hand written `runChain` IS the chain loop of `Manu.run`** -/
theorem runChain_matches_source (known : String → Bool) (f : σ → String → Nat → Outcome × σ) (env : σ)
    (chain : List String) :
    chainResult (genManuChain known f env chain) = runChain known f env chain := by
  obtain ⟨h1, h2, h3, h4⟩ := genChainLoop_run known f chain 0 ⟨0, env, [], []⟩
  unfold chainResult genManuChain runChain
  simp only [List.nil_append] at h2 h3
  simp only [h1, h2, h3, h4]

/-- the regenerated chain computes: three steps, the second raises — all three are called, in order, with their
indices, the return code is 1 (the seeded regression `retcode = retcode or …` skipped the third step); an unknown
step lets AttributeError escape after the steps in front of it ran -/
example : let f : Nat → String → Nat → Outcome × Nat := fun e st _ => (if st == "b" then .raised else .ret 0, e + 1)
    let r := genManuChain (fun _ => true) f 0 ["a", "b", "a"]
    r.1.toOption = some 1 ∧ r.2.executed = [("a", 0), ("b", 1), ("a", 2)] ∧ r.2.env = 3 := by decide
example : let f : Nat → String → Nat → Outcome × Nat := fun e _ _ => (.retNone, e + 1)
    let r := genManuChain (fun st => st != "x") f 0 ["a", "x", "a"]
    r.1.toOption = none ∧ r.2.executed = [("a", 0)] ∧ r.2.env = 1 := by decide

end MatchesSource

end I2N.Props.C20
