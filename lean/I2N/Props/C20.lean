import I2N.Lemmas.Tools
import I2N.Lemmas.ToolsChain
/-!
# C20 — Manual steps act once per selected vm and worker, in the given order

Model: `I2N/Model/Tools.lean` (the one `Driver/Tools.lean` runs).

* the star graph a step builds under the shared root (`buildPerVm`, `buildOneNode`) and its traversal by any number of
  workers under any interleaving (`runSched`: a schedule is an arbitrary list of worker slices) with the run policy
  the tools install (`not shared root and this worker has not finished it`);
* the setup chain loop of `Manu.run` (`runChain`), the return values of the built-in steps (`stepOutcome`) and what
  a reusing step leaves in `config["param_dict"]` (`reuseEnvAfter`).

`NamesWF g` (checked on every real graph by the harness): a node's name contains the id of exactly one worker of the
graph, the one it was parsed for — so `worker.id in node.params["name"]` is ownership.
-/
namespace I2N.Props.C20
open I2N.Tools

/-! ## executions of one step -/

/-- Safety under every interleaving, finished or not: no class of nodes (one test for one vm variant on one worker)
is executed twice by its worker. -/
theorem at_most_once (g : Star) (hwf : NamesWF g) (sched : List Nat) (w : Nat) (k : String) :
    cnt g (runSched g .star sched {}) w k ≤ 1 := by
  have h := (inv_runSched hwf sched {} (inv_init g)).count w k
  rw [h]; split <;> omega

/-- Only the worker a node was parsed for executes it (any interleaving, any prefix of the run). -/
theorem only_owner_executes (g : Star) (hwf : NamesWF g) (sched : List Nat) :
    ∀ e ∈ (runSched g .star sched {}).execs, owns g e.1 e.2 :=
  (inv_runSched hwf sched {} (inv_init g)).execOwned

/-- **once_per_vm_worker** — when the workers are done (whatever the interleaving was), every node class that exists
for a worker has been executed by that worker exactly once.  No bound on the number of vms, variants or workers. -/
theorem once_per_vm_worker (g : Star) (hwf : NamesWF g) (sched : List Nat)
    (hdone : allDone g (runSched g .star sched {}) = true) (w n : Nat) (ho : owns g w n) :
    cnt g (runSched g .star sched {}) w (keyOf g n) = 1 := by
  have inv := inv_runSched hwf sched {} (inv_init g)
  rw [inv.count w (keyOf g n)]
  simp [busy, done_dropped hwf hdone ho]

/-- … and nothing else is executed: an execution counted for `(w, k)` is the execution of a node of class `k` that
exists in the graph for worker `w`. -/
theorem nothing_else_executed (g : Star) (hwf : NamesWF g) (sched : List Nat) (w : Nat) (k : String)
    (h : 0 < cnt g (runSched g .star sched {}) w k) : ∃ n, owns g w n ∧ keyOf g n = k := by
  unfold cnt at h
  obtain ⟨e, he⟩ := List.exists_mem_of_length_pos h
  simp only [List.mem_filter, Bool.and_eq_true, beq_iff_eq] at he
  have := only_owner_executes g hwf sched e he.1
  exact ⟨e.2, by rw [← he.2.1]; exact this, he.2.2⟩

/-- The finished-worker test in the run flag is what makes this true: without it (`noFinishedCheck`) a single worker
with a single node executes it again on every visit. -/
example : let g : Star := { workers := ["net1"], nodes := [{ owner := 0, vms := ["vm1"], name := "t.vm1.net1", key := "t.vm1", params := [] }] }
    (runSched g .noFinishedCheck [0, 0, 0, 0, 0, 0] {}).execs = [(0, 0), (0, 0), (0, 0)] := by decide

/-! ## which nodes a step creates: selected vms × compatible workers, with the step's parameters -/

/-- **once per selected vm and compatible worker** (state steps `check … clean`): for every worker, every selected vm
object and every node the parser yields for them (none when the worker is incompatible with the vm), the finished
step has executed that node's class exactly once on that worker. -/
theorem step_once_per_vm_worker (workers vmObjs : List String) (parse : Parser) (pd step : Dict) (sched : List Nat)
    (hwf : NamesWF { workers := workers, nodes := buildPerVm workers.length vmObjs parse pd step })
    (hdone : allDone { workers := workers, nodes := buildPerVm workers.length vmObjs parse pd step }
      (runSched { workers := workers, nodes := buildPerVm workers.length vmObjs parse pd step } .star sched {}) = true)
    (w : Nat) (hw : w < workers.length) (vm : String) (hvm : vm ∈ vmObjs) (p : PNode) (hp : p ∈ parse w [vm]) :
    cnt { workers := workers, nodes := buildPerVm workers.length vmObjs parse pd step }
      (runSched { workers := workers, nodes := buildPerVm workers.length vmObjs parse pd step } .star sched {}) w p.key = 1 := by
  have hmem : ({ owner := w, vms := [vm], name := p.name, key := p.key, rank := p.rank,
                 params := ("object_suffix", vm) :: perVmDict pd step vm } : SNode) ∈
      buildPerVm workers.length vmObjs parse pd step := mem_buildPerVm.mpr ⟨w, hw, vm, hvm, p, hp, rfl⟩
  obtain ⟨n, hn⟩ := List.mem_iff_getElem?.mp hmem
  have ho : owns { workers := workers, nodes := buildPerVm workers.length vmObjs parse pd step } w n := ⟨_, hn, rfl⟩
  have := once_per_vm_worker _ hwf sched hdone w n ho
  simpa [keyOf, hn] using this

/-- **never_unselected** (state steps): every node of the step — hence every execution, by `only_owner_executes` —
is a node of exactly one selected vm, on a worker of the graph, and it is one the parser offered for that pair. -/
theorem never_unselected (nw : Nat) (vmObjs : List String) (parse : Parser) (pd step : Dict) (nd : SNode)
    (h : nd ∈ buildPerVm nw vmObjs parse pd step) :
    nd.owner < nw ∧ ∃ vm ∈ vmObjs, nd.vms = [vm] ∧ ∃ p ∈ parse nd.owner [vm], nd.name = p.name ∧ nd.key = p.key := by
  obtain ⟨w, hw, vm, hvm, p, hp, rfl⟩ := mem_buildPerVm.mp h
  exact ⟨hw, vm, hvm, rfl, p, hp, rfl, rfl⟩

/-- **params_applied** (state steps): in every node of the step the step's own dictionary wins over the command
line, the command line parameters the step does not mention are passed on, and `vms` is the node's vm. -/
theorem params_applied (nw : Nat) (vmObjs : List String) (parse : Parser) (pd step : Dict) (nd : SNode)
    (h : nd ∈ buildPerVm nw vmObjs parse pd step) :
    (∃ vm, nd.vms = [vm] ∧ dget nd.params "vms" = some vm ∧ dget nd.params "object_suffix" = some vm) ∧
    (∀ k v, k ≠ "vms" → k ≠ "object_suffix" → dget step k = some v → dget nd.params k = some v) ∧
    (∀ k, k ≠ "vms" → k ≠ "object_suffix" → dhas step k = false → dget nd.params k = dget pd k) := by
  obtain ⟨w, hw, vm, hvm, p, hp, rfl⟩ := mem_buildPerVm.mp h
  refine ⟨⟨vm, rfl, ?_, ?_⟩, ?_, ?_⟩
  · simp [perVmDict, dget, List.find?]
  · simp [dget, List.find?]
  · intro k v hk1 hk2 hs
    have e1 : (("object_suffix" : String) == k) = false := by simp; exact fun h => hk2 h.symm
    have e2 : (("vms" : String) == k) = false := by simp; exact fun h => hk1 h.symm
    simp only [perVmDict, dupdate]
    rw [dget_cons_ne _ _ _ e1, dget_cons_ne _ _ _ e2, dget_append, dhas_of_dget hs, if_pos rfl, hs]
  · intro k hk1 hk2 hs
    have e1 : (("object_suffix" : String) == k) = false := by simp; exact fun h => hk2 h.symm
    have e2 : (("vms" : String) == k) = false := by simp; exact fun h => hk1 h.symm
    simp only [perVmDict, dupdate]
    rw [dget_cons_ne _ _ _ e1, dget_cons_ne _ _ _ e2, dget_append, hs]
    simp

/-- the dictionaries of the reusing steps (`collect`, `create`, `clean`) reach the nodes as well: the temporary
update of the command line dictionary is in force while the nodes are parsed -/
theorem reuse_params_applied (t : ToolSpec) (nw : Nat) (vms vmObjs : List String) (parse : Parser) (pd : Dict)
    (hk : t.kind = .perVm) (hu : t.unsetDefaults = false) (nodes : List SNode)
    (hb : buildTool t nw vms vmObjs parse pd = .ok nodes) (nd : SNode) (h : nd ∈ nodes)
    (k v : String) (hk1 : k ≠ "vms") (hk2 : k ≠ "object_suffix") (hs : dhas t.step k = false)
    (hr : dget t.reuse k = some v) : dget nd.params k = some v := by
  simp only [buildTool, hk, stepDict, hu, Bool.false_eq_true, if_false, Except.ok.injEq] at hb
  subst hb
  rw [(params_applied _ _ _ _ _ nd h).2.2 k hk1 hk2 hs, dupdate, dget_append, dhas_of_dget hr, if_pos rfl, hr]

/-- **multi-vm steps** (`boot … shutdown`): every node of the step is the one variant the parser has for a worker and
*all* selected vms at once, with `main_vm` the first of them and the command line parameters passed on. -/
theorem one_node_sound (nw : Nat) (vms : List String) (parse : Parser) (pd : Dict)
    (nodes : List SNode) (hb : buildOneNode nw vms parse pd = .ok nodes) (nd : SNode) (h : nd ∈ nodes) :
    nd.owner < nw ∧ nd.vms = vms ∧ (∃ p, parse nd.owner vms = [p] ∧ nd.name = p.name ∧ nd.key = p.key) ∧
      dget nd.params "vms" = some (" ".intercalate vms) ∧ dget nd.params "main_vm" = vms.head? ∧
      (∀ k, k ≠ "vms" → k ≠ "main_vm" → dget nd.params k = dget pd k) := by
  cases vms with
  | nil => simp [buildOneNode] at hb
  | cons first rest =>
    simp only [buildOneNode] at hb
    obtain ⟨w, hw, p, hp, rfl⟩ := (mem_oneNodeLoop hb nd).mp h
    refine ⟨List.mem_range.mp hw, rfl, ⟨p, hp, rfl, rfl⟩, ?_, ?_, ?_⟩
    · simp [oneNodeDict, dupdate, dget]
    · simp [oneNodeDict, dupdate, dget]
    · intro k h1 h2
      have e1 : (("vms" : String) == k) = false := by simp; exact fun h => h1 h.symm
      have e2 : (("main_vm" : String) == k) = false := by simp; exact fun h => h2 h.symm
      simp only [oneNodeDict, dupdate, List.cons_append, List.nil_append]
      rw [dget_cons_ne _ _ _ e1, dget_cons_ne _ _ _ e2]

/-- … and every worker that has exactly one variant gets its node (workers without a variant get none, by
`one_node_sound`: a node's worker has exactly one). -/
theorem one_node_complete (nw : Nat) (vms : List String) (parse : Parser) (pd : Dict)
    (nodes : List SNode) (hb : buildOneNode nw vms parse pd = .ok nodes) (w : Nat) (hw : w < nw) (p : PNode)
    (hp : parse w vms = [p]) : ∃ nd ∈ nodes, nd.owner = w ∧ nd.vms = vms ∧ nd.name = p.name ∧ nd.key = p.key := by
  cases vms with
  | nil => simp [buildOneNode] at hb
  | cons first rest =>
    simp only [buildOneNode] at hb
    exact ⟨_, (mem_oneNodeLoop hb _).mpr ⟨w, List.mem_range.mpr hw, p, hp, rfl⟩, rfl, rfl, rfl, rfl⟩

/-- a multi-vm step is refused (`RuntimeError`, before anything runs) only when some worker has several variants of
the test for the selected vms; an empty selection is an `IndexError` -/
theorem one_node_error (nw : Nat) (vms : List String) (parse : Parser) (pd : Dict) (e : Err)
    (hb : buildOneNode nw vms parse pd = .error e) :
    (vms = [] ∧ e = .indexError) ∨ (e = .runtimeError ∧ ∃ w, w < nw ∧ 2 ≤ (parse w vms).length) := by
  cases vms with
  | nil => simp [buildOneNode] at hb; exact Or.inl ⟨rfl, hb.symm⟩
  | cons first rest =>
    simp only [buildOneNode] at hb
    obtain ⟨h1, w, hw, h2⟩ := oneNodeLoop_error hb
    exact Or.inr ⟨h1, w, List.mem_range.mp hw, h2⟩

/-- non-vacuity: two workers, two vms (one with two variants and twins in two test sets, one incompatible with the
second worker); an arbitrary interleaving finishes and each class ran once -/
example :
    let parse : Parser := fun w vms =>
      if vms == ["vm1"] then [{ name := s!"all.check.vm1.net{w + 1}", key := "check.vm1" },
                             { name := s!"nonleaves.check.vm1.net{w + 1}", key := "check.vm1" }]
      else if vms == ["vm3"] && w == 0 then [{ name := "all.check.vm3.Kali.net1", key := "check.vm3.Kali", rank := 1 },
                                             { name := "all.check.vm3.Ubuntu.net1", key := "check.vm3.Ubuntu" }]
      else []
    let g : Star := { workers := ["net1", "net2"], nodes := buildPerVm 2 ["vm1", "vm3", "vm3"] parse [("nets", "net1 net2")] (stateStep "check") }
    let fin := runSched g .star [0, 1, 1, 0, 0, 0, 1, 0, 0, 1, 0] {}
    g.nodes.length = 8 ∧ allDone g fin = true ∧ fin.execs = [(0, 0), (1, 6), (0, 3), (0, 2)] ∧
      cnt g fin 0 "check.vm1" = 1 ∧ cnt g fin 0 "check.vm3.Kali" = 1 ∧ cnt g fin 1 "check.vm3.Kali" = 0 := by decide

/-! ## the setup chain of `Manu.run` -/

/-- **chain_order_kept / chain_runs_all**: whatever the steps do (return, fail, raise — `f` is arbitrary), the loop
calls every step of the chain exactly once, in the given order, the `i`-th with tag index `i`; repeated steps are
called as often as they occur.  A failing step does not prevent the later ones. -/
theorem chain_order_kept {σ : Type} (known : String → Bool) (f : σ → String → Nat → Outcome × σ) (env : σ)
    (chain : List String) (hk : ∀ st ∈ chain, known st = true) :
    (runChain known f env chain).executed = chain.zipIdx := by
  simp only [runChain]
  exact runChainFrom_executed known f chain env 0 0 hk

/-- in particular: as many calls as the chain has steps, and the `k`-th call is the `k`-th step -/
theorem chain_runs_all {σ : Type} (known : String → Bool) (f : σ → String → Nat → Outcome × σ) (env : σ)
    (chain : List String) (hk : ∀ st ∈ chain, known st = true) :
    (runChain known f env chain).executed.length = chain.length ∧
    (runChain known f env chain).executed.map (·.1) = chain := by
  rw [chain_order_kept known f env chain hk]
  simp

/-- regression (before 3361dd0 the chain was `Params.objects(setup)`): `run, boot, run` ran `run, boot` only; now all
three calls are made -/
example : (runChainFrom (fun _ => true) (fun (_ : Unit) _ _ => (Outcome.ret 0, ())) () 0 0 (objects ["run", "boot", "run"])).executed
      = [("run", 0), ("boot", 1)] ∧
    (runChain (fun _ => true) (fun (_ : Unit) _ _ => (Outcome.ret 0, ())) () ["run", "boot", "run"]).executed
      = [("run", 0), ("boot", 1), ("run", 2)] := by decide

/-- **chain_fails_iff_any**: the return code is 1 exactly when some executed step returned something else than
`None`/0 or raised; otherwise 0.  (All chains; induction on the list.) -/
theorem chain_fails_iff_any {σ : Type} (known : String → Bool) (f : σ → String → Nat → Outcome × σ) (env : σ)
    (chain : List String) (hk : ∀ st ∈ chain, known st = true) :
    (runChain known f env chain).ret = .ok (if (runChain known f env chain).outcomes.any Outcome.fails then 1 else 0) ∧
    (runChain known f env chain).outcomes.length = chain.length := by
  simp only [runChain]
  exact ⟨runChainFrom_ret known f chain env 0 0 hk, runChainFrom_outcomes_length known f chain env 0 0 hk⟩

/-- a step name that is not a tool escapes the loop as `AttributeError` (the `getattr` is outside the `try`): the steps
before it were run, those after it are not -/
theorem unknown_step_aborts {σ : Type} (known : String → Bool) (f : σ → String → Nat → Outcome × σ) (env : σ)
    (pre post : List String) (bad : String) (hpre : ∀ st ∈ pre, known st = true) (hbad : known bad = false) :
    (runChain known f env (pre ++ bad :: post)).ret = .error .attributeError ∧
    (runChain known f env (pre ++ bad :: post)).executed = pre.zipIdx := by
  simp only [runChain]
  exact runChainFrom_unknown known f pre bad post env 0 0 hpre hbad

/-- a command line that does not parse: return code 1, nothing executed -/
theorem bad_command_line {σ : Type} (known : String → Bool) (f : σ → String → Nat → Outcome × σ) (env : σ)
    (chain : List String) : (manuRun false known f env chain).ret = .ok 1 ∧ (manuRun false known f env chain).executed = [] := by
  simp [manuRun]

/-- **step_failure_reported** — a failing step makes the chain report failure: every built-in step of the table
(the reusing `collect`, `create`, `clean` included) counts as failed for `Manu.run` exactly when it raised or one of
its tests ended badly. -/
theorem step_failure_reported (t : ToolSpec) (raised allOk : Bool) :
    (stepOutcome t raised allOk).fails = (raised || !allOk) := by
  cases raised <;> cases allOk <;> simp [stepOutcome, Outcome.fails]

/-- … lifted to the chain: with the built-in steps, `Manu.run` returns 1 iff some step of the chain that is in the
table raised or had a bad result, or a step outside the table (`noop`, …) raised. -/
theorem builtin_chain_retcode (known : String → Bool) (beh : Nat → Bool × Bool) (pd : Dict) (chain : List String)
    (hk : ∀ st ∈ chain, known st = true) (st : String) (i : Nat) :
    ((builtinStep beh pd st i).1.fails = match toolSpec st with
      | some _ => ((beh i).1 || !(beh i).2)
      | none => (beh i).1) ∧
    (runChain known (builtinStep beh) pd chain).ret =
      .ok (if (runChain known (builtinStep beh) pd chain).outcomes.any Outcome.fails then 1 else 0) := by
  refine ⟨?_, (chain_fails_iff_any known _ pd chain hk).1⟩
  unfold builtinStep
  cases ht : toolSpec st with
  | none => cases h : (beh i).1 <;> simp [Outcome.fails]
  | some t => simp [step_failure_reported]

/-- regression (before 5f9a82c): `create` whose tests failed returned `None`, so `create, check` reported success;
now the chain returns 1 -/
example :
    (toolSpec "create").map (fun t => (stepOutcomePreFix t false false).fails) = some false ∧
    (runChain (fun _ => true) (builtinStepPreFix (fun i => (false, i != 0))) [] ["create", "check"]).ret = .ok 0 ∧
    (runChain (fun _ => true) (builtinStep (fun i => (false, i != 0))) [] ["create", "check"]).ret = .ok 1 := by decide

/-- **chain_env_unchanged** — the command line dictionary is the same for every step of the chain, whatever the steps
do (fail, raise): a reusing step's temporary parameters never reach a later step. -/
theorem chain_env_unchanged (known : String → Bool) (beh : Nat → Bool × Bool) (pd : Dict) (chain : List String) :
    ∀ e ∈ envTrace known (builtinStep beh) pd 0 chain, e = pd := by
  apply envTrace_const
  intro st j
  simp only [builtinStep]
  split <;> rfl

/-- regression (before 79572ad): `clean` raises (its environment does not start); the following `unset` started with
`unset_state_images=root unset_mode_images=fa pool_scope=own` in the command line dictionary -/
example :
    (envTrace (fun _ => true) (builtinStepPreFix (fun i => (i == 0, true))) [("nets", "net1")] 0 ["clean", "unset"]).map
        (fun d => (dget d "unset_state_images", dget d "unset_mode_images", dget d "pool_scope"))
      = [(none, none, none), (some "root", some "fa", some "own")] ∧
    (envTrace (fun _ => true) (builtinStep (fun i => (i == 0, true))) [("nets", "net1")] 0 ["clean", "unset"]).map
        (fun d => (dget d "unset_state_images", dget d "unset_mode_images", dget d "pool_scope"))
      = [(none, none, none), (none, none, none)] := by decide

/-- non-vacuity of the chain theorems: a chain with a failing first and a raising third step, and a repeated step -/
example : let r := runChain (fun s => s != "nosuch") (builtinStep (fun i => (i == 2, i != 0))) [] ["check", "noop", "boot", "check"]
    r.ret = .ok 1 ∧ r.executed = [("check", 0), ("noop", 1), ("boot", 2), ("check", 3)] ∧
      r.outcomes = [.ret 1, .retNone, .raised, .ret 0] := by decide

end I2N.Props.C20
