/-
Property C10 — retry, stop, replay and verdict rules are followed exactly (rule level).
The theorems are about the executable model `I2N.Rules` that the compiled driver `drv_rules` runs.
-/
import I2N.Model.Rules
import I2N.Lemmas.Rules
namespace I2N.Props.C10
deriving instance DecidableEq for Except
open I2N.Rules I2N.Extracted.Rules I2N.Lemmas.Rules

/-! ## 1. The retry rule (`should_rerun`) -/


def Reaches (c : Cfg) (w : Option Worker) : Prop :=
  (c.dryRun.getD dryRunDefault == dryRunYes) = false ∧ c.flat = false ∧ c.cloneSource = false ∧
  wrongWorker c w = false

structure Valid (c : Cfg) (m : Int) : Prop where
  rerun : ∀ s ∈ rerunList c, s ∈ allStatuses
  stop : ∀ s ∈ stopList c, s ∈ allStatuses
  tries : maxTriesOf c = some m
  nonneg : 0 ≤ m

def TriesRemain (m : Int) (n : Nat) : Prop := m ≠ maxTriesNoRerun ∧ (n : Int) < m

theorem rerun_iff {c : Cfg} {w : Option Worker} {shared : List Result} {m : Int}
    (hr : Reaches c w) (hv : Valid c m) :
    ∃ b, shouldRerun c w shared = .ok b ∧
      (b = true ↔ TriesRemain m (statusesOf c w shared).length ∧
        (∀ s ∈ statusesOf c w shared, s ∈ rerunList c) ∧
        (∀ s ∈ statusesOf c w shared, s ∉ stopList c)) := by
  obtain ⟨h1, h2, h3, h4⟩ := hr
  have hR : (rerunList c).all (fun s => allStatuses.contains s) = true := by
    simp only [List.all_eq_true, List.contains_iff_mem]; exact hv.rerun
  have hS : (stopList c).all (fun s => allStatuses.contains s) = true := by
    simp only [List.all_eq_true, List.contains_iff_mem]; exact hv.stop
  have hneg : ¬ (m < 0) := by have := hv.nonneg; omega
  unfold shouldRerun
  simp only [h1, h2, h3, h4, hR, hS, hv.tries, hneg, Bool.false_eq_true, if_false, Bool.not_true]
  generalize statusesOf c w shared = sts
  by_cases ha : sts.all (fun s => (rerunList c).contains s) = true
  · have ha' : ∀ s ∈ sts, s ∈ rerunList c := by
      simpa only [List.all_eq_true, List.contains_iff_mem] using ha
    by_cases hb : (stopList c).any (fun s => sts.contains s) = true
    · refine ⟨false, by simp only [ha, hb, Bool.not_true, Bool.false_eq_true, if_false, if_true], ?_⟩
      simp only [List.any_eq_true, List.contains_iff_mem] at hb
      obtain ⟨x, hx1, hx2⟩ := hb
      constructor
      · intro h; cases h
      · intro ⟨_, _, h⟩; exact absurd hx1 (h x hx2)
    · have hb' : ∀ s ∈ sts, s ∉ stopList c := by
        intro s hs hmem
        exact hb (by simp only [List.any_eq_true, List.contains_iff_mem]; exact ⟨s, hmem, hs⟩)
      refine ⟨_, by simp only [ha, hb, Bool.not_true, Bool.false_eq_true, if_false]; rfl, ?_⟩
      simp only [decide_eq_true_eq, TriesRemain]
      constructor
      · intro h
        refine ⟨?_, ha', hb'⟩
        by_cases hm : (m == maxTriesNoRerun) = true
        · simp only [hm, if_true] at h; omega
        · simp only [hm, Bool.false_eq_true, if_false] at h
          refine ⟨fun e => hm (by simp [e]), by omega⟩
      · intro ⟨⟨h1, h2⟩, _, _⟩
        have hm : (m == maxTriesNoRerun) = false := by simp [h1]
        simp only [hm, Bool.false_eq_true, if_false]; omega
  · refine ⟨false, by simp only [ha, Bool.not_false, if_true], ?_⟩
    constructor
    · intro h; cases h
    · intro ⟨_, h, _⟩
      exact absurd (by simpa only [List.all_eq_true, List.contains_iff_mem] using h) ha

theorem invalid_rerun_status {c : Cfg} {w : Option Worker} {shared : List Result}
    (hr : Reaches c w) (h : ∃ s ∈ rerunList c, s ∉ allStatuses) :
    shouldRerun c w shared = .error .badRerunStatus := by
  obtain ⟨h1, h2, h3, h4⟩ := hr
  have hR : (rerunList c).all (fun s => allStatuses.contains s) = false := by
    obtain ⟨s, hs, hn⟩ := h
    rw [Bool.eq_false_iff]; intro hall
    simp only [List.all_eq_true, List.contains_iff_mem] at hall
    exact hn (hall s hs)
  unfold shouldRerun
  simp only [h1, h2, h3, h4, hR, Bool.false_eq_true, if_false, Bool.not_false, if_true]

theorem invalid_stop_status {c : Cfg} {w : Option Worker} {shared : List Result}
    (hr : Reaches c w) (hrr : ∀ s ∈ rerunList c, s ∈ allStatuses)
    (h : ∃ s ∈ stopList c, s ∉ allStatuses) :
    shouldRerun c w shared = .error .badStopStatus := by
  obtain ⟨h1, h2, h3, h4⟩ := hr
  have hR : (rerunList c).all (fun s => allStatuses.contains s) = true := by
    simp only [List.all_eq_true, List.contains_iff_mem]; exact hrr
  have hS : (stopList c).all (fun s => allStatuses.contains s) = false := by
    obtain ⟨s, hs, hn⟩ := h
    rw [Bool.eq_false_iff]; intro hall
    simp only [List.all_eq_true, List.contains_iff_mem] at hall
    exact hn (hall s hs)
  unfold shouldRerun
  simp only [h1, h2, h3, h4, hR, hS, Bool.false_eq_true, if_false, Bool.not_false, Bool.not_true, if_true]

theorem invalid_max_tries {c : Cfg} {w : Option Worker} {shared : List Result}
    (hr : Reaches c w) (hrr : ∀ s ∈ rerunList c, s ∈ allStatuses) (hss : ∀ s ∈ stopList c, s ∈ allStatuses)
    (h : maxTriesOf c = none) :
    shouldRerun c w shared = .error .badTries := by
  obtain ⟨h1, h2, h3, h4⟩ := hr
  have hR : (rerunList c).all (fun s => allStatuses.contains s) = true := by
    simp only [List.all_eq_true, List.contains_iff_mem]; exact hrr
  have hS : (stopList c).all (fun s => allStatuses.contains s) = true := by
    simp only [List.all_eq_true, List.contains_iff_mem]; exact hss
  unfold shouldRerun
  simp only [h1, h2, h3, h4, hR, hS, h, Bool.false_eq_true, if_false, Bool.not_true]

theorem negative_max_tries {c : Cfg} {w : Option Worker} {shared : List Result} {m : Int}
    (hr : Reaches c w) (hrr : ∀ s ∈ rerunList c, s ∈ allStatuses) (hss : ∀ s ∈ stopList c, s ∈ allStatuses)
    (h : maxTriesOf c = some m) (hm : m < 0) :
    shouldRerun c w shared = .error .negativeTries := by
  obtain ⟨h1, h2, h3, h4⟩ := hr
  have hR : (rerunList c).all (fun s => allStatuses.contains s) = true := by
    simp only [List.all_eq_true, List.contains_iff_mem]; exact hrr
  have hS : (stopList c).all (fun s => allStatuses.contains s) = true := by
    simp only [List.all_eq_true, List.contains_iff_mem]; exact hss
  unfold shouldRerun
  simp only [h1, h2, h3, h4, hR, hS, h, hm, Bool.false_eq_true, if_false, Bool.not_true, if_true]

/-- invalid retry settings are never ignored: whenever the decision gets as far as the retry rule and
answers at all, the settings are valid -/
theorem invalid_rejected {c : Cfg} {w : Option Worker} {shared : List Result} {b : Bool}
    (hr : Reaches c w) (h : shouldRerun c w shared = .ok b) : ∃ m, Valid c m := by
  by_cases hrr : ∀ s ∈ rerunList c, s ∈ allStatuses
  · by_cases hss : ∀ s ∈ stopList c, s ∈ allStatuses
    · cases hm : maxTriesOf c with
      | none => rw [invalid_max_tries hr hrr hss hm] at h; cases h
      | some m =>
        by_cases hneg : m < 0
        · rw [negative_max_tries hr hrr hss hm hneg] at h; cases h
        · exact ⟨m, hrr, hss, hm, by omega⟩
    · have : ∃ s ∈ stopList c, s ∉ allStatuses := by
        apply Classical.byContradiction; intro hne
        apply hss; intro s hs
        apply Classical.byContradiction; intro hn
        exact hne ⟨s, hs, hn⟩
      rw [invalid_stop_status hr hrr this] at h; cases h
  · have : ∃ s ∈ rerunList c, s ∉ allStatuses := by
      apply Classical.byContradiction; intro hne
      apply hrr; intro s hs
      apply Classical.byContradiction; intro hn
      exact hne ⟨s, hs, hn⟩
    rw [invalid_rerun_status hr this] at h; cases h

theorem wrong_worker_rejected {c : Cfg} {w : Option Worker} {shared : List Result}
    (h1 : (c.dryRun.getD dryRunDefault == dryRunYes) = false) (h2 : c.flat = false) (h3 : c.cloneSource = false)
    (h4 : wrongWorker c w = true) : shouldRerun c w shared = .error .runtimeError := by
  unfold shouldRerun
  simp only [h1, h2, h3, h4, Bool.false_eq_true, if_false, if_true]


/-! ## 3. The verdict (`all_results_ok`) -/


theorem anyOk_spec (name : String) (l : List JobRes) (hv : ∀ t ∈ l, (statusOk t.status).isSome = true) :
    ∃ b, anyOk name l = .ok b ∧
      (b = true ↔ ∃ r ∈ l, r.name = name ∧ statusOk r.status = some true) := by
  induction l with
  | nil => exact ⟨false, rfl, by simp⟩
  | cons t ts ih =>
    obtain ⟨b, hb, hiff⟩ := ih (fun x hx => hv x (List.mem_cons_of_mem _ hx))
    have ht := hv t List.mem_cons_self
    unfold anyOk
    by_cases hn : (t.name == name) = true
    · have hn' : t.name = name := by simpa using hn
      simp only [hn, if_true]
      cases hs : statusOk t.status with
      | none => rw [hs] at ht; cases ht
      | some v =>
        cases v with
        | true => exact ⟨true, rfl, by simp only [true_iff]; exact ⟨t, List.mem_cons_self, hn', hs⟩⟩
        | false =>
          refine ⟨b, hb, hiff.trans ?_⟩
          constructor
          · intro ⟨r, hr, h1, h2⟩; exact ⟨r, List.mem_cons_of_mem _ hr, h1, h2⟩
          · intro ⟨r, hr, h1, h2⟩
            rcases List.mem_cons.mp hr with rfl | hr
            · rw [hs] at h2; cases h2
            · exact ⟨r, hr, h1, h2⟩
    · have hn' : t.name ≠ name := by simpa using hn
      simp only [hn, Bool.false_eq_true, if_false]
      refine ⟨b, hb, hiff.trans ?_⟩
      constructor
      · intro ⟨r, hr, h1, h2⟩; exact ⟨r, List.mem_cons_of_mem _ hr, h1, h2⟩
      · intro ⟨r, hr, h1, h2⟩
        rcases List.mem_cons.mp hr with rfl | hr
        · exact absurd h1 hn'
        · exact ⟨r, hr, h1, h2⟩

theorem allOkLoop_spec (all rest : List JobRes) (hv : ∀ t ∈ all, (statusOk t.status).isSome = true) :
    ∃ b, allOkLoop all rest = .ok b ∧
      (b = true ↔ ∀ t ∈ rest, ∃ r ∈ all, r.name = t.name ∧ statusOk r.status = some true) := by
  induction rest with
  | nil => exact ⟨true, rfl, by simp⟩
  | cons t ts ih =>
    obtain ⟨b, hb, hiff⟩ := ih
    obtain ⟨a, ha, haiff⟩ := anyOk_spec t.name all hv
    unfold allOkLoop
    rw [ha]
    cases a with
    | false =>
      refine ⟨false, rfl, ?_⟩
      constructor
      · intro h; cases h
      · intro h
        have := haiff.mpr (h t List.mem_cons_self)
        cases this
    | true =>
      refine ⟨b, hb, hiff.trans ?_⟩
      constructor
      · intro h x hx
        rcases List.mem_cons.mp hx with rfl | hx
        · exact haiff.mp rfl
        · exact h x hx
      · intro h x hx; exact h x (List.mem_cons_of_mem _ hx)

/-- the run is reported successful by `all_results_ok` exactly when every test in the job result has at
least one acceptable result (same name, status mapped to `True`) -/
theorem verdict_iff (tests : List JobRes) (hv : ∀ t ∈ tests, (statusOk t.status).isSome = true) :
    ∃ b, allResultsOk tests = .ok b ∧
      (b = true ↔ ∀ t ∈ tests, ∃ r ∈ tests, r.name = t.name ∧ statusOk r.status = some true) :=
  allOkLoop_spec tests tests hv

example : allResultsOk [⟨"a", "1", "FAIL", 1⟩, ⟨"a", "1r1", "PASS", 1⟩, ⟨"b", "2", "SKIP", 1⟩] = .ok true := by decide
example : allResultsOk [⟨"a", "1", "FAIL", 1⟩, ⟨"b", "2", "PASS", 1⟩] = .ok false := by decide

end I2N.Props.C10
