/-
Property C10 — retry, stop, replay and verdict rules are followed exactly (rule level).
The theorems are about the executable model `I2N.Rules` that the compiled driver `drv_rules` runs.
-/
import I2N.Model.Rules
import I2N.Lemmas.Rules
import I2N.Extracted.GenRules
import I2N.Lemmas.PyGenList
import I2N.Extracted.GenRunner
import I2N.Lemmas.RunnerGen
import I2N.Model.TravStep
import I2N.Lemmas.Trav
namespace I2N.Props.C10
deriving instance DecidableEq for Except
open I2N.Rules I2N.Extracted.Rules I2N.Lemmas.Rules

/-! ## 1. The retry rule (`should_rerun`) -/


def Reaches (c : Cfg) (w : Option Worker) : Prop :=
  (c.dryRun.getD dryRunDefault == dryRunYes) = false ∧ c.flat = false ∧ c.cloneSource = false ∧
  wrongWorker c w = false

structure Valid (c : Cfg) (m : Int) : Prop where
  rerun : ∀ s ∈ rerunList c, s ∈ allStatuses
  stop : ∀ s ∈ stopList c, s ∈ allStatuses
  tries : maxTriesOf c = some m
  nonneg : 0 ≤ m

def TriesRemain (m : Int) (n : Nat) : Prop := m ≠ maxTriesNoRerun ∧ (n : Int) < m

theorem rerun_iff {c : Cfg} {w : Option Worker} {shared : List Result} {m : Int}
    (hr : Reaches c w) (hv : Valid c m) :
    ∃ b, shouldRerun c w shared = .ok b ∧
      (b = true ↔ TriesRemain m (statusesOf c w shared).length ∧
        (∀ s ∈ statusesOf c w shared, s ∈ rerunList c) ∧
        (∀ s ∈ statusesOf c w shared, s ∉ stopList c)) := by
  obtain ⟨h1, h2, h3, h4⟩ := hr
  have hR : (rerunList c).all (fun s => allStatuses.contains s) = true := by
    simp only [List.all_eq_true, List.contains_iff_mem]; exact hv.rerun
  have hS : (stopList c).all (fun s => allStatuses.contains s) = true := by
    simp only [List.all_eq_true, List.contains_iff_mem]; exact hv.stop
  have hneg : ¬ (m < 0) := by have := hv.nonneg; omega
  unfold shouldRerun
  simp only [h1, h2, h3, h4, hR, hS, hv.tries, hneg, Bool.false_eq_true, if_false, Bool.not_true]
  generalize statusesOf c w shared = sts
  by_cases ha : sts.all (fun s => (rerunList c).contains s) = true
  · have ha' : ∀ s ∈ sts, s ∈ rerunList c := by
      simpa only [List.all_eq_true, List.contains_iff_mem] using ha
    by_cases hb : (stopList c).any (fun s => sts.contains s) = true
    · refine ⟨false, by simp only [ha, hb, Bool.not_true, Bool.false_eq_true, if_false, if_true], ?_⟩
      simp only [List.any_eq_true, List.contains_iff_mem] at hb
      obtain ⟨x, hx1, hx2⟩ := hb
      constructor
      · intro h; cases h
      · intro ⟨_, _, h⟩; exact absurd hx1 (h x hx2)
    · have hb' : ∀ s ∈ sts, s ∉ stopList c := by
        intro s hs hmem
        exact hb (by simp only [List.any_eq_true, List.contains_iff_mem]; exact ⟨s, hmem, hs⟩)
      refine ⟨_, by simp only [ha, hb, Bool.not_true, Bool.false_eq_true, if_false]; rfl, ?_⟩
      simp only [decide_eq_true_eq, TriesRemain]
      constructor
      · intro h
        refine ⟨?_, ha', hb'⟩
        by_cases hm : (m == maxTriesNoRerun) = true
        · simp only [hm, if_true] at h; omega
        · simp only [hm, Bool.false_eq_true, if_false] at h
          refine ⟨fun e => hm (by simp [e]), by omega⟩
      · intro ⟨⟨h1, h2⟩, _, _⟩
        have hm : (m == maxTriesNoRerun) = false := by simp [h1]
        simp only [hm, Bool.false_eq_true, if_false]; omega
  · refine ⟨false, by simp only [ha, Bool.not_false, if_true], ?_⟩
    constructor
    · intro h; cases h
    · intro ⟨_, h, _⟩
      exact absurd (by simpa only [List.all_eq_true, List.contains_iff_mem] using h) ha

theorem invalid_rerun_status {c : Cfg} {w : Option Worker} {shared : List Result}
    (hr : Reaches c w) (h : ∃ s ∈ rerunList c, s ∉ allStatuses) :
    shouldRerun c w shared = .error .badRerunStatus := by
  obtain ⟨h1, h2, h3, h4⟩ := hr
  have hR : (rerunList c).all (fun s => allStatuses.contains s) = false := by
    obtain ⟨s, hs, hn⟩ := h
    rw [Bool.eq_false_iff]; intro hall
    simp only [List.all_eq_true, List.contains_iff_mem] at hall
    exact hn (hall s hs)
  unfold shouldRerun
  simp only [h1, h2, h3, h4, hR, Bool.false_eq_true, if_false, Bool.not_false, if_true]

theorem invalid_stop_status {c : Cfg} {w : Option Worker} {shared : List Result}
    (hr : Reaches c w) (hrr : ∀ s ∈ rerunList c, s ∈ allStatuses)
    (h : ∃ s ∈ stopList c, s ∉ allStatuses) :
    shouldRerun c w shared = .error .badStopStatus := by
  obtain ⟨h1, h2, h3, h4⟩ := hr
  have hR : (rerunList c).all (fun s => allStatuses.contains s) = true := by
    simp only [List.all_eq_true, List.contains_iff_mem]; exact hrr
  have hS : (stopList c).all (fun s => allStatuses.contains s) = false := by
    obtain ⟨s, hs, hn⟩ := h
    rw [Bool.eq_false_iff]; intro hall
    simp only [List.all_eq_true, List.contains_iff_mem] at hall
    exact hn (hall s hs)
  unfold shouldRerun
  simp only [h1, h2, h3, h4, hR, hS, Bool.false_eq_true, if_false, Bool.not_false, Bool.not_true, if_true]

theorem invalid_max_tries {c : Cfg} {w : Option Worker} {shared : List Result}
    (hr : Reaches c w) (hrr : ∀ s ∈ rerunList c, s ∈ allStatuses) (hss : ∀ s ∈ stopList c, s ∈ allStatuses)
    (h : maxTriesOf c = none) :
    shouldRerun c w shared = .error .badTries := by
  obtain ⟨h1, h2, h3, h4⟩ := hr
  have hR : (rerunList c).all (fun s => allStatuses.contains s) = true := by
    simp only [List.all_eq_true, List.contains_iff_mem]; exact hrr
  have hS : (stopList c).all (fun s => allStatuses.contains s) = true := by
    simp only [List.all_eq_true, List.contains_iff_mem]; exact hss
  unfold shouldRerun
  simp only [h1, h2, h3, h4, hR, hS, h, Bool.false_eq_true, if_false, Bool.not_true]

theorem negative_max_tries {c : Cfg} {w : Option Worker} {shared : List Result} {m : Int}
    (hr : Reaches c w) (hrr : ∀ s ∈ rerunList c, s ∈ allStatuses) (hss : ∀ s ∈ stopList c, s ∈ allStatuses)
    (h : maxTriesOf c = some m) (hm : m < 0) :
    shouldRerun c w shared = .error .negativeTries := by
  obtain ⟨h1, h2, h3, h4⟩ := hr
  have hR : (rerunList c).all (fun s => allStatuses.contains s) = true := by
    simp only [List.all_eq_true, List.contains_iff_mem]; exact hrr
  have hS : (stopList c).all (fun s => allStatuses.contains s) = true := by
    simp only [List.all_eq_true, List.contains_iff_mem]; exact hss
  unfold shouldRerun
  simp only [h1, h2, h3, h4, hR, hS, h, hm, Bool.false_eq_true, if_false, Bool.not_true, if_true]

/-- invalid retry settings are never ignored: whenever the decision gets as far as the retry rule and
answers at all, the settings are valid -/
theorem invalid_rejected {c : Cfg} {w : Option Worker} {shared : List Result} {b : Bool}
    (hr : Reaches c w) (h : shouldRerun c w shared = .ok b) : ∃ m, Valid c m := by
  by_cases hrr : ∀ s ∈ rerunList c, s ∈ allStatuses
  · by_cases hss : ∀ s ∈ stopList c, s ∈ allStatuses
    · cases hm : maxTriesOf c with
      | none => rw [invalid_max_tries hr hrr hss hm] at h; cases h
      | some m =>
        by_cases hneg : m < 0
        · rw [negative_max_tries hr hrr hss hm hneg] at h; cases h
        · exact ⟨m, hrr, hss, hm, by omega⟩
    · have : ∃ s ∈ stopList c, s ∉ allStatuses := by
        apply Classical.byContradiction; intro hne
        apply hss; intro s hs
        apply Classical.byContradiction; intro hn
        exact hne ⟨s, hs, hn⟩
      rw [invalid_stop_status hr hrr this] at h; cases h
  · have : ∃ s ∈ rerunList c, s ∉ allStatuses := by
      apply Classical.byContradiction; intro hne
      apply hrr; intro s hs
      apply Classical.byContradiction; intro hn
      exact hne ⟨s, hs, hn⟩
    rw [invalid_rerun_status hr this] at h; cases h

theorem wrong_worker_rejected {c : Cfg} {w : Option Worker} {shared : List Result}
    (h1 : (c.dryRun.getD dryRunDefault == dryRunYes) = false) (h2 : c.flat = false) (h3 : c.cloneSource = false)
    (h4 : wrongWorker c w = true) : shouldRerun c w shared = .error .runtimeError := by
  unfold shouldRerun
  simp only [h1, h2, h3, h4, Bool.false_eq_true, if_false, if_true]


/-! ## 3. The verdict (`all_results_ok`) -/


/-- the run is reported successful by `all_results_ok` exactly when every test in the job result has at
least one acceptable result (same name, status mapped to `True`) -/
theorem verdict_iff (tests : List JobRes) (hv : ∀ t ∈ tests, (statusOk t.status).isSome = true) :
    ∃ b, allResultsOk tests = .ok b ∧
      (b = true ↔ ∀ t ∈ tests, ∃ r ∈ tests, r.name = t.name ∧ statusOk r.status = some true) :=
  allOkLoop_spec tests tests hv

example : allResultsOk [⟨"a", "1", "FAIL", 1⟩, ⟨"a", "1r1", "PASS", 1⟩, ⟨"b", "2", "SKIP", 1⟩] = .ok true := by decide
example : allResultsOk [⟨"a", "1", "FAIL", 1⟩, ⟨"b", "2", "PASS", 1⟩] = .ok false := by decide



/-- for a test that has been executed before, "tries remain" is simply `runs so far < max_tries` -/
theorem rerun_iff_again {c : Cfg} {w : Option Worker} {shared : List Result} {m : Int}
    (hr : Reaches c w) (hv : Valid c m) (hne : statusesOf c w shared ≠ []) :
    ∃ b, shouldRerun c w shared = .ok b ∧
      (b = true ↔ ((statusesOf c w shared).length : Int) < m ∧
        (∀ s ∈ statusesOf c w shared, s ∈ rerunList c) ∧
        (∀ s ∈ statusesOf c w shared, s ∉ stopList c)) := by
  obtain ⟨b, hb, hiff⟩ := rerun_iff (shared := shared) hr hv
  refine ⟨b, hb, hiff.trans ?_⟩
  have hpos : 0 < (statusesOf c w shared).length := List.length_pos_iff.mpr hne
  have h1 : maxTriesNoRerun = 1 := rfl
  unfold TriesRemain
  constructor
  · intro ⟨⟨_, h⟩, h2, h3⟩; exact ⟨h, h2, h3⟩
  · intro ⟨h, h2, h3⟩; exact ⟨⟨by omega, h⟩, h2, h3⟩

/-- stateless nodes: run exactly for the first execution or when the retry rule says "again" -/
theorem run_iff_stateless {c : Cfg} {w : Worker} {shared : List Result} {m : Int} (fin scan : Bool)
    (hr : Reaches c (some w)) (hv : Valid c m) (hs : c.stateful = false) :
    ∃ b, defaultRunDecision c w shared fin scan false = .ok (b, false) ∧
      (b = true ↔ shared = [] ∨
        (((statusesOf c (some w) shared).length : Int) < m ∧
          (∀ s ∈ statusesOf c (some w) shared, s ∈ rerunList c) ∧
          (∀ s ∈ statusesOf c (some w) shared, s ∉ stopList c))) := by
  obtain ⟨h1, h2, h3, h4⟩ := hr
  have h4' : (!isSubstr w.id c.name) = false := h4
  unfold defaultRunDecision
  simp only [h1, h2, h3, h4', hs, Bool.false_eq_true, if_false, Bool.not_false, if_true]
  cases shared with
  | nil => exact ⟨true, by simp, by simp⟩
  | cons r rs =>
    have hne : statusesOf c (some w) (r :: rs) ≠ [] := by simp [statusesOf, hs]
    obtain ⟨b, hb, hiff⟩ := rerun_iff_again (shared := r :: rs) ⟨h1, h2, h3, h4⟩ hv hne
    refine ⟨b, by simp [hb, Except.map], hiff.trans ?_⟩
    simp

/-- stateful nodes: run when the state scan says the state is missing, otherwise (unless reruns were
switched off because nothing was executed in this scope) by the retry rule -/
theorem run_stateful_scan {c : Cfg} {w : Worker} {shared : List Result} (dis : Bool)
    (hr : Reaches c (some w)) (hs : c.stateful = true) :
    ∃ d, defaultRunDecision c w shared false true dis = .ok (true, d) := by
  obtain ⟨h1, h2, h3, h4⟩ := hr
  have h4' : (!isSubstr w.id c.name) = false := h4
  unfold defaultRunDecision
  simp only [h1, h2, h3, h4', hs, Bool.false_eq_true, if_false, Bool.not_false, Bool.not_true, if_true]
  exact ⟨_, rfl⟩

/-- a stateful node that has no result in the scope and whose state is available (or which is finished)
is not run, and its retry rule is switched off for good -/
theorem stateful_no_results_disabled {c : Cfg} {w : Worker} {shared : List Result} (fin scan dis : Bool)
    (hr : Reaches c (some w)) (hs : c.stateful = true)
    (hnone : filteredResults c c.startedWorker shared = []) (hscan : (if !fin then scan else false) = false) :
    defaultRunDecision c w shared fin scan dis = .ok (false, true) := by
  obtain ⟨h1, h2, h3, h4⟩ := hr
  have h4' : (!isSubstr w.id c.name) = false := h4
  unfold defaultRunDecision
  simp only [h1, h2, h3, h4', hs, hnone, hscan, Bool.false_eq_true, if_false, Bool.not_false, Bool.not_true,
    List.isEmpty_nil, Bool.and_self, Bool.or_true, if_true, Except.map]

/-! ## 4. Replay -/

theorem rerunList_replay_default {c : Cfg} (h : truthy c.replay = true) (hu : c.rerunStatus = none) :
    rerunList c = ["fail", "error", "warn"] := by
  unfold rerunList; simp only [h, if_true, hu]; decide

theorem maxTries_replay_default {c : Cfg} (h : truthy c.replay = true) (hu : c.maxTries = none) :
    maxTriesOf c = some 2 := by
  unfold maxTriesOf; simp only [hu, h, if_true]; rfl

/-- replay: a (stateless) test one of whose previous results is acceptable — its status is not in the
rerun set — is not executed again -/
theorem replay_skip {c : Cfg} {w : Worker} {shared : List Result} {m : Int} (fin scan : Bool)
    (hr : Reaches c (some w)) (hv : Valid c m) (hs : c.stateful = false)
    (hacc : ∃ r ∈ shared, lower r.status ∉ rerunList c) :
    defaultRunDecision c w shared fin scan false = .ok (false, false) := by
  obtain ⟨b, hb, hiff⟩ := run_iff_stateless (shared := shared) fin scan hr hv hs
  obtain ⟨r, hrm, hn⟩ := hacc
  cases b with
  | false => exact hb
  | true =>
    exfalso
    rcases hiff.mp rfl with he | ⟨_, h2, _⟩
    · rw [he] at hrm; cases hrm
    · apply hn; apply h2
      simp only [statusesOf, hs, Bool.not_false, if_true, List.mem_map]
      exact ⟨r, hrm, rfl⟩

/-- replay: a (stateless) test without an acceptable previous result is executed again while tries remain -/
theorem replay_run {c : Cfg} {w : Worker} {shared : List Result} {m : Int} (fin scan : Bool)
    (hr : Reaches c (some w)) (hv : Valid c m) (hs : c.stateful = false)
    (hall : ∀ r ∈ shared, lower r.status ∈ rerunList c) (hstop : ∀ r ∈ shared, lower r.status ∉ stopList c)
    (hleft : (shared.length : Int) < m) :
    defaultRunDecision c w shared fin scan false = .ok (true, false) := by
  obtain ⟨b, hb, hiff⟩ := run_iff_stateless (shared := shared) fin scan hr hv hs
  have : b = true := by
    apply hiff.mpr
    right
    simp only [statusesOf, hs, Bool.not_false, if_true, List.length_map, List.mem_map]
    refine ⟨hleft, ?_, ?_⟩
    · rintro s ⟨r, hrm, rfl⟩; exact hall r hrm
    · rintro s ⟨r, hrm, rfl⟩; exact hstop r hrm
  rw [this] at hb; exact hb

/-- replay of a test that produces a state: executed again whenever the state is missing, whatever the
previous results were -/
theorem replay_state_missing {c : Cfg} {w : Worker} {shared : List Result} (dis : Bool)
    (hr : Reaches c (some w)) (hs : c.stateful = true) :
    ∃ d, defaultRunDecision c w shared false true dis = .ok (true, d) := run_stateful_scan dis hr hs



/-! ## 2. Identifiers and results of repeated executions (`run_test_node`) -/

/-- Along ANY sequence of events of a class of bridged copies — executions started and finished in any
interleaving by the copies' workers, results reported promptly, late or never, previous results replayed,
creation pre-steps in between — the (name, uid) pairs of all executions started are pairwise distinct.
`ClassOK`: two copies with the same name have the same prefix (copies of different workers differ in
their names). -/
theorem uids_distinct (s0 : St) (evs : List Event) (h0 : s0.issued = []) (hc : ClassOK s0.copies) :
    ((run s0 evs).1.issued.map (fun e => (e.name, e.uid))).Nodup := by
  have hinv : CountInv s0 := ⟨by simp [h0], by simp [h0], by simp [h0]⟩
  apply ids_nodup_of_countInv (run_countInv s0 evs hinv)
  unfold ClassOK; rw [statics_run]; exact hc

/-- "every execution leaves exactly one more result than it found": an execution started in state `s`
carries the current number of shared results as its retry counter and leaves one more result -/
theorem start_counts (s : St) (i : Nat) (c : Copy) (hc : s.copies[i]? = some c)
    (hfree : s.pending.any (fun e => e.copy == i) = false) :
    ∃ e, (start s i).2 = .started e ∧ e.k = sharedLen s.copies ∧ e.uid = uidOf c.pfx e.k ∧ e.name = c.name ∧
      sharedLen (start s i).1.copies = sharedLen s.copies + 1 := by
  simp only [start, hc, hfree, Bool.false_eq_true, if_false]
  exact ⟨_, rfl, rfl, rfl, rfl, sharedLen_updCopy_succ _ _ _ c hc (fun c => by simp)⟩

/-- one resumption: if no record of the job carries the identifier of the pending execution `e`, then the
record `finish` looks up and files in the node's results is the one this execution reported — promptly or
during the polling loop (the freshness hypothesis is discharged over whole runs by `own_result_read`) -/
theorem own_result_read_step (s : St) (j : Nat) (e : Exec) (c : Copy) (st : String) (t d : Nat)
    (hp : s.pending[j]? = some e) (hc : s.copies[e.copy]? = some c)
    (hfresh : ∀ x ∈ s.job, ¬ (x.name = e.name ∧ x.uid = e.uid))
    (hvis : d < statusTimeout) (hunk : unknownOf e.name ∈ c.results) :
    ∃ status, (finish s j (.reported st t d)).2 =
      .finished e (.reported st t d) (some { name := e.name, uid := e.uid, status := st, time := t }) status := by
  have hcont : ∀ r : Result, (c.results ++ [r]).contains (unknownOf e.name) = true := by
    intro r; simp only [List.contains_iff_mem, List.mem_append]; exact Or.inl hunk
  simp only [finish, hp, hc]
  by_cases hd : d = 0
  · subst hd
    simp only [settle, Outcome.delay, beq_self_eq_true, if_true, arrive, lookup_append_fresh _ _ _ _ _ hfresh,
      record, hcont, Except.map]
    exact ⟨_, rfl⟩
  · have hd' : (d == 0) = false := by simpa using hd
    have hpos : 0 < d := Nat.pos_of_ne_zero hd
    simp only [settle, Outcome.delay, hd', Bool.false_eq_true, if_false, arrive, lookup_fresh_none _ _ _ hfresh,
      hpos, hvis, decide_true, if_true, lookup_append_fresh _ _ _ _ _ hfresh, record, hcont]
    exact ⟨_, rfl⟩

/-- **Each execution reads its own result**, over whole runs: in every state reachable by ANY sequence of
events (interleaved executions of the copies, prompt/late/never reported results, replays, creation
attempts) from a state without executions and job records, a pending execution has no job record under its
(name, uid) yet — so the lookup of `run_test_node`, the FIRST record with this (name, uid), finds nothing
before this execution reports and exactly the record this execution reports afterwards, never a stale one.
`ClassOK`: copies with equal names have equal prefixes; `PreSep`: pre-nodes are named differently from the
nodes of the class.  (Analogue of `I2N.Props.C03.own_result_read` on the rule-level machine.) -/
theorem own_result_read (s0 : St) (evs : List Event) (hi : s0.issued = []) (hp : s0.pending = []) (hj : s0.job = [])
    (hc : ClassOK s0.copies) (hsep : PreSep s0.copies) :
    ∀ e ∈ (run s0 evs).1.pending,
      lookupJob (run s0 evs).1.job e.name e.uid = none ∧
      ∀ st t, lookupJob ((run s0 evs).1.job ++ [{ name := e.name, uid := e.uid, status := st, time := t }])
          e.name e.uid = some { name := e.name, uid := e.uid, status := st, time := t } := by
  have hinv0 : ReadInv s0 :=
    ⟨⟨by simp [hi], by simp [hi], by simp [hi]⟩, by simp [hp], by simp [hp], by simp [hj], by simp [hp]⟩
  have hinv := run_readInv s0 evs hc hsep hinv0
  intro e he
  have hfresh : ∀ x ∈ (run s0 evs).1.job, ¬ (x.name = e.name ∧ x.uid = e.uid) :=
    fun x hx h => hinv.pendFresh e he ⟨x, hx, h.1, h.2⟩
  exact ⟨lookup_fresh_none _ _ _ hfresh, fun st t => lookup_append_fresh _ _ _ _ _ hfresh⟩

/-- … and the resumption of a pending execution in any reachable state files, on its copy, exactly the
record it reported (promptly or within the polling window).
PARTIAL only in that the placeholder of the pending execution is assumed to be still in its copy's results
(`hc`, `hunk`; otherwise Python's `list.remove` would raise) — the correspondence checks that (results
ledger), it is not mechanised. -/
theorem own_result_filed_partial (s0 : St) (evs : List Event) (hi : s0.issued = []) (hp : s0.pending = [])
    (hj : s0.job = []) (hcl : ClassOK s0.copies) (hsep : PreSep s0.copies)
    (j : Nat) (e : Exec) (c : Copy) (st : String) (t d : Nat)
    (hpe : (run s0 evs).1.pending[j]? = some e) (hc : (run s0 evs).1.copies[e.copy]? = some c)
    (hunk : unknownOf e.name ∈ c.results) (hvis : d < statusTimeout) :
    ∃ status, (finish (run s0 evs).1 j (.reported st t d)).2 =
      .finished e (.reported st t d) (some { name := e.name, uid := e.uid, status := st, time := t }) status := by
  have hinv0 : ReadInv s0 :=
    ⟨⟨by simp [hi], by simp [hi], by simp [hi]⟩, by simp [hp], by simp [hp], by simp [hj], by simp [hp]⟩
  have hinv := run_readInv s0 evs hcl hsep hinv0
  have he : e ∈ (run s0 evs).1.pending := List.mem_of_getElem? hpe
  exact own_result_read_step _ j e c st t d hpe hc
    (fun x hx h => hinv.pendFresh e he ⟨x, hx, h.1, h.2⟩) hvis hunk

/-- Creation attempts (`traverse_terminal_node`, /repo ≥ 7ba7970) — along ANY sequence of events, in
particular any number of creation attempts of one object root copy with any outcomes of the pre-step
(acceptable, failing, late, never reported), interleaved with executions, replays and creation attempts of
the other copies — the (name, uid) pairs of all pre-steps run are pairwise distinct.  `PreNamesInj`: the
pre-nodes of different copies (different workers) have different names.  Invariant `PreInv`: every attempt
leaves the copy with at least one more own result than its pre-step was started with (the main execution's
placeholder on success, the recorded failure otherwise). -/
theorem pre_uids_distinct (s0 : St) (evs : List Event) (h0 : s0.preIssued = []) (hn : PreNamesInj s0.copies) :
    ((run s0 evs).1.preIssued.map (fun e => (e.name, e.uid))).Nodup := by
  have hinv : PreInv s0 := ⟨by simp [h0], by simp [h0]⟩
  apply pre_ids_nodup_of_preInv (run_preInv s0 evs hinv)
  unfold PreNamesInj; rw [preStatics_run]; exact hn

/-- one creation attempt, whatever its outcome: either it is not enabled / changes nothing of the ghost
list, or it is recorded with the copy's current own result count as retry counter and the copy ends up
with exactly one more own result -/
theorem create_counts (s : St) (i : Nat) (o : Outcome) :
    (createStep s i o).1.preIssued = s.preIssued ∨
    ∃ c, s.copies[i]? = some c ∧
      (createStep s i o).1.preIssued =
        { copy := i, k := c.results.length, name := c.preName, uid := uidOf c.prePfx c.results.length } :: s.preIssued ∧
      lenAt (createStep s i o).1.copies i = some (c.results.length + 1) := createStep_spec s i o

/-! ## 5. The verdict part of `run_suite` -/

/-- The suite is reported successful exactly when every test of the job result has an acceptable result —
PARTIAL: only when no test task of the run ended with a failing status (`hclean`) and every executed test
has a record in the job result at all (the statement quantifies over the records).  Both restrictions are
genuine: see the two witnesses below (findings `verdict:retried-test-reported-failed`,
`verdict:unreported-test-ignored`). -/
theorem suite_verdict_partial (tests : List JobRes) (taskResults : List String)
    (hv : ∀ t ∈ tests, (statusOk t.status).isSome = true)
    (hclean : ∀ w ∈ ["INTERRUPTED", "FAIL", "ERROR"], (taskResults.map upper).contains w = false) :
    ∃ sm, suiteSummary tests taskResults = .ok sm ∧
      (reportedSuccessful sm = true ↔
        ∀ t ∈ tests, ∃ r ∈ tests, r.name = t.name ∧ statusOk r.status = some true) := by
  obtain ⟨b, hb, hiff⟩ := verdict_iff tests hv
  have hI := hclean "INTERRUPTED" (by simp)
  have hF := hclean "FAIL" (by simp)
  have hE := hclean "ERROR" (by simp)
  unfold suiteSummary
  rw [hb]
  cases b with
  | true =>
    refine ⟨_, rfl, ?_⟩
    simp only [if_true, List.nil_append, reportedSuccessful, hI, hF, hE, Bool.not_false, Bool.and_self, true_iff]
    exact hiff.mp rfl
  | false =>
    refine ⟨_, rfl, ?_⟩
    have : ([suiteFailWord] ++ taskResults.map upper).contains "FAIL" = true := by
      simp only [List.contains_iff_mem, List.mem_append]; left; decide
    simp only [Bool.false_eq_true, if_false, reportedSuccessful, this, Bool.not_true, Bool.and_false,
      Bool.false_and, false_iff]
    intro h; have := hiff.mpr h; cases this

/-- WITNESS (finding): a test that failed and then passed on its retry has an acceptable result,
`all_results_ok` is true, but the summary carries the retry's `FAIL` and the job is reported failed -/
example : allResultsOk [⟨"t", "1", "FAIL", 1⟩, ⟨"t", "1r1", "PASS", 1⟩] = .ok true ∧
    suiteSummary [⟨"t", "1", "FAIL", 1⟩, ⟨"t", "1r1", "PASS", 1⟩] ["fail", "pass"] = .ok ["FAIL", "PASS"] ∧
    reportedSuccessful ["FAIL", "PASS"] = false := by decide

/-- WITNESS (finding): an executed test whose result never arrived has no record; the verdict does not
see it and the run is reported successful -/
example : (execute { copies := [{ name := "t.net1", pfx := "1" }] } 0 .never).1.job = [] ∧
    suiteSummary [] [] = .ok [] ∧ reportedSuccessful [] = true := by decide

/-! ## Non-vacuity and boundary witnesses -/

def cfgEx : Cfg :=
  { name := "normal.tutorial1.vm1.nets.localhost.net1", maxTries := some "3", rerunStatus := some "fail error",
    stopStatus := some "pass", poolScope := "own swarm cluster shared", netsSpawner := some "lxc" }
def wEx : Worker := ⟨"localhost", "net1"⟩
def res (st : String) : Result := ⟨"normal.tutorial1.vm1.nets.localhost.net1", st, some 1⟩

example : Reaches cfgEx (some wEx) := by unfold Reaches; decide
example : Valid cfgEx 3 := ⟨by decide, by decide, by decide, by decide⟩
example : shouldRerun cfgEx (some wEx) [res "FAIL"] = .ok true := by decide
example : shouldRerun cfgEx (some wEx) [res "FAIL", res "ERROR"] = .ok true := by decide
example : shouldRerun cfgEx (some wEx) [res "FAIL", res "ERROR", res "FAIL"] = .ok false := by decide   -- no tries left
example : shouldRerun cfgEx (some wEx) [res "FAIL", res "WARN"] = .ok false := by decide               -- outside the rerun set
example : shouldRerun { cfgEx with rerunStatus := none } (some wEx) [res "FAIL", res "PASS"] = .ok false := by decide -- stop set
example : shouldRerun { cfgEx with stopStatus := some "invalid" } (some wEx) [res "FAIL"] = .error .badStopStatus := by decide
example : shouldRerun { cfgEx with rerunStatus := some "fail,error" } (some wEx) [] = .error .badRerunStatus := by decide
example : shouldRerun { cfgEx with maxTries := some "x" } (some wEx) [] = .error .badTries := by decide
example : shouldRerun { cfgEx with maxTries := some "3.5" } (some wEx) [] = .error .badTries := by decide
example : shouldRerun { cfgEx with maxTries := some "-1" } (some wEx) [] = .error .negativeTries := by decide
example : shouldRerun cfgEx (some ⟨"localhost", "net2"⟩) [] = .error .runtimeError := by decide
/-- boundary: before the first execution the settings are not looked at (they are rejected at the decision
after it, which the traversal always takes) -/
example : defaultRunDecision { cfgEx with maxTries := some "x" } wEx [] true false false = .ok (true, false) := by decide
example : defaultRunDecision { cfgEx with maxTries := some "x" } wEx [res "FAIL"] true false false = .error .badTries := by decide

def replayEx : Cfg := { name := "normal.tutorial1.vm1.nets.localhost.net1", replay := some "job-1" }
example : Reaches replayEx (some wEx) := by unfold Reaches; decide
example : Valid replayEx 2 := ⟨by decide, by decide, by decide, by decide⟩
example : defaultRunDecision replayEx wEx [res "PASS"] true false false = .ok (false, false) := by decide
example : defaultRunDecision replayEx wEx [res "FAIL"] true false false = .ok (true, false) := by decide
/-- observations on the replay defaults (documented in design.d/C10.md, not violations): the budget counts
the tries of the previous job, and INTERRUPTED is not in the default rerun set -/
example : defaultRunDecision replayEx wEx [res "FAIL", res "FAIL"] true false false = .ok (false, false) := by decide
example : defaultRunDecision replayEx wEx [res "INTERRUPTED"] true false false = .ok (false, false) := by decide

def classEx : St :=
  { copies := [{ name := "t.nets.localhost.net1", pfx := "1", preName := "noop.nets.localhost.net1" },
               { name := "t.nets.localhost.net2", pfx := "1", preName := "noop.nets.localhost.net2" }] }
example : ClassOK classEx.copies := by unfold ClassOK; decide
example : ((run classEx [.start 0, .start 1, .finish 0 (.reported "FAIL" 1 0), .start 0, .finish 0 .never,
    .finish 0 (.reported "PASS" 1 3), .start 1]).1.issued.map (fun e => (e.name, e.uid))) =
    [("t.nets.localhost.net2", "1r3"), ("t.nets.localhost.net1", "1r2"), ("t.nets.localhost.net2", "1r1"),
     ("t.nets.localhost.net1", "1")] := by decide

example : PreSep classEx.copies := by unfold PreSep; decide
example : PreNamesInj classEx.copies := by
  intro i j p q hp hq h
  match i, j with
  | 0, 0 => rfl
  | 1, 1 => rfl
  | 0, 1 => simp [preStatics, classEx] at hp hq; rw [← hp, ← hq] at h; simp at h
  | 1, 0 => simp [preStatics, classEx] at hp hq; rw [← hp, ← hq] at h; simp at h
  | 0, j + 2 => simp [preStatics, classEx] at hq
  | 1, j + 2 => simp [preStatics, classEx] at hq
  | i + 2, _ => simp [preStatics, classEx] at hp

/-- non-vacuity of `own_result_read`: a reachable state with two executions in flight and records of finished
executions and of a failed creation attempt in the job result -/
example : let s := (run classEx [.start 0, .finish 0 (.reported "FAIL" 1 0), .create 1 (.reported "ERROR" 1 0),
      .start 0, .start 1]).1
    (s.pending.map (fun e => e.uid), s.job.map (fun x => x.uid)) = (["1r2", "1r3"], ["1", "0"]) := by decide

/-- three creation attempts of copy 0 (failed, never reported, passed), one of copy 1 in between: distinct
pre-step identifiers `0`, `0r1`, `0r2`, each attempt reads its own result, and the main execution starts
after the successful one -/
example : (run classEx [.create 0 (.reported "FAIL" 1 0), .create 1 (.reported "ERROR" 1 0), .create 0 .never,
      .create 0 (.reported "PASS" 1 0)]).2.map
      (fun o => match o with
        | .created p _ f st m => (p.uid, (f.map (·.status)).getD "-", st, (m.map (·.uid)).getD "-")
        | _ => ("", "", "", "")) =
    [("0", "FAIL", "fail", "-"), ("0", "ERROR", "error", "-"), ("0r1", "-", "error", "-"),
     ("0r2", "PASS", "pass", "1r3")] := by decide

/-- REGRESSION WITNESS (behaviour before /repo commit 7ba7970, `preStepOld`): a pre-step that fails left the
root node without a result; repeated, it carried the same identifier and read the stale FAIL although it
reported PASS -/
example :
    let r1 := preStepOld classEx 0 (.reported "FAIL" 1 0)
    let r2 := preStepOld r1.1 0 (.reported "PASS" 1 0)
    [r1.2, r2.2].map (fun o => match o with
        | .created p _ (some f) st _ => (p.uid, f.status, st) | _ => ("", "", "")) =
    [("0", "FAIL", "fail"), ("0", "FAIL", "fail")] := by decide

/-! ## The regenerated retry rule (`harness/pygen.py`)

`I2N/Extracted/GenRules.lean` is regenerated on every run from the source of `TestNode.should_rerun` and
`TestNode.shared_filtered_results` (Python AST → Lean `do` block, statement by statement: the literal-list loop is
unrolled, `{*a} - {*b}` / `{*a} & {*b}` are `List.filter`, `len(…) > 0` is non-emptiness, the accumulation loop of
`shared_filtered_results` is a `List.foldl`, `raise` is `throw`, log calls are dropped).  `I2N.Extracted.Rules` pins
the literals; these two theorems pin the *control flow*, the order of the checks and which error wins.

Encoding (the trivially checkable part of the tie, see `RERUN_SPEC` in harness/pygen.py): a result dictionary is the
structure `Result` (`r["status"]` ↦ `r.status`, `r["name"]` ↦ `r.name`), a worker is `Option Worker` (`worker` ↦
`w.isSome`, `worker.id` ↦ the id where Python evaluates it), parameters are the fields of `Cfg`. -/

section Regenerated
open I2N.Extracted.GenRules I2N.PyGen

/-- **`filteredResults` is the Python source of `shared_filtered_results`** for every configuration, every
`started_worker` (or none) and every list of shared results.  No hypotheses. -/
theorem filteredResults_matches_source (c : Cfg) (started : Option Worker) (shared : List Result) :
    genFilteredResults c started shared = filteredResults c started shared := by
  unfold genFilteredResults filteredResults
  have hf : ∀ f : String, shared.foldl (fun results result =>
      if isSubstr f result.name = true then results ++ [result] else results) [] =
      shared.filter (fun r => isSubstr f r.name) := by
    intro f
    have := foldl_append_if (fun r : Result => isSubstr f r.name) shared []
    simpa using this
  rcases started with _ | w
  · simp [scopeFilter, hf]
  · by_cases h1 : isSubstr "swarm" c.poolScope = true <;> by_cases h2 : c.netsSpawner = some "lxc" <;>
      by_cases h3 : isSubstr "cluster" c.poolScope = true <;> by_cases h4 : c.netsSpawner = some "remote" <;>
      simp [scopeFilter, scopeSwarm, scopeCluster, spawnerLxc, spawnerRemote, swarmOf, idOf, h1, h2, h3, h4, hf] <;>
      exact hf _

/-- the common end of every branch of `shouldRerun_matches_source`: all decided `if`s removed, the set tests
rewritten to `all` / `any`, both sides syntactically equal -/
local macro "rules_fin" : tactic => `(tactic|
  (simp only [dryRunDefault, dryRunYes, *, if_false, Bool.false_eq_true, getNumeric,
      maxTriesOf, rerunList, stopList, maxTriesDefault, maxTriesReplayDefault, maxTriesNoRerun, replayRerunDelimiter,
      replayRerunDefault, allStatuses, PyGen.throw_bind, PyGen.pure_bind, if_true, ite_self, diff_isEmpty, inter_isEmpty,
      Bool.not_not, Option.map, Bool.not_true, Bool.not_false, decide_eq_true_eq, ite_pure_bool]
   rfl))

/-- **The hand written `shouldRerun` is the Python source of `should_rerun`**: same Boolean or the same error (wrong
worker, invalid rerun / stop status, non-integer or negative `max_tries` — in the order the Python checks them) for
every configuration, worker and list of shared results.  No hypotheses. -/
theorem shouldRerun_matches_source (c : Cfg) (w : Option Worker) (shared : List Result) :
    genShouldRerun c w shared = shouldRerun c w shared := by
  unfold genShouldRerun shouldRerun
  by_cases h1 : (c.dryRun.getD "no" == "yes") = true
  · simp [h1, dryRunDefault, dryRunYes]; rfl
  by_cases h2 : c.flat = true
  · simp [h1, h2, dryRunDefault, dryRunYes]; rfl
  by_cases h3 : c.cloneSource = true
  · simp [h1, h2, h3, dryRunDefault, dryRunYes]; rfl
  by_cases h4 : wrongWorker c w = true
  · have h4' : (w.isSome && !(isSubstr (idOf w) c.name)) = true := by
      cases w <;> simp_all [wrongWorker, idOf]
    simp [h1, h2, h3, h4, h4', dryRunDefault, dryRunYes]; rfl
  have h4' : (w.isSome && !(isSubstr (idOf w) c.name)) = false := by
    cases w <;> simp_all [wrongWorker, idOf]
  have hstat : statusesOf c w shared = if (!c.stateful) = true then shared.map (fun r => lower r.status)
      else (genFilteredResults c (c.startedWorker <|> w) shared).map (fun r => lower r.status) := by
    simp only [statusesOf, filteredResults_matches_source]
  cases hrep : truthy c.replay <;> cases hst : c.stateful <;> cases hm : c.maxTries
  case false.false.none => rules_fin
  case false.true.none => rules_fin
  case true.false.none => rules_fin
  case true.true.none => rules_fin
  all_goals (rename_i s; cases hp : parseInt s <;> rules_fin)

/-- the generated definitions compute (they are not stuck on anything): a second try is granted after one failure,
refused after a pass when only failures are to be repeated, an unknown status is rejected before `max_tries` is read,
and a foreign worker is rejected first -/
example : genShouldRerun { name := "n.net1", maxTries := some "2" } (some ⟨"sw", "net1"⟩) [⟨"n.net1", "FAIL", some 1⟩]
    = .ok true := by decide
example : genShouldRerun { name := "n.net1", maxTries := some "3", rerunStatus := some "fail" } none
    [⟨"n.net1", "PASS", some 1⟩] = .ok false := by decide
example : genShouldRerun { name := "n.net1", maxTries := some "x", stopStatus := some "passed" } none [] =
    .error .badStopStatus := by decide
example : genShouldRerun { name := "n.net1", rerunStatus := some "bogus" } (some ⟨"sw", "net2"⟩) [] =
    .error .runtimeError := by decide
example : genFilteredResults { name := "n", netsSpawner := some "lxc" } (some ⟨"sw", "net1"⟩)
    [⟨"a.sw.net1", "PASS", none⟩, ⟨"a.sw.net2", "FAIL", none⟩] = [⟨"a.sw.net1", "PASS", none⟩] := by decide

/-! ### `default_run_decision`

Translated in the state monad `StateT Bool (Except Err)`: the state is whether the instance attribute `should_rerun` has
been replaced by `lambda _: False` (that assignment is the one pinned statement, it stands for `set true`);
`self.should_rerun(worker)` is the action `rerunM` (the generated `genShouldRerun` unless disabled).  `a or <action>` is
printed as statements (`pyTmp := a; if !pyTmp then pyTmp := ← action`), so the action runs only when Python runs it. -/

local macro "run_simp" " [" ts:Lean.Parser.Tactic.simpLemma,* "]" : tactic => `(tactic|
  simp [rerunM, StateT.run, bind, StateT.bind, Except.bind, Except.map, pure, StateT.pure, Except.pure, throw,
    throwThe, MonadExceptOf.throw, StateT.lift, liftM, monadLift, MonadLift.monadLift, set, StateT.set,
    MonadStateOf.set, MonadState.set, $ts,*])

/-- **The hand written `defaultRunDecision` is the Python source of `default_run_decision`**: same decision, same
"`should_rerun` disabled" flag afterwards, or the same error — for every configuration, worker, result list, outcome of
`is_finished` / `scan_states` and initial flag.  No hypotheses. -/
theorem defaultRunDecision_matches_source (c : Cfg) (w : Worker) (shared : List Result)
    (finished scanRun disabled : Bool) :
    (genDefaultRunDecision c w shared finished scanRun).run disabled =
      defaultRunDecision c w shared finished scanRun disabled := by
  unfold genDefaultRunDecision defaultRunDecision rerunM
  rw [← shouldRerun_matches_source, ← filteredResults_matches_source]
  by_cases h1 : (c.dryRun.getD "no" == "yes") = true
  · run_simp [h1, dryRunDefault, dryRunYes]
  by_cases h2 : c.flat = true
  · run_simp [h1, h2, dryRunDefault, dryRunYes]
  by_cases h3 : c.cloneSource = true
  · run_simp [h1, h2, h3, dryRunDefault, dryRunYes]
  by_cases h4 : isSubstr w.id c.name = true
  · generalize genShouldRerun c (some w) shared = r
    generalize hF : (genFilteredResults c c.startedWorker shared).isEmpty = fe
    generalize hE : shared.isEmpty = se
    cases hst : c.stateful <;> cases se <;> cases finished <;> cases scanRun <;> cases fe <;> cases disabled <;>
      cases r <;> run_simp [h1, h2, h3, h4, hst, dryRunDefault, dryRunYes, hF, hE]
  · run_simp [h1, h2, h3, h4, dryRunDefault, dryRunYes]

/-- the generated definition computes: a stateless node without results runs; a stateful node whose state is missing
runs; with no result and an available state the retry rule is switched off; a foreign worker is rejected -/
example : (genDefaultRunDecision { name := "n.net1" } ⟨"sw", "net1"⟩ [] false false).run false = .ok (true, false) := by
  decide
example : (genDefaultRunDecision { name := "n.net1", stateful := true } ⟨"sw", "net1"⟩ [] false true).run false =
    .ok (true, false) := by decide
example : (genDefaultRunDecision { name := "n.net1", stateful := true, maxTries := some "3" } ⟨"sw", "net1"⟩ [] false
    false).run false = .ok (false, true) := by decide
example : (genDefaultRunDecision { name := "n.net1" } ⟨"sw", "net2"⟩ [] false false).run false =
    .error .runtimeError := by decide

end Regenerated

/-! ## Regenerated runner (translator tie of `TestRunner.run_test_node` and `TestRunner.all_results_ok`)

`harness/pygen_pxrunner.py` cuts the coroutine `run_test_node` at its two awaits into straight-line segments and
regenerates `Extracted/GenRunner.lean` from /repo's current source on every run; the awaits are the suspension points
of the machine (`start` / `finish`).  The state of a segment is `RSt` = (`node.results`, `job.result.tests`,
`node.prefix`). -/
section RegeneratedRunner
open I2N.Extracted.GenRunner I2N.Lemmas.RunnerGen

local macro "seg_simp" " [" ts:Lean.Parser.Tactic.simpLemma,* "]" : tactic => `(tactic|
  simp [readSt, modSt, removeM, warnInPlace, StateT.run, bind, StateT.bind, Except.bind, Except.map, pure, StateT.pure,
    Except.pure, $ts,*])

/-- **The verdict computation is the Python source of `all_results_ok`**: same Boolean or the same KeyError, for every
list of job results.  No hypotheses. -/
theorem allResultsOk_matches_source (tests : List JobRes) : genAllResultsOk tests = allResultsOk tests :=
  genAllOkLoop_eq tests tests

/-- **The segment in front of `await self.run_test_task(node)`**, for every state: the retry number is the number of
shared results, the uid is `uidOf prefix k`, the UNKNOWN placeholder is appended to `node.results` IN THIS SEGMENT (before
the suspension), the prefix is the retry prefix while the task runs. -/
theorem runBefore_matches_source (nm : String) (k : Nat) (st : RSt) :
    (genRunBefore nm k).run st =
      .ok ((st.pfx, (k : Int), uidOf st.pfx k, nm, unknownOf nm),
           { results := st.results ++ [unknownOf nm], job := st.job, pfx := uidOf st.pfx k }) := by
  unfold genRunBefore
  by_cases hk : k = 0
  · subst hk
    seg_simp [uidOf, unknownOf, unknownStatus]
  · have : 0 < k := Nat.pos_of_ne_zero hk
    seg_simp [uidOf, unknownOf, unknownStatus, retryInfix, this]

/-- **One poll that found the record `x`** (the `try` body behind `next(...)` up to its `break`) is the model's `record`:
duration rule (a PASS slower than 1.25 x the slowest earlier PASS of this copy becomes WARN, also in the job record),
the result appended, the first placeholder removed (`removeMissing` = Python's ValueError when there is none), the
status in lower case.  `x.name = name` is what the lookup guarantees (`lookupJob_name`). -/
theorem pollFound_matches_source (name uid : String) (x : JobRes) (st : RSt) (hx : x.name = name) :
    (genPollFound name uid (unknownOf name) x).run st =
      (record st.results st.job name uid x).map
        (fun r => (r.status, { results := r.results, job := r.job, pfx := st.pfx })) := by
  unfold genPollFound record durationStatus
  rw [show durationFactorDen = 4 from rfl, show durationFactorNum = 5 from rfl, ← pyMaxDefault_eq]
  rcases st with ⟨results, job, pfx⟩
  by_cases he : results = []
  · subst he
    seg_simp [hx, unknownOf, unknownStatus, passStatus, warnStatus]
  · have hl : 0 < results.length := List.length_pos_iff.mpr he
    have he' : results.isEmpty = false := by simpa using he
    by_cases hw : x.status = "PASS" ∧ 5 * pyMaxDefault (List.map (fun r => r.time.getD 0)
        (List.filter (fun r => r.status == "PASS") results)) x.time < 4 * x.time
    · have hp : x.status = "PASS" := hw.1
      have hw2 := hw.2
      by_cases hc : ({ name := name, status := "UNKNOWN" } : Result) ∈ results
      · seg_simp [hx, hc, hw2, hl, he', hp, unknownOf, unknownStatus, passStatus, warnStatus]
      · seg_simp [hx, hc, hw2, hl, he', hp, unknownOf, unknownStatus, passStatus, warnStatus]
    · by_cases hc : ({ name := name, status := "UNKNOWN" } : Result) ∈ results
      · seg_simp [hx, hc, hw, hl, he', unknownOf, unknownStatus, passStatus, warnStatus]
      · seg_simp [hx, hc, hw, hl, he', unknownOf, unknownStatus, passStatus, warnStatus]

/-- **One iteration of the lookup loop**: the lookup is the model's `lookupJob` (FIRST record with that name AND uid);
found = `record` and the loop is left with that status, not found = nothing changes and the coroutine sleeps.  In
particular **a miss does not touch `node.results`: the UNKNOWN placeholder stays** (see `placeholder_stays_when_unreported`). -/
theorem poll_matches_source (name uid : String) (st : RSt) :
    (genPoll name uid (unknownOf name)).run st =
      match lookupJob st.job name uid with
      | some x => (record st.results st.job name uid x).map
          (fun r => (some r.status, { results := r.results, job := r.job, pfx := st.pfx }))
      | none => .ok (none, st) := by
  have hh := genLookup_head st.job name uid
  unfold genPoll
  cases hl : genLookup st.job name uid with
  | nil =>
    rw [hl] at hh
    rw [← hh]
    seg_simp [hl]
  | cons x rest =>
    rw [hl] at hh
    have hx := lookupJob_name hh.symm
    rw [← hh]
    have := pollFound_matches_source name uid x st hx.1
    simp only [StateT.run] at this
    seg_simp [hl, this]
    cases record st.results st.job name uid x <;> rfl

/-- the handler of a poll leaves `test_status = "error"` (the loop's `else` only logs): the value `settle` reports when
the record never shows up -/
theorem pollMiss_matches_source : genPollMiss = "error" := rfl

/-- `for i in range(status_timeout)`: the default is the extracted constant the model polls with -/
theorem statusTimeout_matches_source : genStatusTimeout = statusTimeout := rfl

/-- **The segment behind the lookup loop**: the prefix is restored, the returned Boolean is the model's `statusBool`
(`test_status not in ["error", "fail"]`). -/
theorem runAfter_matches_source (p ts : String) (st : RSt) :
    (genRunAfter p ts).run st = .ok (statusBool ts, { results := st.results, job := st.job, pfx := p }) := by
  unfold genRunAfter statusBool
  by_cases h : ts = "error" ∨ ts = "fail"
  · rcases h with rfl | rfl <;> seg_simp [failingStatuses]
  · have h1 : ts ≠ "error" := fun e => h (Or.inl e)
    have h2 : ts ≠ "fail" := fun e => h (Or.inr e)
    seg_simp [failingStatuses, h1, h2]

/-- `beginExec` (the effect of `start`) is the generated first segment run on the copy's state: same retry counter,
same uid, same results of the copy, job results untouched. -/
theorem beginExec_matches_source (s : St) (i : Nat) (c : Copy) (hc : s.copies[i]? = some c) :
    ∃ fr st', (genRunBefore c.name (sharedLen s.copies)).run { results := c.results, job := s.job, pfx := c.pfx } =
        .ok (fr, st') ∧
      (beginExec s i c).2 = { copy := i, k := fr.2.1.toNat, name := fr.2.2.2.1, uid := fr.2.2.1 } ∧
      (beginExec s i c).1.copies = updCopy s.copies i (fun c' => { c' with results := st'.results }) ∧
      (beginExec s i c).1.job = st'.job ∧ fr.2.2.2.2 = unknownOf c.name ∧ fr.1 = c.pfx := by
  refine ⟨_, _, runBefore_matches_source _ _ _, ?_, ?_, rfl, rfl, rfl⟩
  · simp [beginExec]
  · simp only [beginExec]
    have : ∀ (cs : List Copy) (j : Nat), cs[j]? = some c →
        updCopy cs j (fun c => { c with results := c.results ++ [unknownOf c.name] }) =
        updCopy cs j (fun c' => { c' with results := c.results ++ [unknownOf c.name] }) := by
      intro cs
      induction cs with
      | nil => intro j _; rfl
      | cons a as ih =>
        intro j hj
        cases j with
        | zero => simp at hj; subst hj; rfl
        | succ j => simp at hj; simp only [updCopy]; rw [ih j hj]
    exact this _ _ hc

/-- the generated segments compute: first execution (no retry suffix), third execution (`r2`), a slow PASS becomes WARN
in the copy's results and in the job record, a record under another uid is not found, an unmapped status is a KeyError
only when no acceptable record of that name precedes it -/
example : (genRunBefore "t.net1" 0).run ⟨[], [], "3"⟩ =
    .ok (("3", 0, "3", "t.net1", unknownOf "t.net1"), ⟨[unknownOf "t.net1"], [], "3"⟩) := by decide
example : (genRunBefore "t.net1" 2).run ⟨[⟨"t.net1", "FAIL", some 1⟩], [], "3"⟩ =
    .ok (("3", 2, "3r2", "t.net1", unknownOf "t.net1"),
         ⟨[⟨"t.net1", "FAIL", some 1⟩, unknownOf "t.net1"], [], "3r2"⟩) := by decide
example : (genPoll "t" "1r1" (unknownOf "t")).run ⟨[⟨"t", "PASS", some 10⟩, unknownOf "t"], [⟨"t", "1r1", "PASS", 13⟩], "1r1"⟩ =
    .ok (some "warn", ⟨[⟨"t", "PASS", some 10⟩, ⟨"t", "WARN", some 13⟩], [⟨"t", "1r1", "WARN", 13⟩], "1r1"⟩) := by decide
example : (genPoll "t" "1r1" (unknownOf "t")).run ⟨[unknownOf "t"], [⟨"t", "1", "PASS", 13⟩], "1r1"⟩ =
    .ok (none, ⟨[unknownOf "t"], [⟨"t", "1", "PASS", 13⟩], "1r1"⟩) := by decide
example : genAllResultsOk [⟨"a", "1", "FAIL", 1⟩, ⟨"a", "1r1", "PASS", 1⟩] = .ok true := by decide
example : genAllResultsOk [⟨"a", "1", "PASS", 1⟩, ⟨"b", "2", "FAIL", 1⟩, ⟨"a", "1r1", "bogus", 1⟩] = .ok false := by decide
example : genAllResultsOk [⟨"a", "1", "bogus", 1⟩, ⟨"a", "1r1", "PASS", 1⟩] = .error .keyError := by decide

/-- **The unreported result on the SOURCE** (finding F-C10-2, reproduced on the real code by
`tools/repro_unreported_placeholder.py`): when no record with this (name, uid) is in `job.result.tests` and none arrives
during the sleeps, the lookup loop — whatever the number of remaining polls — ends with `test_status = "error"` and
`node.results` is exactly what it was: the UNKNOWN placeholder appended in front of the task await is still there (the
`remove` sits only in the branch that found the record). -/
theorem placeholder_stays_when_unreported (env : Nat → List JobRes) (name uid : String)
    (henv : ∀ j, lookupJob (env j) name uid = none) (n i : Nat) (st : RSt)
    (hjob : lookupJob st.job name uid = none) :
    ∃ job', (genPolls env name uid (unknownOf name) i n).run st =
        .ok ("error", { results := st.results, job := job', pfx := st.pfx }) ∧
      lookupJob job' name uid = none := by
  induction n generalizing i st with
  | zero => exact ⟨st.job, rfl, hjob⟩
  | succ n ih =>
    have hp := poll_matches_source name uid st
    rw [hjob] at hp
    have hj2 : lookupJob (st.job ++ env (i + 1)) name uid = none := by
      unfold lookupJob at *
      rw [List.find?_append, hjob, henv]; rfl
    obtain ⟨job', h1, h2⟩ := ih (i + 1) { results := st.results, job := st.job ++ env (i + 1), pfx := st.pfx } hj2
    refine ⟨job', ?_, h2⟩
    simp only [StateT.run] at hp h1 ⊢
    rw [genPolls]
    seg_simp [hp, h1]

/-- the hand model mirrors it (the model mirrors the code): `settle` of a result that never arrives leaves the copy's
results — placeholder included — and reports `"error"`; so do `finish` and, in the traversal model, `resumeTest` (its
`none` branch goes to `continueAfter s false` without touching the results) -/
theorem settle_never_keeps_placeholder (results : List Result) (job : List JobRes) (name uid : String)
    (hjob : lookupJob job name uid = none) :
    settle results job name uid .never = .ok { results := results, job := job, status := "error", found := none } := by
  simp [settle, Outcome.delay, arrive, hjob]

example : ∃ job', (genPolls (fun _ => []) "t" "1" (unknownOf "t") 0 genStatusTimeout).run ⟨[unknownOf "t"], [], "1"⟩ =
    .ok ("error", ⟨[unknownOf "t"], job', "1"⟩) ∧ lookupJob job' "t" "1" = none :=
  placeholder_stays_when_unreported (fun _ => []) "t" "1" (fun _ => rfl) _ 0 ⟨[unknownOf "t"], [], "1"⟩ rfl

/-! ### The traversal model's `startTest` against the generated first segment

`Trav.Result` carries a ghost tag and a uid; `toRules` forgets them (an UNKNOWN placeholder has no `time_elapsed`). -/

/-- adapter between the two result types (explicit: the traversal model is structured differently) -/
def toRules (r : I2N.Trav.Result) : Result :=
  { name := r.name, status := r.status, time := if r.status == "UNKNOWN" then none else some r.dur }

/-- **`Trav.startTest` (test proper: phase plain or main) is the generated first segment of `run_test_node`** run on
the node copy's state: the uid stored in the worker's program counter is the uid the source computes from the number of
shared results, the results of the copy afterwards are — through `toRules` — the results the source leaves (placeholder
appended before the suspension), and the step ends in the suspension.  Hypotheses: `n` / `w` are indices of the state. -/
theorem startTest_matches_source (g : I2N.Trav.Graph) (s : I2N.Trav.State) (n w : Nat) (ph : I2N.Trav.Phase)
    (dir : I2N.Trav.Dir) (hph : ph ≠ .pre) (hn : n < s.nodes.length) (hw : w < s.workers.length) :
    ∃ fr st', (genRunBefore (g.node n).name (I2N.Trav.sharedResults g s n).length).run
          { results := (s.nd n).results.map toRules, job := [], pfx := (g.node n).pfx } = .ok (fr, st') ∧
      ((I2N.Trav.startTest g s n w ph dir).1.wd w).pc = .test n ph dir fr.2.2.1 s.nextTag 0 ∧
      ((I2N.Trav.startTest g s n w ph dir).1.nd n).results.map toRules = st'.results ∧
      (∃ evs, (I2N.Trav.startTest g s n w ph dir).2 = (evs, .suspend)) := by
  have hp : (ph == I2N.Trav.Phase.pre) = false := by cases ph <;> first | rfl | exact absurd rfl hph
  refine ⟨_, _, runBefore_matches_source _ _ _, ?_, ?_, ?_⟩
  · have hw' : s.workers[w]? = some s.workers[w] := List.getElem?_eq_getElem hw
    simp [I2N.Trav.startTest, hp, I2N.Trav.State.setWd, I2N.Trav.State.setNd, I2N.Trav.State.wd,
      hw', I2N.Trav.uidOf, uidOf, retryInfix]
  · have hn' : s.nodes[n]? = some s.nodes[n] := List.getElem?_eq_getElem hn
    simp [I2N.Trav.startTest, hp, I2N.Trav.State.setWd, I2N.Trav.State.setNd, I2N.Trav.State.nd,
      hn', toRules, unknownOf, unknownStatus]
  · simp only [I2N.Trav.startTest, hp, Bool.false_eq_true, if_false]
    exact ⟨_, rfl⟩

example : toRules { name := "t", status := "UNKNOWN", uid := "", tag := 3 } = unknownOf "t" := by decide

end RegeneratedRunner

end I2N.Props.C10
