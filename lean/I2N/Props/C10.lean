import I2N.Model.Rules
namespace I2N.Props.C10
theorem placeholder : True := trivial
end I2N.Props.C10
