import I2N.Model.Cmd
namespace I2N.Props.C11
open I2N.Cmd

theorem placeholder : True := trivial

end I2N.Props.C11
