import I2N.Lemmas.Cmd
import I2N.Extracted.GenCmd
/-! C11 — command line selections and overrides mean what the documentation says. -/
namespace I2N.Props.C11
open I2N.Cmd

/-- a tiny but complete configuration used by the non-vacuity examples -/
def av0 : Avail :=
  { vms := ["vm1".toList, "vm2".toList]
    restrictions := ["all".toList, "normal".toList, "minimal".toList]
    defaultOnly := some "normal".toList
    defaultVm := [("vm1".toList, "CentOS".toList)]
    tests := [["all".toList, "quicktest".toList, "tutorial1".toList],
              ["all".toList, "tutorial2".toList, "files".toList],
              ["normal".toList, "quicktest".toList, "tutorial1".toList],
              ["normal".toList, "tutorial2".toList, "files".toList],
              ["minimal".toList, "quicktest".toList, "tutorial1".toList]]
    nets := [(["nets".toList, "localhost".toList, "net1".toList], "net1".toList),
             (["nets".toList, "localhost".toList, "net2".toList], "net2".toList)]
    vmObjs := [("vm1".toList, [["vm1".toList, "Linux".toList, "CentOS".toList], ["vm1".toList, "Linux".toList, "Fedora".toList]])] }

def args0 (l : List String) : List Str := l.map String.toList

/-! ## malformed arguments are rejected -/

/-- Any argument list containing an argument that is not of the form `<\w+>=<value>` is rejected
(whatever else it contains and wherever the argument stands). -/
theorem malformed_rejected (av : Avail) (args : List Str) (a : Str)
    (hmem : a ∈ args) (hbad : splitArg a = none) : ∃ e, paramsFromCmd av args = .error e := by
  apply paramsFromCmd_error_of_loop
  apply loop_rejects (a := a) _ args _ hmem
  intro st
  exact ⟨.valueError, by simp [step, hbad]⟩

example : splitArg "ccc".toList = none := by decide
example : splitArg " a=x".toList = none := by decide
example : splitArg "=x".toList = none := by decide
example : splitArg "a==x".toList = some ("a".toList, "=x".toList) := by decide
example : ∃ e, paramsFromCmd av0 (args0 ["aaa=bbb", "ccc"]) = .error e :=
  malformed_rejected av0 _ "ccc".toList (by decide) (by decide)
/-- and the error is the documented `ValueError` when nothing before it fails -/
example : paramsFromCmd av0 (args0 ["aaa=bbb", "ccc"]) = .error .valueError := by decide


/-! ## unknown vms are rejected -/

/-- A `vms=` argument naming a vm that is not available is rejected, wherever it stands. -/
theorem unknown_vm_rejected (av : Avail) (args : List Str) (a v x : Str)
    (hmem : a ∈ args) (hkv : splitArg a = some (kVms, v))
    (hx : x ∈ splitComma v) (hun : x ∉ av.vms) : ∃ e, paramsFromCmd av args = .error e := by
  apply paramsFromCmd_error_of_loop
  apply loop_rejects (a := a) _ args _ hmem
  intro st
  have hc : classify av a = .vms v := classify_vms_iff.mpr hkv
  have h5 : (splitComma v).all (av.vms.contains ·) = false := by
    rw [List.all_eq_false]
    exact ⟨x, hx, by simpa using hun⟩
  exact ⟨.valueError, by rw [step_eq, hc]; simp only [stepC, h5]; rfl⟩

example : ∃ e, paramsFromCmd av0 (args0 ["only=normal", "vms=vm1,vmX"]) = .error e :=
  unknown_vm_rejected av0 _ "vms=vm1,vmX".toList "vm1,vmX".toList "vmX".toList
    (by decide) (by decide) (by decide) (by decide)
/-- the empty selection `vms=` names the vm `""` -/
example : paramsFromCmd av0 (args0 ["vms="]) = .error .valueError := by decide
/-- conversely every vm of an accepted configuration is available, and the selection is the last
`vms=` given (all available vms if none) -/
theorem vms_selection (av : Avail) (args : List Str) (c : Config)
    (h : paramsFromCmd av args = .ok c) :
    c.vms = lastVms av av.vms args ∧ ∀ x ∈ c.vms, x ∈ av.vms := by
  obtain ⟨st, hl, hf⟩ := paramsFromCmd_ok h
  obtain ⟨tl, ls, _, _, _, hc⟩ := finish_ok hf
  have hv : c.vms = st.selVms := by rw [hc]
  refine ⟨by rw [hv, loop_selVms args _ st hl]; rfl, ?_⟩
  rw [hv]
  have key : ∀ (args : List Str) (st st' : St), (∀ x ∈ st.selVms, x ∈ av.vms) →
      loop av st args = .ok st' → ∀ x ∈ st'.selVms, x ∈ av.vms := by
    intro args
    induction args with
    | nil => intro st st' hi hl; simp [loop] at hl; subst hl; exact hi
    | cons b bs ih =>
      intro st st' hi hl
      obtain ⟨st1, hs, hl'⟩ := loop_ok_cons.mp hl
      refine ih st1 st' ?_ hl'
      have hs' := stepC_ok_of_step hs
      rw [stepC_selVms st st1 _ hs']
      cases hc : classify av b with
      | vms v =>
        simp only [hc, stepC] at hs'
        split at hs'
        · rename_i hall
          intro x hx
          have := (List.all_eq_true.mp hall) x hx
          simpa using this
        · cases hs'
      | bad => exact hi
      | test _ _ => exact hi
      | netsR _ _ => exact hi
      | vmR _ _ _ => exact hi
      | badObj _ _ => exact hi
      | nets _ => exact hi
      | other _ _ => exact hi
  exact key args (St.init av) st (by simp [St.init]) hl

example : (paramsFromCmd av0 (args0 ["vms=vm1,vm2", "only=minimal", "vms=vm2"])).toOption.map (·.vms)
    = some ["vm2".toList] := by decide

/-! ## unknown object restrictions -/

/-- An `only_X=`/`no_X=` argument whose object `X` is neither `nets` nor (exactly) an available vm is
rejected, wherever it stands.  (Full since /repo 6e359ac; before, keys were matched by prefix and
`only_vm10=x` was read as a restriction `only0 x` of vm1.) -/
theorem unknown_object_restr_rejected (av : Avail) (args : List Str) (a k v : Str)
    (hmem : a ∈ args) (hkv : splitArg a = some (k, v)) (hobj : isObjKey k = true)
    (hunknown : ∀ x, (k = kOnlyU ++ x ∨ k = kNoU ++ x) → x ≠ kNets ∧ x ∉ av.vms) :
    ∃ e, paramsFromCmd av args = .error e := by
  apply paramsFromCmd_error_of_loop
  apply loop_rejects (a := a) _ args _ hmem
  intro st
  have hnn : netsKey k = false := by
    rw [Bool.eq_false_iff]
    intro h
    simp only [netsKey, Bool.or_eq_true, beq_iff_eq] at h
    rcases h with h | h
    · exact (hunknown kNets (Or.inl (by rw [h]; rfl))).1 rfl
    · exact (hunknown kNets (Or.inr (by rw [h]; rfl))).1 rfl
  have hf : av.vms.find? (vmKey k) = none := by
    rw [List.find?_eq_none]
    intro x hx h
    simp only [vmKey, Bool.or_eq_true, beq_iff_eq] at h
    rcases h with h | h
    · exact (hunknown x (Or.inl h)).2 hx
    · exact (hunknown x (Or.inr h)).2 hx
  have hc : classify av a = .badObj k v :=
    classify_badObj_iff.mpr ⟨hkv, isObjKey_not_test k hobj, hobj, hnn, hf⟩
  exact ⟨.valueError, by rw [step_eq, hc]; rfl⟩

example : paramsFromCmd av0 (args0 ["only_something=restr"]) = .error .valueError := by decide
example : paramsFromCmd av0 (args0 ["no_vm4=Fedora"]) = .error .valueError := by decide
/-- regression examples of the pre-fix behaviour (prefix match): now rejected -/
example : paramsFromCmd av0 (args0 ["only_vm10=x"]) = .error .valueError := by decide
example : paramsFromCmd av0 (args0 ["only_vm1_vm1=Fedora"]) = .error .valueError := by decide
example : paramsFromCmd av0 (args0 ["only_nets_nets=net1"]) = .error .valueError := by decide
/-- the hypotheses are met by `only_vm10=x` on `av0` (vms vm1, vm2) -/
example : ∃ e, paramsFromCmd av0 (args0 ["aaa=b", "only_vm10=x"]) = .error e :=
  unknown_object_restr_rejected av0 _ "only_vm10=x".toList "only_vm10".toList "x".toList
    (by decide) (by decide) (by decide)
    (by
      intro x hx
      have hx' : x = "vm10".toList := by
        rcases hx with h | h
        · have : "only_vm10".toList = kOnlyU ++ "vm10".toList := by decide
          rw [this] at h; exact (List.append_cancel_left h).symm
        · simp [kNoU] at h
      subst hx'
      exact ⟨by decide, by decide⟩)
/-- and exact keys are still accepted -/
example : (paramsFromCmd av0 (args0 ["only_vm1=Fedora"])).toOption.map (·.availableVms)
    = some [("vm1".toList, [("only".toList, "Fedora".toList)]), ("vm2".toList, [])] := by decide

/-! ## conflicting net selections -/

/-- An explicit `nets=` and a non-empty `only_nets=`/`no_nets=` are rejected **in either order**
(full since /repo 893de05; before, `nets=net1 only_nets=net2` silently yielded `nets = net2`).
For the order restriction-first the restriction must still be in force when `nets=` is read, i.e. not
withdrawn by a later `only_nets=`/`no_nets=` with an *empty* value (the documented way to lift a
restriction, see the example below); for the order `nets=`-first there is no side condition. -/
theorem nets_conflict_rejected (av : Avail) (pre mid post : List Str) (r n kr vr vn : Str)
    (hr : splitArg r = some (kr, vr)) (hkr : kr = kOnlyNets ∨ kr = kNoNets) (hvr : vr ≠ [])
    (hn : splitArg n = some (kNets, vn)) :
    ((∀ m ∈ mid, ∀ k, splitArg m = some (k, []) → k ≠ kOnlyNets ∧ k ≠ kNoNets) →
      ∃ e, paramsFromCmd av (pre ++ r :: (mid ++ n :: post)) = .error e) ∧
    (∃ e, paramsFromCmd av (pre ++ n :: (mid ++ r :: post)) = .error e) := by
  have hnk : netsKey kr = true := by
    simp only [netsKey, Bool.or_eq_true, beq_iff_eq]; exact hkr
  have c_r : classify av r = .netsR kr vr := classify_netsR_iff.mpr ⟨hr, hnk⟩
  have c_n : classify av n = .nets vn := classify_nets_iff.mpr hn
  constructor
  · intro hmid
    apply paramsFromCmd_error_of_loop
    cases hl : loop av (St.init av) (pre ++ r :: (mid ++ n :: post)) with
    | error e => exact ⟨e, rfl⟩
    | ok st' =>
      exfalso
      obtain ⟨st1, _, h2⟩ := loop_ok_append.mp hl
      obtain ⟨st2, hs2, h3⟩ := loop_ok_cons.mp h2
      obtain ⟨st3, h4, h5⟩ := loop_ok_append.mp h3
      obtain ⟨st4, hs4, _⟩ := loop_ok_cons.mp h5
      have n2 : st2.netsStr.isSome = true := by
        rw [stepC_netsStr st1 st2 _ (stepC_ok_of_step hs2), c_r]
        exact netsOf_isSome hvr
      have n3 : st3.netsStr.isSome = true := by
        apply loop_netsStr_some mid st2 st3 _ n2 h4
        intro m hm k hc
        obtain ⟨hs, hk⟩ := classify_netsR_iff.mp hc
        simp only [netsKey, Bool.or_eq_true, beq_iff_eq] at hk
        obtain ⟨h1, h2⟩ := hmid m hm k hs
        rcases hk with hk | hk
        · exact h1 hk
        · exact h2 hk
      have hs4' := stepC_ok_of_step hs4
      simp [c_n, stepC, n3] at hs4'
  · apply paramsFromCmd_error_of_loop
    cases hl : loop av (St.init av) (pre ++ n :: (mid ++ r :: post)) with
    | error e => exact ⟨e, rfl⟩
    | ok st' =>
      exfalso
      obtain ⟨st1, _, h2⟩ := loop_ok_append.mp hl
      obtain ⟨st2, hs2, h3⟩ := loop_ok_cons.mp h2
      obtain ⟨st3, h4, h5⟩ := loop_ok_append.mp h3
      obtain ⟨st4, hs4, _⟩ := loop_ok_cons.mp h5
      have e2 : st2.explicitNets = true := by
        rw [stepC_explicit st1 st2 _ (stepC_ok_of_step hs2), c_n]
      have e3 : st3.explicitNets = true := loop_explicit_mono mid st2 st3 e2 h4
      have hs4' := stepC_ok_of_step hs4
      rw [c_r] at hs4'
      obtain ⟨hno, _⟩ := stepC_netsR_ok hs4'
      rw [netsOf_isSome hvr, e3] at hno
      cases hno

example : paramsFromCmd av0 (args0 ["only_nets=net2", "aaa=bbb", "nets=net1"]) = .error .valueError := by decide
/-- regression example of the pre-fix behaviour (F6): the reverse order is rejected as well now -/
example : paramsFromCmd av0 (args0 ["nets=net1", "aaa=bbb", "only_nets=net2"]) = .error .valueError := by decide
example : paramsFromCmd av0 (args0 ["nets=", "no_nets=net2"]) = .error .valueError := by decide
/-- the hypotheses of both parts are met -/
example : (∃ e, paramsFromCmd av0 (args0 ["only_nets=net2", "aaa=bbb", "nets=net1"]) = .error e) ∧
    (∃ e, paramsFromCmd av0 (args0 ["nets=net1", "aaa=bbb", "only_nets=net2"]) = .error e) := by
  have h := nets_conflict_rejected av0 [] [ "aaa=bbb".toList ] [] "only_nets=net2".toList "nets=net1".toList
    "only_nets".toList "net2".toList "net1".toList (by decide) (Or.inl (by decide)) (by decide) (by decide)
  refine ⟨h.1 ?_, h.2⟩
  intro m hm k hs
  simp only [List.mem_singleton] at hm
  subst hm
  have : splitArg "aaa=bbb".toList = some ("aaa".toList, "bbb".toList) := by decide
  rw [this] at hs; cases hs
/-- an empty nets restriction is no restriction: it conflicts with nothing and withdraws an earlier one -/
example : (paramsFromCmd av0 (args0 ["only_nets=", "nets=net1"])).toOption.map (·.paramDict)
    = some [("nets".toList, "net1".toList)] := by decide
example : (paramsFromCmd av0 (args0 ["only_nets=net2", "only_nets=", "nets=net1"])).toOption.map (·.paramDict)
    = some [("nets".toList, "net1".toList)] := by decide

/-! ## the default primary restriction -/

/-- The restriction lines of an accepted command line are exactly the typed `only=`/`no=` in their
order, followed by `only <default>` **iff** no typed value names a primary restriction; the default
is `default_only` of the command line, else of the configuration, else `all`. -/
theorem default_iff_no_primary (av : Avail) (args : List Str) (c : Config)
    (h : paramsFromCmd av args = .ok c) :
    c.testsLines = typedTests av args ++
      (if args.any (primaryArg av) then [] else [(kOnly, testsDefault av c.paramDict)]) := by
  obtain ⟨st, hl, hf⟩ := paramsFromCmd_ok h
  obtain ⟨tl, ls, hft, _, _, hc⟩ := finish_ok hf
  obtain ⟨t1, t2⟩ := loop_tests args _ st hl
  have hpd : c.paramDict = st.pd := by rw [hc]
  have htl : c.testsLines = tl := by rw [hc]
  rw [htl, hpd]
  simp only [St.init, List.nil_append, Bool.true_and] at t1 t2
  unfold fullTestsStr at hft
  rw [t2, t1] at hft
  cases hany : args.any (primaryArg av) with
  | true => simp [hany] at hft; simp [hft]
  | false =>
    simp only [hany, Bool.not_false, if_true] at hft
    split at hft
    · cases hft; simp
    · cases hft

/-- a default that is not a primary restriction is rejected (only when it is needed) -/
example : paramsFromCmd av0 (args0 ["default_only=nonminimal"]) = .error .valueError := by decide
example : (paramsFromCmd av0 (args0 ["default_only=nonminimal", "only=minimal"])).toOption.map (·.testsLines)
    = some [("only".toList, "minimal".toList)] := by decide
example : (paramsFromCmd av0 (args0 ["only=tutorial1"])).toOption.map (·.testsLines)
    = some [("only".toList, "tutorial1".toList), ("only".toList, "normal".toList)] := by decide
example : (paramsFromCmd av0 (args0 ["only=tutorial1", "only=all..quicktest"])).toOption.map (·.testsLines)
    = some [("only".toList, "tutorial1".toList), ("only".toList, "all..quicktest".toList)] := by decide


/-! ## repeated `only=` arguments intersect and equal the `..` form -/

/-- two `only` lines select what one `only` line with the conjunction of the filters selects
(at any position: see `order_irrelevant`) -/
theorem only_only_eq_and (u : List Name) (A B : Filter) (ls : List Line) :
    select u ((true, A) :: (true, B) :: ls) = select u ((true, andF A B) :: ls) := by
  simp only [select]
  congr 1
  funext n
  simp only [keep_cons, keepLine, sat_andF]
  cases sat A n <;> cases sat B n <;> simp

/-- textual form (README: `only=aaa only=bbb` is `only=aaa..bbb`): for comma free operands `a`, `b` of the
strict grammar the value `a..b` parses to the conjunction, so both command lines select the same tests -/
theorem only_only_eq_dotdot (u : List Name) (a b : Str) (wa wb : Word)
    (ha : ∀ c ∈ a, (c == ',') = false) (hb : ∀ c ∈ b, (c == ',') = false)
    (hpa : parseWord a = some wa) (hpb : parseWord b = some wb) (hlast : a.getLast? ≠ some '.') :
    parseLines [(kOnly, a), (kOnly, b)] = .ok [(true, [wa]), (true, [wb])] ∧
    parseLines [(kOnly, a ++ '.' :: '.' :: b)] = .ok [(true, [wa ++ wb])] ∧
    select u [(true, [wa]), (true, [wb])] = select u [(true, [wa ++ wb])] := by
  have fa : parseFilter a = some [wa] := by
    simp [parseFilter, splitComma, splitBy_none _ a ha, hpa]
  have fb : parseFilter b = some [wb] := by
    simp [parseFilter, splitComma, splitBy_none _ b hb, hpb]
  have hab : ∀ c ∈ a ++ '.' :: '.' :: b, (c == ',') = false := by
    intro c hc
    simp only [List.mem_append, List.mem_cons] at hc
    rcases hc with h | h | h | h
    · exact ha c h
    · subst h; decide
    · subst h; decide
    · exact hb c h
  have fab : parseFilter (a ++ '.' :: '.' :: b) = some [wa ++ wb] := by
    have hw : parseWord (a ++ '.' :: '.' :: b) = some (wa ++ wb) := by
      unfold parseWord at hpa hpb ⊢
      rw [splitDD_append a b hlast, List.mapM_append, hpa, hpb]
      rfl
    simp [parseFilter, splitComma, splitBy_none _ _ hab, hw]
  refine ⟨?_, ?_, ?_⟩
  · simp [parseLines, parseLine, fa, fb]
  · simp [parseLines, parseLine, fab]
  · have := only_only_eq_and u [wa] [wb] []
    simpa [andF] using this

example : parseWord "minimal".toList = some [["minimal".toList]] := by decide
example : parseWord "quicktest.tutorial1".toList = some [["quicktest".toList, "tutorial1".toList]] := by decide
example : select av0.tests [(true, [[["minimal".toList]]]), (true, [[["quicktest".toList, "tutorial1".toList]]])]
    = [["minimal".toList, "quicktest".toList, "tutorial1".toList]] := by decide
example : (parseFilter "minimal..quicktest.tutorial1".toList)
    = some [[["minimal".toList], ["quicktest".toList, "tutorial1".toList]]] := by decide
/-- with a comma the textual equivalence does not hold (`,` binds weaker than `..`): `only=a,b only=c`
is `(a ∨ b) ∧ c` while `only=a,b..c` is `a ∨ (b ∧ c)` — the general law is `only_only_eq_and` -/
example : select av0.tests [(true, [[["all".toList]], [["normal".toList]]]), (true, [[["files".toList]]])]
    ≠ select av0.tests [(true, [[["all".toList]], [["normal".toList], ["files".toList]]])] := by decide
/-- `..` is unordered, `.` is ordered and adjacent -/
example : select av0.tests [(true, [[["tutorial1".toList], ["normal".toList]]])]
    = select av0.tests [(true, [[["normal".toList], ["tutorial1".toList]]])] := by decide
example : select av0.tests [(true, [[["normal".toList, "tutorial1".toList]]])] = [] := by decide

/-! ## `no=` excludes -/

/-- a `no` line removes exactly the variants matching its filter, wherever it stands -/
theorem no_excludes (u : List Name) (l1 l2 : List Line) (f : Filter) :
    select u (l1 ++ (false, f) :: l2) = (select u (l1 ++ l2)).filter (fun n => !sat f n) := by
  have hp : (l1 ++ (false, f) :: l2).Perm ((l1 ++ l2) ++ [(false, f)]) := by
    simpa using (List.perm_middle (a := (false, f)) (l₁ := l1) (l₂ := l2)).trans
      (List.perm_append_singleton (false, f) (l1 ++ l2)).symm
  have : select u (l1 ++ (false, f) :: l2) = select u ((l1 ++ l2) ++ [(false, f)]) := by
    simp only [select]; congr 1; funext n; exact keep_perm hp n
  rw [this, select_append]
  congr 1
  funext n
  simp [keep, keepLine]

/-- `no=x` for a single variant name removes the tests whose name contains `x` -/
theorem no_excludes_variant (u : List Name) (l1 l2 : List Line) (x : Str) :
    select u (l1 ++ (false, [[[x]]]) :: l2) = (select u (l1 ++ l2)).filter (fun n => !n.contains x) := by
  rw [no_excludes]
  congr 1
  funext n
  simp [sat, satWord, isInfix_single]

example : select av0.tests [(true, [[["normal".toList]]]), (false, [[["tutorial1".toList]]])]
    = [["normal".toList, "tutorial2".toList, "files".toList]] := by decide
/-- excluding everything is rejected as an empty Cartesian product -/
example : paramsFromCmd av0 (args0 ["only=minimal", "no=tutorial1"]) = .error .emptyProduct := by decide

/-! ## per vm restrictions and `vms=` narrow the objects -/

/-- The restriction lines of every available vm are exactly the typed non-empty `only_<vm>=`/`no_<vm>=`
values in their order, and the configured (or command line) default **iff** nothing was typed for that
vm (`only_<vm>=` with an empty value lifts the default: the vm is unrestricted). Arguments for other vms,
`vms=`, tests and nets do not occur in it. -/
theorem vm_restr_lines (av : Avail) (args : List Str) (c : Config)
    (h : paramsFromCmd av args = .ok c) :
    c.availableVms = av.vms.map (fun vm =>
      (vm, typedVm av vm args ++ (if vmTyped av vm args then [] else vmDefaultLines av c.paramDict vm))) := by
  obtain ⟨st, hl, hf⟩ := paramsFromCmd_ok h
  obtain ⟨tl, ls, _, _, _, hc⟩ := finish_ok hf
  have h1 : c.availableVms = fullVmStrs av st := by rw [hc]
  have h2 : c.paramDict = st.pd := by rw [hc]
  rw [h1, h2]
  unfold fullVmStrs
  congr 1
  funext vm
  obtain ⟨v1, v2⟩ := loop_vmLines vm args _ st hl
  have e1 : vmLinesOf (St.init av) vm = [] := by simp [vmLinesOf, St.init]
  have e2 : (St.init av).vmNoDef.contains vm = false := by simp [St.init]
  rw [e1, List.nil_append] at v1
  rw [e2, Bool.false_or] at v2
  have : fullVmStr av st vm = vmLinesOf st vm ++
      (if st.vmNoDef.contains vm then [] else vmDefaultLines av st.pd vm) := by
    unfold fullVmStr vmLinesOf vmDefaultLines
    rfl
  rw [this, v1, v2]

/-- more restriction lines never select more: the selection under `ls ++ extra` is a sub-list of the
selection under `ls` (for tests, nets and vm variants alike) -/
theorem vm_restr_narrows (u : List Name) (ls extra : List Line) :
    (select u (ls ++ extra)).Sublist (select u ls) := by
  rw [select_append]
  exact List.filter_sublist

/-- on the vm objects: if both restriction strings parse and select something, the objects of the longer
one are among the objects of the shorter one -/
theorem vm_objects_narrow (av : Avail) (vm : Str) (lines extra : List (Str × Str)) (r r' : List Name)
    (h : selectedVmObjs av vm lines = .ok r) (h' : selectedVmObjs av vm (lines ++ extra) = .ok r') :
    r'.Sublist r := by
  unfold selectedVmObjs at h h'
  rw [parseLines_append] at h'
  cases hp : parseLines lines with
  | error e => simp [hp] at h
  | ok ls =>
    simp only [hp] at h h'
    cases hq : parseLines extra with
    | error e => simp [hq] at h'
    | ok ex =>
      simp only [hq] at h'
      by_cases he : (select (vmUniverse av vm) ls).isEmpty = true
      · simp [he] at h
      · by_cases he' : (select (vmUniverse av vm) (ls ++ ex)).isEmpty = true
        · simp [he'] at h'
        · rw [if_neg he] at h
          rw [if_neg he'] at h'
          cases h; cases h'
          exact vm_restr_narrows _ ls ex

example : selectedVmObjs av0 "vm1".toList [] =
    .ok [["vm1".toList, "Linux".toList, "CentOS".toList], ["vm1".toList, "Linux".toList, "Fedora".toList]] := by decide
example : selectedVmObjs av0 "vm1".toList [("only".toList, "Fedora".toList)] =
    .ok [["vm1".toList, "Linux".toList, "Fedora".toList]] := by decide
example : (paramsFromCmd av0 (args0 ["only_vm1=Fedora", "aaa=b", "no_vm1=x"])).toOption.map (·.availableVms)
    = some [("vm1".toList, [("only".toList, "Fedora".toList), ("no".toList, "x".toList)]), ("vm2".toList, [])] := by
  decide
example : (paramsFromCmd av0 (args0 ["only_vm2=Win10"])).toOption.map (·.availableVms)
    = some [("vm1".toList, [("only".toList, "CentOS".toList)]), ("vm2".toList, [("only".toList, "Win10".toList)])] := by
  decide
example : (paramsFromCmd av0 (args0 ["only_vm1="])).toOption.map (·.availableVms)
    = some [("vm1".toList, []), ("vm2".toList, [])] := by decide

/-- `vms=` narrows the objects: the vm strings handed on are those of the selected vms, unchanged -/
theorem vms_narrows (av : Avail) (args : List Str) (c : Config) (h : paramsFromCmd av args = .ok c) :
    c.vmStrs = c.availableVms.filter (fun p => c.vms.contains p.1) ∧
    c.vms = lastVms av av.vms args ∧ (∀ x ∈ c.vms, x ∈ av.vms) := by
  obtain ⟨h1, h2⟩ := vms_selection av args c h
  refine ⟨?_, h1, h2⟩
  obtain ⟨st, _, hf⟩ := paramsFromCmd_ok h
  obtain ⟨tl, ls, _, _, _, hc⟩ := finish_ok hf
  rw [hc]

example : (paramsFromCmd av0 (args0 ["vms=vm2", "only_vm2=Win7"])).toOption.map (·.vmStrs)
    = some [("vm2".toList, [("only".toList, "Win7".toList)])] := by decide

/-! ## any other `K=V` overrides that parameter in every parsed test -/

/-- If `K=V` is given (K not `only`/`no`/`only_*`/`no_*`/`vms`) and no later argument writes K, every
test of the selection has `K ↦ V` with commas replaced by spaces, whatever the configuration says (last
occurrence wins: "no later argument writes K"). -/
theorem override_everywhere (av : Avail) (pre post : List Str) (a k v : Str) (c : Config)
    (h : paramsFromCmd av (pre ++ a :: post) = .ok c)
    (hkv : splitArg a = some (k, v)) (ht : isTestKey k = false) (ho : isObjKey k = false) (hv : k ≠ kVms)
    (hpost : ∀ b ∈ post, writes av k b = false) :
    dictGet c.paramDict k = some (commaToSpace v) ∧
    ∀ (names : List Name), selectedTests av c = .ok names → ∀ n ∈ names, ∀ base : List (Str × Str),
      testParam c base k = some (commaToSpace v) := by
  obtain ⟨st, hl, hf⟩ := paramsFromCmd_ok h
  obtain ⟨tl, ls, _, _, _, hc⟩ := finish_ok hf
  have hpd : c.paramDict = st.pd := by rw [hc]
  have key : dictGet st.pd k = some (commaToSpace v) := by
    rw [loop_pd k _ _ st hl, List.foldl_append, List.foldl_cons, foldl_pdUpd_not_writes post _ hpost]
    by_cases hn : k = kNets
    · subst hn
      rw [classify_nets_iff.mpr hkv]
      simp [pdUpd]
    · rw [classify_other_iff.mpr ⟨hkv, ht, ho, hv, hn⟩]
      simp [pdUpd]
  rw [hpd]
  refine ⟨key, ?_⟩
  intro names _ n _ base
  simp [testParam, hpd, key]

example : (paramsFromCmd av0 (args0 ["aaa=b,c", "only=minimal", "aaa=d,e"])).toOption.map (·.paramDict)
    = some [("aaa".toList, "d e".toList)] := by decide
example : (paramsFromCmd av0 (args0 ["aaa=b,c"])).toOption.map
    (fun c => testParam c [("aaa".toList, "configured".toList)] "aaa".toList) = some (some "b c".toList) := by decide

/-! ## the order of independent arguments is irrelevant -/

/-- the selection does not depend on the order of the restriction lines -/
theorem order_irrelevant (u : List Name) (ls ls' : List Line) (h : ls.Perm ls') :
    select u ls = select u ls' := by
  simp only [select]
  congr 1
  funext n
  exact keep_perm h n


/-- On argument lists: if two orders of the same arguments are both accepted and produce the same
parameter dictionary (as a map), then they produce permuted restriction lines for the tests and for
every vm, and select exactly the same tests.
*Partial*: acceptance of one order is not derived from acceptance of the other, and equality of the
dictionaries is a hypothesis — the dictionary is last-wins for a repeated key (and for `nets=` against an
empty `only_nets=`); for lists without such pairs the two hypotheses are checked
implementation against implementation by the harness (`equiv.order`). -/
theorem order_irrelevant_args_partial (av : Avail) (args args' : List Str) (c c' : Config)
    (hperm : args.Perm args')
    (h : paramsFromCmd av args = .ok c) (h' : paramsFromCmd av args' = .ok c')
    (hpd : ∀ k, dictGet c.paramDict k = dictGet c'.paramDict k) :
    c.testsLines.Perm c'.testsLines ∧
    (∀ names names', selectedTests av c = .ok names → selectedTests av c' = .ok names' → names = names') ∧
    (c.availableVms.map (·.1) = c'.availableVms.map (·.1)) ∧
    (∀ vm l l', (vm, l) ∈ c.availableVms → (vm, l') ∈ c'.availableVms → av.vms.Nodup → l.Perm l') := by
  have t1 := default_iff_no_primary av args c h
  have t2 := default_iff_no_primary av args' c' h'
  have hany : args.any (primaryArg av) = args'.any (primaryArg av) := hperm.any_eq
  have hlines : c.testsLines.Perm c'.testsLines := by
    rw [t1, t2, hany, testsDefault_congr hpd]
    exact (typedTests_perm hperm).append_right _
  have v1 := vm_restr_lines av args c h
  have v2 := vm_restr_lines av args' c' h'
  refine ⟨hlines, ?_, ?_, ?_⟩
  · intro names names' hn hn'
    unfold selectedTests at hn hn'
    cases hp : parseLines c.testsLines with
    | error e => simp [hp] at hn
    | ok ls =>
      obtain ⟨ls', e', p'⟩ := parseLines_perm hlines hp
      simp only [hp] at hn
      simp only [e'] at hn'
      cases hn; cases hn'
      exact order_irrelevant _ _ _ p'
  · rw [v1, v2]; simp
  · intro vm l l' hm hm' hnd
    rw [v1] at hm
    rw [v2] at hm'
    simp only [List.mem_map, Prod.mk.injEq] at hm hm'
    obtain ⟨x, _, rfl, rfl⟩ := hm
    obtain ⟨y, _, rfl, rfl⟩ := hm'
    rw [vmTyped_perm hperm, vmDefaultLines_congr hpd]
    exact (typedVm_perm hperm).append_right _

example : (paramsFromCmd av0 (args0 ["only=tutorial1", "aaa=b", "only_vm1=Fedora", "only=minimal"])).toOption.map
      (fun c => (selectedTests av0 c).toOption)
    = (paramsFromCmd av0 (args0 ["only=minimal", "only_vm1=Fedora", "only=tutorial1", "aaa=b"])).toOption.map
      (fun c => (selectedTests av0 c).toOption) := by decide

/-! ## The model's one-step function is the Python source of the tokenizing loop (translator tie)

`I2N/Extracted/GenCmd.lean` is regenerated on every `./check C11` from the CURRENT source of
`avocado_i2n/cmd_parser.py` by `harness/pygen_pxcmd.py` (which cuts the body of the `for cmd_param in config["params"]`
loop out of `params_from_cmd` and hands it to the translator `harness/pygen.py`): the branch structure — malformed
argument, `only`/`no`, `only_*`/`no_*` split into nets / vm / unknown object, `vms`, `nets`, any other `K=V` —, the
order of the tests, the two nets conflict checks of /repo 893de05 and where they stand relative to the evaluation of
the restriction, and the raised errors are translated; the regular expressions stay the hand recognisers `splitArg`,
`netsKey`, `vmKey`; every statement that updates the loop state is pinned verbatim to a named action of the state
monad `StateT St (Except Err)` (table in the generated file).  The statements in front of the loop are pinned as well
and stand for `St.init`. -/

section MatchesSource
open I2N.Extracted.GenCmd

/-- the primary-restriction scan (`for variant in re.split(…, value): if variant in available_restrictions:
use_tests_default = False`; translated since the translator has loops with effects) as ONE update of `useDef` -/
def scanPrimary (av : Avail) (value : Str) : M Unit :=
  modSt (fun st => { st with useDef := st.useDef && !(splitVariants value).any (av.restrictions.contains ·) })
/-- `for vm_name in with_selected_vms: if vm_name not in available_vms: raise ValueError(…)` as one test -/
def checkSelVms (av : Avail) (l : List Str) : M Unit := fun st =>
  if l.all (av.vms.contains ·) then .ok ((), st) else .error Err.valueError
/-- the three statements in front of the `break` of the first-matching-vm search as one update -/
def addVmLine (vm key value : Str) : M Unit :=
  modSt (fun st => { st with vmNoDef := vm :: st.vmNoDef,
                             vmLines := if value.isEmpty then st.vmLines
                                        else st.vmLines ++ [(vm, (removeAll ('_' :: vm) key, value))] })

theorem scan_loop_run (av : Avail) (l : List Str) (st : St) :
    (l.forM (fun variant => (do
        if av.restrictions.contains variant then dropTestsDefault else pure () : M Unit))) st =
      .ok ((), { st with useDef := st.useDef && !l.any (av.restrictions.contains ·) }) := by
  induction l generalizing st with
  | nil => simp [List.forM, pure, StateT.pure, Except.pure]
  | cons v r ih =>
    simp only [List.forM, bind, StateT.bind]
    by_cases h : av.restrictions.contains v = true
    · simp only [h, if_true, dropTestsDefault, modSt, Except.bind, List.any_cons, Bool.true_or,
        Bool.not_true, Bool.and_false]
      have := ih { st with useDef := false }
      simp only [Bool.false_and] at this
      exact this
    · have h' : av.restrictions.contains v = false := by simpa using h
      simp only [h', Bool.false_eq_true, if_false, pure, StateT.pure, Except.pure, Except.bind,
        List.any_cons, Bool.false_or]
      exact ih st

/-- **the translated primary-restriction scan is the hand model's update** — any number of variants -/
theorem scan_loop_matches (av : Avail) (value : Str) :
    ((splitVariants value).forM (fun variant => (do
        if av.restrictions.contains variant then dropTestsDefault else pure () : M Unit))) = scanPrimary av value := by
  funext st
  rw [scan_loop_run]; rfl

theorem vms_loop_run (av : Avail) (l : List Str) (st : St) :
    (l.forM (fun vm_name => (do
        if !av.vms.contains vm_name then throw Err.valueError : M Unit))) st =
      if l.all (av.vms.contains ·) then .ok ((), st) else .error Err.valueError := by
  induction l with
  | nil => simp [List.forM, pure, StateT.pure, Except.pure]
  | cons v r ih =>
    simp only [List.forM, bind, StateT.bind]
    by_cases h : av.vms.contains v = true
    · simp only [h, Bool.not_true, Bool.false_eq_true, if_false, pure, StateT.pure, Except.pure,
        Except.bind, List.all_cons, Bool.true_and]
      exact ih
    · have h' : av.vms.contains v = false := by simpa using h
      simp only [h', Bool.not_false, if_true, throw, throwThe, MonadExceptOf.throw, StateT.lift, Except.bind,
        List.all_cons, Bool.false_and, Bool.false_eq_true, if_false, bind]
      rfl

/-- **the translated `vms=` validation loop is the hand model's `all` test** — any number of selected vms -/
theorem vms_loop_matches (av : Avail) (l : List Str) :
    (l.forM (fun vm_name => (do if !av.vms.contains vm_name then throw Err.valueError : M Unit))) = checkSelVms av l := by
  funext st
  rw [vms_loop_run]; rfl

/-- the translated body of the first-matching-vm search is the hand model's update -/
theorem vm_body_matches (vm key value : Str) :
    (do dropVmDefault vm
        let vm_str := vmStrOf vm key value
        addVmStr vm vm_str : M Unit) = addVmLine vm key value := by
  funext st
  simp only [bind, StateT.bind, dropVmDefault, addVmStr, vmStrOf, addVmLine, modSt, Except.bind]
  by_cases h : value.isEmpty = true <;> simp [h]

set_option linter.unusedSimpArgs false in
/-- **The hand written `step` IS the body of the tokenizing loop of `params_from_cmd`**: for every configuration, every
loop state and every argument the regenerated definition ends in the same state or raises the same error.  No
hypotheses. -/
theorem step_matches_source (av : Avail) (st : St) (arg : Str) :
    (genStep av arg).run st = (step av st arg).map (fun s => ((), s)) := by
  have tac : True := trivial
  unfold genStep step
  simp only [scan_loop_matches, vms_loop_matches]
  cases h : splitArg arg with
  | none =>
    simp [StateT.run, bind, StateT.bind, Except.bind, throw, throwThe, MonadExceptOf.throw, StateT.lift, Except.map]
  | some kv =>
    obtain ⟨key, value⟩ := kv
    by_cases h1 : (key == kOnly || key == kNo) = true
    · simp [StateT.run, bind, StateT.bind, Except.bind, Except.map, pure, StateT.pure, Except.pure, modSt,
        scanPrimary, addTestsLine, h1]
    by_cases h2 : (kOnlyU.isPrefixOf key || kNoU.isPrefixOf key) = true
    · by_cases h3 : netsKey key = true
      · by_cases h4 : value = []
        · simp [StateT.run, bind, StateT.bind, Except.bind, throw, throwThe, MonadExceptOf.throw, StateT.lift,
            Except.map, pure, StateT.pure, Except.pure, readSt, modSt, setNetsStr, setNetsByRestr, pyStartsWith,
            h1, h2, h3, h4]
          cases netsBy av none <;> rfl
        · by_cases h5 : st.explicitNets = true
          · simp [StateT.run, bind, StateT.bind, Except.bind, throw, throwThe, MonadExceptOf.throw, StateT.lift,
              Except.map, pure, StateT.pure, Except.pure, readSt, modSt, setNetsStr, setNetsByRestr, pyStartsWith,
              h1, h2, h3, h4, h5]
          · simp [StateT.run, bind, StateT.bind, Except.bind, throw, throwThe, MonadExceptOf.throw, StateT.lift,
              Except.map, pure, StateT.pure, Except.pure, readSt, modSt, setNetsStr, setNetsByRestr, pyStartsWith,
              h1, h2, h3, h4, h5]
            cases netsBy av (some (removeAll kUNets key, value)) <;> rfl
      · cases h6 : av.vms.find? (vmKey key) <;>
          simp [StateT.run, bind, StateT.bind, Except.bind, throw, throwThe, MonadExceptOf.throw, StateT.lift,
            Except.map, pure, StateT.pure, Except.pure, modSt, dropVmDefault, addVmStr, vmStrOf, pyStartsWith,
            h1, h2, h3, h6]
        by_cases hv : value = [] <;> simp [hv]
    by_cases h7 : (key == kVms) = true
    · by_cases h10 : (splitComma value).all (av.vms.contains ·) = true
      · simp [StateT.run, bind, StateT.bind, Except.bind, Except.map, pure, StateT.pure, Except.pure, modSt, readSt,
          setSelVms, checkSelVms, pyStartsWith, h1, h2, h7, h10]
        simp at h10; rw [if_pos h10, if_pos h10]
      · simp [StateT.run, bind, StateT.bind, Except.bind, Except.map, pure, StateT.pure, Except.pure, modSt, readSt,
          setSelVms, checkSelVms, pyStartsWith, h1, h2, h7, h10]
        simp at h10; rw [if_neg (by simpa using h10), if_neg (by simpa using h10)]
    by_cases h8 : (key == kNets) = true
    · cases h9 : st.netsStr <;>
        simp [StateT.run, bind, StateT.bind, Except.bind, throw, throwThe, MonadExceptOf.throw, StateT.lift,
          Except.map, pure, StateT.pure, Except.pure, readSt, modSt, setParam, setExplicitNets, pyStartsWith,
          h1, h2, h7, h8, h9]
    · simp [StateT.run, bind, StateT.bind, Except.bind, Except.map, pure, StateT.pure, Except.pure, modSt,
        setParam, pyStartsWith, h1, h2, h7, h8]

/-- the whole loop: running the regenerated body over the argument list (Python's `for`) is the model's `loop` — for
every configuration, every start state and every argument list of any length -/
theorem loop_matches_source (av : Avail) (st : St) (args : List Str) :
    (args.forM (genStep av)).run st = (loop av st args).map (fun s => ((), s)) := by
  induction args generalizing st with
  | nil => rfl
  | cons a as ih =>
    have h := step_matches_source av st a
    show StateT.run (do genStep av a; as.forM (genStep av)) st = _
    simp only [loop]
    cases hs : step av st a with
    | error e =>
      rw [hs] at h
      simp only [StateT.run, Except.map] at h
      simp only [StateT.run, bind, StateT.bind, Except.bind, Except.map, h]
    | ok st' =>
      rw [hs] at h
      simp only [StateT.run, Except.map] at h
      simp only [StateT.run, bind, StateT.bind, Except.bind, h]
      exact ih st'

/-- `params_from_cmd` = the regenerated loop from the pinned initial state, then `finish` -/
theorem paramsFromCmd_matches_source (av : Avail) (args : List Str) :
    paramsFromCmd av args =
      match (args.forM (genStep av)).run (St.init av) with
      | .error e => .error e
      | .ok (_, st) => finish av st := by
  rw [loop_matches_source]
  unfold paramsFromCmd
  cases loop av (St.init av) args <;> rfl

/-- the generated definition computes (it is not stuck on anything): a malformed argument; an unknown object; an unknown
vm; the two nets conflicts in both orders; a primary restriction lifts the default; a plain override.
(`decide +kernel`: the instance is evaluated by the kernel — since the three inner loops are translated (`List.forM`,
`find?` inside `StateT`) the elaborator's own reduction of these terms takes minutes and tens of GB; no axiom is added.) -/
example : (genStep av0 "ccc".toList).run (St.init av0) = .error .valueError := by decide +kernel
example : (genStep av0 "only_vm10=x".toList).run (St.init av0) = .error .valueError := by decide +kernel
example : (genStep av0 "vms=vm1,vm3".toList).run (St.init av0) = .error .valueError := by decide +kernel
example : ((genStep av0 "nets=net1".toList).run (St.init av0) >>= fun r => (genStep av0 "only_nets=net2".toList).run r.2)
    = .error .valueError := by decide +kernel
example : ((genStep av0 "only_nets=net2".toList).run (St.init av0) >>= fun r => (genStep av0 "nets=net1".toList).run r.2)
    = .error .valueError := by decide +kernel
example : ((genStep av0 "only=normal..tutorial1".toList).run (St.init av0)).toOption.map (·.2.useDef) = some false := by
  decide +kernel
example : ((genStep av0 "a=b,c".toList).run (St.init av0)).toOption.map (·.2.pd) =
    some [("a".toList, "b c".toList)] := by decide +kernel

end MatchesSource


end I2N.Props.C11
