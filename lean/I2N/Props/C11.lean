import I2N.Lemmas.Cmd
/-! C11 — command line selections and overrides mean what the documentation says. -/
namespace I2N.Props.C11
open I2N.Cmd

/-- a tiny but complete configuration used by the non-vacuity examples -/
def av0 : Avail :=
  { vms := ["vm1".toList, "vm2".toList]
    restrictions := ["all".toList, "normal".toList, "minimal".toList]
    defaultOnly := some "normal".toList
    defaultVm := [("vm1".toList, "CentOS".toList)]
    tests := [["all".toList, "quicktest".toList, "tutorial1".toList],
              ["all".toList, "tutorial2".toList, "files".toList],
              ["normal".toList, "quicktest".toList, "tutorial1".toList],
              ["normal".toList, "tutorial2".toList, "files".toList],
              ["minimal".toList, "quicktest".toList, "tutorial1".toList]]
    nets := [(["nets".toList, "localhost".toList, "net1".toList], "net1".toList),
             (["nets".toList, "localhost".toList, "net2".toList], "net2".toList)]
    vmObjs := [("vm1".toList, [["vm1".toList, "Linux".toList, "CentOS".toList], ["vm1".toList, "Linux".toList, "Fedora".toList]])] }

def args0 (l : List String) : List Str := l.map String.toList

/-! ## malformed arguments are rejected -/

/-- Any argument list containing an argument that is not of the form `<\w+>=<value>` is rejected
(whatever else it contains and wherever the argument stands). -/
theorem malformed_rejected (av : Avail) (args : List Str) (a : Str)
    (hmem : a ∈ args) (hbad : splitArg a = none) : ∃ e, paramsFromCmd av args = .error e := by
  apply paramsFromCmd_error_of_loop
  apply loop_rejects (a := a) _ args _ hmem
  intro st
  exact ⟨.valueError, by simp [step, hbad]⟩

example : splitArg "ccc".toList = none := by decide
example : splitArg " a=x".toList = none := by decide
example : splitArg "=x".toList = none := by decide
example : splitArg "a==x".toList = some ("a".toList, "=x".toList) := by decide
example : ∃ e, paramsFromCmd av0 (args0 ["aaa=bbb", "ccc"]) = .error e :=
  malformed_rejected av0 _ "ccc".toList (by decide) (by decide)
/-- and the error is the documented `ValueError` when nothing before it fails -/
example : paramsFromCmd av0 (args0 ["aaa=bbb", "ccc"]) = .error .valueError := by decide


/-! ## unknown vms are rejected -/

/-- A `vms=` argument naming a vm that is not available is rejected, wherever it stands. -/
theorem unknown_vm_rejected (av : Avail) (args : List Str) (a v x : Str)
    (hmem : a ∈ args) (hkv : splitArg a = some (kVms, v))
    (hx : x ∈ splitComma v) (hun : x ∉ av.vms) : ∃ e, paramsFromCmd av args = .error e := by
  apply paramsFromCmd_error_of_loop
  apply loop_rejects (a := a) _ args _ hmem
  intro st
  have hc : classify av a = .vms v := classify_vms_iff.mpr hkv
  have h5 : (splitComma v).all (av.vms.contains ·) = false := by
    rw [List.all_eq_false]
    exact ⟨x, hx, by simpa using hun⟩
  exact ⟨.valueError, by rw [step_eq, hc]; simp only [stepC, h5]; rfl⟩

example : ∃ e, paramsFromCmd av0 (args0 ["only=normal", "vms=vm1,vmX"]) = .error e :=
  unknown_vm_rejected av0 _ "vms=vm1,vmX".toList "vm1,vmX".toList "vmX".toList
    (by decide) (by decide) (by decide) (by decide)
/-- the empty selection `vms=` names the vm `""` -/
example : paramsFromCmd av0 (args0 ["vms="]) = .error .valueError := by decide
/-- conversely every vm of an accepted configuration is available, and the selection is the last
`vms=` given (all available vms if none) -/
theorem vms_selection (av : Avail) (args : List Str) (c : Config)
    (h : paramsFromCmd av args = .ok c) :
    c.vms = lastVms av av.vms args ∧ ∀ x ∈ c.vms, x ∈ av.vms := by
  obtain ⟨st, hl, hf⟩ := paramsFromCmd_ok h
  obtain ⟨tl, ls, _, _, _, hc⟩ := finish_ok hf
  have hv : c.vms = st.selVms := by rw [hc]
  refine ⟨by rw [hv, loop_selVms args _ st hl]; rfl, ?_⟩
  rw [hv]
  have key : ∀ (args : List Str) (st st' : St), (∀ x ∈ st.selVms, x ∈ av.vms) →
      loop av st args = .ok st' → ∀ x ∈ st'.selVms, x ∈ av.vms := by
    intro args
    induction args with
    | nil => intro st st' hi hl; simp [loop] at hl; subst hl; exact hi
    | cons b bs ih =>
      intro st st' hi hl
      obtain ⟨st1, hs, hl'⟩ := loop_ok_cons.mp hl
      refine ih st1 st' ?_ hl'
      have hs' := stepC_ok_of_step hs
      rw [stepC_selVms st st1 _ hs']
      cases hc : classify av b with
      | vms v =>
        simp only [hc, stepC] at hs'
        split at hs'
        · rename_i hall
          intro x hx
          have := (List.all_eq_true.mp hall) x hx
          simpa using this
        · cases hs'
      | bad => exact hi
      | test _ _ => exact hi
      | netsR _ _ => exact hi
      | vmR _ _ _ => exact hi
      | badObj _ _ => exact hi
      | nets _ => exact hi
      | other _ _ => exact hi
  exact key args (St.init av) st (by simp [St.init]) hl

example : (paramsFromCmd av0 (args0 ["vms=vm1,vm2", "only=minimal", "vms=vm2"])).toOption.map (·.vms)
    = some ["vm2".toList] := by decide

/-! ## unknown object restrictions -/

/-- An `only_X=`/`no_X=` argument is rejected when `X` is not `nets…` and **no available vm name is a
prefix of `X`**.  The full statement (`X` is not exactly an available vm or `nets` ⇒ rejected) is false
for the code as it is: the key is matched with `re.match(f"(only|no)_{vm}", key)`, a prefix match —
see the witnesses below (candidate finding `object-restr-prefix-match`). -/
theorem unknown_object_restr_rejected_partial (av : Avail) (args : List Str) (a k v : Str)
    (hmem : a ∈ args) (hkv : splitArg a = some (k, v)) (hobj : isObjKey k = true)
    (hnn : netsKey k = false) (hnone : av.vms.all (fun vm => !vmKey k vm) = true) :
    ∃ e, paramsFromCmd av args = .error e := by
  apply paramsFromCmd_error_of_loop
  apply loop_rejects (a := a) _ args _ hmem
  intro st
  have hf : av.vms.find? (vmKey k) = none := by
    rw [List.find?_eq_none]
    intro x hx
    have := (List.all_eq_true.mp hnone) x hx
    simpa using this
  have hc : classify av a = .badObj k v :=
    classify_badObj_iff.mpr ⟨hkv, isObjKey_not_test k hobj, hobj, hnn, hf⟩
  exact ⟨.valueError, by rw [step_eq, hc]; rfl⟩

example : ∃ e, paramsFromCmd av0 (args0 ["only_something=restr"]) = .error e :=
  unknown_object_restr_rejected_partial av0 _ "only_something=restr".toList "only_something".toList
    "restr".toList (by decide) (by decide) (by decide) (by decide) (by decide)
example : paramsFromCmd av0 (args0 ["no_vm4=Fedora"]) = .error .valueError := by decide
/-- witness that the full statement fails: `vm10` is not an available vm, the argument is accepted and
vm1 gets the corrupted restriction line `only0 x` -/
example : (paramsFromCmd av0 (args0 ["only_vm10=x"])).toOption.map (·.availableVms)
    = some [("vm1".toList, [("only0".toList, "x".toList)]), ("vm2".toList, [])] := by decide
/-- and `only_vm1_vm1=Fedora` is silently read as `only_vm1=Fedora` -/
example : (paramsFromCmd av0 (args0 ["only_vm1_vm1=Fedora"])).toOption.map (·.availableVms)
    = (paramsFromCmd av0 (args0 ["only_vm1=Fedora"])).toOption.map (·.availableVms) := by decide

/-! ## conflicting net selections -/

/-- `nets=` *after* a non-empty `only_nets…=`/`no_nets…=` (with no other nets restriction in between) is
rejected.  The full statement — any list containing both is rejected — is false for the code as it
is: the conflict is only checked in the `nets=` branch (candidate finding F6, `nets-conflict-order`). -/
theorem nets_conflict_rejected_partial (av : Avail) (pre mid post : List Str) (r n kr vr vn : Str)
    (hr : splitArg r = some (kr, vr)) (hkr : netsKey kr = true) (hvr : vr ≠ [])
    (hmid : ∀ m ∈ mid, ∀ k v, splitArg m = some (k, v) → netsKey k = false)
    (hn : splitArg n = some (kNets, vn)) :
    ∃ e, paramsFromCmd av (pre ++ r :: (mid ++ n :: post)) = .error e := by
  apply paramsFromCmd_error_of_loop
  cases hl : loop av (St.init av) (pre ++ r :: (mid ++ n :: post)) with
  | error e => exact ⟨e, rfl⟩
  | ok st' =>
    exfalso
    obtain ⟨st1, _, h2⟩ := loop_ok_append.mp hl
    obtain ⟨st2, hs2, h3⟩ := loop_ok_cons.mp h2
    obtain ⟨st3, h4, h5⟩ := loop_ok_append.mp h3
    obtain ⟨st4, hs4, _⟩ := loop_ok_cons.mp h5
    have c2 : classify av r = .netsR kr vr := classify_netsR_iff.mpr ⟨hr, hkr⟩
    have n2 : st2.netsStr = netsOf kr vr := by
      have := stepC_netsStr st1 st2 _ (stepC_ok_of_step hs2)
      rw [this, c2]
    have n3 : st3.netsStr = st2.netsStr := by
      apply loop_netsStr_keep mid st2 st3 _ h4
      intro m hm k v hc
      obtain ⟨hs, hk⟩ := classify_netsR_iff.mp hc
      have := hmid m hm k v hs
      rw [this] at hk; cases hk
    have c4 : classify av n = .nets vn := classify_nets_iff.mpr hn
    have hs4' := stepC_ok_of_step hs4
    have hsome : st3.netsStr.isSome = true := by
      rw [n3, n2]
      have : vr.isEmpty = false := by simpa using hvr
      simp [netsOf, this]
    simp [c4, stepC, hsome] at hs4'

example : ∃ e, paramsFromCmd av0 (args0 ["only_nets=net2", "aaa=bbb", "nets=net1"]) = .error e :=
  nets_conflict_rejected_partial av0 [] [ "aaa=bbb".toList ] [] "only_nets=net2".toList "nets=net1".toList
    "only_nets".toList "net2".toList "net1".toList (by decide) (by decide) (by decide)
    (by intro m hm k v hs
        simp only [List.mem_singleton] at hm
        subst hm
        have : splitArg "aaa=bbb".toList = some ("aaa".toList, "bbb".toList) := by decide
        rw [this] at hs; cases hs; decide)
    (by decide)
/-- witness that the full statement fails (F6): the reverse order is accepted and the explicit suffix
`net1` is silently replaced by `net2` -/
example : (paramsFromCmd av0 (args0 ["nets=net1", "only_nets=net2"])).toOption.map (·.paramDict)
    = some [("nets".toList, "net2".toList)] := by decide
example : paramsFromCmd av0 (args0 ["only_nets=net2", "nets=net1"]) = .error .valueError := by decide
/-- an empty nets restriction is no restriction (so no conflict) -/
example : (paramsFromCmd av0 (args0 ["only_nets=", "nets=net1"])).toOption.map (·.paramDict)
    = some [("nets".toList, "net1".toList)] := by decide

/-! ## the default primary restriction -/

/-- The restriction lines of an accepted command line are exactly the typed `only=`/`no=` in their
order, followed by `only <default>` **iff** no typed value names a primary restriction; the default
is `default_only` of the command line, else of the configuration, else `all`. -/
theorem default_iff_no_primary (av : Avail) (args : List Str) (c : Config)
    (h : paramsFromCmd av args = .ok c) :
    c.testsLines = typedTests av args ++
      (if args.any (primaryArg av) then [] else [(kOnly, testsDefault av c.paramDict)]) := by
  obtain ⟨st, hl, hf⟩ := paramsFromCmd_ok h
  obtain ⟨tl, ls, hft, _, _, hc⟩ := finish_ok hf
  obtain ⟨t1, t2⟩ := loop_tests args _ st hl
  have hpd : c.paramDict = st.pd := by rw [hc]
  have htl : c.testsLines = tl := by rw [hc]
  rw [htl, hpd]
  simp only [St.init, List.nil_append, Bool.true_and] at t1 t2
  unfold fullTestsStr at hft
  rw [t2, t1] at hft
  cases hany : args.any (primaryArg av) with
  | true => simp [hany] at hft; simp [hft]
  | false =>
    simp only [hany, Bool.not_false, if_true] at hft
    split at hft
    · cases hft; simp
    · cases hft

/-- a default that is not a primary restriction is rejected (only when it is needed) -/
example : paramsFromCmd av0 (args0 ["default_only=nonminimal"]) = .error .valueError := by decide
example : (paramsFromCmd av0 (args0 ["default_only=nonminimal", "only=minimal"])).toOption.map (·.testsLines)
    = some [("only".toList, "minimal".toList)] := by decide
example : (paramsFromCmd av0 (args0 ["only=tutorial1"])).toOption.map (·.testsLines)
    = some [("only".toList, "tutorial1".toList), ("only".toList, "normal".toList)] := by decide
example : (paramsFromCmd av0 (args0 ["only=tutorial1", "only=all..quicktest"])).toOption.map (·.testsLines)
    = some [("only".toList, "tutorial1".toList), ("only".toList, "all..quicktest".toList)] := by decide

end I2N.Props.C11
