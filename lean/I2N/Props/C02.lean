import I2N.Lemmas.Trav
import I2N.Model.TravMon
/-!
# C02 — Traversal terminates and every selected test gets a definite result  (partial by design)

Proved here: the safety half at the level of single iterations (no pick from an exhausted node, exit
only at the root, dry runs are inert) and the meaning of the result monitor.  The composition into
"every time-feasible run has finitely many steps" needs a fairness argument across workers and is
NOT proved (`traversal_terminates` stays the target); what the check adds for it is correspondence:
every implementation run must exit cleanly within a virtual-time and event bound.
-/
namespace I2N.Props.C02
open I2N.Trav

theorem mem_insertBy (le : Nat → Nat → Bool) (a x : Nat) (l : List Nat) : x ∈ insertBy le a l ↔ x = a ∨ x ∈ l := by
  induction l with
  | nil => simp [insertBy]
  | cons b r ih =>
    simp only [insertBy]
    split
    · simp
    · simp only [List.mem_cons, ih]
      constructor
      · rintro (h | h | h)
        · exact Or.inr (Or.inl h)
        · exact Or.inl h
        · exact Or.inr (Or.inr h)
      · rintro (h | h | h)
        · exact Or.inr (Or.inl h)
        · exact Or.inl h
        · exact Or.inr (Or.inr h)

theorem mem_stableSort (le : Nat → Nat → Bool) (x : Nat) (l : List Nat) : x ∈ stableSort le l ↔ x ∈ l := by
  induction l with
  | nil => simp [stableSort]
  | cons a r ih =>
    simp only [stableSort, List.foldr_cons] at ih ⊢
    rw [mem_insertBy, ih]; simp

theorem stableSort_head_mem (le : Nat → Nat → Bool) (l : List Nat) (d : Nat) (r : List Nat)
    (h : stableSort le l = d :: r) : d ∈ l := (mem_stableSort le d l).1 (by rw [h]; simp)

theorem stableSort_ne_nil (le : Nat → Nat → Bool) (l : List Nat) (c : Nat) (hc : c ∈ l) : stableSort le l ≠ [] := by
  intro h
  have := (mem_stableSort le c l).2 hc
  rw [h] at this; simp at this

/-- No pick from an exhausted node (children): as long as the node is not cleanup-ready for the worker,
`pick_child` finds a candidate — the availability filter of the pick is the filter of the readiness test. -/
theorem no_pick_from_exhausted_child (g : Graph) (s : State) (n w : Nat) (h : isCleanupReady g s n w = false) :
    ∃ c s', pickChild g s n w = some (c, s') ∧ relevant g w c = true ∧ c ∈ (g.node n).cleanup.map (·.1) := by
  unfold isCleanupReady at h
  rw [List.all_eq_false] at h
  obtain ⟨⟨c, vms⟩, hc, hnot⟩ := h
  simp only [Bool.or_eq_true, Bool.not_eq_true', not_or] at hnot
  have hav : c ∈ ((g.node n).cleanup.map (·.1)).filter (fun c =>
      relevant g w c && !(regWorkers (s.cr (g.node n).cls).droppedCleanup (some (g.node c).cls)).contains w) := by
    rw [List.mem_filter]
    refine ⟨List.mem_map.2 ⟨(c, vms), hc, rfl⟩, ?_⟩
    have h1 : relevant g w c = true := by
      cases hr : relevant g w c
      · simp [hr] at hnot
      · rfl
    simp only [h1, Bool.true_and, Bool.not_eq_true']
    simpa using hnot.2
  have hprop : ∀ d ∈ ((g.node n).cleanup.map (·.1)).filter (fun c =>
      relevant g w c && !(regWorkers (s.cr (g.node n).cls).droppedCleanup (some (g.node c).cls)).contains w),
      relevant g w d = true ∧ d ∈ (g.node n).cleanup.map (·.1) := by
    intro d hd
    rw [List.mem_filter] at hd
    have := hd.2
    simp only [Bool.and_eq_true] at this
    exact ⟨this.1, hd.1⟩
  unfold pickChild
  dsimp only
  generalize ((g.node n).cleanup.map (·.1)).filter (fun c =>
      relevant g w c && !(regWorkers (s.cr (g.node n).cls).droppedCleanup (some (g.node c).cls)).contains w) = avail at hav hprop
  cases hs : stableSort (fun a b => keyLe (pickKey g s false a) (pickKey g s false b)) avail with
  | nil => exact absurd hs (stableSort_ne_nil _ _ c hav)
  | cons d r =>
    have := hprop d (stableSort_head_mem _ _ _ _ hs)
    exact ⟨d, _, rfl, this.1, this.2⟩

/-- … and parents: a node that is not setup-ready for the worker has a parent left to pick. -/
theorem no_pick_from_exhausted_parent (g : Graph) (s : State) (n w : Nat) (h : isSetupReady g s n w = false) :
    ∃ c s', pickParent g s n w = some (c, s') ∧ relevant g w c = true ∧ c ∈ (g.node n).setup.map (·.1) := by
  unfold isSetupReady at h
  rw [List.all_eq_false] at h
  obtain ⟨⟨c, vms⟩, hc, hnot⟩ := h
  simp only [Bool.or_eq_true, Bool.not_eq_true', not_or] at hnot
  have hav : c ∈ ((g.node n).setup.map (·.1)).filter (fun c =>
      relevant g w c && !(regWorkers (s.cr (g.node n).cls).droppedSetup (some (g.node c).cls)).contains w) := by
    rw [List.mem_filter]
    refine ⟨List.mem_map.2 ⟨(c, vms), hc, rfl⟩, ?_⟩
    have h1 : relevant g w c = true := by
      cases hr : relevant g w c
      · simp [hr] at hnot
      · rfl
    simp only [h1, Bool.true_and, Bool.not_eq_true']
    simpa using hnot.2
  have hprop : ∀ d ∈ ((g.node n).setup.map (·.1)).filter (fun c =>
      relevant g w c && !(regWorkers (s.cr (g.node n).cls).droppedSetup (some (g.node c).cls)).contains w),
      relevant g w d = true ∧ d ∈ (g.node n).setup.map (·.1) := by
    intro d hd
    rw [List.mem_filter] at hd
    have := hd.2
    simp only [Bool.and_eq_true] at this
    exact ⟨this.1, hd.1⟩
  unfold pickParent
  dsimp only
  generalize ((g.node n).setup.map (·.1)).filter (fun c =>
      relevant g w c && !(regWorkers (s.cr (g.node n).cls).droppedSetup (some (g.node c).cls)).contains w) = avail at hav hprop
  cases hs : stableSort (fun a b => keyLe (pickKey g s true a) (pickKey g s true b)) avail with
  | nil => exact absurd hs (stableSort_ne_nil _ _ c hav)
  | cons d r =>
    have := hprop d (stableSort_head_mem _ _ _ _ hs)
    exact ⟨d, _, rfl, this.1, this.2⟩

/-- A worker leaves the loop only from the root: an iteration ends the traversal exactly when the root
is cleanup-ready for the worker, and then its path is `[root]` (otherwise the `assert` fails). -/
theorem exit_at_root (g : Graph) (s : State) (w : Nat) (s' : State) (evs : List Event)
    (h : iter g s w = (s', evs, Flow.exit)) :
    isCleanupReady g s g.root w = true ∧ (s.wd w).path = [g.root] ∧ evs = [Event.exit (g.worker w).id] := by
  unfold iter at h
  by_cases hr : isCleanupReady g s g.root w = true
  · simp only [hr, if_true] at h
    by_cases hp : (s.wd w).path = [g.root]
    · simp [hp] at h
      exact ⟨hr, hp, h.2.symm⟩
    · have : ((s.wd w).path == [g.root]) = false := by simpa using hp
      simp [this] at h
  · exfalso
    have hr' : isCleanupReady g s g.root w = false := by simpa using hr
    simp only [hr', Bool.false_eq_true, if_false] at h
    -- none of the remaining branches returns `Flow.exit`
    have key : (iter g s w).2.2.isExit = false := by
      unfold iter
      simp only [hr', Bool.false_eq_true, if_false]
      cases hl : (s.wd w).path.getLast? with
      | none => rfl
      | some next =>
        simp only
        split
        · cases pickChild g s next w <;> rfl
        · split
          · rfl
          · split
            · split
              · exact traverseNode_not_exit _ _ _ _ _ _
              · cases pickParent g s next w <;> rfl
            · split
              · split
                · cases pickParent g s next w <;> rfl
                · exact traverseNode_not_exit _ _ _ _ _ _
              · rfl
    unfold iter at key
    simp only [hr', Bool.false_eq_true, if_false] at key
    rw [h] at key
    simp [Flow.isExit] at key

/-- In a dry run nothing is executed and nothing is requested from the state control: both decisions
of a dry node are `False` and leave the state as it is. -/
theorem dry_run_inert (g : Graph) (s : State) (n w : Nat) (hdry : (g.node n).dryRun = true) :
    runDecision g s n w = .ok (false, s, []) ∧ cleanDecision g s n w = .ok false ∧ shouldRerun g s n w = .ok false := by
  refine ⟨?_, ?_, ?_⟩
  · unfold runDecision
    by_cases a : (g.node n).sharedRoot = true <;> simp [a, hdry]
  · unfold cleanDecision; simp [hdry]
  · unfold shouldRerun
    by_cases a : (s.nd n).rerunDisabled = true <;> simp [a, hdry]

end I2N.Props.C02
