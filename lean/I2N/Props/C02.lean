import I2N.Lemmas.Trav
import I2N.Lemmas.TravProgress
import I2N.Lemmas.TravTerm
import I2N.Lemmas.TravGlobal
import I2N.Lemmas.TravGlobalN
import I2N.Lemmas.TravGlobalR
import I2N.Lemmas.TravFair
import I2N.Lemmas.TravFair2
import I2N.Lemmas.TravDefinite
import I2N.Model.TravMon
import I2N.Lemmas.GenReady
import I2N.Lemmas.GenLazy
/-!
# C02 — Traversal terminates and every selected test gets a definite result  (partial by design)

Proved here: the safety half at the level of single iterations (no pick from an exhausted node, exit
only at the root, dry runs are inert) and the meaning of the result monitor.  The composition into
"every time-feasible run has finitely many steps" needs a fairness argument across workers and is
NOT proved (`traversal_terminates` stays the target); what the check adds for it is correspondence:
every implementation run must exit cleanly within a virtual-time and event bound.
-/
namespace I2N.Props.C02
open I2N.Trav

theorem mem_insertBy (le : Nat → Nat → Bool) (a x : Nat) (l : List Nat) : x ∈ insertBy le a l ↔ x = a ∨ x ∈ l := by
  induction l with
  | nil => simp [insertBy]
  | cons b r ih =>
    simp only [insertBy]
    split
    · simp
    · simp only [List.mem_cons, ih]
      constructor
      · rintro (h | h | h)
        · exact Or.inr (Or.inl h)
        · exact Or.inl h
        · exact Or.inr (Or.inr h)
      · rintro (h | h | h)
        · exact Or.inr (Or.inl h)
        · exact Or.inl h
        · exact Or.inr (Or.inr h)

theorem mem_stableSort (le : Nat → Nat → Bool) (x : Nat) (l : List Nat) : x ∈ stableSort le l ↔ x ∈ l := by
  induction l with
  | nil => simp [stableSort]
  | cons a r ih =>
    simp only [stableSort, List.foldr_cons] at ih ⊢
    rw [mem_insertBy, ih]; simp

theorem stableSort_head_mem (le : Nat → Nat → Bool) (l : List Nat) (d : Nat) (r : List Nat)
    (h : stableSort le l = d :: r) : d ∈ l := (mem_stableSort le d l).1 (by rw [h]; simp)

theorem stableSort_ne_nil (le : Nat → Nat → Bool) (l : List Nat) (c : Nat) (hc : c ∈ l) : stableSort le l ≠ [] := by
  intro h
  have := (mem_stableSort le c l).2 hc
  rw [h] at this; simp at this

/-- No pick from an exhausted node (children): as long as the node is not cleanup-ready for the worker,
`pick_child` finds a candidate — the availability filter of the pick is the filter of the readiness test. -/
theorem no_pick_from_exhausted_child (g : Graph) (s : State) (n w : Nat) (h : isCleanupReady g s n w = false) :
    ∃ c s', pickChild g s n w = some (c, s') ∧ relevant g w c = true ∧ c ∈ (g.node n).cleanup.map (·.1) := by
  unfold isCleanupReady at h
  rw [List.all_eq_false] at h
  obtain ⟨⟨c, vms⟩, hc, hnot⟩ := h
  simp only [Bool.or_eq_true, Bool.not_eq_true', not_or] at hnot
  have hav : c ∈ ((g.node n).cleanup.map (·.1)).filter (fun c =>
      relevant g w c && !(regWorkers (s.cr (g.node n).cls).droppedCleanup (some (g.node c).cls)).contains w) := by
    rw [List.mem_filter]
    refine ⟨List.mem_map.2 ⟨(c, vms), hc, rfl⟩, ?_⟩
    have h1 : relevant g w c = true := by
      cases hr : relevant g w c
      · simp [hr] at hnot
      · rfl
    simp only [h1, Bool.true_and, Bool.not_eq_true']
    simpa using hnot.2
  have hprop : ∀ d ∈ ((g.node n).cleanup.map (·.1)).filter (fun c =>
      relevant g w c && !(regWorkers (s.cr (g.node n).cls).droppedCleanup (some (g.node c).cls)).contains w),
      relevant g w d = true ∧ d ∈ (g.node n).cleanup.map (·.1) := by
    intro d hd
    rw [List.mem_filter] at hd
    have := hd.2
    simp only [Bool.and_eq_true] at this
    exact ⟨this.1, hd.1⟩
  unfold pickChild
  dsimp only
  generalize ((g.node n).cleanup.map (·.1)).filter (fun c =>
      relevant g w c && !(regWorkers (s.cr (g.node n).cls).droppedCleanup (some (g.node c).cls)).contains w) = avail at hav hprop
  cases hs : stableSort (fun a b => keyLe (pickKey g s false a) (pickKey g s false b)) avail with
  | nil => exact absurd hs (stableSort_ne_nil _ _ c hav)
  | cons d r =>
    have := hprop d (stableSort_head_mem _ _ _ _ hs)
    exact ⟨d, _, rfl, this.1, this.2⟩

/-- … and parents: a node that is not setup-ready for the worker has a parent left to pick. -/
theorem no_pick_from_exhausted_parent (g : Graph) (s : State) (n w : Nat) (h : isSetupReady g s n w = false) :
    ∃ c s', pickParent g s n w = some (c, s') ∧ relevant g w c = true ∧ c ∈ (g.node n).setup.map (·.1) := by
  unfold isSetupReady at h
  rw [List.all_eq_false] at h
  obtain ⟨⟨c, vms⟩, hc, hnot⟩ := h
  simp only [Bool.or_eq_true, Bool.not_eq_true', not_or] at hnot
  have hav : c ∈ ((g.node n).setup.map (·.1)).filter (fun c =>
      relevant g w c && !(regWorkers (s.cr (g.node n).cls).droppedSetup (some (g.node c).cls)).contains w) := by
    rw [List.mem_filter]
    refine ⟨List.mem_map.2 ⟨(c, vms), hc, rfl⟩, ?_⟩
    have h1 : relevant g w c = true := by
      cases hr : relevant g w c
      · simp [hr] at hnot
      · rfl
    simp only [h1, Bool.true_and, Bool.not_eq_true']
    simpa using hnot.2
  have hprop : ∀ d ∈ ((g.node n).setup.map (·.1)).filter (fun c =>
      relevant g w c && !(regWorkers (s.cr (g.node n).cls).droppedSetup (some (g.node c).cls)).contains w),
      relevant g w d = true ∧ d ∈ (g.node n).setup.map (·.1) := by
    intro d hd
    rw [List.mem_filter] at hd
    have := hd.2
    simp only [Bool.and_eq_true] at this
    exact ⟨this.1, hd.1⟩
  unfold pickParent
  dsimp only
  generalize ((g.node n).setup.map (·.1)).filter (fun c =>
      relevant g w c && !(regWorkers (s.cr (g.node n).cls).droppedSetup (some (g.node c).cls)).contains w) = avail at hav hprop
  cases hs : stableSort (fun a b => keyLe (pickKey g s true a) (pickKey g s true b)) avail with
  | nil => exact absurd hs (stableSort_ne_nil _ _ c hav)
  | cons d r =>
    have := hprop d (stableSort_head_mem _ _ _ _ hs)
    exact ⟨d, _, rfl, this.1, this.2⟩

/-- A worker leaves the loop only from the root: an iteration ends the traversal exactly when the root
is cleanup-ready for the worker, and then its path is `[root]` (otherwise the `assert` fails). -/
theorem exit_at_root (g : Graph) (s : State) (w : Nat) (s' : State) (evs : List Event)
    (h : iter g s w = (s', evs, Flow.exit)) :
    isCleanupReady g s g.root w = true ∧ (s.wd w).path = [g.root] ∧ evs = [Event.exit (g.worker w).id] := by
  unfold iter at h
  by_cases hr : isCleanupReady g s g.root w = true
  · simp only [hr, if_true] at h
    by_cases hp : (s.wd w).path = [g.root]
    · simp [hp] at h
      exact ⟨hr, hp, h.2.symm⟩
    · have : ((s.wd w).path == [g.root]) = false := by simpa using hp
      simp [this] at h
  · exfalso
    have hr' : isCleanupReady g s g.root w = false := by simpa using hr
    simp only [hr', Bool.false_eq_true, if_false] at h
    -- none of the remaining branches returns `Flow.exit`
    have key : (iter g s w).2.2.isExit = false := by
      unfold iter
      simp only [hr', Bool.false_eq_true, if_false]
      cases hl : (s.wd w).path.getLast? with
      | none => rfl
      | some next =>
        simp only
        split
        · cases pickChild g s next w <;> rfl
        · split
          · rfl
          · split
            · split
              · exact traverseNode_not_exit _ _ _ _ _ _
              · cases pickParent g s next w <;> rfl
            · split
              · split
                · cases pickParent g s next w <;> rfl
                · exact traverseNode_not_exit _ _ _ _ _ _
              · rfl
    unfold iter at key
    simp only [hr', Bool.false_eq_true, if_false] at key
    rw [h] at key
    simp [Flow.isExit] at key

/-- In a dry run nothing is executed and nothing is requested from the state control: both decisions
of a dry node are `False` and leave the state as it is. -/
theorem dry_run_inert (g : Graph) (s : State) (n w : Nat) (hdry : (g.node n).dryRun = true) :
    runDecision g s n w = .ok (false, s, []) ∧ cleanDecision g s n w = .ok false ∧ shouldRerun g s n w = .ok false := by
  refine ⟨?_, ?_, ?_⟩
  · unfold runDecision
    by_cases a : (g.node n).sharedRoot = true <;> simp [a, hdry]
  · unfold cleanDecision; simp [hdry]
  · unfold shouldRerun
    by_cases a : (s.nd n).rerunDisabled = true <;> simp [a, hdry]

/-! ## progress lemmas on reachable states

`ReachableF`, `EdgeSym`, `PInv`: Lemmas/TravProgress.lean.  `ReachableF` = initial state + `resume` steps of real
workers with positive fuel; `EdgeSym g` = every edge is recorded at both ends (decidable form `edgeSymB`). -/

/-- `path_connected`.  In every reachable state the path of a real worker is empty — and then the worker is done —
or starts at the root with every two consecutive entries joined by an edge of the graph as parsed so far
(`prev ∈ setup(next) ∨ prev ∈ cleanup(next)` in `vis g s`). -/
theorem path_connected (g : Graph) (hsym : EdgeSym g) (ncls : Nat) (store : List (String × List (String × String)))
    (s : State) (h : ReachableF g ncls store s) (w : Nat) (hw : w < s.workers.length) :
    ((s.wd w).path = [] ∧ (s.wd w).pc = .done) ∨
    ((s.wd w).path.head? = some g.root ∧
      ∀ i prev next, (s.wd w).path[i]? = some prev → (s.wd w).path[i + 1]? = some next → Adj (vis g s) prev next) := by
  rcases (h.pinv hsym).path w hw with h' | h'
  · exact Or.inl h'
  · exact Or.inr ⟨h'.head, h'.consecutive⟩

/-- `no_broken_path`.  The guard of the `AssertionError "Discontinuous path"` branch of `iter` is never met: in a
reachable state, for a path longer than one entry, the entry before the last is a child or a parent of the last one
in the visible graph — also after the lazy-expansion step `prepare` that `iterL` runs first (it only adds edges). -/
theorem no_broken_path (g : Graph) (hsym : EdgeSym g) (ncls : Nat) (store : List (String × List (String × String)))
    (s : State) (h : ReachableF g ncls store s) (w : Nat) (hw : w < s.workers.length) (next : Nat)
    (hlast : (s.wd w).path.getLast? = some next) (hlen : (s.wd w).path.length ≠ 1)
    (s1 : State) (hs1 : s1 = s ∨ s1 = prepare g s w) :
    (((vis g s1).node next).cleanup.map (·.1)).contains ((s.wd w).path.getD ((s.wd w).path.length - 2) 0) = true ∨
    (((vis g s1).node next).setup.map (·.1)).contains ((s.wd w).path.getD ((s.wd w).path.length - 2) 0) = true := by
  rcases (h.pinv hsym).path w hw with h' | h'
  · rw [h'.1] at hlast; simp at hlast
  · have hadj := (h'.last_two hlen next hlast).1
    have hadj1 : Adj (vis g s1) ((s.wd w).path.getD ((s.wd w).path.length - 2) 0) next := by
      rcases hs1 with e | e
      · rw [e]; exact hadj
      · rw [e]; exact adj_vis_mono g s _ (prepare_frame g s w).2.2.2 _ _ hadj
    rcases hadj1 with h1 | h1
    · right; simpa using h1
    · left; simpa using h1

/-- `no_raise_from_pick`.  The one pick of `iter` that is not guarded by the readiness test of the very node it picks
from — `pick_child` at a path of length one — is a pick from the root, which is not cleanup-ready there (the loop
would have ended); so it finds a child.  The other picks of the loop are guarded syntactically
(`if !isSetupReady … then pickParent`, `if isCleanupReady … else pickChild` on the same state), where
`no_pick_from_exhausted_parent` / `_child` apply directly: no pick of an iteration raises `RuntimeError`. -/
theorem no_raise_from_pick (g : Graph) (hsym : EdgeSym g) (ncls : Nat) (store : List (String × List (String × String)))
    (s : State) (h : ReachableF g ncls store s) (w : Nat) (hw : w < s.workers.length) (next : Nat)
    (hlast : (s.wd w).path.getLast? = some next) (hlen : (s.wd w).path.length = 1)
    (hnr : isCleanupReady (vis g s) s (vis g s).root w = false) :
    ∃ c s', pickChild (vis g s) s next w = some (c, s') ∧ relevant g w c = true := by
  rcases (h.pinv hsym).path w hw with h' | h'
  · rw [h'.1] at hlast; simp at hlast
  · have hp := h'.length_one hlen
    rw [hp] at hlast
    have hn : next = (vis g s).root := by
      rw [vis_root]; simpa using hlast.symm
    rw [hn]
    obtain ⟨c, s', h1, h2, _⟩ := no_pick_from_exhausted_child (vis g s) s (vis g s).root w hnr
    exact ⟨c, s', h1, by rw [← vis_relevant g s]; exact h2⟩

/-- `started_only_inside`.  In a reachable state a `started` mark of worker `v` on copy `m` means that `v` is
suspended inside the execution of `m` (pc `.test m …`: the test or its result wait) — or that `v` died with an
exception after entering `m` (pc `.failed`; the model keeps the mark then, like the code). -/
theorem started_only_inside (g : Graph) (hsym : EdgeSym g) (ncls : Nat) (store : List (String × List (String × String)))
    (s : State) (h : ReachableF g ncls store s) (m v : Nat) (hs : (s.nd m).started = some v) :
    (s.wd v).pc.node? = some m ∨ (s.wd v).pc = .failed :=
  (h.pinv hsym).markPc m v hs

/-- `bounce_needs_runner` (no deadlock between waiting workers).  In a reachable state between steps, if a worker `w`
that is neither executing nor dead finds node `n` occupied (so `iter` bounces it: `isOccupied` on the graph as parsed
so far, `gv = vis g s'` for any `s'`, in particular `g` itself), then some OTHER worker `v ≠ w` holds the mark of a
copy `m` of `n`'s class and is suspended inside the execution of `m` — or died inside it.  Hence the workers cannot
all be waiting for each other.
(The `failed` alternative is real in the model: a worker whose run decision raises keeps its mark.) -/
theorem bounce_needs_runner (g : Graph) (hsym : EdgeSym g) (ncls : Nat) (store : List (String × List (String × String)))
    (s : State) (h : ReachableF g ncls store s) (s' : State) (n w : Nat)
    (hocc : isOccupied (vis g s') s n w = true)
    (hpc : (s.wd w).pc.node? = none) (hnf : (s.wd w).pc ≠ .failed) :
    ∃ v m, v ≠ w ∧ m ∈ g.copies n ∧ (s.nd m).started = some v ∧
      ((s.wd v).pc.node? = some m ∨ (s.wd v).pc = .failed) := by
  obtain ⟨v, m, hm, hst⟩ := occupied_has_holder g (vis g s') (sameStatic_vis g s') s n w hocc
  have hv := (h.pinv hsym).markPc m v hst
  refine ⟨v, m, ?_, hm, hst, hv⟩
  intro hvw
  subst hvw
  rcases hv with h1 | h1
  · rw [hpc] at h1; cases h1
  · exact hnf h1

/-- the same combined with the exclusion invariant of C04 (`Inv`, `Lemmas/TravExcl.lean`): the reachable state also
satisfies the count bound, so the runners the bouncing worker waits for are at most `classLimit` many per scope -/
theorem bounce_state_excl (g : Graph) (hH : Homog g) (ncls : Nat) (store : List (String × List (String × String)))
    (s : State) (h : ReachableF g ncls store s) : Inv g s := by
  induction h with
  | init hidden => exact inv_initState g ncls store hidden
  | step s w out fuel _ _ _ ih => exact inv_resume g s w out fuel hH ih

/-- a two-node graph with one worker for the non-vacuity examples -/
def gTwo : Graph :=
  { workers := [{ id := "net1", swarm := "localhost" }],
    nodes := [{ cls := 0, owner := some 0, name := "root.net1", pfx := "0", sharedRoot := true, cleanup := [(1, ["vm1"])] },
              { cls := 1, owner := some 0, name := "leaf.net1", pfx := "1", setup := [(0, ["vm1"])] }],
    root := 0 }

example : EdgeSym gTwo := edgeSymB_sound (by decide)
/-- after its first step the worker is suspended inside the execution of the leaf, holding its mark, with the
connected path `[root, leaf]` -/
example : ((resume gTwo (initState gTwo 2 []) 0 ⟨none, 0⟩ 9).1.wd 0).pc.node? = some 1 ∧
    ((resume gTwo (initState gTwo 2 []) 0 ⟨none, 0⟩ 9).1.nd 1).started = some 0 ∧
    ((resume gTwo (initState gTwo 2 []) 0 ⟨none, 0⟩ 9).1.wd 0).path = [0, 1] := by decide
example := path_connected gTwo (edgeSymB_sound (by decide)) 2 [] _
  (.step _ 0 ⟨none, 0⟩ 9 (.init []) (by decide) (by decide)) 0 (by decide)
example := started_only_inside gTwo (edgeSymB_sound (by decide)) 2 [] _
  (.step _ 0 ⟨none, 0⟩ 9 (.init []) (by decide) (by decide)) 1 0 (by decide)

/-- Witness that the `failed` alternative of `started_only_inside` / `bounce_needs_runner` cannot be dropped: two
workers, one class with `max_tries = -1`.  Worker 0 runs its copy (PASS) and dies in the following run decision
(`ValueError`, mark already returned); worker 1 then enters its own copy, the run decision raises after the mark was
set — the worker is dead and still holds the mark (the code behaves the same: the exception leaves `traverse_node`
before `started_worker` is reset). -/
def gNeg : Graph :=
  { workers := [{ id := "net1", swarm := "localhost" }, { id := "net2", swarm := "localhost" }],
    nodes := [{ cls := 0, owner := none, name := "root", pfx := "0", sharedRoot := true,
                cleanup := [(1, ["vm1"]), (2, ["vm1"])] },
              { cls := 1, owner := some 0, name := "leaf.net1", pfx := "1", setup := [(0, ["vm1"])], maxTries := some (-1) },
              { cls := 1, owner := some 1, name := "leaf.net2", pfx := "2", setup := [(0, ["vm1"])], maxTries := some (-1) }],
    root := 0 }

def sNeg : State :=
  runSchedule gNeg 9 (initState gNeg 2 []) [(0, ⟨none, 0⟩), (0, ⟨some "PASS", 1⟩), (1, ⟨none, 0⟩)]

theorem dead_worker_keeps_mark : (sNeg.nd 2).started = some 1 ∧ (sNeg.wd 1).pc.isFailed = true := by decide

/-! ## Termination of the loop between two suspension points (`Lemmas/TravTerm.lean`)

`runLoop g w fuel s evs` runs worker `w` from one suspension point to the next; `fuel` bounds the number of consecutive
iterations without suspension and the model emits `raise … "fuel"` when it runs out.  The theorems below show that
this branch is dead for `fuel ≥ bound g`, an explicit function of the static graph
(`bound g = 2·(2·|nodes|+3)·|edge ends| + 2·|nodes| + 4`), i.e. a worker never spins silently between two suspensions,
whatever the state of the other workers. -/

open I2N.Trav.Term in
/-- **Termination of a block.**  Graph: edges recorded at both ends, acyclic (`Ranked`).  State (`Good`): a dynamic
record for every node, registers for every class, no unexplored flat node, the path of the worker has the shape the walk
gives it (down from the root, then up; in particular `[root]`).  Then with `fuel ≥ bound g` the loop ends by itself —
in a suspension (test started, back-off sleep), the exit through the shared root or an exception of the traversal —
and its result does not depend on the fuel: `runLoopO` is `runLoop` with the exhaustion of the fuel made explicit. -/
theorem loop_terminates (g : Graph) (d : Nat → Nat) (hr : Ranked g d) (hsym : EdgeSym g) (w : Nat) (s : State)
    (evs : List Event) (hg : Good g d w s) (fuel : Nat) (hf : bound g ≤ fuel) :
    ∃ r, runLoopO g w (bound g) s evs = some r ∧ runLoop g w fuel s evs = r :=
  runLoop_terminates g d hr hsym w s evs hg fuel hf

open I2N.Trav.Term in
/-- the measure behind it: every iteration that neither suspends nor leaves the loop strictly lowers `phi`, which is
below `bound g` in good states, and leads to a good state again -/
theorem iteration_lowers_measure (g : Graph) (d : Nat → Nat) (hr : Ranked g d) (hsym : EdgeSym g) (w : Nat) (s : State)
    (hg : Good g d w s) (hc : (iterL g s w).2.2 = .cont) :
    phi g (iterL g s w).1 w < phi g s w ∧ phi g s w < bound g ∧ Good g d w (iterL g s w).1 :=
  ⟨(iterL_cont g d hr hsym s w hg hc).1, phi_lt_bound g d hr s w hg.walk, (iterL_cont g d hr hsym s w hg hc).2⟩

open I2N.Trav.Term in
/-- **No silent spinning after a back-off or at the start**: a worker standing at the root (initially, and after every
back-off sleep, which resets the path) reaches its next suspension, the exit or an exception within `bound g`
iterations, whatever the marks, results, registers and paths of the other workers are. -/
theorem loop_terminates_from_root (g : Graph) (d : Nat → Nat) (hr : Ranked g d) (hsym : EdgeSym g) (w : Nat) (s : State)
    (evs : List Event) (hn : s.nodes.length = g.nodes.length) (hc : ClsOK g s) (he : Explored g s)
    (hp : (s.wd w).path = [g.root]) (fuel : Nat) (hf : bound g ≤ fuel) :
    ∃ r, runLoopO g w (bound g) s evs = some r ∧ runLoop g w fuel s evs = r :=
  runLoop_terminates g d hr hsym w s evs (good_at_root g d w s hn hc he hp) fuel hf

open I2N.Trav.Term in
/-- the scheduler step of a worker that is in the loop or was bouncing does not depend on the fuel beyond `bound g`
(the driver uses 100000) -/
theorem resume_loop_fuel_independent (g : Graph) (d : Nat → Nat) (hr : Ranked g d) (hsym : EdgeSym g) (w : Nat) (s : State)
    (out : Outcome) (hg : Good g d w s) (hpc : (s.wd w).pc.node? = none) (fuel : Nat) (hf : bound g ≤ fuel) :
    resume g s w out fuel = resume g s w out (bound g) := by
  obtain ⟨r, h1, h2⟩ := runLoop_terminates g d hr hsym w s [] hg fuel hf
  have h3 := runLoop_of_runLoopO g w (bound g) s [] r h1 (bound g) (Nat.le_refl _)
  unfold resume
  split
  · rw [h2, h3]
  · rw [h2, h3]
  · next heq => rw [heq] at hpc; cases hpc
  · rfl
  · rfl

open I2N.Trav.Term in
/-- pre-parsed graphs (the only flat node is the shared root), initial state: every worker's first block terminates -/
theorem first_block_terminates (g : Graph) (hr : rankedB g = true) (hsym : edgeSymB g = true) (hflat : noFlatB g = true)
    (ncls : Nat) (hcls : ∀ n, n < g.nodes.length → (g.node n).cls < ncls)
    (store : List (String × List (String × String))) (w : Nat) (hw : w < g.workers.length) (fuel : Nat)
    (hf : bound g ≤ fuel) :
    ∃ r, runLoopO g w (bound g) (initState g ncls store) [] = some r ∧ runLoop g w fuel (initState g ncls store) [] = r := by
  refine runLoop_terminates g (depth g) (rankedB_sound hr) (edgeSymB_sound hsym) w _ [] ?_ fuel hf
  refine good_at_root g _ w _ (by simp [initState]) (clsOK_init g ncls store [] hcls) (explored_of_noFlat hflat _) ?_
  unfold initState State.wd
  simp only [List.getD_eq_getElem?_getD, List.getElem?_map, List.getElem?_eq_getElem hw]
  rfl

open I2N.Trav.Term in
/-- **Every reachable state.**  In every state the scheduler can reach (`ReachableF`: steps of real workers with positive
fuel, any interleaving, any outcomes) in which no flat node is unexplored, every worker is in a good state: the loop it
runs next terminates within `bound g` iterations.  The shape of the paths (`Walk`) is an invariant of the traversal
(`reachable_tinv`); registers and node records are those of the initial state (`hcls`: `ncls` exceeds every class). -/
theorem reachable_loop_terminates (g : Graph) (d : Nat → Nat) (hr : Ranked g d) (hsym : EdgeSym g) (ncls : Nat)
    (store : List (String × List (String × String))) (hcls : ∀ n, n < g.nodes.length → (g.node n).cls < ncls)
    (s : State) (h : ReachableF g ncls store s) (he : Explored g s) (w : Nat) (evs : List Event) (fuel : Nat)
    (hf : bound g ≤ fuel) : ∃ r, runLoopO g w (bound g) s evs = some r ∧ runLoop g w fuel s evs = r :=
  runLoop_terminates g d hr hsym w s evs (reachable_good hr hsym hcls h he w) fuel hf

open I2N.Trav.Term in
/-- **A resumed worker reaches its next suspension, the exit or an exception within `bound g` iterations**, whatever
the state of the other workers and the outcome of the test it was waiting for (`out`; also "never reported"): the
scheduler step `resume` — including the continuation after a test execution — is the same for every `fuel ≥ bound g`,
so the driver's fuel of 100000 never decides anything on graphs with `bound g ≤ 100000`. -/
theorem resume_within_bound (g : Graph) (d : Nat → Nat) (hr : Ranked g d) (hsym : EdgeSym g) (ncls : Nat)
    (store : List (String × List (String × String))) (hcls : ∀ n, n < g.nodes.length → (g.node n).cls < ncls)
    (s : State) (h : ReachableF g ncls store s) (he : Explored g s) (w : Nat) (out : Outcome) (fuel : Nat)
    (hf : bound g ≤ fuel) : resume g s w out fuel = resume g s w out (bound g) :=
  resume_fuel g d hr hsym ncls store hcls s h he w out fuel hf

open I2N.Trav.Term in
/-- the same with decidable hypotheses, for pre-parsed graphs (the only flat node is the shared root) -/
theorem preparsed_resume_within_bound (g : Graph) (hr : rankedB g = true) (hsym : edgeSymB g = true)
    (hflat : noFlatB g = true) (ncls : Nat) (hcls : ∀ n, n < g.nodes.length → (g.node n).cls < ncls)
    (store : List (String × List (String × String))) (s : State) (h : ReachableF g ncls store s) (w : Nat)
    (out : Outcome) (fuel : Nat) (hf : bound g ≤ fuel) : resume g s w out fuel = resume g s w out (bound g) :=
  resume_fuel g (depth g) (rankedB_sound hr) (edgeSymB_sound hsym) ncls store hcls s h (explored_of_noFlat hflat s) w out fuel hf

open I2N.Trav.Term in
/-- **Full termination of dry runs.**  Pre-parsed acyclic graph, every node a dry-run node, the root without parents,
at most one node per class concerns the worker (`classInjB`; real graphs: one copy per class and worker).  Then the
first scheduler step of the worker — from the initial state, with any fuel `≥ bound g` — is its WHOLE traversal: one
block without suspension and without exception that ends with the exit event and leaves the worker `done`.
(Beyond `loop_terminates` this needs the DFS invariant "the root is cleanup-ready only when the path is `[root]`",
`DryInv`: the child of the root at position one is not dropped while the worker is below it.) -/
theorem dry_run_terminates (g : Graph) (hr : rankedB g = true) (hsym : edgeSymB g = true) (hflat : noFlatB g = true)
    (w : Nat) (hw : w < g.workers.length) (hinj : classInjB g w = true) (hroot : (g.node g.root).setup = [])
    (hdry : ∀ n, n < g.nodes.length → (g.node n).dryRun = true)
    (ncls : Nat) (hcls : ∀ n, n < g.nodes.length → (g.node n).cls < ncls)
    (store : List (String × List (String × String))) (fuel : Nat) (hf : bound g ≤ fuel) :
    ∃ s' evs', resume g (initState g ncls store) w ⟨none, 0⟩ fuel = (s', evs' ++ [Event.exit (g.worker w).id]) ∧
      (s'.wd w).pc = .done :=
  dry_run_one_block g (depth g) (rankedB_sound hr) (edgeSymB_sound hsym) w hw (classInjB_sound hinj) hroot hdry hflat
    ncls hcls store fuel hf

open I2N.Trav.Term in
/-- **Lazily expanded graphs** (no `Explored` hypothesis).  While flat nodes are unexplored the loop has one more kind
of iteration without suspension: the "postpone the cleanup" jump back to the root, which drops nothing.  Static
hypotheses `LazyOK g`: the children of a flat node are its composite tests (`setless_form in id`), every flat node is
a child of the shared root, no node shares the class of a flat node.  State hypotheses `LState g d w s`: tables of the
right size, path of the right shape starting at the root, root and flat nodes parsed, and no unexplored flat node has
been dropped from the root for this worker.  Then the loop ends by itself within
`lazyBound g P = ((2|nodes|·(K·P+1) + K·P)·2 + 2)·bound g` iterations, `K` the number of children of the root and
`P = pickLevel g s` a level above the pick counters of the state (1 initially).
Measure (`mu`): (2·#unexplored − [the last node of the path is unexplored], Σ_{flat children c of the root} (P − picks c),
[#unexplored > 0 ∧ path ≠ [root]], `phi`) lexicographically: the expansion step unrolls an unexplored node at hand; a
jump resets the path; a pick at the root takes a flat child that was picked no more often than any unexplored one
(`pickChild_min`: the sort key is flat-first, fewest-picks-first), which uses up room below `P`; everything else
lowers `phi`. -/
theorem lazy_loop_terminates (g : Graph) (d : Nat → Nat) (hr : Ranked g d) (hsym : EdgeSym g) (hz : LazyOK g) (w : Nat)
    (s : State) (evs : List Event) (h : LState g d w s) (fuel : Nat) (hf : lazyBound g (pickLevel g s) ≤ fuel) :
    ∃ r, runLoopO g w (lazyBound g (pickLevel g s)) s evs = some r ∧ runLoop g w fuel s evs = r :=
  runLoop_terminates_lazy g d hr hsym hz w s evs h fuel hf

open I2N.Trav.Term in
/-- every `.cont` iteration on a lazily expanded graph lowers `mu` and keeps the invariant (`P` fixed for the block) -/
theorem lazy_iteration_lowers_measure (g : Graph) (d : Nat → Nat) (hr : Ranked g d) (hsym : EdgeSym g) (hz : LazyOK g)
    (w P : Nat) (s : State) (h : LInv g d w P s) (hc : (iterL g s w).2.2 = .cont) :
    mu g (iterL g s w).1 w P < mu g s w P ∧ LInv g d w P (iterL g s w).1 :=
  iterL_lazy g d hr hsym hz w P s h hc

open I2N.Trav.Term in
/-- decidable hypotheses, initial state with the composite nodes hidden: the first block of every worker terminates
within `lazyBound g 1` iterations.  `hidden` may also hold hidden EDGES (`edgeCode`, above every node index: the edge from a
flat node to a composite node that exists already as a dependency of a test of another set appears only when that flat node
is expanded); `hedge` (added with that model repair): the edges from the shared root to the flat nodes are not among them —
necessary, see `hidden_root_edge_spins`. -/
theorem lazy_first_block_terminates (g : Graph) (hr : rankedB g = true) (hsym : edgeSymB g = true) (hz : lazyOKB g = true)
    (ncls : Nat) (hcls : ∀ n, n < g.nodes.length → (g.node n).cls < ncls)
    (store : List (String × List (String × String))) (hidden : List Nat)
    (hroot : hidden.contains g.root = false) (hflat : hidden.all (fun x => !(g.node x).flat) = true)
    (hedge : (List.range g.nodes.length).all (fun f => !(g.node f).flat || !hidden.contains (edgeCode g g.root f)) = true)
    (w : Nat) (hw : w < g.workers.length) (fuel : Nat) (hf : lazyBound g 1 ≤ fuel) :
    ∃ r, runLoopO g w (lazyBound g 1) (initState g ncls store hidden) [] = some r ∧
      runLoop g w fuel (initState g ncls store hidden) [] = r := by
  have hflat' : ∀ f, (g.node f).flat = true → hidden.contains f = false := by
    intro f hf
    cases hc : hidden.contains f
    · rfl
    · rw [List.all_eq_true] at hflat
      have := hflat f (List.contains_iff_mem.mp hc)
      rw [hf] at this; cases this
  have hedge' : ∀ f, (g.node f).flat = true → hidden.contains (edgeCode g g.root f) = false := by
    intro f hf
    by_cases hfN : f < g.nodes.length
    · rw [List.all_eq_true] at hedge
      have := hedge f (List.mem_range.mpr hfN)
      rw [hf] at this
      simpa using this
    · rw [node_flat_of_ge g f hfN] at hf; cases hf
  have h := runLoop_terminates_lazy g (depth g) (rankedB_sound hr) (edgeSymB_sound hsym) (lazyOKB_sound hz) w
    (initState g ncls store hidden) [] (lstate_init g _ ncls store hidden hcls hroot hflat' hedge' w hw)
  rw [pickLevel_init] at h
  exact h fuel hf

open I2N.Trav.Term in
/-- **Every reachable state of a lazily expanded graph.**  `ReachableL g ncls store hidden`: the states the scheduler
reaches from the initial state in which exactly `hidden` is not parsed yet (root and flat nodes are parsed, `hedge`: and
the flat nodes hang below the root — hypothesis added when `State.hidden` learnt to hide single edges).  In each
of them, for every worker that has not left the loop, the state hypotheses `LState` hold (`reachable_lstate`: the path
shape as before; "no unexplored flat node has been dropped from the root" because a worker pops a child of the root
only after the expansion step has unrolled it, and the node of a test execution is never flat), hence the loop it runs
next terminates within `lazyBound g (pickLevel g s)` iterations. -/
theorem reachable_lazy_loop_terminates (g : Graph) (d : Nat → Nat) (hr : Ranked g d) (hsym : EdgeSym g) (hz : LazyOK g)
    (ncls : Nat) (store : List (String × List (String × String))) (hidden : List Nat)
    (hcls : ∀ n, n < g.nodes.length → (g.node n).cls < ncls)
    (hroot : hidden.contains g.root = false) (hflat : ∀ f, (g.node f).flat = true → hidden.contains f = false)
    (hedge : ∀ f, (g.node f).flat = true → hidden.contains (edgeCode g g.root f) = false)
    (s : State) (h : ReachableL g ncls store hidden s) (w : Nat) (hw : w < g.workers.length)
    (hnd : (s.wd w).pc ≠ .done) (evs : List Event) (fuel : Nat) (hf : lazyBound g (pickLevel g s) ≤ fuel) :
    ∃ r, runLoopO g w (lazyBound g (pickLevel g s)) s evs = some r ∧ runLoop g w fuel s evs = r :=
  runLoop_terminates_lazy g d hr hsym hz w s evs (reachable_lstate hr hsym hz hcls hroot hflat hedge h w hw hnd) fuel hf

/-- what remains partial about the loop between two suspension points: the bound for lazily expanded graphs depends on
the state through the level `pickLevel g s` of the pick counters (a static bound needs "an unexplored flat node was
picked at most once per worker" as one more reachable invariant), and the fuel independence of the whole scheduler step
(`resume_within_bound`) was lifted to reachable states for explored states only.  `Explored` itself is monotone: -/
theorem loop_terminates_partial (g : Graph) (s s' : State) (h : I2N.Trav.Term.Explored g s)
    (hh : ∀ x, x ∈ s'.hidden → x ∈ s.hidden) (hi : ∀ x, x ∈ s.incompatible → x ∈ s'.incompatible) :
    I2N.Trav.Term.Explored g s' := h.mono hh hi

/-! ### non-vacuity and necessity of the hypotheses -/

/-- a diamond of dry-run nodes below the root, one worker -/
def gDia : Graph :=
  { workers := [{ id := "net1", swarm := "localhost" }],
    nodes := [{ cls := 0, owner := some 0, name := "root.net1", pfx := "0", sharedRoot := true, cleanup := [(1, ["vm1"])] },
              { cls := 1, owner := some 0, name := "a.net1", pfx := "1", dryRun := true, setup := [(0, ["vm1"])],
                cleanup := [(2, ["vm1"]), (3, ["vm1"])] },
              { cls := 2, owner := some 0, name := "b.net1", pfx := "2", dryRun := true, setup := [(1, ["vm1"])],
                cleanup := [(4, ["vm1"])] },
              { cls := 3, owner := some 0, name := "c.net1", pfx := "3", dryRun := true, setup := [(1, ["vm1"])],
                cleanup := [(4, ["vm1"])] },
              { cls := 4, owner := some 0, name := "d.net1", pfx := "4", dryRun := true, setup := [(2, ["vm1"]), (3, ["vm1"])] }],
    root := 0 }

example : I2N.Trav.Term.bound gDia = 274 := by decide
example := first_block_terminates gDia (by decide) (by decide) (by decide) 5 (by decide) [] 0 (by decide) 100000 (by decide)
/-- the whole dry run of the diamond is one block of more than 14 iterations that ends with the exit event -/
example : (runLoop gDia 0 (I2N.Trav.Term.bound gDia) (initState gDia 5 []) []).2 = [Event.exit "net1"] ∧
    (runLoop gDia 0 14 (initState gDia 5 []) []).2 = [Event.raise "net1" "fuel"] := by decide
/-- the hypotheses of `iteration_lowers_measure` are met by the first iteration (a push of the root's child) -/
example : (match (iterL gDia (initState gDia 5 []) 0).2.2 with | .cont => true | _ => false) = true ∧
    I2N.Trav.Term.phi gDia (initState gDia 5 []) 0 = 261 ∧
    I2N.Trav.Term.phi gDia (iterL gDia (initState gDia 5 []) 0).1 0 = 260 := by decide

/-- a reachable state in the middle of the traversal (the worker of `gTwo` is suspended inside its leaf): the hypotheses
of `reachable_loop_terminates` / `resume_within_bound` hold -/
example := preparsed_resume_within_bound gTwo (by decide) (by decide) (by decide) 2 (by decide) [] _
  (.step _ 0 ⟨none, 0⟩ 9 (.init []) (by decide) (by decide)) 0 ⟨some "PASS", 1⟩ 100000 (by decide)
example := reachable_loop_terminates gTwo _ (I2N.Trav.Term.rankedB_sound (by decide)) (edgeSymB_sound (by decide)) 2 []
  (by decide) _ (.step _ 0 ⟨none, 0⟩ 9 (.init []) (by decide) (by decide)) (I2N.Trav.Term.explored_of_noFlat (by decide) _)
  0 [] 100000 (by decide)

/-- the diamond, with its root made a dry-run node too, meets the hypotheses of `dry_run_terminates` -/
def gDiaDry : Graph :=
  { gDia with nodes := gDia.nodes.map (fun nd => { nd with dryRun := true }) }

example := dry_run_terminates gDiaDry (by decide) (by decide) (by decide) 0 (by decide) (by decide) (by decide) (by decide)
  5 (by decide) [] 100000 (by decide)

/-- a lazily expanded graph in the shape the harness builds: shared root, two flat nodes below it, per worker the
composite tests `a` (child of the root, test of the first flat node) and `b` (child of `a`, test of the second flat
node); the composite nodes are hidden initially -/
def gLazy : Graph :=
  { workers := [{ id := "net1", swarm := "localhost" }, { id := "net2", swarm := "localhost" }],
    nodes := [{ cls := 0, owner := none, name := "root", pfx := "0", flat := true, sharedRoot := true,
                cleanup := [(1, []), (2, []), (3, ["vm1"]), (5, ["vm1"])] },
              { cls := 1, owner := none, name := "normal.nongui.a", pfx := "1", flat := true, setless := "a",
                setup := [(0, [])], cleanup := [(3, []), (5, [])] },
              { cls := 2, owner := none, name := "normal.nongui.b", pfx := "2", flat := true, setless := "b",
                setup := [(0, [])], cleanup := [(4, []), (6, [])] },
              { cls := 3, owner := some 0, name := "a.net1", pfx := "1", dryRun := true, setup := [(0, ["vm1"]), (1, [])],
                cleanup := [(4, ["vm1"])] },
              { cls := 4, owner := some 0, name := "b.net1", pfx := "2", dryRun := true, setup := [(3, ["vm1"]), (2, [])] },
              { cls := 3, owner := some 1, name := "a.net2", pfx := "1", dryRun := true, setup := [(0, ["vm1"]), (1, [])],
                cleanup := [(6, ["vm1"])] },
              { cls := 4, owner := some 1, name := "b.net2", pfx := "2", dryRun := true, setup := [(5, ["vm1"]), (2, [])] }],
    root := 0 }

example := lazy_first_block_terminates gLazy (by decide) (by decide) (by decide) 5 (by decide) [] [3, 4, 5, 6]
  (by decide) (by decide) (by decide) 0 (by decide) 200000 (by decide)
/-- the block of the first worker contains a postponement jump (from `[root, a-flat, a.net1]` straight to `[root]`, the
ninth iteration, while the second flat node is unexplored) and ends with the exit after 24 iterations -/
example : ((I2N.Trav.Term.tracePaths gLazy 0 9 (initState gLazy 5 [] [3, 4, 5, 6])).drop 7 = [[0, 1, 3], [0]]) ∧
    (runLoop gLazy 0 24 (initState gLazy 5 [] [3, 4, 5, 6]) []).2 = [Event.exit "net1"] := by decide

/-- a reachable state of `gLazy` (after the whole traversal of the first worker): the second worker's loop terminates -/
example := reachable_lazy_loop_terminates gLazy _ (I2N.Trav.Term.rankedB_sound (by decide)) (edgeSymB_sound (by decide))
  (I2N.Trav.Term.lazyOKB_sound (by decide)) 5 [] [3, 4, 5, 6] (by decide) (by decide)
  (by intro f hf; have : ¬ (f = 3 ∨ f = 4 ∨ f = 5 ∨ f = 6) := by
        rintro (h | h | h | h) <;> subst h <;> revert hf <;> decide
      simp only [List.contains_cons, List.contains_nil, Bool.or_false, Bool.or_eq_false_iff, beq_eq_false_iff_ne]
      omega)
  (by intro f _
      show ([3, 4, 5, 6] : List Nat).contains (7 * (0 + 1) + f) = false
      simp only [List.contains_cons, List.contains_nil, Bool.or_false, Bool.or_eq_false_iff, beq_eq_false_iff_ne]
      omega)
  _ (.step _ 0 ⟨none, 0⟩ 100 .init (by decide) (by decide)) 1 (by decide)
  (fun h => by
    have := congrArg (fun p => match p with | Pc.done => true | _ => false) h
    revert this; decide) [] _ (Nat.le_refl _)

/-- Necessity of acyclicity (model level; real graphs are acyclic by construction): on a graph with a cycle `a ⇄ b`
the worker pushes parents for ever — the loop does run out of fuel. -/
def gCyc : Graph :=
  { workers := [{ id := "net1", swarm := "localhost" }],
    nodes := [{ cls := 0, owner := some 0, name := "root.net1", pfx := "0", sharedRoot := true, cleanup := [(1, ["vm1"])] },
              { cls := 1, owner := some 0, name := "a.net1", pfx := "1", dryRun := true, setup := [(0, ["vm1"]), (2, ["vm1"])],
                cleanup := [(2, ["vm1"])] },
              { cls := 2, owner := some 0, name := "b.net1", pfx := "2", dryRun := true, setup := [(1, ["vm1"])],
                cleanup := [(1, ["vm1"])] }],
    root := 0 }

theorem cyclic_graph_spins : edgeSymB gCyc = true ∧ I2N.Trav.Term.rankedB gCyc = false ∧
    (runLoop gCyc 0 20 (initState gCyc 3 []) []).2 = [Event.raise "net1" "fuel"] ∧
    ((runLoop gCyc 0 20 (initState gCyc 3 []) []).1.wd 0).path.length = 19 := by decide

/-- Necessity of `ClsOK`: with registers for two of the five classes only, the drops of the other classes are lost and
the worker walks up and down between `a` and `b` for ever. -/
theorem missing_registers_spin :
    (runLoop gDia 0 25 (initState gDia 2 []) []).2 = [Event.raise "net1" "fuel"] := by decide

/-- Necessity of `Explored` (model level): a flat node that is nobody's child can never be unrolled, so every cleanup
is postponed by a jump back to the root that drops nothing.  In the graphs the parser and the harness build, every flat
node is a child of the shared root and gets unrolled by the first worker that picks it; the termination of the
postponement phase then rests on the pick counters (fewest picks first) and is NOT covered by the theorems above. -/
def gUnx : Graph :=
  { workers := [{ id := "net1", swarm := "localhost" }],
    nodes := [{ cls := 0, owner := some 0, name := "root.net1", pfx := "0", sharedRoot := true, cleanup := [(1, ["vm1"])] },
              { cls := 1, owner := some 0, name := "a.net1", pfx := "1", dryRun := true, setup := [(0, ["vm1"])] },
              { cls := 2, owner := none, name := "f", pfx := "2", flat := true, setless := "zzz" }],
    root := 0 }

theorem unexplored_orphan_spins : I2N.Trav.Term.rankedB gUnx = true ∧ edgeSymB gUnx = true ∧
    (runLoop gUnx 0 25 (initState gUnx 3 []) []).2 = [Event.raise "net1" "fuel"] := by decide

/-- Necessity of `hedge` (model level): `gLazy` with the edge from the shared root to the second flat node hidden as well
(`edgeCode gLazy 0 2 = 9`).  Nothing ever reveals an edge below the shared root (only the expansion of a flat node reveals
edges, those to its own composite nodes), so the second flat node stays unexplored and every cleanup is postponed by a jump
back to the root.  The lazy parser never builds this: flat nodes are hung below the shared root before the traversal starts
(`TestRunner.run_workers`), and `harness/travlib.py` hides edges from non-root flat nodes to composite nodes only. -/
theorem hidden_root_edge_spins : edgeCode gLazy gLazy.root 2 = 9 ∧
    (runLoop gLazy 0 60 (initState gLazy 5 [] [3, 4, 5, 6, 9]) []).2 = [Event.raise "net1" "fuel"] := by decide

/-- **Mixed-set lazy expansion** (the shape of the shipped selection `leaves..tutorial_get, normal..tutorial_gui`): ONE composite
node `x` (node 3) is the test of the flat node `normal.gui.x` (node 2) and the setup of `y` (node 4), the test of the flat
node `leaves.y` (node 1).  Expanding `leaves.y` parses `x` as a dependency; `x` becomes a child of ITS flat node only when that
one is expanded too (`hidden` holds the codes of both flat-to-composite edges: `edgeCode gMix 1 4 = 14`,
`edgeCode gMix 2 3 = 18`). -/
def gMix : Graph :=
  { workers := [{ id := "net1", swarm := "localhost" }],
    nodes := [{ cls := 0, owner := none, name := "root", pfx := "0", flat := true, sharedRoot := true,
                cleanup := [(1, []), (2, []), (3, ["vm1"])] },
              { cls := 1, owner := none, name := "leaves.y", pfx := "1", flat := true, setless := "y",
                setup := [(0, [])], cleanup := [(4, [])] },
              { cls := 2, owner := none, name := "normal.gui.x", pfx := "2", flat := true, setless := "x", rank := 1,
                setup := [(0, [])], cleanup := [(3, [])] },
              { cls := 3, owner := some 0, name := "all.x.net1", pfx := "1a", dryRun := true, setup := [(0, ["vm1"]), (2, [])],
                cleanup := [(4, ["vm1"])] },
              { cls := 4, owner := some 0, name := "leaves.y.net1", pfx := "1", dryRun := true, setup := [(3, ["vm1"]), (1, [])] }],
    root := 0 }

/-- after the expansion of `leaves.y` (second iteration) the shared node `x` is parsed but is not yet a child of its own flat
node (`hidden = [18]`), which therefore still counts as unexplored: the cleanup of `y` is postponed (jump from
`[root, leaves.y, y]` to `[root]`, as the code does it), the worker then picks and expands `normal.gui.x`, and only then are
both composite nodes cleaned up; the block ends with the exit and nothing hidden.  With the edge visible from the start (the
model before the repair; `hidden = [3, 4]`) `normal.gui.x` counts as unrolled as soon as `x` is parsed, nothing is postponed
and the worker walks up from `x` into its flat node instead (`[root, leaves.y, y, x, normal.gui.x]`). -/
theorem mixed_set_edge_appears_with_expansion :
    edgeCode gMix 1 4 = 14 ∧ edgeCode gMix 2 3 = 18 ∧ I2N.Trav.Term.lazyOKB gMix = true ∧
    ((I2N.Trav.Term.tracePaths gMix 0 14 (initState gMix 5 [] [3, 4, 14, 18])).drop 8 =
      [[0, 1, 4, 3], [0, 1, 4], [0], [0, 2], [0, 2, 0], [0, 2]]) ∧
    ((iterL gMix (iterL gMix (initState gMix 5 [] [3, 4, 14, 18]) 0).1 0).1.hidden = [18] ∧
     unexploredNodes (vis gMix (iterL gMix (iterL gMix (initState gMix 5 [] [3, 4, 14, 18]) 0).1 0).1)
       (iterL gMix (iterL gMix (initState gMix 5 [] [3, 4, 14, 18]) 0).1 0).1 = [2] ∧
     ((vis gMix (iterL gMix (iterL gMix (initState gMix 5 [] [3, 4, 14, 18]) 0).1 0).1).node 2).cleanup = []) ∧
    (runLoop gMix 0 40 (initState gMix 5 [] [3, 4, 14, 18]) []).2 = [Event.exit "net1"] ∧
    (runLoop gMix 0 40 (initState gMix 5 [] [3, 4, 14, 18]) []).1.hidden = [] ∧
    ((I2N.Trav.Term.tracePaths gMix 0 9 (initState gMix 5 [] [3, 4])).drop 6 = [[0, 1, 4, 3], [0, 1, 4, 3, 2], [0, 1, 4, 3, 2, 0]]) := by
  decide

/-! ## Termination ACROSS suspensions: a single worker (`Lemmas/TravGlobal.lean`)

The scheduler view of a run of a graph with ONE worker: a list of steps `(outcome of the awaited test, fuel)`; the state
evolves by `resume g s 0 out fuel` (`runSteps`), starting from `initState g ncls store` (pre-parsed: nothing hidden).
Static hypotheses, all decidable: one worker, `rankedB` (acyclic), `edgeSymB` (edges recorded at both ends), `noFlatB` (no
flat node but the shared root), `graphWF` (edge ends are node indices), a register record for every class; every step
has `fuel ≥ bound g`.  Outcomes are arbitrary: any status, results that never arrive (`status = none`), any duration. -/

open I2N.Trav.Term I2N.Trav.Global in
/-- **single_worker_never_bounces.**  With one worker nobody else can hold a `started` mark, so `is_occupied` is false
whenever the worker examines a node: along EVERY run the worker never enters the back-off branch — its program counter
is never `bounce`, its back-off record stays empty, no `max_concurrent_tries` is ever bumped — and after every step it
is suspended inside a test (result wait `≤ 10`), has left the loop through the shared root (`done`) or died with an
exception (`failed`); in particular no block runs out of fuel. -/
theorem single_worker_never_bounces (g : Graph) (h1 : g.workers.length = 1) (hr : rankedB g = true)
    (hsym : edgeSymB g = true) (hflat : noFlatB g = true) (hwf : graphWF g = true) (ncls : Nat)
    (hcls : ∀ n, n < g.nodes.length → (g.node n).cls < ncls) (store : List (String × List (String × String)))
    (steps : List (Outcome × Nat)) (hfuel : ∀ x ∈ steps, bound g ≤ x.2) :
    ((runSteps g (initState g ncls store) steps).wd 0).pc ≠ .bounce ∧
    ((runSteps g (initState g ncls store) steps).wd 0).occAt = [] ∧
    NoBump (runSteps g (initState g ncls store) steps) ∧
    (steps ≠ [] →
      (∃ n ph dir uid tag wait, ((runSteps g (initState g ncls store) steps).wd 0).pc = .test n ph dir uid tag wait ∧ wait ≤ 10) ∨
      ((runSteps g (initState g ncls store) steps).wd 0).pc = .done ∨
      ((runSteps g (initState g ncls store) steps).wd 0).pc = .failed) := by
  have st : Static g ncls := ⟨h1, hr, hsym, hflat, hwf, hcls⟩
  obtain ⟨y, hfin⟩ := run_ginv st steps _ (ginv_init st store) hfuel
  have key : steps ≠ [] →
      (∃ n ph dir uid tag wait, ((runSteps g (initState g ncls store) steps).wd 0).pc = .test n ph dir uid tag wait ∧ wait ≤ 10) ∨
      ((runSteps g (initState g ncls store) steps).wd 0).pc = .done ∨
      ((runSteps g (initState g ncls store) steps).wd 0).pc = .failed := by
    intro hne
    have hf := hfin hne
    cases hpc : ((runSteps g (initState g ncls store) steps).wd 0).pc with
    | test n ph dir uid tag wait => exact Or.inl ⟨n, ph, dir, uid, tag, wait, rfl, y.wait n ph dir uid tag wait hpc⟩
    | done => exact Or.inr (Or.inl rfl)
    | failed => exact Or.inr (Or.inr rfl)
    | loop => rw [hpc] at hf; cases hf
    | bounce => rw [hpc] at hf; cases hf
  refine ⟨?_, y.occ, y.reachP.noBump, key⟩
  intro hb
  cases steps with
  | nil =>
    have hwd : (initState g ncls store []).wd 0 = { path := [g.root] } := by
      have hv : 0 < g.workers.length := by rw [h1]; exact Nat.one_pos
      unfold initState State.wd
      simp only [List.getD_eq_getElem?_getD, List.getElem?_map, List.getElem?_eq_getElem hv]
      rfl
    have hb' : ((initState g ncls store []).wd 0).pc = .bounce := hb
    rw [hwd] at hb'; cases hb'
  | cons a r =>
    rcases key (by simp) with ⟨_, _, _, _, _, _, h, _⟩ | h | h <;> rw [h] at hb <;> cases hb

open I2N.Trav.Term I2N.Trav.Global in
/-- **single_worker_terminates_partial** (termination across suspensions, one worker).  Extra decidable hypotheses:
`noRootsB g` — no object roots (no two-step creations) — and `classesOKB g` — every class is covered by a budget theorem
of C03: a class of stateless tests whose copies agree on `max_tries`, or a class of setup tests whose copies agree on
`max_tries` and the scope shape, whose result names match the scope filter (`statefulClass`) and whose
`max_concurrent_tries` is unset or `≤ max(max_tries, 1)`.  Then there is an explicit number depending on the static graph
only, `stepBound g = 23·Σ_n max(max_tries n, 1) + 23`, such that after ANY `stepBound g` (or more) `resume` steps — whatever
the tests do: any statuses incl. FAIL/ERROR, results that never arrive, any durations — the worker is `done` or `failed`:
the traversal ends after at most `stepBound g` suspensions.

Why: nobody bounces (`single_worker_never_bounces`), so a step that does not end the traversal is a tick of the result wait
(at most 10 per execution) or ends an execution and starts the next one, which appends a result (the UNKNOWN placeholder)
to a node; `23·#results + (1 + wait)` strictly grows with every such step (`Global.resume_cnt`), and `#results` never exceeds
`Σ_n max(max_tries n, 1)` by the retry budgets (`budget_stateless`, `budget_stateful` of C03; no bump as nobody bounces).

MISSING for the full statement: (1) object roots — the two-step creation files results under the name of the pre-step
and the C03 budget of roots is proved for `max_tries ≤ 1` only; the counter argument also needs "a placeholder tag occurs
once" for roots, which `Basic` does not provide; (2) classes whose copies disagree on `max_tries`/shape or whose names do
not match the scope filter (see `design.d/C02.md`); (3) `max_concurrent_tries > max(max_tries, 1)` (the budget then depends
on the threshold).  The conditional form without (2)/(3), given any bound on the number of results, is
`single_worker_terminates_of_result_bound`. -/
theorem single_worker_terminates_partial (g : Graph) (h1 : g.workers.length = 1) (hr : rankedB g = true)
    (hsym : edgeSymB g = true) (hflat : noFlatB g = true) (hwf : graphWF g = true) (ncls : Nat)
    (hcls : ∀ n, n < g.nodes.length → (g.node n).cls < ncls) (hroots : noRootsB g = true) (hcl : classesOKB g = true)
    (store : List (String × List (String × String)))
    (steps : List (Outcome × Nat)) (hfuel : ∀ x ∈ steps, bound g ≤ x.2) (hlen : stepBound g ≤ steps.length) :
    ((runSteps g (initState g ncls store) steps).wd 0).pc = .done ∨
    ((runSteps g (initState g ncls store) steps).wd 0).pc = .failed := by
  have st : Static g ncls := ⟨h1, hr, hsym, hflat, hwf, hcls⟩
  have h := run_over st hroots store (resultBound g) (fun s hs => total_le_resultBound st hcl hs) steps hfuel hlen
  cases hpc : ((runSteps g (initState g ncls store) steps).wd 0).pc with
  | done => exact Or.inl rfl
  | failed => exact Or.inr rfl
  | test n ph dir uid tag wait => rw [hpc] at h; cases h
  | loop => rw [hpc] at h; cases h
  | bounce => rw [hpc] at h; cases h

open I2N.Trav.Term I2N.Trav.Global in
/-- the conditional form: for graphs without object roots ANY bound `R` on the number of results (placeholders included)
of the states reachable without over-waiting (`ReachableP`) gives termination within `23·R + 23` steps -/
theorem single_worker_terminates_of_result_bound (g : Graph) (h1 : g.workers.length = 1) (hr : rankedB g = true)
    (hsym : edgeSymB g = true) (hflat : noFlatB g = true) (hwf : graphWF g = true) (ncls : Nat)
    (hcls : ∀ n, n < g.nodes.length → (g.node n).cls < ncls) (hroots : noRootsB g = true)
    (store : List (String × List (String × String))) (R : Nat)
    (hR : ∀ s, ReachableP g ncls store s → total g s ≤ R)
    (steps : List (Outcome × Nat)) (hfuel : ∀ x ∈ steps, bound g ≤ x.2) (hlen : 23 * R + 23 ≤ steps.length) :
    ((runSteps g (initState g ncls store) steps).wd 0).pc = .done ∨
    ((runSteps g (initState g ncls store) steps).wd 0).pc = .failed := by
  have st : Static g ncls := ⟨h1, hr, hsym, hflat, hwf, hcls⟩
  have h := run_over st hroots store R hR steps hfuel hlen
  cases hpc : ((runSteps g (initState g ncls store) steps).wd 0).pc with
  | done => exact Or.inl rfl
  | failed => exact Or.inr rfl
  | test n ph dir uid tag wait => rw [hpc] at h; cases h
  | loop => rw [hpc] at h; cases h
  | bounce => rw [hpc] at h; cases h

/-- "is `done`" / "waits for the result of node `n` with counter `wait`", for the examples -/
def pcIsDone : Pc → Bool
  | .done => true
  | _ => false

def pcWaitOf : Pc → Option (Nat × Nat)
  | .test n _ _ _ _ wait => some (n, wait)
  | _ => none

/-- a diamond with real tests: a setup test `a` (sets a state), `b` with `max_tries = 2`, `c`, and `d` below both -/
def gRun : Graph :=
  { workers := [{ id := "net1", swarm := "localhost" }],
    nodes := [{ cls := 0, owner := some 0, name := "root.net1", pfx := "0", sharedRoot := true, cleanup := [(1, ["vm1"])] },
              { cls := 1, owner := some 0, name := "a.net1", pfx := "1", setup := [(0, ["vm1"])],
                cleanup := [(2, ["vm1"]), (3, ["vm1"])], sets := [("vm1", "a")], objs := ["vm1"] },
              { cls := 2, owner := some 0, name := "b.net1", pfx := "2", setup := [(1, ["vm1"])],
                cleanup := [(4, ["vm1"])], maxTries := some 2 },
              { cls := 3, owner := some 0, name := "c.net1", pfx := "3", setup := [(1, ["vm1"])],
                cleanup := [(4, ["vm1"])] },
              { cls := 4, owner := some 0, name := "d.net1", pfx := "4", setup := [(2, ["vm1"]), (3, ["vm1"])] }],
    root := 0 }

/-- a run of `gRun`: `a` passes, `b` fails (and is retried later: `max_tries = 2`), the result of `c` never arrives (ten
ticks of the result wait, then the default), the retry of `b` and `d` pass -/
def runOfGRun : List (Outcome × Nat) :=
  [(⟨none, 0⟩, 274), (⟨some "PASS", 1⟩, 274), (⟨some "FAIL", 1⟩, 274)] ++ List.replicate 11 (⟨none, 0⟩, 274) ++
    [(⟨some "PASS", 1⟩, 274), (⟨some "PASS", 1⟩, 274)]

/-- the hypotheses of the single-worker theorems hold for `gRun` -/
example : gRun.workers.length = 1 ∧ I2N.Trav.Term.rankedB gRun = true ∧ edgeSymB gRun = true ∧
    I2N.Trav.Term.noFlatB gRun = true ∧ graphWF gRun = true ∧ I2N.Trav.Global.noRootsB gRun = true ∧
    I2N.Trav.Global.classesOKB gRun = true ∧ I2N.Trav.Term.bound gRun = 274 ∧ I2N.Trav.Global.stepBound gRun = 161 := by
  decide +kernel
/-- the run above ends with `done` after 16 steps — well within `stepBound gRun = 161` — having been inside the result
wait of `c` with `wait = 10`, and having started `b` twice -/
example : pcIsDone ((I2N.Trav.Global.runSteps gRun (initState gRun 5 []) runOfGRun).wd 0).pc = true ∧
    pcIsDone ((I2N.Trav.Global.runSteps gRun (initState gRun 5 []) (runOfGRun.take 15)).wd 0).pc = false ∧
    pcWaitOf ((I2N.Trav.Global.runSteps gRun (initState gRun 5 []) (runOfGRun.take 13)).wd 0).pc = some (3, 10) ∧
    ((I2N.Trav.Global.runSteps gRun (initState gRun 5 []) runOfGRun).nd 2).results.map (·.status) = ["FAIL", "PASS"] := by
  decide +kernel
example := single_worker_never_bounces gRun (by decide) (by decide) (by decide) (by decide) (by decide) 5 (by decide) []
  runOfGRun (by decide)
example := single_worker_terminates_partial gRun (by decide) (by decide) (by decide) (by decide) (by decide) 5 (by decide)
  (by decide) (by decide +kernel) [] (List.replicate 161 (⟨none, 0⟩, 274))
  (fun x hx => by rw [List.eq_of_mem_replicate hx]; decide) (by rw [List.length_replicate]; decide)

/-- Witness that a hypothesis like `classesOKB` cannot be dropped IN THE MODEL (a graph no parser builds: two copies of
one class that both concern the same worker).  Setup class 1, scope shape `own` (result filter `"localhost.net1"`): copy 1
is named `a.localhost.net1` (`max_tries = 1`), copy 2 — reached through another parent — is named `a.net1` (`max_tries = 3`).
Copy 1 runs once; its result is counted by the rerun rule of copy 2 (1 < 3), the results of copy 2 itself are not
(their name does not contain the filter string): copy 2 is re-run without end. -/
def gMis : Graph :=
  { workers := [{ id := "net1", swarm := "localhost" }],
    nodes := [{ cls := 0, owner := some 0, name := "root.net1", pfx := "0", sharedRoot := true,
                cleanup := [(1, ["vm1"]), (3, ["vm1"])] },
              { cls := 1, owner := some 0, name := "a.localhost.net1", pfx := "1", setup := [(0, ["vm1"])],
                sets := [("vm1", "a")], objs := ["vm1"], shape := .own, maxTries := some 1 },
              { cls := 1, owner := some 0, name := "a.net1", pfx := "2", setup := [(3, ["vm1"])],
                sets := [("vm1", "a")], objs := ["vm1"], shape := .own, maxTries := some 3 },
              { cls := 2, owner := some 0, name := "p.net1", pfx := "3", setup := [(0, ["vm1"])], cleanup := [(2, ["vm1"])] }],
    root := 0 }

/-- `gMis` meets every hypothesis of `single_worker_terminates_partial` but `classesOKB`; with all tests passing, after 12
steps the worker is inside the 10th execution of copy 2 (`max_tries = 3`), each step having been one more execution of
it (`#eval` shows the same for any number of steps tried, e.g. 168 results after 170 steps, `stepBound gMis = 161`). -/
theorem unmatched_copy_reruns :
    gMis.workers.length = 1 ∧ I2N.Trav.Term.rankedB gMis = true ∧ edgeSymB gMis = true ∧
    I2N.Trav.Term.noFlatB gMis = true ∧ graphWF gMis = true ∧ I2N.Trav.Global.noRootsB gMis = true ∧
    I2N.Trav.Global.classesOKB gMis = false ∧ I2N.Trav.Term.bound gMis = 144 ∧
    (fun s : State => (pcWaitOf (s.wd 0).pc, (s.nd 2).results.length))
      (I2N.Trav.Global.runSteps gMis (initState gMis 3 []) (List.replicate 12 (⟨some "PASS", 1⟩, 144))) = (some (2, 0), 10) := by
  decide +kernel

/-! ## Progress ACROSS suspensions: any number of workers (`Lemmas/TravGlobalN.lean`)

The scheduler view of a run of a pre-parsed graph with ANY number of workers: a list of steps `(worker, outcome of the test
it awaited, fuel)` (`GlobalN.StepN`), any interleaving; the state evolves by `resume g s w out fuel` (`GlobalN.runStepsN`)
from `initState g ncls store`.  A step is *productive* (`GlobalN.productive`, a function of the stepping worker's program
counter before and after the step) unless it is a step of a worker whose traversal is over, or a worker in the loop / waking
up from a back-off sleep goes to sleep (again) at an occupied node.  `GlobalN.Patient`: no worker steps after it has waited at
occupied nodes for longer than `timeout · max(max_tries, 1)` of such a node — so no `max_concurrent_tries` is ever bumped. -/

open I2N.Trav.Term I2N.Trav.Global I2N.Trav.GlobalN in
/-- **nonbounce_steps_bounded** (`_partial`: class hypotheses and patience).  Pre-parsed acyclic graph, ANY number of
workers, any interleaving of steps of real workers with `fuel ≥ bound g`, any outcomes (any status, results that never
arrive, any duration); `noRootsB`, `classesOKB` as in `single_worker_terminates_partial`; the run is `Patient`.  Then the
number of productive steps of the WHOLE run — every step of a worker that is inside a test (ticks of the result wait
included), and every step of a worker in the loop or waking up from a back-off sleep that does not end in a back-off sleep
again — is at most `24 · Σ_n max(max_tries n, 1) + |workers|`, a function of the static graph.  So the ONLY way a run can be
long is workers sleeping at occupied nodes (`unproductive_step_is_backoff`: every other step is a no-op of a finished
worker or a `loop/bounce → bounce` step).

Why: `cntN = 24·#results + Σ_v q(pc v)` (`q` = the wait counter inside a test, 12 in the loop / back-off sleep, 13 when over)
never falls and grows with every productive step (`GlobalN.step_cntN`; a block with `fuel ≥ bound g` ends by itself, so a
wake-up that does not end asleep ends inside a fresh test, done or dead); `#results ≤ Σ_n max(max_tries n, 1)` by the C03
budgets for any number of workers (`GlobalN.total_le_resultBoundN`).

MISSING for the full statement: object roots and the class hypotheses (as for one worker); `Patient` — without it the
thresholds grow with every over-waited back-off and the C03 budget `max(max_tries, classLimit)` grows with them, so no bound
in terms of the static graph alone follows from the invariants at hand (whether the model really produces more results then
is not decided here: the bump involves `Float` comparisons, which `decide` cannot evaluate). -/
theorem nonbounce_steps_bounded_partial (g : Graph) (hr : rankedB g = true) (hsym : edgeSymB g = true)
    (hflat : noFlatB g = true) (hwf : graphWF g = true) (ncls : Nat)
    (hcls : ∀ n, n < g.nodes.length → (g.node n).cls < ncls) (hroots : noRootsB g = true) (hcl : classesOKB g = true)
    (store : List (String × List (String × String))) (steps : List StepN)
    (hreal : ∀ x ∈ steps, x.1 < g.workers.length) (hfuel : ∀ x ∈ steps, bound g ≤ x.2.2)
    (hpat : Patient g (initState g ncls store) steps) :
    productiveSteps g (initState g ncls store) steps ≤ 24 * resultBound g + g.workers.length :=
  productive_le ⟨hr, hsym, hflat, hwf, hcls⟩ hroots hcl store steps hreal hfuel hpat

open I2N.Trav.GlobalN I2N.Trav.Global in
/-- the steps `nonbounce_steps_bounded_partial` does not count (any graph, any state): the worker's traversal was over and
the step changed nothing, or the worker was in the loop / in a back-off sleep and ends the step in a back-off sleep -/
theorem unproductive_step_is_backoff (g : Graph) (s : State) (w : Nat) (out : Outcome) (fuel : Nat)
    (h : productive (s.wd w).pc ((resume g s w out fuel).1.wd w).pc = false) :
    (((s.wd w).pc = .done ∨ (s.wd w).pc = .failed) ∧ (resume g s w out fuel).1 = s) ∨
    (((s.wd w).pc = .loop ∨ (s.wd w).pc = .bounce) ∧ ((resume g s w out fuel).1.wd w).pc = .bounce) := by
  rcases unproductive_step g s w out fuel h with ⟨h1, h2⟩ | h1
  · left
    refine ⟨?_, h2⟩
    cases hpc : (s.wd w).pc <;> rw [hpc] at h1 <;> first | (cases h1; done) | exact Or.inl rfl | exact Or.inr rfl
  · exact Or.inr h1

/-- two workers of one swarm, one stateless class with a copy each: the second worker finds the class occupied -/
def gDuo : Graph :=
  { workers := [{ id := "net1", swarm := "localhost" }, { id := "net2", swarm := "localhost" }],
    nodes := [{ cls := 0, owner := none, name := "root", pfx := "0", sharedRoot := true,
                cleanup := [(1, ["vm1"]), (2, ["vm1"])] },
              { cls := 1, owner := some 0, name := "leaf.net1", pfx := "1", setup := [(0, ["vm1"])] },
              { cls := 1, owner := some 1, name := "leaf.net2", pfx := "2", setup := [(0, ["vm1"])] }],
    root := 0 }

/-- worker 0 starts its leaf, worker 1 bounces off the occupied class (an unproductive step), worker 0 finishes -/
def runOfGDuo : List I2N.Trav.GlobalN.StepN := [(0, ⟨none, 0⟩, 82), (1, ⟨none, 0⟩, 82), (0, ⟨some "PASS", 1⟩, 82)]

def pcIsBounce : Pc → Bool
  | .bounce => true
  | _ => false

example : I2N.Trav.Term.rankedB gDuo = true ∧ edgeSymB gDuo = true ∧ I2N.Trav.Term.noFlatB gDuo = true ∧
    graphWF gDuo = true ∧ I2N.Trav.Global.noRootsB gDuo = true ∧ I2N.Trav.Global.classesOKB gDuo = true ∧
    I2N.Trav.Term.bound gDuo = 82 ∧ I2N.Trav.Global.resultBound gDuo = 3 := by decide +kernel
/-- the run has two productive steps and one back-off step; afterwards worker 0 is done and worker 1 sleeps -/
example : I2N.Trav.GlobalN.productiveSteps gDuo (initState gDuo 2 []) runOfGDuo = 2 ∧
    pcIsDone ((I2N.Trav.GlobalN.runStepsN gDuo (initState gDuo 2 []) runOfGDuo).wd 0).pc = true ∧
    pcIsBounce ((I2N.Trav.GlobalN.runStepsN gDuo (initState gDuo 2 []) runOfGDuo).wd 1).pc = true := by decide +kernel
/-- the run is patient: no worker that steps has bounced before -/
theorem runOfGDuo_patient : I2N.Trav.GlobalN.Patient gDuo (initState gDuo 2 []) runOfGDuo :=
  ⟨not_overWaited_of_nil (by decide +kernel), not_overWaited_of_nil (by decide +kernel),
    not_overWaited_of_nil (by decide +kernel), trivial⟩
example := nonbounce_steps_bounded_partial gDuo (by decide) (by decide) (by decide) (by decide) 2 (by decide) (by decide)
  (by decide +kernel) [] runOfGDuo (by decide) (by decide) runOfGDuo_patient

open I2N.Trav.GlobalN in
/-- **bounce_only_while_someone_runs** (`bounce_needs_runner` lifted from states to steps).  Any graph with edges recorded
at both ends (lazily expanded ones included), any reachable state, any real worker `w`, any outcome, positive fuel: if the
step of `w` ENDS in the back-off sleep — whatever it did before in that step: settle a test, walk, clean up —, then some
OTHER real worker `v` is, at the beginning of the step (and, `w`'s step not touching `v`'s record, at its end), suspended
inside a test execution or dead (`failed`).  Hence workers never sleep waiting for each other only, and a worker all of whose
peers are `done` never sleeps (`last_worker_terminates_partial`).
Proof: if every other worker is neither inside a test nor dead, no `started` mark exists while `w` is in its loop
(`PInvO.markPc`), so `is_occupied` is false in every iteration of the step (`GlobalN.resume_quiet`: one more walk through
`traverseNode`, `iter`, `iterL`, `runLoop`, `continueAfter`, `resumeTest`, `resume`).
`0 < fuel` is needed for the trivial reason that a step without fuel leaves a sleeping worker asleep
(`fuelless_step_stays_asleep`); the `failed` alternative is needed because a dead worker keeps its mark
(`dead_holder_blocks_last_worker`). -/
theorem bounce_only_while_someone_runs (g : Graph) (hsym : EdgeSym g) (ncls : Nat)
    (store : List (String × List (String × String))) (s : State) (h : ReachableF g ncls store s) (w : Nat)
    (hw : w < g.workers.length) (out : Outcome) (fuel : Nat) (hf : 0 < fuel)
    (hb : ((resume g s w out fuel).1.wd w).pc = .bounce) :
    ∃ v, v ≠ w ∧ v < g.workers.length ∧ ((∃ m, (s.wd v).pc.node? = some m) ∨ (s.wd v).pc = .failed) :=
  bounce_has_runner g hsym s w out fuel hf hw (h.pinv hsym) hb

open I2N.Trav.Term I2N.Trav.Global I2N.Trav.GlobalN in
/-- **last_worker_terminates** (`_partial`: class hypotheses; the prefix of the run is patient).  Hypotheses of
`nonbounce_steps_bounded_partial`; `pre` is any patient run of any workers after which every real worker but `w` is `done`.
Then, whatever `w`'s own back-off record is (it may have over-waited before) and whatever its tests do from now on:
along ANY further steps of `w` with `fuel ≥ bound g` the others stay done, `w` never ends a step in the back-off sleep,
and after any `24·Σ_n max(max_tries n, 1) + 13·|workers| + 1` such steps `w` is `done` or `failed` — the whole traversal is
over.  With one worker and `pre = []` this is `single_worker_terminates_partial` again (with a slightly larger bound).
"`done`" cannot be weakened to "`done` or `failed`": a dead worker keeps its `started` mark, and the last worker sleeps in
front of it for ever (`dead_holder_blocks_last_worker` shows the first sleep; in the code the exception of one worker
propagates through `asyncio.gather` in `plugins/runner.py` and ends the whole run, so there the sleeping worker is simply
not resumed any more — the endless sleep is a property of the model's scheduler view only). -/
theorem last_worker_terminates_partial (g : Graph) (hr : rankedB g = true) (hsym : edgeSymB g = true)
    (hflat : noFlatB g = true) (hwf : graphWF g = true) (ncls : Nat)
    (hcls : ∀ n, n < g.nodes.length → (g.node n).cls < ncls) (hroots : noRootsB g = true) (hcl : classesOKB g = true)
    (store : List (String × List (String × String))) (pre : List StepN)
    (hreal : ∀ x ∈ pre, x.1 < g.workers.length) (hfuel : ∀ x ∈ pre, bound g ≤ x.2.2)
    (hpat : Patient g (initState g ncls store) pre) (w : Nat) (hw : w < g.workers.length)
    (hdone : ∀ v, v ≠ w → v < g.workers.length → ((runStepsN g (initState g ncls store) pre).wd v).pc = .done)
    (steps : List (Outcome × Nat)) (hfuel' : ∀ x ∈ steps, bound g ≤ x.2) :
    (∀ v, v ≠ w → v < g.workers.length →
      ((runW g w (runStepsN g (initState g ncls store) pre) steps).wd v).pc = .done) ∧
    (steps ≠ [] → ((runW g w (runStepsN g (initState g ncls store) pre) steps).wd w).pc ≠ .bounce) ∧
    (24 * resultBound g + 13 * g.workers.length + 1 ≤ steps.length →
      ((runW g w (runStepsN g (initState g ncls store) pre) steps).wd w).pc = .done ∨
      ((runW g w (runStepsN g (initState g ncls store) pre) steps).wd w).pc = .failed) := by
  have st : StaticN g ncls := ⟨hr, hsym, hflat, hwf, hcls⟩
  obtain ⟨y, _⟩ := run_cntN st hroots pre _ (ginvN_init g ncls store) hreal hfuel hpat
  obtain ⟨_, z2, z3, _⟩ := lastWorker_run st hroots w hw steps _ y hdone hfuel'
  refine ⟨z2, z3, fun hlen => ?_⟩
  have h := lastWorker_over st hroots hcl w hw steps _ y hdone hfuel' hlen
  cases hpc : ((runW g w (runStepsN g (initState g ncls store) pre) steps).wd w).pc with
  | done => exact Or.inl rfl
  | failed => exact Or.inr rfl
  | test n ph dir uid tag wait => rw [hpc] at h; cases h
  | loop => rw [hpc] at h; cases h
  | bounce => rw [hpc] at h; cases h

/-- non-vacuity: after `runOfGDuo` worker 0 is done and worker 1 — asleep in front of the class worker 0 had occupied — is
the last worker; its next step (fuel `≥ bound gDuo = 82`) does not end asleep: it leaves through the shared root -/
example : ((I2N.Trav.GlobalN.runW gDuo 1 (I2N.Trav.GlobalN.runStepsN gDuo (initState gDuo 2 []) runOfGDuo)
    [(⟨none, 0⟩, 82)]).wd 1).pc ≠ .bounce :=
  (last_worker_terminates_partial gDuo (by decide) (by decide) (by decide) (by decide) 2 (by decide) (by decide)
    (by decide +kernel) [] runOfGDuo (by decide) (by decide) runOfGDuo_patient 1 (by decide)
    (by
      intro v hv hvl
      have hv0 : v = 0 := by
        have : v < 2 := hvl
        omega
      subst hv0
      have h : pcIsDone ((I2N.Trav.GlobalN.runStepsN gDuo (initState gDuo 2 []) runOfGDuo).wd 0).pc = true := by
        decide +kernel
      cases hpc : ((I2N.Trav.GlobalN.runStepsN gDuo (initState gDuo 2 []) runOfGDuo).wd 0).pc <;> rw [hpc] at h <;>
        first | rfl | cases h)
    [(⟨none, 0⟩, 82)] (by decide)).2.1 (by simp)
example : pcIsDone ((I2N.Trav.GlobalN.runW gDuo 1 (I2N.Trav.GlobalN.runStepsN gDuo (initState gDuo 2 []) runOfGDuo)
    [(⟨none, 0⟩, 82)]).wd 1).pc = true := by decide +kernel
/-- the step of worker 1 in `runOfGDuo` ends asleep, and worker 0 is inside a test then -/
example := bounce_only_while_someone_runs gDuo (edgeSymB_sound (by decide)) 2 []
  (I2N.Trav.GlobalN.runStepsN gDuo (initState gDuo 2 []) (runOfGDuo.take 1))
  (.step _ 0 ⟨none, 0⟩ 82 (.init []) (by decide) (by decide)) 1 (by decide) ⟨none, 0⟩ 82 (by decide)
  (by
    have h : pcIsBounce ((resume gDuo (I2N.Trav.GlobalN.runStepsN gDuo (initState gDuo 2 []) (runOfGDuo.take 1)) 1
        ⟨none, 0⟩ 82).1.wd 1).pc = true := by decide +kernel
    cases hpc : ((resume gDuo (I2N.Trav.GlobalN.runStepsN gDuo (initState gDuo 2 []) (runOfGDuo.take 1)) 1
        ⟨none, 0⟩ 82).1.wd 1).pc <;> rw [hpc] at h <;> first | rfl | cases h)

/-- Witness that `0 < fuel` cannot be dropped from `bounce_only_while_someone_runs`: a step without fuel leaves the sleeping
worker 1 of `gDuo` asleep although worker 0 is done. -/
theorem fuelless_step_stays_asleep :
    (fun s : State => (pcIsDone (s.wd 0).pc, pcIsBounce ((resume gDuo s 1 ⟨none, 0⟩ 0).1.wd 1).pc))
      (I2N.Trav.GlobalN.runStepsN gDuo (initState gDuo 2 []) runOfGDuo) = (true, true) := by decide +kernel

/-- three workers of one swarm, one class with `max_tries = -1` (as `gNeg`) -/
def gNeg3 : Graph :=
  { workers := [{ id := "net1", swarm := "localhost" }, { id := "net2", swarm := "localhost" },
                { id := "net3", swarm := "localhost" }],
    nodes := [{ cls := 0, owner := none, name := "root", pfx := "0", sharedRoot := true,
                cleanup := [(1, ["vm1"]), (2, ["vm1"]), (3, ["vm1"])] },
              { cls := 1, owner := some 0, name := "leaf.net1", pfx := "1", setup := [(0, ["vm1"])], maxTries := some (-1) },
              { cls := 1, owner := some 1, name := "leaf.net2", pfx := "2", setup := [(0, ["vm1"])], maxTries := some (-1) },
              { cls := 1, owner := some 2, name := "leaf.net3", pfx := "3", setup := [(0, ["vm1"])], maxTries := some (-1) }],
    root := 0 }

/-- Witness that "the others are `done`" cannot be weakened to "the others are over" in `last_worker_terminates_partial`,
and that the `failed` alternative of `bounce_only_while_someone_runs` is needed: worker 0 dies after its test (mark returned),
worker 1 dies inside the run decision of its copy and keeps the mark (`dead_worker_keeps_mark`); worker 2 — the last one
alive — finds the class occupied and goes to sleep, with nobody left to wake it up. -/
theorem dead_holder_blocks_last_worker :
    (fun s : State => ((s.wd 0).pc.isFailed, (s.wd 1).pc.isFailed, (s.nd 2).started, pcIsBounce (s.wd 2).pc))
      (I2N.Trav.GlobalN.runStepsN gNeg3 (initState gNeg3 2 [])
        [(0, ⟨none, 0⟩, 144), (0, ⟨some "PASS", 1⟩, 144), (1, ⟨none, 0⟩, 144), (2, ⟨none, 0⟩, 144)]) =
      (true, true, some 1, true) := by decide +kernel

/-! ## One worker, object roots allowed (`Lemmas/TravGlobalR.lean`) -/

open I2N.Trav.Term I2N.Trav.Global I2N.Trav.GlobalR in
/-- **single_worker_terminates_roots_partial**: `single_worker_terminates_partial` without `noRootsB`.  The class
hypothesis becomes `classesOKRB g`: as `classesOKB`, and a class of setup tests may contain OBJECT ROOTS (two-step creation:
pre-step on a copy of the root's results, then the test proper) provided `max_tries` is unset or `≤ 1` and the name of the
creation pre-step is not counted by an observer that does not see the root (`statefulClassRoots`, the hypothesis of C03's
`budget_stateful_roots`).  Then after ANY `24·Σ_n max(max_tries n, 1) + 23` `resume` steps — whatever the tests and the
creation pre-steps do: pass, fail, never report — the only worker is `done` or `failed`.

Why: besides `Basic`, the run keeps `RInv`: `tagsBelow`/`tagsOnce` also for object roots (`RN`), and while the worker is
inside the pre-step of root `n` with placeholder tag `t` its copy is `results n ++ [placeholder t]` with every tag of
`results n` below `t` (`R3`; there is nobody else who could touch the root).  Hence settling a test proper keeps the number
of results also at a root, and a failed or never reported pre-step files exactly one result at the root
(`GlobalR.stepR`/`ShapeR`); the potential `24·#results + qR(pc)` — `qR(pre … wait) = 12 + wait`, `qR(test … wait) = wait`,
`qR(loop) = 11`, `qR(over) = 23` — grows with every step that does not end the traversal (`GlobalR.resume_cntR`), and
`#results ≤ Σ_n max(max_tries n, 1)` by the C03 budgets, roots included (`GlobalR.total_le_resultBoundR`).

MISSING for the full statement: object roots with `max_tries ≥ 2` (the C03 bound is FALSE there, `root_creation_hidden`) and
stateless object roots (no budget invariant); the other class hypotheses as before.  For several workers `RInv` would need
"an object root is cared for by one worker only" — not done. -/
theorem single_worker_terminates_roots_partial (g : Graph) (h1 : g.workers.length = 1) (hr : rankedB g = true)
    (hsym : edgeSymB g = true) (hflat : noFlatB g = true) (hwf : graphWF g = true) (ncls : Nat)
    (hcls : ∀ n, n < g.nodes.length → (g.node n).cls < ncls) (hcl : classesOKRB g = true)
    (store : List (String × List (String × String)))
    (steps : List (Outcome × Nat)) (hfuel : ∀ x ∈ steps, bound g ≤ x.2)
    (hlen : 24 * resultBound g + 23 ≤ steps.length) :
    ((runSteps g (initState g ncls store) steps).wd 0).pc = .done ∨
    ((runSteps g (initState g ncls store) steps).wd 0).pc = .failed := by
  have st : Static g ncls := ⟨h1, hr, hsym, hflat, hwf, hcls⟩
  have h := run_overR st hcl store steps hfuel hlen
  cases hpc : ((runSteps g (initState g ncls store) steps).wd 0).pc with
  | done => exact Or.inl rfl
  | failed => exact Or.inr rfl
  | test n ph dir uid tag wait => rw [hpc] at h; cases h
  | loop => rw [hpc] at h; cases h
  | bounce => rw [hpc] at h; cases h

/-- one worker; the shared root, an object root (vm creation, `max_tries` unset) and a leaf below it -/
def gRoot : Graph :=
  { workers := [{ id := "net1", swarm := "localhost" }],
    nodes := [{ cls := 0, owner := none, name := "all.internal.stateless.noop", pfx := "0", flat := true, sharedRoot := true,
                cleanup := [(1, ["vm1"])] },
              { cls := 1, owner := some 0, name := "all.root.vms.vm1.nets.localhost.net1", pfx := "1a1", objectRoot := true,
                sets := [("vm1", "root")], objs := ["vm1"], setup := [(0, ["vm1"])], cleanup := [(2, ["vm1"])] },
              { cls := 2, owner := some 0, name := "leaf.vm1.net1", pfx := "2", setup := [(1, ["vm1"])] }],
    root := 0 }

/-- `gRoot` meets the hypotheses of `single_worker_terminates_roots_partial` and NOT those of
`single_worker_terminates_partial` -/
example : gRoot.workers.length = 1 ∧ I2N.Trav.Term.rankedB gRoot = true ∧ edgeSymB gRoot = true ∧
    I2N.Trav.Term.noFlatB gRoot = true ∧ graphWF gRoot = true ∧ I2N.Trav.GlobalR.classesOKRB gRoot = true ∧
    I2N.Trav.Global.noRootsB gRoot = false ∧ I2N.Trav.Global.classesOKB gRoot = false ∧
    I2N.Trav.Term.bound gRoot = 82 ∧ I2N.Trav.Global.resultBound gRoot = 3 := by decide +kernel
def pcPreOf : Pc → Option (Nat × Nat)
  | .test n .pre _ _ _ wait => some (n, wait)
  | _ => none

/-- a run in which the creation pre-step of the root never reports: after the first step the worker is inside the pre-step
(working on a copy: the root has no result yet), after ten ticks still so.
(What follows was checked with `#eval` only: with the twelfth step the placeholder itself is filed at the root and the leaf is
started, the leaf passes and the worker is `done` after 13 steps; when the pre-step reports PASS / FAIL the root ends with the
results `["PASS"]` / `["FAIL"]` and the worker is `done` after 4 / 3 steps.  These cannot be `decide`d: the name of the
pre-step is built with `String.splitOn`, which the kernel does not evaluate, and it is compared as soon as a result is looked
up or counted.) -/
example :
    (fun s : State => (pcPreOf (s.wd 0).pc, (s.nd 1).results.length, (s.wd 0).preResults.length))
      (I2N.Trav.Global.runSteps gRoot (initState gRoot 3 []) [(⟨none, 0⟩, 82)]) = (some (1, 0), 0, 1) ∧
    (fun s : State => (pcPreOf (s.wd 0).pc, (s.nd 1).results.length))
      (I2N.Trav.Global.runSteps gRoot (initState gRoot 3 []) (List.replicate 11 (⟨none, 0⟩, 82))) = (some (1, 10), 0) := by
  decide +kernel
example := single_worker_terminates_roots_partial gRoot (by decide) (by decide) (by decide) (by decide) (by decide) 3
  (by decide) (by decide +kernel) [] (List.replicate 95 (⟨none, 0⟩, 82))
  (fun x hx => by rw [List.eq_of_mem_replicate hx]; decide) (by rw [List.length_replicate]; decide)

/-! ## Several workers, FAIR scheduler: the whole traversal terminates (`Lemmas/TravFair.lean`)

Scheduler view as above (`GlobalN.StepN`, `GlobalN.runStepsN`).  `Fair.FairW g K s steps`: every `K` consecutive steps of the
run resume every real worker whose traversal is not over at the beginning of those `K` steps (an inductive predicate over
the list of resumes; decidable).  `Fair.BumpFree g s steps`: no step of the run raises a `max_concurrent_tries` counter
(weaker than `GlobalN.Patient`, which implies it — `Fair.bumpFree_of_patient` —, and observable in the states of the run:
`Fair.bumpFreeB`).  `Fair.Alive g s`: some real worker is not over and no real worker is `failed`. -/

open I2N.Trav.Term I2N.Trav.Global I2N.Trav.GlobalN I2N.Trav.Fair in
/-- **fair_window_has_progress** (the bounded-bounces-between-progress lemma).  Static hypotheses of
`nonbounce_steps_bounded_partial` without the class hypotheses; `pre` any admissible run from the initial state, `win` any
further steps.  If nobody is dead and somebody is not over after `pre`, and `win` resumes every worker that is not over
after `pre` at least once, then `win` contains a PRODUCTIVE step (a step inside a test, or a step from the loop / a
back-off sleep that does not end in a back-off sleep).  Hence under fairness with window `K` at most `K - 1` consecutive
steps are back-off steps or no-ops of finished workers.
Why: if some worker is inside a test, its first step in `win` is productive; otherwise steps of finished workers change
nothing, and the first step of a worker that is not over finds no `started` mark (`bounce_only_while_someone_runs`), so it
does not end asleep.  "Nobody is dead" cannot be dropped: `dead_holder_blocks_last_worker`. -/
theorem fair_window_has_progress (g : Graph) (hr : rankedB g = true) (hsym : edgeSymB g = true)
    (hflat : noFlatB g = true) (hwf : graphWF g = true) (ncls : Nat)
    (hcls : ∀ n, n < g.nodes.length → (g.node n).cls < ncls)
    (store : List (String × List (String × String))) (pre win : List StepN)
    (hreal : ∀ x ∈ pre ++ win, x.1 < g.workers.length) (hfuel : ∀ x ∈ pre ++ win, bound g ≤ x.2.2)
    (hcalm : BumpFree g (initState g ncls store) (pre ++ win))
    (hcov : ∀ v, v < g.workers.length → isOver ((runStepsN g (initState g ncls store) pre).wd v).pc = false →
      v ∈ win.map (·.1))
    (halive : Alive g (runStepsN g (initState g ncls store) pre)) :
    1 ≤ productiveSteps g (runStepsN g (initState g ncls store) pre) win := by
  have st : StaticN g ncls := ⟨hr, hsym, hflat, hwf, hcls⟩
  obtain ⟨ok1, ok2⟩ := runOK_append g pre win _ (runOK_of g _ _ hreal hfuel hcalm)
  exact window_productive st _ (ginvN_run st pre _ (ginvN_init g ncls store) ok1) win ok2 hcov halive

open I2N.Trav.Term I2N.Trav.Global I2N.Trav.GlobalN I2N.Trav.Fair in
/-- **multi_worker_terminates_fair** (`_partial`: class hypotheses, no bump).  Pre-parsed acyclic graph, ANY number of
workers, any outcomes (any status, results that never arrive, any duration), steps of real workers with `fuel ≥ bound g`;
`noRootsB`, `classesOKB` as in `nonbounce_steps_bounded_partial`; no step raises a `max_concurrent_tries` (`BumpFree`); the
run is FAIR with window `K ≥ 1` (`FairW`: every `K` consecutive resumes resume every worker that is not over).  Then after
ANY such run of at least `(24·Σ_n max(max_tries n, 1) + |workers| + 1)·K` resumes every worker is `done` — or some worker is
`failed` (in the code the exception of one worker ends the whole run through `asyncio.gather`).

Why: the number of productive steps is at most `24·Σ_n max(max_tries n, 1) + |workers|` (`Fair.productive_le_run`, the
counter of `nonbounce_steps_bounded_partial`), and every window of `K` steps that ends with somebody not over and nobody
dead contains one (`fair_window_has_progress`); being over and being dead are absorbing.

Hypotheses: `FairW` cannot be dropped — a scheduler that never resumes the worker inside the test lets the other one sleep
again and again, each step `bounce → bounce` (not `decide`d: the second sleep at one node evaluates a `Float` comparison,
which the kernel cannot); the `failed` alternative cannot be dropped (`dead_holder_blocks_last_worker`: a dead worker
keeps its mark and the survivors sleep for ever under every fair schedule); `0 < K` is technical (`window_zero_is_vacuous`:
with `K = 0` the empty run is fair and long enough).  MISSING for the full statement: as for
`nonbounce_steps_bounded_partial` — object roots, the class hypotheses, and `BumpFree` (after a bump the C03 budget grows). -/
theorem multi_worker_terminates_fair_partial (g : Graph) (hr : rankedB g = true) (hsym : edgeSymB g = true)
    (hflat : noFlatB g = true) (hwf : graphWF g = true) (ncls : Nat)
    (hcls : ∀ n, n < g.nodes.length → (g.node n).cls < ncls) (hroots : noRootsB g = true) (hcl : classesOKB g = true)
    (store : List (String × List (String × String))) (K : Nat) (hK : 0 < K) (steps : List StepN)
    (hreal : ∀ x ∈ steps, x.1 < g.workers.length) (hfuel : ∀ x ∈ steps, bound g ≤ x.2.2)
    (hcalm : BumpFree g (initState g ncls store) steps) (hfair : FairW g K (initState g ncls store) steps)
    (hlen : (24 * resultBound g + g.workers.length + 1) * K ≤ steps.length) :
    (∀ v, v < g.workers.length → ((runStepsN g (initState g ncls store) steps).wd v).pc = .done) ∨
    (∃ v, v < g.workers.length ∧ ((runStepsN g (initState g ncls store) steps).wd v).pc = .failed) :=
  not_alive (fair_run_over ⟨hr, hsym, hflat, hwf, hcls⟩ hroots hcl store K hK steps
    (runOK_of g _ _ hreal hfuel hcalm) hfair hlen)

/-- `runOfGDuo` (worker 0 starts, worker 1 bounces off the occupied class, worker 0 passes and leaves), then worker 1 wakes
up and leaves through the shared root, then 146 resumes of the finished worker 0: 150 steps -/
def fairRunOfGDuo : List I2N.Trav.GlobalN.StepN :=
  runOfGDuo ++ [(1, ⟨none, 0⟩, 82)] ++ List.replicate 146 (0, ⟨none, 0⟩, 82)

/-- non-vacuity: the run is fair with window 2, bumps nothing, contains a back-off step, and has the
`(24·3 + 2 + 1)·2 = 150` steps the theorem asks for -/
example : I2N.Trav.Fair.FairW gDuo 2 (initState gDuo 2 []) fairRunOfGDuo ∧
    I2N.Trav.Fair.bumpFreeB gDuo (initState gDuo 2 []) fairRunOfGDuo = true ∧
    fairRunOfGDuo.length = 150 ∧
    pcIsBounce ((I2N.Trav.GlobalN.runStepsN gDuo (initState gDuo 2 []) (fairRunOfGDuo.take 2)).wd 1).pc = true := by
  decide +kernel
example := multi_worker_terminates_fair_partial gDuo (by decide) (by decide) (by decide) (by decide) 2 (by decide)
  (by decide) (by decide +kernel) [] 2 (by decide) fairRunOfGDuo (by decide +kernel) (by decide +kernel)
  (I2N.Trav.Fair.bumpFree_of_B _ _ _ (by decide +kernel)) (by decide +kernel) (by decide +kernel)
example : pcIsDone ((I2N.Trav.GlobalN.runStepsN gDuo (initState gDuo 2 []) fairRunOfGDuo).wd 0).pc = true ∧
    pcIsDone ((I2N.Trav.GlobalN.runStepsN gDuo (initState gDuo 2 []) fairRunOfGDuo).wd 1).pc = true := by decide +kernel

/-- Witness that `0 < K` cannot be dropped from `multi_worker_terminates_fair_partial`: with `K = 0` the empty run is fair
and long enough, and nobody has moved. -/
theorem window_zero_is_vacuous :
    I2N.Trav.Fair.FairW gDuo 0 (initState gDuo 2 []) [] ∧
    (24 * I2N.Trav.Global.resultBound gDuo + gDuo.workers.length + 1) * 0 ≤ ([] : List I2N.Trav.GlobalN.StepN).length ∧
    pcIsDone ((I2N.Trav.GlobalN.runStepsN gDuo (initState gDuo 2 []) []).wd 0).pc = false := by decide +kernel

/-! ### the same with a virtual clock instead of windows

`Fair.Timed g q T wake s steps` (an inductive predicate over the list of resumes; decidable): the event-driven scheduler of
`asyncio` under virtual time.  `wake v` = the time at which worker `v` is due; every entry of the run is a resume
`(worker, outcome, fuel)` together with the duration `d` of the suspension the step ENDS in; the resumed worker is not over
and is due first among the workers that are not over (ties: any); a step that ends in the back-off sleep has `q ≤ d` (the
code sleeps `max(timeout·max_tries/1000, 0.1)` s: `q = 10` hundredths); a step that ends inside a test — start of a test or
of a creation pre-step, a tick of the result wait — has `d ≤ T` (every started test ends, with any status or none, and the
task returns within `T`; the ticks sleep 30 s); afterwards `wake w := wake w + d`. -/

open I2N.Trav.Term I2N.Trav.Global I2N.Trav.GlobalN I2N.Trav.Fair in
/-- **timed_bounces_bounded**: along every timed run from the initial state (static hypotheses of
`fair_window_has_progress`, `0 < q`), every stretch of `|workers|·(T/q + 1) + 1` consecutive resumes that ends with somebody
not over and nobody dead contains a productive step (`Fair.Lively`): at most `|workers|·(T/q + 1)` consecutive resumes are
back-off steps.
Why: if nobody is inside a test the next resume does not end asleep (`bounce_only_while_someone_runs`).  Otherwise let `v`
be inside a test: `wake v ≤ wake u + T` for every `u` that is not over (invariant `Fair.Due`: `v` was due first when it
started and the clock of the others only advances); a worker `u` is resumed only while `wake u ≤ wake v`, and every back-off
step adds at least `q` to `wake u`, so `Σ_u ⌊(wake v + q − wake u)/q⌋ ≤ |workers|·(T/q + 1)` falls with every back-off
step (`Fair.backoff_stretch_le`), and the resume of `v` itself is productive. -/
theorem timed_bounces_bounded (g : Graph) (hr : rankedB g = true) (hsym : edgeSymB g = true)
    (hflat : noFlatB g = true) (hwf : graphWF g = true) (ncls : Nat)
    (hcls : ∀ n, n < g.nodes.length → (g.node n).cls < ncls)
    (store : List (String × List (String × String))) (q T : Nat) (hq : 0 < q) (wake : Nat → Nat) (steps : List TStepN)
    (hreal : ∀ x ∈ steps.map (·.1), x.1 < g.workers.length) (hfuel : ∀ x ∈ steps.map (·.1), bound g ≤ x.2.2)
    (hcalm : BumpFree g (initState g ncls store) (steps.map (·.1)))
    (ht : Timed g q T wake (initState g ncls store) steps) :
    Lively g (g.workers.length * (T / q + 1) + 1) (initState g ncls store) (steps.map (·.1)) := by
  have hd : Due g T wake (initState g ncls store []) := by
    intro v u _ _ htv _
    rw [init_pc] at htv; cases htv
  exact timed_lively ⟨hr, hsym, hflat, hwf, hcls⟩ q T hq steps wake _ (ginvN_init g ncls store)
    (runOK_of g _ _ hreal hfuel hcalm) ht hd

open I2N.Trav.Term I2N.Trav.Global I2N.Trav.GlobalN I2N.Trav.Fair in
/-- **multi_worker_terminates_timed** (`_partial`: class hypotheses, no bump).  Hypotheses of
`multi_worker_terminates_fair_partial` with the clock (`Timed`, back-off sleeps of at least `q > 0`, every suspension inside
a test of at most `T`) in place of the windows.  Then a run after which somebody is not over and nobody is dead has FEWER
than `(24·Σ_n max(max_tries n, 1) + |workers| + 1)·(|workers|·(T/q + 1) + 1)` resumes — within that many resumes every
worker is `done`, or some worker is `failed`.  (Stated in this form because a timed run does not resume finished workers:
it cannot be longer once everybody is over.)
`0 < q` cannot be dropped: with sleeps of no duration a worker is due again at once and bounces any number of times at one
virtual instant while the test of the other is pending (not `decide`d: the second sleep at one node evaluates a `Float`
comparison); `T` bounds the time a started test and each tick of the result wait take — without it the waiting workers
sleep unboundedly often.  MISSING: as for `multi_worker_terminates_fair_partial`. -/
theorem multi_worker_terminates_timed_partial (g : Graph) (hr : rankedB g = true) (hsym : edgeSymB g = true)
    (hflat : noFlatB g = true) (hwf : graphWF g = true) (ncls : Nat)
    (hcls : ∀ n, n < g.nodes.length → (g.node n).cls < ncls) (hroots : noRootsB g = true) (hcl : classesOKB g = true)
    (store : List (String × List (String × String))) (q T : Nat) (hq : 0 < q) (wake : Nat → Nat) (steps : List TStepN)
    (hreal : ∀ x ∈ steps.map (·.1), x.1 < g.workers.length) (hfuel : ∀ x ∈ steps.map (·.1), bound g ≤ x.2.2)
    (hcalm : BumpFree g (initState g ncls store) (steps.map (·.1)))
    (ht : Timed g q T wake (initState g ncls store) steps)
    (halive : Alive g (runStepsN g (initState g ncls store) (steps.map (·.1)))) :
    steps.length < (24 * resultBound g + g.workers.length + 1) * (g.workers.length * (T / q + 1) + 1) := by
  apply Nat.lt_of_not_le
  intro hlen
  exact timed_run_over ⟨hr, hsym, hflat, hwf, hcls⟩ hroots hcl store q T hq wake steps
    (runOK_of g _ _ hreal hfuel hcalm) ht hlen halive

/-- `gDuo` under the clock: worker 0 starts its test at time 0 (it takes 0.1 s), worker 1 finds the class occupied and sleeps
0.1 s; both are due at 0.1 s: worker 0 passes and leaves, worker 1 wakes up and leaves -/
def timedRunOfGDuo : List I2N.Trav.Fair.TStepN :=
  [((0, ⟨none, 0⟩, 82), 10), ((1, ⟨none, 0⟩, 82), 10), ((0, ⟨some "PASS", 1⟩, 82), 0), ((1, ⟨none, 0⟩, 82), 0)]

/-- non-vacuity: the run is timed with `q = T = 10` (hundredths of a second), bumps nothing, its second step is a back-off
step, after two steps somebody is not over and nobody is dead, and it ends with both workers done -/
example : I2N.Trav.Fair.Timed gDuo 10 10 (fun _ => 0) (initState gDuo 2 []) timedRunOfGDuo ∧
    I2N.Trav.Fair.bumpFreeB gDuo (initState gDuo 2 []) (timedRunOfGDuo.map (·.1)) = true ∧
    pcIsBounce ((I2N.Trav.GlobalN.runStepsN gDuo (initState gDuo 2 []) ((timedRunOfGDuo.take 2).map (·.1))).wd 1).pc = true ∧
    pcIsDone ((I2N.Trav.GlobalN.runStepsN gDuo (initState gDuo 2 []) (timedRunOfGDuo.map (·.1))).wd 0).pc = true ∧
    pcIsDone ((I2N.Trav.GlobalN.runStepsN gDuo (initState gDuo 2 []) (timedRunOfGDuo.map (·.1))).wd 1).pc = true := by
  decide +kernel
theorem gDuo_alive_after_two : I2N.Trav.Fair.Alive gDuo
    (I2N.Trav.GlobalN.runStepsN gDuo (initState gDuo 2 []) ((timedRunOfGDuo.take 2).map (·.1))) := by
  refine ⟨⟨0, by decide, by decide +kernel⟩, fun v hv => ?_⟩
  have hv2 : v < 2 := hv
  have h : ∀ u, u < 2 → ((I2N.Trav.GlobalN.runStepsN gDuo (initState gDuo 2 [])
      ((timedRunOfGDuo.take 2).map (·.1))).wd u).pc.isFailed = false := by decide +kernel
  intro e
  have := h v hv2
  rw [e] at this
  cases this
example := timed_bounces_bounded gDuo (by decide) (by decide) (by decide) (by decide) 2 (by decide) [] 10 10 (by decide)
  (fun _ => 0) timedRunOfGDuo (by decide +kernel) (by decide +kernel)
  (I2N.Trav.Fair.bumpFree_of_B _ _ _ (by decide +kernel)) (by decide +kernel)
example := multi_worker_terminates_timed_partial gDuo (by decide) (by decide) (by decide) (by decide) 2 (by decide)
  (by decide) (by decide +kernel) [] 10 10 (by decide) (fun _ => 0) (timedRunOfGDuo.take 2) (by decide +kernel)
  (by decide +kernel) (I2N.Trav.Fair.bumpFree_of_B _ _ _ (by decide +kernel)) (by decide +kernel) gDuo_alive_after_two

open I2N.Trav.Fair in
/-- **backoff_sleeps_a_tenth**: the clock hypothesis `q ≤ d` of `Timed` with `q = 10` (hundredths of a second) is what the
model announces.  Any graph with edges recorded at both ends (lazily expanded ones included), any reachable state, any real
worker, positive fuel: if the step ENDS in the back-off sleep, the LAST event it emits is `Event.sleep <worker id> k` with
`k ≥ 10` — the `asyncio.sleep(round(max(timeout·max_tries/1000, 0.1), 2))` of the back-off branch; whatever the step did
before (settle a test, walk, clean up), nothing is emitted after it.  One more walk through `iter`, `iterL`, `runLoop`,
`continueAfter`, `resumeTest`, `resume` (`Fair.resume_sleep`). -/
theorem backoff_sleeps_a_tenth (g : Graph) (hsym : EdgeSym g) (ncls : Nat)
    (store : List (String × List (String × String))) (s : State) (h : ReachableF g ncls store s) (w : Nat)
    (hw : w < g.workers.length) (out : Outcome) (fuel : Nat) (hf : 0 < fuel)
    (hb : ((resume g s w out fuel).1.wd w).pc = .bounce) :
    ∃ k, 10 ≤ k ∧ (resume g s w out fuel).2.getLast? = some (Event.sleep (g.worker w).id k) :=
  resume_sleep g hsym s w out fuel hf hw (h.pinv hsym) hb

/-- non-vacuity: the step of worker 1 in `runOfGDuo` ends asleep; the sleep it announces -/
example := backoff_sleeps_a_tenth gDuo (edgeSymB_sound (by decide)) 2 []
  (I2N.Trav.GlobalN.runStepsN gDuo (initState gDuo 2 []) (runOfGDuo.take 1))
  (.step _ 0 ⟨none, 0⟩ 82 (.init []) (by decide) (by decide)) 1 (by decide) ⟨none, 0⟩ 82 (by decide)
  (by
    have h : pcIsBounce ((resume gDuo (I2N.Trav.GlobalN.runStepsN gDuo (initState gDuo 2 []) (runOfGDuo.take 1)) 1
        ⟨none, 0⟩ 82).1.wd 1).pc = true := by decide +kernel
    cases hpc : ((resume gDuo (I2N.Trav.GlobalN.runStepsN gDuo (initState gDuo 2 []) (runOfGDuo.take 1)) 1
        ⟨none, 0⟩ 82).1.wd 1).pc <;> rw [hpc] at h <;> first | rfl | cases h)
example : (resume gDuo (I2N.Trav.GlobalN.runStepsN gDuo (initState gDuo 2 []) (runOfGDuo.take 1)) 1
    ⟨none, 0⟩ 82).2.getLast? = some (Event.sleep "net2" 10) := by decide +kernel

-- ==== pxterm2 ====
/-! ## Several workers: object roots, bumps of `max_concurrent_tries`, the sleeps of the result wait (`Lemmas/TravFair2.lean`)

Scheduler view and notions of fairness as in the previous section (`Fair.FairW`, `Fair.Timed`, `Fair.Alive`).  The
development of `TravFair2` does not use `NoBump`: a bound on the number of results is needed at the END of the run only. -/

open I2N.Trav.Term I2N.Trav.Global I2N.Trav.GlobalN I2N.Trav.GlobalR I2N.Trav.Fair I2N.Trav.Fair2 in
/-- **multi_worker_terminates_fair_roots** (`_partial`: class hypotheses, no bump).  `multi_worker_terminates_fair_partial`
WITHOUT `noRootsB`: pre-parsed acyclic graph, ANY number of workers, any outcomes; the class hypothesis is `classesOKRB g` of
`single_worker_terminates_roots_partial` (setup classes may contain OBJECT ROOTS with `max_tries ≤ 1`, the hypothesis of
C03's `budget_stateful_roots`); no step raises a `max_concurrent_tries`; the run is fair with window `K ≥ 1`.  Then after
ANY such run of at least `(24·Σ_n max(max_tries n, 1) + 12·|workers| + 1)·K` resumes every worker is `done`, or some worker is
`failed`.

Why: `Fair2.RInvN` — `RInv` of the one-worker theorem for EVERY worker: while `w` is inside the creation pre-step of root
`n` its copy is `results n ++ [placeholder]`.  A step of `v` changes the results of an object root only from inside a test
of that root (`Fair2.resume_root_results`), a worker inside a test of `n` cares for `n` (`PInv.testOwn`), and under
`classesOKRB` an object root is cared for by one worker (`Fair2.rootsOwned_of_classesOKRB`: `BClass.uniq`; stateless classes
have no roots) — so the steps of the others leave `w`'s copy consistent.  Hence every step has the shape `GlobalR.ShapeR`,
the counter `24·#results + Σ_v qR(pc v)` never falls and grows with every productive step (`Fair2.step_cntRN`),
`#results ≤ Σ_n max(max_tries n, 1)` (`GlobalR.total_le_resultBoundR`, stated for any number of workers), and the
composition with fairness is that of `Lemmas/TravFair.lean`, re-proved without `NoBump` (`Fair2.fair_lively2`).
MISSING for the full statement: object roots with `max_tries ≥ 2` or in stateless classes, the other class hypotheses,
lazily expanded graphs; for runs WITH bumps see `multi_worker_terminates_fair_bumps_partial`. -/
theorem multi_worker_terminates_fair_roots_partial (g : Graph) (hr : rankedB g = true) (hsym : edgeSymB g = true)
    (hflat : noFlatB g = true) (hwf : graphWF g = true) (ncls : Nat)
    (hcls : ∀ n, n < g.nodes.length → (g.node n).cls < ncls) (hcl : classesOKRB g = true)
    (store : List (String × List (String × String))) (K : Nat) (hK : 0 < K) (steps : List StepN)
    (hreal : ∀ x ∈ steps, x.1 < g.workers.length) (hfuel : ∀ x ∈ steps, bound g ≤ x.2.2)
    (hcalm : BumpFree g (initState g ncls store) steps) (hfair : FairW g K (initState g ncls store) steps)
    (hlen : (24 * resultBound g + 12 * g.workers.length + 1) * K ≤ steps.length) :
    (∀ v, v < g.workers.length → ((runStepsN g (initState g ncls store) steps).wd v).pc = .done) ∨
    (∃ v, v < g.workers.length ∧ ((runStepsN g (initState g ncls store) steps).wd v).pc = .failed) :=
  not_alive (fair_run_over_roots ⟨hr, hsym, hflat, hwf, hcls⟩ hcl store K hK steps
    (runOK2_of g _ hreal hfuel) hcalm hfair hlen)

open I2N.Trav.Term I2N.Trav.Global I2N.Trav.GlobalN I2N.Trav.GlobalR I2N.Trav.Fair I2N.Trav.Fair2 in
/-- **multi_worker_terminates_timed_roots** (`_partial`): the same with the virtual clock — a timed run (`Timed`, `0 < q`)
without bumps, object roots allowed (`classesOKRB`), after which somebody is not over and nobody is dead has FEWER than
`(24·Σ_n max(max_tries n, 1) + 12·|workers| + 1)·(|workers|·(T/q + 1) + 1)` resumes. -/
theorem multi_worker_terminates_timed_roots_partial (g : Graph) (hr : rankedB g = true) (hsym : edgeSymB g = true)
    (hflat : noFlatB g = true) (hwf : graphWF g = true) (ncls : Nat)
    (hcls : ∀ n, n < g.nodes.length → (g.node n).cls < ncls) (hcl : classesOKRB g = true)
    (store : List (String × List (String × String))) (q T : Nat) (hq : 0 < q) (wake : Nat → Nat) (steps : List TStepN)
    (hreal : ∀ x ∈ steps.map (·.1), x.1 < g.workers.length) (hfuel : ∀ x ∈ steps.map (·.1), bound g ≤ x.2.2)
    (hcalm : BumpFree g (initState g ncls store) (steps.map (·.1)))
    (ht : Timed g q T wake (initState g ncls store) steps)
    (halive : Alive g (runStepsN g (initState g ncls store) (steps.map (·.1)))) :
    steps.length < (24 * resultBound g + 12 * g.workers.length + 1) * (g.workers.length * (T / q + 1) + 1) := by
  apply Nat.lt_of_not_le
  intro hlen
  exact timed_run_over_roots ⟨hr, hsym, hflat, hwf, hcls⟩ hcl store q T hq wake steps
    (runOK2_of g _ hreal hfuel) hcalm ht hlen halive

open I2N.Trav.Fair2 in
/-- **bumps_bounded**: the total number of bumps of a run is bounded by the static graph.  Any graph with edges recorded at
both ends (lazily expanded ones included), any reachable state (any interleaving of steps of real workers with positive
fuel, any outcomes, no patience assumed): the bump counter of copy `i` — how often `max_concurrent_tries` was incremented on
it — is at most `max(1, |workers| + 1 - max_concurrent_tries₀ i)`, `max_concurrent_tries₀` = the configured value or 0.
Why: a bump happens in the back-off branch only, i.e. at an occupied copy: at least `max(mctOf i, 1)` DIFFERENT workers
of the scope hold a `started` mark of the class (`is_started` with a threshold), all of them real workers other than the
bouncing one (`PInvO.markPc`; for the scope shape `own` the copy would have to be marked by the bouncing worker itself:
impossible); after the first bump `mctOf i = max_concurrent_tries₀ + bump`, so a further bump needs
`max_concurrent_tries₀ + bump ≤ |workers|`.  (The first bump may LOWER the threshold — `max_concurrent_tries` unset and
`max_tries > 1`: `get_numeric("max_concurrent_tries", 0) + 1` — which is why the count starts at 1.)
Note on the code (`cartgraph/graph.py`, back-off branch of `traverse_object_trees`): `occupied_wait` is reset only when the
worker bounces at a node it has not bounced at before and `occupied_at` is never cleared, so once a worker has over-waited,
EVERY later bounce at a known node bumps that node — the bound above is what stops this, not the waiting time. -/
theorem bumps_bounded (g : Graph) (hsym : EdgeSym g) (ncls : Nat) (store : List (String × List (String × String)))
    (s : State) (h : ReachableF g ncls store s) (i : Nat) :
    (s.nd i).bump ≤ max 1 ((g.workers.length : Int) + 1 - (g.node i).mct.getD 0).toNat :=
  reachable_bcap hsym h i

open I2N.Trav.Term I2N.Trav.Global I2N.Trav.GlobalN I2N.Trav.GlobalR I2N.Trav.Fair I2N.Trav.Fair2 in
/-- **multi_worker_terminates_fair_bumps** (`_partial`: class hypotheses only — `BumpFree` is DROPPED).  Hypotheses of
`multi_worker_terminates_fair_roots_partial` without `BumpFree`: workers may over-wait and raise `max_concurrent_tries` as
the code does.  After ANY fair run of at least `(24·B + 12·|workers| + 1)·K` resumes, where
`B = Σ_n max(max(max_tries n, 1) + 1, |workers| + 1)` (`Fair2.resultBoundB`), every worker is `done`, or some worker is
`failed`.  In particular a run with an overrunning test (a test that takes longer than `timeout·max_tries`, the case the
bump is made for) terminates in the model.
Why: the C03 budget of a setup class is `max(max(max_tries, 1), classLimit)`, `classLimit` = the largest threshold that has
been in force on a copy of the class; by `bumps_bounded` and `mctWithin` (`max_concurrent_tries₀ ≤ max(max_tries, 1)`) it is at
most `max(max(max_tries, 1) + 1, |workers| + 1)` (`Fair2.classLimit_le_of_bcap`); stateless classes keep their budget
`max(max_tries, 1)` whatever is bumped.  Everything else as in `multi_worker_terminates_fair_roots_partial`.
MISSING: as there (class hypotheses; object roots with `max_tries ≥ 2`; lazily expanded graphs). -/
theorem multi_worker_terminates_fair_bumps_partial (g : Graph) (hr : rankedB g = true) (hsym : edgeSymB g = true)
    (hflat : noFlatB g = true) (hwf : graphWF g = true) (ncls : Nat)
    (hcls : ∀ n, n < g.nodes.length → (g.node n).cls < ncls) (hcl : classesOKRB g = true)
    (store : List (String × List (String × String))) (K : Nat) (hK : 0 < K) (steps : List StepN)
    (hreal : ∀ x ∈ steps, x.1 < g.workers.length) (hfuel : ∀ x ∈ steps, bound g ≤ x.2.2)
    (hfair : FairW g K (initState g ncls store) steps)
    (hlen : (24 * resultBoundB g + 12 * g.workers.length + 1) * K ≤ steps.length) :
    (∀ v, v < g.workers.length → ((runStepsN g (initState g ncls store) steps).wd v).pc = .done) ∨
    (∃ v, v < g.workers.length ∧ ((runStepsN g (initState g ncls store) steps).wd v).pc = .failed) :=
  not_alive (fair_run_over_bumps ⟨hr, hsym, hflat, hwf, hcls⟩ hcl store K hK steps
    (runOK2_of g _ hreal hfuel) hfair hlen)

open I2N.Trav.Term I2N.Trav.Global I2N.Trav.GlobalN I2N.Trav.GlobalR I2N.Trav.Fair I2N.Trav.Fair2 in
/-- **multi_worker_terminates_timed_bumps** (`_partial`: class hypotheses only): the clock version without `BumpFree` — a
timed run after which somebody is not over and nobody is dead has FEWER than
`(24·B + 12·|workers| + 1)·(|workers|·(T/q + 1) + 1)` resumes, `B = Fair2.resultBoundB g`.  This is the statement that covers
the runs in which bumps really happen: under the clock a worker over-waits after about a thousand sleeps at one node. -/
theorem multi_worker_terminates_timed_bumps_partial (g : Graph) (hr : rankedB g = true) (hsym : edgeSymB g = true)
    (hflat : noFlatB g = true) (hwf : graphWF g = true) (ncls : Nat)
    (hcls : ∀ n, n < g.nodes.length → (g.node n).cls < ncls) (hcl : classesOKRB g = true)
    (store : List (String × List (String × String))) (q T : Nat) (hq : 0 < q) (wake : Nat → Nat) (steps : List TStepN)
    (hreal : ∀ x ∈ steps.map (·.1), x.1 < g.workers.length) (hfuel : ∀ x ∈ steps.map (·.1), bound g ≤ x.2.2)
    (ht : Timed g q T wake (initState g ncls store) steps)
    (halive : Alive g (runStepsN g (initState g ncls store) (steps.map (·.1)))) :
    steps.length < (24 * resultBoundB g + 12 * g.workers.length + 1) * (g.workers.length * (T / q + 1) + 1) := by
  apply Nat.lt_of_not_le
  intro hlen
  exact timed_run_over_bumps ⟨hr, hsym, hflat, hwf, hcls⟩ hcl store q T hq wake steps
    (runOK2_of g _ hreal hfuel) ht hlen halive

open I2N.Trav.Fair2 in
/-- **result_wait_sleeps_thirty_seconds**: the part of `T` (the bound of `Timed` on a suspension inside a test) that is the
model's own.  Any graph (`graphWF`), any reachable state, real worker, positive fuel: if the step ENDS inside a test with
wait counter `wait' ≠ 0`, then it was a tick of the result wait of the SAME test (same node, same placeholder tag; the
counter was `wait' - 1` before), `wait' ≤ 10`, and the LAST event of the step is `Event.sleep <worker id> 3000`
(`asyncio.sleep(30)`, hundredths of a second).  Every other step that ends inside a test has just started it (counter 0:
`Global.startFrom_pc`).  So a test is suspended once for its own duration — the only assumption left in `T` — and then at
most ten times for exactly the 30 s the model announces: `T = max(duration of a test, 3000)`. -/
theorem result_wait_sleeps_thirty_seconds (g : Graph) (hwf : graphWF g = true) (ncls : Nat)
    (store : List (String × List (String × String))) (s : State) (h : ReachableR g ncls store s) (w : Nat)
    (hw : w < g.workers.length) (out : Outcome) (fuel : Nat) (hf : 0 < fuel)
    (n' : Nat) (ph' : Phase) (dir' : Dir) (uid' : String) (tag' wait' : Nat)
    (hpc : ((resume g s w out fuel).1.wd w).pc = .test n' ph' dir' uid' tag' wait') (hne : wait' ≠ 0) :
    (resume g s w out fuel).2.getLast? = some (Event.sleep (g.worker w).id 3000) ∧ wait' ≤ 10 ∧
      ∃ ph dir uid wait, (s.wd w).pc = .test n' ph dir uid tag' wait ∧ wait' = wait + 1 :=
  have b := h.basic hwf
  resume_tick_sleep g (GraphWF.of_bool hwf) s w out fuel hf (by rw [b.workersLen]; exact hw) (b.paths w) hpc hne

/-- two workers of one swarm; the shared root, an object root (vm creation) per worker — one class, scope shape global — and
a leaf per worker below its root -/
def gRoot2 : Graph :=
  { workers := [{ id := "net1", swarm := "localhost" }, { id := "net2", swarm := "localhost" }],
    nodes := [{ cls := 0, owner := none, name := "all.internal.stateless.noop", pfx := "0", flat := true, sharedRoot := true,
                cleanup := [(1, ["vm1"]), (2, ["vm1"])] },
              { cls := 1, owner := some 0, name := "all.root.vms.vm1.nets.localhost.net1", pfx := "1a1", objectRoot := true,
                sets := [("vm1", "root")], objs := ["vm1"], setup := [(0, ["vm1"])], cleanup := [(3, ["vm1"])] },
              { cls := 1, owner := some 1, name := "all.root.vms.vm1.nets.localhost.net2", pfx := "1a2", objectRoot := true,
                sets := [("vm1", "root")], objs := ["vm1"], setup := [(0, ["vm1"])], cleanup := [(4, ["vm1"])] },
              { cls := 2, owner := some 0, name := "leaf.vm1.net1", pfx := "2", setup := [(1, ["vm1"])] },
              { cls := 2, owner := some 1, name := "leaf.vm1.net2", pfx := "3", setup := [(2, ["vm1"])] }],
    root := 0 }

/-- `gRoot2` meets the static hypotheses of the theorems of this section and NOT `noRootsB` -/
example : I2N.Trav.Term.rankedB gRoot2 = true ∧ edgeSymB gRoot2 = true ∧ I2N.Trav.Term.noFlatB gRoot2 = true ∧
    graphWF gRoot2 = true ∧ I2N.Trav.GlobalR.classesOKRB gRoot2 = true ∧ I2N.Trav.Global.noRootsB gRoot2 = false ∧
    I2N.Trav.Term.bound gRoot2 = 222 ∧ I2N.Trav.Global.resultBound gRoot2 = 5 ∧
    I2N.Trav.Fair2.resultBoundB gRoot2 = 15 := by decide +kernel

/-- worker 0 enters the creation pre-step of its root at time 0, worker 1 finds the class of the roots occupied and sleeps
0.1 s, then worker 0 ticks (the pre-step has not reported; the tick sleeps 30 s).  The run stops there: the next resume would
be a second sleep of worker 1, which evaluates a `Float` comparison the kernel cannot decide -/
def timedRunOfGRoot2 : List I2N.Trav.Fair.TStepN :=
  [((0, ⟨none, 0⟩, 222), 10), ((1, ⟨none, 0⟩, 222), 10), ((0, ⟨none, 0⟩, 222), 3000)]

/-- non-vacuity on a graph WITH object roots: the run is timed (`q = 10`, `T = 3000`), bumps nothing, its second step is a
back-off step in front of the occupied class of the roots, worker 0 is inside the creation pre-step of its root (a tick
later), and it ends alive -/
example : I2N.Trav.Fair.Timed gRoot2 10 3000 (fun _ => 0) (initState gRoot2 3 []) timedRunOfGRoot2 ∧
    I2N.Trav.Fair.bumpFreeB gRoot2 (initState gRoot2 3 []) (timedRunOfGRoot2.map (·.1)) = true ∧
    pcIsBounce ((I2N.Trav.GlobalN.runStepsN gRoot2 (initState gRoot2 3 []) (timedRunOfGRoot2.map (·.1))).wd 1).pc = true ∧
    pcPreOf ((I2N.Trav.GlobalN.runStepsN gRoot2 (initState gRoot2 3 []) (timedRunOfGRoot2.map (·.1))).wd 0).pc =
      some (1, 1) := by decide +kernel
theorem gRoot2_alive : I2N.Trav.Fair.Alive gRoot2
    (I2N.Trav.GlobalN.runStepsN gRoot2 (initState gRoot2 3 []) (timedRunOfGRoot2.map (·.1))) := by
  refine ⟨⟨0, by decide, by decide +kernel⟩, fun v hv => ?_⟩
  have hv2 : v < 2 := hv
  have h : ∀ u, u < 2 → ((I2N.Trav.GlobalN.runStepsN gRoot2 (initState gRoot2 3 [])
      (timedRunOfGRoot2.map (·.1))).wd u).pc.isFailed = false := by decide +kernel
  intro e
  have := h v hv2
  rw [e] at this
  cases this
example := multi_worker_terminates_timed_roots_partial gRoot2 (by decide) (by decide) (by decide) (by decide) 3 (by decide)
  (by decide +kernel) [] 10 3000 (by decide) (fun _ => 0) timedRunOfGRoot2 (by decide +kernel) (by decide +kernel)
  (I2N.Trav.Fair.bumpFree_of_B _ _ _ (by decide +kernel)) (by decide +kernel) gRoot2_alive
example := multi_worker_terminates_timed_bumps_partial gRoot2 (by decide) (by decide) (by decide) (by decide) 3 (by decide)
  (by decide +kernel) [] 10 3000 (by decide) (fun _ => 0) timedRunOfGRoot2 (by decide +kernel) (by decide +kernel)
  (by decide +kernel) gRoot2_alive

/-- the long fair run of `gDuo` for the bounds of this section: `fairRunOfGDuo` and more no-op resumes of worker 0 -/
def fairRunOfGDuo2 : List I2N.Trav.GlobalN.StepN := fairRunOfGDuo ++ List.replicate 400 (0, ⟨none, 0⟩, 82)

/-- non-vacuity of the window forms (`gDuo` has no object root, but meets `classesOKRB`): the run is fair with window 2, bumps
nothing and has the `(24·3 + 12·2 + 1)·2 = 194` resp. `(24·9 + 12·2 + 1)·2 = 482` steps asked for -/
example : I2N.Trav.GlobalR.classesOKRB gDuo = true ∧ I2N.Trav.Fair2.resultBoundB gDuo = 9 ∧ fairRunOfGDuo2.length = 550 ∧
    I2N.Trav.Fair.FairW gDuo 2 (initState gDuo 2 []) fairRunOfGDuo2 ∧
    I2N.Trav.Fair.bumpFreeB gDuo (initState gDuo 2 []) fairRunOfGDuo2 = true := by decide +kernel
example := multi_worker_terminates_fair_roots_partial gDuo (by decide) (by decide) (by decide) (by decide) 2 (by decide)
  (by decide +kernel) [] 2 (by decide) fairRunOfGDuo2 (by decide +kernel) (by decide +kernel)
  (I2N.Trav.Fair.bumpFree_of_B _ _ _ (by decide +kernel)) (by decide +kernel) (by decide +kernel)
example := multi_worker_terminates_fair_bumps_partial gDuo (by decide) (by decide) (by decide) (by decide) 2 (by decide)
  (by decide +kernel) [] 2 (by decide) fairRunOfGDuo2 (by decide +kernel) (by decide +kernel) (by decide +kernel)
  (by decide +kernel)

/-- `bumps_bounded` on the states of `gRoot2`: at most `max(1, 2 + 1 - 0) = 3` bumps per copy -/
example := bumps_bounded gRoot2 (edgeSymB_sound (by decide)) 3 []
  (I2N.Trav.GlobalN.runStepsN gRoot2 (initState gRoot2 3 []) ((timedRunOfGRoot2.take 1).map (·.1)))
  (.step _ 0 ⟨none, 0⟩ 222 (.init []) (by decide) (by decide)) 1

/-- `result_wait_sleeps_thirty_seconds` on the third step of `timedRunOfGRoot2`: the tick of worker 0 inside the creation
pre-step of its root -/
example : (resume gRoot2 (I2N.Trav.GlobalN.runStepsN gRoot2 (initState gRoot2 3 []) ((timedRunOfGRoot2.take 2).map (·.1))) 0
    ⟨none, 0⟩ 222).2.getLast? = some (Event.sleep "net1" 3000) := by decide +kernel

end I2N.Props.C02

/-! ## Translator tie: readiness, drops and picks are the Python source (`harness/pygen_pxready.py`)

`Extracted/GenReady.lean` is regenerated on every run from the CURRENT source of `TestNode.is_setup_ready`,
`is_cleanup_ready`, `drop_parent`, `drop_child`, `pick_parent`, `pick_child` (avocado_i2n/cartgraph/node.py) by the
translator `harness/pygen.py`.  The theorems below state that the generated definitions ARE the hand written model
functions, for every graph, state, node and worker (no hypotheses).  A change of the Python changes the generated text
and these proofs (or the closed forms in `Lemmas/GenReady.lean`) stop compiling.  Atoms (trusted): a node / worker is its
index; `self.setup_nodes` = the parents in dictionary order; `node.is_flat()` = `Node.flat`; `worker.id in
node.params["name"]` = `Graph.idIn`; `worker.id in <register>.get_workers(node)` = membership in `regWorkers` of the
register of the class of `self` under the key of the class of `node`; `<register>.register(node, worker)` = `regAdd`;
`<register>.get_counters()` = `regTotal`; `prefix_priority` = comparison of the exported ranks; `sorted(key=…)` = the
stable insertion sort of the model by that key. -/
namespace I2N.Props.C02
open I2N.Trav
open I2N.Extracted.GenReady
open I2N.GenReady

/-- **The hand written `isSetupReady` is the Python source of `is_setup_ready`** (the loop over the parents, the
`continue` for composite parents of other workers, `return False` at the first parent the worker has not dropped,
`return True` otherwise), for every graph, state, node and worker.  No hypotheses. -/
theorem isSetupReady_matches_source (g : Graph) (s : State) (n w : Nat) :
    isSetupReady g s n w =
      genIsSetupReady ((g.node n).setup.map (·.1)) (fun p => (g.node p).flat) (fun p => g.idIn w p)
        (fun p => (regWorkers (s.cr (g.node n).cls).droppedSetup (some (g.node p).cls)).contains w) := by
  rw [genIsSetupReady_all, isSetupReady, List.all_map]
  rfl

/-- the same for `isCleanupReady` / `is_cleanup_ready`.  No hypotheses. -/
theorem isCleanupReady_matches_source (g : Graph) (s : State) (n w : Nat) :
    isCleanupReady g s n w =
      genIsCleanupReady ((g.node n).cleanup.map (·.1)) (fun p => (g.node p).flat) (fun p => g.idIn w p)
        (fun p => (regWorkers (s.cr (g.node n).cls).droppedCleanup (some (g.node p).cls)).contains w) := by
  rw [genIsCleanupReady_all, isCleanupReady, List.all_map]
  rfl

/-- the generated readiness computes: a composite parent of another worker is skipped, a flat parent is not -/
example : genIsSetupReady [1, 2] (fun _ => false) (fun p => p == 1) (fun _ => false) = false ∧
    genIsSetupReady [1, 2] (fun _ => false) (fun p => p == 1) (fun p => p == 1) = true ∧
    genIsSetupReady [1, 2] (fun p => p == 2) (fun p => p == 1) (fun p => p == 1) = false ∧
    genIsCleanupReady [] (fun _ => false) (fun _ => false) (fun _ => false) = true := by decide

/-- **The hand written `dropParent` is the Python source of `drop_parent`** on its non-raising path: the model's new
state is the old one with the registers of the child's class replaced by what the generated function leaves
(`execRegs` = run the generated action on the registers and keep the registers; the adapter is needed because the model
has no raising path — see `drop_raises_for_non_neighbour`).  For every graph, state, nodes and worker; no hypotheses. -/
theorem dropParent_matches_source (g : Graph) (s : State) (child parent w : Nat) :
    dropParent g s child parent w =
      s.setCr (g.node child).cls (execRegs (genDropParent true ((g.node parent).cls, w))) := rfl

/-- the same for `dropChild` / `drop_child` -/
theorem dropChild_matches_source (g : Graph) (s : State) (parent child w : Nat) :
    dropChild g s parent child w =
      s.setCr (g.node parent).cls (execRegs (genDropChild true ((g.node child).cls, w))) := rfl

/-- complete description of the generated drops, for every flag, key and register record (result AND registers; the
exception layer of `RegM` is outside the state, so a mark made before a `raise` would be seen): not a neighbour ⇒
`ValueError` and NOTHING is registered (a path the model does not have: its callers drop the node they came from); a
neighbour ⇒ exactly one `regAdd` on the dropped register of that side, the three other registers untouched -/
theorem drop_raises_for_non_neighbour (b : Bool) (key : Nat × Nat) (r : ClassRegs) :
    (genDropParent b key).run.run r =
      (if b then (.ok (), { r with droppedSetup := regAdd r.droppedSetup key }) else (.error "ValueError", r)) ∧
    (genDropChild b key).run.run r =
      (if b then (.ok (), { r with droppedCleanup := regAdd r.droppedCleanup key }) else (.error "ValueError", r)) := by
  cases b <;> exact ⟨rfl, rfl⟩

/-- the order of the model's single sort is the lexicographic combination of the three Python sort keys -/
theorem pickKey_order (g : Graph) (s : State) (parent : Bool) :
    (fun a b => keyLe (pickKey g s parent a) (pickKey g s parent b)) =
      I2N.PyGenSort.lexLe (flatKey (fun p => (g.node p).flat))
        (I2N.PyGenSort.lexLe (fun p => regTotal (if parent then (s.cr (g.node p).cls).pickedByCleanup
            else (s.cr (g.node p).cls).pickedBySetup))
          (I2N.PyGenSort.keyOrd (fun p => (g.node p).rank))) := by
  funext a b
  simp only [keyLe, pickKey, I2N.PyGenSort.lexLe, I2N.PyGenSort.keyOrd, flatKey]
  cases parent <;> rfl

/-- **The hand written `pickParent` is the Python source of `pick_parent`**: the two candidate filters, the
`RuntimeError` for an exhausted node, the three stable sorts (prefix priority, then picks so far, then flat first; the
model sorts once with the lexicographic key — `Lemmas/PyGenSort.stableSort_comp`), the first element, and the one
`register` on the picked-by-cleanup register of the class of the PICKED node — same result, same new state, same
exception (and then an UNCHANGED state), for every graph, state, node and worker.  No hypotheses. -/
theorem pickParent_matches_source (g : Graph) (s : State) (n w : Nat) :
    (genPickParent g ((g.node n).setup.map (·.1)) (fun p => (g.node p).flat) (fun p => g.idIn w p)
        (fun p => (regWorkers (s.cr (g.node n).cls).droppedSetup (some (g.node p).cls)).contains w)
        (fun p => regTotal (s.cr (g.node p).cls).pickedByCleanup) (fun p => (g.node p).rank)
        ((g.node n).cls, w)).run.run s =
      (match pickParent g s n w with
        | some r => (.ok r.1, r.2)
        | none => (.error "RuntimeError", s)) := by
  rw [genPickParent_run, pickParent, pickKey_order g s true]
  simp only [relevant, if_true]
  cases stableSort _ _ <;> rfl

/-- the same for `pickChild` / `pick_child` (picked-by-setup register) -/
theorem pickChild_matches_source (g : Graph) (s : State) (n w : Nat) :
    (genPickChild g ((g.node n).cleanup.map (·.1)) (fun p => (g.node p).flat) (fun p => g.idIn w p)
        (fun p => (regWorkers (s.cr (g.node n).cls).droppedCleanup (some (g.node p).cls)).contains w)
        (fun p => regTotal (s.cr (g.node p).cls).pickedBySetup) (fun p => (g.node p).rank)
        ((g.node n).cls, w)).run.run s =
      (match pickChild g s n w with
        | some r => (.ok r.1, r.2)
        | none => (.error "RuntimeError", s)) := by
  rw [genPickChild_run, pickChild, pickKey_order g s false]
  simp only [relevant, Bool.false_eq_true, if_false]
  cases stableSort _ _ <;> rfl

-- ==== pxdef ====
/-! ## The END of a run: every selected test has a definite result (`Lemmas/TravDefinite.lean`)

Scheduler view as above (`GlobalN.StepN`, `GlobalN.runStepsN`; any graph with `graphWF`, lazily expanded ones included:
`initState g ncls store hidden`).  A *placeholder* is a result with status `"UNKNOWN"` and tag `≥ 1`: `run_test_node` appends
`{"name": …, "status": "UNKNOWN"}` before it awaits the task and removes it when it has found the report (the model tags
the placeholder objects `1, 2, …`; the results that replace them carry tag `0` and the status the job reported).
`Definite.Abandoned g s steps m t`: some step of the run was taken by a worker that was inside execution `t` of copy `m`
with `wait ≥ 10` — the task ended, ten sleeps of the result wait followed — while the report `(name, uid)` was still missing
among the job results: the execution was given up. -/

open I2N.Trav.GlobalN I2N.Trav.Definite in
/-- **unknown_only_inside_or_abandoned** (the invariant behind `no_unknown_at_end`).  After ANY run of real workers with
positive fuel, on every copy `m` that is not an object root: a placeholder with tag `t` exists only while some real worker
is suspended inside execution `t` of `m` (program counter `test m plain … t …`: the task is running, or the worker sleeps
waiting for the report) — or execution `t` was given up on the way (`Abandoned`), in which case the placeholder stays for
ever (`never_reported_defaults_to_error`, `abandoned_placeholder_stays`).
Hypotheses: `graphWF` (edge ends are node indices); `1 ≤ r.tag` singles out placeholders — a test that REPORTS the status
`UNKNOWN` files a definite result with that status (`reported_unknown_is_not_a_placeholder`); object roots are excluded
because their creation pre-step works on a copy of the result list (`preResults`), which `Basic` does not describe. -/
theorem unknown_only_inside_or_abandoned (g : Graph) (hwf : graphWF g = true) (ncls : Nat)
    (store : List (String × List (String × String))) (hidden : List Nat) (steps : List StepN)
    (hreal : ∀ x ∈ steps, x.1 < g.workers.length) (hfuel : ∀ x ∈ steps, 0 < x.2.2)
    (m : Nat) (hm : (g.node m).objectRoot = false) (r : Result)
    (hr : r ∈ ((runStepsN g (initState g ncls store hidden) steps).nd m).results)
    (hu : r.status = "UNKNOWN") (ht : 1 ≤ r.tag) :
    (∃ v, v < g.workers.length ∧ ∃ dir uid wait,
      ((runStepsN g (initState g ncls store hidden) steps).wd v).pc = .test m .plain dir uid r.tag wait) ∨
    Abandoned g (initState g ncls store hidden) steps m r.tag := by
  have W := GraphWF.of_bool hwf
  rcases run_placeholder W ncls store hidden steps hreal hfuel m hm r hr hu ht with h | h
  · exact Or.inl (owner_real (basic_run W steps _ (Basic.init g W ncls store hidden) hreal hfuel) h)
  · exact Or.inr h

open I2N.Trav.GlobalN I2N.Trav.Definite in
/-- **never_reported_defaults_to_error**: what the model (and `run_test_node`) does when the report never arrives.  State
`s` reachable (`ReachableR`), worker `w` inside execution `tag` of copy `n` with `wait ≥ 10` (the eleventh resumption: the
task ended at `wait = 0`, ten sleeps of 30 s followed), report `(name n, uid)` not among the job results.  Then the step
of `w` IS the continuation after a test that counts as failed — `continueAfter … ok := false`, the runner's default
`error`: `traverse_node` ends, the run decision is taken again — on the unchanged state: no result is filed, the
placeholder of `tag` STAYS in `n`'s results (all old results do), and afterwards nobody is inside execution `tag` of `n`. -/
theorem never_reported_defaults_to_error (g : Graph) (hwf : graphWF g = true) (ncls : Nat)
    (store : List (String × List (String × String))) (s : State) (hs : ReachableR g ncls store s)
    (w : Nat) (out : Outcome) (fuel : Nat) (hf : 0 < fuel) (n : Nat) (dir : Dir) (uid : String) (tag wait : Nat)
    (hpc : (s.wd w).pc = .test n .plain dir uid tag wait) (hge : 10 ≤ wait)
    (hnone : s.jobResults.find? (fun r => r.1 == (g.node n).name && r.2.1 == uid) = none) :
    resume g s w out fuel = resumeTest.continueAfter g w n .plain dir fuel s false [] ∧
    phOf (g.node n).name tag ∈ ((resume g s w out fuel).1.nd n).results ∧
    (s.nd n).results <+: ((resume g s w out fuel).1.nd n).results ∧
    ¬ Owner (resume g s w out fuel).1 n tag :=
  ⟨resume_abandon g s w out fuel hpc hge hnone,
    abandon_keeps (GraphWF.of_bool hwf) (hs.basic hwf) w out fuel hf hpc hge hnone⟩

open I2N.Trav.GlobalN I2N.Trav.Definite in
/-- **no_unknown_outside_tests**: in a state of a run in which no real worker is suspended inside a test — in particular
when all real workers are `done` (`no_unknown_at_end`) — every placeholder on a copy that is not an object root belongs to
an execution that was given up. -/
theorem no_unknown_outside_tests (g : Graph) (hwf : graphWF g = true) (ncls : Nat)
    (store : List (String × List (String × String))) (hidden : List Nat) (steps : List StepN)
    (hreal : ∀ x ∈ steps, x.1 < g.workers.length) (hfuel : ∀ x ∈ steps, 0 < x.2.2)
    (hquiet : ∀ v, v < g.workers.length → ((runStepsN g (initState g ncls store hidden) steps).wd v).pc.isTest = false)
    (m : Nat) (hm : (g.node m).objectRoot = false) (r : Result)
    (hr : r ∈ ((runStepsN g (initState g ncls store hidden) steps).nd m).results)
    (hu : r.status = "UNKNOWN") (ht : 1 ≤ r.tag) :
    Abandoned g (initState g ncls store hidden) steps m r.tag := by
  rcases unknown_only_inside_or_abandoned g hwf ncls store hidden steps hreal hfuel m hm r hr hu ht with
    ⟨v, hv, _, _, _, hp⟩ | h
  · have := hquiet v hv
    rw [hp] at this; cases this
  · exact h

open I2N.Trav.GlobalN I2N.Trav.Definite in
/-- **no_unknown_at_end.**  When all real workers are `done`: no copy (object roots aside) carries an in-flight UNKNOWN
placeholder, EXCEPT for executions whose report never arrived within the ten sleeps of the result wait (`Abandoned`); for
those the runner went on with its default `error` and left the placeholder in place (`never_reported_defaults_to_error`).
The exception is real: `abandoned_placeholder_stays`.  If every step of the run is given a status (`Reports`: whenever a
test task ends it has reported) there is no exception: `no_unknown_at_end_reported`. -/
theorem no_unknown_at_end (g : Graph) (hwf : graphWF g = true) (ncls : Nat)
    (store : List (String × List (String × String))) (hidden : List Nat) (steps : List StepN)
    (hreal : ∀ x ∈ steps, x.1 < g.workers.length) (hfuel : ∀ x ∈ steps, 0 < x.2.2)
    (hdone : ∀ v, v < g.workers.length → ((runStepsN g (initState g ncls store hidden) steps).wd v).pc = .done)
    (m : Nat) (hm : (g.node m).objectRoot = false) (r : Result)
    (hr : r ∈ ((runStepsN g (initState g ncls store hidden) steps).nd m).results)
    (hu : r.status = "UNKNOWN") (ht : 1 ≤ r.tag) :
    Abandoned g (initState g ncls store hidden) steps m r.tag :=
  no_unknown_outside_tests g hwf ncls store hidden steps hreal hfuel (fun v hv => by rw [hdone v hv]; rfl) m hm r hr hu ht

open I2N.Trav.GlobalN I2N.Trav.Definite in
/-- **no_unknown_at_end_reported.**  If every resumption is given a status (`Reports steps`: no test task ends without a
report; the status is arbitrary), no execution is ever given up, no worker ever sleeps in the result wait, and at the
end — nobody inside a test — no copy that is not an object root carries a placeholder: every `UNKNOWN` left is a status
that was reported (tag `0`). -/
theorem no_unknown_at_end_reported (g : Graph) (hwf : graphWF g = true) (ncls : Nat)
    (store : List (String × List (String × String))) (hidden : List Nat) (steps : List StepN)
    (hreal : ∀ x ∈ steps, x.1 < g.workers.length) (hfuel : ∀ x ∈ steps, 0 < x.2.2) (hrep : Reports steps)
    (hquiet : ∀ v, v < g.workers.length → ((runStepsN g (initState g ncls store hidden) steps).wd v).pc.isTest = false)
    (m : Nat) (hm : (g.node m).objectRoot = false) (r : Result)
    (hr : r ∈ ((runStepsN g (initState g ncls store hidden) steps).nd m).results) (hu : r.status = "UNKNOWN") :
    r.tag = 0 := by
  by_cases ht : 1 ≤ r.tag
  · have W := GraphWF.of_bool hwf
    exact absurd (no_unknown_outside_tests g hwf ncls store hidden steps hreal hfuel hquiet m hm r hr hu ht)
      (not_abandoned W steps _ (Basic.init g W ncls store hidden) (w0_init g ncls store hidden) hreal hfuel hrep m r.tag)
  · omega

/-- the run `runOfGRun` of the single worker of `gRun` as a run of the many-worker scheduler -/
def runNOfGRun : List I2N.Trav.GlobalN.StepN := runOfGRun.map (fun x => (0, x.1, x.2))

/-- **The literal statement "no UNKNOWN result at the end" is FALSE** (in the model, and in `run_test_node`, which removes
its placeholder only inside the branch that found the report): in `runOfGRun` the report of `c` (copy 3) never arrives;
the worker ends `done`, `c` was executed once, and its only result is the placeholder (status `UNKNOWN`). -/
theorem abandoned_placeholder_stays :
    pcIsDone ((I2N.Trav.GlobalN.runStepsN gRun (initState gRun 5 []) runNOfGRun).wd 0).pc = true ∧
    ((I2N.Trav.GlobalN.runStepsN gRun (initState gRun 5 []) runNOfGRun).nd 3).results.map (fun r => (r.status, r.tag)) =
      [("UNKNOWN", 3)] ∧
    (I2N.Trav.GlobalN.runStepsN gRun (initState gRun 5 []) runNOfGRun).jobResults.map (fun r => r.1) =
      ["a.net1", "b.net1", "b.net1", "d.net1"] := by decide +kernel

/-- … and the theorems above apply to it: the placeholder is one of an execution that was given up -/
example : I2N.Trav.Definite.Abandoned gRun (initState gRun 5 []) runNOfGRun 3 3 :=
  no_unknown_at_end gRun (by decide) 5 [] [] runNOfGRun (by decide) (by decide)
    (by
      intro v hv
      have hv0 : v = 0 := by
        have : v < 1 := hv
        omega
      subst hv0
      have h := abandoned_placeholder_stays.1
      cases hpc : ((I2N.Trav.GlobalN.runStepsN gRun (initState gRun 5 []) runNOfGRun).wd 0).pc <;> rw [hpc] at h <;>
        first | rfl | cases h)
    3 (by decide) ⟨"c.net1", "UNKNOWN", "", 3, 0⟩
    (by
      have h : ((I2N.Trav.GlobalN.runStepsN gRun (initState gRun 5 []) runNOfGRun).nd 3).results =
          [⟨"c.net1", "UNKNOWN", "", 3, 0⟩] := by decide +kernel
      rw [h]; exact List.mem_cons_self)
    rfl (by decide)

/-- Witness that `1 ≤ r.tag` cannot be dropped: a test that REPORTS the status `UNKNOWN` files a result with that status
(tag `0`); nobody is inside that execution any more and nothing was given up. -/
theorem reported_unknown_is_not_a_placeholder :
    ((I2N.Trav.GlobalN.runStepsN gRun (initState gRun 5 []) [(0, ⟨none, 0⟩, 274), (0, ⟨some "UNKNOWN", 1⟩, 274)]).nd 1).results.map
      (fun r => (r.status, r.tag)) = [("UNKNOWN", 0)] ∧
    pcWaitOf ((I2N.Trav.GlobalN.runStepsN gRun (initState gRun 5 []) [(0, ⟨none, 0⟩, 274), (0, ⟨some "UNKNOWN", 1⟩, 274)]).wd 0).pc ≠
      some (1, 0) := by decide +kernel

/-- non-vacuity of `unknown_only_inside_or_abandoned`: after the first step of `runOfGDuo` worker 0 is inside execution 1
of its leaf, whose only result is the placeholder -/
example : ((I2N.Trav.GlobalN.runStepsN gDuo (initState gDuo 2 []) (runOfGDuo.take 1)).nd 1).results.map
      (fun r => (r.status, r.tag)) = [("UNKNOWN", 1)] ∧
    pcWaitOf ((I2N.Trav.GlobalN.runStepsN gDuo (initState gDuo 2 []) (runOfGDuo.take 1)).wd 0).pc = some (1, 0) := by
  decide +kernel
example := unknown_only_inside_or_abandoned gDuo (by decide) 2 [] [] (runOfGDuo.take 1) (by decide) (by decide) 1 (by decide)
  ⟨"leaf.net1", "UNKNOWN", "", 1, 0⟩
  (by
    have h : ((I2N.Trav.GlobalN.runStepsN gDuo (initState gDuo 2 []) (runOfGDuo.take 1)).nd 1).results =
        [⟨"leaf.net1", "UNKNOWN", "", 1, 0⟩] := by decide +kernel
    rw [h]; exact List.mem_cons_self)
  rfl (by decide)
/-- non-vacuity of `no_unknown_at_end_reported`: a run of `gDuo` in which every resumption is given a status; both workers
end `done`, the class has the one result `PASS` -/
def reportedRunOfGDuo : List I2N.Trav.GlobalN.StepN :=
  [(0, ⟨some "PASS", 1⟩, 82), (1, ⟨some "PASS", 1⟩, 82), (0, ⟨some "PASS", 1⟩, 82), (1, ⟨some "PASS", 1⟩, 82)]
example : I2N.Trav.Definite.Reports reportedRunOfGDuo := by
  intro x hx
  simp only [reportedRunOfGDuo, List.mem_cons, List.not_mem_nil, or_false] at hx
  rcases hx with h | h | h | h <;> rw [h] <;> simp
example : pcIsDone ((I2N.Trav.GlobalN.runStepsN gDuo (initState gDuo 2 []) reportedRunOfGDuo).wd 0).pc = true ∧
    pcIsDone ((I2N.Trav.GlobalN.runStepsN gDuo (initState gDuo 2 []) reportedRunOfGDuo).wd 1).pc = true ∧
    ((I2N.Trav.GlobalN.runStepsN gDuo (initState gDuo 2 []) reportedRunOfGDuo).nd 1).results.map (·.status) = ["PASS"] := by
  decide +kernel

/-! ### every selected test was run

`Definite.selected g n`: copy `n` is a test the stateless branch of `default_run_decision` decides about — not the shared
root, not a dry run, not flat, not a clone source, sets no state.  `Definite.Below g w n`: `n` is reachable from the shared
root through children that worker `w` cares for (`relevant`: flat, or `w`'s id occurs in the name) — the copies `w` is
responsible for.  Pre-parsed graphs (`initState g ncls store`, nothing hidden). -/

theorem pc_done_of_isDone {pc : Pc} (h : pcIsDone pc = true) : pc = .done := by
  cases pc <;> first | rfl | cases h

open I2N.Trav.Term I2N.Trav.GlobalN I2N.Trav.Definite in
/-- **all_selected_run.**  After ANY run (real workers, positive fuel, any outcomes) in which worker `w` has left through
the shared root (`done`): every selected stateless copy `n` that `w` is responsible for (`Below g w n`, `n` not the root)
has a result in its class — some copy `m` of the class of `n` (`m ∈ g.copies n`: `n` itself or a bridged copy) carries a
result `r`: the test was executed, by `w` or by a worker whose copy is bridged to `w`'s.  The worker cannot leave while a
leaf it is responsible for has no result.
Why (`Definite.DInv`, `Definite.below_done`): the loop is left only when `isCleanupReady root w`; a child class enters the
`droppedCleanup` register of a parent class for `w` only in the downward branch of the loop body after
`next.should_run(w)` said "no" and `next` was cleanup-ready for `w` (`afterTraverse`); "no" for a selected stateless copy
means `shared_results ≠ []` (`Definite.runDecision_false_selected`); registers and non-empty result lists only grow.  So
readiness of the root descends along `Below`.
Hypotheses: `graphWF`; `edgeSymB` (technical: the path invariant `PInv` — the tested node is `w`'s own copy — is proved for
edge-symmetric graphs); `classInjB g w` — two copies of one class that both concern `w` are equal: the registers are per
CLASS, so with two such copies "dropped" would not say WHICH copy was decided about (no parser builds that; same
hypothesis as `dry_run_terminates`); `done` — a worker that is still inside or died (`failed`) has run nothing yet / leaves
its leaves unrun (`nothing_run_before_the_end`).  Stateful copies (`sets ≠ []`) are not covered: their decision goes by the
state scan, and "not run" then means "the state exists" (C01). -/
theorem all_selected_run (g : Graph) (hwf : graphWF g = true) (hsym : edgeSymB g = true) (ncls : Nat)
    (store : List (String × List (String × String))) (steps : List StepN)
    (hreal : ∀ x ∈ steps, x.1 < g.workers.length) (hfuel : ∀ x ∈ steps, 0 < x.2.2)
    (w : Nat) (hinj : classInjB g w = true)
    (hdone : ((runStepsN g (initState g ncls store) steps).wd w).pc = .done)
    (n : Nat) (hb : Below g w n) (hn : n ≠ g.root) (hsel : selected g n = true) :
    ∃ m r, m ∈ g.copies n ∧ r ∈ ((runStepsN g (initState g ncls store) steps).nd m).results := by
  have d := dinv_run hwf (edgeSymB_sound hsym) ncls store steps _ (.init []) (.init []) (DInv.init g ncls store) hreal hfuel
  have h := (below_done (GraphWF.of_bool hwf) d w (classInjB_sound hinj) (d.done w hdone) n hb).2 hn hsel
  obtain ⟨r, hr⟩ := List.exists_mem_of_ne_nil _ h
  obtain ⟨m, hm, hr'⟩ := List.mem_flatMap.mp hr
  exact ⟨m, r, hm, hr'⟩

/-- `done` cannot be dropped from `all_selected_run` (trivially): before the end nothing need have run — in the initial
state of `gDuo` the leaf of worker 0 is selected, below the root, and no copy of its class has a result -/
theorem nothing_run_before_the_end :
    I2N.Trav.Definite.selected gDuo 1 = true ∧ sharedResults gDuo (initState gDuo 2 []) 1 = [] ∧
    pcIsDone ((initState gDuo 2 []).wd 0).pc = false := by decide

/-- non-vacuity: in `gDuo` the leaves 1 (worker 0) and 2 (worker 1) are selected and below the root for their workers; after
`fairRunOfGDuo` both workers are done.  Worker 1 never executed its own copy: the result is on worker 0's copy of the class. -/
example : I2N.Trav.Term.classInjB gDuo 0 = true ∧ I2N.Trav.Term.classInjB gDuo 1 = true ∧ I2N.Trav.Definite.selected gDuo 1 = true ∧
    I2N.Trav.Definite.selected gDuo 2 = true ∧
    ((I2N.Trav.GlobalN.runStepsN gDuo (initState gDuo 2 []) fairRunOfGDuo).nd 2).results = [] ∧
    ((I2N.Trav.GlobalN.runStepsN gDuo (initState gDuo 2 []) fairRunOfGDuo).nd 1).results.map (·.status) = ["PASS"] := by
  decide +kernel
example := all_selected_run gDuo (by decide) (by decide) 2 [] fairRunOfGDuo (by decide +kernel) (by decide +kernel) 1
  (by decide)
  (pc_done_of_isDone (by decide +kernel))
  2 (.child ["vm1"] .root (by decide) (by decide)) (by decide) (by decide)

open I2N.Trav.Term I2N.Trav.Global I2N.Trav.GlobalN I2N.Trav.Fair I2N.Trav.Definite in
/-- **done_run_has_definite_results** (`_partial`: the hypotheses of `multi_worker_terminates_fair_partial`).  Pre-parsed
acyclic graph without object roots, class hypotheses `classesOKB`, any number of workers, any outcomes, `fuel ≥ bound g`,
no bump, FAIR with window `K ≥ 1`; `classInjB` for every real worker.  After ANY such run of at least
`(24·Σ_n max(max_tries n, 1) + |workers| + 1)·K` resumes: some worker is `failed`, or all workers are `done` and
(1) every selected stateless copy a worker is responsible for has a result in its class (`all_selected_run`), and
(2) every UNKNOWN placeholder left anywhere belongs to an execution whose report never arrived (`no_unknown_at_end`).
If moreover every resumption is given a status (`Reports`), (2) becomes: no placeholder is left — every result of the
run is a definite one (`done_run_has_definite_results_reported`). -/
theorem done_run_has_definite_results_partial (g : Graph) (hr : rankedB g = true) (hsym : edgeSymB g = true)
    (hflat : noFlatB g = true) (hwf : graphWF g = true) (ncls : Nat)
    (hcls : ∀ n, n < g.nodes.length → (g.node n).cls < ncls) (hroots : noRootsB g = true) (hcl : classesOKB g = true)
    (hinj : ∀ w, w < g.workers.length → classInjB g w = true)
    (store : List (String × List (String × String))) (K : Nat) (hK : 0 < K) (steps : List StepN)
    (hreal : ∀ x ∈ steps, x.1 < g.workers.length) (hfuel : ∀ x ∈ steps, bound g ≤ x.2.2)
    (hcalm : BumpFree g (initState g ncls store) steps) (hfair : FairW g K (initState g ncls store) steps)
    (hlen : (24 * resultBound g + g.workers.length + 1) * K ≤ steps.length) :
    (∃ v, v < g.workers.length ∧ ((runStepsN g (initState g ncls store) steps).wd v).pc = .failed) ∨
    ((∀ v, v < g.workers.length → ((runStepsN g (initState g ncls store) steps).wd v).pc = .done) ∧
     (∀ w, w < g.workers.length → ∀ n, Below g w n → n ≠ g.root → selected g n = true →
        ∃ m r, m ∈ g.copies n ∧ r ∈ ((runStepsN g (initState g ncls store) steps).nd m).results) ∧
     (∀ m, ∀ r ∈ ((runStepsN g (initState g ncls store) steps).nd m).results, r.status = "UNKNOWN" → 1 ≤ r.tag →
        Abandoned g (initState g ncls store) steps m r.tag)) := by
  have hfuel' : ∀ x ∈ steps, 0 < x.2.2 := fun x hx => by
    have := hfuel x hx
    unfold bound at this
    omega
  rcases multi_worker_terminates_fair_partial g hr hsym hflat hwf ncls hcls hroots hcl store K hK steps hreal hfuel hcalm
    hfair hlen with hd | hf
  · right
    refine ⟨hd, fun w hw n hb hn hsel => ?_, fun m r hr hu ht => ?_⟩
    · exact all_selected_run g hwf hsym ncls store steps hreal hfuel' w (hinj w hw) (hd w hw) n hb hn hsel
    · exact no_unknown_at_end g hwf ncls store [] steps hreal hfuel' hd m (noRoots_spec hroots m) r hr hu ht
  · exact Or.inl hf

open I2N.Trav.Term I2N.Trav.Global I2N.Trav.GlobalN I2N.Trav.Fair I2N.Trav.Definite in
/-- **done_run_has_definite_results_reported**: the same when every resumption is given a status — at the end of every
sufficiently long fair run some worker is `failed`, or every selected stateless copy a worker is responsible for has, in
its class, a DEFINITE result (not a placeholder: status `UNKNOWN` only if that is what the test reported). -/
theorem done_run_has_definite_results_reported_partial (g : Graph) (hr : rankedB g = true) (hsym : edgeSymB g = true)
    (hflat : noFlatB g = true) (hwf : graphWF g = true) (ncls : Nat)
    (hcls : ∀ n, n < g.nodes.length → (g.node n).cls < ncls) (hroots : noRootsB g = true) (hcl : classesOKB g = true)
    (hinj : ∀ w, w < g.workers.length → classInjB g w = true)
    (store : List (String × List (String × String))) (K : Nat) (hK : 0 < K) (steps : List StepN)
    (hreal : ∀ x ∈ steps, x.1 < g.workers.length) (hfuel : ∀ x ∈ steps, bound g ≤ x.2.2)
    (hcalm : BumpFree g (initState g ncls store) steps) (hfair : FairW g K (initState g ncls store) steps)
    (hlen : (24 * resultBound g + g.workers.length + 1) * K ≤ steps.length) (hrep : Reports steps) :
    (∃ v, v < g.workers.length ∧ ((runStepsN g (initState g ncls store) steps).wd v).pc = .failed) ∨
    (∀ w, w < g.workers.length → ∀ n, Below g w n → n ≠ g.root → selected g n = true →
        ∃ m r, m ∈ g.copies n ∧ r ∈ ((runStepsN g (initState g ncls store) steps).nd m).results ∧
          (r.status = "UNKNOWN" → r.tag = 0)) := by
  have hfuel' : ∀ x ∈ steps, 0 < x.2.2 := fun x hx => by
    have := hfuel x hx
    unfold bound at this
    omega
  rcases done_run_has_definite_results_partial g hr hsym hflat hwf ncls hcls hroots hcl hinj store K hK steps hreal hfuel
    hcalm hfair hlen with hf | ⟨hd, h1, _⟩
  · exact Or.inl hf
  · right
    intro w hw n hb hn hsel
    obtain ⟨m, r, hm, hr'⟩ := h1 w hw n hb hn hsel
    exact ⟨m, r, hm, hr', fun hu => no_unknown_at_end_reported g hwf ncls store [] steps hreal hfuel' hrep
      (fun v hv => by rw [hd v hv]; rfl) m (noRoots_spec hroots m) r hr' hu⟩

/-- non-vacuity of `done_run_has_definite_results_partial`: `fairRunOfGDuo` meets the hypotheses -/
example := done_run_has_definite_results_partial gDuo (by decide) (by decide) (by decide) (by decide) 2 (by decide)
  (by decide) (by decide +kernel)
  (by
    intro w hw
    have : w = 0 ∨ w = 1 := by
      have : w < 2 := hw
      omega
    rcases this with h | h <;> rw [h] <;> decide)
  [] 2 (by decide) fairRunOfGDuo (by decide +kernel) (by decide +kernel)
  (I2N.Trav.Fair.bumpFree_of_B _ _ _ (by decide +kernel)) (by decide +kernel) (by decide +kernel)

/-- a fair run of `gDuo` in which every resumption is given a status: `reportedRunOfGDuo`, then 146 resumes of the
finished worker 0 (150 steps, window 2) -/
def fairReportedRunOfGDuo : List I2N.Trav.GlobalN.StepN :=
  reportedRunOfGDuo ++ List.replicate 146 (0, ⟨some "PASS", 1⟩, 82)

example : I2N.Trav.Fair.FairW gDuo 2 (initState gDuo 2 []) fairReportedRunOfGDuo ∧
    I2N.Trav.Fair.bumpFreeB gDuo (initState gDuo 2 []) fairReportedRunOfGDuo = true ∧
    fairReportedRunOfGDuo.length = 150 := by decide +kernel
example : I2N.Trav.Definite.Reports fairReportedRunOfGDuo := by
  intro x hx
  unfold fairReportedRunOfGDuo reportedRunOfGDuo at hx
  rcases List.mem_append.mp hx with h | h
  · simp only [List.mem_cons, List.not_mem_nil, or_false] at h
    rcases h with h | h | h | h <;> rw [h] <;> simp
  · rw [List.eq_of_mem_replicate h]; simp

end I2N.Props.C02

-- ==== pxloc ====
/-! ## Translator tie: `is_unrolled`, `should_parse` and the one-line atoms are the Python source (`harness/pygen_pxloc.py`)

`Extracted/GenLazy.lean` is regenerated on every run from the CURRENT source of `TestNode.is_unrolled`, `should_parse`,
`is_flat`, `is_shared_root`, `is_object_root`, `get_stateful_objects` (avocado_i2n/cartgraph/node.py).  Atoms (trusted,
the table is the docstring of `harness/pygen_pxloc.py`): a node / worker is its index; `self.incompatible_workers` = the
workers `w` with `(f, w)` in `State.incompatible`; `self.cleanup_nodes` = the children in dictionary order;
`self.setless_form`, `node.id`, `worker.id` = `Node.setless`, `Graph.nodeId`, `Worker.id` (the two substring tests are
TRANSLATED, with the model's `strIn`); `self.shared_involved_workers` = `involved` (a set, iterated for an existence
test). -/
namespace I2N.Props.C02
open I2N.Trav
open I2N.Extracted.GenLazy

/-- **The hand written `isUnrolled` is the Python source of `is_unrolled`** on every node the Python accepts (the shared
root and flat nodes), for every visible graph, state, node and worker argument (`none` = "for any worker"): the order
of the tests (shared root first, then the incompatible workers, then the search among the children), the two
substring tests `setless_form in node.id` and `worker.id in node.id`, the `worker is None` alternative.  For a node
that is neither the shared root nor flat the source raises `RuntimeError` — a path the model does not have (its callers
`unexploredNodes`, `prepare`, `shouldParse` ask flat nodes only); the theorem states that too.  No hypotheses. -/
theorem isUnrolled_matches_source (gv : Graph) (s : State) (f : Nat) (w : Option Nat) :
    genIsUnrolled (gv.node f).sharedRoot (gv.node f).flat w ((s.incompatible.filter (·.1 == f)).map (·.2))
        ((gv.node f).cleanup.map (·.1)) (gv.node f).setless gv.nodeId (fun v => (gv.worker v).id) =
      if (gv.node f).sharedRoot || (gv.node f).flat then .ok (isUnrolled gv s f w) else .error "RuntimeError" := by
  rw [I2N.GenLazy.genIsUnrolled_eq, isUnrolled]
  have h1 := I2N.GenLazy.incompatOf_contains s f
  have h2 := I2N.GenLazy.incompatOf_isEmpty s f
  unfold I2N.GenLazy.incompatOf at h1 h2
  cases (gv.node f).sharedRoot <;> cases (gv.node f).flat <;> cases w <;>
    simp only [h1, h2, Bool.false_or, Bool.true_or, Bool.or_false, Bool.or_true, if_true, if_false, Bool.not_true,
      Bool.not_false, Bool.false_eq_true]

/-- the generated `is_unrolled` computes: a composite node raises; the shared root is unrolled; a flat node is unrolled
for a worker when a child carries both the setless form and the worker's id, or the worker is recorded as incompatible;
for nobody in particular as soon as one child carries the setless form -/
example :
    genIsUnrolled false false none [] [] "" (fun _ => "") (fun _ => "") = .error "RuntimeError" ∧
    genIsUnrolled true false none [] [] "" (fun _ => "") (fun _ => "") = .ok true ∧
    genIsUnrolled false true (some 1) [] [5, 6] "tutorial1" (fun c => if c == 5 then "1-net1.tutorial1" else "2-net2.other")
      (fun v => if v == 1 then "net1" else "net2") = .ok true ∧
    genIsUnrolled false true (some 2) [] [5, 6] "tutorial1" (fun c => if c == 5 then "1-net1.tutorial1" else "2-net2.other")
      (fun v => if v == 1 then "net1" else "net2") = .ok false ∧
    genIsUnrolled false true (some 2) [2] [5, 6] "tutorial1" (fun c => if c == 5 then "1-net1.tutorial1" else "2-net2.other")
      (fun v => if v == 1 then "net1" else "net2") = .ok true ∧
    genIsUnrolled false true none [] [5, 6] "tutorial1" (fun c => if c == 5 then "1-net1.tutorial1" else "2-net2.other")
      (fun v => if v == 1 then "net1" else "net2") = .ok true ∧
    genIsUnrolled false true none [] [6] "tutorial1" (fun c => if c == 5 then "1-net1.tutorial1" else "2-net2.other")
      (fun v => if v == 1 then "net1" else "net2") = .ok false := ⟨rfl, rfl, rfl, rfl, rfl, rfl, rfl⟩

/-- **The hand written `shouldParse` is the Python source of `should_parse`**: the loop over the involved workers and
the three-part test (`is_unrolled(v) and is_cleanup_ready(v) and len(v.restrs) == 0`) that answers `False` at the first
such worker, `True` otherwise — for every visible graph, state and flat node.  Hypothesis `hr`: the restriction lists
given to the generated function are empty exactly for the workers the model calls unrestricted (the model keeps one bit
per worker, `Worker.restricted`; it excludes nothing: `example` below). -/
theorem shouldParse_matches_source (gv : Graph) (s : State) (f : Nat) (restrs : Nat → List String)
    (hr : ∀ v, (restrs v).isEmpty = !(gv.worker v).restricted) :
    shouldParse gv s f =
      genShouldParse (involved gv s f) (fun v => isUnrolled gv s f (some v)) (fun v => isCleanupReady gv s f v) restrs := by
  rw [I2N.GenLazy.genShouldParse_eq, shouldParse]
  simp only [hr]

/-- non-vacuity of `hr`: for every graph there are such lists -/
example (gv : Graph) : ∀ v, ((fun v => if (gv.worker v).restricted then ["only x"] else []) v).isEmpty
    = !(gv.worker v).restricted := by
  intro v; cases h : (gv.worker v).restricted <;> simp [h]

/-- the generated `should_parse` computes: parse unless an involved, unrestricted worker has the node unrolled and
cleanup ready -/
example :
    genShouldParse [0, 1] (fun v => v == 1) (fun _ => true) (fun _ => []) = false ∧
    genShouldParse [0, 1] (fun v => v == 1) (fun _ => true) (fun v => if v == 1 then ["only x"] else []) = true ∧
    genShouldParse [0] (fun v => v == 1) (fun _ => true) (fun _ => []) = true ∧
    genShouldParse [] (fun _ => true) (fun _ => true) (fun _ => []) = true := by decide

/-- **The one-line atoms are their source**: `is_flat()` = "the node has no test objects", `is_shared_root()` = the
Boolean parameter `shared_root` with default `False`, `is_object_root()` = "`object_root` is a parameter key",
`get_stateful_objects(do)` = the objects with a true `<do>_state`, in object order.  These are what the exported fields
`Node.flat`, `Node.sharedRoot`, `Node.objectRoot`, `Node.sets` / `Node.gets` stand for (the atoms `flat`, `sharedRoot`
of the other specs); the export (`harness/travlib.py`) calls the real methods.  No hypotheses. -/
theorem one_line_atoms_match_source (objects : List String) (getBoolean : String → Bool → Bool) (paramKeys : List String)
    (kind : String) (objs : List Nat) (hasState : String → Nat → Bool) :
    genIsFlat objects = objects.isEmpty ∧
    genIsSharedRoot getBoolean = getBoolean "shared_root" false ∧
    genIsObjectRoot paramKeys = paramKeys.contains "object_root" ∧
    genGetStatefulObjects kind objs hasState = objs.filter (hasState kind) :=
  ⟨I2N.GenLazy.genIsFlat_eq objects, rfl, rfl, I2N.GenLazy.genGetStatefulObjects_eq kind objs hasState⟩

end I2N.Props.C02
