import I2N.Model.Transfer
import I2N.Lemmas.Transfer
import I2N.Extracted.GenTransfer
/-!
# C14 — Pool transfers are exact, never destroy data, and exclude each other

Part (a): the file-system model of `TransferOps` (`I2N.Transfer.downloadLocal` …), for ALL file systems,
paths, contents and hash limits.  Part (b): the lock protocol of `image_lock` for ANY number of processes
(process ids are all of `Nat`), any jobs, any interleaving, with an exception or a death at any step of any
critical section; and the soundness of the trace monitor that judges traces of the real processes.

`limit` is the number of leading bytes `compare_local` hashes (1 MiB in the code).  Because only a prefix is
hashed, exactness and "skipped only when equal" hold under the decidable side condition `prefixFaithful`
(both contents fit in the prefix or already differ inside it): theorems named `…_partial`, with the
counter-example outside the condition next to them (finding `skip-on-equal-prefix`, design.d/C14.md).
-/
namespace I2N.Props.C14
open I2N.Transfer

/-! ## (a) transfers are exact -/

/-- `download_local` that succeeds leaves the pool entry untouched and makes the cache read exactly what the
    pool reads (also when it skipped the copy) — provided the hashed prefix decides equality. -/
theorem download_exact_partial {limit : Nat} {fs fs' : FS} {cache pool : Path}
    (hpool : islink fs pool = false) (hfaith : prefixFaithful limit fs cache pool = true)
    (h : downloadLocal limit fs cache pool = .ok fs') :
    fs' pool = fs pool ∧ read fs' pool = read fs pool ∧ read fs' cache = read fs' pool := by
  have hrp : resolve fs pool = pool := resolve_of_not_link hpool
  unfold downloadLocal at h
  split at h
  · rename_i hcmp
    cases h
    refine ⟨rfl, rfl, ?_⟩
    unfold compareLocal digest at hcmp
    unfold prefixFaithful at hfaith
    cases hc : read fs cache <;> cases hp : read fs pool <;> simp_all
  · obtain ⟨d, hd, hne, rfl⟩ := copy_ok h
    rw [hrp] at hne
    have h1 : write fs (resolve fs cache) (.file d) pool = fs pool := write_other _ _ _ _ hne
    have h2 : read (write fs (resolve fs cache) (.file d)) pool = read fs pool := by
      apply read_after_write_other
      · exact hne
      · rw [hrp]; exact hne
    refine ⟨h1, h2, ?_⟩
    rw [h2, hd]
    exact read_after_write_dst fs cache d

/-- the same for `upload_local`: the cache entry is untouched, the pool reads exactly what the cache reads. -/
theorem upload_exact_partial {limit : Nat} {fs fs' : FS} {cache pool : Path}
    (hpool : islink fs pool = false) (hfaith : prefixFaithful limit fs cache pool = true)
    (h : uploadLocal limit fs cache pool = .ok fs') :
    fs' cache = fs cache ∧ read fs' cache = read fs cache ∧ read fs' pool = read fs' cache := by
  have hrp : resolve fs pool = pool := resolve_of_not_link hpool
  unfold uploadLocal at h
  split at h
  · rename_i hcmp
    cases h
    refine ⟨rfl, rfl, ?_⟩
    unfold compareLocal digest at hcmp
    unfold prefixFaithful at hfaith
    cases hc : read fs cache <;> cases hp : read fs pool <;> simp_all
  · obtain ⟨d, hd, hne, rfl⟩ := copy_ok h
    rw [hrp] at hne ⊢
    have hcp : cache ≠ pool := by
      intro heq; subst heq; exact hne hrp
    have h1 : write fs pool (.file d) cache = fs cache := write_other _ _ _ _ hcp
    have h2 : read (write fs pool (.file d)) cache = read fs cache :=
      read_after_write_other _ _ _ _ hcp hne
    refine ⟨h1, h2, ?_⟩
    rw [h2, hd]
    have := read_after_write_dst fs pool d
    rw [hrp] at this
    exact this

/-- The full statement (without `prefixFaithful`) is FALSE of the model, as it is of the code: for EVERY hash
    limit there are a cache and a pool file that differ, for which the download "succeeds" by skipping. -/
theorem download_skips_on_equal_prefix (limit : Nat) (fs : FS) (cache pool : Path) (x y : Data)
    (hc : read fs cache = some x) (hp : read fs pool = some y) (hxy : x.take limit = y.take limit) :
    downloadLocal limit fs cache pool = .ok fs ∧ uploadLocal limit fs cache pool = .ok fs := by
  simp [downloadLocal, uploadLocal, compareLocal, digest, hc, hp, hxy]

/-- `skip_when_equal`: equal contents (or both missing) ⇒ nothing is copied, in every mode. -/
theorem skip_when_equal (limit : Nat) (fs : FS) (cache pool : Path) (h : read fs cache = read fs pool) :
    downloadLocal limit fs cache pool = .ok fs ∧ uploadLocal limit fs cache pool = .ok fs ∧
    (islink fs cache = false → downloadLink limit fs cache pool = .ok fs ∧
                               uploadLink limit fs cache pool = .ok fs) := by
  have hc : compareLocal limit fs cache pool = true := by simp [compareLocal, digest, h]
  refine ⟨by simp [downloadLocal, hc], by simp [uploadLocal, hc], ?_⟩
  intro hl
  simp [downloadLink, uploadLink, uploadLocal, compareLink, hl, hc]

/-- an already correct link is left alone -/
theorem skip_when_linked (limit : Nat) (fs : FS) (cache pool : Path) (h : fs cache = .link pool) :
    downloadLink limit fs cache pool = .ok fs := by
  simp [downloadLink, compareLink, islink, resolve, h]

/-- conversely the copy is attempted whenever the contents differ — under the prefix condition. -/
theorem copy_when_different_partial (limit : Nat) (fs : FS) (cache pool : Path)
    (hfaith : prefixFaithful limit fs cache pool = true) (h : read fs cache ≠ read fs pool) :
    downloadLocal limit fs cache pool = copy fs pool cache ∧
    uploadLocal limit fs cache pool = copy fs cache pool := by
  have hc : compareLocal limit fs cache pool = false := by
    unfold compareLocal digest
    unfold prefixFaithful at hfaith
    cases hc : read fs cache <;> cases hp : read fs pool <;> simp_all
  simp [downloadLocal, uploadLocal, hc]

/-! ## (a) transfers never destroy data -/

/-- frame: a download writes only where the cache path resolves to, an upload only where the pool path
    resolves to, a delete only the pool entry; every other path keeps its node. -/
theorem transfer_frame {limit : Nat} {fs fs' : FS} {cache pool : Path} :
    (downloadLocal limit fs cache pool = .ok fs' → ∀ q, q ≠ resolve fs cache → fs' q = fs q) ∧
    (uploadLocal limit fs cache pool = .ok fs' → ∀ q, q ≠ resolve fs pool → fs' q = fs q) ∧
    (deleteLocal fs pool = .ok fs' → fs' pool = .absent ∧ ∀ q, q ≠ pool → fs' q = fs q) := by
  refine ⟨?_, ?_, ?_⟩
  · intro h q hq
    unfold downloadLocal at h
    split at h
    · cases h; rfl
    · obtain ⟨d, _, _, rfl⟩ := copy_ok h
      exact write_other _ _ _ _ hq
  · intro h q hq
    unfold uploadLocal at h
    split at h
    · cases h; rfl
    · obtain ⟨d, _, _, rfl⟩ := copy_ok h
      exact write_other _ _ _ _ hq
  · intro h
    obtain ⟨_, rfl⟩ := unlink_ok h
    exact ⟨write_same _ _ _, fun q hq => write_other _ _ _ _ hq⟩

/-- a transfer that fails has no file system to show for it in the model (`Except`): the real code is
    checked to leave every tracked path as it was.  A failing delete means the entry was already gone. -/
theorem delete_missing (fs : FS) (pool : Path) (h : fs pool = .absent) :
    deleteLocal fs pool = .error .fileNotFound := by
  simp [deleteLocal, unlink, h]

/-- `link_never_clobbers`: whatever `download_link` does, every real file of the file system is still the
    same real file afterwards (only links and absent entries are ever changed) … -/
theorem link_never_clobbers {limit : Nat} {fs fs' : FS} {cache pool : Path}
    (h : downloadLink limit fs cache pool = .ok fs') :
    ∀ q d, fs q = .file d → fs' q = .file d := by
  intro q d hq
  unfold downloadLink at h
  split at h
  · cases h; exact hq
  · split at h
    · cases h
    · by_cases hl : islink fs cache = true
      · simp only [hl, if_true] at h
        cases hu : unlink fs cache with
        | error e => rw [hu] at h; cases h
        | ok fs1 =>
          rw [hu] at h
          obtain ⟨_, rfl⟩ := unlink_ok hu
          obtain ⟨_, rfl⟩ := symlink_ok h
          have hqc : q ≠ cache := by
            intro heq; subst heq
            obtain ⟨t, ht⟩ := islink_iff.mp hl
            rw [ht] at hq; cases hq
          rw [write_other _ _ _ _ hqc, write_other _ _ _ _ hqc]; exact hq
      · have hl' : islink fs cache = false := by simpa using hl
        simp only [hl', Bool.false_eq_true, if_false] at h
        obtain ⟨habs, rfl⟩ := symlink_ok h
        have hqc : q ≠ cache := by
          intro heq; subst heq; rw [habs] at hq; cases hq
        rw [write_other _ _ _ _ hqc]; exact hq

/-- … and real data in the cache that differs from the pool makes it refuse (`RuntimeError`). -/
theorem link_refuses_real_data (limit : Nat) (fs : FS) (cache pool : Path)
    (hreal : islink fs cache = false) (hex : pexists fs cache = true)
    (hdiff : compareLocal limit fs cache pool = false) :
    downloadLink limit fs cache pool = .error .runtimeError := by
  simp [downloadLink, compareLink, hreal, hex, hdiff]

/-- when it does link, the cache entry is a link to the pool path and nothing else changed -/
theorem link_result {limit : Nat} {fs fs' : FS} {cache pool : Path}
    (h : downloadLink limit fs cache pool = .ok fs') (hne : fs' ≠ fs) :
    fs' cache = .link pool ∧ ∀ q, q ≠ cache → fs' q = fs q := by
  unfold downloadLink at h
  split at h
  · cases h; exact absurd rfl hne
  · split at h
    · cases h
    · by_cases hl : islink fs cache = true
      · simp only [hl, if_true] at h
        cases hu : unlink fs cache with
        | error e => rw [hu] at h; cases h
        | ok fs1 =>
          rw [hu] at h
          obtain ⟨_, rfl⟩ := unlink_ok hu
          obtain ⟨_, rfl⟩ := symlink_ok h
          refine ⟨write_same _ _ _, fun q hq => ?_⟩
          rw [write_other _ _ _ _ hq, write_other _ _ _ _ hq]
      · have hl' : islink fs cache = false := by simpa using hl
        simp only [hl', Bool.false_eq_true, if_false] at h
        obtain ⟨_, rfl⟩ := symlink_ok h
        exact ⟨write_same _ _ _, fun q hq => write_other _ _ _ _ hq⟩

/-- `never_upload_link`: a link in the cache is refused before anything is locked or touched, also through
    the dispatcher (`;` in the pool location) … -/
theorem never_upload_link (limit : Nat) (fs : FS) (cache pool : Path) (spec : String)
    (hl : islink fs cache = true) :
    uploadLink limit fs cache pool = .error .valueError ∧
    (dispatch spec = .ok (.lnk, pool) → upload limit fs cache spec = .error .valueError) := by
  refine ⟨by simp [uploadLink, hl], ?_⟩
  intro hd
  simp [upload, hd, uploadLink, hl]

/-- … and no upload ever creates a link anywhere. -/
theorem upload_creates_no_link {limit : Nat} {fs fs' : FS} {cache pool : Path}
    (h : uploadLink limit fs cache pool = .ok fs' ∨ uploadLocal limit fs cache pool = .ok fs') :
    ∀ q t, fs' q = .link t → fs q = .link t := by
  have key : uploadLocal limit fs cache pool = .ok fs' → ∀ q t, fs' q = .link t → fs q = .link t := by
    intro h q t hq
    unfold uploadLocal at h
    split at h
    · cases h; exact hq
    · obtain ⟨d, _, _, rfl⟩ := copy_ok h
      by_cases hqp : q = resolve fs pool
      · subst hqp; rw [write_same] at hq; cases hq
      · rw [write_other _ _ _ _ hqp] at hq; exact hq
  rcases h with h | h
  · unfold uploadLink at h
    split at h
    · cases h
    · exact key h
  · exact key h

/-! ## (b) the critical section of one process is the big-step operation -/

/-- running the body of the `with image_lock` block step by step, undisturbed, is exactly the operation -/
theorem body_is_operation (limit : Nat) (fs : FS) (cache pool : Path) :
    runCS limit .dl cache pool 4 0 fs = downloadLocal limit fs cache pool ∧
    runCS limit .ul cache pool 4 0 fs = uploadLocal limit fs cache pool ∧
    runCS limit .del cache pool 4 0 fs = deleteLocal fs pool ∧
    runCS limit .dll cache pool 6 0 fs = downloadLink limit fs cache pool ∧
    (islink fs cache = false → runCS limit .ull cache pool 4 0 fs = uploadLink limit fs cache pool) := by
  refine ⟨?_, ?_, ?_, ?_, ?_⟩
  · unfold downloadLocal
    by_cases hc : compareLocal limit fs cache pool = true
    · simp [runCS, csLen, csStep, hc]
    · cases hcp : copy fs pool cache <;> simp [runCS, csLen, csStep, hc, liftCopy, hcp]
  · unfold uploadLocal
    by_cases hc : compareLocal limit fs cache pool = true
    · simp [runCS, csLen, csStep, hc]
    · cases hcp : copy fs cache pool <;> simp [runCS, csLen, csStep, hc, liftCopy, hcp]
  · unfold deleteLocal
    cases hu : unlink fs pool <;> simp [runCS, csLen, csStep, liftCopy, hu]
  · unfold downloadLink
    by_cases hc : compareLink limit fs cache pool = true
    · simp [runCS, csLen, csStep, hc]
    · by_cases hd : (!islink fs cache && pexists fs cache) = true
      · simp [runCS, csLen, csStep, hc, hd]
      · by_cases hl : islink fs cache = true
        · cases hu : unlink fs cache with
          | error e => simp [runCS, csLen, csStep, hc, hd, hl, liftCopy, hu]
          | ok fs1 =>
            cases hs : symlink fs1 pool cache <;>
              simp [runCS, csLen, csStep, hc, hd, hl, liftCopy, hu, hs]
        · have hl' : islink fs cache = false := by simpa using hl
          have hp : pexists fs cache = false := by simpa [hl'] using hd
          cases hs : symlink fs pool cache <;>
            simp [runCS, csLen, csStep, hc, hl', hp, liftCopy, hs]
  · intro hl
    unfold uploadLink uploadLocal
    by_cases hc : compareLocal limit fs cache pool = true
    · simp [runCS, csLen, csStep, hc, hl]
    · cases hcp : copy fs cache pool <;> simp [runCS, csLen, csStep, hc, hl, liftCopy, hcp]

/-! ## (b) mutual exclusion, release, timeout — any number of processes, any interleaving -/

/-- `mutex`: two processes inside critical sections on the same pool path are the same process. -/
theorem mutex {limit : Nat} {jobs : Nat → Job} {fs0 : FS} {s : State}
    (hr : Reachable limit jobs fs0 s) (p q i j : Nat)
    (hp : s.pc p = .inCS i) (hq : s.pc q = .inCS j) (hsame : (jobs p).pool = (jobs q).pool) : p = q := by
  obtain ⟨h1, _⟩ := inv_reachable hr
  have a := h1 p i hp
  have b := h1 q j hq
  rw [hsame, b] at a
  exact (Option.some.inj a).symm

/-- nobody is ever inside a critical section without owning the lock, and a lock is only ever owned by a
    process that is alive and inside its critical section on that very path (no stale locks). -/
theorem lock_owned_iff_inside {limit : Nat} {jobs : Nat → Job} {fs0 : FS} {s : State}
    (hr : Reachable limit jobs fs0 s) :
    (∀ p i, s.pc p = .inCS i → s.owner (jobs p).pool = some p) ∧
    (∀ path p, s.owner path = some p → (∃ i, s.pc p = .inCS i) ∧ (jobs p).pool = path) :=
  inv_reachable hr

/-- `released`: when the body raises (an injected exception or a failing file-system call), or the process
    dies inside the critical section, the lock cell is free in the very next state … -/
theorem released {limit : Nat} {jobs : Nat → Job} {s s' : State} {p i : Nat} {a : Act}
    (hp : s.pc p = .inCS i) (h : stepAct limit jobs s p a = some s')
    (hleft : ∀ k, s'.pc p ≠ .inCS k) : s'.owner (jobs p).pool = none := by
  unfold stepAct at h
  rw [hp] at h
  cases a with
  | start => simp at h
  | tryLock => simp at h
  | step =>
    simp only at h
    split at h
    · split at h
      · cases h
        exact absurd (setPc_same s p _) (hleft _)
      · cases h; simp [release, setOwner]
    · cases h
  | unlock =>
    simp only at h
    split at h
    · cases h; simp [release, setOwner]
    · cases h
  | raise => simp only at h; cases h; simp [release, setOwner]
  | crash => simp only at h; cases h; simp [release, setOwner]

/-- … both actions are always enabled inside a critical section (a crash or an exception at EVERY step) … -/
theorem fault_anywhere (limit : Nat) (jobs : Nat → Job) (s : State) (p i : Nat) (hp : s.pc p = .inCS i) :
    (∃ s', stepAct limit jobs s p .crash = some s' ∧ s'.pc p = .dead ∧ s'.owner (jobs p).pool = none) ∧
    (∃ s', stepAct limit jobs s p .raise = some s' ∧ s'.pc p = .failed .injected ∧
           s'.owner (jobs p).pool = none) := by
  constructor
  · refine ⟨release s p (jobs p).pool .dead (.crash p), ?_, ?_, ?_⟩
    · simp [stepAct, hp]
    · simp [release, setPc]
    · simp [release, setOwner]
  · refine ⟨release s p (jobs p).pool (.failed .injected) (.rel p (jobs p).pool), ?_, ?_, ?_⟩
    · simp [stepAct, hp]
    · simp [release, setPc]
    · simp [release, setOwner]

/-- … and a free lock is obtained by the next attempt of any waiting process that has attempts left. -/
theorem obtainable_when_free (limit : Nat) (jobs : Nat → Job) (s : State) (q k : Nat)
    (hq : s.pc q = .trying k) (hk : k < (jobs q).timeout) (hfree : s.owner (jobs q).pool = none) :
    ∃ s', stepAct limit jobs s q .tryLock = some s' ∧ s'.pc q = .inCS 0 ∧
          s'.owner (jobs q).pool = some q ∧ s'.fs = s.fs := by
  refine ⟨{ s with pc := setPc s q (.inCS 0), owner := setOwner s (jobs q).pool (some q),
                     hist := .acq q (jobs q).pool :: s.hist }, ?_, ?_, ?_, rfl⟩
  · simp [stepAct, hq, hk, hfree]
  · simp [setPc]
  · simp [setOwner]

/-- `timeout_raises`: a process whose attempts are used up can only raise `RuntimeError` (or die); it does
    not enter the critical section, and neither the files nor any lock cell change. -/
theorem timeout_raises {limit : Nat} {jobs : Nat → Job} {s s' : State} {p k : Nat} {a : Act}
    (hp : s.pc p = .trying k) (hk : (jobs p).timeout ≤ k) (h : stepAct limit jobs s p a = some s') :
    (s'.pc p = .failed .runtimeError ∨ s'.pc p = .dead) ∧ s'.fs = s.fs ∧ s'.owner = s.owner := by
  have hk' : ¬ k < (jobs p).timeout := by omega
  unfold stepAct at h
  rw [hp] at h
  cases a <;> simp only [hk', if_false] at h <;> first
    | (cases h; exact ⟨Or.inl (setPc_same s p _), rfl, rfl⟩)
    | (cases h; exact ⟨Or.inr (setPc_same s p _), rfl, rfl⟩)
    | (simp at h)

/-- a busy lock is never taken: the attempt of a waiting process on an owned lock only counts up -/
theorem busy_waits {limit : Nat} {jobs : Nat → Job} {s s' : State} {p k o : Nat}
    (hp : s.pc p = .trying k) (hown : s.owner (jobs p).pool = some o)
    (h : stepAct limit jobs s p .tryLock = some s') :
    (s'.pc p = .trying (k + 1) ∨ s'.pc p = .failed .runtimeError) ∧ s'.fs = s.fs ∧ s'.owner = s.owner := by
  unfold stepAct at h
  rw [hp] at h
  simp only [hown] at h
  split at h
  · cases h; exact ⟨Or.inl (setPc_same s p _), rfl, rfl⟩
  · cases h; exact ⟨Or.inr (setPc_same s p _), rfl, rfl⟩

/-- the files only ever change by a step of a process that is inside its critical section, holding the lock
    of its pool path ("rather than proceeding unlocked") -/
theorem files_change_only_under_lock {limit : Nat} {jobs : Nat → Job} {fs0 : FS} {s s' : State} {p : Nat}
    {a : Act} (hr : Reachable limit jobs fs0 s) (h : stepAct limit jobs s p a = some s')
    (hch : s'.fs ≠ s.fs) : (∃ i, s.pc p = .inCS i) ∧ s.owner (jobs p).pool = some p := by
  have hin : ∃ i, s.pc p = .inCS i := by
    unfold stepAct at h
    split at h
    · split at h <;> (cases h; exact absurd rfl hch)
    · split at h
      · split at h <;> (cases h; exact absurd rfl hch)
      · cases h; exact absurd rfl hch
    · rename_i i hpc; exact ⟨i, hpc⟩
    · rename_i i hpc; exact ⟨i, hpc⟩
    · rename_i i hpc; exact ⟨i, hpc⟩
    · rename_i i hpc; exact ⟨i, hpc⟩
    · cases h; exact absurd rfl hch
    · cases h; exact absurd rfl hch
    · cases h
  obtain ⟨i, hi⟩ := hin
  exact ⟨⟨i, hi⟩, (inv_reachable hr).1 p i hi⟩

/-! ## (b) the trace monitor -/

/-- soundness of `mutexTrace`, interval form: in an accepted trace
    * two acquisitions of the same path (by anybody) are separated by a release or the death of the first
      holder — critical sections on one path never overlap;
    * every file-system event, and every release, of `q` on `path` lies inside a critical section of `q` on
      `path` (its acquisition precedes with no release / death of `q` in between);
    * a process that reports a timeout holds no lock at that moment. -/
theorem mutexTrace_sound {t : List Event} (h : mutexTrace t = true) :
    (∀ u v w p q path, t = u ++ .acq p path :: v ++ .acq q path :: w → .rel p path ∈ v ∨ .crash p ∈ v) ∧
    (∀ u w q path, (t = u ++ .fsop q path :: w ∨ t = u ++ .rel q path :: w) →
        ∃ u1 u2, u = u1 ++ .acq q path :: u2 ∧ .rel q path ∉ u2 ∧ .crash q ∉ u2) ∧
    (∀ u w q path, t = u ++ .timeout q :: w → holdsR u.reverse q path = false) := by
  have ok_at : ∀ u e w, t = u ++ e :: w → okEvent (heldOf [] u) e = true := by
    intro u e w ht
    unfold mutexTrace at h
    rw [ht, monitorFrom_append] at h
    simp only [monitorFrom, Bool.and_eq_true] at h
    exact h.2.1
  refine ⟨?_, ?_, ?_⟩
  · intro u v w p q path ht
    have hok := ok_at (u ++ .acq p path :: v) (.acq q path) w (by simpa using ht)
    simp only [okEvent, Bool.not_eq_true'] at hok
    have hb := holdsAny_false hok p
    rw [holdsBy_heldOf] at hb
    have hrev : (u ++ .acq p path :: v).reverse = v.reverse ++ .acq p path :: u.reverse := by simp
    rw [hrev] at hb
    rcases released_after_acq _ _ _ _ hb with h1 | h1
    · left; simpa using h1
    · right; simpa using h1
  · intro u w q path ht
    have hok : holdsBy (heldOf [] u) q path = true := by
      rcases ht with ht | ht
      · have := ok_at u _ w ht; simpa [okEvent] using this
      · have := ok_at u _ w ht; simpa [okEvent] using this
    rw [holdsBy_heldOf] at hok
    obtain ⟨r1, r2, hr, h1, h2⟩ := acq_of_holdsR _ _ _ hok
    refine ⟨r2.reverse, r1.reverse, ?_, by simpa using h1, by simpa using h2⟩
    have := congrArg List.reverse hr
    simpa using this
  · intro u w q path ht
    have hok := ok_at u _ w ht
    simp only [okEvent, Bool.not_eq_true'] at hok
    have := holdsSome_false hok path
    rw [holdsBy_heldOf] at this
    exact this

/-- the monitor is not stricter than the protocol: the history of EVERY reachable state of the protocol
    machine (any number of processes, any interleaving, any fault) is accepted, and what the monitor
    believes to be held is exactly the lock cells of the state.  So the predicate the real traces are
    judged by is the one the model's runs satisfy. -/
theorem reachable_traces_accepted {limit : Nat} {jobs : Nat → Job} {fs0 : FS} {s : State}
    (hr : Reachable limit jobs fs0 s) :
    mutexTrace s.hist.reverse = true ∧
    ∀ p path, holdsBy (heldOf [] s.hist.reverse) p path = true ↔ s.owner path = some p :=
  traceInv_reachable hr

/-- `runActs` (what the driver replays real traces with) only produces reachable states -/
theorem runActs_reachable {limit : Nat} {jobs : Nat → Job} {fs0 : FS} {s s' : State}
    (hr : Reachable limit jobs fs0 s) (acts : List (Nat × Act))
    (h : runActs limit jobs s acts = some s') : Reachable limit jobs fs0 s' := by
  induction acts generalizing s with
  | nil => simp [runActs] at h; subst h; exact hr
  | cons pa rest ih =>
    obtain ⟨p, a⟩ := pa
    simp only [runActs] at h
    cases hs : stepAct limit jobs s p a with
    | none => rw [hs] at h; cases h
    | some s1 =>
      rw [hs] at h
      exact ih (Reachable.step p a hr hs) h

/-! ## Non-vacuity and the witnesses of the false full statements -/

section examples

/-- a cache file and a pool file that agree on the first 2 symbols and differ afterwards -/
private def fsPrefix : FS := fun q =>
  if q = "/c/img" then .file [7, 7, 1] else if q = "/p/img" then .file [7, 7, 2, 9] else .absent

/-- finding `skip-on-equal-prefix` in the model: the download succeeds, the cache is NOT what the pool holds -/
example : (match downloadLocal 2 fsPrefix "/c/img" "/p/img" with
           | .ok fs' => read fs' "/c/img" != read fs' "/p/img" | .error _ => false) = true := by decide
example : prefixFaithful 2 fsPrefix "/c/img" "/p/img" = false := by decide
/-- … and with the whole content hashed the same input is transferred exactly -/
example : (match downloadLocal 4 fsPrefix "/c/img" "/p/img" with
           | .ok fs' => read fs' "/c/img" == read fs' "/p/img" | .error _ => false) = true := by decide
example : prefixFaithful 4 fsPrefix "/c/img" "/p/img" = true ∧ islink fsPrefix "/p/img" = false := by decide
/-- for every limit: `replicate limit 0 ++ [1]` vs `replicate limit 0 ++ [2]` -/
example (limit : Nat) : ∃ x y : Data, x ≠ y ∧ x.take limit = y.take limit := by
  refine ⟨List.replicate limit 0 ++ [1], List.replicate limit 0 ++ [2], ?_, ?_⟩
  · intro h
    have := List.append_cancel_left h
    cases this
  · simp [List.take_append]

private def fsLink : FS := fun q =>
  if q = "/c/img" then .link "/p/other" else if q = "/p/other" then .file [1]
  else if q = "/p/img" then .file [2] else if q = "/c/real" then .file [3] else .absent

/-- link mode: a stale link is re-pointed, real data is refused, a link is not uploaded -/
example : (match downloadLink 9 fsLink "/c/img" "/p/img" with
           | .ok fs' => fs' "/c/img" == .link "/p/img" && fs' "/p/other" == .file [1] | .error _ => false) = true := by
  decide
example : (match downloadLink 9 fsLink "/c/real" "/p/img" with
           | .error e => e == .runtimeError | .ok _ => false) = true := by decide
example : (match upload 9 fsLink "/c/img" ":/p;/img" with
           | .error e => e == .valueError | .ok _ => false) = true := by decide
example : (match dispatch ":/p;/img" with
           | .ok (m, p) => m == .lnk && p == "/p/img" | .error _ => false) = true := by decide
/-- a plain download into a cache that is a link writes THROUGH the link (frame theorem, `resolve`) -/
example : (match downloadLocal 9 fsLink "/c/img" "/p/img" with
           | .ok fs' => fs' "/p/other" == .file [2] && fs' "/c/img" == .link "/p/other" | .error _ => false) = true := by
  decide

private def jobs2 : Nat → Job := fun p =>
  if p = 0 then { op := .ul, cache := "/c/real", pool := "/p/img", timeout := 2 }
  else { op := .del, cache := "", pool := "/p/img", timeout := 1 }

/-- a reachable state with process 0 inside its critical section and process 1 timed out -/
example : (match runActs 9 jobs2 (State.init fsLink)
                  [(0, .start), (1, .start), (0, .tryLock), (1, .tryLock), (1, .tryLock), (0, .step)] with
           | some s => s.pc 0 == .inCS 1 && s.pc 1 == .failed .runtimeError && s.owner "/p/img" == some 0
           | none => false) = true := by decide
/-- the lock is obtainable after the holder died inside the critical section -/
example : (match runActs 9 jobs2 (State.init fsLink)
                  [(0, .start), (1, .start), (0, .tryLock), (0, .step), (0, .crash), (1, .tryLock), (1, .step),
                   (1, .unlock)] with
           | some s => s.pc 0 == .dead && s.pc 1 == .done && s.owner "/p/img" == none && s.fs "/p/img" == .absent
           | none => false) = true := by decide
/-- the history of that run, as the monitor sees it -/
example : (match runActs 9 jobs2 (State.init fsLink)
                  [(0, .start), (1, .start), (0, .tryLock), (0, .step), (0, .crash), (1, .tryLock), (1, .step),
                   (1, .unlock)] with
           | some s => s.hist.reverse == [.acq 0 "/p/img", .fsop 0 "/p/img", .crash 0, .acq 1 "/p/img",
                                          .fsop 1 "/p/img", .rel 1 "/p/img"] && mutexTrace s.hist.reverse
           | none => false) = true := by decide
/-- the monitor accepts a hand-over after a death and rejects an overlap and an unlocked access -/
example : mutexTrace [.acq 1 "P", .fsop 1 "P", .crash 1, .acq 2 "P", .fsop 2 "P", .rel 2 "P", .timeout 3] = true := by
  decide
example : mutexTrace [.acq 1 "P", .acq 2 "P"] = false := by decide
example : mutexTrace [.acq 1 "P", .rel 1 "P", .fsop 1 "P"] = false := by decide

end examples

/-! ## The regenerated compare-then-copy decisions (`harness/pygen.py`)

`I2N/Extracted/GenTransfer.lean` is regenerated on every run from the source of `TransferOps.compare_local`,
`compare_link`, `download_local`, `upload_local`, `delete_local`, `download_link`, `upload_link` (Python AST → Lean `do`
block in the state monad `M = StateT FS (Except Err)`: `os.path.exists` / `islink` / `realpath` read the file system,
`shutil.copy` / `os.unlink` / `os.symlink` replace it or raise, `with image_lock(…)` is translated in place — the lock
protocol is part (b) —, `os.makedirs` and log calls are dropped, `raise` is `throw`).  The theorems say that the hand
written big-step operations of `I2N.Transfer` ARE these functions: which comparison is made, what is skipped, what is
copied where, which error is raised, in which order. -/

section Regenerated
open I2N.Extracted.GenTransfer

/-- the number of leading bytes `compare_local` hashes, as written in the Python source (`hash_file(path, 1048576, …)`) -/
def sourceLimit : Nat := 1048576

/-- what a translated function of type `M Unit` makes of a file system, in the vocabulary of the model -/
def runM (m : M Unit) (fs : FS) : Except Err FS := (m.run fs).map (·.2)

local macro "m_simp" " [" ts:Lean.Parser.Tactic.simpLemma,* "]" : tactic => `(tactic|
  simp [readFS, stepFS, StateT.run, bind, StateT.bind, Except.bind, Except.map, pure, StateT.pure, Except.pure, throw,
    throwThe, MonadExceptOf.throw, StateT.lift, liftM, monadLift, MonadLift.monadLift, $ts,*])

/-- **`compareLocal` is the Python source of `compare_local`** (with the limit written in the source), for all file
systems and paths.  No hypotheses. -/
theorem compareLocal_matches_source (fs : FS) (cache pool : Path) :
    genCompareLocal fs cache pool = compareLocal sourceLimit fs cache pool := by
  unfold genCompareLocal compareLocal digest pexists hashFile noHash sourceLimit
  cases h1 : read fs cache <;> cases h2 : read fs pool <;> simp <;> rfl

/-- **`compareLink` is the Python source of `compare_link`.**  No hypotheses. -/
theorem compareLink_matches_source (fs : FS) (cache pool : Path) :
    genCompareLink fs cache pool = compareLink sourceLimit fs cache pool := by
  unfold genCompareLink compareLink
  cases h : islink fs cache <;> simp [compareLocal_matches_source]

/-- **`downloadLocal` is the Python source of `download_local`**: same resulting file system or the same error, for all
file systems and paths.  No hypotheses. -/
theorem downloadLocal_matches_source (fs : FS) (cache pool : Path) :
    runM (genDownloadLocal cache pool) fs = downloadLocal sourceLimit fs cache pool := by
  unfold runM genDownloadLocal downloadLocal
  rw [← compareLocal_matches_source]
  cases h : genCompareLocal fs cache pool
  · m_simp [h]
    cases copy fs pool cache <;> rfl
  · m_simp [h]

/-- **`uploadLocal` is the Python source of `upload_local`.**  No hypotheses. -/
theorem uploadLocal_matches_source (fs : FS) (cache pool : Path) :
    runM (genUploadLocal cache pool) fs = uploadLocal sourceLimit fs cache pool := by
  unfold runM genUploadLocal uploadLocal
  rw [← compareLocal_matches_source]
  cases h : genCompareLocal fs cache pool
  · m_simp [h]
    cases copy fs cache pool <;> rfl
  · m_simp [h]

/-- **`deleteLocal` is the Python source of `delete_local`.**  No hypotheses. -/
theorem deleteLocal_matches_source (fs : FS) (pool : Path) :
    runM (genDeleteLocal pool) fs = deleteLocal fs pool := by
  unfold runM genDeleteLocal deleteLocal
  m_simp []
  cases unlink fs pool <;> rfl

/-- **`uploadLink` is the Python source of `upload_link`** (a symbolic link is refused before anything else).  No
hypotheses. -/
theorem uploadLink_matches_source (fs : FS) (cache pool : Path) :
    runM (genUploadLink cache pool) fs = uploadLink sourceLimit fs cache pool := by
  unfold genUploadLink uploadLink
  rw [← uploadLocal_matches_source]
  cases h : islink fs cache
  · unfold runM; m_simp [h]
    generalize genUploadLocal cache pool fs = r
    cases r <;> rfl
  · unfold runM; m_simp [h]

/-- **`downloadLink` is the Python source of `download_link`**: skip when `compare_link` holds, refuse to replace real
data, drop an existing link, then link — in this order.  No hypotheses. -/
theorem downloadLink_matches_source (fs : FS) (cache pool : Path) :
    runM (genDownloadLink cache pool) fs = downloadLink sourceLimit fs cache pool := by
  unfold runM genDownloadLink downloadLink
  rw [← compareLink_matches_source]
  cases h : genCompareLink fs cache pool
  · cases h1 : islink fs cache <;> cases h2 : pexists fs cache
    all_goals m_simp [h, h1, h2]
    all_goals first
      | (cases symlink fs pool cache <;> rfl)
      | (cases unlink fs cache with
         | error e => rfl
         | ok v => dsimp only; cases symlink v pool cache <;> rfl)
  · m_simp [h]

/-- the generated functions compute: a download copies a missing file, an identical one is left alone, a missing pool
file raises, real data is never replaced by a link, a link is never uploaded -/
def fsEx : FS := fun p => if p = "/pool/a" then .file [1, 2, 3] else if p = "/cache/b" then .file [7] else
  if p = "/cache/l" then .link "/pool/a" else .absent
example : (runM (genDownloadLocal "/cache/a" "/pool/a") fsEx).map (fun fs => (fs "/cache/a", fs "/pool/a")) =
    .ok (.file [1, 2, 3], .file [1, 2, 3]) := by rfl
example : genCompareLocal fsEx "/cache/l" "/pool/a" = true ∧ genCompareLocal fsEx "/cache/b" "/pool/a" = false ∧
    genCompareLink fsEx "/cache/l" "/pool/a" = true ∧ genCompareLink fsEx "/cache/l" "/pool/x" = false := by decide
example : (runM (genDownloadLocal "/cache/a" "/pool/none") fsEx).map (fun fs => fs "/cache/a") = .ok .absent := by rfl
example : (runM (genDownloadLocal "/cache/b" "/pool/none") fsEx).map (fun fs => fs "/cache/b") = .error .fileNotFound := by rfl
example : (runM (genDownloadLink "/cache/b" "/pool/a") fsEx).map (fun fs => fs "/cache/b") = .error .runtimeError := by rfl
example : (runM (genDownloadLink "/cache/l" "/pool/x") fsEx).map (fun fs => fs "/cache/l") = .ok (.link "/pool/x") := by rfl
example : (runM (genUploadLink "/cache/l" "/pool/a") fsEx).map (fun fs => fs "/pool/a") = .error .valueError := by rfl
example : (runM (genDeleteLocal "/pool/a") fsEx).map (fun fs => fs "/pool/a") = .ok .absent := by rfl

/-! ### The dispatchers `download` / `upload` / `delete` -/

theorem isInfixL_single (c : Char) (l : List Char) : I2N.Rules.isInfixL [c] l = l.contains c := by
  induction l with
  | nil => rfl
  | cons b bs ih =>
    simp only [I2N.Rules.isInfixL, I2N.Rules.isPrefixL, ih, List.contains_cons, Bool.and_true]

/-- Python's `";" in path` (substring test of `I2N.Rules`) is the model's character test -/
theorem isSubstr_semicolon (p : List Char) : I2N.Rules.isSubstr ";" (String.ofList p) = p.contains ';' := by
  have h : (String.ofList p).toList = p := String.toList_ofList
  unfold I2N.Rules.isSubstr
  rw [h]
  exact isInfixL_single ';' p

theorem ofList_eq_empty (l : List Char) : (String.ofList l == "") = (l == []) := by
  cases l with
  | nil => rfl
  | cons a l =>
    have : String.ofList (a :: l) ≠ "" := by
      intro h
      have := congrArg String.toList h
      simp at this
    rw [beq_eq_false_iff_ne.mpr this]; rfl

theorem removeChar_ofList (p : List Char) :
    pyRemoveChar ';' (String.ofList p) = String.ofList (p.filter (· != ';')) := by
  unfold pyRemoveChar
  have h : (String.ofList p).toList = p := String.toList_ofList
  rw [h]

/-- **`download` is the Python source of `TransferOps.download`**: the location string is split at `:`, anything but two parts is
a `ValueError`, a host part means a remote transfer (outside the model), a `;` in the path selects link mode and is
removed, everything else is local mode.  No hypotheses. -/
theorem download_matches_source (fs : FS) (cache spec : String) :
    runM (genDownload cache spec) fs = download sourceLimit fs cache spec := by
  unfold genDownload download dispatch splitColonStr remoteM
  generalize splitColon spec.toList = parts
  match parts with
  | [] => unfold runM; m_simp []
  | [a] => unfold runM; m_simp []
  | a :: b :: c :: r => unfold runM; m_simp []
  | [a, b] =>
    unfold runM
    m_simp [ofList_eq_empty, isSubstr_semicolon, removeChar_ofList]
    by_cases ha : a = [] <;> by_cases hb : ';' ∈ b <;> simp only [ha, hb, if_true, if_false]
    · rw [← downloadLink_matches_source]; unfold runM; m_simp []
      generalize genDownloadLink cache (String.ofList (List.filter (fun x => x != ';') b)) fs = r
      cases r <;> rfl
    · rw [← downloadLocal_matches_source]; unfold runM; m_simp []
      generalize genDownloadLocal cache (String.ofList b) fs = r
      cases r <;> rfl
    · rfl
    · rfl

/-- **`upload` is the Python source of `TransferOps.upload`**: the location string is split at `:`, anything but two parts is
a `ValueError`, a host part means a remote transfer (outside the model), a `;` in the path selects link mode and is
removed, everything else is local mode.  No hypotheses. -/
theorem upload_matches_source (fs : FS) (cache spec : String) :
    runM (genUpload cache spec) fs = upload sourceLimit fs cache spec := by
  unfold genUpload upload dispatch splitColonStr remoteM
  generalize splitColon spec.toList = parts
  match parts with
  | [] => unfold runM; m_simp []
  | [a] => unfold runM; m_simp []
  | a :: b :: c :: r => unfold runM; m_simp []
  | [a, b] =>
    unfold runM
    m_simp [ofList_eq_empty, isSubstr_semicolon, removeChar_ofList]
    by_cases ha : a = [] <;> by_cases hb : ';' ∈ b <;> simp only [ha, hb, if_true, if_false]
    · rw [← uploadLink_matches_source]; unfold runM; m_simp []
      generalize genUploadLink cache (String.ofList (List.filter (fun x => x != ';') b)) fs = r
      cases r <;> rfl
    · rw [← uploadLocal_matches_source]; unfold runM; m_simp []
      generalize genUploadLocal cache (String.ofList b) fs = r
      cases r <;> rfl
    · rfl
    · rfl

/-- **`delete` is the Python source of `TransferOps.delete`**: the location string is split at `:`, anything but two parts is
a `ValueError`, a host part means a remote transfer (outside the model), a `;` in the path selects link mode and is
removed, everything else is local mode.  No hypotheses. -/
theorem delete_matches_source (fs : FS) (spec : String) :
    runM (genDelete spec) fs = delete fs spec := by
  unfold genDelete delete dispatch splitColonStr remoteM
  generalize splitColon spec.toList = parts
  match parts with
  | [] => unfold runM; m_simp []
  | [a] => unfold runM; m_simp []
  | a :: b :: c :: r => unfold runM; m_simp []
  | [a, b] =>
    unfold runM
    m_simp [ofList_eq_empty, isSubstr_semicolon, removeChar_ofList]
    by_cases ha : a = [] <;> by_cases hb : ';' ∈ b <;> simp only [ha, hb, if_true, if_false]
    · rw [← deleteLocal_matches_source]; unfold runM; m_simp []
      generalize genDeleteLocal (String.ofList (List.filter (fun x => x != ';') b)) fs = r
      cases r <;> rfl
    · rw [← deleteLocal_matches_source]; unfold runM; m_simp []
      generalize genDeleteLocal (String.ofList b) fs = r
      cases r <;> rfl
    · rfl
    · rfl

/-- the generated dispatchers compute: local mode, link mode (the `;` is dropped), a remote location, a malformed one -/
example : (runM (genDownload "/cache/a" ":/pool/a") fsEx).map (fun fs => fs "/cache/a") = .ok (.file [1, 2, 3]) := by rfl
example : (runM (genDownload "/cache/a" ":/pool;/a") fsEx).map (fun fs => fs "/cache/a") = .ok (.link "/pool/a") := by rfl
example : (runM (genUpload "/cache/b" "host:/pool/a") fsEx).map (fun fs => fs "/pool/a") = .error .notModelled := by rfl
example : (runM (genDelete "/pool/a") fsEx).map (fun fs => fs "/pool/a") = .error .valueError := by rfl
example : (runM (genDelete ":/pool/a") fsEx).map (fun fs => fs "/pool/a") = .ok .absent := by rfl

end Regenerated

end I2N.Props.C14
