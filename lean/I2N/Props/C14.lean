import I2N.Model.Transfer
namespace I2N.Props.C14
open I2N.Transfer
theorem placeholder : True := trivial
end I2N.Props.C14
